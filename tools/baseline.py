#!/usr/bin/env python3
"""Run the repository's pinned test suite with the hook guard OFF and compare with BASELINE.json.
usage: tools/baseline.py [repo_dir]   (default /repo)"""
import json, os, subprocess, sys, tempfile, xml.etree.ElementTree as ET
repo = sys.argv[1] if len(sys.argv) > 1 else "/repo"
base = json.load(open("/root/.vp/BASELINE.json"))
out = tempfile.mktemp(suffix=".xml", dir="/root/scratch")
env = dict(os.environ); env.pop("LANL_PYSEQM_VERIF", None)
p = subprocess.run(["/venv/bin/python", "-m", "pytest", "-ra", "-q", "-p", "no:cacheprovider", "--timeout=900",
                    "--continue-on-collection-errors", "-n", os.environ.get("NPYTEST", "0"), f"--junitxml={out}"] if False else
                   ["/venv/bin/python", "-m", "pytest", "-ra", "-q", "-p", "no:cacheprovider", "--timeout=900",
                    "--continue-on-collection-errors", f"--junitxml={out}"], cwd=repo, env=env, capture_output=True, text=True)
passed = set()
for tc in ET.parse(out).getroot().iter("testcase"):
    if not any(ch.tag in ("failure", "error", "skipped") for ch in tc):
        passed.add(f"{tc.get('classname')}::{tc.get('name')}")
os.remove(out)
missing = [t for t in base["stable_pass"] if t not in passed]
print(f"passed {len(passed)}; baseline stable {len(base['stable_pass'])}; missing from pass set: {len(missing)}")
for t in missing: print("  MISSING", t)
print(p.stdout[-1500:])
sys.exit(1 if missing else 0)
