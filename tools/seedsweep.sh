#!/bin/bash
# run every check (tier $1, default quick) for several seeds; print one line per run; non-zero exits are listed at the end
tier=${1:-quick}; shift
seeds=${@:-1 2 3}
cd "$(dirname "$0")/.."
bad=0
for s in $seeds; do
  for p in C01 C02 C03 C04 C05 C06 C07 C08 C09 C10 C11 C12 C13 C14 C15 C16 C17 C18 C19 C20; do
    out=$(VERIF_SEED=$s ./check $p --tier $tier 2>&1); rc=$?
    echo "seed=$s $(echo "$out" | grep "^\[$p\]") rc=$rc"
    if [ $rc -ne 0 ]; then bad=$((bad+1)); echo "$out" | grep -v "^KNOWN" | tail -5; fi
  done
done
echo "non-zero exits: $bad"
