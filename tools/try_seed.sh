#!/bin/bash
# usage: tools/try_seed.sh <seed_dir> <prop> [more props...]
#   applies the seeded change to /repo (or, with MUT=1, to the scratch worktree /tmp/mut used through VF_REPO so that
#   other runs against /repo are not disturbed), runs the quick checks, undoes the change.
d=$(realpath $1); shift
cd /verif
if [ -n "$MUT" ]; then repo=/tmp/mut; export VF_REPO=/tmp/mut; git -C /repo worktree list | grep -q /tmp/mut || git -C /repo worktree add -q --detach /tmp/mut HEAD; git -C /tmp/mut checkout -q --detach main; else repo=/repo; fi
git -C $repo apply $d/patch.diff || exit 2
for p in "$@"; do
  out=$(./check $p 2>&1); rc=$?
  echo "== $p rc=$rc"; echo "$out" | grep -v "^KNOWN" | tail -4
  echo "$out" > $d/check_$p.log
done
git -C $repo checkout -- .
git -C $repo status --short | head -3
# Generated/*.lean were regenerated from the changed tree: bring them back to /repo's working tree
unset VF_REPO
PYTHONPATH=/verif /venv/bin/python - >/dev/null 2>&1 <<'PY'
from vf.translate import gen
for f in gen.GENERATORS.values():
    f()
PY
