#!/bin/bash
# usage: tools/try_seed.sh <seed_dir> <prop> [more props...]: apply the seeded change to /repo, run the quick checks, undo.
d=$(realpath $1); shift
cd /verif
git -C /repo apply $d/patch.diff || exit 2
for p in "$@"; do
  out=$(./check $p 2>&1); rc=$?
  echo "== $p rc=$rc"; echo "$out" | grep -v "^KNOWN" | tail -4
  echo "$out" > $d/check_$p.log
done
git -C /repo checkout -- .
git -C /repo status --short | head -3
