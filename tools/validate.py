#!/usr/bin/env python3
"""validate MANIFEST.json and evidence/*.json against the schemas (run with python3-vt: needs jsonschema)"""
import json, sys, glob, jsonschema
ms = json.load(open("/root/.vp/MANIFEST.schema.json")); es = json.load(open("/root/.vp/EVIDENCE.schema.json"))
bad = 0
try:
    jsonschema.validate(json.load(open("/verif/MANIFEST.json")), ms); print("MANIFEST ok")
except Exception as e:
    bad += 1; print("MANIFEST INVALID", str(e)[:500])
for f in sorted(glob.glob("/verif/evidence/*.json")):
    try:
        ev = json.load(open(f)); jsonschema.validate(ev, es)
        c = ev["coverage"]
        print(f.split("/")[-1], "ok", ev["tier"], "obl %s/%s" % (c.get("discharged"), c.get("obligations")), "eval", c.get("evaluations"), "distinct", c.get("distinct_nontrivial"), "viol", ev.get("violations"), "wall", ev["wall_s"])
    except Exception as e:
        bad += 1; print(f, "INVALID", str(e)[:500])
sys.exit(1 if bad else 0)
