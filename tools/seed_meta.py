#!/usr/bin/env python3
"""Writes seeded/<id>/meta.json from seeded/INDEX.json + the confirmation/check logs in each directory,
and prints the markdown detection matrix used in DESIGN.md section 10.5.   usage: python3 tools/seed_meta.py [--md]"""
import glob
import json
import os
import re
import sys

root = os.path.join(os.path.dirname(os.path.abspath(__file__)), "..", "seeded")
idx = json.load(open(os.path.join(root, "INDEX.json")))
rows = []
for sid, e in idx.items():
    d = os.path.join(root, sid)
    if not os.path.isdir(d):
        continue
    conf = {}
    p = os.path.join(d, "confirm.txt")
    if os.path.exists(p):
        L = open(p).read().splitlines()
        for ln in L:
            if "=" in ln:
                k, v = ln.split("=", 1)
                conf[k] = v
            elif "passed" in ln or "failed" in ln:
                conf["suite_with_change"] = ln.strip()
    checks = {}
    for f in sorted(glob.glob(os.path.join(d, "check_*.log"))):
        prop = os.path.basename(f)[6:-4]
        txt = open(f).read()
        m = re.findall(r"^\[(C\d+)\].*failures=(\d+) known=(\d+) exit=(\d+)", txt, re.M)
        viol = len(re.findall(r"^VIOLATION property=", txt, re.M))
        nofail = "no-failing-input-found" in txt
        checks[prop] = {"exit": int(m[-1][3]) if m else None, "violation_lines": viol, "no_failing_input_found": nofail}
    meta = {
        "id": sid,
        "property": e["property"],
        "mechanism": e["mechanism"],
        "needs_to_manifest": e["needs"],
        "files": {"patch": "patch.diff", "demonstration": "demo.py", "author_notes": "notes.md"},
        "confirmed_in_scratch_worktree": {
            "how": "tools/confirm_seed.sh: fresh `git worktree` of /repo HEAD under /tmp; demo.py without the change, `git apply patch.diff`, demo.py with the change, then the pinned suite (BASELINE command, the always-failing test deselected); worktree removed afterwards",
            "demo_exit_without_change": conf.get("demo_without_change_exit"),
            "demo_exit_with_change": conf.get("demo_with_change_exit"),
            "suite_with_change": conf.get("suite_with_change"),
        },
        "checks_run_against_it": {
            "how": "tools/try_seed.sh: `git apply` onto a scratch worktree used through VF_REPO (or /repo itself, undone with `git checkout -- .`), ./check <prop> (quick, seed 0), logs kept as check_<prop>.log",
            "results": checks,
        },
        "caught_by": e["caught_by"],
        "initially_missed": e["initially_missed"],
        "strengthened": e.get("strengthened", ""),
    }
    json.dump(meta, open(os.path.join(d, "meta.json"), "w"), indent=1)
    rows.append(meta)

if "--md" in sys.argv:
    print("| seed | property | what the change does | needs | caught by | first run | strengthening |")
    print("|---|---|---|---|---|---|---|")
    for m in rows:
        print(f"| {m['id']} | {m['property']} | {m['mechanism']} | {m['needs_to_manifest']} | {m['caught_by']} | {'missed' if m['initially_missed'] else 'caught'} | {m['strengthened'] or '—'} |")
else:
    print(f"{len(rows)} meta.json written")

if "--design" in sys.argv:
    dp = os.path.join(root, "..", "DESIGN.md")
    s = open(dp).read()
    a, b = "<!-- SEED-MATRIX-BEGIN -->", "<!-- SEED-MATRIX-END -->"
    i, j = s.index(a) + len(a), s.index(b)
    tbl = ["", "| seed | property | what the change does | needs, to manifest | caught by | first run | strengthening |", "|---|---|---|---|---|---|---|"]
    for m in rows:
        tbl.append(f"| {m['id']} | {m['property']} | {m['mechanism']} | {m['needs_to_manifest']} | {m['caught_by']} | {'missed' if m['initially_missed'] else 'caught'} | {m['strengthened'] or '—'} |")
    open(dp, "w").write(s[:i] + "\n".join(tbl) + "\n" + s[j:])
    print("DESIGN.md matrix updated")
