#!/bin/bash
# usage: tools/confirm_seed.sh <seed_dir containing patch.diff demo.py> <tag>
# confirms in a scratch worktree: demo passes without the change, fails with it, and the pinned suite still passes with it.
d=$1; tag=$2; wt=/tmp/cs_$tag
git -C /repo worktree remove --force $wt 2>/dev/null
git -C /repo worktree add -q --detach $wt HEAD || exit 2
cd $wt
export OMP_NUM_THREADS=4 PYTHONPATH=$wt PYTHONWARNINGS=ignore SEQM_WORKTREE=$wt SEQM_ROOT=$wt
res=$d/confirm.txt; : > $res
timeout 600 /venv/bin/python $d/demo.py > $d/demo_without.log 2>&1; echo "demo_without_change_exit=$?" >> $res
git apply $d/patch.diff || { echo "patch_does_not_apply" >> $res; cd /; git -C /repo worktree remove --force $wt; exit 2; }
timeout 600 /venv/bin/python $d/demo.py > $d/demo_with.log 2>&1; echo "demo_with_change_exit=$?" >> $res
/venv/bin/python -m pytest -q -p no:cacheprovider --timeout=900 > $d/suite_with.log 2>&1
tail -1 $d/suite_with.log >> $res
grep -c "^FAILED" $d/suite_with.log >> $res
grep "^FAILED" $d/suite_with.log >> $res
cd /; git -C /repo worktree remove --force $wt
cat $res
