#!/bin/bash
# final detection sweep: every seeded change against the check of its own property (quick tier, seed 0), applied to the scratch worktree /tmp/mut
# (git worktree of /repo HEAD, used through VF_REPO).  Logs go to seeded/<id>/check_<prop>.log; then tools/seed_meta.py refreshes meta.json.
cd "$(dirname "$0")/.."
git -C /repo worktree list | grep -q /tmp/mut || git -C /repo worktree add -q --detach /tmp/mut HEAD
git -C /tmp/mut checkout -q --detach main
for d in seeded/C*_*/; do
  id=$(basename $d); prop=${id%%_*}
  if ! git -C /tmp/mut apply --check $(realpath $d/patch.diff) 2>/dev/null; then echo "$id patch-does-not-apply-on-HEAD"; continue; fi
  out=$(MUT=1 tools/try_seed.sh $d $prop 2>&1 | grep "^\[$prop\]\|^== ")
  echo "$id $(echo $out | tr '\n' ' ')"
done
