import DriverIndex

/-! Line protocol: one request per line (space-separated tokens, first token = operation),
    one answer line per request.  Floats cross the boundary as IEEE-754 bit patterns written
    as decimal UInt64.  Unknown operations answer `bad-op` (never a default value). -/

partial def loop (h : IO.FS.Stream) (out : IO.FS.Stream) : IO Unit := do
  let line ← h.getLine
  if line.isEmpty then return ()
  let toks := (line.trimAscii.toString.splitOn " ").filter (· ≠ "")
  match dispatchAll toks with
  | some s => out.putStrLn s
  | none => out.putStrLn "bad-op"
  out.flush
  loop h out

def main : IO Unit := do
  loop (← IO.getStdin) (← IO.getStdout)
