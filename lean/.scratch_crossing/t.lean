import PyseqmVerif.Model.Crossing
open Crossing
def sw : Row := [[10,950],[950,10]]
def idm : Row := [[990,0],[0,990]]
#eval handle ("crossing 2 2 900 0 0 -1 10 950 950 10 1 0 0 0 -1 990 0 0 990 0 1".splitOn " ")
-- probe at idx 0 (holdoff, prev=1?, active 0 has partner), detect at idx 2
#eval handle ("crossing 3 2 900 0 2 0 10 950 950 10 1 0  0 0 -1 990 0 0 990 0 1  1 0 -1 10 950 950 10 1 0".splitOn " " |>.filter (· ≠ ""))
#eval detectBatch 2 900 (fun _ => [1,0]) [⟨0,2,0,sw⟩, ⟨0,0,-1,idm⟩, ⟨1,0,-1,sw⟩]
#eval detectBatchBuggy 2 900 (fun _ => [1,0]) [⟨0,2,0,sw⟩, ⟨0,0,-1,idm⟩, ⟨1,0,-1,sw⟩]
#eval detectBatch 2 900 (fun _ => [1,0]) [⟨0,2,1,sw⟩, ⟨0,0,-1,idm⟩, ⟨1,0,-1,sw⟩]
#eval detectBatch 3 900 (fun _ => [1,2,0]) [⟨0,0,-1,[[0,950,0],[0,0,950],[950,0,0]]⟩]
#eval (detectOne 3 900 (fun _ => [1,2,0]) ⟨0,0,-1,[[0,950,0],[0,0,950],[950,0,0]]⟩)
#eval (detectAlone 3 900 (fun _ => [1,2,0]) ⟨0,0,-1,[[0,950,0],[0,0,950],[950,0,0]]⟩)
