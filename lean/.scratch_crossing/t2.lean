open List in
#check @List.filterMap_congr
example (l : List Nat) (f g : Nat → Option Nat) (h : ∀ x ∈ l, f x = g x) : l.filterMap f = l.filterMap g := by
  exact?
