#check @List.mem_zipIdx_iff_getElem?
#check @List.mem_filterMap
#check @List.mk_mem_zipIdx_iff_getElem?
#check @Int.toNat_natCast
#check @Int.toNat_of_nonneg
