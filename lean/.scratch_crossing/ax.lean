import PyseqmVerif.Properties.C17b
#print axioms C17b.crossing_isolation
#print axioms C17b.detectAlone_eq_detectOne
#print axioms C17b.crossing_isolation_between_batches
#print axioms C17b.crossing_rows_are_involutions
#print axioms C17b.crossing_rows_not_involution_witness
#print axioms C17b.wrong_index_map_witness
#print axioms C17b.wrong_index_map_invisible_without_holdoff
#print axioms C17b.wrong_index_map_invisible_no_history
#print axioms C17b.none_iff
#print axioms C17b.none_iff_explicit
