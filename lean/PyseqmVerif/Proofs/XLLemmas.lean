import PyseqmVerif.Model.XLBuffer
import Mathlib.Tactic.Ring
import Mathlib.Tactic.Linarith
import Mathlib.Tactic.NormNum
import Mathlib.Algebra.BigOperators.Fin
import Mathlib.Algebra.BigOperators.Intervals
import Mathlib.Data.Real.Basic
/-!
# Helper lemmas for C09: list sums of the XL-BOMD buffer model as `Finset` sums, phase arithmetic,
the history recurrence (specification) and the refinement invariant.
-/
namespace XLBuffer
open Finset

/-! ## list plumbing at `ℝ` -/

theorem foldl_add_eq (l : List ℝ) (a : ℝ) : l.foldl (· + ·) a = a + l.sum := by
  induction l generalizing a with
  | nil => simp
  | cons x xs ih => simp [List.foldl_cons, List.sum_cons, ih, add_assoc]

theorem sumSeq_eq_sum (l : List ℝ) : sumSeq l = l.sum := by
  cases l with
  | nil => simp [sumSeq]
  | cons x xs => simp [sumSeq, foldl_add_eq]

theorem list_sum_eq_range (l : List ℝ) : l.sum = ∑ q ∈ range l.length, l.getD q 0 := by
  induction l with
  | nil => simp
  | cons x xs ih =>
    rw [List.sum_cons, List.length_cons, Finset.sum_range_succ', ih]
    simp [add_comm]

theorem getD_window (coeff : List ℝ) (c m q : ℕ) (hq : q < m) :
    (window coeff c m).getD q 0 = coeff.getD (c + q) 0 := by
  simp [window, List.getD_eq_getElem?_getD, hq]

theorem length_window (coeff : List ℝ) (c m : ℕ) (h : c + m ≤ coeff.length) :
    (window coeff c m).length = m := by
  simp [window]; omega

/-- the history term of `_propagate_P` as a finite sum over buffer slots -/
theorem histTerm_eq (coeff Pt : List ℝ) (m c : ℕ) (hPt : Pt.length = m) (hc : c + m ≤ coeff.length) :
    histTerm coeff m c Pt = ∑ q ∈ range m, coeff.getD (c + q) 0 * Pt.getD q 0 := by
  unfold histTerm
  rw [sumSeq_eq_sum, list_sum_eq_range]
  have hl : (List.zipWith (· * ·) (window coeff c m) Pt).length = m := by
    simp [length_window coeff c m hc, hPt]
  rw [hl]
  refine Finset.sum_congr rfl (fun q hq => ?_)
  have hq' : q < m := mem_range.mp hq
  have h1 : q < (window coeff c m).length := by rw [length_window coeff c m hc]; exact hq'
  have h2 : q < Pt.length := by rw [hPt]; exact hq'
  rw [← getD_window coeff c m q hq']
  simp [List.getD_eq_getElem?_getD, List.getElem?_zipWith, List.getElem?_eq_getElem h1,
    List.getElem?_eq_getElem h2]

theorem getD_set (l : List ℝ) (i q : ℕ) (v : ℝ) (hi : i < l.length) :
    (l.set i v).getD q 0 = if q = i then v else l.getD q 0 := by
  simp only [List.getD_eq_getElem?_getD, List.getElem?_set]
  by_cases h : i = q
  · subst h; simp [hi]
  · have h' : ¬ q = i := fun e => h e.symm
    simp [h, h']

/-! ## phase arithmetic -/

theorem mod_lt2 (a m : ℕ) (h : a < 2 * m) : a % m = if a < m then a else a - m := by
  split_ifs with h1
  · exact Nat.mod_eq_of_lt h1
  · rw [Nat.mod_eq_sub_mod (by omega), Nat.mod_eq_of_lt (by omega)]

theorem succ_mod (n m : ℕ) (hm : 0 < m) :
    (n + 1) % m = if n % m + 1 = m then 0 else n % m + 1 := by
  have hc : n % m < m := Nat.mod_lt _ hm
  have h0 : (n + 1) % m = (n % m + 1) % m := by
    conv_lhs => rw [← Nat.mod_add_div n m]
    rw [Nat.add_assoc, Nat.add_comm (m * (n / m)) 1, ← Nat.add_assoc, Nat.add_mul_mod_self_left]
  rw [h0]
  split_ifs with h
  · rw [h, Nat.mod_self]
  · exact Nat.mod_eq_of_lt (by omega)

/-- re-indexing of the slot sum as a sum over history indices (`q ↦ (c+q) % m` is a bijection) -/
theorem sum_rotate (m c : ℕ) (hc : c < m) (f : ℕ → ℝ) :
    ∑ q ∈ range m, f ((c + q) % m) = ∑ j ∈ range m, f j := by
  have hm : 0 < m := by omega
  refine sum_nbij' (fun q => (c + q) % m) (fun j => (j + m - c) % m) ?_ ?_ ?_ ?_ ?_
  · intro q _; exact mem_range.mpr (Nat.mod_lt _ hm)
  · intro j _; exact mem_range.mpr (Nat.mod_lt _ hm)
  · intro q hq
    have hq' := mem_range.mp hq
    show ((c + q) % m + m - c) % m = q
    rw [mod_lt2 (c + q) m (by omega)]
    split_ifs with h
    · have : c + q + m - c = q + m := by omega
      rw [this, Nat.add_mod_right, Nat.mod_eq_of_lt hq']
    · have : c + q - m + m - c = q := by omega
      rw [this, Nat.mod_eq_of_lt hq']
  · intro j hj
    have hj' := mem_range.mp hj
    show (c + (j + m - c) % m) % m = j
    rw [mod_lt2 (j + m - c) m (by omega)]
    split_ifs with h
    · have : c + (j + m - c) = j + m := by omega
      rw [this, Nat.add_mod_right, Nat.mod_eq_of_lt hj']
    · have : c + (j + m - c - m) = j := by omega
      rw [this, Nat.mod_eq_of_lt hj']
  · intro q _; rfl

/-! ## the specification: recurrence on the unbounded history -/

/-- `hist n j` = `P(n-j)` (`P0` before the start): the dissipative Verlet recurrence with weights
`a j` on `P(n-j)`, `j < m`, and the `_propagate_P` mixing of `D(n)` and `P(n)` -/
noncomputable def hist (coeffD : ℝ) (a : ℕ → ℝ) (m : ℕ) (D : ℕ → ℝ) (P0 : ℝ) : ℕ → ℕ → ℝ
  | 0, _ => P0
  | n+1, 0 => coeffD * (0.95 * D n + (1.0 - 0.95) * hist coeffD a m D P0 n 0)
                + ∑ j ∈ range m, a j * hist coeffD a m D P0 n j
  | n+1, j+1 => hist coeffD a m D P0 n j

/-- KSA variant: `coeff_D * (dP2dt2 + P)` -/
noncomputable def histKSA (coeffD : ℝ) (a : ℕ → ℝ) (m : ℕ) (d2 : ℕ → ℝ) (P0 : ℝ) : ℕ → ℕ → ℝ
  | 0, _ => P0
  | n+1, 0 => coeffD * (d2 n + histKSA coeffD a m d2 P0 n 0)
                + ∑ j ∈ range m, a j * histKSA coeffD a m d2 P0 n j
  | n+1, j+1 => histKSA coeffD a m d2 P0 n j

/-- the rotation property of the doubled coefficient vector in `getD` form -/
theorem coeff_rot (coeff : List ℝ) (m : ℕ) (hrot : ∀ j, j < m → coeff[j + m]? = coeff[j]?)
    (c q : ℕ) (hc : c < m) (hq : q < m) : coeff.getD (c + q) 0 = coeff.getD ((c + q) % m) 0 := by
  rw [mod_lt2 (c + q) m (by omega)]
  split_ifs with h
  · rfl
  · have := hrot (c + q - m) (by omega)
    have e : c + q - m + m = c + q := by omega
    rw [e] at this
    simp [List.getD_eq_getElem?_getD, this]

/-- one abstract buffer step preserves the refinement invariant; `Pn` is the new density, which is
assumed to be the new head of the history (`hP`), the only thing that differs between the plain
and the KSA propagation -/
theorem slots_step (m n : ℕ) (hm : 0 < m) (Pt : List ℝ) (Pn : ℝ) (h h' : ℕ → ℝ)
    (hlen : Pt.length = m)
    (hPt : ∀ q < m, Pt.getD q 0 = h ((n % m + q) % m))
    (h0 : h' 0 = Pn) (hs : ∀ j, h' (j + 1) = h j) :
    ∀ q < m, (Pt.set (m - 1 - n % m) Pn).getD q 0 = h' (((n + 1) % m + q) % m) := by
  intro q hq
  have hc : n % m < m := Nat.mod_lt _ hm
  rw [getD_set Pt _ q Pn (by omega), succ_mod n m hm]
  generalize n % m = c at *
  split_ifs with hq' h1 h1
  · rw [mod_lt2 _ m (by omega)]
    have : (if 0 + q < m then 0 + q else 0 + q - m) = 0 := by split_ifs <;> omega
    rw [this, h0]
  · rw [mod_lt2 _ m (by omega)]
    have : (if c + 1 + q < m then c + 1 + q else c + 1 + q - m) = 0 := by split_ifs <;> omega
    rw [this, h0]
  · rw [hPt q hq]
    have key : (0 + q) % m = (c + q) % m + 1 := by
      rw [mod_lt2 _ m (by omega), mod_lt2 (c + q) m (by omega)]
      split_ifs <;> omega
    rw [key, hs]
  · rw [hPt q hq]
    have key : (c + 1 + q) % m = (c + q) % m + 1 := by
      rw [mod_lt2 _ m (by omega), mod_lt2 (c + q) m (by omega)]
      split_ifs <;> omega
    rw [key, hs]

/-- the slot sum of the implementation equals the history sum of the specification -/
theorem histTerm_hist (m n : ℕ) (hm : 0 < m) (coeff Pt : List ℝ) (h : ℕ → ℝ)
    (hclen : coeff.length = 2 * m) (hrot : ∀ j, j < m → coeff[j + m]? = coeff[j]?)
    (hlen : Pt.length = m) (hPt : ∀ q < m, Pt.getD q 0 = h ((n % m + q) % m)) :
    histTerm coeff m (n % m) Pt = ∑ j ∈ range m, coeff.getD j 0 * h j := by
  have hc : n % m < m := Nat.mod_lt _ hm
  rw [histTerm_eq coeff Pt m (n % m) hlen (by omega)]
  rw [← sum_rotate m (n % m) hc (fun j => coeff.getD j 0 * h j)]
  refine Finset.sum_congr rfl (fun q hq => ?_)
  have hq' := mem_range.mp hq
  rw [hPt q hq', coeff_rot coeff m hrot (n % m) q hc hq']

end XLBuffer
