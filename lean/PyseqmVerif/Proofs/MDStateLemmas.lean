import PyseqmVerif.Model.MDState
import PyseqmVerif.Properties.C10
/-!
# Helper lemmas for the value-level run loop `MDState` (core Lean only)

* forgetting the values is a simulation onto the label-level machine `MDOut`
  (`erase_vstepActs`, `erase_vsegment`, `erase_vfinalDisk`, …): the label-level theorems of
  C10/C11 say WHICH rows are on a disk;
* the value invariant: every stored row / frame / checkpoint labelled `s` holds the observation /
  image of `traj D σ0 s` (`RowsOK`, `FramesOK`, `VOK`, `VDiskOK`), and the engine state of a
  process that completed step `o` is `traj D σ0 o` (`VOKs`);
* a disk whose erasure is the specified disk and whose values are right IS the specified
  value-level disk (`eq_vspecDisk`).
-/
namespace MDState
open MDOut

variable {σ κ Rec : Type}

/-! ## forgetting the values: one stream -/

theorem eraseRows_length (r : VRows Rec) : (eraseRows r).length = r.length := by
  simp [eraseRows]

theorem erase_write (w : VSW Rec) (s : Nat) (r : Rec) : (w.write s r).erase = w.erase.write s := by
  unfold VSW.write SW.write
  by_cases h : w.cur < w.rows.length
  · simp [h, VSW.erase, eraseRows, List.map_set]
  · simp [h, VSW.erase, eraseRows]

theorem erase_step (e : Nat) (w : VSW Rec) (s : Nat) (r : Rec) :
    (VSW.step e w s r).erase = SW.step e w.erase s := by
  unfold VSW.step SW.step
  cases isDue e s
  · rfl
  · simp only [if_true]; exact erase_write w s r

theorem erase_openFresh (e N : Nat) (r0 : Rec) : (vopenFresh e N r0).erase = openFresh e N := by
  unfold vopenFresh openFresh
  rw [erase_step]
  simp [VSW.erase, eraseRows]

theorem erase_openResume (e o : Nat) (rows : VRows Rec) :
    (vopenResume e o rows).erase = openResume e o (eraseRows rows) := rfl

theorem erase_mergeRows (mask : Nat) (f m : VRows Rec) :
    eraseRows (vmergeRows mask f m) = mergeRows mask (eraseRows f) (eraseRows m) := by
  apply List.ext_getElem?
  intro i
  simp only [eraseRows, vmergeRows, mergeRows, List.getElem?_map, List.getElem?_zipIdx,
    List.getElem?_zipWith]
  cases f[i]? <;> cases m[i]? <;> simp
  split <;> rfl

/-! ## forgetting the values: the process -/

theorem eraseCkpt_some (o : Nat) (k : κ) (nx : Nat) : eraseCkpt (some (o, k, nx)) = some (o, nx) := rfl

theorem erase_startFresh (D : Dyn σ κ Rec) (c : Cfg) (σ0 : σ) :
    (vstartFresh D c σ0).erase = startFresh c := by
  simp only [VProc.erase, vstartFresh, startFresh, Quad.map, Quad.zipWith, erase_openFresh,
    eraseRows, eraseCkpt, List.map_replicate, Option.map_none]
  by_cases h : 0 < c.xyz <;> simp [h]

theorem erase_startResume (D : Dyn σ κ Rec) (c : Cfg) (d : VDisk κ Rec) (o : Nat) (k : κ) (nx : Nat) :
    (vstartResume D c d o k nx).erase = startResume c d.erase o nx := by
  simp only [VProc.erase, vstartResume, startResume, VDisk.erase, Quad.map, Quad.zipWith,
    erase_openResume, List.map_take, List.length_map]

theorem erase_flush (p : VProc σ κ Rec) : p.flush.erase = p.erase.flush := by
  simp only [VProc.erase, VProc.flush, Proc.flush, Quad.map, VSW.erase, List.length_map]

theorem erase_actAdvance (D : Dyn σ κ Rec) (p : VProc σ κ Rec) : (vactAdvance D p).erase = p.erase := rfl

theorem erase_actScreen (c : Cfg) (s upto : Nat) (p : VProc σ κ Rec) :
    (vactScreen c s upto p).erase = actScreen c s upto p.erase := by
  unfold vactScreen actScreen
  split <;> rfl

theorem erase_actData (D : Dyn σ κ Rec) (c : Cfg) (s upto : Nat) (p : VProc σ κ Rec) :
    (vactData D c s upto p).erase = actData c s upto p.erase := by
  unfold vactData actData
  split
  · simp only [VProc.erase, Quad.map, erase_step]
  · rfl

theorem erase_actVec (D : Dyn σ κ Rec) (c : Cfg) (s upto : Nat) (p : VProc σ κ Rec) :
    (vactVec D c s upto p).erase = actVec c s upto p.erase := by
  unfold vactVec actVec
  split
  · simp only [VProc.erase, Quad.map, erase_step]
  · rfl

theorem erase_actXyz (D : Dyn σ κ Rec) (c : Cfg) (s upto : Nat) (p : VProc σ κ Rec) :
    (vactXyz D c s upto p).erase = actXyz c s upto p.erase := by
  unfold vactXyz actXyz
  split
  · simp only [VProc.erase, List.map_append, List.map_cons, List.map_nil]
  · rfl

theorem erase_actFlush (c : Cfg) (s upto : Nat) (p : VProc σ κ Rec) :
    (vactFlush c s upto p).erase = actFlush c s upto p.erase := by
  unfold vactFlush actFlush
  split
  · exact erase_flush p
  · rfl

theorem erase_actCkpt (D : Dyn σ κ Rec) (c : Cfg) (s upto : Nat) (p : VProc σ κ Rec) :
    (vactCkpt D c s upto p).erase = actCkpt c s upto p.erase := by
  unfold vactCkpt actCkpt
  split
  · simp only [VProc.erase, eraseCkpt, Option.map_some, List.length_map]
  · rfl

/-- forgetting the values commutes with (any prefix of) a step -/
theorem erase_vstepActs (D : Dyn σ κ Rec) (c : Cfg) (s upto : Nat) (p : VProc σ κ Rec) :
    (vstepActs D c s upto p).erase = stepActs c s upto p.erase := by
  rw [stepActs_eq]
  unfold vstepActs
  rw [erase_actCkpt, erase_actFlush, erase_actXyz, erase_actVec, erase_actData, erase_actScreen,
    erase_actAdvance]

theorem erase_vrunTo (D : Dyn σ κ Rec) (c : Cfg) (o : Nat) (p : VProc σ κ Rec) :
    ∀ k, (vrunTo D c o k p).erase = runTo c o k p.erase
  | 0 => rfl
  | k + 1 => by
    show (vstepActs D c (o + k + 1) 7 (vrunTo D c o k p)).erase = stepActs c (o + k + 1) 7 (runTo c o k p.erase)
    rw [erase_vstepActs, erase_vrunTo D c o p k]

theorem erase_closeSoft (p : VProc σ κ Rec) : p.closeSoft.erase = p.erase.closeSoft := by
  simp only [VDisk.erase, VProc.closeSoft, Proc.closeSoft, VProc.erase, Quad.map, VSW.erase]

theorem erase_closeHard (p : VProc σ κ Rec) (mask : Nat) :
    (p.closeHard mask).erase = p.erase.closeHard mask := by
  simp only [VDisk.erase, VProc.closeHard, Proc.closeHard, VProc.erase, Quad.map, Quad.zipWith,
    VSW.erase, erase_mergeRows, List.map_take, List.length_map]

theorem erase_screen (p : VProc σ κ Rec) : p.erase.screen = p.screen := rfl

theorem erase_vsegBody (D : Dyn σ κ Rec) (c : Cfg) (p : VProc σ κ Rec) (o : Nat) (cr : Option Crash) :
    ((vsegBody D c p o cr).1.erase, (vsegBody D c p o cr).2) = segBody c p.erase o cr := by
  cases cr with
  | none =>
    simp only [vsegBody, segBody, erase_closeSoft, erase_vrunTo, ← erase_screen]
  | some k =>
    simp only [vsegBody, segBody]
    split
    · cases k.hard
      · simp only [Bool.false_eq_true, if_false, erase_closeSoft, erase_vstepActs, erase_vrunTo,
          ← erase_screen]
      · simp only [if_true, erase_closeHard, erase_vstepActs, erase_vrunTo, ← erase_screen]
    · simp only [erase_closeSoft, erase_vrunTo, ← erase_screen]

theorem erase_vstart (D : Dyn σ κ Rec) (c : Cfg) (σ0 : σ) (d : Option (VDisk κ Rec)) :
    (vstart D c σ0 d).1.erase = (start c (d.map VDisk.erase)).1 ∧
      (vstart D c σ0 d).2 = (start c (d.map VDisk.erase)).2 := by
  cases d with
  | none => exact ⟨erase_startFresh D c σ0, rfl⟩
  | some dk =>
    cases hc : dk.ckpt with
    | none =>
      have h2 : dk.erase.ckpt = none := by simp [VDisk.erase, eraseCkpt, hc]
      simp only [vstart, hc, Option.map_some, start, h2]
      exact ⟨erase_startFresh D c σ0, trivial⟩
    | some x =>
      obtain ⟨o, k, nx⟩ := x
      have h2 : dk.erase.ckpt = some (o, nx) := by simp [VDisk.erase, eraseCkpt, hc]
      simp only [vstart, hc, Option.map_some, start, h2]
      exact ⟨erase_startResume D c dk o k nx, trivial⟩

/-- forgetting the values of a segment gives the label-level segment -/
theorem erase_vsegment (D : Dyn σ κ Rec) (c : Cfg) (σ0 : σ) (d : Option (VDisk κ Rec))
    (cr : Option Crash) :
    ((vsegment D c σ0 d cr).1.erase, (vsegment D c σ0 d cr).2) =
      segment c (d.map VDisk.erase) cr := by
  unfold vsegment
  rw [erase_vsegBody, segment_eq, (erase_vstart D c σ0 d).1, (erase_vstart D c σ0 d).2]

theorem erase_vsegment_disk (D : Dyn σ κ Rec) (c : Cfg) (σ0 : σ) (d : Option (VDisk κ Rec))
    (cr : Option Crash) :
    (vsegment D c σ0 d cr).1.erase = (segment c (d.map VDisk.erase) cr).1 :=
  congrArg Prod.fst (erase_vsegment D c σ0 d cr)

theorem erase_vfinalDisk (D : Dyn σ κ Rec) (c : Cfg) (σ0 : σ) :
    ∀ (ks : List Crash) (d : Option (VDisk κ Rec)),
      (vfinalDisk D c σ0 d ks).erase = finalDisk c (d.map VDisk.erase) ks
  | [], d => erase_vsegment_disk D c σ0 d none
  | k :: ks, d => by
    show (vfinalDisk D c σ0 (some (vsegment D c σ0 d (some k)).1) ks).erase =
      finalDisk c (some (segment c (d.map VDisk.erase) (some k)).1) ks
    rw [erase_vfinalDisk D c σ0 ks, Option.map_some, erase_vsegment_disk]

theorem erase_vhistory (D : Dyn σ κ Rec) (c : Cfg) (σ0 : σ) :
    ∀ (ks : List Crash) (d : Option (VDisk κ Rec)),
      (vhistory D c σ0 d ks).map (fun r => (r.1.erase, r.2)) = history c (d.map VDisk.erase) ks
  | [], d => by
    simp only [vhistory, history, List.map_cons, List.map_nil, erase_vsegment]
  | k :: ks, d => by
    simp only [vhistory, history, List.map_cons, erase_vsegment]
    rw [erase_vhistory D c σ0 ks, Option.map_some, erase_vsegment_disk]

/-! ## the value invariant -/

/-- every written row labelled `s` holds `f s` -/
def RowsOK (f : Nat → Rec) (rows : VRows Rec) : Prop := ∀ s r, some (s, r) ∈ rows → r = f s

/-- every frame labelled `s` holds `f s` -/
def FramesOK (f : Nat → Rec) (l : List (Nat × Rec)) : Prop := ∀ s r, (s, r) ∈ l → r = f s

theorem RowsOK.replicate_none (f : Nat → Rec) (n : Nat) : RowsOK f (List.replicate n none) := by
  intro s r h
  have := List.eq_of_mem_replicate h
  cases this

theorem RowsOK.set {f : Nat → Rec} {rows : VRows Rec} (h : RowsOK f rows) (i s : Nat) :
    RowsOK f (rows.set i (some (s, f s))) := by
  intro s' r' hm
  rcases List.mem_or_eq_of_mem_set hm with h1 | h1
  · exact h s' r' h1
  · injection h1 with h1
    injection h1 with h2 h3
    subst h2; exact h3

theorem RowsOK.write {f : Nat → Rec} {w : VSW Rec} (h : RowsOK f w.rows) (s : Nat) :
    RowsOK f (w.write s (f s)).rows := by
  unfold VSW.write
  split
  · exact h.set _ s
  · exact h

theorem RowsOK.step {f : Nat → Rec} {w : VSW Rec} (h : RowsOK f w.rows) (e s : Nat) :
    RowsOK f (VSW.step e w s (f s)).rows := by
  unfold VSW.step
  split
  · exact h.write s
  · exact h

theorem mem_vmergeRows {α : Type} {mask : Nat} {f m : List α} {x : α}
    (h : x ∈ vmergeRows mask f m) : x ∈ f ∨ x ∈ m := by
  rw [List.mem_iff_getElem?] at h
  obtain ⟨i, hi⟩ := h
  simp only [vmergeRows, List.getElem?_map, List.getElem?_zipIdx, List.getElem?_zipWith] at hi
  cases hf : f[i]? with
  | none => rw [hf] at hi; simp at hi
  | some a =>
    cases hm : m[i]? with
    | none => rw [hf, hm] at hi; simp at hi
    | some b =>
      rw [hf, hm] at hi
      simp only [Option.map_some, Option.some.injEq] at hi
      split at hi
      · right; rw [← hi]; exact List.mem_of_getElem? hm
      · left; rw [← hi]; exact List.mem_of_getElem? hf

theorem RowsOK.merge {f : Nat → Rec} {a b : VRows Rec} (ha : RowsOK f a) (hb : RowsOK f b)
    (mask : Nat) : RowsOK f (vmergeRows mask a b) := by
  intro s r h
  rcases mem_vmergeRows h with h1 | h1
  · exact ha s r h1
  · exact hb s r h1

theorem FramesOK.append {f : Nat → Rec} {l : List (Nat × Rec)} (h : FramesOK f l) (s : Nat) :
    FramesOK f (l ++ [(s, f s)]) := by
  intro s' r' hm
  rcases List.mem_append.1 hm with h1 | h1
  · exact h s' r' h1
  · simp only [List.mem_singleton, Prod.mk.injEq] at h1
    obtain ⟨h2, h3⟩ := h1
    subst h2; exact h3

theorem FramesOK.take {f : Nat → Rec} {l : List (Nat × Rec)} (h : FramesOK f l) (n : Nat) :
    FramesOK f (l.take n) := fun s r hm => h s r (List.mem_of_mem_take hm)

/-- the observation of the uninterrupted dynamics at label `s` -/
def obsAt (D : Dyn σ κ Rec) (σ0 : σ) (ob : σ → Rec) : Nat → Rec := fun s => ob (traj D σ0 s)

/-- the four HDF5 streams hold the right values -/
structure QOK (D : Dyn σ κ Rec) (σ0 : σ) (q : Quad (VRows Rec)) : Prop where
  data : RowsOK (obsAt D σ0 D.obs.data) q.data
  coords : RowsOK (obsAt D σ0 D.obs.coords) q.coords
  vels : RowsOK (obsAt D σ0 D.obs.vels) q.vels
  forces : RowsOK (obsAt D σ0 D.obs.forces) q.forces

/-- a checkpoint labelled `o` holds the image of `traj D σ0 o` -/
def CkptOK (D : Dyn σ κ Rec) (σ0 : σ) (ck : Option (Nat × κ × Nat)) : Prop :=
  ∀ o k nx, ck = some (o, k, nx) → k = D.save (traj D σ0 o)

/-- all values a process holds (in memory, flushed, checkpoint) are those of the uninterrupted
    dynamics at their label -/
structure VOK (D : Dyn σ κ Rec) (σ0 : σ) (p : VProc σ κ Rec) : Prop where
  mem : QOK D σ0 (p.h5.map (·.rows))
  flushed : QOK D σ0 p.h5Flushed
  xyz : FramesOK (obsAt D σ0 D.obsXyz) p.xyz
  ckpt : CkptOK D σ0 p.ckpt

/-- … and the engine state is the state of the uninterrupted dynamics at step `s` -/
structure VOKs (D : Dyn σ κ Rec) (σ0 : σ) (s : Nat) (p : VProc σ κ Rec) : Prop where
  ok : VOK D σ0 p
  st : p.st = traj D σ0 s

/-- all values on a disk are those of the uninterrupted dynamics at their label -/
structure VDiskOK (D : Dyn σ κ Rec) (σ0 : σ) (d : VDisk κ Rec) : Prop where
  h5 : QOK D σ0 d.h5
  xyz : FramesOK (obsAt D σ0 D.obsXyz) d.xyz
  ckpt : CkptOK D σ0 d.ckpt

theorem VOKs.actAdvance {D : Dyn σ κ Rec} {σ0 : σ} {o : Nat} {p : VProc σ κ Rec}
    (h : VOKs D σ0 o p) : VOKs D σ0 (o + 1) (vactAdvance D p) :=
  ⟨⟨h.ok.mem, h.ok.flushed, h.ok.xyz, h.ok.ckpt⟩, by show D.Φ p.st = _; rw [h.st]; rfl⟩

theorem VOKs.actScreen {D : Dyn σ κ Rec} {σ0 : σ} {s : Nat} {p : VProc σ κ Rec}
    (h : VOKs D σ0 s p) (c : Cfg) (upto : Nat) : VOKs D σ0 s (vactScreen c s upto p) := by
  unfold vactScreen
  split
  · exact ⟨⟨h.ok.mem, h.ok.flushed, h.ok.xyz, h.ok.ckpt⟩, h.st⟩
  · exact h

theorem VOKs.actData {D : Dyn σ κ Rec} {σ0 : σ} {s : Nat} {p : VProc σ κ Rec}
    (h : VOKs D σ0 s p) (c : Cfg) (upto : Nat) : VOKs D σ0 s (vactData D c s upto p) := by
  unfold vactData
  split
  · refine ⟨⟨⟨?_, h.ok.mem.coords, h.ok.mem.vels, h.ok.mem.forces⟩, h.ok.flushed, h.ok.xyz,
      h.ok.ckpt⟩, h.st⟩
    show RowsOK _ (VSW.step c.h5.data p.h5.data s (D.obs.data p.st)).rows
    rw [h.st]
    exact RowsOK.step (f := obsAt D σ0 D.obs.data) h.ok.mem.data _ s
  · exact h

theorem VOKs.actVec {D : Dyn σ κ Rec} {σ0 : σ} {s : Nat} {p : VProc σ κ Rec}
    (h : VOKs D σ0 s p) (c : Cfg) (upto : Nat) : VOKs D σ0 s (vactVec D c s upto p) := by
  unfold vactVec
  split
  · refine ⟨⟨⟨h.ok.mem.data, ?_, ?_, ?_⟩, h.ok.flushed, h.ok.xyz, h.ok.ckpt⟩, h.st⟩
    · show RowsOK _ (VSW.step c.h5.coords p.h5.coords s (D.obs.coords p.st)).rows
      rw [h.st]
      exact RowsOK.step (f := obsAt D σ0 D.obs.coords) h.ok.mem.coords _ s
    · show RowsOK _ (VSW.step c.h5.vels p.h5.vels s (D.obs.vels p.st)).rows
      rw [h.st]
      exact RowsOK.step (f := obsAt D σ0 D.obs.vels) h.ok.mem.vels _ s
    · show RowsOK _ (VSW.step c.h5.forces p.h5.forces s (D.obs.forces p.st)).rows
      rw [h.st]
      exact RowsOK.step (f := obsAt D σ0 D.obs.forces) h.ok.mem.forces _ s
  · exact h

theorem VOKs.actXyz {D : Dyn σ κ Rec} {σ0 : σ} {s : Nat} {p : VProc σ κ Rec}
    (h : VOKs D σ0 s p) (c : Cfg) (upto : Nat) : VOKs D σ0 s (vactXyz D c s upto p) := by
  unfold vactXyz
  split
  · refine ⟨⟨h.ok.mem, h.ok.flushed, ?_, h.ok.ckpt⟩, h.st⟩
    show FramesOK _ (p.xyz ++ [(s, D.obsXyz p.st)])
    rw [h.st]
    exact FramesOK.append (f := obsAt D σ0 D.obsXyz) h.ok.xyz s
  · exact h

theorem VOKs.actFlush {D : Dyn σ κ Rec} {σ0 : σ} {s : Nat} {p : VProc σ κ Rec}
    (h : VOKs D σ0 s p) (c : Cfg) (upto : Nat) : VOKs D σ0 s (vactFlush c s upto p) := by
  unfold vactFlush
  split
  · exact ⟨⟨h.ok.mem, h.ok.mem, h.ok.xyz, h.ok.ckpt⟩, h.st⟩
  · exact h

theorem VOKs.actCkpt {D : Dyn σ κ Rec} {σ0 : σ} {s : Nat} {p : VProc σ κ Rec}
    (h : VOKs D σ0 s p) (c : Cfg) (upto : Nat) : VOKs D σ0 s (vactCkpt D c s upto p) := by
  unfold vactCkpt
  split
  · refine ⟨⟨h.ok.mem, h.ok.flushed, h.ok.xyz, ?_⟩, h.st⟩
    intro o k nx hk
    simp only [Option.some.injEq, Prod.mk.injEq] at hk
    obtain ⟨h1, h2, _⟩ := hk
    rw [← h1, ← h2, h.st]
  · exact h

/-- any prefix of step `o+1`, started in the state of step `o`, writes observations of the state of
    step `o+1` only -/
theorem VOKs.stepActs {D : Dyn σ κ Rec} {σ0 : σ} {o : Nat} {p : VProc σ κ Rec}
    (h : VOKs D σ0 o p) (c : Cfg) (upto : Nat) :
    VOKs D σ0 (o + 1) (vstepActs D c (o + 1) upto p) :=
  ((((((h.actAdvance).actScreen c upto).actData c upto).actVec c upto).actXyz c upto).actFlush c
    upto).actCkpt c upto

theorem VOKs.runTo {D : Dyn σ κ Rec} {σ0 : σ} {o : Nat} {p : VProc σ κ Rec}
    (h : VOKs D σ0 o p) (c : Cfg) : ∀ k, VOKs D σ0 (o + k) (vrunTo D c o k p)
  | 0 => h
  | k + 1 => (VOKs.runTo h c k).stepActs c 7

theorem VOK.closeSoft {D : Dyn σ κ Rec} {σ0 : σ} {p : VProc σ κ Rec} (h : VOK D σ0 p) :
    VDiskOK D σ0 p.closeSoft := ⟨h.mem, h.xyz, h.ckpt⟩

theorem VOK.closeHard {D : Dyn σ κ Rec} {σ0 : σ} {p : VProc σ κ Rec} (h : VOK D σ0 p) (mask : Nat) :
    VDiskOK D σ0 (p.closeHard mask) :=
  ⟨⟨h.flushed.data.merge h.mem.data mask, h.flushed.coords.merge h.mem.coords mask,
    h.flushed.vels.merge h.mem.vels mask, h.flushed.forces.merge h.mem.forces mask⟩,
   h.xyz.take _, h.ckpt⟩

theorem RowsOK.openFresh (f : Nat → Rec) (e N : Nat) : RowsOK f (vopenFresh e N (f 0)).rows := by
  unfold vopenFresh
  exact RowsOK.step (w := { rows := List.replicate (cap e N) none, cur := 0 })
    (RowsOK.replicate_none f _) e 0

theorem vstartFresh_ok (D : Dyn σ κ Rec) (c : Cfg) (σ0 : σ) : VOKs D σ0 0 (vstartFresh D c σ0) := by
  refine ⟨⟨⟨?_, ?_, ?_, ?_⟩, ⟨?_, ?_, ?_, ?_⟩, ?_, ?_⟩, rfl⟩
  · exact RowsOK.openFresh (obsAt D σ0 D.obs.data) _ _
  · exact RowsOK.openFresh (obsAt D σ0 D.obs.coords) _ _
  · exact RowsOK.openFresh (obsAt D σ0 D.obs.vels) _ _
  · exact RowsOK.openFresh (obsAt D σ0 D.obs.forces) _ _
  · exact RowsOK.replicate_none _ _
  · exact RowsOK.replicate_none _ _
  · exact RowsOK.replicate_none _ _
  · exact RowsOK.replicate_none _ _
  · intro s r hm
    show r = D.obsXyz (traj D σ0 s)
    simp only [vstartFresh] at hm
    split at hm
    · simp only [List.mem_singleton, Prod.mk.injEq] at hm
      rw [hm.1, hm.2]; rfl
    · cases hm
  · intro o k nx hk; cases hk

/-- resume: the values on disk are right and the engine restarts from `load` of the image of
    `traj D σ0 o`; if that load gives back `traj D σ0 o`, the resumed process is in the state of an
    uninterrupted run after step `o` -/
theorem vstartResume_ok {D : Dyn σ κ Rec} {σ0 : σ} {c : Cfg} {d : VDisk κ Rec} {o nx : Nat} {k : κ}
    (hd : VDiskOK D σ0 d) (hc : d.ckpt = some (o, k, nx))
    (hload : D.load (D.save (traj D σ0 o)) = traj D σ0 o) :
    VOKs D σ0 o (vstartResume D c d o k nx) := by
  refine ⟨⟨⟨hd.h5.data, hd.h5.coords, hd.h5.vels, hd.h5.forces⟩, hd.h5, hd.xyz.take nx, hd.ckpt⟩, ?_⟩
  show D.load k = _
  rw [hd.ckpt o k nx hc, hload]

/-! ## values + labels determine the disk -/

theorem rows_eq_of_erase {f : Nat → Rec} :
    ∀ {rows : VRows Rec} {l : List Nat}, RowsOK f rows → eraseRows rows = l.map some →
      rows = l.map (fun s => some (s, f s))
  | [], [], _, _ => rfl
  | [], _ :: _, _, h => by simp [eraseRows] at h
  | _ :: _, [], _, h => by simp [eraseRows] at h
  | x :: rs, s :: ls, hok, h => by
    simp only [eraseRows, List.map_cons, List.cons.injEq] at h
    obtain ⟨h1, h2⟩ := h
    have ih := rows_eq_of_erase (f := f) (rows := rs) (l := ls)
      (fun s r hm => hok s r (List.mem_cons_of_mem _ hm)) h2
    cases x with
    | none => cases h1
    | some y =>
      obtain ⟨s', r⟩ := y
      simp only [Option.map_some, Option.some.injEq] at h1
      subst h1
      have hr := hok s' r (List.mem_cons_self ..)
      rw [hr, List.map_cons, ← ih]

theorem frames_eq_of_erase {f : Nat → Rec} :
    ∀ {fr : List (Nat × Rec)} {l : List Nat}, FramesOK f fr → fr.map Prod.fst = l →
      fr = l.map (fun s => (s, f s))
  | [], [], _, _ => rfl
  | [], _ :: _, _, h => by simp at h
  | _ :: _, [], _, h => by simp at h
  | x :: rs, s :: ls, hok, h => by
    simp only [List.map_cons, List.cons.injEq] at h
    obtain ⟨h1, h2⟩ := h
    have ih := frames_eq_of_erase (f := f) (fr := rs) (l := ls)
      (fun s r hm => hok s r (List.mem_cons_of_mem _ hm)) h2
    obtain ⟨s', r⟩ := x
    simp only at h1
    subst h1
    have hr := hok s' r (List.mem_cons_self ..)
    rw [hr, List.map_cons, ← ih]

/-- a disk whose label projection is the specified disk and whose values are those of the
    uninterrupted dynamics IS the specified value-level disk -/
theorem eq_vspecDisk {D : Dyn σ κ Rec} {σ0 : σ} {c : Cfg} {d : VDisk κ Rec}
    (hok : VDiskOK D σ0 d) (he : d.erase = specDisk c) : d = vspecDisk D c σ0 := by
  obtain ⟨h5, xyz, ckpt⟩ := d
  obtain ⟨q1, q2, q3, q4⟩ := h5
  simp only [VDisk.erase, specDisk, Quad.map, Disk.mk.injEq, Quad.mk.injEq, specRows] at he
  obtain ⟨⟨e1, e2, e3, e4⟩, ex, ec⟩ := he
  have r1 := rows_eq_of_erase hok.h5.data e1
  have r2 := rows_eq_of_erase hok.h5.coords e2
  have r3 := rows_eq_of_erase hok.h5.vels e3
  have r4 := rows_eq_of_erase hok.h5.forces e4
  have rx := frames_eq_of_erase hok.xyz ex
  simp only at r1 r2 r3 r4 rx
  have rc : ckpt = (lastCkpt c.ckpt c.steps).map
      (fun s => (s, D.save (traj D σ0 s), (due c.xyz s).length)) := by
    cases hck : ckpt with
    | none =>
      rw [hck] at ec
      cases hl : lastCkpt c.ckpt c.steps with
      | none => rfl
      | some s => rw [hl] at ec; simp [eraseCkpt] at ec
    | some x =>
      obtain ⟨o, k, nx⟩ := x
      have hk := hok.ckpt o k nx hck
      rw [hck] at ec
      cases hl : lastCkpt c.ckpt c.steps with
      | none => rw [hl] at ec; simp [eraseCkpt] at ec
      | some s =>
        rw [hl] at ec
        simp only [eraseCkpt, Option.map_some, Option.some.injEq, Prod.mk.injEq] at ec
        obtain ⟨h1, h2⟩ := ec
        subst h1
        simp only [Option.map_some, hk, h2]
  simp only [vspecDisk, Quad.zipWith, vspecRows, obsAt] at *
  rw [r1, r2, r3, r4, rx, rc]

/-! ## histories: the value invariant travels with the label-level disk invariant -/

/-- `ckpt_complete`: loading the saved image of the state the uninterrupted dynamics has at a
    checkpoint step gives back that state (every component of `σ` that `Φ` or an observation reads
    is captured by `save` and reinstated by `load`).  Only required at the checkpoint-due steps of
    the run. -/
def CkptComplete (D : Dyn σ κ Rec) (c : Cfg) (σ0 : σ) : Prop :=
  ∀ o, 0 < o → o ≤ c.steps → isDue c.ckpt o = true →
    D.load (D.save (traj D σ0 o)) = traj D σ0 o

/-- what every disk along a history satisfies: right values, and resumable labels -/
def GoodV (D : Dyn σ κ Rec) (c : Cfg) (σ0 : σ) (d : VDisk κ Rec) : Prop :=
  VDiskOK D σ0 d ∧ DiskInv c d.erase

theorem VOKs.stepActs' {D : Dyn σ κ Rec} {σ0 : σ} {o s : Nat} {p : VProc σ κ Rec}
    (h : VOKs D σ0 o p) (hs : s = o + 1) (c : Cfg) (upto : Nat) :
    VOKs D σ0 s (vstepActs D c s upto p) := by
  subst hs; exact h.stepActs c upto

theorem vsegBody_ok {D : Dyn σ κ Rec} {σ0 : σ} {c : Cfg} {o : Nat} {p : VProc σ κ Rec}
    (h : VOKs D σ0 o p) (cr : Option Crash) : VDiskOK D σ0 (vsegBody D c p o cr).1 := by
  cases cr with
  | none => exact (h.runTo c _).ok.closeSoft
  | some k =>
    simp only [vsegBody]
    split
    · rename_i hk
      have h1 := (h.runTo c (k.step - 1 - o)).stepActs' (s := k.step) (by omega) c k.upto
      cases k.hard
      · exact h1.ok.closeSoft
      · exact h1.ok.closeHard k.mask
    · exact (h.runTo c _).ok.closeSoft

theorem vstart_ok {D : Dyn σ κ Rec} {σ0 : σ} {c : Cfg} (hcc : CkptComplete D c σ0)
    {d : Option (VDisk κ Rec)} (hd : ∀ dk, d = some dk → GoodV D c σ0 dk) :
    VOKs D σ0 (vstart D c σ0 d).2 (vstart D c σ0 d).1 := by
  cases d with
  | none => exact vstartFresh_ok D c σ0
  | some dk =>
    obtain ⟨hok, hinv⟩ := hd dk rfl
    cases hc : dk.ckpt with
    | none => simp only [vstart, hc]; exact vstartFresh_ok D c σ0
    | some x =>
      obtain ⟨o, k, nx⟩ := x
      simp only [vstart, hc]
      have h2 : dk.erase.ckpt = some (o, nx) := by simp [VDisk.erase, eraseCkpt, hc]
      obtain ⟨h1, h2', h3, _⟩ := hinv o nx h2
      exact vstartResume_ok hok hc (hcc o h1 h2' h3)

theorem map_erase_inv {D : Dyn σ κ Rec} {σ0 : σ} {c : Cfg} {d : Option (VDisk κ Rec)}
    (hd : ∀ dk, d = some dk → GoodV D c σ0 dk) :
    ∀ dk, d.map VDisk.erase = some dk → DiskInv c dk := by
  intro dk h
  cases d with
  | none => cases h
  | some dv =>
    simp only [Option.map_some, Option.some.injEq] at h
    subst h; exact (hd dv rfl).2

/-- every segment (crashed anywhere, soft or hard, or completed) started from a good disk leaves a
    good disk -/
theorem vsegment_good {D : Dyn σ κ Rec} {σ0 : σ} {c : Cfg} (hcc : CkptComplete D c σ0)
    {d : Option (VDisk κ Rec)} (hd : ∀ dk, d = some dk → GoodV D c σ0 dk) (cr : Option Crash) :
    GoodV D c σ0 (vsegment D c σ0 d cr).1 := by
  refine ⟨vsegBody_ok (vstart_ok hcc hd) cr, ?_⟩
  rw [erase_vsegment_disk]
  exact segment_inv (map_erase_inv hd) cr

theorem some_good {D : Dyn σ κ Rec} {σ0 : σ} {c : Cfg} {d : VDisk κ Rec} (h : GoodV D c σ0 d) :
    ∀ dk, some d = some dk → GoodV D c σ0 dk := by
  intro dk e; injection e with e; subst e; exact h

theorem none_good {D : Dyn σ κ Rec} {σ0 : σ} {c : Cfg} :
    ∀ dk, (none : Option (VDisk κ Rec)) = some dk → GoodV D c σ0 dk := fun _ h => by cases h

theorem vhistory_good {D : Dyn σ κ Rec} {σ0 : σ} {c : Cfg} (hcc : CkptComplete D c σ0) :
    ∀ (ks : List Crash) (d : Option (VDisk κ Rec)), (∀ dk, d = some dk → GoodV D c σ0 dk) →
      ∀ r ∈ vhistory D c σ0 d ks, GoodV D c σ0 r.1
  | [], _, hd => by
    intro r hr
    simp only [vhistory, List.mem_singleton] at hr
    subst hr; exact vsegment_good hcc hd none
  | k :: ks, _, hd => by
    intro r hr
    simp only [vhistory, List.mem_cons] at hr
    rcases hr with hr | hr
    · subst hr; exact vsegment_good hcc hd (some k)
    · exact vhistory_good hcc ks _ (some_good (vsegment_good hcc hd (some k))) r hr

theorem vfinalDisk_good {D : Dyn σ κ Rec} {σ0 : σ} {c : Cfg} (hcc : CkptComplete D c σ0) :
    ∀ (ks : List Crash) (d : Option (VDisk κ Rec)), (∀ dk, d = some dk → GoodV D c σ0 dk) →
      GoodV D c σ0 (vfinalDisk D c σ0 d ks)
  | [], _, hd => vsegment_good hcc hd none
  | k :: ks, _, hd => vfinalDisk_good hcc ks _ (some_good (vsegment_good hcc hd (some k)))

/-- an uninterrupted run never loads a checkpoint: no completeness hypothesis -/
theorem vsegment_fresh_ok (D : Dyn σ κ Rec) (c : Cfg) (σ0 : σ) (cr : Option Crash) :
    VDiskOK D σ0 (vsegment D c σ0 none cr).1 :=
  vsegBody_ok (vstartFresh_ok D c σ0) cr

/-! ## Part 2: the five-stream process -/

/-- process invariant after completing step `o`, with the nonadiabatic stream -/
structure PInv5 (c : Cfg) (na o : Nat) (p : Proc5) : Prop where
  base : PInv c o p.base
  str : SInv na c.steps o p.na
  dur : ∀ oc, lastCkpt c.ckpt o = some oc → Good na c.steps oc p.naFlushed

/-- process invariant anywhere inside step `o+1` (including inside the integrator step, after the
    nonadiabatic row was appended), before the checkpoint file is replaced -/
structure Loose5 (c : Cfg) (na o : Nat) (p : Proc5) : Prop where
  base : Loose c o p.base
  str : LS na c.steps o p.na
  dur : ∀ oc, lastCkpt c.ckpt o = some oc → Good na c.steps oc p.naFlushed

/-- the disk invariant of C10 for the five-stream disk: the four streams + XYZ + checkpoint satisfy
    `DiskInv`, and if there is a checkpoint `(o, nx)` the nonadiabatic stream has its full capacity
    and the rows of all its due steps `≤ o` are in place -/
def DiskInv5 (c : Cfg) (na : Nat) (d : Disk5) : Prop :=
  DiskInv c d.base ∧ ∀ o nx, d.base.ckpt = some (o, nx) → Good na c.steps o d.na

theorem PInv5.loose {c : Cfg} {na o : Nat} {p : Proc5} (h : PInv5 c na o p) : Loose5 c na o p :=
  ⟨h.base.loose, h.str.loose, h.dur⟩

theorem stepActs5_base (c : Cfg) (na s lbl upto : Nat) (naDone : Bool) (p : Proc5) :
    (stepActs5 c na s lbl upto naDone p).base = stepActs c s upto p.base := rfl

/-- a partially executed step keeps the loose invariant — whatever label the nonadiabatic write
    used and whether or not it was reached -/
theorem Loose5.stepActs5 {c : Cfg} {na o : Nat} {p : Proc5} (h : Loose5 c na o p) (s lbl : Nat)
    {upto : Nat} (hu : upto ≤ 6) (naDone : Bool) :
    Loose5 c na o (stepActs5 c na s lbl upto naDone p) := by
  have hw : LS na c.steps o (if naDone || decide (0 < upto) then SW.step na p.na lbl else p.na) := by
    split
    · exact h.str.step lbl
    · exact h.str
  refine ⟨h.base.stepActs s hu, hw, fun oc hoc => ?_⟩
  show Good na c.steps oc (if 4 < upto && isDue c.ckpt s then _ else p.naFlushed)
  split
  · exact hw.good.anti (lastCkpt_spec hoc).2.1
  · exact h.dur oc hoc

theorem stepActs5_full (c : Cfg) (na s lbl : Nat) {upto : Nat} (hu : 7 ≤ upto) (naDone : Bool)
    (p : Proc5) :
    stepActs5 c na s lbl upto naDone p =
      { base := fullStep c s p.base, na := SW.step na p.na lbl
        naFlushed := if isDue c.ckpt s then (SW.step na p.na lbl).rows else p.naFlushed } := by
  have h0 : 0 < upto := by omega
  have h4 : 4 < upto := by omega
  simp only [stepActs5, h0, h4, decide_true, Bool.or_true, Bool.true_and, if_true,
    stepActs_full c s hu]

/-- a completely executed step with the correct label advances the exact invariant -/
theorem PInv5.stepActs5 {c : Cfg} {na o : Nat} {p : Proc5} (h : PInv5 c na o p)
    (ho : o + 1 ≤ c.steps) {upto : Nat} (hu : 7 ≤ upto) (naDone : Bool) :
    PInv5 c na (o + 1) (stepActs5 c na (o + 1) (o + 1) upto naDone p) := by
  rw [stepActs5_full c na _ _ hu]
  have hw := h.str.step ho
  refine ⟨h.base.fullStep ho, hw, fun oc hoc => ?_⟩
  show Good na c.steps oc (if isDue c.ckpt (o + 1) then _ else p.naFlushed)
  cases hd : isDue c.ckpt (o + 1)
  · simp only [Bool.false_eq_true, if_false]
    rw [lastCkpt_succ_of_not_due hd] at hoc
    exact h.dur oc hoc
  · simp only [if_true]
    rw [lastCkpt_of_due hd (Nat.succ_pos o)] at hoc
    injection hoc with hoc
    subst hoc
    exact hw.good

theorem PInv5.runTo5 {c : Cfg} {na o : Nat} {p : Proc5} (h : PInv5 c na o p) :
    ∀ k, o + k ≤ c.steps → PInv5 c na (o + k) (runTo5 naLabel c na o k p)
  | 0, _ => h
  | k + 1, hk => (PInv5.runTo5 h k (by omega)).stepActs5 (by omega) (Nat.le_refl 7) true

theorem startFresh5_inv (c : Cfg) (na : Nat) : PInv5 c na 0 (startFresh5 c na) :=
  ⟨startFresh_inv c, openFresh_inv _ _, fun oc hoc => by rw [lastCkpt_zero] at hoc; cases hoc⟩

theorem startResume5_inv {c : Cfg} {na : Nat} {d : Disk5} {o nx : Nat} (hd : DiskInv5 c na d)
    (hc : d.base.ckpt = some (o, nx)) : PInv5 c na o (startResume5 c na d o nx) := by
  have g := hd.2 o nx hc
  obtain ⟨h1, _, h3, _⟩ := hd.1 o nx hc
  refine ⟨startResume_inv hd.1 hc, openResume_inv g, fun oc hoc => ?_⟩
  rw [lastCkpt_of_due h3 h1] at hoc
  injection hoc with hoc
  subst hoc
  exact g

theorem start5_inv {c : Cfg} {na : Nat} {d : Option Disk5} (hd : ∀ dk, d = some dk → DiskInv5 c na dk) :
    PInv5 c na (start5 c na d).2 (start5 c na d).1 := by
  cases d with
  | none => exact startFresh5_inv c na
  | some dk =>
    cases hc : dk.base.ckpt with
    | none => simp only [start5, hc]; exact startFresh5_inv c na
    | some on =>
      obtain ⟨o, nx⟩ := on
      simp only [start5, hc]
      exact startResume5_inv (hd dk rfl) hc

theorem Loose5.diskInv_soft {c : Cfg} {na o : Nat} {p : Proc5} (h : Loose5 c na o p) :
    DiskInv5 c na p.closeSoft := by
  refine ⟨h.base.diskInv_soft, fun oc nx hck => ?_⟩
  obtain ⟨hl, _⟩ := h.base.ckpt_cases (show p.base.ckpt = some (oc, nx) from hck)
  exact h.str.good.anti (lastCkpt_spec hl).2.1

theorem Loose5.diskInv_hard {c : Cfg} {na o : Nat} {p : Proc5} (h : Loose5 c na o p)
    (mask naMask : Nat) : DiskInv5 c na (p.closeHard mask naMask) := by
  refine ⟨h.base.diskInv_hard mask, fun oc nx hck => ?_⟩
  obtain ⟨hl, _⟩ := h.base.ckpt_cases (show p.base.ckpt = some (oc, nx) from hck)
  exact (h.dur oc hl).merge (h.str.good.anti (lastCkpt_spec hl).2.1) naMask

theorem crash_loose5 {c : Cfg} {na o : Nat} {p : Proc5} (h : PInv5 c na o p) {s : Nat} (hs : o < s)
    (hsN : s ≤ c.steps) (upto : Nat) (naDone : Bool) :
    ∃ o', Loose5 c na o' (stepActs5 c na s s upto naDone (runTo5 naLabel c na o (s - 1 - o) p)) := by
  have h1 := h.runTo5 (s - 1 - o) (by omega)
  have e1 : o + (s - 1 - o) = s - 1 := by omega
  rw [e1] at h1
  by_cases hu : 7 ≤ upto
  · have h2 := h1.stepActs5 (by omega) hu naDone
    have e2 : s - 1 + 1 = s := by omega
    rw [e2] at h2
    exact ⟨s, h2.loose⟩
  · exact ⟨s - 1, h1.loose.stepActs5 s s (by omega) naDone⟩

theorem PInv5.closeSoft_eq {c : Cfg} {na : Nat} {p : Proc5} (h : PInv5 c na c.steps p) :
    p.closeSoft = specDisk5 c na := by
  unfold Proc5.closeSoft specDisk5
  rw [h.base.closeSoft_eq, h.str.good.eq_spec]

theorem PInv5.complete {c : Cfg} {na o : Nat} {p : Proc5} (h : PInv5 c na o p) :
    (MDState.runTo5 naLabel c na o (c.steps - o) p).closeSoft = specDisk5 c na := by
  have hle := h.base.le
  have h1 := h.runTo5 (c.steps - o) (by omega)
  have h2 : o + (c.steps - o) = c.steps := by omega
  rw [h2] at h1
  exact h1.closeSoft_eq

theorem segBody5_inv {c : Cfg} {na o : Nat} {p : Proc5} (h : PInv5 c na o p) (cr : Option Crash5) :
    DiskInv5 c na (segBody5 naLabel c na p o cr) := by
  have hend : DiskInv5 c na (runTo5 naLabel c na o (c.steps - o) p).closeSoft :=
    (h.runTo5 (c.steps - o) (by have := h.base.le; omega)).loose.diskInv_soft
  cases cr with
  | none => exact hend
  | some k =>
    simp only [segBody5]
    split
    · rename_i hk
      obtain ⟨o', hl⟩ := crash_loose5 h hk.1 hk.2 k.base.upto k.naDone
      cases k.base.hard
      · exact hl.diskInv_soft
      · exact hl.diskInv_hard k.base.mask k.naMask
    · exact hend

/-- every segment of the five-stream process, crashed or not, leaves a resumable disk -/
theorem segment5_inv {c : Cfg} {na : Nat} {d : Option Disk5}
    (hd : ∀ dk, d = some dk → DiskInv5 c na dk) (cr : Option Crash5) :
    DiskInv5 c na (segment5 naLabel c na d cr) :=
  segBody5_inv (start5_inv hd) cr

theorem segment5_complete {c : Cfg} {na : Nat} {d : Option Disk5}
    (hd : ∀ dk, d = some dk → DiskInv5 c na dk) :
    segment5 naLabel c na d none = specDisk5 c na :=
  (start5_inv hd).complete

theorem some_inv5 {c : Cfg} {na : Nat} {d : Disk5} (h : DiskInv5 c na d) :
    ∀ dk, some d = some dk → DiskInv5 c na dk := by
  intro dk e; injection e with e; subst e; exact h

theorem finalDisk5_eq_spec (c : Cfg) (na : Nat) :
    ∀ (ks : List Crash5) (d : Option Disk5), (∀ dk, d = some dk → DiskInv5 c na dk) →
      finalDisk5 naLabel c na d ks = specDisk5 c na
  | [], _, hd => segment5_complete hd
  | k :: ks, _, hd => finalDisk5_eq_spec c na ks _ (some_inv5 (segment5_inv hd (some k)))

theorem history5_inv (c : Cfg) (na : Nat) :
    ∀ (ks : List Crash5) (d : Option Disk5), (∀ dk, d = some dk → DiskInv5 c na dk) →
      ∀ r ∈ history5 naLabel c na d ks, DiskInv5 c na r
  | [], _, hd => by
    intro r hr
    simp only [history5, List.mem_singleton] at hr
    subst hr; exact segment5_inv hd none
  | k :: ks, _, hd => by
    intro r hr
    simp only [history5, List.mem_cons] at hr
    rcases hr with hr | hr
    · subst hr; exact segment5_inv hd (some k)
    · exact history5_inv c na ks _ (some_inv5 (segment5_inv hd (some k))) r hr

/-! ### the first four streams, the XYZ file and the checkpoint of the five-stream process ARE the
    `MDOut` machine (whatever label the nonadiabatic write uses) -/

theorem runTo5_base (lab : NALabel) (c : Cfg) (na o : Nat) (p : Proc5) :
    ∀ k, (runTo5 lab c na o k p).base = runTo c o k p.base
  | 0 => rfl
  | k + 1 => by
    show stepActs c (o + k + 1) 7 (runTo5 lab c na o k p).base = stepActs c (o + k + 1) 7 (runTo c o k p.base)
    rw [runTo5_base lab c na o p k]

theorem start5_base (c : Cfg) (na : Nat) (d : Option Disk5) :
    (start5 c na d).1.base = (start c (d.map (·.base))).1 ∧
      (start5 c na d).2 = (start c (d.map (·.base))).2 := by
  cases d with
  | none => exact ⟨rfl, rfl⟩
  | some dk =>
    cases hc : dk.base.ckpt with
    | none => simp only [start5, hc, Option.map_some, start]; exact ⟨rfl, trivial⟩
    | some on =>
      obtain ⟨o, nx⟩ := on
      simp only [start5, hc, Option.map_some, start]
      exact ⟨rfl, trivial⟩

theorem segBody5_base (lab : NALabel) (c : Cfg) (na : Nat) (p : Proc5) (o : Nat) (cr : Option Crash5) :
    (segBody5 lab c na p o cr).base = (segBody c p.base o (cr.map (·.base))).1 := by
  cases cr with
  | none => simp only [segBody5, segBody, Option.map_none, Proc5.closeSoft, runTo5_base]
  | some k =>
    simp only [segBody5, segBody, Option.map_some]
    split
    · cases k.base.hard
      · simp only [Bool.false_eq_true, if_false, Proc5.closeSoft, stepActs5_base, runTo5_base]
      · simp only [if_true, Proc5.closeHard, stepActs5_base, runTo5_base]
    · simp only [Proc5.closeSoft, runTo5_base]

theorem segment5_base (lab : NALabel) (c : Cfg) (na : Nat) (d : Option Disk5) (cr : Option Crash5) :
    (segment5 lab c na d cr).base = (segment c (d.map (·.base)) (cr.map (·.base))).1 := by
  unfold segment5
  rw [segBody5_base, segment_eq, (start5_base c na d).1, (start5_base c na d).2]

theorem finalDisk5_base (lab : NALabel) (c : Cfg) (na : Nat) :
    ∀ (ks : List Crash5) (d : Option Disk5),
      (finalDisk5 lab c na d ks).base = finalDisk c (d.map (·.base)) (ks.map (·.base))
  | [], d => segment5_base lab c na d none
  | k :: ks, d => by
    show (finalDisk5 lab c na (some (segment5 lab c na d (some k))) ks).base =
      finalDisk c (some (segment c (d.map (·.base)) (some k.base)).1) (ks.map (·.base))
    rw [finalDisk5_base lab c na ks, Option.map_some, segment5_base, Option.map_some]

/-- the double-offset label is invisible without a resume: at offset 0 it is the correct label -/
theorem runTo5_double_fresh (c : Cfg) (na : Nat) (p : Proc5) :
    ∀ k, runTo5 naLabelDouble c na 0 k p = runTo5 naLabel c na 0 k p
  | 0 => rfl
  | k + 1 => by
    show stepActs5 c na (0 + k + 1) (0 + k + 1 + 0) 7 true (runTo5 naLabelDouble c na 0 k p) =
      stepActs5 c na (0 + k + 1) (0 + k + 1) 7 true (runTo5 naLabel c na 0 k p)
    rw [runTo5_double_fresh c na p k]

/-! ## Parts 1 + 2: the nonadiabatic stream with values -/

theorem erase_vstepActs5 (D : Dyn σ κ Rec) (O : NAObs σ Rec) (c : Cfg) (na s upto : Nat)
    (naDone : Bool) (p : VProc5 σ κ Rec) :
    (vstepActs5 D O c na s upto naDone p).erase = stepActs5 c na s s upto naDone p.erase := by
  unfold vstepActs5 stepActs5 VProc5.erase
  simp only [erase_vstepActs]
  have e := erase_step na p.na s (O.mid p.base.st)
  cases (naDone || decide (0 < upto)) <;> cases (decide (4 < upto) && isDue c.ckpt s) <;>
    simp only [Bool.false_eq_true, if_false, if_true, ← e] <;> rfl

theorem erase_vrunTo5 (D : Dyn σ κ Rec) (O : NAObs σ Rec) (c : Cfg) (na o : Nat) (p : VProc5 σ κ Rec) :
    ∀ k, (vrunTo5 D O c na o k p).erase = runTo5 naLabel c na o k p.erase
  | 0 => rfl
  | k + 1 => by
    show (vstepActs5 D O c na (o + k + 1) 7 true (vrunTo5 D O c na o k p)).erase =
      stepActs5 c na (o + k + 1) (o + k + 1) 7 true (runTo5 naLabel c na o k p.erase)
    rw [erase_vstepActs5, erase_vrunTo5 D O c na o p k]

theorem erase_closeSoft5 (p : VProc5 σ κ Rec) : p.closeSoft.erase = p.erase.closeSoft := by
  simp only [VDisk5.erase, VProc5.closeSoft, Proc5.closeSoft, VProc5.erase, erase_closeSoft, VSW.erase]

theorem erase_closeHard5 (p : VProc5 σ κ Rec) (mask naMask : Nat) :
    (p.closeHard mask naMask).erase = p.erase.closeHard mask naMask := by
  simp only [VDisk5.erase, VProc5.closeHard, Proc5.closeHard, VProc5.erase, erase_closeHard,
    erase_mergeRows, VSW.erase]

theorem erase_startFresh5 (D : Dyn σ κ Rec) (O : NAObs σ Rec) (c : Cfg) (na : Nat) (σ0 : σ) :
    (vstartFresh5 D O c na σ0).erase = startFresh5 c na := by
  simp [VProc5.erase, vstartFresh5, startFresh5, erase_startFresh, erase_openFresh, eraseRows]

theorem erase_startResume5 (D : Dyn σ κ Rec) (c : Cfg) (na : Nat) (d : VDisk5 κ Rec) (o : Nat) (k : κ)
    (nx : Nat) : (vstartResume5 D c na d o k nx).erase = startResume5 c na d.erase o nx := by
  simp only [VProc5.erase, vstartResume5, startResume5, erase_startResume, erase_openResume,
    VDisk5.erase]

theorem erase_vstart5 (D : Dyn σ κ Rec) (O : NAObs σ Rec) (c : Cfg) (na : Nat) (σ0 : σ)
    (d : Option (VDisk5 κ Rec)) :
    (vstart5 D O c na σ0 d).1.erase = (start5 c na (d.map VDisk5.erase)).1 ∧
      (vstart5 D O c na σ0 d).2 = (start5 c na (d.map VDisk5.erase)).2 := by
  cases d with
  | none => exact ⟨erase_startFresh5 D O c na σ0, rfl⟩
  | some dk =>
    cases hc : dk.base.ckpt with
    | none =>
      have h2 : dk.erase.base.ckpt = none := by simp [VDisk5.erase, VDisk.erase, eraseCkpt, hc]
      simp only [vstart5, hc, Option.map_some, start5, h2]
      exact ⟨erase_startFresh5 D O c na σ0, trivial⟩
    | some x =>
      obtain ⟨o, k, nx⟩ := x
      have h2 : dk.erase.base.ckpt = some (o, nx) := by
        simp [VDisk5.erase, VDisk.erase, eraseCkpt, hc]
      simp only [vstart5, hc, Option.map_some, start5, h2]
      exact ⟨erase_startResume5 D c na dk o k nx, trivial⟩

theorem erase_vsegBody5 (D : Dyn σ κ Rec) (O : NAObs σ Rec) (c : Cfg) (na : Nat) (p : VProc5 σ κ Rec)
    (o : Nat) (cr : Option Crash5) :
    (vsegBody5 D O c na p o cr).erase = segBody5 naLabel c na p.erase o cr := by
  cases cr with
  | none => simp only [vsegBody5, segBody5, erase_closeSoft5, erase_vrunTo5]
  | some k =>
    simp only [vsegBody5, segBody5]
    split
    · cases k.base.hard
      · simp only [Bool.false_eq_true, if_false, erase_closeSoft5, erase_vstepActs5, erase_vrunTo5,
          naLabel]
      · simp only [if_true, erase_closeHard5, erase_vstepActs5, erase_vrunTo5, naLabel]
    · simp only [erase_closeSoft5, erase_vrunTo5]

/-- forgetting the values of a five-stream segment gives the label-level five-stream segment -/
theorem erase_vsegment5 (D : Dyn σ κ Rec) (O : NAObs σ Rec) (c : Cfg) (na : Nat) (σ0 : σ)
    (d : Option (VDisk5 κ Rec)) (cr : Option Crash5) :
    (vsegment5 D O c na σ0 d cr).erase = segment5 naLabel c na (d.map VDisk5.erase) cr := by
  unfold vsegment5 segment5
  rw [erase_vsegBody5, (erase_vstart5 D O c na σ0 d).1, (erase_vstart5 D O c na σ0 d).2]

theorem erase_vfinalDisk5 (D : Dyn σ κ Rec) (O : NAObs σ Rec) (c : Cfg) (na : Nat) (σ0 : σ) :
    ∀ (ks : List Crash5) (d : Option (VDisk5 κ Rec)),
      (vfinalDisk5 D O c na σ0 d ks).erase = finalDisk5 naLabel c na (d.map VDisk5.erase) ks
  | [], d => erase_vsegment5 D O c na σ0 d none
  | k :: ks, d => by
    show (vfinalDisk5 D O c na σ0 (some (vsegment5 D O c na σ0 d (some k))) ks).erase =
      finalDisk5 naLabel c na (some (segment5 naLabel c na (d.map VDisk5.erase) (some k))) ks
    rw [erase_vfinalDisk5 D O c na σ0 ks, Option.map_some, erase_vsegment5]

theorem erase_vhistory5 (D : Dyn σ κ Rec) (O : NAObs σ Rec) (c : Cfg) (na : Nat) (σ0 : σ) :
    ∀ (ks : List Crash5) (d : Option (VDisk5 κ Rec)),
      (vhistory5 D O c na σ0 d ks).map VDisk5.erase = history5 naLabel c na (d.map VDisk5.erase) ks
  | [], d => by
    simp only [vhistory5, history5, List.map_cons, List.map_nil, erase_vsegment5]
  | k :: ks, d => by
    simp only [vhistory5, history5, List.map_cons, erase_vsegment5]
    rw [erase_vhistory5 D O c na σ0 ks, Option.map_some, erase_vsegment5]

/-- process invariant with values, five streams: base as `VOKs`, every nonadiabatic row labelled
    `s` (in memory or flushed) holds `naAt D O σ0 s` -/
structure VOKs5 (D : Dyn σ κ Rec) (O : NAObs σ Rec) (σ0 : σ) (s : Nat) (p : VProc5 σ κ Rec) : Prop where
  base : VOKs D σ0 s p.base
  na : RowsOK (naAt D O σ0) p.na.rows
  naFlushed : RowsOK (naAt D O σ0) p.naFlushed

structure VDiskOK5 (D : Dyn σ κ Rec) (O : NAObs σ Rec) (σ0 : σ) (d : VDisk5 κ Rec) : Prop where
  base : VDiskOK D σ0 d.base
  na : RowsOK (naAt D O σ0) d.na

def GoodV5 (D : Dyn σ κ Rec) (O : NAObs σ Rec) (c : Cfg) (na : Nat) (σ0 : σ) (d : VDisk5 κ Rec) : Prop :=
  VDiskOK5 D O σ0 d ∧ DiskInv5 c na d.erase

theorem VOKs5.stepActs5 {D : Dyn σ κ Rec} {O : NAObs σ Rec} {σ0 : σ} {o : Nat} {p : VProc5 σ κ Rec}
    (h : VOKs5 D O σ0 o p) (c : Cfg) (na upto : Nat) (naDone : Bool) :
    VOKs5 D O σ0 (o + 1) (vstepActs5 D O c na (o + 1) upto naDone p) := by
  have hw : RowsOK (naAt D O σ0)
      (if naDone || decide (0 < upto) then VSW.step na p.na (o + 1) (O.mid p.base.st) else p.na).rows := by
    split
    · rw [h.base.st]
      exact RowsOK.step (f := naAt D O σ0) h.na na (o + 1)
    · exact h.na
  refine ⟨h.base.stepActs c upto, hw, ?_⟩
  show RowsOK _ (if 4 < upto && isDue c.ckpt (o + 1) then _ else p.naFlushed)
  split
  · exact hw
  · exact h.naFlushed

theorem VOKs5.stepActs5' {D : Dyn σ κ Rec} {O : NAObs σ Rec} {σ0 : σ} {o s : Nat}
    {p : VProc5 σ κ Rec} (h : VOKs5 D O σ0 o p) (hs : s = o + 1) (c : Cfg) (na upto : Nat)
    (naDone : Bool) : VOKs5 D O σ0 s (vstepActs5 D O c na s upto naDone p) := by
  subst hs; exact h.stepActs5 c na upto naDone

theorem VOKs5.runTo5 {D : Dyn σ κ Rec} {O : NAObs σ Rec} {σ0 : σ} {o : Nat} {p : VProc5 σ κ Rec}
    (h : VOKs5 D O σ0 o p) (c : Cfg) (na : Nat) : ∀ k, VOKs5 D O σ0 (o + k) (vrunTo5 D O c na o k p)
  | 0 => h
  | k + 1 => (VOKs5.runTo5 h c na k).stepActs5 c na 7 true

theorem VOKs5.closeSoft {D : Dyn σ κ Rec} {O : NAObs σ Rec} {σ0 : σ} {s : Nat} {p : VProc5 σ κ Rec}
    (h : VOKs5 D O σ0 s p) : VDiskOK5 D O σ0 p.closeSoft := ⟨h.base.ok.closeSoft, h.na⟩

theorem VOKs5.closeHard {D : Dyn σ κ Rec} {O : NAObs σ Rec} {σ0 : σ} {s : Nat} {p : VProc5 σ κ Rec}
    (h : VOKs5 D O σ0 s p) (mask naMask : Nat) : VDiskOK5 D O σ0 (p.closeHard mask naMask) :=
  ⟨h.base.ok.closeHard mask, h.naFlushed.merge h.na naMask⟩

theorem vstartFresh5_ok (D : Dyn σ κ Rec) (O : NAObs σ Rec) (c : Cfg) (na : Nat) (σ0 : σ) :
    VOKs5 D O σ0 0 (vstartFresh5 D O c na σ0) :=
  ⟨vstartFresh_ok D c σ0, RowsOK.openFresh (naAt D O σ0) _ _, RowsOK.replicate_none _ _⟩

theorem vstart5_ok {D : Dyn σ κ Rec} {O : NAObs σ Rec} {σ0 : σ} {c : Cfg} {na : Nat}
    (hcc : CkptComplete D c σ0) {d : Option (VDisk5 κ Rec)}
    (hd : ∀ dk, d = some dk → GoodV5 D O c na σ0 dk) :
    VOKs5 D O σ0 (vstart5 D O c na σ0 d).2 (vstart5 D O c na σ0 d).1 := by
  cases d with
  | none => exact vstartFresh5_ok D O c na σ0
  | some dk =>
    obtain ⟨hok, hinv⟩ := hd dk rfl
    cases hc : dk.base.ckpt with
    | none => simp only [vstart5, hc]; exact vstartFresh5_ok D O c na σ0
    | some x =>
      obtain ⟨o, k, nx⟩ := x
      simp only [vstart5, hc]
      have h2 : dk.erase.base.ckpt = some (o, nx) := by
        simp [VDisk5.erase, VDisk.erase, eraseCkpt, hc]
      obtain ⟨h1, h2', h3, _⟩ := hinv.1 o nx h2
      exact ⟨vstartResume_ok hok.base hc (hcc o h1 h2' h3), hok.na, hok.na⟩

theorem vsegBody5_ok {D : Dyn σ κ Rec} {O : NAObs σ Rec} {σ0 : σ} {c : Cfg} {na o : Nat}
    {p : VProc5 σ κ Rec} (h : VOKs5 D O σ0 o p) (cr : Option Crash5) :
    VDiskOK5 D O σ0 (vsegBody5 D O c na p o cr) := by
  cases cr with
  | none => exact (h.runTo5 c na _).closeSoft
  | some k =>
    simp only [vsegBody5]
    split
    · rename_i hk
      have h1 := (h.runTo5 c na (k.base.step - 1 - o)).stepActs5' (s := k.base.step) (by omega) c na
        k.base.upto k.naDone
      cases k.base.hard
      · exact h1.closeSoft
      · exact h1.closeHard k.base.mask k.naMask
    · exact (h.runTo5 c na _).closeSoft

theorem map_erase_inv5 {D : Dyn σ κ Rec} {O : NAObs σ Rec} {σ0 : σ} {c : Cfg} {na : Nat}
    {d : Option (VDisk5 κ Rec)} (hd : ∀ dk, d = some dk → GoodV5 D O c na σ0 dk) :
    ∀ dk, d.map VDisk5.erase = some dk → DiskInv5 c na dk := by
  intro dk h
  cases d with
  | none => cases h
  | some dv =>
    simp only [Option.map_some, Option.some.injEq] at h
    subst h; exact (hd dv rfl).2

theorem vsegment5_good {D : Dyn σ κ Rec} {O : NAObs σ Rec} {σ0 : σ} {c : Cfg} {na : Nat}
    (hcc : CkptComplete D c σ0) {d : Option (VDisk5 κ Rec)}
    (hd : ∀ dk, d = some dk → GoodV5 D O c na σ0 dk) (cr : Option Crash5) :
    GoodV5 D O c na σ0 (vsegment5 D O c na σ0 d cr) := by
  refine ⟨vsegBody5_ok (vstart5_ok hcc hd) cr, ?_⟩
  rw [erase_vsegment5]
  exact segment5_inv (map_erase_inv5 hd) cr

theorem some_good5 {D : Dyn σ κ Rec} {O : NAObs σ Rec} {σ0 : σ} {c : Cfg} {na : Nat}
    {d : VDisk5 κ Rec} (h : GoodV5 D O c na σ0 d) : ∀ dk, some d = some dk → GoodV5 D O c na σ0 dk := by
  intro dk e; injection e with e; subst e; exact h

theorem none_good5 {D : Dyn σ κ Rec} {O : NAObs σ Rec} {σ0 : σ} {c : Cfg} {na : Nat} :
    ∀ dk, (none : Option (VDisk5 κ Rec)) = some dk → GoodV5 D O c na σ0 dk := fun _ h => by cases h

theorem vhistory5_good {D : Dyn σ κ Rec} {O : NAObs σ Rec} {σ0 : σ} {c : Cfg} {na : Nat}
    (hcc : CkptComplete D c σ0) :
    ∀ (ks : List Crash5) (d : Option (VDisk5 κ Rec)), (∀ dk, d = some dk → GoodV5 D O c na σ0 dk) →
      ∀ r ∈ vhistory5 D O c na σ0 d ks, GoodV5 D O c na σ0 r
  | [], _, hd => by
    intro r hr
    simp only [vhistory5, List.mem_singleton] at hr
    subst hr; exact vsegment5_good hcc hd none
  | k :: ks, _, hd => by
    intro r hr
    simp only [vhistory5, List.mem_cons] at hr
    rcases hr with hr | hr
    · subst hr; exact vsegment5_good hcc hd (some k)
    · exact vhistory5_good hcc ks _ (some_good5 (vsegment5_good hcc hd (some k))) r hr

theorem vfinalDisk5_good {D : Dyn σ κ Rec} {O : NAObs σ Rec} {σ0 : σ} {c : Cfg} {na : Nat}
    (hcc : CkptComplete D c σ0) :
    ∀ (ks : List Crash5) (d : Option (VDisk5 κ Rec)), (∀ dk, d = some dk → GoodV5 D O c na σ0 dk) →
      GoodV5 D O c na σ0 (vfinalDisk5 D O c na σ0 d ks)
  | [], _, hd => vsegment5_good hcc hd none
  | k :: ks, _, hd => vfinalDisk5_good hcc ks _ (some_good5 (vsegment5_good hcc hd (some k)))

theorem eq_vspecDisk5 {D : Dyn σ κ Rec} {O : NAObs σ Rec} {σ0 : σ} {c : Cfg} {na : Nat}
    {d : VDisk5 κ Rec} (hok : VDiskOK5 D O σ0 d) (he : d.erase = specDisk5 c na) :
    d = vspecDisk5 D O c na σ0 := by
  obtain ⟨b, n⟩ := d
  simp only [VDisk5.erase, specDisk5, Disk5.mk.injEq, specRows] at he
  have h1 := eq_vspecDisk hok.base he.1
  have h2 := rows_eq_of_erase hok.na he.2
  simp only at h1 h2
  simp only [vspecDisk5, vspecRows, h1, h2]

end MDState
