import PyseqmVerif.Model.ScfControl
import Mathlib.Algebra.Order.Field.Basic
import Mathlib.Algebra.Order.AbsoluteValue.Basic
import Mathlib.Tactic.Linarith
import Mathlib.Tactic.NormNum
import Mathlib.Tactic.NormNum.OfScientific

/-! Helper lemmas about `ScfControl` (model of `scf_loop.get_error` and the SCF loop skeleton).
    Structural facts hold for any scalar type (NaN-carrying `Float` included); the reading of a
    passed test as `≤` needs a linear order (`¬ (a < b) ↔ b ≤ a`). -/
namespace ScfControl
set_option linter.unusedSectionVars false

/-! ## `get_error`, any scalar type -/
section Generic
variable {α : Type} [Sub α] [Mul α] [OfScientific α] [LT α] [DecidableLT α]

/-- a molecule that was active and is returned converged had its density errors freshly
    computed in this very call (any scalar type, any comparison, NaN included) -/
theorem getErrorMol_fresh (abs : α → α) (eps : α) (m : MolIn α) (hact : m.active = true)
    (hconv : (getErrorMol abs eps m).notconv = false) :
    (getErrorMol abs eps m).fresh = true ∧ (getErrorMol abs eps m).dm = m.dmFresh ∧
      (getErrorMol abs eps m).elem = m.elemFresh ∧ (getErrorMol abs eps m).err = m.eNew - m.eOld := by
  rcases m with ⟨act, eN, eO, eS, dF, elF, dS, elS, diis⟩
  simp only at hact
  subst hact
  by_cases hb : eps < abs (eN - eO)
  · cases diis <;> simp [getErrorMol, hb] at hconv
  · cases diis with
    | none => simp [getErrorMol, hb]
    | some d =>
      by_cases hd : (50.0 : α) * eps < d
      · simp [getErrorMol, hb, hd] at hconv
      · simp [getErrorMol, hb, hd]

/-- nothing is written for an inactive molecule -/
theorem getErrorMol_inactive (abs : α → α) (eps : α) (m : MolIn α) (hact : m.active = false) :
    (getErrorMol abs eps m).fresh = false ∧ (getErrorMol abs eps m).dm = m.dmStored ∧
      (getErrorMol abs eps m).elem = m.elemStored ∧ (getErrorMol abs eps m).err = m.errStored := by
  rcases m with ⟨act, eN, eO, eS, dF, elF, dS, elS, diis⟩
  simp only at hact
  subst hact
  simp [getErrorMol]

/-- when the energy test fails the density errors are *not* recomputed: the stored (stale)
    values are the ones compared -/
theorem getErrorMol_stale (abs : α → α) (eps : α) (m : MolIn α)
    (hbad : eps < abs (if m.active then m.eNew - m.eOld else m.errStored)) :
    (getErrorMol abs eps m).fresh = false ∧ (getErrorMol abs eps m).dm = m.dmStored ∧
      (getErrorMol abs eps m).elem = m.elemStored ∧ (getErrorMol abs eps m).notconv = true := by
  rcases m with ⟨act, eN, eO, eS, dF, elF, dS, elS, diis⟩
  simp only at hbad
  cases diis <;> simp [getErrorMol, hbad]

/-! ## loop structure, any scalar type -/
variable {γ σ : Type}

theorem loop_zero (Kn : Kernels γ σ α) (abs : α → α) (eps : α) (k : Nat) (st : State γ σ α) :
    loop Kn abs eps 0 k st = st := rfl

theorem loop_succ_conv (Kn : Kernels γ σ α) (abs : α → α) (eps : α) (fuel k : Nat)
    (st : State γ σ α) (h : allConverged (body Kn abs eps k st).mols = true) :
    loop Kn abs eps (fuel+1) k st = body Kn abs eps k st := by
  simp [loop, h]

theorem loop_succ_not (Kn : Kernels γ σ α) (abs : α → α) (eps : α) (fuel k : Nat)
    (st : State γ σ α) (h : allConverged (body Kn abs eps k st).mols = false) :
    loop Kn abs eps (fuel+1) k st = loop Kn abs eps fuel (k+1) (body Kn abs eps k st) := by
  simp [loop, h]

theorem body_getElem? (Kn : Kernels γ σ α) (abs : α → α) (eps : α) (k : Nat) (st : State γ σ α)
    (i : Nat) :
    (body Kn abs eps k st).mols[i]? =
      (st.mols[i]?).map (updMol Kn abs eps k ((Kn.step k st.g st.mols).2 i)) := by
  simp [body, List.getElem?_mapIdx]

theorem body_length (Kn : Kernels γ σ α) (abs : α → α) (eps : α) (k : Nat) (st : State γ σ α) :
    (body Kn abs eps k st).mols.length = st.mols.length := by
  simp [body]

theorem body_iters (Kn : Kernels γ σ α) (abs : α → α) (eps : α) (k : Nat) (st : State γ σ α) :
    (body Kn abs eps k st).iters = st.iters + 1 := rfl

theorem mem_body (Kn : Kernels γ σ α) (abs : α → α) (eps : α) (k : Nat) (st : State γ σ α)
    (m' : Mol σ α) (h : m' ∈ (body Kn abs eps k st).mols) :
    ∃ m ∈ st.mols, ∃ cand, m' = updMol Kn abs eps k cand m := by
  obtain ⟨i, hi, rfl⟩ := List.getElem_of_mem h
  have h1 := body_getElem? Kn abs eps k st i
  rw [List.getElem?_eq_getElem hi] at h1
  have hi' : i < st.mols.length := by rw [← body_length Kn abs eps k st]; exact hi
  rw [List.getElem?_eq_getElem hi'] at h1
  simp only [Option.map_some, Option.some.injEq] at h1
  exact ⟨st.mols[i], List.getElem_mem hi', _, h1⟩

/-- a property preserved by the per-molecule body is preserved by the whole loop -/
theorem loop_forall (Kn : Kernels γ σ α) (abs : α → α) (eps : α) (P : Mol σ α → Prop)
    (hP : ∀ k cand m, P m → P (updMol Kn abs eps k cand m)) :
    ∀ (fuel k : Nat) (st : State γ σ α), (∀ m ∈ st.mols, P m) →
      ∀ m ∈ (loop Kn abs eps fuel k st).mols, P m := by
  intro fuel
  induction fuel with
  | zero => intro k st h; exact h
  | succ fuel ih =>
    intro k st h
    have hb : ∀ m ∈ (body Kn abs eps k st).mols, P m := by
      intro m' hm'
      obtain ⟨m, hm, cand, rfl⟩ := mem_body Kn abs eps k st m' hm'
      exact hP k cand m (h m hm)
    cases hc : allConverged (body Kn abs eps k st).mols
    · rw [loop_succ_not _ _ _ _ _ _ hc]; exact ih (k+1) _ hb
    · rw [loop_succ_conv _ _ _ _ _ _ hc]; exact hb

/-- a property established by the per-molecule body holds after any loop that ran at least once -/
theorem loop_after_body (Kn : Kernels γ σ α) (abs : α → α) (eps : α) (P : Mol σ α → Prop)
    (hP : ∀ k cand m, P (updMol Kn abs eps k cand m)) :
    ∀ (fuel k : Nat) (st : State γ σ α), ∀ m ∈ (loop Kn abs eps (fuel+1) k st).mols, P m := by
  intro fuel
  induction fuel with
  | zero =>
    intro k st m' hm'
    have hb : ∀ m ∈ (body Kn abs eps k st).mols, P m := by
      intro m1 hm1
      obtain ⟨m, -, cand, rfl⟩ := mem_body Kn abs eps k st m1 hm1
      exact hP k cand m
    cases hc : allConverged (body Kn abs eps k st).mols
    · rw [loop_succ_not _ _ _ _ _ _ hc, loop_zero] at hm'; exact hb m' hm'
    · rw [loop_succ_conv _ _ _ _ _ _ hc] at hm'; exact hb m' hm'
  | succ fuel ih =>
    intro k st m' hm'
    cases hc : allConverged (body Kn abs eps k st).mols
    · rw [loop_succ_not _ _ _ _ _ _ hc] at hm'; exact ih (k+1) _ m' hm'
    · rw [loop_succ_conv _ _ _ _ _ _ hc] at hm'
      obtain ⟨m, -, cand, rfl⟩ := mem_body Kn abs eps k st m' hm'
      exact hP k cand m

theorem loop_length (Kn : Kernels γ σ α) (abs : α → α) (eps : α) :
    ∀ (fuel k : Nat) (st : State γ σ α), (loop Kn abs eps fuel k st).mols.length = st.mols.length := by
  intro fuel
  induction fuel with
  | zero => intro k st; rfl
  | succ fuel ih =>
    intro k st
    cases hc : allConverged (body Kn abs eps k st).mols
    · rw [loop_succ_not _ _ _ _ _ _ hc, ih, body_length]
    · rw [loop_succ_conv _ _ _ _ _ _ hc, body_length]

/-- at most `fuel` bodies (= calls of the kernel `Kn.step`) are executed -/
theorem loop_iters_le (Kn : Kernels γ σ α) (abs : α → α) (eps : α) :
    ∀ (fuel k : Nat) (st : State γ σ α), (loop Kn abs eps fuel k st).iters ≤ st.iters + fuel := by
  intro fuel
  induction fuel with
  | zero => intro k st; exact Nat.le_refl _
  | succ fuel ih =>
    intro k st
    cases hc : allConverged (body Kn abs eps k st).mols
    · rw [loop_succ_not _ _ _ _ _ _ hc]
      have := ih (k+1) (body Kn abs eps k st)
      rw [body_iters] at this; omega
    · rw [loop_succ_conv _ _ _ _ _ _ hc, body_iters]; omega

/-- the loop stops early only when every molecule is converged -/
theorem loop_exit (Kn : Kernels γ σ α) (abs : α → α) (eps : α) :
    ∀ (fuel k : Nat) (st : State γ σ α),
      allConverged (loop Kn abs eps (fuel+1) k st).mols = true ∨
      (loop Kn abs eps (fuel+1) k st).iters = st.iters + (fuel+1) := by
  intro fuel
  induction fuel with
  | zero =>
    intro k st
    cases hc : allConverged (body Kn abs eps k st).mols
    · right; rw [loop_succ_not _ _ _ _ _ _ hc, loop_zero, body_iters]
    · left; rw [loop_succ_conv _ _ _ _ _ _ hc]; exact hc
  | succ fuel ih =>
    intro k st
    cases hc : allConverged (body Kn abs eps k st).mols
    · rw [loop_succ_not _ _ _ _ _ _ hc]
      rcases ih (k+1) (body Kn abs eps k st) with h | h
      · left; exact h
      · right; rw [h, body_iters]; omega
    · left; rw [loop_succ_conv _ _ _ _ _ _ hc]; exact hc

theorem updMol_lastIt (Kn : Kernels γ σ α) (abs : α → α) (eps : α) (k : Nat) (cand : σ) (m : Mol σ α) :
    (updMol Kn abs eps k cand m).lastIt = k ∨ (updMol Kn abs eps k cand m).lastIt = m.lastIt := by
  unfold updMol
  by_cases ha : m.active = true
  · left; simp [ha]
  · right; simp [ha]

/-- the ghost index of the last write is one of the loop indices `k … k+fuel` -/
theorem loop_lastIt (Kn : Kernels γ σ α) (abs : α → α) (eps : α) :
    ∀ (fuel k : Nat) (st : State γ σ α), (∀ m ∈ st.mols, m.lastIt ≤ k) →
      ∀ m ∈ (loop Kn abs eps (fuel+1) k st).mols, m.lastIt ≤ k + fuel := by
  intro fuel
  induction fuel with
  | zero =>
    intro k st h m' hm'
    have hb : ∀ m ∈ (body Kn abs eps k st).mols, m.lastIt ≤ k := by
      intro m1 hm1
      obtain ⟨m, hm, cand, rfl⟩ := mem_body Kn abs eps k st m1 hm1
      have := h m hm
      rcases updMol_lastIt Kn abs eps k cand m with h1 | h1 <;> omega
    cases hc : allConverged (body Kn abs eps k st).mols
    · rw [loop_succ_not _ _ _ _ _ _ hc, loop_zero] at hm'; exact hb m' hm'
    · rw [loop_succ_conv _ _ _ _ _ _ hc] at hm'; exact hb m' hm'
  | succ fuel ih =>
    intro k st h m' hm'
    have hb : ∀ m ∈ (body Kn abs eps k st).mols, m.lastIt ≤ k := by
      intro m1 hm1
      obtain ⟨m, hm, cand, rfl⟩ := mem_body Kn abs eps k st m1 hm1
      have := h m hm
      rcases updMol_lastIt Kn abs eps k cand m with h1 | h1 <;> omega
    cases hc : allConverged (body Kn abs eps k st).mols
    · rw [loop_succ_not _ _ _ _ _ _ hc] at hm'
      have := ih (k+1) _ (fun m hm => Nat.le_succ_of_le (hb m hm)) m' hm'; omega
    · rw [loop_succ_conv _ _ _ _ _ _ hc] at hm'
      have := hb m' hm'; omega

/-- `n` loop bodies with indices `k0 … k0+n-1`, without the `Nnot == 0` test -/
def runN (Kn : Kernels γ σ α) (abs : α → α) (eps : α) (k0 : Nat) : Nat → State γ σ α → State γ σ α
  | 0, st => st
  | n+1, st => body Kn abs eps (k0 + n) (runN Kn abs eps k0 n st)

theorem runN_shift (Kn : Kernels γ σ α) (abs : α → α) (eps : α) (k : Nat) (st : State γ σ α) :
    ∀ j, runN Kn abs eps (k+1) j (body Kn abs eps k st) = runN Kn abs eps k (j+1) st := by
  intro j
  induction j with
  | zero => rfl
  | succ j ih =>
    show body Kn abs eps (k + 1 + j) (runN Kn abs eps (k+1) j (body Kn abs eps k st)) =
      body Kn abs eps (k + (j + 1)) (runN Kn abs eps k (j+1) st)
    rw [ih, Nat.add_right_comm k 1 j, Nat.add_assoc k j 1]

/-- the loop with `break` is a prefix of the plain iteration: it returns the state after `j ≤ fuel`
    bodies, and `j < fuel` only if every molecule is converged -/
theorem loop_eq_runN (Kn : Kernels γ σ α) (abs : α → α) (eps : α) :
    ∀ (fuel k : Nat) (st : State γ σ α), ∃ j, j ≤ fuel ∧
      loop Kn abs eps fuel k st = runN Kn abs eps k j st ∧
      (j = fuel ∨ allConverged (runN Kn abs eps k j st).mols = true) := by
  intro fuel
  induction fuel with
  | zero => intro k st; exact ⟨0, Nat.le_refl _, rfl, Or.inl rfl⟩
  | succ fuel ih =>
    intro k st
    cases hc : allConverged (body Kn abs eps k st).mols
    · obtain ⟨j, hj, he, hx⟩ := ih (k+1) (body Kn abs eps k st)
      refine ⟨j+1, by omega, ?_, ?_⟩
      · rw [loop_succ_not _ _ _ _ _ _ hc, he, runN_shift]
      · rcases hx with hx | hx
        · left; omega
        · right; rw [← runN_shift]; exact hx
    · refine ⟨1, by omega, ?_, Or.inr ?_⟩
      · rw [loop_succ_conv _ _ _ _ _ _ hc]; simp [runN]
      · simpa [runN] using hc

theorem runN_add (Kn : Kernels γ σ α) (abs : α → α) (eps : α) (k n : Nat) (st : State γ σ α) :
    ∀ d, runN Kn abs eps k (n + d) st = runN Kn abs eps (k + n) d (runN Kn abs eps k n st) := by
  intro d
  induction d with
  | zero => rfl
  | succ d ih =>
    show body Kn abs eps (k + (n + d)) (runN Kn abs eps k (n + d) st) =
      body Kn abs eps (k + n + d) (runN Kn abs eps (k + n) d (runN Kn abs eps k n st))
    rw [ih, Nat.add_assoc]

theorem runN_forall (Kn : Kernels γ σ α) (abs : α → α) (eps : α) (P : Mol σ α → Prop)
    (hP : ∀ k cand m, P m → P (updMol Kn abs eps k cand m)) (k : Nat) (st : State γ σ α)
    (h : ∀ m ∈ st.mols, P m) : ∀ n, ∀ m ∈ (runN Kn abs eps k n st).mols, P m := by
  intro n
  induction n with
  | zero => exact h
  | succ n ih =>
    intro m' hm'
    obtain ⟨m, hm, cand, rfl⟩ := mem_body Kn abs eps _ _ m' hm'
    exact hP _ cand m (ih m hm)

variable [OfNat α 0] [OfNat α 1]

theorem initState_active (Kn : Kernels γ σ α) (g : γ) (ss : List σ) :
    ∀ m ∈ (initState Kn g ss).mols, m.active = true := by
  intro m hm
  simp only [initState, List.mem_map] at hm
  obtain ⟨s, -, rfl⟩ := hm
  rfl

theorem initState_lastIt (Kn : Kernels γ σ α) (g : γ) (ss : List σ) :
    ∀ m ∈ (initState Kn g ss).mols, m.lastIt ≤ 0 := by
  intro m hm
  simp only [initState, List.mem_map] at hm
  obtain ⟨s, -, rfl⟩ := hm
  exact Nat.le_refl _

end Generic

/-! ## linear ordered field -/
section Ordered
variable {K : Type} [Field K] [LinearOrder K] [IsStrictOrderedRing K]

/-- the three/four-part test of `get_error` passes on the given (stored) values -/
def Passed (eps err dm elem : K) (diis : Option K) : Prop :=
  |err| ≤ eps ∧ dm ≤ 2 * eps ∧ elem ≤ 15 * eps ∧ ∀ d, diis = some d → d ≤ 50 * eps

theorem lit2 : (2.0 : K) = 2 := by norm_num
theorem lit15 : (15.0 : K) = 15 := by norm_num
theorem lit50 : (50.0 : K) = 50 := by norm_num

/-- the returned flag is exactly the test on the values stored after the call -/
theorem getErrorMol_flag (eps : K) (m : MolIn K) :
    (getErrorMol (fun x => |x|) eps m).notconv = false ↔
      Passed eps (getErrorMol (fun x => |x|) eps m).err (getErrorMol (fun x => |x|) eps m).dm
        (getErrorMol (fun x => |x|) eps m).elem m.diis := by
  unfold Passed getErrorMol
  rcases m with ⟨act, eN, eO, eS, dF, elF, dS, elS, diis⟩
  cases diis with
  | none =>
    simp only [Bool.or_eq_false_iff, decide_eq_false_iff_not, not_lt, lit2, lit15]
    constructor
    · rintro ⟨⟨h1, h2⟩, h3⟩
      exact ⟨h1, by linarith, by linarith, by simp⟩
    · rintro ⟨h1, h2, h3, -⟩
      exact ⟨⟨h1, by linarith⟩, by linarith⟩
  | some d =>
    simp only [Bool.or_eq_false_iff, decide_eq_false_iff_not, not_lt, lit2, lit15, lit50]
    constructor
    · rintro ⟨⟨⟨h1, h4⟩, h2⟩, h3⟩
      refine ⟨h1, by linarith, by linarith, ?_⟩
      intro d' hd'; cases hd'; exact h4
    · rintro ⟨h1, h2, h3, h4⟩
      exact ⟨⟨⟨h1, h4 d rfl⟩, by linarith⟩, by linarith⟩

variable {γ σ : Type}

/-- what a converged record certifies: the stored errors were evaluated on the record's own
    state `m.s` (the state that is returned) and pass the test -/
def Truthful (Kn : Kernels γ σ K) (eps : K) (m : Mol σ K) : Prop :=
  m.active = false →
    m.eNew = Kn.energy m.s ∧ m.err = m.eNew - m.eOld ∧ m.dm = Kn.dmErr m.s ∧
    m.elem = Kn.elemErr m.s ∧ Passed eps m.err m.dm m.elem (Kn.diisErr m.s)

/-- the flag is exactly the test on the stored errors -/
def Reported (Kn : Kernels γ σ K) (eps : K) (m : Mol σ K) : Prop :=
  m.active = false ↔ Passed eps m.err m.dm m.elem (Kn.diisErr m.s)

theorem updMol_reported (Kn : Kernels γ σ K) (eps : K) (k : Nat) (cand : σ) (m : Mol σ K) :
    Reported Kn eps (updMol Kn (fun x => |x|) eps k cand m) := by
  unfold Reported updMol
  by_cases ha : m.active = true
  · simp only [ha, if_true]
    exact getErrorMol_flag eps _
  · simp only [ha]
    exact getErrorMol_flag eps _

/-- sticky: a converged record is a fixed point of the loop body, whatever the kernels propose -/
theorem updMol_frozen (Kn : Kernels γ σ K) (eps : K) (k : Nat) (cand : σ) (m : Mol σ K)
    (ha : m.active = false) (ht : Truthful Kn eps m) :
    updMol Kn (fun x => |x|) eps k cand m = m := by
  obtain ⟨-, -, -, -, hp⟩ := ht ha
  have hin := getErrorMol_inactive (fun x : K => |x|) eps
      { active := false, eNew := m.eNew, eOld := m.eOld, errStored := m.err,
        dmFresh := m.dm, elemFresh := m.elem, dmStored := m.dm, elemStored := m.elem,
        diis := Kn.diisErr m.s } rfl
  obtain ⟨-, h2, h3, h4⟩ := hin
  have hflag := (getErrorMol_flag eps
      { active := false, eNew := m.eNew, eOld := m.eOld, errStored := m.err,
        dmFresh := m.dm, elemFresh := m.elem, dmStored := m.dm, elemStored := m.elem,
        diis := Kn.diisErr m.s }).2 (by rw [h2, h3, h4]; exact hp)
  unfold updMol
  simp only [ha, Bool.false_eq_true, if_false]
  rw [hflag, h2, h3, h4]
  cases m
  simp_all

theorem updMol_truthful (Kn : Kernels γ σ K) (eps : K) (k : Nat) (cand : σ) (m : Mol σ K)
    (ht : Truthful Kn eps m) : Truthful Kn eps (updMol Kn (fun x => |x|) eps k cand m) := by
  by_cases ha : m.active = true
  · intro hnew
    unfold updMol at hnew ⊢
    simp only [ha, if_true] at hnew ⊢
    have hf := getErrorMol_fresh (fun x : K => |x|) eps _ rfl hnew
    have hp := (getErrorMol_flag eps _).1 hnew
    obtain ⟨-, h2, h3, h4⟩ := hf
    simp only [hnew, Bool.false_eq_true, if_false]
    exact ⟨trivial, h4, h2, h3, hp⟩
  · have ha' : m.active = false := by simpa using ha
    rw [updMol_frozen Kn eps k cand m ha' ht]
    exact ht

/-- converged molecule `i` keeps its whole record (state, energies, errors, flag) to the end -/
theorem loop_frozen (Kn : Kernels γ σ K) (eps : K) :
    ∀ (fuel k : Nat) (st : State γ σ K) (i : Nat) (m : Mol σ K),
      (∀ m ∈ st.mols, Truthful Kn eps m) → st.mols[i]? = some m → m.active = false →
      (loop Kn (fun x => |x|) eps fuel k st).mols[i]? = some m := by
  intro fuel
  induction fuel with
  | zero => intro k st i m _ h _; exact h
  | succ fuel ih =>
    intro k st i m hall hi ha
    have hb : (body Kn (fun x => |x|) eps k st).mols[i]? = some m := by
      rw [body_getElem?, hi, Option.map_some,
        updMol_frozen Kn eps k _ m ha (hall m (List.mem_of_getElem? hi))]
    have hall' : ∀ m ∈ (body Kn (fun x => |x|) eps k st).mols, Truthful Kn eps m := by
      intro m' hm'
      obtain ⟨m0, hm0, cand, rfl⟩ := mem_body Kn _ eps k st m' hm'
      exact updMol_truthful Kn eps k cand m0 (hall m0 hm0)
    cases hc : allConverged (body Kn (fun x => |x|) eps k st).mols
    · rw [loop_succ_not _ _ _ _ _ _ hc]; exact ih (k+1) _ i m hall' hb ha
    · rw [loop_succ_conv _ _ _ _ _ _ hc]; exact hb

theorem runN_truthful (Kn : Kernels γ σ K) (eps : K) (k : Nat) (st : State γ σ K)
    (h : ∀ m ∈ st.mols, Truthful Kn eps m) :
    ∀ n, ∀ m ∈ (runN Kn (fun x => |x|) eps k n st).mols, Truthful Kn eps m :=
  runN_forall Kn _ eps _ (fun k cand m hm => updMol_truthful Kn eps k cand m hm) k st h

theorem runN_frozen (Kn : Kernels γ σ K) (eps : K) (k : Nat) (st : State γ σ K) (i : Nat)
    (m : Mol σ K) (hall : ∀ m ∈ st.mols, Truthful Kn eps m) (hi : st.mols[i]? = some m)
    (ha : m.active = false) :
    ∀ n, (runN Kn (fun x => |x|) eps k n st).mols[i]? = some m := by
  intro n
  induction n with
  | zero => exact hi
  | succ n ih =>
    show (body Kn (fun x => |x|) eps (k + n) (runN Kn (fun x => |x|) eps k n st)).mols[i]? = some m
    rw [body_getElem?, ih, Option.map_some,
      updMol_frozen Kn eps _ _ m ha (runN_truthful Kn eps k st hall n m (List.mem_of_getElem? ih))]

theorem initState_truthful (Kn : Kernels γ σ K) (eps : K) (g : γ) (ss : List σ) :
    ∀ m ∈ (initState Kn g ss).mols, Truthful Kn eps m := by
  intro m hm h
  rw [initState_active Kn g ss m hm] at h
  cases h

end Ordered

end ScfControl
