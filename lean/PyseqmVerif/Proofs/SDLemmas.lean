import PyseqmVerif.Proofs.HopLemmas
import Mathlib.Logic.Function.Iterate
import Mathlib.Data.List.Range
/-!
# Helper lemmas for the steepest-descent model `SD` at `ℝ`
-/
namespace SD
open Hop

noncomputable section

/-- the stop test of the loop, as a Boolean predicate on records: `not (force_err > tol)` -/
def within (tol : ℝ) (r : Rec ℝ) : Bool := decide (r.forceErr ≤ tol)

/-- 0-based index of the last evaluated record when `fuel` iterations are allowed -/
def lastIdx (tol : ℝ) (fuel : Nat) (recs : List (Rec ℝ)) : Nat := min (recs.findIdx (within tol)) (fuel - 1)

/-- `Lold` at the evaluation with 0-based index `K`: the energies of the previous record, or the
initial `Lold` for the first evaluation -/
def prevE (Lold : List ℝ) (recs : List (Rec ℝ)) (K : Nat) : List ℝ :=
  if K = 0 then Lold else ((recs[K - 1]?).map (·.E)).getD []

theorem loop_spec (tol nmol : ℝ) (fuel : Nat) :
    ∀ (i : Nat) (Lold : List ℝ) (last : Option (Nat × ℝ × ℝ)) (recs : List (Rec ℝ)),
      1 ≤ fuel → fuel ≤ recs.length →
      ∃ r, recs[lastIdx tol fuel recs]? = some r ∧
        loop tol nmol fuel i Lold last recs =
          some (i + lastIdx tol fuel recs, r.forceErr,
            energyErr nmol r.E (prevE Lold recs (lastIdx tol fuel recs))) := by
  induction fuel with
  | zero => intro _ _ _ _ h; omega
  | succ fuel ih =>
    intro i Lold last recs _ hlen
    cases recs with
    | nil => simp at hlen
    | cons r rs =>
      by_cases hgt : tol < r.forceErr
      · have hw : within tol r = false := by simp [within, not_le.mpr hgt]
        by_cases hf : fuel = 0
        · subst hf
          refine ⟨r, by simp [lastIdx], ?_⟩
          simp [loop, hgt, lastIdx, prevE]
        · have hlen' : fuel ≤ rs.length := by simpa using hlen
          obtain ⟨r', hr', hl'⟩ := ih (i + 1) r.E (some (i, r.forceErr, energyErr nmol r.E Lold)) rs
            (by omega) hlen'
          have hK : lastIdx tol (fuel + 1) (r :: rs) = lastIdx tol fuel rs + 1 := by
            simp only [lastIdx, List.findIdx_cons, hw, cond_false]; omega
          refine ⟨r', by rw [hK]; simpa using hr', ?_⟩
          simp only [loop, hgt, if_true]
          rw [hl', hK]
          have hp : prevE Lold (r :: rs) (lastIdx tol fuel rs + 1) = prevE r.E rs (lastIdx tol fuel rs) := by
            unfold prevE
            by_cases h0 : lastIdx tol fuel rs = 0
            · simp [h0]
            · have : lastIdx tol fuel rs + 1 - 1 = (lastIdx tol fuel rs - 1) + 1 := by omega
              simp [h0, this]
          rw [hp]
          congr 2
          omega
      · have hw : within tol r = true := by simp [within, not_lt.mp hgt]
        have hK : lastIdx tol (fuel + 1) (r :: rs) = 0 := by
          simp [lastIdx, List.findIdx_cons, hw]
        refine ⟨r, by rw [hK]; simp, ?_⟩
        simp only [loop, hgt, if_false]
        rw [hK]; simp [prevE]

/-! ## the loop with the engine -/

/-- one `onestep` on the coordinates -/
def stepGeom (eval : List (List ℝ) → List (List ℝ) × List ℝ) (alpha : ℝ) (xs : List (List ℝ)) :
    List (List ℝ) := updateBatch alpha xs (eval xs).1

/-- what the evaluation at geometry `xs` contributes to the control flow -/
def recAt (eval : List (List ℝ) → List (List ℝ) × List ℝ) (abs : ℝ → ℝ) (xs : List (List ℝ)) : Rec ℝ :=
  { forceErr := maxAbs abs (eval xs).1, E := (eval xs).2 }

/-- the records of the first `n` geometries of the steepest-descent path -/
def records (eval : List (List ℝ) → List (List ℝ) × List ℝ) (abs : ℝ → ℝ) (alpha : ℝ)
    (xs : List (List ℝ)) (n : Nat) : List (Rec ℝ) :=
  (List.range n).map fun t => recAt eval abs ((stepGeom eval alpha)^[t] xs)

theorem records_succ (eval : List (List ℝ) → List (List ℝ) × List ℝ) (abs : ℝ → ℝ) (alpha : ℝ)
    (xs : List (List ℝ)) (n : Nat) :
    records eval abs alpha xs (n + 1) = recAt eval abs xs :: records eval abs alpha (stepGeom eval alpha xs) n := by
  unfold records
  rw [List.range_succ_eq_map, List.map_cons, List.map_map]
  simp [Function.comp_def, Function.iterate_succ_apply]

/-- the control flow of the real loop is the record fold applied to the records of the path -/
theorem loopFull_snd (eval : List (List ℝ) → List (List ℝ) × List ℝ) (abs : ℝ → ℝ)
    (alpha tol nmol : ℝ) (fuel : Nat) :
    ∀ (i : Nat) (xs : List (List ℝ)) (Lold : List ℝ) (last : Option (Nat × ℝ × ℝ)),
      (loopFull eval abs alpha tol nmol fuel i xs Lold last).2 =
        loop tol nmol fuel i Lold last (records eval abs alpha xs fuel) := by
  induction fuel with
  | zero => intro i xs Lold last; simp [loopFull, loop]
  | succ fuel ih =>
    intro i xs Lold last
    rw [records_succ]
    rcases he : eval xs with ⟨F, Lnew⟩
    simp only [loopFull, loop, recAt, he]
    by_cases hgt : tol < maxAbs abs F
    · simp only [hgt, if_true]
      have := ih (i + 1) (updateBatch alpha xs F) Lnew (some (i, maxAbs abs F, energyErr nmol Lnew Lold))
      simpa [stepGeom, he] using this
    · simp only [hgt, if_false]

/-- the loop index only grows -/
theorem loopFull_idx_ge (eval : List (List ℝ) → List (List ℝ) × List ℝ) (abs : ℝ → ℝ)
    (alpha tol nmol : ℝ) (lo fuel : Nat) :
    ∀ (i : Nat) (xs : List (List ℝ)) (Lold : List ℝ) (last : Option (Nat × ℝ × ℝ)),
      (∀ l, last = some l → lo ≤ l.1) → lo ≤ i →
      ∀ r, (loopFull eval abs alpha tol nmol fuel i xs Lold last).2 = some r → lo ≤ r.1 := by
  induction fuel with
  | zero => intro i xs Lold last hl _ r hr; simp only [loopFull] at hr; exact hl r hr
  | succ fuel ih =>
    intro i xs Lold last hl hi r hr
    rcases he : eval xs with ⟨F, Lnew⟩
    simp only [loopFull, he] at hr
    split_ifs at hr with hgt
    · exact ih (i + 1) _ _ _ (by intro l h; simp only [Option.some.injEq] at h; subst h; exact hi)
        (by omega) r hr
    · simp only [Option.some.injEq] at hr; subst hr; exact hi

/-- once a previous iteration exists the loop always returns its variables -/
theorem loopFull_ne_none (eval : List (List ℝ) → List (List ℝ) × List ℝ) (abs : ℝ → ℝ)
    (alpha tol nmol : ℝ) (fuel : Nat) :
    ∀ (i : Nat) (xs : List (List ℝ)) (Lold : List ℝ) (l0 : Nat × ℝ × ℝ),
      (loopFull eval abs alpha tol nmol fuel i xs Lold (some l0)).2 ≠ none := by
  induction fuel with
  | zero => intro i xs Lold l0; simp [loopFull]
  | succ fuel ih =>
    intro i xs Lold l0
    rcases he : eval xs with ⟨F, Lnew⟩
    simp only [loopFull, he]
    split_ifs with hgt
    · exact ih _ _ _ _
    · simp

/-- the stored coordinates: one update per evaluation -/
theorem loopFull_fst (eval : List (List ℝ) → List (List ℝ) × List ℝ) (abs : ℝ → ℝ)
    (alpha tol nmol : ℝ) (fuel : Nat) :
    ∀ (i : Nat) (xs : List (List ℝ)) (Lold : List ℝ) (last : Option (Nat × ℝ × ℝ)),
      (∀ l, last = some l → l.1 + 1 = i) →
      (match (loopFull eval abs alpha tol nmol fuel i xs Lold last).2 with
        | some r =>
            (loopFull eval abs alpha tol nmol fuel i xs Lold last).1 = (stepGeom eval alpha)^[r.1 + 1 - i] xs
        | none => (loopFull eval abs alpha tol nmol fuel i xs Lold last).1 = xs) := by
  induction fuel with
  | zero =>
    intro i xs Lold last hl
    simp only [loopFull]
    rcases last with _ | l
    · simp
    · have := hl l rfl
      simp [← this]
  | succ fuel ih =>
    intro i xs Lold last hl
    rcases he : eval xs with ⟨F, Lnew⟩
    simp only [loopFull, he]
    by_cases hgt : tol < maxAbs abs F
    · simp only [hgt, if_true]
      have h := ih (i + 1) (updateBatch alpha xs F) Lnew (some (i, maxAbs abs F, energyErr nmol Lnew Lold))
        (by intro l h; simp only [Option.some.injEq] at h; subst h; rfl)
      rcases hres : (loopFull eval abs alpha tol nmol fuel (i + 1) (updateBatch alpha xs F) Lnew
          (some (i, maxAbs abs F, energyErr nmol Lnew Lold))).2 with _ | r
      · exact absurd hres (loopFull_ne_none eval abs alpha tol nmol fuel _ _ _ _)
      · simp only [hres] at h ⊢
        have hi : i ≤ r.1 := loopFull_idx_ge eval abs alpha tol nmol i fuel (i + 1) _ _ _
          (by intro l h; simp only [Option.some.injEq] at h; subst h; exact le_refl _) (by omega) r hres
        rw [h, show r.1 + 1 - i = (r.1 + 1 - (i + 1)) + 1 by omega, Function.iterate_succ_apply]
        simp [stepGeom, he]
    · simp only [hgt, if_false]
      simp [stepGeom, he]

end

end SD
