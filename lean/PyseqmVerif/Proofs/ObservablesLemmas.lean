import PyseqmVerif.Model.Observables
import Mathlib.Data.Real.Basic
import Mathlib.Algebra.BigOperators.Group.List.Basic
import Mathlib.Tactic.Ring
import Mathlib.Tactic.Linarith
import Mathlib.Tactic.NormNum
/-!
# Lemmas about the observables model at `ℝ` (used by C14)
-/
namespace Observables

theorem sumL_eq_sum (l : List ℝ) : sumL l = l.sum := List.sum_eq_foldl.symm

/-- the exact sum that `index_add_` accumulates into slot `m` -/
def slotSum (idx : List Nat) (src : List ℝ) (m : Nat) : ℝ :=
  (((idx.zip src).filter fun p => p.1 = m).map fun p => p.2).sum

theorem foldl_slot (m : Nat) (l : List (Nat × ℝ)) (acc : ℝ) :
    l.foldl (fun acc (p : Nat × ℝ) => if p.1 = m then acc + p.2 else acc) acc =
      acc + ((l.filter fun p => p.1 = m).map fun p => p.2).sum := by
  induction l generalizing acc with
  | nil => simp
  | cons p l ih =>
    rw [List.foldl_cons, ih]
    by_cases h : p.1 = m
    · simp [h, add_assoc]
    · simp [h]

theorem indexAdd_eq (out : List ℝ) (idx : List Nat) (src : List ℝ) :
    indexAdd out idx src = out.zipIdx.map fun om => om.1 + slotSum idx src om.2 := by
  unfold indexAdd slotSum
  apply List.map_congr_left
  intro om _
  exact foldl_slot om.2 _ om.1

theorem indexAdd_length (out : List ℝ) (idx : List Nat) (src : List ℝ) :
    (indexAdd out idx src).length = out.length := by
  simp [indexAdd]

theorem indexAdd_getElem? (out : List ℝ) (idx : List Nat) (src : List ℝ) (m : Nat) :
    (indexAdd out idx src)[m]? = out[m]?.map fun o => o + slotSum idx src m := by
  rw [indexAdd_eq, List.getElem?_map]
  by_cases hm : m < out.length
  · have h1 : out.zipIdx[m]? = some (out[m], m) := by
      rw [List.getElem?_eq_getElem (by simpa using hm), List.getElem_zipIdx]
      simp
    rw [h1, List.getElem?_eq_getElem hm]
    simp
  · have h1 : out.zipIdx[m]? = none := by
      rw [List.getElem?_eq_none_iff]; simpa using hm
    have h2 : out[m]? = none := by rw [List.getElem?_eq_none_iff]; simpa using hm
    rw [h1, h2]; rfl

theorem sum_map_sub_mul {ι : Type} (l : List ι) (f g : ι → ℝ) (t : ℝ) :
    (l.map fun a => f a - g a * t).sum = (l.map f).sum - (l.map g).sum * t := by
  induction l with
  | nil => simp
  | cons a l ih => simp only [List.map_cons, List.sum_cons, ih]; ring

theorem sum_map_add_mul {ι : Type} (l : List ι) (f g : ι → ℝ) (t : ℝ) :
    (l.map fun a => f a + g a * t).sum = (l.map f).sum + (l.map g).sum * t := by
  induction l with
  | nil => simp
  | cons a l ih => simp only [List.map_cons, List.sum_cons, ih]; ring

theorem sum_map_sub' {ι : Type} (l : List ι) (f g : ι → ℝ) :
    (l.map fun a => f a - g a).sum = (l.map f).sum - (l.map g).sum := by
  induction l with
  | nil => simp
  | cons a l ih => simp only [List.map_cons, List.sum_cons, ih]; ring

/-- `Σ_{i < n*k} f i = Σ_{A<n} Σ_{j<k} f (A*k + j)` -/
theorem sum_range_mul (n k : Nat) (f : Nat → ℝ) :
    ((List.range (n * k)).map f).sum =
      ((List.range n).map fun A => ((List.range k).map fun j => f (A * k + j)).sum).sum := by
  induction n with
  | zero => simp
  | succ n ih =>
    rw [Nat.succ_mul, List.range_add, List.map_append, List.sum_append, ih, List.range_succ,
      List.map_append, List.sum_append]
    simp [List.map_map, Function.comp_def]

theorem sum_eq_sum_range_getD (l : List ℝ) : l.sum = ((List.range l.length).map fun i => l.getD i 0).sum := by
  induction l with
  | nil => simp
  | cons a l ih =>
    rw [List.sum_cons, List.length_cons, List.range_succ_eq_map, List.map_cons, List.sum_cons,
      List.map_map, ih]
    simp [Function.comp_def]

end Observables
