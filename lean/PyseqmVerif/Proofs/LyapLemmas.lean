import Mathlib.Tactic.Linarith
import Mathlib.Tactic.Ring
import Mathlib.Tactic.Positivity
import Mathlib.Tactic.NormNum
import Mathlib.Data.Real.Basic
import Mathlib.Data.Rat.Cast.Order
/-!
# Interval Lyapunov certificates for the k = 3 XL-BOMD error recurrence (hand-written part)

The recurrence (published scheme, `α = 3/20`, `c = [-2, 3, 0, -1]`, response `λ`):
`x_{n+1} = (2 − λ + α c_0) x_n + (α c_1 − 1) x_{n−1} + α c_2 x_{n−2} + α c_3 x_{n−3}`.
State `(x0, x1, x2, x3) = (x_n, x_{n−1}, x_{n−2}, x_{n−3})`, one step maps it to
`(next3 λ x0 x1 x2 x3, x0, x1, x2)`.

A certificate for an interval `[lo, hi]` is a quadratic form `V = xᵀΠx` and a factor `θ < 1` with
`V(Cx) ≤ θ V(x)` at **both end points**; since `θ V(x) − V(C(λ)x)` is a concave quadratic in `λ`
for fixed `x` (`concave_quad_nonneg`, prototype B.10), the inequality holds on the whole interval.
The rational certificates themselves are generated (`Proofs/LyapK3.lean`, by
`vf/translate/lyap.py`).
-/
namespace Lyap

/-- concave quadratic nonnegative at both ends of an interval is nonnegative inside -/
theorem concave_quad_nonneg (A B C l1 l2 l : ℝ) (hC : 0 ≤ C) (h1 : l1 ≤ l) (h2 : l ≤ l2)
    (q1 : 0 ≤ A + B*l1 - C*l1^2) (q2 : 0 ≤ A + B*l2 - C*l2^2) : 0 ≤ A + B*l - C*l^2 := by
  rcases eq_or_lt_of_le (le_trans h1 h2) with h | h
  · have : l = l1 := le_antisymm (h ▸ h2) h1
    subst this; exact q1
  · have hd : 0 < l2 - l1 := by linarith
    have key : (l2 - l1) * (A + B*l - C*l^2) =
        (l2 - l) * (A + B*l1 - C*l1^2) + (l - l1) * (A + B*l2 - C*l2^2)
          + C * (l2 - l) * (l - l1) * (l2 - l1) := by ring
    have hpos : 0 ≤ (l2 - l1) * (A + B*l - C*l^2) := by
      rw [key]
      have a1 : 0 ≤ (l2 - l) * (A + B*l1 - C*l1^2) := mul_nonneg (by linarith) q1
      have a2 : 0 ≤ (l - l1) * (A + B*l2 - C*l2^2) := mul_nonneg (by linarith) q2
      have a3 : 0 ≤ C * (l2 - l) * (l - l1) * (l2 - l1) := by
        apply mul_nonneg (mul_nonneg (mul_nonneg hC (by linarith)) (by linarith)) hd.le
      linarith
    by_contra hneg
    have : (l2 - l1) * (A + B*l - C*l^2) < 0 := mul_neg_of_pos_of_neg hd (not_le.mp hneg)
    linarith

/-- symmetric quadratic form on `ℝ⁴`, upper-triangular entries `p_ij` of `Π` -/
def Q (p00 p01 p02 p03 p11 p12 p13 p22 p23 p33 x0 x1 x2 x3 : ℝ) : ℝ :=
  p00*x0^2 + p11*x1^2 + p22*x2^2 + p33*x3^2
    + 2*(p01*x0*x1 + p02*x0*x2 + p03*x0*x3 + p12*x1*x2 + p13*x1*x3 + p23*x2*x3)

/-- new head of the k = 3 recurrence at response `lam` -/
noncomputable def next3 (lam x0 x1 x2 x3 : ℝ) : ℝ :=
  (2 - lam + 3/20 * (-2)) * x0 + (3/20 * 3 - 1) * x1 + 3/20 * 0 * x2 + 3/20 * (-1) * x3

/-- `θ V(x) − V(C(λ) x)` is `A + B λ − C λ²` with `C = Π₀₀ x0² ≥ 0`: concave in `λ` -/
theorem decrease_is_concave_quadratic (p00 p01 p02 p03 p11 p12 p13 p22 p23 p33 th lam x0 x1 x2 x3 : ℝ) :
    th * Q p00 p01 p02 p03 p11 p12 p13 p22 p23 p33 x0 x1 x2 x3
      - Q p00 p01 p02 p03 p11 p12 p13 p22 p23 p33 (next3 lam x0 x1 x2 x3) x0 x1 x2
    = (th * Q p00 p01 p02 p03 p11 p12 p13 p22 p23 p33 x0 x1 x2 x3
        - Q p00 p01 p02 p03 p11 p12 p13 p22 p23 p33 (next3 0 x0 x1 x2 x3) x0 x1 x2)
      + (2 * x0 * (p00 * next3 0 x0 x1 x2 x3 + p01 * x0 + p02 * x1 + p03 * x2)) * lam
      - (p00 * x0^2) * lam^2 := by
  unfold Q next3; ring

/-- the inequality at both end points of `[l1, l2]` gives it on the whole interval -/
theorem interval_of_endpoints (p00 p01 p02 p03 p11 p12 p13 p22 p23 p33 th : ℝ) (hp : 0 ≤ p00)
    (l1 l2 lam : ℝ) (h1 : l1 ≤ lam) (h2 : lam ≤ l2) (x0 x1 x2 x3 : ℝ)
    (c1 : Q p00 p01 p02 p03 p11 p12 p13 p22 p23 p33 (next3 l1 x0 x1 x2 x3) x0 x1 x2
            ≤ th * Q p00 p01 p02 p03 p11 p12 p13 p22 p23 p33 x0 x1 x2 x3)
    (c2 : Q p00 p01 p02 p03 p11 p12 p13 p22 p23 p33 (next3 l2 x0 x1 x2 x3) x0 x1 x2
            ≤ th * Q p00 p01 p02 p03 p11 p12 p13 p22 p23 p33 x0 x1 x2 x3) :
    Q p00 p01 p02 p03 p11 p12 p13 p22 p23 p33 (next3 lam x0 x1 x2 x3) x0 x1 x2
      ≤ th * Q p00 p01 p02 p03 p11 p12 p13 p22 p23 p33 x0 x1 x2 x3 := by
  have e := decrease_is_concave_quadratic p00 p01 p02 p03 p11 p12 p13 p22 p23 p33 th
  have q1 := e l1 x0 x1 x2 x3
  have q2 := e l2 x0 x1 x2 x3
  have q := e lam x0 x1 x2 x3
  have := concave_quad_nonneg _ _ _ l1 l2 lam (mul_nonneg hp (sq_nonneg x0)) h1 h2
    (by rw [← q1]; linarith) (by rw [← q2]; linarith)
  rw [← q] at this
  linarith

/-- a checked end-point certificate for one interval (all data rational literals) -/
structure Raw where
  lo : ℚ
  hi : ℚ
  loR : ℝ
  hiR : ℝ
  lo_cast : (lo : ℝ) = loR
  hi_cast : (hi : ℝ) = hiR
  theta : ℝ
  mu : ℝ
  p00 : ℝ
  p01 : ℝ
  p02 : ℝ
  p03 : ℝ
  p11 : ℝ
  p12 : ℝ
  p13 : ℝ
  p22 : ℝ
  p23 : ℝ
  p33 : ℝ
  theta_nonneg : 0 ≤ theta
  theta_lt_one : theta < 1
  mu_pos : 0 < mu
  p00_nonneg : 0 ≤ p00
  pos : ∀ x0 x1 x2 x3 : ℝ, mu * (x0^2 + x1^2 + x2^2 + x3^2)
          ≤ Q p00 p01 p02 p03 p11 p12 p13 p22 p23 p33 x0 x1 x2 x3
  cert_lo : ∀ x0 x1 x2 x3 : ℝ,
      Q p00 p01 p02 p03 p11 p12 p13 p22 p23 p33 (next3 loR x0 x1 x2 x3) x0 x1 x2
        ≤ theta * Q p00 p01 p02 p03 p11 p12 p13 p22 p23 p33 x0 x1 x2 x3
  cert_hi : ∀ x0 x1 x2 x3 : ℝ,
      Q p00 p01 p02 p03 p11 p12 p13 p22 p23 p33 (next3 hiR x0 x1 x2 x3) x0 x1 x2
        ≤ theta * Q p00 p01 p02 p03 p11 p12 p13 p22 p23 p33 x0 x1 x2 x3

/-- the Lyapunov function of a certificate -/
noncomputable def Raw.V (r : Raw) (x0 x1 x2 x3 : ℝ) : ℝ :=
  Q r.p00 r.p01 r.p02 r.p03 r.p11 r.p12 r.p13 r.p22 r.p23 r.p33 x0 x1 x2 x3

/-- consecutive intervals share their end point -/
def chained : List Raw → Bool
  | a :: b :: rest => decide (a.hi = b.lo) && chained (b :: rest)
  | _ => true

/-- upper end of the last interval -/
def lastHi : Raw → List Raw → ℚ
  | a, [] => a.hi
  | _, b :: rest => lastHi b rest

/-- a chained list of intervals covers `[lo of the first, hi of the last]` -/
theorem cover (a : Raw) (l : List Raw) (hc : chained (a :: l) = true) (lam : ℝ)
    (h1 : (a.lo : ℝ) ≤ lam) (h2 : lam ≤ (lastHi a l : ℝ)) :
    ∃ r ∈ a :: l, (r.lo : ℝ) ≤ lam ∧ lam ≤ (r.hi : ℝ) := by
  induction l generalizing a with
  | nil => exact ⟨a, by simp, h1, h2⟩
  | cons b rest ih =>
    by_cases h : lam ≤ (a.hi : ℝ)
    · exact ⟨a, by simp, h1, h⟩
    · simp only [chained, Bool.and_eq_true, decide_eq_true_eq] at hc
      have hb : (b.lo : ℝ) ≤ lam := by
        rw [← hc.1]; exact le_of_lt (not_le.mp h)
      obtain ⟨r, hr, hr1, hr2⟩ := ih b hc.2 hb h2
      exact ⟨r, List.mem_cons_of_mem _ hr, hr1, hr2⟩

end Lyap
