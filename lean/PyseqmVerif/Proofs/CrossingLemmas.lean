import PyseqmVerif.Model.Crossing
/-!
# Lemmas for `Crossing` (trivial-crossing bookkeeping in a batch): core Lean only

The index composition `need_idx → detect_in_need → det_row` of `_detect_crossings` is reduced to a
normal form in which every quantity is indexed by the batch index `m` directly.
-/
namespace Crossing

/-! ## tensor idioms -/

theorem maskSelect_map {α β : Type} (l : List α) (f : α → β) (g : α → Bool) :
    maskSelect (l.map f) (l.map g) = (l.filter g).map f := by
  induction l with
  | nil => rfl
  | cons a l ih =>
    simp only [List.map_cons, maskSelect, List.filter_cons]
    split <;> simp [ih]

theorem maskSelect_self_map {α : Type} (l : List α) (g : α → Bool) :
    maskSelect l (l.map g) = l.filter g := by
  have := maskSelect_map l id g
  simpa using this

theorem zip_map_self {α β γ : Type} (l : List α) (f : α → β) (g : α → γ) :
    (l.map f).zip (l.map g) = l.map fun a => (f a, g a) := List.zip_map'

theorem zip_self_map {α γ : Type} (l : List α) (g : α → γ) :
    l.zip (l.map g) = l.map fun a => (a, g a) := by
  have := zip_map_self l id g
  simpa using this

theorem filterMap_congr_mem {α β : Type} (l : List α) (f g : α → Option β)
    (h : ∀ x ∈ l, f x = g x) : l.filterMap f = l.filterMap g := by
  induction l with
  | nil => rfl
  | cons a l ih =>
    rw [List.filterMap_cons, List.filterMap_cons, h a List.mem_cons_self,
      ih (fun x hx => h x (List.mem_cons_of_mem _ hx))]

theorem mem_nonzeroFrom (mask : List Bool) (k m : Nat) :
    m ∈ nonzeroFrom k mask ↔ k ≤ m ∧ mask[m - k]? = some true := by
  induction mask generalizing k with
  | nil => simp [nonzeroFrom]
  | cons b bs ih =>
    unfold nonzeroFrom
    by_cases hm : m = k
    · subst hm
      cases b
      · simp only [Bool.false_eq_true, if_false, ih]
        simp; omega
      · simp
    · have h1 : m - k = (m - (k + 1)) + 1 ∨ m < k := by omega
      cases b
      · simp only [Bool.false_eq_true, if_false, ih]
        constructor
        · rintro ⟨h, h'⟩
          refine ⟨by omega, ?_⟩
          rcases h1 with h1 | h1
          · rw [h1]; simpa using h'
          · omega
        · rintro ⟨h, h'⟩
          have : k + 1 ≤ m := by omega
          refine ⟨this, ?_⟩
          rcases h1 with h1 | h1
          · rw [h1] at h'; simpa using h'
          · omega
      · simp only [if_true, List.mem_cons, hm, false_or, ih]
        constructor
        · rintro ⟨h, h'⟩
          refine ⟨by omega, ?_⟩
          rcases h1 with h1 | h1
          · rw [h1]; simpa using h'
          · omega
        · rintro ⟨h, h'⟩
          have : k + 1 ≤ m := by omega
          refine ⟨this, ?_⟩
          rcases h1 with h1 | h1
          · rw [h1] at h'; simpa using h'
          · omega

theorem mem_nonzero (mask : List Bool) (m : Nat) : m ∈ nonzero mask ↔ mask[m]? = some true := by
  simp [nonzero, mem_nonzeroFrom]

theorem nodup_nonzeroFrom (mask : List Bool) (k : Nat) : (nonzeroFrom k mask).Nodup := by
  induction mask generalizing k with
  | nil => simp [nonzeroFrom]
  | cons b bs ih =>
    unfold nonzeroFrom
    cases b
    · simpa using ih (k + 1)
    · simp only [if_true, List.nodup_cons]
      refine ⟨?_, ih (k + 1)⟩
      intro h
      have := (mem_nonzeroFrom bs (k + 1) k).mp h
      omega

theorem nodup_nonzero (mask : List Bool) : (nonzero mask).Nodup := nodup_nonzeroFrom mask 0

theorem nonzeroFrom_eq_nil (mask : List Bool) (k : Nat) (h : mask.any id = false) :
    nonzeroFrom k mask = [] := by
  induction mask generalizing k with
  | nil => rfl
  | cons b bs ih =>
    simp only [List.any_cons, id, Bool.or_eq_false_iff] at h
    simp [nonzeroFrom, h.1, ih (k + 1) h.2]

theorem nonzeroFrom_ne_nil (mask : List Bool) (k : Nat) (h : mask.any id = true) :
    nonzeroFrom k mask ≠ [] := by
  induction mask generalizing k with
  | nil => simp at h
  | cons b bs ih =>
    unfold nonzeroFrom
    cases b
    · simp only [List.any_cons, id, Bool.false_or] at h
      simpa using ih (k + 1) h
    · simp

/-- `nonzero2` of a mapped list, with anything gathered through the row number `r` expressed
    through the list element itself -/
theorem nonzero2From_map {α γ : Type} (L : List α) (tr : α → List Bool) (G : Nat → Nat → γ)
    (H : α → Nat → γ) (k : Nat)
    (hGH : ∀ r a, L[r]? = some a → ∀ i, G (k + r) i = H a i) :
    (nonzero2From k (L.map tr)).map (fun q => G q.1 q.2) =
      L.flatMap fun a => (nonzero (tr a)).map (H a) := by
  induction L generalizing k with
  | nil => rfl
  | cons a L ih =>
    simp only [List.map_cons, nonzero2From, List.map_append, List.map_map, List.flatMap_cons]
    congr 1
    · apply List.map_congr_left
      intro i _
      simpa using hGH 0 a rfl i
    · apply ih
      intro r a' hr i
      have := hGH (r + 1) a' (by simpa using hr) i
      rwa [show k + (r + 1) = k + 1 + r by omega] at this

theorem nonzero2From_eq_nil (M : List (List Bool)) (k : Nat) (h : M.any (·.any id) = false) :
    nonzero2From k M = [] := by
  induction M generalizing k with
  | nil => rfl
  | cons a M ih =>
    simp only [List.any_cons, Bool.or_eq_false_iff] at h
    simp [nonzero2From, nonzero, nonzeroFrom_eq_nil a 0 h.1, ih (k + 1) h.2]

theorem nonzero2From_ne_nil (M : List (List Bool)) (k : Nat) (h : M.any (·.any id) = true) :
    nonzero2From k M ≠ [] := by
  induction M generalizing k with
  | nil => simp at h
  | cons a M ih =>
    simp only [List.any_cons, Bool.or_eq_true] at h
    simp only [nonzero2From, ne_eq, List.append_eq_nil_iff, List.map_eq_nil_iff, not_and]
    intro h1
    rcases h with h | h
    · exact absurd h1 (nonzeroFrom_ne_nil a 0 h)
    · exact ih (k + 1) h

/-- the `True` columns of a row of `trivial`, paired with `perm[r, i]`, are the crossed pairs -/
theorem nonzero_trivRow_aux (c : Nat × Nat → Bool) (l : List Nat) (k : Nat) (pre : List Nat)
    (hk : pre.length = k) :
    (nonzeroFrom k ((l.zipIdx k).map c)).map (fun i => (i, (pre ++ l).getD i i)) =
      (l.zipIdx k).filterMap fun x => if c x then some (x.2, x.1) else none := by
  induction l generalizing k pre with
  | nil => simp [nonzeroFrom]
  | cons a l ih =>
    have ih' := ih (k + 1) (pre ++ [a]) (by simp [hk])
    simp only [List.append_assoc, List.singleton_append] at ih'
    simp only [List.zipIdx_cons, List.map_cons, nonzeroFrom, List.filterMap_cons]
    cases hc : c (a, k)
    · simpa using ih'
    · simp only [if_true, List.map_cons, ih']
      congr 2
      subst hk
      simp

theorem nonzero_trivRow (thr : Int) (ov : Row) (p : List Nat) :
    (nonzero (trivRow thr ov p)).map (fun i => (i, p.getD i i)) = pairsOf thr ov p := by
  have h := nonzero_trivRow_aux
    (fun x => (decide (x.1 ≠ x.2) && decide (x.2 < x.1)) && decide (thr ≤ ovAt ov x.2 x.1)) p 0 [] rfl
  simpa [nonzero, trivRow, pairsOf] using h

/-! ## scatter into the full-size table -/

/-- row `m` of the table after a sequence of `swap_to[f q, key q] = val q` only sees the
    assignments with `f q = m` -/
theorem getElem?_foldl_setAt {τ : Type} (f key : τ → Nat) (val : τ → Int) (l : List τ)
    (T0 : List (List Int)) (m : Nat) :
    (l.foldl (fun T q => setAt T (f q) (key q) (val q)) T0)[m]? =
      T0[m]?.map fun row =>
        (l.filter fun q => f q == m).foldl (fun s q => s.set (key q) (val q)) row := by
  induction l generalizing T0 with
  | nil => simp
  | cons q l ih =>
    rw [List.foldl_cons, ih]
    simp only [setAt, List.getElem?_modify, List.filter_cons]
    by_cases h : f q = m
    · cases T0[m]? <;> simp [h]
    · cases T0[m]? <;> simp [h]

theorem filter_flatMap_tag {β : Type} (J : List Nat) (g : Nat → List β) (m : Nat) (hJ : J.Nodup) :
    (J.flatMap fun m' => (g m').map (Prod.mk m')).filter (fun q => q.1 == m) =
      if m ∈ J then (g m).map (Prod.mk m) else [] := by
  induction J with
  | nil => simp
  | cons a J ih =>
    have ⟨ha, hJ'⟩ := List.nodup_cons.mp hJ
    simp only [List.flatMap_cons, List.filter_append, ih hJ', List.filter_map]
    by_cases h : a = m
    · subst h
      have : List.filter (fun _ => true) (g a) = g a := List.filter_eq_self.mpr (fun _ _ => rfl)
      simp [ha, Function.comp_def, this]
    · have h' : ¬ m = a := fun e => h e.symm
      simp [h, h', Function.comp_def]

theorem getElem?_foldl_set_zero (L : List Nat) (h0 : List Nat) (m : Nat) :
    (L.foldl (fun h m => h.set m 0) h0)[m]? =
      if m ∈ L then h0[m]?.map (fun _ => 0) else h0[m]? := by
  induction L generalizing h0 with
  | nil => simp
  | cons a L ih =>
    simp only [List.foldl_cons, ih, List.getElem?_set, List.mem_cons]
    by_cases h : a = m
    · subst h
      by_cases hl : a < h0.length
      · simp [hl]
      · simp [hl]
    · have h' : ¬ m = a := fun e => h e.symm
      simp [h, h']

/-! ## normal form of the two blocks -/

/-- `(full_m, i_sel, j_sel)` with the index composition resolved: for every detected trajectory `m`
    (batch index!) its crossed pairs -/
def trip (thr : Int) (permOf : Row → List Nat) (ovWin : List Row) (J : List Nat) :
    List (Nat × Nat × Nat) :=
  J.flatMap fun m => (pairsOf thr (ovWin.getD m []) (permOf (ovWin.getD m []))).map (Prod.mk m)

/-- the two scatters into the table of `-1` -/
def scatterNF (n nmol : Nat) (T : List (Nat × Nat × Nat)) : List (List Int) :=
  T.foldl (fun S q => setAt S q.1 q.2.2 (q.2.1 : Int))
    (T.foldl (fun S q => setAt S q.1 q.2.1 (q.2.2 : Int))
      (List.replicate nmol (List.replicate n (-1 : Int))))

theorem triples_eq_trip (thr : Int) (permOf : Row → List Nat) (ovWin : List Row) (J idx : List Nat)
    (hidx : ∀ r m, J[r]? = some m → idx.getD r 0 = m) :
    (nonzero2 (J.map fun m => trivRow thr (ovWin.getD m []) (permOf (ovWin.getD m [])))).map
      (fun q => (idx.getD q.1 0, q.2,
        ((J.map fun m => permOf (ovWin.getD m [])).getD q.1 []).getD q.2 q.2)) =
      trip thr permOf ovWin J := by
  have h := nonzero2From_map J (fun m => trivRow thr (ovWin.getD m []) (permOf (ovWin.getD m [])))
    (fun r i => (idx.getD r 0, i, ((J.map fun m => permOf (ovWin.getD m [])).getD r []).getD i i))
    (fun m i => (m, i, (permOf (ovWin.getD m [])).getD i i)) 0
    (by
      intro r m hr i
      have h1 := hidx r m hr
      simp only [Nat.zero_add, h1]
      simp [List.getD_eq_getElem?_getD, hr])
  unfold nonzero2
  rw [h, trip]
  congr 1
  funext m
  rw [← nonzero_trivRow, List.map_map]
  rfl

theorem detectBlock_nf (b : Bool) (n nmol : Nat) (thr : Int) (permOf : Row → List Nat)
    (ovWin : List Row) (detectMask : List Bool) (I : List Nat) (h' : List Nat)
    (hb : b = true → I.filter (fun m => detectMask.getD m false) = I) :
    detectBlock b n nmol thr ovWin detectMask I (I.map fun m => permOf (ovWin.getD m [])) h' =
      ⟨if (trip thr permOf ovWin (I.filter fun m => detectMask.getD m false)).isEmpty then none
        else some (scatterNF n nmol (trip thr permOf ovWin (I.filter fun m => detectMask.getD m false))),
       h',
       trip thr permOf ovWin (I.filter fun m => detectMask.getD m false) ++
        (trip thr permOf ovWin (I.filter fun m => detectMask.getD m false)).map
          fun q => (q.1, q.2.2, q.2.1)⟩ := by
  generalize hJ : I.filter (fun m => detectMask.getD m false) = J at hb ⊢
  have e1 : maskSelect I (I.map fun m => detectMask.getD m false) = J := by
    rw [maskSelect_self_map, hJ]
  have e2 : maskSelect (I.map fun m => permOf (ovWin.getD m []))
      (I.map fun m => detectMask.getD m false) = J.map fun m => permOf (ovWin.getD m []) := by
    rw [maskSelect_map, hJ]
  have e3 : (((J.map fun m => ovWin.getD m []).zip (J.map fun m => permOf (ovWin.getD m []))).map
      fun x => trivRow thr x.1 x.2) =
      J.map fun m => trivRow thr (ovWin.getD m []) (permOf (ovWin.getD m [])) := by
    rw [zip_map_self, List.map_map]; rfl
  have hidx : (if b = true then I else J) = J := by
    cases b
    · simp
    · simp [hb rfl]
  have e4 := triples_eq_trip thr permOf ovWin J J (by
    intro r m hr; simp [List.getD_eq_getElem?_getD, hr])
  unfold detectBlock
  simp only [e1, e2]
  by_cases g1 : (I.map fun m => detectMask.getD m false).any id = true
  · simp only [g1, Bool.not_true, Bool.false_eq_true, if_false]
    simp only [e3]
    by_cases g2 : (J.map fun m => trivRow thr (ovWin.getD m []) (permOf (ovWin.getD m []))).any
        (·.any id) = true
    · simp only [g2, Bool.not_true, Bool.false_eq_true, if_false, hidx]
      have hne : trip thr permOf ovWin J ≠ [] := by
        rw [← e4]
        simp only [ne_eq, List.map_eq_nil_iff]
        exact nonzero2From_ne_nil _ 0 g2
      have hemp : (trip thr permOf ovWin J).isEmpty = false := by
        cases hT : trip thr permOf ovWin J with
        | nil => exact absurd hT hne
        | cons _ _ => rfl
      simp only [hemp, Bool.false_eq_true, if_false, scatterNF, e4]
    · have g2' := Bool.eq_false_iff.mpr g2
      simp only [g2', Bool.not_false, if_true]
      have hnil : trip thr permOf ovWin J = [] := by
        rw [← e4, nonzero2, nonzero2From_eq_nil _ 0 g2']; rfl
      simp [hnil]
  · have g1' := Bool.eq_false_iff.mpr g1
    simp only [g1', Bool.not_false, if_true]
    have hJnil : J = [] := by
      rw [← hJ, List.filter_eq_nil_iff]
      intro m hm
      simp only [List.any_map, List.any_eq_false, Function.comp, id] at g1'
      simpa using g1' m hm
    simp [hJnil, trip]

theorem filter_eq_nil_of_any_map {α : Type} (l : List α) (g : α → Bool)
    (h : (l.map g).any id = false) : l.filter g = [] := by
  rw [List.filter_eq_nil_iff]
  intro m hm
  simp only [List.any_map, List.any_eq_false, Function.comp, id] at h
  simpa using h m hm

theorem probeBlock_nf (thr : Int) (permOf : Row → List Nat) (ovWin : List Row) (actives : List Nat)
    (prevs : List Int) (holdoffs I : List Nat) (probeMask : List Bool) :
    probeBlock thr ovWin actives prevs holdoffs I (I.map fun m => permOf (ovWin.getD m [])) probeMask =
      ((I.filter fun m => probeMask.getD m false).filter fun m =>
          resetOf thr (actives.getD m 0) (prevs.getD m (-1)) (ovWin.getD m [])
            (permOf (ovWin.getD m []))).foldl (fun h m => h.set m 0) holdoffs := by
  generalize hK : I.filter (fun m => probeMask.getD m false) = K
  have e1 : maskSelect I (I.map fun m => probeMask.getD m false) = K := by
    rw [maskSelect_self_map, hK]
  have e2 : maskSelect (I.map fun m => permOf (ovWin.getD m []))
      (I.map fun m => probeMask.getD m false) = K.map fun m => permOf (ovWin.getD m []) := by
    rw [maskSelect_map, hK]
  have e3 : ((K.zip (K.map fun m => permOf (ovWin.getD m []))).map fun x =>
      resetOf thr (actives.getD x.1 0) (prevs.getD x.1 (-1)) (ovWin.getD x.1 []) x.2) =
      K.map fun m => resetOf thr (actives.getD m 0) (prevs.getD m (-1)) (ovWin.getD m [])
        (permOf (ovWin.getD m [])) := by
    rw [zip_self_map, List.map_map]; rfl
  unfold probeBlock
  simp only [e1, e2]
  by_cases g1 : (I.map fun m => probeMask.getD m false).any id = true
  · simp only [g1, if_true, e3, maskSelect_self_map]
    by_cases g2 : (K.map fun m => resetOf thr (actives.getD m 0) (prevs.getD m (-1)) (ovWin.getD m [])
        (permOf (ovWin.getD m []))).any id = true
    · simp only [g2, if_true]
    · have g2' := Bool.eq_false_iff.mpr g2
      simp only [g2', Bool.false_eq_true, if_false, filter_eq_nil_of_any_map _ _ g2', List.foldl_nil]
  · have g1' := Bool.eq_false_iff.mpr g1
    have hKnil : K = [] := by rw [← hK]; exact filter_eq_nil_of_any_map _ _ g1'
    simp [hKnil]

/-! ## normal form of the whole routine -/

/-- `need_idx` as a function of the batch -/
def needIdxOf (thr : Int) (batch : List Traj) : List Nat :=
  nonzero (batch.map fun t => probeMaskOf thr t || detectMaskOf thr t)

/-- `detect_mol_idx` as a function of the batch -/
def detIdxOf (thr : Int) (batch : List Traj) : List Nat :=
  (needIdxOf thr batch).filter fun m => (batch.map (detectMaskOf thr)).getD m false

/-- all `(full_m, i_sel, j_sel)` of the batch -/
def tripOf (thr : Int) (permOf : Row → List Nat) (batch : List Traj) : List (Nat × Nat × Nat) :=
  trip thr permOf (batch.map (·.ov)) (detIdxOf thr batch)

/-- the batch indices whose hold-off is reset -/
def resetIdxOf (thr : Int) (permOf : Row → List Nat) (batch : List Traj) : List Nat :=
  ((needIdxOf thr batch).filter fun m => (batch.map (probeMaskOf thr)).getD m false).filter fun m =>
    resetOf thr ((batch.map (·.active)).getD m 0) ((batch.map (·.prev)).getD m (-1))
      ((batch.map (·.ov)).getD m []) (permOf ((batch.map (·.ov)).getD m []))

theorem detectCore_nf (b : Bool) (n : Nat) (thr : Int) (permOf : Row → List Nat) (batch : List Traj)
    (hb : b = true → detIdxOf thr batch = needIdxOf thr batch) :
    detectCore b n thr permOf batch =
      ⟨if (tripOf thr permOf batch).isEmpty then none
        else some (scatterNF n batch.length (tripOf thr permOf batch)),
       (resetIdxOf thr permOf batch).foldl (fun h m => h.set m 0) (batch.map (·.holdoff)),
       tripOf thr permOf batch ++ (tripOf thr permOf batch).map fun q => (q.1, q.2.2, q.2.1)⟩ := by
  have ez : List.zipWith (· || ·) (batch.map (probeMaskOf thr)) (batch.map (detectMaskOf thr)) =
      batch.map fun t => probeMaskOf thr t || detectMaskOf thr t := by
    rw [List.zipWith_map, List.zipWith_self]
  unfold detectCore
  simp only [ez, List.map_map, Function.comp_def]
  by_cases g : (batch.map fun t => probeMaskOf thr t || detectMaskOf thr t).any id = true
  · simp only [g, Bool.not_true, Bool.false_eq_true, if_false]
    rw [probeBlock_nf]
    exact detectBlock_nf b n batch.length thr permOf (batch.map (·.ov))
      (batch.map (detectMaskOf thr)) (needIdxOf thr batch) _ hb
  · have g' := Bool.eq_false_iff.mpr g
    have hI : needIdxOf thr batch = [] := nonzeroFrom_eq_nil _ 0 g'
    simp [g', tripOf, detIdxOf, resetIdxOf, hI, trip]

/-! ## what the normal form does to trajectory `m` -/

theorem getD_map_of_getElem? {α β : Type} (l : List α) (f : α → β) (d : β) (m : Nat) (a : α)
    (h : l[m]? = some a) : (l.map f).getD m d = f a := by
  simp [List.getD_eq_getElem?_getD, h]

theorem mem_needIdxOf (thr : Int) (batch : List Traj) (m : Nat) (t : Traj) (h : batch[m]? = some t) :
    m ∈ needIdxOf thr batch ↔ (probeMaskOf thr t || detectMaskOf thr t) = true := by
  simp [needIdxOf, mem_nonzero, h]

theorem mem_detIdxOf (thr : Int) (batch : List Traj) (m : Nat) (t : Traj) (h : batch[m]? = some t) :
    m ∈ detIdxOf thr batch ↔ detectMaskOf thr t = true := by
  rw [detIdxOf, List.mem_filter, mem_needIdxOf thr batch m t h, getD_map_of_getElem? _ _ _ _ _ h]
  cases probeMaskOf thr t <;> simp

theorem mem_detIdxOf_iff (thr : Int) (batch : List Traj) (m : Nat) :
    m ∈ detIdxOf thr batch ↔ ∃ t, batch[m]? = some t ∧ detectMaskOf thr t = true := by
  constructor
  · intro hm
    have hm' : m ∈ needIdxOf thr batch := (List.mem_filter.mp hm).1
    rw [needIdxOf, mem_nonzero, List.getElem?_map] at hm'
    cases ht : batch[m]? with
    | none => simp [ht] at hm'
    | some t => exact ⟨t, rfl, (mem_detIdxOf thr batch m t ht).mp hm⟩
  · rintro ⟨t, ht, hd⟩
    exact (mem_detIdxOf thr batch m t ht).mpr hd

theorem mem_resetIdxOf (thr : Int) (permOf : Row → List Nat) (batch : List Traj) (m : Nat) (t : Traj)
    (h : batch[m]? = some t) :
    m ∈ resetIdxOf thr permOf batch ↔
      (probeMaskOf thr t && resetOf thr t.active t.prev t.ov (permOf t.ov)) = true := by
  rw [resetIdxOf, List.mem_filter, List.mem_filter, mem_needIdxOf thr batch m t h,
    getD_map_of_getElem? _ _ _ _ _ h, getD_map_of_getElem? _ _ _ _ _ h,
    getD_map_of_getElem? _ _ _ _ _ h, getD_map_of_getElem? _ _ _ _ _ h]
  cases probeMaskOf thr t <;> simp

theorem nodup_detIdxOf (thr : Int) (batch : List Traj) : (detIdxOf thr batch).Nodup :=
  List.Nodup.sublist List.filter_sublist (nodup_nonzero _)

/-- the crossed pairs of trajectory `t` as the specification sees them -/
def specPairs (thr : Int) (permOf : Row → List Nat) (t : Traj) : List (Nat × Nat) :=
  if detectMaskOf thr t then pairsOf thr t.ov (permOf t.ov) else []

theorem tripOf_filter (thr : Int) (permOf : Row → List Nat) (batch : List Traj) (m : Nat) (t : Traj)
    (h : batch[m]? = some t) :
    (tripOf thr permOf batch).filter (fun q => q.1 == m) =
      (specPairs thr permOf t).map (Prod.mk m) := by
  rw [tripOf, trip, filter_flatMap_tag _ _ _ (nodup_detIdxOf thr batch),
    getD_map_of_getElem? _ _ _ _ _ h, specPairs]
  by_cases hd : detectMaskOf thr t = true
  · rw [if_pos ((mem_detIdxOf thr batch m t h).mpr hd), if_pos hd]
  · rw [if_neg (fun hm => hd ((mem_detIdxOf thr batch m t h).mp hm)), if_neg hd]; rfl

theorem rowOf_nf (n nmol : Nat) (T : List (Nat × Nat × Nat)) (m : Nat) (hm : m < nmol) :
    rowOf n (if T.isEmpty then none else some (scatterNF n nmol T)) m =
      (T.filter fun q => q.1 == m).foldl (fun s q => s.set q.2.2 (q.2.1 : Int))
        ((T.filter fun q => q.1 == m).foldl (fun s q => s.set q.2.1 (q.2.2 : Int))
          (List.replicate n (-1 : Int))) := by
  cases T with
  | nil => simp [rowOf]
  | cons q T =>
    simp only [List.isEmpty_cons, Bool.false_eq_true, if_false, rowOf, List.getD_eq_getElem?_getD,
      scatterNF]
    rw [getElem?_foldl_setAt (fun q : Nat × Nat × Nat => q.1) (fun q => q.2.2) (fun q => (q.2.1 : Int)),
      getElem?_foldl_setAt (fun q : Nat × Nat × Nat => q.1) (fun q => q.2.1) (fun q => (q.2.2 : Int)),
      List.getElem?_replicate, if_pos hm]
    rfl

theorem detectCore_at (n : Nat) (thr : Int) (permOf : Row → List Nat) (batch : List Traj) (m : Nat)
    (t : Traj) (h : batch[m]? = some t) :
    rowOf n (detectCore false n thr permOf batch).swap m = (detectOne n thr permOf t).row ∧
    (detectCore false n thr permOf batch).holdoff[m]? = some (detectOne n thr permOf t).holdoff ∧
    zeroOf (detectCore false n thr permOf batch).zero m = (detectOne n thr permOf t).zero := by
  have hm : m < batch.length := by
    rcases List.getElem?_eq_some_iff.mp h with ⟨hlt, _⟩; exact hlt
  rw [detectCore_nf false n thr permOf batch (by intro hb; cases hb)]
  refine ⟨?_, ?_, ?_⟩
  · show rowOf n (if (tripOf thr permOf batch).isEmpty then none else _) m = _
    rw [rowOf_nf n batch.length _ m hm, tripOf_filter thr permOf batch m t h, List.foldl_map,
      List.foldl_map]
    rfl
  · show (List.foldl _ _ (resetIdxOf thr permOf batch))[m]? = _
    rw [getElem?_foldl_set_zero, List.getElem?_map, h]
    by_cases hr : (probeMaskOf thr t && resetOf thr t.active t.prev t.ov (permOf t.ov)) = true
    · rw [if_pos ((mem_resetIdxOf thr permOf batch m t h).mpr hr)]
      simp [detectOne, hr]
    · rw [if_neg (fun hm => hr ((mem_resetIdxOf thr permOf batch m t h).mp hm))]
      simp [detectOne, hr]
  · show zeroOf (tripOf thr permOf batch ++ _) m = _
    have hf : (fun q : Nat × Nat × Nat => q.1 == m) ∘ (fun q : Nat × Nat × Nat => (q.1, q.2.2, q.2.1)) =
        fun q => q.1 == m := rfl
    rw [zeroOf, List.filter_append, List.filter_map, hf, tripOf_filter thr permOf batch m t h]
    simp [detectOne, specPairs, List.map_map, Function.comp_def]

/-- with an empty probe group `need_idx` and `detect_mol_idx` coincide -/
theorem detIdxOf_eq_needIdxOf (thr : Int) (batch : List Traj)
    (h : ∀ t ∈ batch, probeMaskOf thr t = false) : detIdxOf thr batch = needIdxOf thr batch := by
  rw [detIdxOf, List.filter_eq_self]
  intro m hm
  have hm' := hm
  rw [needIdxOf, mem_nonzero, List.getElem?_map] at hm'
  cases ht : batch[m]? with
  | none => simp [ht] at hm'
  | some t =>
    rw [getD_map_of_getElem? _ _ _ _ _ ht]
    have h1 := (mem_needIdxOf thr batch m t ht).mp hm
    have hp := h t (List.mem_iff_getElem?.mpr ⟨m, ht⟩)
    simpa [hp] using h1

theorem tripOf_eq_nil_iff (thr : Int) (permOf : Row → List Nat) (batch : List Traj) :
    tripOf thr permOf batch = [] ↔
      ∀ t ∈ batch, detectMaskOf thr t = true → pairsOf thr t.ov (permOf t.ov) = [] := by
  rw [tripOf, trip, List.flatMap_eq_nil_iff]
  constructor
  · intro h t ht hd
    obtain ⟨m, hm⟩ := List.mem_iff_getElem?.mp ht
    have := h m ((mem_detIdxOf thr batch m t hm).mpr hd)
    rw [getD_map_of_getElem? _ _ _ _ _ hm] at this
    simpa using this
  · intro h m hm
    obtain ⟨t, ht, hd⟩ := (mem_detIdxOf_iff thr batch m).mp hm
    rw [getD_map_of_getElem? _ _ _ _ _ ht, h t (List.mem_iff_getElem?.mpr ⟨m, ht⟩) hd]
    rfl

/-! ## the row of one trajectory: symmetric swaps -/

theorem foldl_set_length {τ : Type} (key : τ → Nat) (val : τ → Int) (l : List τ) (s0 : List Int) :
    (l.foldl (fun s q => s.set (key q) (val q)) s0).length = s0.length := by
  induction l generalizing s0 with
  | nil => rfl
  | cons q l ih => rw [List.foldl_cons, ih, List.length_set]

theorem foldl_set_untouched {τ : Type} (key : τ → Nat) (val : τ → Int) (l : List τ) (s0 : List Int)
    (k : Nat) (h : ∀ q ∈ l, key q ≠ k) :
    (l.foldl (fun s q => s.set (key q) (val q)) s0)[k]? = s0[k]? := by
  induction l generalizing s0 with
  | nil => rfl
  | cons q l ih =>
    rw [List.foldl_cons, ih _ (fun q' hq' => h q' (List.mem_cons_of_mem _ hq')),
      List.getElem?_set_ne (h q List.mem_cons_self)]

theorem foldl_set_written {τ : Type} (key : τ → Nat) (val : τ → Int) (l : List τ) (s0 : List Int)
    (k : Nat) (hk : k < s0.length) (h : ∃ q ∈ l, key q = k) :
    ∃ q ∈ l, key q = k ∧ (l.foldl (fun s q => s.set (key q) (val q)) s0)[k]? = some (val q) := by
  induction l generalizing s0 with
  | nil => obtain ⟨q, hq, _⟩ := h; cases hq
  | cons q0 l ih =>
    rw [List.foldl_cons]
    by_cases hl : ∃ q ∈ l, key q = k
    · obtain ⟨q, hq, hqk, hv⟩ := ih (s0.set (key q0) (val q0)) (by rw [List.length_set]; exact hk) hl
      exact ⟨q, List.mem_cons_of_mem _ hq, hqk, hv⟩
    · have hq0 : key q0 = k := by
        obtain ⟨q, hq, hqk⟩ := h
        rcases List.mem_cons.mp hq with rfl | hq
        · exact hqk
        · exact absurd ⟨q, hq, hqk⟩ hl
      refine ⟨q0, List.mem_cons_self, hq0, ?_⟩
      rw [foldl_set_untouched key val l _ k (fun q hq hqk => hl ⟨q, hq, hqk⟩), hq0,
        List.getElem?_set_self hk]

theorem mem_pairsOf (thr : Int) (ov : Row) (p : List Nat) (i j : Nat) :
    (i, j) ∈ pairsOf thr ov p ↔ p[i]? = some j ∧ j ≠ i ∧ i < j ∧ thr ≤ ovAt ov i j := by
  unfold pairsOf
  rw [List.mem_filterMap]
  constructor
  · rintro ⟨⟨pj, i'⟩, hmem, hf⟩
    rw [List.mk_mem_zipIdx_iff_getElem?] at hmem
    simp only at hf
    split at hf
    · rename_i hc
      simp only [Option.some.injEq, Prod.mk.injEq] at hf
      obtain ⟨rfl, rfl⟩ := hf
      simp only [Bool.and_eq_true, decide_eq_true_eq] at hc
      exact ⟨hmem, hc.1.1, hc.1.2, hc.2⟩
    · cases hf
  · rintro ⟨h1, h2, h3, h4⟩
    refine ⟨(j, i), List.mk_mem_zipIdx_iff_getElem?.mpr h1, ?_⟩
    simp [h2, h3, h4]

/-- the index vector is an involution on its own index range: `p[p[i]] = i` -/
def IsInvolution (p : List Nat) : Prop := ∀ i j : Nat, p[i]? = some j → p[j]? = some i

/-- **one trajectory's row is a set of symmetric swaps** when the assignment is an involution -/
theorem buildRow_symmetric (n : Nat) (thr : Int) (ov : Row) (p : List Nat) (hp : IsInvolution p)
    (hlen : p.length ≤ n) (i : Nat) (v : Int)
    (h : (buildRow n (pairsOf thr ov p))[i]? = some v) (hv : 0 ≤ v) :
    (buildRow n (pairsOf thr ov p))[v.toNat]? = some (i : Int) ∧ (i : Int) ≠ v := by
  -- facts about the pairs
  have P1 : ∀ q ∈ pairsOf thr ov p, p[q.1]? = some q.2 ∧ q.1 < q.2 ∧ p[q.2]? = some q.1 ∧ q.2 < n := by
    intro q hq
    have hm := (mem_pairsOf thr ov p q.1 q.2).mp hq
    have h2 := hp _ _ hm.1
    refine ⟨hm.1, hm.2.2.1, h2, ?_⟩
    rcases List.getElem?_eq_some_iff.mp h2 with ⟨hlt, _⟩
    omega
  have P2 : ∀ q ∈ pairsOf thr ov p, ∀ q' ∈ pairsOf thr ov p, q.1 = q'.1 → q.2 = q'.2 := by
    intro q hq q' hq' e
    have a := (P1 q hq).1
    have b := (P1 q' hq').1
    rw [e, b] at a
    exact (Option.some.inj a).symm
  have P3 : ∀ q ∈ pairsOf thr ov p, ∀ q' ∈ pairsOf thr ov p, q.2 = q'.2 → q.1 = q'.1 := by
    intro q hq q' hq' e
    have a := (P1 q hq).2.2.1
    have b := (P1 q' hq').2.2.1
    rw [e, b] at a
    exact (Option.some.inj a).symm
  have P4 : ∀ q ∈ pairsOf thr ov p, ∀ q' ∈ pairsOf thr ov p, q'.2 ≠ q.1 := by
    intro q hq q' hq' e
    have a := (P1 q hq).1
    have b := (P1 q' hq').2.2.1
    rw [e, a] at b
    have := Option.some.inj b
    have h1 := (P1 q hq).2.1
    have h2 := (P1 q' hq').2.1
    omega
  -- the two folds
  unfold buildRow at h ⊢
  simp only at h ⊢
  generalize hs1 : (pairsOf thr ov p).foldl (fun s q => s.set q.1 (q.2 : Int))
    (List.replicate n (-1 : Int)) = s1 at h ⊢
  have hl1 : s1.length = n := by
    rw [← hs1, foldl_set_length (fun q : Nat × Nat => q.1) (fun q => (q.2 : Int))]; simp
  have hin : i < n := by
    rcases List.getElem?_eq_some_iff.mp h with ⟨hlt, _⟩
    rw [foldl_set_length (fun q : Nat × Nat => q.2) (fun q => (q.1 : Int)), hl1] at hlt
    exact hlt
  by_cases hA : ∃ q ∈ pairsOf thr ov p, q.2 = i
  · obtain ⟨q, hq, hqi, hval⟩ := foldl_set_written (fun q : Nat × Nat => q.2) (fun q => (q.1 : Int))
      (pairsOf thr ov p) s1 i (by omega) hA
    rw [hval] at h
    have hvq : v = (q.1 : Int) := (Option.some.inj h).symm
    subst hvq
    rw [Int.toNat_natCast]
    have hlt := (P1 q hq).2.1
    refine ⟨?_, by omega⟩
    rw [foldl_set_untouched (fun q : Nat × Nat => q.2) (fun q => (q.1 : Int)) _ s1 q.1
      (fun q' hq' => P4 q hq q' hq')]
    obtain ⟨q'', hq'', hk, hv''⟩ := foldl_set_written (fun q : Nat × Nat => q.1)
      (fun q => (q.2 : Int)) (pairsOf thr ov p) (List.replicate n (-1 : Int)) q.1
      (by simp; omega) ⟨q, hq, rfl⟩
    rw [hs1] at hv''
    rw [hv'', P2 q'' hq'' q hq hk, hqi]
  · have hA' : ∀ q ∈ pairsOf thr ov p, q.2 ≠ i := fun q hq e => hA ⟨q, hq, e⟩
    rw [foldl_set_untouched (fun q : Nat × Nat => q.2) (fun q => (q.1 : Int)) _ s1 i hA'] at h
    by_cases hB : ∃ q ∈ pairsOf thr ov p, q.1 = i
    · obtain ⟨q, hq, hqi, hval⟩ := foldl_set_written (fun q : Nat × Nat => q.1)
        (fun q => (q.2 : Int)) (pairsOf thr ov p) (List.replicate n (-1 : Int)) i (by simpa using hin) hB
      rw [hs1, h] at hval
      have hvq : v = (q.2 : Int) := Option.some.inj hval
      subst hvq
      rw [Int.toNat_natCast]
      have hlt := (P1 q hq).2.1
      refine ⟨?_, by omega⟩
      obtain ⟨q', hq', hk, hv'⟩ := foldl_set_written (fun q : Nat × Nat => q.2)
        (fun q => (q.1 : Int)) (pairsOf thr ov p) s1 q.2 (by have := (P1 q hq).2.2.2; omega) ⟨q, hq, rfl⟩
      rw [hv', P3 q' hq' q hq hk, hqi]
    · have hB' : ∀ q ∈ pairsOf thr ov p, q.1 ≠ i := fun q hq e => hB ⟨q, hq, e⟩
      rw [← hs1, foldl_set_untouched (fun q : Nat × Nat => q.1) (fun q => (q.2 : Int)) _ _ i hB',
        List.getElem?_replicate, if_pos hin] at h
      have : v = -1 := (Option.some.inj h).symm
      omega

end Crossing
