import PyseqmVerif.Model.ScfControl
import PyseqmVerif.Proofs.ScfLemmas

/-! Helper lemmas for `Properties/C05b` (batch transparency of the SCF control flow).

    Everything in the first section holds for **any scalar type** (no order axioms; `Float` with
    NaN included): the facts used are only that `get_error` is a deterministic row-wise function
    and that the loop writes back `X[notconverged] = …`.

    * `Frozen` / `updMol_frozen_gen`: a converged record is a fixed point of the per-molecule body
      (the order-free version of `updMol_frozen`);
    * `loop_mols_eq_runN`: the rows returned by the loop with its `Nnot == 0` break are the rows
      after `fuel` bodies without the break;
    * `traj_eq_of_sim`: the simulation lemma — if along the two runs the kernels propose the same
      row for molecule `i` of run `B` and molecule `j` of run `A` while it is active, the two
      per-iteration trajectories coincide. -/
namespace ScfControl
set_option linter.unusedSectionVars false

section Generic
variable {α : Type} [Sub α] [Mul α] [OfScientific α] [LT α] [DecidableLT α] {γ σ : Type}

/-- once converged, the record is a fixed point of the per-molecule loop body for every loop
    index and every proposal of the kernels -/
def Frozen (Kn : Kernels γ σ α) (abs : α → α) (eps : α) (m : Mol σ α) : Prop :=
  m.active = false → ∀ k cand, updMol Kn abs eps k cand m = m

/-- the flag `bad | dm_bad | dm_elem_bad` as a function of the four numbers it compares -/
def flagOf (abs : α → α) (eps e d l : α) (di : Option α) : Bool :=
  ((match di with
    | some x => decide (eps < abs e) || decide (50.0 * eps < x)
    | none => decide (eps < abs e)) || decide (eps * 2.0 < d)) || decide (eps * 15.0 < l)

/-- `get_error` on an inactive row only re-evaluates the comparisons on the stored values -/
theorem getErrorMol_inactive_eq (abs : α → α) (eps eN eO e dF elF d l : α) (di : Option α) :
    getErrorMol abs eps
      { active := false, eNew := eN, eOld := eO, errStored := e, dmFresh := dF,
        elemFresh := elF, dmStored := d, elemStored := l, diis := di } =
      { notconv := flagOf abs eps e d l di, dm := d, elem := l, err := e, fresh := false } := by
  cases di <;> simp [getErrorMol, flagOf]

/-- `get_error` on an active row that comes out converged: all three errors are the fresh ones
    and every comparison was `False` -/
theorem getErrorMol_active_conv (abs : α → α) (eps eN eO e dF elF d l : α) (di : Option α)
    (h : (getErrorMol abs eps
      { active := true, eNew := eN, eOld := eO, errStored := e,
        dmFresh := dF, elemFresh := elF, dmStored := d, elemStored := l, diis := di }).notconv
          = false) :
    getErrorMol abs eps
      { active := true, eNew := eN, eOld := eO, errStored := e, dmFresh := dF,
        elemFresh := elF, dmStored := d, elemStored := l, diis := di } =
      { notconv := false, dm := dF, elem := elF, err := eN - eO, fresh := true } ∧
    flagOf abs eps (eN - eO) dF elF di = false := by
  by_cases hb : eps < abs (eN - eO)
  · cases di <;> simp [getErrorMol, hb] at h
  · cases di with
    | none =>
      by_cases h2 : eps * 2.0 < dF
      · simp [getErrorMol, hb, h2] at h
      · by_cases h3 : eps * 15.0 < elF
        · simp [getErrorMol, hb, h2, h3] at h
        · simp [getErrorMol, flagOf, hb, h2, h3]
    | some x =>
      by_cases hd : (50.0 : α) * eps < x
      · simp [getErrorMol, hb, hd] at h
      · by_cases h2 : eps * 2.0 < dF
        · simp [getErrorMol, hb, hd, h2] at h
        · by_cases h3 : eps * 15.0 < elF
          · simp [getErrorMol, hb, hd, h2, h3] at h
          · simp [getErrorMol, flagOf, hb, hd, h2, h3]

/-- **Frozen is an invariant of the body**, for any scalar type: the record written in the
    iteration in which a molecule converges is a fixed point of all later bodies, because the
    later `get_error` calls re-evaluate the *same* comparisons on the *same* stored numbers. -/
theorem updMol_frozen_gen (Kn : Kernels γ σ α) (abs : α → α) (eps : α) (k : Nat) (cand : σ)
    (m : Mol σ α) (h : Frozen Kn abs eps m) : Frozen Kn abs eps (updMol Kn abs eps k cand m) := by
  by_cases ha : m.active = true
  · intro hnew k' cand'
    rcases m with ⟨s, act, eO, eN, er, dm, el, li⟩
    simp only at ha
    subst ha
    simp only [updMol, if_true] at hnew
    obtain ⟨h1, h2⟩ := getErrorMol_active_conv abs eps _ _ _ _ _ _ _ _ hnew
    simp only [updMol, if_true, h1, Bool.false_eq_true, if_false, getErrorMol_inactive_eq, h2]
  · have ha' : m.active = false := by simpa using ha
    rw [h ha' k cand]; exact h

theorem frozen_of_active (Kn : Kernels γ σ α) (abs : α → α) (eps : α) (m : Mol σ α)
    (h : m.active = true) : Frozen Kn abs eps m := by
  intro h'; rw [h] at h'; cases h'

theorem body_frozen (Kn : Kernels γ σ α) (abs : α → α) (eps : α) (k : Nat) (st : State γ σ α)
    (h : ∀ m ∈ st.mols, Frozen Kn abs eps m) :
    ∀ m ∈ (body Kn abs eps k st).mols, Frozen Kn abs eps m := by
  intro m' hm'
  obtain ⟨m, hm, cand, rfl⟩ := mem_body Kn abs eps k st m' hm'
  exact updMol_frozen_gen Kn abs eps k cand m (h m hm)

theorem runN_frozen_gen (Kn : Kernels γ σ α) (abs : α → α) (eps : α) (k : Nat) (st : State γ σ α)
    (h : ∀ m ∈ st.mols, Frozen Kn abs eps m) :
    ∀ n, ∀ m ∈ (runN Kn abs eps k n st).mols, Frozen Kn abs eps m :=
  runN_forall Kn abs eps _ (fun k cand m hm => updMol_frozen_gen Kn abs eps k cand m hm) k st h

theorem runN_length (Kn : Kernels γ σ α) (abs : α → α) (eps : α) (k : Nat)
    (st : State γ σ α) : ∀ n, (runN Kn abs eps k n st).mols.length = st.mols.length := by
  intro n
  induction n with
  | zero => rfl
  | succ n ih =>
    show (body Kn abs eps (k + n) (runN Kn abs eps k n st)).mols.length = _
    rw [body_length, ih]

/-- when every molecule is converged a further body changes no row -/
theorem body_mols_of_allConverged (Kn : Kernels γ σ α) (abs : α → α) (eps : α) (k : Nat)
    (st : State γ σ α) (hf : ∀ m ∈ st.mols, Frozen Kn abs eps m)
    (hc : allConverged st.mols = true) : (body Kn abs eps k st).mols = st.mols := by
  apply List.ext_getElem?
  intro i
  rw [body_getElem?]
  cases hi : st.mols[i]? with
  | none => rfl
  | some m =>
    have hm := List.mem_of_getElem? hi
    have hact : m.active = false := by
      have := List.all_eq_true.mp hc m hm
      simpa using this
    rw [Option.map_some, hf m hm hact]

theorem runN_mols_of_allConverged (Kn : Kernels γ σ α) (abs : α → α) (eps : α) (k : Nat)
    (st : State γ σ α) (hf : ∀ m ∈ st.mols, Frozen Kn abs eps m)
    (hc : allConverged st.mols = true) : ∀ n, (runN Kn abs eps k n st).mols = st.mols := by
  intro n
  induction n with
  | zero => rfl
  | succ n ih =>
    show (body Kn abs eps (k + n) (runN Kn abs eps k n st)).mols = st.mols
    rw [body_mols_of_allConverged Kn abs eps _ _ (runN_frozen_gen Kn abs eps k st hf n)
      (by rw [ih]; exact hc), ih]

/-- **The `break` is invisible in the rows.**  The rows returned by the loop (which leaves as soon
    as `Nnot == 0`) are the rows after `fuel` bodies without the test. -/
theorem loop_mols_eq_runN (Kn : Kernels γ σ α) (abs : α → α) (eps : α) :
    ∀ (fuel k : Nat) (st : State γ σ α), (∀ m ∈ st.mols, Frozen Kn abs eps m) →
      (loop Kn abs eps fuel k st).mols = (runN Kn abs eps k fuel st).mols := by
  intro fuel
  induction fuel with
  | zero => intro k st _; rfl
  | succ fuel ih =>
    intro k st hf
    have hb := body_frozen Kn abs eps k st hf
    rw [← runN_shift]
    cases hc : allConverged (body Kn abs eps k st).mols
    · rw [loop_succ_not _ _ _ _ _ _ hc]; exact ih (k+1) _ hb
    · rw [loop_succ_conv _ _ _ _ _ _ hc,
        runN_mols_of_allConverged Kn abs eps (k+1) _ hb hc]

/-- **Simulation lemma.**  Two runs `B` (the batch) and `A` (e.g. the molecule alone) of the same
    kernels; row `i` of `B` and row `j` of `A` start equal.  `R` relates the batch-global kernel
    states.  If, *as long as the molecule is active*, related global states and equal rows make the
    kernels propose the same row and again related global states, then the per-iteration
    trajectories of the two rows coincide for ever (after convergence nothing is needed: the row
    is frozen in both runs). -/
theorem traj_eq_of_sim (Kn : Kernels γ σ α) (abs : α → α) (eps : α) (k0 : Nat)
    (R : γ → γ → Prop) (stB stA : State γ σ α) (i j : Nat)
    (hfB : ∀ m ∈ stB.mols, Frozen Kn abs eps m)
    (h0 : stB.mols[i]? = stA.mols[j]?)
    (hR0 : ∀ m, stB.mols[i]? = some m → m.active = true → R stB.g stA.g)
    (hstep : ∀ n m, (runN Kn abs eps k0 n stB).mols[i]? = some m →
        (runN Kn abs eps k0 n stA).mols[j]? = some m → m.active = true →
        R (runN Kn abs eps k0 n stB).g (runN Kn abs eps k0 n stA).g →
        (Kn.step (k0 + n) (runN Kn abs eps k0 n stB).g (runN Kn abs eps k0 n stB).mols).2 i =
          (Kn.step (k0 + n) (runN Kn abs eps k0 n stA).g (runN Kn abs eps k0 n stA).mols).2 j ∧
        R (Kn.step (k0 + n) (runN Kn abs eps k0 n stB).g (runN Kn abs eps k0 n stB).mols).1
          (Kn.step (k0 + n) (runN Kn abs eps k0 n stA).g (runN Kn abs eps k0 n stA).mols).1) :
    ∀ n, (runN Kn abs eps k0 n stB).mols[i]? = (runN Kn abs eps k0 n stA).mols[j]? ∧
      ∀ m, (runN Kn abs eps k0 n stB).mols[i]? = some m → m.active = true →
        R (runN Kn abs eps k0 n stB).g (runN Kn abs eps k0 n stA).g := by
  intro n
  induction n with
  | zero => exact ⟨h0, hR0⟩
  | succ n ih =>
    obtain ⟨hrow, hR⟩ := ih
    show (body Kn abs eps (k0 + n) (runN Kn abs eps k0 n stB)).mols[i]? =
        (body Kn abs eps (k0 + n) (runN Kn abs eps k0 n stA)).mols[j]? ∧
      ∀ m, (body Kn abs eps (k0 + n) (runN Kn abs eps k0 n stB)).mols[i]? = some m →
        m.active = true →
        R (body Kn abs eps (k0 + n) (runN Kn abs eps k0 n stB)).g
          (body Kn abs eps (k0 + n) (runN Kn abs eps k0 n stA)).g
    rw [body_getElem?, body_getElem?]
    cases hB : (runN Kn abs eps k0 n stB).mols[i]? with
    | none =>
      rw [hB] at hrow
      rw [← hrow]
      exact ⟨rfl, fun m hm => by cases hm⟩
    | some m =>
      rw [hB] at hrow
      rw [← hrow]
      simp only [Option.map_some, Option.some.injEq]
      cases hact : m.active with
      | true =>
        obtain ⟨hc, hR'⟩ := hstep n m hB hrow.symm hact (hR m hB hact)
        rw [hc]
        exact ⟨rfl, fun _ _ _ => hR'⟩
      | false =>
        have hfr := runN_frozen_gen Kn abs eps k0 stB hfB n m (List.mem_of_getElem? hB)
        rw [hfr hact, hfr hact]
        refine ⟨rfl, ?_⟩
        intro m' hm' ha'
        rw [← hm', hact] at ha'
        cases ha'

variable [OfNat α 0] [OfNat α 1]

theorem initState_frozen (Kn : Kernels γ σ α) (abs : α → α) (eps : α) (g : γ) (ss : List σ) :
    ∀ m ∈ (initState Kn g ss).mols, Frozen Kn abs eps m :=
  fun m hm => frozen_of_active Kn abs eps m (initState_active Kn g ss m hm)

theorem initState_getElem? (Kn : Kernels γ σ α) (g : γ) (ss : List σ) (i : Nat) :
    (initState Kn g ss).mols[i]? = (ss[i]?).map (fun s =>
      { s := s, active := true, eOld := Kn.energy s, eNew := 0, err := 1, dm := 1, elem := 1,
        lastIt := 0 }) := by
  simp [initState]

end Generic

/-! ## `flatMap` of singletons -/

theorem flatMap_getElem?_of_length_one {β δ : Type} (f : β → List δ) (hf : ∀ b, (f b).length = 1) :
    ∀ (l : List β) (i : Nat), (l.flatMap f)[i]? = (l[i]?).bind (fun b => (f b)[0]?) := by
  intro l
  induction l with
  | nil => intro i; rfl
  | cons b l ih =>
    intro i
    rw [List.flatMap_cons]
    have hb := hf b
    cases i with
    | zero =>
      rw [List.getElem?_append_left (by omega)]
      rfl
    | succ i =>
      rw [List.getElem?_append_right (by omega), hb, Nat.add_sub_cancel, ih]
      rfl

end ScfControl
