import PyseqmVerif.Proofs.HopLemmas
import Mathlib.Algebra.BigOperators.Fin
import Mathlib.Algebra.BigOperators.Ring.Finset
import Mathlib.Algebra.BigOperators.Group.Finset.Sigma
import Mathlib.Data.List.OfFn
import Mathlib.Analysis.SpecialFunctions.Trigonometric.Basic
/-!
# Helper lemmas for the RK4 model at `ℝ`
-/
namespace RK4
open Finset Hop

/-! ## lists of length `n` as functions on `Fin n` -/

theorem zipWith_ofFn {α β γ : Type} {n : ℕ} (f : α → β → γ) (a : Fin n → α) (b : Fin n → β) :
    List.zipWith f (List.ofFn a) (List.ofFn b) = List.ofFn fun i => f (a i) (b i) := by
  apply List.ext_getElem
  · simp
  · intro i h1 h2
    simp

theorem sumL_ofFn {n : ℕ} (f : Fin n → ℝ) : sumL (List.ofFn f) = ∑ i, f i := by
  rw [sumL_eq_sum, List.sum_ofFn]

variable {n : ℕ}

/-- the right-hand side in function form -/
def fURe (c s : ℝ → ℝ) (x y th : Fin n → ℝ) (i : Fin n) : ℝ := x i * c (th i) - y i * s (th i)
def fUIm (c s : ℝ → ℝ) (x y th : Fin n → ℝ) (i : Fin n) : ℝ := x i * s (th i) + y i * c (th i)
def fDX (c s : ℝ → ℝ) (D : Fin n → Fin n → ℝ) (x y th : Fin n → ℝ) (i : Fin n) : ℝ :=
  -(c (th i) * ∑ j, D i j * fURe c s x y th j + s (th i) * ∑ j, D i j * fUIm c s x y th j)
def fDY (c s : ℝ → ℝ) (D : Fin n → Fin n → ℝ) (x y th : Fin n → ℝ) (i : Fin n) : ℝ :=
  s (th i) * ∑ j, D i j * fURe c s x y th j - c (th i) * ∑ j, D i j * fUIm c s x y th j

/-- the model's `rhsAmp` on well-shaped input is the function form, entry by entry -/
theorem rhsAmp_ofFn (c s : ℝ → ℝ) (D : Fin n → Fin n → ℝ) (x y th : Fin n → ℝ) :
    rhsAmp c s (List.ofFn x) (List.ofFn y) (List.ofFn th) (List.ofFn fun i => List.ofFn (D i)) =
      (List.ofFn (fDX c s D x y th), List.ofFn (fDY c s D x y th)) := by
  simp only [rhsAmp, matVec, uRe, uIm, List.map_ofFn, zipWith_ofFn, Function.comp_def, sumL_ofFn]
  rfl

/-- x·dx + y·dy at one site equals −(u_re r_re + u_im r_im) -/
theorem site (c s : ℝ → ℝ) (D : Fin n → Fin n → ℝ) (x y th : Fin n → ℝ) (i : Fin n) :
    x i * fDX c s D x y th i + y i * fDY c s D x y th i
      = -(fURe c s x y th i * ∑ j, D i j * fURe c s x y th j +
          fUIm c s x y th i * ∑ j, D i j * fUIm c s x y th j) := by
  simp only [fDX, fDY, fURe, fUIm]; ring

/-- a quadratic form with an antisymmetric matrix vanishes -/
theorem antisymm_quad (D : Fin n → Fin n → ℝ) (hD : ∀ i j, D j i = -D i j) (u : Fin n → ℝ) :
    ∑ i, u i * ∑ j, D i j * u j = 0 := by
  have h : ∑ i, u i * ∑ j, D i j * u j = ∑ i, ∑ j, u i * D i j * u j := by
    apply sum_congr rfl; intro i _; rw [mul_sum]; apply sum_congr rfl; intro j _; ring
  have hswap : ∑ i, ∑ j, u i * D i j * u j = ∑ i, ∑ j, u j * D j i * u i := sum_comm
  have hneg : ∑ i, ∑ j, u j * D j i * u i = -∑ i, ∑ j, u i * D i j * u j := by
    rw [← sum_neg_distrib]; apply sum_congr rfl; intro i _
    rw [← sum_neg_distrib]; apply sum_congr rfl; intro j _
    rw [hD i j]; ring
  rw [h]; linarith [hswap, hneg]

theorem norm_derivative_zero (c s : ℝ → ℝ) (D : Fin n → Fin n → ℝ) (hD : ∀ i j, D j i = -D i j)
    (x y th : Fin n → ℝ) :
    ∑ i, (x i * fDX c s D x y th i + y i * fDY c s D x y th i) = 0 := by
  simp_rw [site]
  rw [sum_neg_distrib, sum_add_distrib, antisymm_quad D hD (fURe c s x y th),
    antisymm_quad D hD (fUIm c s x y th)]
  simp

/-! ## two states, equal phases -/

/-- with equal phases on both states the interaction-picture right-hand side reduces to `-D a` -/
theorem rhsAmp_two_equal_phase (d t x1 x2 y1 y2 : ℝ) :
    rhsAmp Real.cos Real.sin [x1, x2] [y1, y2] [t, t] [[0, d], [-d, 0]] =
      ([-(d * x2), d * x1], [-(d * y2), d * y1]) := by
  have h := Real.cos_sq_add_sin_sq t
  simp only [rhsAmp, matVec, uRe, uIm, List.map_cons, List.map_nil, List.zipWith_cons_cons,
    List.zipWith_nil_right, sumL_cons, sumL_nil, Prod.mk.injEq, List.cons.injEq, and_true]
  refine ⟨⟨?_, ?_⟩, ?_, ?_⟩
  · linear_combination (-(d * x2)) * h
  · linear_combination (d * x1) * h
  · linear_combination (-(d * y2)) * h
  · linear_combination (d * y1) * h

/-! ## the hop integral has a zero diagonal (`hop_int.mul_(1.0 - eye)`) -/

theorem hopIntegral_diag (c s : ℝ → ℝ) (dt : ℝ) (x y th : List ℝ) (nd : List (List ℝ)) (a : Nat)
    (row : List ℝ) (h : (hopIntegral c s dt x y th nd)[a]? = some row) (v : ℝ)
    (hv : row[a]? = some v) : v = 0 := by
  simp only [hopIntegral, List.getElem?_map, List.getElem?_zipIdx, Option.map_eq_some_iff] at h
  obtain ⟨⟨⟨ui, r⟩, i⟩, ⟨⟨p, hp, hpe⟩, rfl⟩⟩ := h
  simp only [Prod.mk.injEq] at hpe
  obtain ⟨rfl, rfl⟩ := hpe
  simp only [List.getElem?_map, List.getElem?_zipIdx, Option.map_eq_some_iff] at hv
  obtain ⟨⟨⟨uj, dij⟩, j⟩, ⟨⟨q, hq, hqe⟩, rfl⟩⟩ := hv
  simp only [Prod.mk.injEq] at hqe
  obtain ⟨rfl, rfl⟩ := hqe
  simp

/-! ## two states, constant coupling, equal energies: the exact RK4 amplification factor -/

/-- `R(z) R(-z)` restricted to the rotation generator: `1 − z⁶/72 + z⁸/576` -/
noncomputable def rk4Factor (z : ℝ) : ℝ := 1 - z ^ 6 / 72 + z ^ 8 / 576

theorem two_state_substep (ofNat : ℕ → ℝ) (dt hbar : ℝ) (nsub : ℕ) (tau d E δ θ x1 x2 y1 y2 : ℝ) :
    ∃ x1' x2' y1' y2' θ' : ℝ,
      substep Real.cos Real.sin (mkConsts ofNat dt hbar nsub) tau [E, E] [δ, δ] [[0, d], [-d, 0]]
        [[0, 0], [0, 0]] [x1, x2] [y1, y2] [θ, θ] = ([x1', x2'], [y1', y2'], [θ', θ']) ∧
      totalPopulation [x1', x2'] [y1', y2'] =
        rk4Factor (d * (mkConsts ofNat dt hbar nsub).dtSub) * totalPopulation [x1, x2] [y1, y2] := by
  refine ⟨?_, ?_, ?_, ?_, ?_, ?h1, ?h2⟩
  case h1 =>
    simp only [substep, matAxpy, axpy, axmy, rkComb, List.zipWith_cons_cons, List.zipWith_nil_right,
      mul_zero, add_zero, rhsAmp_two_equal_phase, List.map_cons, List.map_nil]
    rfl
  case h2 =>
    simp only [totalPopulation, population, List.zipWith_cons_cons, List.zipWith_nil_right, sumL_cons,
      sumL_nil, mkConsts, rk4Factor]
    norm_num
    ring

theorem two_state_loop (ofNat : ℕ → ℝ) (dt hbar : ℝ) (nsub : ℕ) (d E δ : ℝ) (c : ℕ) :
    ∀ (s : ℕ) (θ x1 x2 y1 y2 : ℝ), ∃ x1' x2' y1' y2' θ' : ℝ,
      loop Real.cos Real.sin ofNat (mkConsts ofNat dt hbar nsub) [E, E] [δ, δ] [[0, d], [-d, 0]]
        [[0, 0], [0, 0]] c s ([x1, x2], [y1, y2], [θ, θ]) = ([x1', x2'], [y1', y2'], [θ', θ']) ∧
      totalPopulation [x1', x2'] [y1', y2'] =
        rk4Factor (d * (mkConsts ofNat dt hbar nsub).dtSub) ^ c * totalPopulation [x1, x2] [y1, y2] := by
  induction c with
  | zero => intro s θ x1 x2 y1 y2; exact ⟨x1, x2, y1, y2, θ, rfl, by simp⟩
  | succ c ih =>
    intro s θ x1 x2 y1 y2
    obtain ⟨a1, a2, b1, b2, t, h1, h2⟩ :=
      two_state_substep ofNat dt hbar nsub (ofNat s * (mkConsts ofNat dt hbar nsub).invNsub) d E δ θ x1 x2 y1 y2
    obtain ⟨a1', a2', b1', b2', t', h1', h2'⟩ := ih (s + 1) t a1 a2 b1 b2
    refine ⟨a1', a2', b1', b2', t', ?_, ?_⟩
    · simp only [loop]; rw [h1, h1']
    · rw [h2', h2, pow_succ]; ring

end RK4
