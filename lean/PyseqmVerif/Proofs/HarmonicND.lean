import Mathlib.Data.Matrix.Mul
import Mathlib.LinearAlgebra.Matrix.Symmetric
import Mathlib.Data.Real.Basic
import Mathlib.Tactic.Ring
import Mathlib.Tactic.LinearCombination
import Mathlib.Tactic.Linarith
import Mathlib.Tactic.Positivity
import Mathlib.Algebra.BigOperators.Ring.Finset
import Mathlib.Algebra.Order.BigOperators.Group.Finset
import Mathlib.Algebra.QuadraticDiscriminant
import PyseqmVerif.Proofs.MDLemmas
/-!
# Helper lemmas for C08b: velocity Verlet on the N-dimensional harmonic system

Abstract layer (vectors `ι → ℝ`, `ι` any finite index type): the velocity-Verlet map in the form of
`C08.vv_exact_forms` for the linear force `F = -K x`,

  `a(x)_i = F_i · w_i · c = -(K x)_i · w_i · c`   (`w = mass_inverse`, `c = ACC_SCALE`),
  `x' = x + v h + ½ a(x) h²`,  `v' = v + ½ (a(x) + a(x')) h`,

and the quadratic forms `kin`, `pot`, `qform`, `energy`, `shadowE`, `sympl`.
Bridge layer: `vecOf`/`linForce` connect the abstract map to `Verlet.vvStep` on flattened lists.
-/

namespace HarmonicND
open Matrix Finset
noncomputable section

section abstract
variable {ι : Type} [Fintype ι] (K : Matrix ι ι ℝ) (m w : ι → ℝ) (c h : ℝ)

/-- acceleration of the model for `F = -K x`: `acc_i = force_i * mass_inverse_i * ACC_SCALE` -/
def acc (x : ι → ℝ) : ι → ℝ := fun i => -(K *ᵥ x) i * w i * c

/-- position update of `one_step` (form of `C08.vv_exact_forms`) -/
def stepX (x v : ι → ℝ) : ι → ℝ := fun i => x i + v i * h + 1 / 2 * acc K w c x i * h ^ 2

/-- velocity update of `one_step` (form of `C08.vv_exact_forms`) -/
def stepV (x v : ι → ℝ) : ι → ℝ :=
  fun i => v i + 1 / 2 * (acc K w c x i + acc K w c (stepX K w c h x v) i) * h

/-- `k` steps of the abstract map -/
def iter : ℕ → (ι → ℝ) × (ι → ℝ) → (ι → ℝ) × (ι → ℝ)
  | 0, z => z
  | k + 1, z => (stepX K w c h (iter k z).1 (iter k z).2, stepV K w c h (iter k z).1 (iter k z).2)

/-- `½ vᵀ M v` -/
def kin (v : ι → ℝ) : ℝ := 1 / 2 * ∑ i, m i * v i ^ 2

/-- `½ c xᵀ K x` (potential energy in the units in which the kinetic energy is `½ vᵀ M v`) -/
def pot (x : ι → ℝ) : ℝ := 1 / 2 * c * (x ⬝ᵥ K *ᵥ x)

/-- `q(x) = ½ (K x)ᵀ M⁻¹ (K x)` -/
def qform (x : ι → ℝ) : ℝ := 1 / 2 * ∑ i, w i * (K *ᵥ x) i ^ 2

/-- true energy `½ vᵀ M v + ½ c xᵀ K x` -/
def energy (x v : ι → ℝ) : ℝ := kin m v + pot K c x

/-- modified (shadow) energy
    `H̃_h = ½ vᵀ M v + ½ c xᵀ K x − (h²/8) c² (K x)ᵀ M⁻¹ (K x) = energy − (h²/4) c² q(x)` -/
def shadowE (x v : ι → ℝ) : ℝ := kin m v + pot K c x - h ^ 2 / 4 * c ^ 2 * qform K w x

/-- symplectic two-form in `(x, v)` coordinates: `ω((x,v),(y,u)) = xᵀ M u − vᵀ M y` -/
def sympl (x v y u : ι → ℝ) : ℝ := ∑ i, m i * (x i * u i - v i * y i)

variable {K}

/-- a symmetric matrix gives a symmetric bilinear form -/
theorem sym_dot (hK : K.IsSymm) (x y : ι → ℝ) : x ⬝ᵥ K *ᵥ y = y ⬝ᵥ K *ᵥ x := by
  rw [dotProduct_mulVec, dotProduct_comm, ← mulVec_transpose, hK.eq]

variable (K)

theorem shadowE_eq_sum (x v : ι → ℝ) :
    shadowE K m w c h x v
      = ∑ i, (1 / 2 * m i * v i ^ 2 + 1 / 2 * c * (x i * (K *ᵥ x) i)
              - h ^ 2 / 8 * c ^ 2 * (w i * (K *ᵥ x) i ^ 2)) := by
  unfold shadowE kin pot qform
  rw [Finset.sum_sub_distrib, Finset.sum_add_distrib, ← Finset.mul_sum, ← Finset.mul_sum]
  simp only [dotProduct]
  rw [Finset.mul_sum]
  have : ∑ i, 1 / 2 * m i * v i ^ 2 = ∑ i, 1 / 2 * (m i * v i ^ 2) :=
    Finset.sum_congr rfl (fun i _ => by ring)
  rw [this]
  ring

variable {K}

/-- **one step conserves the shadow energy exactly** (any `h`, symmetric `K`, `mᵢ wᵢ = 1`) -/
theorem shadow_step (hK : K.IsSymm) (hmw : ∀ i, m i * w i = 1) (x v : ι → ℝ) :
    shadowE K m w c h (stepX K w c h x v) (stepV K w c h x v) = shadowE K m w c h x v := by
  rw [shadowE_eq_sum, shadowE_eq_sum]
  have key : ∀ i,
      (1 / 2 * m i * stepV K w c h x v i ^ 2
          + 1 / 2 * c * (stepX K w c h x v i * (K *ᵥ stepX K w c h x v) i)
          - h ^ 2 / 8 * c ^ 2 * (w i * (K *ᵥ stepX K w c h x v) i ^ 2))
        = (1 / 2 * m i * v i ^ 2 + 1 / 2 * c * (x i * (K *ᵥ x) i)
            - h ^ 2 / 8 * c ^ 2 * (w i * (K *ᵥ x) i ^ 2))
          + 1 / 2 * c * (x i * (K *ᵥ stepX K w c h x v) i - stepX K w c h x v i * (K *ᵥ x) i) := by
    intro i
    have hx : stepX K w c h x v i = x i + v i * h + 1 / 2 * (-(K *ᵥ x) i * w i * c) * h ^ 2 := rfl
    have hv : stepV K w c h x v i
        = v i + 1 / 2 * ((-(K *ᵥ x) i * w i * c)
            + (-(K *ᵥ stepX K w c h x v) i * w i * c)) * h := rfl
    rw [hv]
    generalize (K *ᵥ stepX K w c h x v) i = g' at *
    rw [hx]
    generalize (K *ᵥ x) i = g
    linear_combination
      (-(h / 2) * c * v i * (g + g') + h ^ 2 / 8 * c ^ 2 * w i * (g + g') ^ 2) * hmw i
  rw [Finset.sum_congr rfl (fun i _ => key i), Finset.sum_add_distrib, ← Finset.mul_sum]
  have h0 : ∑ i, (x i * (K *ᵥ stepX K w c h x v) i - stepX K w c h x v i * (K *ᵥ x) i) = 0 := by
    rw [Finset.sum_sub_distrib]
    show x ⬝ᵥ K *ᵥ stepX K w c h x v - stepX K w c h x v ⬝ᵥ K *ᵥ x = 0
    rw [sym_dot hK x, sub_self]
  rw [h0]; ring

/-- conserved along any number of steps -/
theorem shadow_iter (hK : K.IsSymm) (hmw : ∀ i, m i * w i = 1) (k : ℕ) (z : (ι → ℝ) × (ι → ℝ)) :
    shadowE K m w c h (iter K w c h k z).1 (iter K w c h k z).2 = shadowE K m w c h z.1 z.2 := by
  induction k with
  | zero => rfl
  | succ k ih => rw [← ih]; exact shadow_step m w c h hK hmw _ _

/-- **the step map preserves the symplectic form** `xᵀ M u − vᵀ M y`
    (for the linear map `Φ` with matrix `J` this is `Jᵀ Ω J = Ω`, `Ω = [[0, M], [−M, 0]]`) -/
theorem sympl_step (hK : K.IsSymm) (hmw : ∀ i, m i * w i = 1) (x v y u : ι → ℝ) :
    sympl m (stepX K w c h x v) (stepV K w c h x v) (stepX K w c h y u) (stepV K w c h y u)
      = sympl m x v y u := by
  unfold sympl
  have key : ∀ i,
      m i * (stepX K w c h x v i * stepV K w c h y u i - stepV K w c h x v i * stepX K w c h y u i)
        = m i * (x i * u i - v i * y i)
          + h / 2 * c * ((K *ᵥ stepX K w c h x v) i * stepX K w c h y u i
                          - stepX K w c h x v i * (K *ᵥ stepX K w c h y u) i)
          + h / 2 * c * ((K *ᵥ x) i * y i - x i * (K *ᵥ y) i) := by
    intro i
    have hx : stepX K w c h x v i = x i + v i * h + 1 / 2 * (-(K *ᵥ x) i * w i * c) * h ^ 2 := rfl
    have hy : stepX K w c h y u i = y i + u i * h + 1 / 2 * (-(K *ᵥ y) i * w i * c) * h ^ 2 := rfl
    have hv : stepV K w c h x v i
        = v i + 1 / 2 * ((-(K *ᵥ x) i * w i * c)
            + (-(K *ᵥ stepX K w c h x v) i * w i * c)) * h := rfl
    have hu : stepV K w c h y u i
        = u i + 1 / 2 * ((-(K *ᵥ y) i * w i * c)
            + (-(K *ᵥ stepX K w c h y u) i * w i * c)) * h := rfl
    rw [hv, hu]
    generalize (K *ᵥ stepX K w c h x v) i = gx' at *
    generalize (K *ᵥ stepX K w c h y u) i = gy' at *
    rw [hx, hy]
    generalize (K *ᵥ x) i = gx
    generalize (K *ᵥ y) i = gy
    linear_combination
      (h / 2 * c * (h * (v i * gy - gx * u i)
          + (gx + gx') * (y i + u i * h - 1 / 2 * gy * w i * c * h ^ 2)
          - (x i + v i * h - 1 / 2 * gx * w i * c * h ^ 2) * (gy + gy'))) * hmw i
  have anti : ∀ a b : ι → ℝ, ∑ i, ((K *ᵥ a) i * b i - a i * (K *ᵥ b) i) = 0 := by
    intro a b
    rw [Finset.sum_sub_distrib]
    have e1 : ∑ i, (K *ᵥ a) i * b i = b ⬝ᵥ K *ᵥ a := by
      simp only [dotProduct]; exact Finset.sum_congr rfl (fun i _ => mul_comm _ _)
    have e2 : ∑ i, a i * (K *ᵥ b) i = a ⬝ᵥ K *ᵥ b := rfl
    rw [e1, e2, sym_dot hK b, sub_self]
  rw [Finset.sum_congr rfl (fun i _ => key i), Finset.sum_add_distrib, Finset.sum_add_distrib,
    ← Finset.mul_sum, ← Finset.mul_sum, anti, anti]
  ring

/-! ### energy, `q ≥ 0`, uniform bound -/

theorem kin_nonneg (hm : ∀ i, 0 ≤ m i) (v : ι → ℝ) : 0 ≤ kin m v := by
  unfold kin
  exact mul_nonneg (by norm_num) (Finset.sum_nonneg fun i _ => mul_nonneg (hm i) (sq_nonneg _))

variable (K) in
theorem qform_nonneg (hw : ∀ i, 0 ≤ w i) (x : ι → ℝ) : 0 ≤ qform K w x := by
  unfold qform
  exact mul_nonneg (by norm_num) (Finset.sum_nonneg fun i _ => mul_nonneg (hw i) (sq_nonneg _))

variable (K) in
theorem energy_eq_shadow (x v : ι → ℝ) :
    energy K m c x v = shadowE K m w c h x v + h ^ 2 / 4 * c ^ 2 * qform K w x := by
  unfold energy shadowE; ring

/-- the arithmetic core of the uniform bound: from `H̃ₙ = H̃₀`, `0 ≤ T`, `0 ≤ U₀`, `0 ≤ q` and
    `c² q ≤ L U`, `h² L < 4`:  `Eₙ ≤ 4 E₀ / (4 − h² L)` and `|Eₙ − E₀| ≤ h² L E₀ / (4 − h² L)` -/
theorem bound_core {T0 U0 q0 Tn Un qn L c h : ℝ}
    (hT0 : 0 ≤ T0) (hU0 : 0 ≤ U0) (hq0 : 0 ≤ q0) (hTn : 0 ≤ Tn) (hqn : 0 ≤ qn)
    (hL0 : c ^ 2 * q0 ≤ L * U0) (hLn : c ^ 2 * qn ≤ L * Un) (hL : 0 ≤ L) (hst : h ^ 2 * L < 4)
    (hcons : Tn + Un - h ^ 2 / 4 * c ^ 2 * qn = T0 + U0 - h ^ 2 / 4 * c ^ 2 * q0) :
    Tn + Un ≤ 4 / (4 - h ^ 2 * L) * (T0 + U0) ∧
    |(Tn + Un) - (T0 + U0)| ≤ h ^ 2 * L / (4 - h ^ 2 * L) * (T0 + U0) := by
  have hd : 0 < 4 - h ^ 2 * L := by linarith
  have hh : 0 ≤ h ^ 2 := sq_nonneg h
  have hc2 : 0 ≤ c ^ 2 := sq_nonneg c
  have hθ : 0 ≤ h ^ 2 * L := mul_nonneg hh hL
  -- (h²/4) c² q ≤ (h² L / 4) U at both ends
  have b0 : h ^ 2 / 4 * c ^ 2 * q0 ≤ h ^ 2 * L / 4 * U0 := by
    have := mul_le_mul_of_nonneg_left hL0 (by positivity : 0 ≤ h ^ 2 / 4)
    linarith
  have bn : h ^ 2 / 4 * c ^ 2 * qn ≤ h ^ 2 * L / 4 * Un := by
    have := mul_le_mul_of_nonneg_left hLn (by positivity : 0 ≤ h ^ 2 / 4)
    linarith
  have p0 : 0 ≤ h ^ 2 / 4 * c ^ 2 * q0 := by positivity
  have pn : 0 ≤ h ^ 2 / 4 * c ^ 2 * qn := by positivity
  have hE0 : 0 ≤ T0 + U0 := by linarith
  -- (4 − h²L)(Tₙ + Uₙ) ≤ 4 (T₀ + U₀)
  have main : (4 - h ^ 2 * L) * (Tn + Un) ≤ 4 * (T0 + U0) := by
    have : h ^ 2 * L * Tn ≥ 0 := mul_nonneg hθ hTn
    nlinarith
  have hEn : Tn + Un ≤ 4 / (4 - h ^ 2 * L) * (T0 + U0) := by
    rw [show 4 / (4 - h ^ 2 * L) * (T0 + U0) = 4 * (T0 + U0) / (4 - h ^ 2 * L) by ring,
      le_div_iff₀ hd]
    linarith
  refine ⟨hEn, ?_⟩
  have hdiff : (Tn + Un) - (T0 + U0) = h ^ 2 / 4 * c ^ 2 * qn - h ^ 2 / 4 * c ^ 2 * q0 := by
    linarith
  have hUnE : (4 - h ^ 2 * L) * Un ≤ 4 * (T0 + U0) := by
    have : 0 ≤ (4 - h ^ 2 * L) * Tn := mul_nonneg hd.le hTn
    nlinarith
  have up : h ^ 2 / 4 * c ^ 2 * qn ≤ h ^ 2 * L / (4 - h ^ 2 * L) * (T0 + U0) := by
    rw [show h ^ 2 * L / (4 - h ^ 2 * L) * (T0 + U0) = h ^ 2 * L * (T0 + U0) / (4 - h ^ 2 * L) by ring,
      le_div_iff₀ hd]
    have := mul_le_mul_of_nonneg_left hUnE (by positivity : 0 ≤ h ^ 2 * L / 4)
    nlinarith
  have lo : h ^ 2 / 4 * c ^ 2 * q0 ≤ h ^ 2 * L / (4 - h ^ 2 * L) * (T0 + U0) := by
    rw [show h ^ 2 * L / (4 - h ^ 2 * L) * (T0 + U0) = h ^ 2 * L * (T0 + U0) / (4 - h ^ 2 * L) by ring,
      le_div_iff₀ hd]
    have h1 : h ^ 2 * L / 4 * U0 * (4 - h ^ 2 * L) ≤ h ^ 2 * L * (T0 + U0) := by
      have a1 : 0 ≤ h ^ 2 * L * T0 := mul_nonneg hθ hT0
      have a2 : 0 ≤ h ^ 2 * L * (h ^ 2 * L) * U0 := mul_nonneg (mul_nonneg hθ hθ) hU0
      nlinarith
    have := mul_le_mul_of_nonneg_right b0 hd.le
    linarith
  rw [hdiff, abs_le]
  constructor <;> linarith

/-- Cauchy–Schwarz for a positive semidefinite symmetric `K`: `(K y)ᵢ² ≤ Kᵢᵢ · yᵀ K y` -/
theorem psd_cauchy [DecidableEq ι] (hK : K.IsSymm) (hpsd : ∀ y : ι → ℝ, 0 ≤ y ⬝ᵥ K *ᵥ y)
    (y : ι → ℝ) (i : ι) : (K *ᵥ y) i ^ 2 ≤ K i i * (y ⬝ᵥ K *ᵥ y) := by
  have hquad : ∀ t : ℝ, 0 ≤ K i i * (t * t) + 2 * (K *ᵥ y) i * t + y ⬝ᵥ K *ᵥ y := by
    intro t
    have := hpsd (t • Pi.single i 1 + y)
    rw [mulVec_add, mulVec_smul, dotProduct_add, add_dotProduct, add_dotProduct, smul_dotProduct,
      smul_dotProduct, dotProduct_smul, dotProduct_smul, sym_dot hK y (Pi.single i 1),
      single_one_dotProduct, single_one_dotProduct, mulVec_single_one] at this
    simp only [smul_eq_mul, col_apply] at this
    linarith
  have := discrim_le_zero hquad
  unfold discrim at this
  nlinarith

/-- a checkable stability constant: `c² q(y) ≤ (c · tr(M⁻¹ K)) · U(y)` for PSD symmetric `K` -/
theorem stab_trace [DecidableEq ι] (hK : K.IsSymm) (hpsd : ∀ y : ι → ℝ, 0 ≤ y ⬝ᵥ K *ᵥ y)
    (hw : ∀ i, 0 ≤ w i) (y : ι → ℝ) :
    c ^ 2 * qform K w y ≤ (c * ∑ i, w i * K i i) * pot K c y := by
  unfold qform pot
  have h1 : ∑ i, w i * (K *ᵥ y) i ^ 2 ≤ ∑ i, w i * (K i i * (y ⬝ᵥ K *ᵥ y)) :=
    Finset.sum_le_sum fun i _ => mul_le_mul_of_nonneg_left (psd_cauchy hK hpsd y i) (hw i)
  have h2 : ∑ i, w i * (K i i * (y ⬝ᵥ K *ᵥ y)) = (∑ i, w i * K i i) * (y ⬝ᵥ K *ᵥ y) := by
    rw [Finset.sum_mul]; exact Finset.sum_congr rfl (fun i _ => by ring)
  rw [h2] at h1
  have := mul_le_mul_of_nonneg_left h1 (by positivity : 0 ≤ 1 / 2 * c ^ 2)
  linarith

/-! ### linearity of the acceleration and the Taylor form of the step -/

variable (K)

theorem acc_add (x y : ι → ℝ) : acc K w c (x + y) = acc K w c x + acc K w c y := by
  funext i; simp only [acc, mulVec_add, Pi.add_apply]; ring

theorem acc_smul (t : ℝ) (x : ι → ℝ) : acc K w c (t • x) = t • acc K w c x := by
  funext i; simp only [acc, mulVec_smul, Pi.smul_apply, smul_eq_mul]; ring

/-- the step is the order-2 Taylor polynomial of the exact flow of `ẋ = v, v̇ = a(x)` (for which
    `ẍ = a(x)`, `v̈ = a(v)`), plus the single extra term `(h³/4) a(a(x))` in the velocity -/
theorem step_taylor (x v : ι → ℝ) :
    stepX K w c h x v = x + h • v + (h ^ 2 / 2) • acc K w c x ∧
    stepV K w c h x v
      = v + h • acc K w c x + (h ^ 2 / 2) • acc K w c v + (h ^ 3 / 4) • acc K w c (acc K w c x) := by
  have hx : stepX K w c h x v = x + h • v + (h ^ 2 / 2) • acc K w c x := by
    funext i; simp only [stepX, Pi.add_apply, Pi.smul_apply, smul_eq_mul]; ring
  refine ⟨hx, ?_⟩
  funext i
  have : acc K w c (stepX K w c h x v) i
      = acc K w c x i + h * acc K w c v i + h ^ 2 / 2 * acc K w c (acc K w c x) i := by
    rw [hx, acc_add, acc_add, acc_smul, acc_smul]
    simp only [Pi.add_apply, Pi.smul_apply, smul_eq_mul]
  simp only [stepV, Pi.add_apply, Pi.smul_apply, smul_eq_mul]
  rw [this]; ring

/-- the step map is linear in `(x, v)` (so its Jacobian is the map itself) -/
theorem step_add (x v y u : ι → ℝ) :
    stepX K w c h (x + y) (v + u) = stepX K w c h x v + stepX K w c h y u ∧
    stepV K w c h (x + y) (v + u) = stepV K w c h x v + stepV K w c h y u := by
  rw [(step_taylor K w c h (x + y) (v + u)).1, (step_taylor K w c h (x + y) (v + u)).2,
    (step_taylor K w c h x v).1, (step_taylor K w c h x v).2,
    (step_taylor K w c h y u).1, (step_taylor K w c h y u).2]
  simp only [acc_add]
  constructor <;> module

theorem step_smul (t : ℝ) (x v : ι → ℝ) :
    stepX K w c h (t • x) (t • v) = t • stepX K w c h x v ∧
    stepV K w c h (t • x) (t • v) = t • stepV K w c h x v := by
  rw [(step_taylor K w c h (t • x) (t • v)).1, (step_taylor K w c h (t • x) (t • v)).2,
    (step_taylor K w c h x v).1, (step_taylor K w c h x v).2]
  simp only [acc_smul]
  constructor <;> module

end abstract

/-! ## bridge to the list model -/
section bridge
open Verlet MDL
variable {n : ℕ}

/-- the first `n` components of a flattened array as a vector -/
def vecOf (n : ℕ) (l : List ℝ) : Fin n → ℝ := fun i => l.getD i 0

/-- the linear force engine `F(y) = -K y` on flattened arrays of `n` entries -/
noncomputable def linForce (K : Matrix (Fin n) (Fin n) ℝ) (y : List ℝ) : List ℝ :=
  List.ofFn (fun i : Fin n => -(K *ᵥ vecOf n y) i)

theorem linForce_sized (K : Matrix (Fin n) (Fin n) ℝ) : ForceSized n (linForce K) := by
  intro y _; simp [linForce]

theorem linForce_getD (K : Matrix (Fin n) (Fin n) ℝ) (y : List ℝ) (i : Fin n) :
    (linForce K y).getD i 0 = -(K *ᵥ vecOf n y) i := by
  have hlen : (i : ℕ) < (linForce K y).length := by simp [linForce]
  rw [← List.getElem_eq_getD (h := hlen)]
  simp [linForce]

variable {K : Matrix (Fin n) (Fin n) ℝ} {minv : List ℝ} {s : State ℝ} (ACC dt : ℝ)

/-- the stored acceleration of a consistent state is the abstract `acc` -/
theorem accOf_vec (hs : Sized n s) (hm : minv.length = n) (hinv : AccOf (linForce K) ACC minv s) :
    vecOf n s.a = acc K (vecOf n minv) ACC (vecOf n s.x) := by
  funext i
  show s.a.getD i 0 = _
  rw [hinv, accel_getD _ _ _ (by rw [linForce_sized K _ hs.1, hm]), linForce_getD]
  rfl

/-- one `vvStep` with the linear force is the abstract `(stepX, stepV)` on the vectors -/
theorem vvStep_vec (hs : Sized n s) (hm : minv.length = n) (hinv : AccOf (linForce K) ACC minv s) :
    vecOf n (vvStep (linForce K) ACC dt minv s).x
        = stepX K (vecOf n minv) ACC dt (vecOf n s.x) (vecOf n s.v) ∧
    vecOf n (vvStep (linForce K) ACC dt minv s).v
        = stepV K (vecOf n minv) ACC dt (vecOf n s.x) (vecOf n s.v) := by
  have hF := linForce_sized K
  have ha := accOf_vec ACC hs hm hinv
  have ha' := accOf_vec ACC (vvStep_sized ACC dt hs hm hF) hm
    (vvStep_accOf (force := linForce K) (minv := minv) (s := s) ACC dt)
  have hx : vecOf n (vvStep (linForce K) ACC dt minv s).x
      = stepX K (vecOf n minv) ACC dt (vecOf n s.x) (vecOf n s.v) := by
    funext i
    show (vvStep (linForce K) ACC dt minv s).x.getD i 0 = _
    rw [vvStep_x_getD ACC dt hs]
    have : s.a.getD i 0 = acc K (vecOf n minv) ACC (vecOf n s.x) i := congrFun ha i
    rw [this]
    simp only [stepX, vecOf]; ring
  refine ⟨hx, ?_⟩
  funext i
  show (vvStep (linForce K) ACC dt minv s).v.getD i 0 = _
  rw [vvStep_v_getD ACC dt hs hm hF]
  have h0 : s.a.getD i 0 = acc K (vecOf n minv) ACC (vecOf n s.x) i := congrFun ha i
  have h1 : (vvStep (linForce K) ACC dt minv s).a.getD i 0
      = acc K (vecOf n minv) ACC (vecOf n (vvStep (linForce K) ACC dt minv s).x) i := congrFun ha' i
  rw [h0, h1, hx]
  simp only [stepV, vecOf]; ring

/-- `k` model steps are `k` abstract steps -/
theorem vvRun_vec (hm : minv.length = n) (k : ℕ) (hs : Sized n s)
    (hinv : AccOf (linForce K) ACC minv s) :
    (vecOf n (vvRun (linForce K) ACC dt minv k s).x, vecOf n (vvRun (linForce K) ACC dt minv k s).v)
      = iter K (vecOf n minv) ACC dt k (vecOf n s.x, vecOf n s.v) := by
  induction k with
  | zero => rfl
  | succ k ih =>
    have hsk := vvRun_sized ACC dt hm (linForce_sized K) k hs
    have hik := vvRun_accOf ACC dt k hinv
    obtain ⟨ex, ev⟩ := vvStep_vec ACC dt hsk hm hik
    show (vecOf n (vvStep (linForce K) ACC dt minv (vvRun (linForce K) ACC dt minv k s)).x,
          vecOf n (vvStep (linForce K) ACC dt minv (vvRun (linForce K) ACC dt minv k s)).v) = _
    rw [ex, ev]
    simp only [iter, ← ih]

end bridge

end
end HarmonicND
