import PyseqmVerif.Model.ScfControl
import Mathlib.Algebra.Order.Field.Basic
import Mathlib.Algebra.BigOperators.Group.List.Basic
import Mathlib.Algebra.Order.AbsoluteValue.Basic
import Mathlib.Tactic.Linarith
import Mathlib.Tactic.Ring
import Mathlib.Tactic.NormNum
import Mathlib.Tactic.NormNum.OfScientific

/-! Helper lemmas about the model of `scf_loop.adaptive_mix` over a linear ordered field. -/
namespace ScfControl
set_option linter.unusedSectionVars false

variable {K : Type} [Field K] [LinearOrder K] [IsStrictOrderedRing K]

theorem lsum_eq_sum (xs : List K) : lsum xs = xs.sum := by
  unfold lsum; rw [List.sum_eq_foldl]

theorem clamp_id {lo hi x : K} (h0 : lo ≤ x) (h1 : x ≤ hi) : clamp lo hi x = x := by
  unfold clamp
  simp [not_lt.mpr h0, not_lt.mpr h1]

theorem occNumber_eq (u : Bool) : (occNumber u : K) = if u then 1 else 2 := by
  unfold occNumber; cases u <;> norm_num

theorem damp_pos (it : Nat) : (0 : K) < damp it := by
  unfold damp; split_ifs <;> norm_num

/-- `P_prev = P_cur`: no extrapolation, no cap; the clamp is the identity on an admissible diagonal -/
theorem mixDiag0_self (sign : K → K) (dmp occ fac : K) (d : List K) (hd : 0 < dmp)
    (hadm : ∀ x ∈ d, 0 ≤ x ∧ x ≤ occ) :
    mixDiag0 (fun x => |x|) sign dmp occ fac d d = d := by
  unfold mixDiag0
  induction d with
  | nil => rfl
  | cons x xs ih =>
    have hx := hadm x (List.mem_cons_self ..)
    rw [List.zipWith_cons_cons, ih (fun y hy => hadm y (List.mem_cons_of_mem _ hy))]
    congr 1
    have h0 : (0.0 : K) = 0 := by norm_num
    simp only [sub_self, abs_zero, not_lt.mpr (le_of_lt hd), if_false, mul_zero, add_zero, h0]
    exact clamp_id hx.1 hx.2

theorem mixOff_self (it : Nat) (fac : K) (P : Nat → Nat → K) (i j : Nat) :
    mixOff it fac P P i j = P i j := by
  unfold mixOff
  split_ifs
  · have h1 : (1.0 : K) = 1 := by norm_num
    rw [h1]; ring
  · rfl

theorem lsum_map_zero (xs : List K) (f : K → K) (h : ∀ x ∈ xs, f x = 0) : lsum (xs.map f) = 0 := by
  rw [lsum_eq_sum]
  apply List.sum_eq_zero
  intro y hy
  obtain ⟨x, hx, rfl⟩ := List.mem_map.mp hy
  exact h x hx

theorem map_id_of (xs : List K) (f : K → K) (h : ∀ x ∈ xs, f x = x) : xs.map f = xs := by
  conv_rhs => rw [← List.map_id xs]
  exact List.map_congr_left h

/-- a normalised admissible diagonal with `Σ > 1e-3` is a fixed point of the scaling round -/
theorem renormRound_fixed (occ : K) (d : List K) (hadm : ∀ x ∈ d, 0 ≤ x ∧ x ≤ occ)
    (hlarge : (1/1000 : K) < d.sum) :
    renormRound occ { sum0 := lsum d, di := d } = { sum0 := lsum d, di := d } := by
  have hl : (1.0e-3 : K) < lsum d := by rw [lsum_eq_sum]; norm_num; linarith
  have hne : lsum d ≠ 0 := by
    rw [lsum_eq_sum]; intro h; rw [h] at hlarge; norm_num at hlarge
  have hscaled : d.map (fun x => let y := x * (lsum d / lsum d); if y < (0.0:K) then 0.0 else y) = d := by
    apply map_id_of
    intro x hx
    have h0 : (0.0 : K) = 0 := by norm_num
    simp only [div_self hne, mul_one, h0, not_lt.mpr (hadm x hx).1, if_false]
  have hfull : lsum (d.map fun y => if occ < y then (1 : K) else 0) = 0 := by
    apply lsum_map_zero
    intro x hx
    simp [not_lt.mpr (hadm x hx).2]
  have hdi : d.map (fun y => if occ < y then occ else y) = d := by
    apply map_id_of
    intro x hx
    simp [not_lt.mpr (hadm x hx).2]
  unfold renormRound
  simp only [hl, decide_true, if_true, hscaled, hfull, hdi, zero_mul, sub_zero]

theorem renormLoop_of_fixed (occ : K) (othersDone : Nat → Bool) (r : Renorm K)
    (h : renormRound occ r = r) :
    ∀ fuel rd, renormLoop (fun x => |x|) occ othersDone fuel rd r = r.di := by
  intro fuel
  induction fuel with
  | zero => intro rd; rfl
  | succ fuel ih =>
    intro rd
    unfold renormLoop
    split_ifs
    · rfl
    · rw [h]; exact ih (rd+1)

/-- a diagonal whose `SUM0` equals its own sum is `done` -/
theorem renormDone_self (d : List K) : renormDone (fun x => |x|) { sum0 := lsum d, di := d } = true := by
  unfold renormDone
  by_cases hl : (1.0e-3 : K) < lsum d
  · have hne : lsum d ≠ 0 := by
      intro h; rw [h] at hl; norm_num at hl
    have h1 : (1.0 : K) = 1 := by norm_num
    simp only [hl, decide_true, if_true, div_self hne, h1, sub_self, abs_zero, Bool.not_true,
      Bool.false_or, decide_eq_true_eq]
    norm_num
  · simp [hl]

theorem renormLoop_exit0 (occ : K) (othersDone : Nat → Bool) (d : List K) (fuel : Nat)
    (h : othersDone 0 = true) :
    renormLoop (fun x => |x|) occ othersDone (fuel+1) 0 { sum0 := lsum d, di := d } = d := by
  unfold renormLoop
  simp [renormDone_self d, h]

theorem getD_diagOf (n : Nat) (P : Nat → Nat → K) (i : Nat) (hi : i < n) :
    (diagOf n P).getD i 0 = P i i := by
  unfold diagOf
  simp [List.getD, hi]

theorem mem_diagOf (n : Nat) (P : Nat → Nat → K) (x : K) (hx : x ∈ diagOf n P) :
    ∃ i, i < n ∧ x = P i i := by
  unfold diagOf at hx
  obtain ⟨i, hi, rfl⟩ := List.mem_map.mp hx
  exact ⟨i, List.mem_range.mp hi, rfl⟩

end ScfControl
