import Mathlib.Algebra.BigOperators.Group.Finset.Basic
import Mathlib.Algebra.BigOperators.Group.List.Basic
import Mathlib.Data.Real.Basic
import Mathlib.Tactic.Ring
import Mathlib.Tactic.NormNum
import Mathlib.Tactic.Linarith
import Mathlib.Tactic.Module
import Mathlib.Tactic.FinCases
import Mathlib.LinearAlgebra.CrossProduct
import Mathlib.Algebra.BigOperators.Ring.Finset
import PyseqmVerif.Model.Verlet
/-!
# Helper lemmas for C08 / C12 / C13: list sums and component access of the `Verlet` model at `ℝ`

Convention: component `i` of a list is `l.getD i 0`; the model's zips and maps preserve `0`, so
component formulas hold for every index once the lengths agree.
-/

open Finset
namespace MDL

theorem half_eq : (0.5 : ℝ) = 1 / 2 := by norm_num

theorem getD_default (l : List ℝ) (i : ℕ) (h : l.length ≤ i) : l.getD i 0 = 0 := by
  simp [List.getD_eq_getElem?_getD, List.getElem?_eq_none h]

theorem foldl_add (l : List ℝ) (a : ℝ) : l.foldl (· + ·) a = a + l.sum := by
  induction l generalizing a with
  | nil => simp
  | cons b l ih => simp [ih, add_assoc]

theorem lsum_eq_sum (l : List ℝ) : Verlet.lsum l = l.sum := by
  unfold Verlet.lsum
  rw [foldl_add]; simp

theorem sum_eq_range (l : List ℝ) : l.sum = ∑ i ∈ range l.length, l.getD i 0 := by
  induction l with
  | nil => simp
  | cons a l ih =>
    rw [List.length_cons, Finset.sum_range_succ', List.sum_cons, ih]
    simp [add_comm]

theorem lsum_eq_range (l : List ℝ) (n : ℕ) (h : l.length = n) :
    Verlet.lsum l = ∑ i ∈ range n, l.getD i 0 := by
  subst h; rw [lsum_eq_sum, sum_eq_range]

theorem getD_zipWith {β γ δ : Type} (f : β → γ → δ) (l : List β) (l' : List γ) (i : ℕ)
    (d : β) (d' : γ) (d'' : δ) (h : i < l.length) (h' : i < l'.length) :
    (List.zipWith f l l').getD i d'' = f (l.getD i d) (l'.getD i d') := by
  simp [List.getD_eq_getElem?_getD, List.getElem?_zipWith, List.getElem?_eq_getElem h, List.getElem?_eq_getElem h']

theorem getD_map {β γ : Type} (f : β → γ) (l : List β) (i : ℕ) (d : β) (d' : γ) (h : i < l.length) :
    (l.map f).getD i d' = f (l.getD i d) := by
  simp [List.getD_eq_getElem?_getD, List.getElem?_eq_getElem h]

/-- zero-preserving version: no bound on the index needed -/
theorem getD_zipWith₀ (f : ℝ → ℝ → ℝ) (hf : f 0 0 = 0) (l l' : List ℝ) (h : l.length = l'.length) (i : ℕ) :
    (List.zipWith f l l').getD i 0 = f (l.getD i 0) (l'.getD i 0) := by
  by_cases hi : i < l.length
  · exact getD_zipWith f l l' i 0 0 0 hi (h ▸ hi)
  · have h1 : l.length ≤ i := Nat.le_of_not_lt hi
    have h2 : l'.length ≤ i := h ▸ h1
    have h3 : (List.zipWith f l l').length ≤ i := by simp; omega
    rw [getD_default _ _ h1, getD_default _ _ h2, getD_default _ _ h3, hf]

theorem getD_map₀ (f : ℝ → ℝ) (hf : f 0 = 0) (l : List ℝ) (i : ℕ) :
    (l.map f).getD i 0 = f (l.getD i 0) := by
  by_cases hi : i < l.length
  · exact getD_map f l i 0 0 hi
  · have h1 : l.length ≤ i := Nat.le_of_not_lt hi
    have h3 : (l.map f).length ≤ i := by simpa using h1
    rw [getD_default _ _ h1, getD_default _ _ h3, hf]

theorem ext_getD (l l' : List ℝ) (h : l.length = l'.length) (hi : ∀ i, l.getD i 0 = l'.getD i 0) : l = l' := by
  apply List.ext_getElem h
  intro i h1 h2
  have := hi i
  rwa [← List.getElem_eq_getD (h := h1), ← List.getElem_eq_getD (h := h2)] at this

end MDL

namespace Verlet
open MDL

/-- all three arrays of the state have `n` entries -/
def Sized (n : ℕ) (s : State ℝ) : Prop := s.x.length = n ∧ s.v.length = n ∧ s.a.length = n

/-- the force engine returns one entry per coordinate -/
def ForceSized (n : ℕ) (force : List ℝ → List ℝ) : Prop := ∀ y, y.length = n → (force y).length = n

@[simp] theorem halfKick_length (dt : ℝ) (v a : List ℝ) : (halfKick dt v a).length = min v.length a.length := by
  simp [halfKick]
@[simp] theorem drift_length (dt : ℝ) (x v : List ℝ) : (drift dt x v).length = min x.length v.length := by
  simp [drift]
@[simp] theorem accel_length (c : ℝ) (f m : List ℝ) : (accel c f m).length = min f.length m.length := by
  simp [accel]

theorem halfKick_getD (dt : ℝ) (v a : List ℝ) (h : v.length = a.length) (i : ℕ) :
    (halfKick dt v a).getD i 0 = v.getD i 0 + 1 / 2 * a.getD i 0 * dt := by
  unfold halfKick
  rw [getD_zipWith₀ _ (by norm_num) v a h, half_eq]

theorem drift_getD (dt : ℝ) (x v : List ℝ) (h : x.length = v.length) (i : ℕ) :
    (drift dt x v).getD i 0 = x.getD i 0 + v.getD i 0 * dt := by
  unfold drift
  rw [getD_zipWith₀ _ (by norm_num) x v h]

theorem accel_getD (c : ℝ) (f m : List ℝ) (h : f.length = m.length) (i : ℕ) :
    (accel c f m).getD i 0 = f.getD i 0 * m.getD i 0 * c := by
  unfold accel
  rw [getD_zipWith₀ _ (by norm_num) f m h]

section step
variable {n : ℕ} {force : List ℝ → List ℝ} {minv : List ℝ} {s : State ℝ} (ACC dt : ℝ)

theorem vvStep_x_length (hs : Sized n s) : (vvStep force ACC dt minv s).x.length = n := by
  obtain ⟨hx, hv, ha⟩ := hs
  simp [vvStep, hx, hv, ha]

theorem vvStep_sized (hs : Sized n s) (hm : minv.length = n) (hF : ForceSized n force) :
    Sized n (vvStep force ACC dt minv s) := by
  have hx' := vvStep_x_length (force := force) (minv := minv) ACC dt hs
  obtain ⟨hx, hv, ha⟩ := hs
  have hf := hF _ hx'
  refine ⟨hx', ?_, ?_⟩
  · simp only [vvStep] at hf ⊢; simp [hf, hm, hv, ha]
  · simp only [vvStep] at hf ⊢; simp [hf, hm]

theorem vvStep_x_getD (hs : Sized n s) (i : ℕ) :
    (vvStep force ACC dt minv s).x.getD i 0
      = s.x.getD i 0 + (s.v.getD i 0 + 1 / 2 * s.a.getD i 0 * dt) * dt := by
  obtain ⟨hx, hv, ha⟩ := hs
  simp only [vvStep]
  rw [drift_getD _ _ _ (by simp [hx, hv, ha]), halfKick_getD _ _ _ (by rw [hv, ha])]

theorem vvStep_a_getD (hs : Sized n s) (hm : minv.length = n) (hF : ForceSized n force) (i : ℕ) :
    (vvStep force ACC dt minv s).a.getD i 0
      = (force (vvStep force ACC dt minv s).x).getD i 0 * minv.getD i 0 * ACC := by
  have hf := hF _ (vvStep_x_length (force := force) (minv := minv) ACC dt hs)
  simp only [vvStep] at hf ⊢
  rw [accel_getD _ _ _ (by rw [hf, hm])]

theorem vvStep_v_getD (hs : Sized n s) (hm : minv.length = n) (hF : ForceSized n force) (i : ℕ) :
    (vvStep force ACC dt minv s).v.getD i 0
      = s.v.getD i 0 + 1 / 2 * s.a.getD i 0 * dt
        + 1 / 2 * (vvStep force ACC dt minv s).a.getD i 0 * dt := by
  have hf := hF _ (vvStep_x_length (force := force) (minv := minv) ACC dt hs)
  obtain ⟨hx, hv, ha⟩ := hs
  simp only [vvStep] at hf ⊢
  rw [halfKick_getD _ _ _ (by simp [hf, hm, hv, ha]), halfKick_getD _ _ _ (by rw [hv, ha])]

end step

/-! ## specification-level definitions used by `Properties/C08` and their helper lemmas -/
section spec
variable {n : ℕ} {force : List ℝ → List ℝ} {minv : List ℝ} {s : State ℝ} (ACC dt : ℝ)

/-- velocity reversal -/
def flipV (s : State ℝ) : State ℝ := { s with v := s.v.map (fun vi => -vi) }

theorem flipV_v_getD (s : State ℝ) (i : ℕ) : (flipV s).v.getD i 0 = - s.v.getD i 0 := by
  unfold flipV; exact getD_map₀ _ (by norm_num) _ _

theorem flipV_sized (hs : Sized n s) : Sized n (flipV s) := by
  obtain ⟨hx, hv, ha⟩ := hs
  exact ⟨hx, by simp [flipV, hv], ha⟩

theorem flipV_flipV (s : State ℝ) : flipV (flipV s) = s := by
  cases s; simp [flipV]

/-- the stored acceleration is the one of the stored coordinates -/
def AccOf (force : List ℝ → List ℝ) (ACC : ℝ) (minv : List ℝ) (s : State ℝ) : Prop :=
  s.a = accel ACC (force s.x) minv

theorem vvStep_accOf : AccOf force ACC minv (vvStep force ACC dt minv s) := rfl

theorem flipV_accOf (h : AccOf force ACC minv s) : AccOf force ACC minv (flipV s) := h

/-! ### n steps -/

theorem vvRun_succ' (k : ℕ) (s : State ℝ) :
    vvRun force ACC dt minv (k + 1) s = vvRun force ACC dt minv k (vvStep force ACC dt minv s) := by
  induction k with
  | zero => rfl
  | succ k ih =>
    show vvStep force ACC dt minv (vvRun force ACC dt minv (k + 1) s) = _
    rw [ih]; rfl

theorem vvRun_sized (hm : minv.length = n) (hF : ForceSized n force) (k : ℕ) (hs : Sized n s) :
    Sized n (vvRun force ACC dt minv k s) := by
  induction k with
  | zero => exact hs
  | succ k ih => exact vvStep_sized ACC dt ih hm hF

theorem vvRun_accOf (k : ℕ) (h : AccOf force ACC minv s) :
    AccOf force ACC minv (vvRun force ACC dt minv k s) := by
  cases k with
  | zero => exact h
  | succ k => exact vvStep_accOf ACC dt

/-- Cartesian component `c` (`0,1,2`) of the total linear momentum of `N` atoms, flattened layout -/
noncomputable def linMom (N c : ℕ) (m v : List ℝ) : ℝ :=
  ∑ i ∈ range N, m.getD (3 * i + c) 0 * v.getD (3 * i + c) 0

/-- Cartesian component `c` of the net force on the real (mass ≠ 0) atoms -/
noncomputable def netForce (N c : ℕ) (m f : List ℝ) : ℝ :=
  ∑ i ∈ range N, (if m.getD (3 * i + c) 0 = 0 then 0 else f.getD (3 * i + c) 0)

/-! ### angular momentum -/
open Matrix

/-- the 3-vector of atom `i` of a flattened component function -/
def vec3f (g : ℕ → ℝ) (i : ℕ) : Fin 3 → ℝ := ![g (3 * i), g (3 * i + 1), g (3 * i + 2)]

/-- the 3-vector of atom `i` in a flattened array -/
def vec3 (l : List ℝ) (i : ℕ) : Fin 3 → ℝ := vec3f (fun k => l.getD k 0) i

theorem vec3f_add (g h : ℕ → ℝ) (i : ℕ) : vec3f (fun k => g k + h k) i = vec3f g i + vec3f h i := by
  ext j; fin_cases j <;> simp [vec3f]

theorem vec3f_smul (c : ℝ) (g : ℕ → ℝ) (i : ℕ) : vec3f (fun k => c * g k) i = c • vec3f g i := by
  ext j; fin_cases j <;> simp [vec3f]

theorem vec3f_congr (g h : ℕ → ℝ) (i : ℕ) (h0 : g (3 * i) = h (3 * i)) (h1 : g (3 * i + 1) = h (3 * i + 1))
    (h2 : g (3 * i + 2) = h (3 * i + 2)) : vec3f g i = vec3f h i := by
  unfold vec3f; rw [h0, h1, h2]

/-- total angular momentum `Σ mᵢ xᵢ × vᵢ` (the mass of atom `i` is read at its first component) -/
noncomputable def angMomFlat (N : ℕ) (m x v : List ℝ) : Fin 3 → ℝ :=
  ∑ i ∈ range N, m.getD (3 * i) 0 • (vec3 x i ⨯₃ vec3 v i)

/-- net torque `Σ xᵢ × Fᵢ` on the real (mass ≠ 0) atoms -/
noncomputable def netTorque (N : ℕ) (m x f : List ℝ) : Fin 3 → ℝ :=
  ∑ i ∈ range N, (if m.getD (3 * i) 0 = 0 then 0 else vec3 x i ⨯₃ vec3 f i)

theorem cross_expand (x v a a' : Fin 3 → ℝ) (dt : ℝ) :
    (x + dt • (v + (dt / 2) • a)) ⨯₃ ((v + (dt / 2) • a) + (dt / 2) • a')
      = x ⨯₃ v + (dt / 2) • (x ⨯₃ a) + (dt / 2) • ((x + dt • (v + (dt / 2) • a)) ⨯₃ a') := by
  have h0 : (v + (dt / 2) • a) ⨯₃ (v + (dt / 2) • a) = 0 := cross_self _
  have e1 : (x + dt • (v + (dt / 2) • a)) ⨯₃ ((v + (dt / 2) • a) + (dt / 2) • a')
      = x ⨯₃ (v + (dt / 2) • a) + dt • ((v + (dt / 2) • a) ⨯₃ (v + (dt / 2) • a))
        + (dt / 2) • ((x + dt • (v + (dt / 2) • a)) ⨯₃ a') := by
    simp only [map_add, LinearMap.add_apply, map_smul, LinearMap.smul_apply]
    module
  rw [e1, h0]
  simp only [map_add, map_smul]
  module

theorem vec3_step_x (hs : Sized n s) (i : ℕ) :
    vec3 (vvStep force ACC dt minv s).x i
      = vec3 s.x i + dt • (vec3 s.v i + (dt / 2) • vec3 s.a i) := by
  unfold vec3
  have : (fun k => (vvStep force ACC dt minv s).x.getD k 0)
      = fun k => s.x.getD k 0 + dt * (s.v.getD k 0 + dt / 2 * s.a.getD k 0) := by
    funext k; rw [vvStep_x_getD ACC dt hs]; ring
  rw [this, vec3f_add, vec3f_smul, vec3f_add, vec3f_smul]

theorem vec3_step_v (hs : Sized n s) (hm : minv.length = n) (hF : ForceSized n force) (i : ℕ) :
    vec3 (vvStep force ACC dt minv s).v i
      = (vec3 s.v i + (dt / 2) • vec3 s.a i) + (dt / 2) • vec3 (vvStep force ACC dt minv s).a i := by
  unfold vec3
  have : (fun k => (vvStep force ACC dt minv s).v.getD k 0)
      = fun k => (s.v.getD k 0 + dt / 2 * s.a.getD k 0)
          + dt / 2 * (vvStep force ACC dt minv s).a.getD k 0 := by
    funext k; rw [vvStep_v_getD ACC dt hs hm hF]; ring
  rw [this, vec3f_add, vec3f_add, vec3f_smul, vec3f_smul]

/-- `acc = force * mass_inverse * ACC` per atom, when `mass_inverse` is replicated over the 3 components -/
theorem vec3_accel (f : List ℝ) (hf : f.length = minv.length) (i : ℕ)
    (hrep : minv.getD (3 * i + 1) 0 = minv.getD (3 * i) 0 ∧ minv.getD (3 * i + 2) 0 = minv.getD (3 * i) 0) :
    vec3 (accel ACC f minv) i = (minv.getD (3 * i) 0 * ACC) • vec3 f i := by
  unfold vec3
  rw [← vec3f_smul]
  apply vec3f_congr
  · rw [accel_getD ACC f minv hf]; ring
  · rw [accel_getD ACC f minv hf, hrep.1]; ring
  · rw [accel_getD ACC f minv hf, hrep.2]; ring

/-! ### harmonic oscillator: the shadow Hamiltonian -/

/-- `F = -k x`, componentwise (independent 1-D oscillators) -/
def harmonicForce (k : ℝ) (y : List ℝ) : List ℝ := y.map (fun yi => -k * yi)

theorem harmonicForce_sized (k : ℝ) (n : ℕ) : ForceSized n (harmonicForce k) := by
  intro y hy; simp [harmonicForce, hy]

/-- shadow energy of one unit-mass oscillator of squared frequency `w2 = k·ACC` -/
noncomputable def shadow (w2 dt x v : ℝ) : ℝ := 1 / 2 * v ^ 2 + 1 / 2 * w2 * x ^ 2 * (1 - w2 * dt ^ 2 / 4)

/-! ### thermodynamic output -/

theorem kineticEnergy_closed (kes : ℝ) (m v : List ℝ) (h : m.length = v.length) :
    kineticEnergy kes m v = (1 / 2 * ∑ i ∈ range v.length, m.getD i 0 * v.getD i 0 ^ 2) * kes := by
  unfold kineticEnergy
  rw [lsum_eq_range _ v.length (by simp [h]), Finset.mul_sum]
  congr 1
  apply Finset.sum_congr rfl
  intro i _
  rw [getD_zipWith₀ _ (by norm_num) m v h, half_eq]; ring

end spec
end Verlet
