import PyseqmVerif.Proofs.MDLemmas
import PyseqmVerif.Model.Langevin
import Mathlib.Analysis.SpecialFunctions.Exp
import Mathlib.Analysis.SpecialFunctions.Sqrt
import Mathlib.Analysis.SpecialFunctions.Pow.Real
import Mathlib.Tactic.Positivity
/-!
# Helper lemmas for C12: the Langevin coefficients of `Model/Langevin.lean` at `ℝ`
(`exp = Real.exp`, `expm1 = expm1R`, `sqrt = Real.sqrt`)
-/

namespace Langevin
open Verlet MDL Finset

/-- `expm1` over the reals -/
noncomputable def expm1R (x : ℝ) : ℝ := Real.exp x - 1

theorem langevinS_eq (dt τ : ℝ) : langevinS dt τ = -(dt / τ) := by
  unfold langevinS; ring

theorem langevinC1_eq (dt τ : ℝ) : langevinC1 Real.exp dt τ = Real.exp (-(dt / τ) / 2) := by
  unfold langevinC1; rw [langevinS_eq, half_eq]; congr 1; ring

theorem langevinC1_sq (dt τ : ℝ) : langevinC1 Real.exp dt τ ^ 2 = Real.exp (-(dt / τ)) := by
  rw [langevinC1_eq, sq, ← Real.exp_add]; congr 1; ring

theorem oneMinusE_eq (dt τ : ℝ) : oneMinusE expm1R dt τ = 1 - Real.exp (-(dt / τ)) := by
  unfold oneMinusE expm1R; rw [langevinS_eq]; ring

theorem oneMinusE_nonneg (dt τ : ℝ) (hdt : 0 ≤ dt) (hτ : 0 ≤ τ) : 0 ≤ oneMinusE expm1R dt τ := by
  rw [oneMinusE_eq, sub_nonneg, Real.exp_le_one_iff]
  have := div_nonneg hdt hτ
  linarith

theorem langevinC1_pos (dt τ : ℝ) : 0 < langevinC1 Real.exp dt τ := by
  rw [langevinC1_eq]; exact Real.exp_pos _

theorem langevinC1_le_one (dt τ : ℝ) (hdt : 0 ≤ dt) (hτ : 0 ≤ τ) : langevinC1 Real.exp dt τ ≤ 1 := by
  rw [langevinC1_eq, Real.exp_le_one_iff]
  have := div_nonneg hdt hτ
  linarith

theorem langevinC1_lt_one (dt τ : ℝ) (hdt : 0 < dt) (hτ : 0 < τ) : langevinC1 Real.exp dt τ < 1 := by
  rw [langevinC1_eq, Real.exp_lt_one_iff]
  have := div_pos hdt hτ
  linarith

theorem langevinC2s_sq (dt τ T VEL mi : ℝ) (hdt : 0 ≤ dt) (hτ : 0 ≤ τ) (hT : 0 ≤ T) (hm : 0 ≤ mi) :
    langevinC2s expm1R Real.sqrt dt τ T VEL mi ^ 2 = (1 - Real.exp (-(dt / τ))) * T * mi * VEL ^ 2 := by
  unfold langevinC2s
  rw [mul_pow, Real.sq_sqrt (mul_nonneg (mul_nonneg (oneMinusE_nonneg dt τ hdt hτ) hT) hm), oneMinusE_eq]

theorem langevinC2_length (expm1 sqrt : ℝ → ℝ) (dt τ T VEL : ℝ) (minv : List ℝ) :
    (langevinC2 expm1 sqrt dt τ T VEL minv).length = minv.length := by
  simp [langevinC2]

theorem langevinC2_getD (dt τ T VEL : ℝ) (minv : List ℝ) (i : ℕ) :
    (langevinC2 expm1R Real.sqrt dt τ T VEL minv).getD i 0
      = langevinC2s expm1R Real.sqrt dt τ T VEL (minv.getD i 0) := by
  unfold langevinC2
  exact getD_map₀ _ (by simp [langevinC2s]) _ _

theorem thermostat_length (c1 : ℝ) (c2 v xi : List ℝ) :
    (thermostat c1 c2 v xi).length = min v.length (min c2.length xi.length) := by
  simp [thermostat]

theorem thermostat_getD (c1 : ℝ) (c2 v xi : List ℝ) (h2 : c2.length = v.length) (hxi : xi.length = v.length)
    (i : ℕ) : (thermostat c1 c2 v xi).getD i 0 = v.getD i 0 * c1 + c2.getD i 0 * xi.getD i 0 := by
  unfold thermostat
  rw [getD_zipWith₀ _ (by norm_num) _ _ (by simp [h2, hxi]), getD_map₀ _ (by norm_num),
    getD_zipWith₀ _ (by norm_num) _ _ (by rw [h2, hxi])]

theorem replicate_getD (n i : ℕ) : (List.replicate n (0 : ℝ)).getD i 0 = 0 := by
  by_cases h : i < n
  · simp [List.getD_eq_getElem?_getD, h]
  · exact getD_default _ _ (by simp; omega)

theorem thermostat_one_zero (v xi : List ℝ) (hxi : xi.length = v.length) :
    thermostat 1 (List.replicate v.length 0) v xi = v := by
  apply ext_getD _ _ (by simp [thermostat_length, hxi])
  intro i
  rw [thermostat_getD _ _ _ _ (by simp) hxi, replicate_getD]; ring

section step
variable {n : ℕ} {force : List ℝ → List ℝ} {minv : List ℝ} {s : State ℝ} (ACC dt : ℝ)

theorem thermostat_sized (c1 : ℝ) (c2 xi : List ℝ) (hs : Sized n s) (h2 : c2.length = n) (hxi : xi.length = n) :
    Sized n { s with v := thermostat c1 c2 s.v xi } := by
  obtain ⟨hx, hv, ha⟩ := hs
  exact ⟨hx, by simp [thermostat_length, hv, h2, hxi], ha⟩

end step

/-- variance of `v * c1 + c2 * ξ` when `v` has variance `s` and `ξ ~ N(0,1)` is independent -/
def varMap (c1 c2 s : ℝ) : ℝ := c1 ^ 2 * s + c2 ^ 2

theorem varMap_iterate (c1 c2 σ2 : ℝ) (hfix : varMap c1 c2 σ2 = σ2) (s0 : ℝ) (k : ℕ) :
    (varMap c1 c2)^[k] s0 - σ2 = c1 ^ (2 * k) * (s0 - σ2) := by
  induction k with
  | zero => simp
  | succ k ih =>
    rw [Function.iterate_succ_apply']
    have : varMap c1 c2 ((varMap c1 c2)^[k] s0) - σ2 = c1 ^ 2 * ((varMap c1 c2)^[k] s0 - σ2) := by
      unfold varMap at hfix ⊢; linarith
    rw [this, ih]; ring

end Langevin
