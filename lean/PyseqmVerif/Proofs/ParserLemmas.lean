import PyseqmVerif.Model.Parser
import Mathlib.Data.List.Nodup
import Mathlib.Data.List.Perm.Basic
import Mathlib.Tactic.Ring
/-!
# Lemmas about the `Parser.forward` model (used by C05, C19)
-/
namespace Parser

/-! ## list helpers -/

theorem range_mul (n k : Nat) :
    List.range (n * k) = (List.range n).flatMap (fun i => (List.range k).map (fun j => i * k + j)) := by
  induction n with
  | zero => simp
  | succ n ih =>
    rw [Nat.succ_mul, List.range_add, ih, List.range_succ, List.flatMap_append]
    simp

theorem filterMap_congr' {α β : Type} (f g : α → Option β) (l : List α) (h : ∀ x ∈ l, f x = g x) :
    l.filterMap f = l.filterMap g := by
  induction l with
  | nil => rfl
  | cons a l ih =>
    have ha := h a (List.mem_cons_self)
    have ih' := ih (fun x hx => h x (List.mem_cons_of_mem _ hx))
    simp only [List.filterMap_cons, ha, ih']

theorem filter_congr' {α : Type} (p q : α → Bool) (l : List α) (h : ∀ x ∈ l, p x = q x) :
    l.filter p = l.filter q := by
  induction l with
  | nil => rfl
  | cons a l ih =>
    have ha := h a (List.mem_cons_self)
    have ih' := ih (fun x hx => h x (List.mem_cons_of_mem _ hx))
    simp only [List.filter_cons, ha, ih']

theorem flatMap_congr' {α β : Type} (f g : α → List β) (l : List α) (h : ∀ x ∈ l, f x = g x) :
    l.flatMap f = l.flatMap g := by
  induction l with
  | nil => rfl
  | cons a l ih =>
    have ha := h a (List.mem_cons_self)
    have ih' := ih (fun x hx => h x (List.mem_cons_of_mem _ hx))
    simp only [List.flatMap_cons, ha, ih']

/-- trailing elements that are all rejected do not matter -/
theorem filterMap_range_add {β : Type} (f : Nat → Option β) (n k : Nat)
    (h : ∀ x, n ≤ x → x < n + k → f x = none) :
    (List.range (n + k)).filterMap f = (List.range n).filterMap f := by
  rw [List.range_add, List.filterMap_append]
  have : ((List.range k).map (fun x => n + x)).filterMap f = [] := by
    rw [List.filterMap_eq_nil_iff]
    intro x hx
    obtain ⟨y, hy, rfl⟩ := List.mem_map.mp hx
    exact h _ (Nat.le_add_right _ _) (Nat.add_lt_add_left (List.mem_range.mp hy) _)
  rw [this, List.append_nil]

theorem filter_range_add (p : Nat → Bool) (n k : Nat)
    (h : ∀ x, n ≤ x → x < n + k → p x = false) :
    (List.range (n + k)).filter p = (List.range n).filter p := by
  rw [List.range_add, List.filter_append]
  have : ((List.range k).map (fun x => n + x)).filter p = [] := by
    rw [List.filter_eq_nil_iff]
    intro x hx
    obtain ⟨y, hy, rfl⟩ := List.mem_map.mp hx
    simp [h _ (Nat.le_add_right _ _) (Nat.add_lt_add_left (List.mem_range.mp hy) _)]
  rw [this, List.append_nil]

theorem flatMap_range_add {β : Type} (f : Nat → List β) (n k : Nat)
    (h : ∀ x, n ≤ x → x < n + k → f x = []) :
    (List.range (n + k)).flatMap f = (List.range n).flatMap f := by
  rw [List.range_add, List.flatMap_append]
  have : ((List.range k).map (fun x => n + x)).flatMap f = [] := by
    rw [List.flatMap_eq_nil_iff]
    intro x hx
    obtain ⟨y, hy, rfl⟩ := List.mem_map.mp hx
    exact h _ (Nat.le_add_right _ _) (Nat.add_lt_add_left (List.mem_range.mp hy) _)
  rw [this, List.append_nil]

theorem countP_range_add (p : Nat → Bool) (n k : Nat)
    (h : ∀ x, n ≤ x → x < n + k → p x = false) :
    (List.range (n + k)).countP p = (List.range n).countP p := by
  rw [List.countP_eq_length_filter, List.countP_eq_length_filter, filter_range_add p n k h]

/-! ## div / mod of `m*ms + a` -/

theorem mul_add_div {ms : Nat} (m : Nat) {a : Nat} (ha : a < ms) : (m * ms + a) / ms = m := by
  have hms : 0 < ms := Nat.lt_of_le_of_lt (Nat.zero_le _) ha
  rw [Nat.add_comm, Nat.add_mul_div_right _ _ hms, Nat.div_eq_of_lt ha, Nat.zero_add]

theorem mul_add_mod {ms : Nat} (m : Nat) {a : Nat} (ha : a < ms) : (m * ms + a) % ms = a := by
  rw [Nat.add_comm, Nat.add_mul_mod_self_right, Nat.mod_eq_of_lt ha]

theorem mul_add_lt {nmol ms m a : Nat} (hm : m < nmol) (ha : a < ms) : m * ms + a < nmol * ms := by
  calc m * ms + a < m * ms + ms := Nat.add_lt_add_left ha _
    _ = (m + 1) * ms := (Nat.succ_mul m ms).symm
    _ ≤ nmol * ms := Nat.mul_le_mul_right ms hm

/-- every flat index below `nmol*ms` is `m*ms + a` -/
theorem flat_decomp {nmol ms i : Nat} (hi : i < nmol * ms) :
    i / ms < nmol ∧ i % ms < ms ∧ (i / ms) * ms + i % ms = i := by
  have hms : 0 < ms := by
    rcases Nat.eq_zero_or_pos ms with h | h
    · subst h; simp at hi
    · exact h
  refine ⟨Nat.div_lt_of_lt_mul (by rwa [Nat.mul_comm] at hi), Nat.mod_lt _ hms, ?_⟩
  rw [Nat.mul_comm]; exact Nat.div_add_mod i ms

/-! ## pair enumeration: flat = concatenation of molecules (prototype B_17) -/

/-- the `(a, b)` pairs of one molecule, local indices, in the order of the flat enumeration -/
def molPairs (ms : Nat) (keep : Nat → Nat → Bool) : List (Nat × Nat) :=
  (List.range (ms * ms)).filterMap fun t =>
    let a := t / ms; let b := t % ms
    if keep a b then some (a, b) else none

theorem flatPairs_eq_concat (nmol ms : Nat) (keep : Nat → Nat → Nat → Bool) :
    flatPairs nmol ms keep =
      (List.range nmol).flatMap fun mol =>
        (molPairs ms (keep mol)).map fun p => (mol * ms + p.1, mol * ms + p.2) := by
  rcases Nat.eq_zero_or_pos ms with hms | hms
  · subst hms; simp [flatPairs, molPairs]
  unfold flatPairs molPairs
  rw [range_mul, List.filterMap_flatMap]
  congr 1
  funext mol
  rw [List.filterMap_map, List.map_filterMap]
  apply filterMap_congr'
  intro t ht
  have ht' : t < ms * ms := List.mem_range.mp ht
  have hpos : 0 < ms * ms := Nat.mul_pos hms hms
  have h1 : (mol * (ms * ms) + t) / (ms * ms) = mol := by
    rw [Nat.add_comm, Nat.add_mul_div_right _ _ hpos, Nat.div_eq_of_lt ht', Nat.zero_add]
  have h2 : (mol * (ms * ms) + t) % (ms * ms) = t := by
    rw [Nat.add_comm, Nat.add_mul_mod_self_right, Nat.mod_eq_of_lt ht']
  have h3 : (mol * (ms * ms) + t) % ms = t % ms := by
    rw [← Nat.mul_assoc, Nat.add_comm, Nat.add_mul_mod_self_right]
  simp only [Function.comp, h1, h2, h3]
  split <;> simp_all

/-- nested form of the per-molecule enumeration: `a` outer, `b` inner, both ascending -/
theorem molPairs_nested (ms : Nat) (keep : Nat → Nat → Bool) :
    molPairs ms keep =
      (List.range ms).flatMap fun a =>
        (List.range ms).filterMap fun b => if keep a b then some (a, b) else none := by
  unfold molPairs
  rw [range_mul, List.filterMap_flatMap]
  congr 1
  funext a
  rw [List.filterMap_map]
  apply filterMap_congr'
  intro b hb
  have hb' : b < ms := List.mem_range.mp hb
  simp only [Function.comp, mul_add_div a hb', mul_add_mod a hb']

theorem molPairs_congr {ms : Nat} {keep keep' : Nat → Nat → Bool}
    (h : ∀ a b, a < ms → b < ms → keep a b = keep' a b) : molPairs ms keep = molPairs ms keep' := by
  rw [molPairs_nested, molPairs_nested]
  apply flatMap_congr'
  intro a ha
  apply filterMap_congr'
  intro b hb
  rw [h a b (List.mem_range.mp ha) (List.mem_range.mp hb)]

theorem mem_molPairs {ms : Nat} {keep : Nat → Nat → Bool} {p : Nat × Nat} :
    p ∈ molPairs ms keep ↔ p.1 < ms ∧ p.2 < ms ∧ keep p.1 p.2 = true := by
  rw [molPairs_nested]
  simp only [List.mem_flatMap, List.mem_range, List.mem_filterMap]
  constructor
  · rintro ⟨a, ha, b, hb, h⟩
    split at h
    · rename_i hk
      cases h
      exact ⟨ha, hb, hk⟩
    · cases h
  · rintro ⟨h1, h2, h3⟩
    exact ⟨p.1, h1, p.2, h2, by simp [h3]⟩

/-- growing `molsize` by slots that are never kept does not change the molecule's pairs -/
theorem molPairs_grow (ms k : Nat) (keep keep' : Nat → Nat → Bool)
    (hin : ∀ a b, a < ms → b < ms → keep' a b = keep a b)
    (hout : ∀ a b, a < ms + k → b < ms + k → (ms ≤ a ∨ ms ≤ b) → keep' a b = false) :
    molPairs (ms + k) keep' = molPairs ms keep := by
  rw [molPairs_nested, molPairs_nested]
  have inner : ∀ a, a < ms →
      ((List.range (ms + k)).filterMap fun b => if keep' a b then some (a, b) else none) =
      ((List.range ms).filterMap fun b => if keep a b then some (a, b) else none) := by
    intro a ha
    rw [filterMap_range_add]
    · apply filterMap_congr'
      intro b hb
      rw [hin a b ha (List.mem_range.mp hb)]
    · intro b hb1 hb2
      rw [hout a b (Nat.lt_of_lt_of_le ha (Nat.le_add_right _ _)) hb2 (Or.inr hb1)]
      simp
  rw [flatMap_range_add]
  · apply flatMap_congr'
    intro a ha
    exact inner a (List.mem_range.mp ha)
  · intro a ha1 ha2
    rw [List.filterMap_eq_nil_iff]
    intro b hb
    rw [hout a b ha2 (List.mem_range.mp hb) (Or.inl ha1)]
    simp

/-! ## real atoms -/

section
variable {nmol ms : Nat} {sp : Nat → Nat}

theorem mem_realAtoms {i : Nat} : i ∈ realAtoms nmol ms sp ↔ i < nmol * ms ∧ 0 < sp i := by
  simp [realAtoms, isReal]

theorem realAtoms_pairwise : (realAtoms nmol ms sp).Pairwise (· < ·) :=
  List.Pairwise.filter _ List.pairwise_lt_range

theorem realAtoms_nodup : (realAtoms nmol ms sp).Nodup :=
  List.Nodup.filter _ List.nodup_range

/-- the real atoms of a batch are the real atoms of its molecules, shifted and concatenated -/
theorem realAtoms_concat (nmol ms : Nat) (sp : Nat → Nat) :
    realAtoms nmol ms sp =
      (List.range nmol).flatMap fun m =>
        (realAtoms 1 ms (fun a => sp (m * ms + a))).map fun a => m * ms + a := by
  unfold realAtoms
  rw [range_mul, List.filter_flatMap]
  congr 1
  funext m
  rw [List.filter_map, Nat.one_mul]
  rfl

/-- number of real atoms strictly before flat index `i` -/
def rank (sp : Nat → Nat) (i : Nat) : Nat := (List.range i).countP (isReal sp)

theorem idxOf_append_cons_self {l1 l2 : List Nat} {i : Nat} (h : i ∉ l1) :
    (l1 ++ i :: l2).idxOf i = l1.length := by
  induction l1 with
  | nil => simp
  | cons x l ih =>
    have hx : x ≠ i := fun e => h (e ▸ List.mem_cons_self)
    have hl : i ∉ l := fun e => h (List.mem_cons_of_mem _ e)
    simp [hx, ih hl]

theorem idxOf_filter_range (p : Nat → Bool) {N i : Nat} (hi : i < N) (hp : p i = true) :
    ((List.range N).filter p).idxOf i = (List.range i).countP p := by
  obtain ⟨k, rfl⟩ : ∃ k, N = i + (k + 1) := ⟨N - i - 1, by omega⟩
  rw [List.range_add, List.range_succ_eq_map, List.map_cons, List.filter_append, List.filter_cons]
  simp only [Nat.add_zero, hp, if_true]
  rw [idxOf_append_cons_self, List.countP_eq_length_filter]
  intro h
  have := (List.mem_filter.mp h).1
  exact Nat.lt_irrefl _ (List.mem_range.mp this)

theorem invReal_eq_rank {i : Nat} (h : i ∈ realAtoms nmol ms sp) :
    invReal (realAtoms nmol ms sp) i = rank sp i := by
  have h' := mem_realAtoms.mp h
  unfold invReal
  rw [if_pos (by simpa using h)]
  exact idxOf_filter_range _ h'.1 (by simp [isReal, h'.2])

theorem invReal_lt {i : Nat} (h : i ∈ realAtoms nmol ms sp) :
    invReal (realAtoms nmol ms sp) i < (realAtoms nmol ms sp).length := by
  unfold invReal
  rw [if_pos (by simpa using h)]
  exact List.idxOf_lt_length_of_mem h

theorem getD_invReal {i : Nat} (h : i ∈ realAtoms nmol ms sp) :
    (realAtoms nmol ms sp).getD (invReal (realAtoms nmol ms sp) i) 0 = i := by
  have hlt := invReal_lt h
  rw [← List.getElem_eq_getD (h := hlt) 0]
  unfold invReal
  simp only [if_pos (show (realAtoms nmol ms sp).contains i = true by simpa using h)]
  exact List.getElem_idxOf _

theorem invReal_getElem {k : Nat} (hk : k < (realAtoms nmol ms sp).length) :
    invReal (realAtoms nmol ms sp) ((realAtoms nmol ms sp)[k]) = k := by
  unfold invReal
  rw [if_pos (by simp)]
  exact List.Nodup.idxOf_getElem realAtoms_nodup k hk

theorem rank_lt_of_lt {i j : Nat} (hij : i < j) (hi : 0 < sp i) : rank sp i < rank sp j := by
  obtain ⟨d, rfl⟩ : ∃ d, j = (i + 1) + d := ⟨j - (i + 1), by omega⟩
  unfold rank
  rw [List.range_add, List.countP_append, List.range_succ, List.countP_append]
  have : List.countP (isReal sp) [i] = 1 := by simp [isReal, hi]
  omega

end

/-! ## the pair list -/

section
variable {nmol ms : Nat} {sp : Nat → Nat} {close : Nat → Nat → Bool}

/-- the keep predicate of a molecule computed alone (local indices) -/
def keepAlone (sp0 : Nat → Nat) (close0 : Nat → Nat → Bool) (a b : Nat) : Bool :=
  decide (a < b) && (isReal sp0 b && isReal sp0 a) && close0 a b

theorem keepPair_eq (ms : Nat) (sp : Nat → Nat) (close : Nat → Nat → Bool) (m : Nat) :
    keepPair ms sp close m =
      keepAlone (fun a => sp (m * ms + a)) (fun a b => close (m * ms + a) (m * ms + b)) := by
  funext a b
  simp [keepPair, keepAlone, isReal]

theorem pairList_concat (nmol ms : Nat) (sp : Nat → Nat) (close : Nat → Nat → Bool) :
    pairList nmol ms sp close =
      (List.range nmol).flatMap fun m =>
        (molPairs ms (keepPair ms sp close m)).map fun p => (m * ms + p.1, m * ms + p.2) :=
  flatPairs_eq_concat nmol ms _

theorem pairList_one (ms : Nat) (sp0 : Nat → Nat) (close0 : Nat → Nat → Bool) :
    pairList 1 ms sp0 close0 = molPairs ms (keepAlone sp0 close0) := by
  rw [pairList_concat]
  simp only [keepPair_eq]
  simp

theorem mem_pairList {p : Nat × Nat} :
    p ∈ pairList nmol ms sp close ↔
      ∃ m a b, m < nmol ∧ a < ms ∧ b < ms ∧ a < b ∧ 0 < sp (m * ms + a) ∧ 0 < sp (m * ms + b) ∧
        close (m * ms + a) (m * ms + b) = true ∧ p = (m * ms + a, m * ms + b) := by
  rw [pairList_concat]
  simp only [List.mem_flatMap, List.mem_range, List.mem_map, mem_molPairs, keepPair_eq, keepAlone,
    isReal, Bool.and_eq_true, decide_eq_true_eq]
  constructor
  · rintro ⟨m, hm, q, ⟨h1, h2, ⟨⟨h3, h4, h5⟩, h6⟩⟩, rfl⟩
    exact ⟨m, q.1, q.2, hm, h1, h2, h3, h5, h4, h6, rfl⟩
  · rintro ⟨m, a, b, hm, ha, hb, hab, hsa, hsb, hc, rfl⟩
    exact ⟨m, hm, (a, b), ⟨ha, hb, ⟨⟨hab, hsb, hsa⟩, hc⟩⟩, rfl⟩

/-- membership in flat terms -/
theorem mem_pairList' {p : Nat × Nat} :
    p ∈ pairList nmol ms sp close ↔
      p.1 < p.2 ∧ p.2 < nmol * ms ∧ p.1 / ms = p.2 / ms ∧ 0 < sp p.1 ∧ 0 < sp p.2 ∧
        close p.1 p.2 = true := by
  rw [mem_pairList]
  constructor
  · rintro ⟨m, a, b, hm, ha, hb, hab, hsa, hsb, hc, rfl⟩
    refine ⟨Nat.add_lt_add_left hab _, mul_add_lt hm hb, ?_, hsa, hsb, hc⟩
    simp only [mul_add_div m ha, mul_add_div m hb]
  · rintro ⟨h1, h2, h3, h4, h5, h6⟩
    obtain ⟨d1, d2, d3⟩ := flat_decomp h2
    have hms : 0 < ms := Nat.lt_of_le_of_lt (Nat.zero_le _) d2
    have e1 : (p.2 / ms) * ms + p.1 % ms = p.1 := by
      rw [← h3, Nat.mul_comm]; exact Nat.div_add_mod p.1 ms
    refine ⟨p.2 / ms, p.1 % ms, p.2 % ms, d1, Nat.mod_lt _ hms, d2, ?_, ?_, ?_, ?_, ?_⟩
    · have : p.2 / ms * ms + p.1 % ms < p.2 / ms * ms + p.2 % ms := by rw [e1, d3]; exact h1
      exact Nat.lt_of_add_lt_add_left this
    · rwa [e1]
    · rwa [d3]
    · rwa [e1, d3]
    · rw [e1, d3]

theorem pairList_real {p : Nat × Nat} (h : p ∈ pairList nmol ms sp close) :
    p.1 ∈ realAtoms nmol ms sp ∧ p.2 ∈ realAtoms nmol ms sp := by
  obtain ⟨h1, h2, _, h4, h5, _⟩ := mem_pairList'.mp h
  exact ⟨mem_realAtoms.mpr ⟨Nat.lt_trans h1 h2, h4⟩, mem_realAtoms.mpr ⟨h2, h5⟩⟩

/-- the pair list only reads `close` at ordered pairs of real atoms of one molecule -/
theorem pairList_congr_close {close' : Nat → Nat → Bool}
    (h : ∀ i j, i < j → j < nmol * ms → i / ms = j / ms → 0 < sp i → 0 < sp j →
      close i j = close' i j) :
    pairList nmol ms sp close = pairList nmol ms sp close' := by
  rw [pairList_concat, pairList_concat]
  apply flatMap_congr'
  intro m hm
  have hm' : m < nmol := List.mem_range.mp hm
  congr 1
  apply molPairs_congr
  intro a b ha hb
  simp only [keepPair, isReal]
  by_cases hk : (decide (m * ms + a < m * ms + b) &&
      (decide (0 < sp (m * ms + b)) && decide (0 < sp (m * ms + a)))) = true
  · have hk2 := hk
    simp only [Bool.and_eq_true, decide_eq_true_eq] at hk2
    obtain ⟨k1, k2, k3⟩ := hk2
    rw [h _ _ k1 (mul_add_lt hm' hb) (by rw [mul_add_div _ ha, mul_add_div _ hb]) k3 k2]
  · have hk' : (decide (m * ms + a < m * ms + b) &&
      (decide (0 < sp (m * ms + b)) && decide (0 < sp (m * ms + a)))) = false := by simpa using hk
    rw [hk']
    simp

end

/-! ## closed forms of the pair-indexed outputs -/

section
variable {nmol ms : Nat} {sp : Nat → Nat} {close : Nat → Nat → Bool}

theorem getD_map_invReal (f : Nat → Nat) {i : Nat} (h : i ∈ realAtoms nmol ms sp) :
    ((realAtoms nmol ms sp).map f).getD (invReal (realAtoms nmol ms sp) i) 0 = f i := by
  have hlt := invReal_lt h
  have hlt' : invReal (realAtoms nmol ms sp) i < ((realAtoms nmol ms sp).map f).length := by
    simpa using hlt
  rw [← List.getElem_eq_getD (h := hlt') 0, List.getElem_map]
  congr 1
  have := getD_invReal h
  rwa [← List.getElem_eq_getD (h := hlt) 0] at this

theorem run_real : (run nmol ms sp close).real = realAtoms nmol ms sp := rfl
theorem run_Z : (run nmol ms sp close).Z = (realAtoms nmol ms sp).map sp := rfl
theorem run_nHeavy : (run nmol ms sp close).nHeavy = nHeavy nmol ms sp := rfl
theorem run_nHydro : (run nmol ms sp close).nHydro = nHydro nmol ms sp := rfl
theorem run_maskd : (run nmol ms sp close).maskd = (realAtoms nmol ms sp).map (maskdAt ms) := rfl
theorem run_atomMolid : (run nmol ms sp close).atomMolid = (realAtoms nmol ms sp).map (· / ms) := rfl

theorem run_idxi : (run nmol ms sp close).idxi = (pairList nmol ms sp close).map fun p => rank sp p.1 := by
  show (pairList nmol ms sp close).map _ = _
  apply List.map_congr_left
  intro p hp
  exact invReal_eq_rank (pairList_real hp).1

theorem run_idxj : (run nmol ms sp close).idxj = (pairList nmol ms sp close).map fun p => rank sp p.2 := by
  show (pairList nmol ms sp close).map _ = _
  apply List.map_congr_left
  intro p hp
  exact invReal_eq_rank (pairList_real hp).2

theorem run_ni : (run nmol ms sp close).ni = (pairList nmol ms sp close).map fun p => sp p.1 := by
  show ((pairList nmol ms sp close).map _).map _ = _
  rw [List.map_map]
  apply List.map_congr_left
  intro p hp
  exact getD_map_invReal sp (pairList_real hp).1

theorem run_nj : (run nmol ms sp close).nj = (pairList nmol ms sp close).map fun p => sp p.2 := by
  show ((pairList nmol ms sp close).map _).map _ = _
  rw [List.map_map]
  apply List.map_congr_left
  intro p hp
  exact getD_map_invReal sp (pairList_real hp).2

theorem run_pairMolid :
    (run nmol ms sp close).pairMolid = (pairList nmol ms sp close).map fun p => p.1 / ms := by
  show ((pairList nmol ms sp close).map _).map _ = _
  rw [List.map_map]
  apply List.map_congr_left
  intro p hp
  exact getD_map_invReal (· / ms) (pairList_real hp).1

theorem run_mask :
    (run nmol ms sp close).mask = (pairList nmol ms sp close).map fun p => p.1 * ms + p.2 % ms := by
  show List.zipWith _ ((pairList nmol ms sp close).map _) ((pairList nmol ms sp close).map _) = _
  rw [List.zipWith_map, List.zipWith_self]
  apply List.map_congr_left
  intro p hp
  simp only [maskOf, getD_invReal (pairList_real hp).1, getD_invReal (pairList_real hp).2]

theorem run_maskL :
    (run nmol ms sp close).maskL = (pairList nmol ms sp close).map fun p => p.2 * ms + p.1 % ms := by
  show List.zipWith _ ((pairList nmol ms sp close).map _) ((pairList nmol ms sp close).map _) = _
  rw [List.zipWith_map, List.zipWith_self]
  apply List.map_congr_left
  intro p hp
  simp only [maskOf, getD_invReal (pairList_real hp).1, getD_invReal (pairList_real hp).2]

/-- `run` is determined by the real-atom list and the pair list -/
theorem run_congr_close {close' : Nat → Nat → Bool}
    (h : pairList nmol ms sp close = pairList nmol ms sp close') :
    run nmol ms sp close = run nmol ms sp close' := by
  unfold run
  simp only [h]

end

/-! ## no duplicates -/

theorem flat_reconstruct (ms t : Nat) :
    t = t / (ms * ms) * (ms * ms) + t % (ms * ms) / ms * ms + t % ms := by
  have h1 := Nat.div_add_mod t (ms * ms)
  have h2 := Nat.div_add_mod (t % (ms * ms)) ms
  have h3 : t % (ms * ms) % ms = t % ms := Nat.mod_mul_right_mod t ms ms
  rw [h3] at h2
  rw [Nat.mul_comm (t / (ms * ms)), Nat.mul_comm (t % (ms * ms) / ms), Nat.add_assoc, h2, h1]

theorem pairList_nodup (nmol ms : Nat) (sp : Nat → Nat) (close : Nat → Nat → Bool) :
    (pairList nmol ms sp close).Nodup := by
  rcases Nat.eq_zero_or_pos ms with hms | hms
  · subst hms; simp [pairList, flatPairs]
  unfold pairList flatPairs
  apply List.Nodup.filterMap _ List.nodup_range
  intro t t' q h1 h2
  have hpos : 0 < ms * ms := Nat.mul_pos hms hms
  have key : ∀ u : Nat, (u / (ms * ms) * ms + u % (ms * ms) / ms) / ms = u / (ms * ms) ∧
      (u / (ms * ms) * ms + u % (ms * ms) / ms) % ms = u % (ms * ms) / ms ∧
      (u / (ms * ms) * ms + u % ms) % ms = u % ms := by
    intro u
    have ha : u % (ms * ms) / ms < ms := Nat.div_lt_of_lt_mul (Nat.mod_lt _ hpos)
    have hb : u % ms < ms := Nat.mod_lt _ hms
    exact ⟨mul_add_div _ ha, mul_add_mod _ ha, mul_add_mod _ hb⟩
  simp only [Option.mem_def] at h1 h2
  split at h1
  · split at h2
    · cases h1
      simp only [Option.some.injEq, Prod.mk.injEq] at h2
      obtain ⟨e1, e2⟩ := h2
      obtain ⟨a1, a2, a3⟩ := key t
      obtain ⟨b1, b2, b3⟩ := key t'
      have m_eq : t / (ms * ms) = t' / (ms * ms) := by rw [← a1, ← b1, e1]
      have a_eq : t % (ms * ms) / ms = t' % (ms * ms) / ms := by rw [← a2, ← b2, e1]
      have b_eq : t % ms = t' % ms := by rw [← a3, ← b3, e2]
      rw [flat_reconstruct ms t, flat_reconstruct ms t', m_eq, a_eq, b_eq]
    · cases h2
  · cases h1

/-! ## growing `molsize` by padding columns -/

/-- flat atom index `m*ms + a ↦ m*ms' + a` -/
def regrow (ms ms' i : Nat) : Nat := (i / ms) * ms' + i % ms

/-- block index `m*ms² + a*ms + b ↦ m*ms'² + a*ms' + b` -/
def reblock (ms ms' B : Nat) : Nat :=
  (B / (ms * ms)) * (ms' * ms') + ((B % (ms * ms)) / ms) * ms' + B % ms

theorem regrow_flat {ms : Nat} (ms' m : Nat) {a : Nat} (ha : a < ms) :
    regrow ms ms' (m * ms + a) = m * ms' + a := by
  unfold regrow; rw [mul_add_div m ha, mul_add_mod m ha]

theorem reblock_flat {ms : Nat} (ms' m : Nat) {a b : Nat} (ha : a < ms) (hb : b < ms) :
    reblock ms ms' (m * (ms * ms) + a * ms + b) = m * (ms' * ms') + a * ms' + b := by
  have hlt : a * ms + b < ms * ms := mul_add_lt ha hb
  have h1 : (m * (ms * ms) + a * ms + b) / (ms * ms) = m := by
    rw [Nat.add_assoc]; exact mul_add_div m hlt
  have h2 : (m * (ms * ms) + a * ms + b) % (ms * ms) = a * ms + b := by
    rw [Nat.add_assoc]; exact mul_add_mod m hlt
  have h3 : (m * (ms * ms) + a * ms + b) % ms = b := by
    have : m * (ms * ms) + a * ms + b = (m * ms + a) * ms + b := by ring
    rw [this]; exact mul_add_mod _ hb
  unfold reblock
  rw [h1, h2, h3, mul_add_div a hb]

theorem regrow_injective {ms ms' : Nat} (hms : 0 < ms) (hle : ms ≤ ms') :
    Function.Injective (regrow ms ms') := by
  intro i j h
  unfold regrow at h
  have hi : i % ms < ms' := Nat.lt_of_lt_of_le (Nat.mod_lt _ hms) hle
  have hj : j % ms < ms' := Nat.lt_of_lt_of_le (Nat.mod_lt _ hms) hle
  have d : i / ms = j / ms := by
    have := congrArg (· / ms') h
    simpa [mul_add_div _ hi, mul_add_div _ hj] using this
  have r : i % ms = j % ms := by
    have := congrArg (· % ms') h
    simpa [mul_add_mod _ hi, mul_add_mod _ hj] using this
  rw [← Nat.div_add_mod i ms, ← Nat.div_add_mod j ms, d, r]

theorem idxOf_map_injective {f : Nat → Nat} (hf : Function.Injective f) (l : List Nat) (a : Nat) :
    (l.map f).idxOf (f a) = l.idxOf a := by
  induction l with
  | nil => simp
  | cons b l ih =>
    simp only [List.map_cons, List.idxOf_cons, ih]
    by_cases h : b = a
    · simp [h]
    · have h1 : (f b == f a) = false := by simpa using fun e => h (hf e)
      have h2 : (b == a) = false := by simpa using h
      rw [h1, h2]

theorem invReal_map_injective {f : Nat → Nat} (hf : Function.Injective f) (l : List Nat) (a : Nat) :
    invReal (l.map f) (f a) = invReal l a := by
  unfold invReal
  have : (l.map f).contains (f a) = l.contains a := by
    rw [Bool.eq_iff_iff]
    simp only [List.contains_iff_mem, List.mem_map]
    constructor
    · rintro ⟨x, hx, e⟩; exact hf e ▸ hx
    · intro h; exact ⟨a, h, rfl⟩
  rw [this, idxOf_map_injective hf]

theorem foldl_add_eq {l : List Nat} {g g' : Nat → Nat} (h : ∀ x ∈ l, g x = g' x) (s : Nat) :
    l.foldl (fun s a => s + g a) s = l.foldl (fun s a => s + g' a) s := by
  induction l generalizing s with
  | nil => rfl
  | cons a l ih =>
    simp only [List.foldl_cons, h a List.mem_cons_self]
    exact ih (fun x hx => h x (List.mem_cons_of_mem _ hx)) _

theorem foldl_add_zero {l : List Nat} {g : Nat → Nat} (h : ∀ x ∈ l, g x = 0) (s : Nat) :
    l.foldl (fun s a => s + g a) s = s := by
  induction l generalizing s with
  | nil => rfl
  | cons a l ih =>
    simp only [List.foldl_cons, h a List.mem_cons_self, Nat.add_zero]
    exact ih (fun x hx => h x (List.mem_cons_of_mem _ hx)) _

/-- the hypotheses "the same batch, stored with `k` more padding columns" -/
structure Grown (nmol ms k : Nat) (sp sp' : Nat → Nat) (close close' : Nat → Nat → Bool) : Prop where
  /-- old columns keep their species, new columns are padding -/
  species : ∀ m a, m < nmol → a < ms + k →
    sp' (m * (ms + k) + a) = if a < ms then sp (m * ms + a) else 0
  /-- the closeness of two real atoms is that of the same two atoms before re-indexing
      (nothing is assumed about entries involving a padding slot) -/
  close : ∀ m a b, m < nmol → a < b → b < ms → 0 < sp (m * ms + a) → 0 < sp (m * ms + b) →
    close' (m * (ms + k) + a) (m * (ms + k) + b) = close (m * ms + a) (m * ms + b)

section
variable {nmol ms k : Nat} {sp sp' : Nat → Nat} {close close' : Nat → Nat → Bool}

theorem Grown.sp_old (g : Grown nmol ms k sp sp' close close') {m a : Nat} (hm : m < nmol) (ha : a < ms) :
    sp' (m * (ms + k) + a) = sp (m * ms + a) := by
  rw [g.species m a hm (Nat.lt_of_lt_of_le ha (Nat.le_add_right _ _)), if_pos ha]

theorem Grown.sp_new (g : Grown nmol ms k sp sp' close close') {m a : Nat} (hm : m < nmol)
    (ha : ms ≤ a) (ha' : a < ms + k) : sp' (m * (ms + k) + a) = 0 := by
  rw [g.species m a hm ha', if_neg (Nat.not_lt.mpr ha)]

theorem Grown.realAtoms (g : Grown nmol ms k sp sp' close close') :
    realAtoms nmol (ms + k) sp' = (realAtoms nmol ms sp).map (regrow ms (ms + k)) := by
  rw [realAtoms_concat nmol (ms + k), realAtoms_concat nmol ms, List.map_flatMap]
  apply flatMap_congr'
  intro m hm
  have hm' : m < nmol := List.mem_range.mp hm
  unfold Parser.realAtoms
  rw [Nat.one_mul, Nat.one_mul, filter_range_add, List.map_map]
  · rw [filter_congr' (isReal fun a => sp' (m * (ms + k) + a)) (isReal fun a => sp (m * ms + a))]
    · apply List.map_congr_left
      intro a ha
      have ha' : a < ms := List.mem_range.mp (List.mem_filter.mp ha).1
      simp only [Function.comp, regrow_flat (ms + k) m ha']
    · intro a ha
      simp only [isReal, g.sp_old hm' (List.mem_range.mp ha)]
  · intro a h1 h2
    simp only [isReal, g.sp_new hm' h1 h2]
    simp

theorem Grown.pairList (g : Grown nmol ms k sp sp' close close') :
    pairList nmol (ms + k) sp' close' =
      (pairList nmol ms sp close).map fun p => (regrow ms (ms + k) p.1, regrow ms (ms + k) p.2) := by
  rw [pairList_concat nmol (ms + k), pairList_concat nmol ms, List.map_flatMap]
  apply flatMap_congr'
  intro m hm
  have hm' : m < nmol := List.mem_range.mp hm
  rw [molPairs_grow ms k (keepPair ms sp close m) (keepPair (ms + k) sp' close' m), List.map_map]
  · apply List.map_congr_left
    intro p hp
    obtain ⟨h1, h2, _⟩ := mem_molPairs.mp hp
    simp only [Function.comp, regrow_flat (ms + k) m h1, regrow_flat (ms + k) m h2]
  · intro a b ha hb
    simp only [keepPair, isReal, g.sp_old hm' ha, g.sp_old hm' hb, Nat.add_lt_add_iff_left]
    by_cases hk : (decide (a < b) && (decide (0 < sp (m * ms + b)) && decide (0 < sp (m * ms + a)))) = true
    · have hk2 := hk
      simp only [Bool.and_eq_true, decide_eq_true_eq] at hk2
      rw [g.close m a b hm' hk2.1 hb hk2.2.2 hk2.2.1]
    · have hk' : (decide (a < b) && (decide (0 < sp (m * ms + b)) && decide (0 < sp (m * ms + a)))) = false := by
        simpa using hk
      rw [hk']; simp
  · intro a b ha hb hor
    simp only [keepPair, isReal]
    rcases hor with h | h
    · simp [g.sp_new hm' h ha]
    · simp [g.sp_new hm' h hb]

theorem Grown.nHeavy (g : Grown nmol ms k sp sp' close close') :
    nHeavy nmol (ms + k) sp' = nHeavy nmol ms sp := by
  unfold Parser.nHeavy
  apply List.map_congr_left
  intro m hm
  have hm' : m < nmol := List.mem_range.mp hm
  rw [countP_range_add]
  · rw [List.countP_eq_length_filter, List.countP_eq_length_filter]
    congr 1
    apply filter_congr'
    intro a ha
    rw [g.sp_old hm' (List.mem_range.mp ha)]
  · intro a h1 h2
    simp [g.sp_new hm' h1 h2]

theorem Grown.nHydro (g : Grown nmol ms k sp sp' close close') :
    nHydro nmol (ms + k) sp' = nHydro nmol ms sp := by
  unfold Parser.nHydro
  apply List.map_congr_left
  intro m hm
  have hm' : m < nmol := List.mem_range.mp hm
  rw [countP_range_add]
  · rw [List.countP_eq_length_filter, List.countP_eq_length_filter]
    congr 1
    apply filter_congr'
    intro a ha
    rw [g.sp_old hm' (List.mem_range.mp ha)]
  · intro a h1 h2
    simp [g.sp_new hm' h1 h2]

theorem Grown.norbAt (g : Grown nmol ms k sp sp' close close') {m : Nat} (hm : m < nmol) :
    norbAt (ms + k) sp' m = norbAt ms sp m := by
  have h1 : ((List.range (ms + k)).countP fun a => decide (1 < sp' (m * (ms + k) + a))) =
      ((List.range ms).countP fun a => decide (1 < sp (m * ms + a))) := by
    rw [countP_range_add]
    · rw [List.countP_eq_length_filter, List.countP_eq_length_filter]
      congr 1
      apply filter_congr'
      intro a ha
      rw [g.sp_old hm (List.mem_range.mp ha)]
    · intro a h1 h2
      simp [g.sp_new hm h1 h2]
  have h2 : ((List.range (ms + k)).countP fun a => sp' (m * (ms + k) + a) == 1) =
      ((List.range ms).countP fun a => sp (m * ms + a) == 1) := by
    rw [countP_range_add]
    · rw [List.countP_eq_length_filter, List.countP_eq_length_filter]
      congr 1
      apply filter_congr'
      intro a ha
      rw [g.sp_old hm (List.mem_range.mp ha)]
    · intro a h1 h2
      simp [g.sp_new hm h1 h2]
  unfold Parser.norbAt
  rw [h1, h2]

theorem Grown.nValence (g : Grown nmol ms k sp sp' close close') (tore : Nat → Nat) (h0 : tore 0 = 0)
    {m : Nat} (hm : m < nmol) : nValence (ms + k) sp' tore m = nValence ms sp tore m := by
  unfold Parser.nValence
  rw [List.range_add, List.foldl_append, foldl_add_zero]
  · apply foldl_add_eq
    intro a ha
    rw [g.sp_old hm (List.mem_range.mp ha)]
  · intro x hx
    obtain ⟨y, hy, rfl⟩ := List.mem_map.mp hx
    rw [g.sp_new hm (Nat.le_add_right _ _) (Nat.add_lt_add_left (List.mem_range.mp hy) _), h0]

end

/-! ## block addresses -/

/-- block `(m, a, b)` of the `(nmol*ms*ms, nbf, nbf)` block array of `hcore`/`fock` -/
def blockIdx (ms m a b : Nat) : Nat := m * (ms * ms) + a * ms + b

theorem blockIdx_decode {ms : Nat} (m : Nat) {a b : Nat} (ha : a < ms) (hb : b < ms) :
    blockIdx ms m a b / (ms * ms) = m ∧ blockIdx ms m a b % (ms * ms) / ms = a ∧
      blockIdx ms m a b % ms = b := by
  have hlt : a * ms + b < ms * ms := mul_add_lt ha hb
  unfold blockIdx
  have h1 : (m * (ms * ms) + a * ms + b) / (ms * ms) = m := by
    rw [Nat.add_assoc]; exact mul_add_div m hlt
  have h2 : (m * (ms * ms) + a * ms + b) % (ms * ms) = a * ms + b := by
    rw [Nat.add_assoc]; exact mul_add_mod m hlt
  have h3 : (m * (ms * ms) + a * ms + b) % ms = b := by
    have : m * (ms * ms) + a * ms + b = (m * ms + a) * ms + b := by ring
    rw [this]; exact mul_add_mod _ hb
  exact ⟨h1, by rw [h2, mul_add_div a hb], h3⟩

theorem blockIdx_injective {ms : Nat} {m a b m' a' b' : Nat} (ha : a < ms) (hb : b < ms)
    (ha' : a' < ms) (hb' : b' < ms) (h : blockIdx ms m a b = blockIdx ms m' a' b') :
    m = m' ∧ a = a' ∧ b = b' := by
  obtain ⟨h1, h2, h3⟩ := blockIdx_decode m ha hb
  obtain ⟨k1, k2, k3⟩ := blockIdx_decode m' ha' hb'
  rw [h] at h1 h2 h3
  exact ⟨h1.symm.trans k1, h2.symm.trans k2, h3.symm.trans k3⟩

theorem maskdAt_flat {ms : Nat} (m : Nat) {a : Nat} (ha : a < ms) :
    maskdAt ms (m * ms + a) = blockIdx ms m a a := by
  unfold maskdAt blockIdx
  rw [mul_add_div m ha, mul_add_mod m ha]; ring

theorem mask_flat {ms : Nat} (m : Nat) {a b : Nat} (hb : b < ms) :
    (m * ms + a) * ms + (m * ms + b) % ms = blockIdx ms m a b := by
  unfold blockIdx
  rw [mul_add_mod m hb]; ring

/-! ## relabelling atoms of the same element -/

/-- order an unordered pair -/
def orient (x : Nat × Nat) : Nat × Nat := if x.1 < x.2 then x else (x.2, x.1)

/-- exchange of the two flat slots `p` and `q` -/
def swapIdx (p q i : Nat) : Nat := if i = p then q else if i = q then p else i

theorem swapIdx_invol (p q i : Nat) : swapIdx p q (swapIdx p q i) = i := by
  unfold swapIdx
  by_cases h1 : i = p
  · by_cases h2 : q = p
    · simp [h1]
    · simp [h1]
  · by_cases h2 : i = q
    · simp [h2]
    · simp [h1, h2]

/-- a relabelling `σ` (with inverse `τ`) of the slots that only exchanges atoms of the same
    element inside a molecule -/
structure Relabel (nmol ms : Nat) (sp : Nat → Nat) (σ τ : Nat → Nat) : Prop where
  left : ∀ i, τ (σ i) = i
  right : ∀ i, σ (τ i) = i
  species : ∀ i, sp (σ i) = sp i
  mol : ∀ i, σ i / ms = i / ms
  bound : ∀ i, σ i < nmol * ms ↔ i < nmol * ms

theorem Relabel.symm {nmol ms : Nat} {sp : Nat → Nat} {σ τ : Nat → Nat} (r : Relabel nmol ms sp σ τ) :
    Relabel nmol ms sp τ σ where
  left := r.right
  right := r.left
  species := fun i => by have := r.species (τ i); rw [r.right] at this; exact this.symm
  mol := fun i => by have := r.mol (τ i); rw [r.right] at this; exact this.symm
  bound := fun i => by have := r.bound (τ i); rw [r.right] at this; exact this.symm

theorem swap_relabel {nmol ms : Nat} {sp : Nat → Nat} {p q : Nat} (hp : p < nmol * ms)
    (hq : q < nmol * ms) (hmol : p / ms = q / ms) (hsp : sp p = sp q) :
    Relabel nmol ms sp (swapIdx p q) (swapIdx p q) where
  left := swapIdx_invol p q
  right := swapIdx_invol p q
  species := fun i => by
    unfold swapIdx; split
    · rename_i h; rw [h, hsp]
    · split
      · rename_i h; rw [h, hsp]
      · rfl
  mol := fun i => by
    unfold swapIdx; split
    · rename_i h; rw [h, hmol]
    · split
      · rename_i h; rw [h, hmol]
      · rfl
  bound := fun i => by
    unfold swapIdx; split
    · rename_i h; rw [h]; exact ⟨fun _ => hp, fun _ => hq⟩
    · split
      · rename_i h; rw [h]; exact ⟨fun _ => hq, fun _ => hp⟩
      · exact Iff.rfl

theorem orient_lt {x : Nat × Nat} (h : x.1 ≠ x.2) : (orient x).1 < (orient x).2 := by
  unfold orient; split
  · assumption
  · simp only; omega

theorem orient_cases (x : Nat × Nat) : orient x = x ∨ orient x = (x.2, x.1) := by
  unfold orient; split
  · exact Or.inl rfl
  · exact Or.inr rfl

section
variable {nmol ms : Nat} {sp : Nat → Nat} {σ τ : Nat → Nat}

theorem Relabel.inj (r : Relabel nmol ms sp σ τ) {i j : Nat} (h : σ i = σ j) : i = j := by
  have := congrArg τ h; rwa [r.left, r.left] at this

theorem Relabel.sp_comp (r : Relabel nmol ms sp σ τ) : (fun i => sp (σ i)) = sp := funext r.species

/-- Re-labelled batch: slot `i` now holds the atom that was in slot `σ i`, so the species array is
    `sp ∘ σ = sp` and the closeness table is `close (σ i) (σ j)`.  The new pair list, mapped back
    through `σ` and re-oriented, is a permutation of the old pair list. -/
theorem Relabel.pairList_perm (r : Relabel nmol ms sp σ τ) (close : Nat → Nat → Bool)
    (hsym : ∀ i j, close i j = close j i) :
    ((pairList nmol ms (fun i => sp (σ i)) (fun i j => close (σ i) (σ j))).map
        fun x => orient (σ x.1, σ x.2)).Perm (pairList nmol ms sp close) := by
  rw [r.sp_comp]
  rw [List.perm_ext_iff_of_nodup _ (pairList_nodup _ _ _ _)]
  · intro x
    simp only [List.mem_map, mem_pairList']
    constructor
    · rintro ⟨y, ⟨h1, h2, h3, h4, h5, h6⟩, rfl⟩
      have hne : σ y.1 ≠ σ y.2 := fun e => Nat.lt_irrefl _ (r.inj e ▸ h1)
      have hlt := orient_lt (x := (σ y.1, σ y.2)) hne
      have b1 : σ y.1 < nmol * ms := (r.bound _).mpr (Nat.lt_trans h1 h2)
      have b2 : σ y.2 < nmol * ms := (r.bound _).mpr h2
      rcases orient_cases (σ y.1, σ y.2) with e | e
      · rw [e] at hlt ⊢
        exact ⟨hlt, b2, by simp only [r.mol, h3], by simpa only [r.species] using h4,
          by simpa only [r.species] using h5, h6⟩
      · rw [e] at hlt ⊢
        exact ⟨hlt, b1, by simp only [r.mol, h3], by simpa only [r.species] using h5,
          by simpa only [r.species] using h4, by simpa only [hsym (σ y.2)] using h6⟩
    · rintro ⟨h1, h2, h3, h4, h5, h6⟩
      have rs := r.symm
      have hne : τ x.1 ≠ τ x.2 := fun e => Nat.lt_irrefl _ (rs.inj e ▸ h1)
      have hlt := orient_lt (x := (τ x.1, τ x.2)) hne
      have b1 : τ x.1 < nmol * ms := (rs.bound _).mpr (Nat.lt_trans h1 h2)
      have b2 : τ x.2 < nmol * ms := (rs.bound _).mpr h2
      refine ⟨orient (τ x.1, τ x.2), ?_, ?_⟩
      · rcases orient_cases (τ x.1, τ x.2) with e | e
        · rw [e] at hlt ⊢
          exact ⟨hlt, b2, by simp only [rs.mol, h3], by simpa only [rs.species] using h4,
            by simpa only [rs.species] using h5, by simpa only [r.right] using h6⟩
        · rw [e] at hlt ⊢
          refine ⟨hlt, b1, by simp only [rs.mol, h3], by simpa only [rs.species] using h5,
            by simpa only [rs.species] using h4, ?_⟩
          simp only [r.right]; rw [hsym]; exact h6
      · rcases orient_cases (τ x.1, τ x.2) with e | e
        · rw [e]; simp only [r.right]
          unfold orient; rw [if_pos h1]
        · rw [e]; simp only [r.right]
          unfold orient; rw [if_neg (by simp only; omega)]
  · apply List.Nodup.map_on _ (pairList_nodup _ _ _ _)
    intro x hx y hy hxy
    have x1 := (mem_pairList'.mp hx).1
    have y1 := (mem_pairList'.mp hy).1
    rcases orient_cases (σ x.1, σ x.2) with e | e <;> rcases orient_cases (σ y.1, σ y.2) with e' | e'
    · rw [e, e'] at hxy
      simp only [Prod.mk.injEq] at hxy
      exact Prod.ext (r.inj hxy.1) (r.inj hxy.2)
    · rw [e, e'] at hxy
      simp only [Prod.mk.injEq] at hxy
      have a := r.inj hxy.1; have b := r.inj hxy.2; omega
    · rw [e, e'] at hxy
      simp only [Prod.mk.injEq] at hxy
      have a := r.inj hxy.1; have b := r.inj hxy.2; omega
    · rw [e, e'] at hxy
      simp only [Prod.mk.injEq] at hxy
      exact Prod.ext (r.inj hxy.2) (r.inj hxy.1)

end

/-! ## a molecule alone vs. inside a batch -/

/-- species row of molecule `m`, as the flattened species of the 1-molecule batch `[row m]` -/
def molSp (ms : Nat) (sp : Nat → Nat) (m : Nat) : Nat → Nat := fun a => sp (m * ms + a)

/-- closeness table of molecule `m` alone -/
def molClose (ms : Nat) (close : Nat → Nat → Bool) (m : Nat) : Nat → Nat → Bool :=
  fun a b => close (m * ms + a) (m * ms + b)

section
variable (nmol ms : Nat) (sp : Nat → Nat) (close : Nat → Nat → Bool)

theorem pairList_alone :
    pairList nmol ms sp close =
      (List.range nmol).flatMap fun m =>
        (pairList 1 ms (molSp ms sp m) (molClose ms close m)).map fun p => (m * ms + p.1, m * ms + p.2) := by
  rw [pairList_concat]
  apply flatMap_congr'
  intro m _
  rw [pairList_one, keepPair_eq]
  rfl

theorem map_pairList_alone {β : Type} (g : Nat × Nat → β) :
    (pairList nmol ms sp close).map g =
      (List.range nmol).flatMap fun m =>
        (pairList 1 ms (molSp ms sp m) (molClose ms close m)).map fun p => g (m * ms + p.1, m * ms + p.2) := by
  rw [pairList_alone, List.map_flatMap]
  apply flatMap_congr'
  intro m _
  rw [List.map_map]
  rfl

theorem mem_pairList_one {ms : Nat} {sp0 : Nat → Nat} {close0 : Nat → Nat → Bool} {p : Nat × Nat}
    (h : p ∈ pairList 1 ms sp0 close0) : p.1 < ms ∧ p.2 < ms := by
  obtain ⟨h1, h2, _⟩ := mem_pairList'.mp h
  rw [Nat.one_mul] at h2
  exact ⟨Nat.lt_trans h1 h2, h2⟩

theorem rank_flat (m a : Nat) : rank sp (m * ms + a) = rank sp (m * ms) + rank (molSp ms sp m) a := by
  unfold rank
  rw [List.range_add, List.countP_append, List.countP_map]
  rfl

theorem realAtoms_alone :
    realAtoms nmol ms sp =
      (List.range nmol).flatMap fun m => (realAtoms 1 ms (molSp ms sp m)).map fun a => m * ms + a :=
  realAtoms_concat nmol ms sp

theorem mem_realAtoms_one {ms : Nat} {sp0 : Nat → Nat} {a : Nat} (h : a ∈ realAtoms 1 ms sp0) : a < ms := by
  have := (mem_realAtoms.mp h).1
  rwa [Nat.one_mul] at this

/-- the batch output is the concatenation of the outputs of the molecules computed alone (each as a
    1-molecule batch of the same `molsize`), with explicit offsets: flat atom indices by `m*ms`,
    block indices by `m*ms²`, molecule ids by `m`, compacted atom indices by the number
    `rank sp (m*ms)` of real atoms in the preceding molecules. -/
theorem run_alone :
    let o := run nmol ms sp close
    let o1 := fun m => run 1 ms (molSp ms sp m) (molClose ms close m)
    o.real = (List.range nmol).flatMap (fun m => (o1 m).real.map (m * ms + ·)) ∧
    o.Z = (List.range nmol).flatMap (fun m => (o1 m).Z) ∧
    o.nHeavy = (List.range nmol).flatMap (fun m => (o1 m).nHeavy) ∧
    o.nHydro = (List.range nmol).flatMap (fun m => (o1 m).nHydro) ∧
    o.maskd = (List.range nmol).flatMap (fun m => (o1 m).maskd.map (m * (ms * ms) + ·)) ∧
    o.atomMolid = (List.range nmol).flatMap (fun m => (o1 m).atomMolid.map (m + ·)) ∧
    o.idxi = (List.range nmol).flatMap (fun m => (o1 m).idxi.map (rank sp (m * ms) + ·)) ∧
    o.idxj = (List.range nmol).flatMap (fun m => (o1 m).idxj.map (rank sp (m * ms) + ·)) ∧
    o.ni = (List.range nmol).flatMap (fun m => (o1 m).ni) ∧
    o.nj = (List.range nmol).flatMap (fun m => (o1 m).nj) ∧
    o.mask = (List.range nmol).flatMap (fun m => (o1 m).mask.map (m * (ms * ms) + ·)) ∧
    o.maskL = (List.range nmol).flatMap (fun m => (o1 m).maskL.map (m * (ms * ms) + ·)) ∧
    o.pairMolid = (List.range nmol).flatMap (fun m => (o1 m).pairMolid.map (m + ·)) := by
  intro o o1
  have hreal : ∀ (g : Nat → Nat) (g1 : Nat → Nat → Nat),
      (∀ m a, a < ms → g (m * ms + a) = g1 m a) →
      (realAtoms nmol ms sp).map g =
        (List.range nmol).flatMap fun m => (realAtoms 1 ms (molSp ms sp m)).map (g1 m) := by
    intro g g1 h
    rw [realAtoms_alone, List.map_flatMap]
    apply flatMap_congr'
    intro m _
    rw [List.map_map]
    apply List.map_congr_left
    intro a ha
    exact h m a (mem_realAtoms_one ha)
  have hpair : ∀ (g : Nat × Nat → Nat) (g1 : Nat → Nat × Nat → Nat),
      (∀ m p, p.1 < ms → p.2 < ms → g (m * ms + p.1, m * ms + p.2) = g1 m p) →
      (pairList nmol ms sp close).map g =
        (List.range nmol).flatMap fun m =>
          (pairList 1 ms (molSp ms sp m) (molClose ms close m)).map (g1 m) := by
    intro g g1 h
    rw [map_pairList_alone]
    apply flatMap_congr'
    intro m _
    apply List.map_congr_left
    intro p hp
    exact h m p (mem_pairList_one hp).1 (mem_pairList_one hp).2
  refine ⟨?_, ?_, ?_, ?_, ?_, ?_, ?_, ?_, ?_, ?_, ?_, ?_, ?_⟩
  · exact realAtoms_alone nmol ms sp
  · show (realAtoms nmol ms sp).map sp = _
    exact hreal sp (fun m => molSp ms sp m) (fun m a _ => rfl)
  · show nHeavy nmol ms sp = (List.range nmol).flatMap (fun m => nHeavy 1 ms (molSp ms sp m))
    unfold nHeavy molSp
    rw [List.map_eq_flatMap]
    simp
  · show nHydro nmol ms sp = (List.range nmol).flatMap (fun m => nHydro 1 ms (molSp ms sp m))
    unfold nHydro molSp
    rw [List.map_eq_flatMap]
    simp
  · show (realAtoms nmol ms sp).map (maskdAt ms) = _
    rw [hreal (maskdAt ms) (fun m a => m * (ms * ms) + maskdAt ms a)]
    · apply flatMap_congr'
      intro m _
      show _ = ((realAtoms 1 ms (molSp ms sp m)).map (maskdAt ms)).map _
      rw [List.map_map]; rfl
    · intro m a ha
      have := maskdAt_flat 0 ha
      rw [Nat.zero_mul, Nat.zero_add] at this
      rw [maskdAt_flat m ha, this]
      unfold blockIdx; ring
  · show (realAtoms nmol ms sp).map (· / ms) = _
    rw [hreal (· / ms) (fun m a => m + a / ms)]
    · apply flatMap_congr'
      intro m _
      show _ = ((realAtoms 1 ms (molSp ms sp m)).map (· / ms)).map _
      rw [List.map_map]; rfl
    · intro m a ha
      simp only [mul_add_div m ha, Nat.div_eq_of_lt ha, Nat.add_zero]
  · rw [run_idxi, hpair (fun p => rank sp p.1) (fun m p => rank sp (m * ms) + rank (molSp ms sp m) p.1)]
    · apply flatMap_congr'
      intro m _
      rw [run_idxi, List.map_map]; rfl
    · intro m p _ _
      exact rank_flat ms sp m p.1
  · rw [run_idxj, hpair (fun p => rank sp p.2) (fun m p => rank sp (m * ms) + rank (molSp ms sp m) p.2)]
    · apply flatMap_congr'
      intro m _
      rw [run_idxj, List.map_map]; rfl
    · intro m p _ _
      exact rank_flat ms sp m p.2
  · rw [run_ni, hpair (fun p => sp p.1) (fun m p => molSp ms sp m p.1) (fun m p _ _ => rfl)]
    apply flatMap_congr'
    intro m _
    rw [run_ni]
  · rw [run_nj, hpair (fun p => sp p.2) (fun m p => molSp ms sp m p.2) (fun m p _ _ => rfl)]
    apply flatMap_congr'
    intro m _
    rw [run_nj]
  · rw [run_mask, hpair (fun p => p.1 * ms + p.2 % ms) (fun m p => m * (ms * ms) + (p.1 * ms + p.2 % ms))]
    · apply flatMap_congr'
      intro m _
      rw [run_mask, List.map_map]; rfl
    · intro m p _ h2
      simp only [mul_add_mod m h2, Nat.mod_eq_of_lt h2]; ring
  · rw [run_maskL, hpair (fun p => p.2 * ms + p.1 % ms) (fun m p => m * (ms * ms) + (p.2 * ms + p.1 % ms))]
    · apply flatMap_congr'
      intro m _
      rw [run_maskL, List.map_map]; rfl
    · intro m p h1 _
      simp only [mul_add_mod m h1, Nat.mod_eq_of_lt h1]; ring
  · rw [run_pairMolid, hpair (fun p => p.1 / ms) (fun m p => m + p.1 / ms)]
    · apply flatMap_congr'
      intro m _
      rw [run_pairMolid, List.map_map]; rfl
    · intro m p h1 _
      simp only [mul_add_div m h1, Nat.div_eq_of_lt h1, Nat.add_zero]

end

/-! ## batches given as lists of rows -/

section
variable {nmol ms : Nat} {sp sp' : Nat → Nat} {close : Nat → Nat → Bool}

/-- `run` reads the species array only below `nmol*ms` -/
theorem run_congr_sp (h : ∀ i, i < nmol * ms → sp i = sp' i) :
    run nmol ms sp close = run nmol ms sp' close := by
  have hra : realAtoms nmol ms sp = realAtoms nmol ms sp' := by
    unfold realAtoms
    apply filter_congr'
    intro i hi
    simp only [isReal, h i (List.mem_range.mp hi)]
  have hZ : Zs nmol ms sp = Zs nmol ms sp' := by
    unfold Zs
    rw [← hra]
    apply List.map_congr_left
    intro i hi
    exact h i (mem_realAtoms.mp hi).1
  have hH : nHeavy nmol ms sp = nHeavy nmol ms sp' := by
    unfold nHeavy
    apply List.map_congr_left
    intro m hm
    rw [List.countP_eq_length_filter, List.countP_eq_length_filter]
    congr 1
    apply filter_congr'
    intro a ha
    rw [h _ (mul_add_lt (List.mem_range.mp hm) (List.mem_range.mp ha))]
  have hY : nHydro nmol ms sp = nHydro nmol ms sp' := by
    unfold nHydro
    apply List.map_congr_left
    intro m hm
    rw [List.countP_eq_length_filter, List.countP_eq_length_filter]
    congr 1
    apply filter_congr'
    intro a ha
    rw [h _ (mul_add_lt (List.mem_range.mp hm) (List.mem_range.mp ha))]
  have hP : pairList nmol ms sp close = pairList nmol ms sp' close := by
    rw [pairList_concat, pairList_concat]
    apply flatMap_congr'
    intro m hm
    congr 1
    apply molPairs_congr
    intro a b ha hb
    simp only [keepPair, isReal, h _ (mul_add_lt (List.mem_range.mp hm) ha),
      h _ (mul_add_lt (List.mem_range.mp hm) hb)]
  unfold run maskd atomMolid
  simp only [hra, hZ, hH, hY, hP]

theorem spOf_row (species : List (List Nat)) (ms : Nat) (hrows : ∀ r ∈ species, r.length = ms)
    (m a : Nat) (hm : m < species.length) (ha : a < ms) :
    spOf species (m * ms + a) = spOf [species[m]] a := by
  induction species generalizing m with
  | nil => simp at hm
  | cons r rs ih =>
    have hr : r.length = ms := hrows r List.mem_cons_self
    cases m with
    | zero =>
      simp only [spOf, List.flatten_cons, Nat.zero_mul, Nat.zero_add, List.getElem_cons_zero,
        List.flatten_nil, List.append_nil]
      rw [List.getD_eq_getElem?_getD, List.getD_eq_getElem?_getD,
        List.getElem?_append_left (by rw [hr]; exact ha)]
    | succ m =>
      have hm' : m < rs.length := by simpa using hm
      have := ih (fun r hr => hrows r (List.mem_cons_of_mem _ hr)) m hm'
      simp only [List.getElem_cons_succ]
      rw [← this]
      simp only [spOf, List.flatten_cons]
      rw [List.getD_eq_getElem?_getD, List.getD_eq_getElem?_getD,
        List.getElem?_append_right (by rw [hr, Nat.succ_mul]; omega)]
      congr 2
      rw [hr, Nat.succ_mul]; omega

/-- molecule `m` of a batch of rows, computed alone through `forward`, is the `run 1 …` that the
    alone-vs-batch theorems talk about -/
theorem forward_row (species : List (List Nat)) (ms : Nat) (hrows : ∀ r ∈ species, r.length = ms)
    (m : Nat) (hm : m < species.length) (close0 : Nat → Nat → Bool) :
    forward [species[m]] close0 = run 1 ms (molSp ms (spOf species) m) close0 := by
  have hlen : (species[m]).length = ms := hrows _ (List.getElem_mem hm)
  unfold forward
  simp only [List.length_singleton, molsizeOf, List.head?_cons, Option.map_some, Option.getD_some, hlen]
  apply run_congr_sp
  intro a ha
  rw [Nat.one_mul] at ha
  exact (spOf_row species ms hrows m a hm ha).symm

theorem forward_batch (species : List (List Nat)) (ms : Nat) (hrows : ∀ r ∈ species, r.length = ms)
    (hne : species ≠ []) (close : Nat → Nat → Bool) :
    forward species close = run species.length ms (spOf species) close := by
  unfold forward
  cases species with
  | nil => exact absurd rfl hne
  | cons r rs =>
    simp only [molsizeOf, List.head?_cons, Option.map_some, Option.getD_some,
      hrows r List.mem_cons_self]

end

end Parser
