import PyseqmVerif.Model.NDDO
import Mathlib.Analysis.Real.Sqrt
import Mathlib.Tactic.Ring
import Mathlib.Tactic.NormNum
import Mathlib.Tactic.NormNum.OfScientific
import Mathlib.Tactic.FieldSimp
import Mathlib.Tactic.Linarith
import Mathlib.Tactic.LinearCombination
import Mathlib.Tactic.Positivity
import Mathlib.Tactic.IntervalCases
import Mathlib.Algebra.BigOperators.Ring.Finset
/-!
# Helper lemmas for C06 (NDDO integrals, packed J/K contraction)
-/
namespace NDDO
open Generated.FockTables Finset

/-- code value of integral `k` (heavy–heavy, real arithmetic) -/
noncomputable def riC (ev r da db qa qb ρ0a ρ0b ρ1a ρ1b ρ2a ρ2b : ℝ) (k : ℕ) : ℝ :=
  (riHH Real.sqrt ev r da db qa qb ρ0a ρ0b ρ1a ρ1b ρ2a ρ2b).getD k 0
/-- specification value of integral `k` -/
noncomputable def riS (ev r da db qa qb ρ0a ρ0b ρ1a ρ1b ρ2a ρ2b : ℝ) (k : ℕ) : ℝ :=
  (riSpec Real.sqrt ev r ⟨da, qa, ρ0a, ρ1a, ρ2a⟩ ⟨db, qb, ρ0b, ρ1b, ρ2b⟩).getD k 0

/-- unfold the code-shaped integrals and the point-charge sums, then normalise (the radicands are
    brought to a common polynomial normal form by `ring_nf`) -/
macro "nddo_unfold" : tactic => `(tactic| (
  simp only [riC, riS, riHH, riXH, riHyd, riSpec, riXHSpec, specQxyQxy, ko, List.getD_cons_zero, List.getD_cons_succ,
    interact, interactMP, lsum, isq, sqr,
    dSS, dSZ, dSX, dZZ, dXX, dYY, dXZ, dXY, monopole, dipoleZ, dipoleX, quadZZ, quadXX, quadYY, quadXZ, quadXY,
    List.map_cons, List.map_nil, List.foldl_cons, List.foldl_nil]))

macro "nddo_ring" : tactic => `(tactic| (nddo_unfold; all_goals (try norm_num); all_goals (try ring_nf)))

/-! ## sequential sums -/

theorem sumTo_eq_sum (n : Nat) (f : Nat → ℝ) : sumTo n f = ∑ k ∈ range n, f k := by
  induction n with
  | zero => norm_num [sumTo]
  | succ n ih => simp [sumTo, ih, Finset.sum_range_succ]

/-! ## packed storage -/

/-- for a symmetric block, the weighted packed sum over the 10 upper-triangle entries is the full
    double sum over all 16 entries -/
theorem packU_sum (P : Blk ℝ) (hP : ∀ i j, P i j = P j i) (f : ℕ → ℝ) :
    sumTo 10 (fun k => packU P k * f k) = ∑ l ∈ range 4, ∑ s ∈ range 4, P l s * f (kind l s) := by
  simp only [sumTo, packU, Finset.sum_range_succ, Finset.sum_range_zero]
  norm_num [i0, i1, kind, weight, TRIL_IDX_4, K_ind_4, WEIGHT_10]
  rw [hP 1 0, hP 2 0, hP 2 1, hP 3 0, hP 3 1, hP 3 2]
  ring

/-- scattering the packed vector into the upper triangle and mirroring gives `J (K_ind[i][j])` -/
theorem scatterU_sym (J : ℕ → ℝ) : ∀ i < 4, ∀ j < 4, symU (scatterU J) i j = J (kind i j) := by
  intro i hi j hj
  interval_cases i <;> interval_cases j <;>
    simp [symU, scatterU, setAt, List.range, List.range.loop, i0, i1, kind, TRIL_IDX_4, K_ind_4]

theorem symU_symm (U : Blk ℝ) (i j : ℕ) : symU U i j = symU U j i := by
  unfold symU
  by_cases h : i ≤ j <;> by_cases h' : j ≤ i
  · have : i = j := le_antisymm h h'
    subst this; rfl
  · simp [h, h']
  · simp [h, h']
  · omega

theorem symU_blkAdd (U V : Blk ℝ) (i j : ℕ) :
    symU (blkAdd U V) i j = symU U i j + symU V i j := by
  unfold symU blkAdd; split_ifs <;> rfl

/-! ## bounds for reciprocal square roots (for the numeric witness) -/

theorem inv_sqrt_bounds {x lo hi : ℝ} (hlo : 0 < lo) (h1 : lo ^ 2 < x) (h2 : x < hi ^ 2) (hhi : 0 < hi) :
    1 / hi < 1 / Real.sqrt x ∧ 1 / Real.sqrt x < 1 / lo := by
  have hx : 0 < x := lt_trans (by positivity) h1
  have hs : 0 < Real.sqrt x := Real.sqrt_pos.mpr hx
  have hl : lo < Real.sqrt x := Real.lt_sqrt_of_sq_lt h1
  have hh : Real.sqrt x < hi := by
    rw [Real.sqrt_lt' hhi]; exact h2
  exact ⟨one_div_lt_one_div_of_lt hs hh, one_div_lt_one_div_of_lt hlo hl⟩

end NDDO
