import PyseqmVerif.Model.MDOut
/-!
# Helper lemmas for the output / checkpoint / resume model `MDOut` (core Lean only)

* arithmetic of the resume cursor `pre e o = if e = 0 then 0 else o / e + 1`
  (= number of due steps `≤ o` = `cap e o`);
* closed form of the specification `due e N = (List.range (pre e N)).map (· * e)`;
* one HDF5 stream: `Good` (capacity + correct prefix), the exact invariant `SInv` (cursor and
  prefix after completing step `o`) and the loose invariant `LS` (cursor at or beyond the prefix)
  that survives a partially executed step;
* `mergeRows` (hard kill) keeps rows on which flushed and in-memory view agree;
* the whole process: `PInv c o p` (after completing step `o`), `Loose c o p` (anywhere inside
  step `o+1` before the checkpoint is replaced).
-/
namespace MDOut

/-! ## arithmetic of the cursor -/

/-- cursor after completing step `o` (`_open_resume`), which is also the number of due steps `≤ o` -/
def pre (e o : Nat) : Nat := if e = 0 then 0 else o / e + 1

theorem isDue_iff (e s : Nat) : isDue e s = true ↔ 0 < e ∧ s % e = 0 := by
  simp [isDue]

theorem isDue_zero_cadence (s : Nat) : isDue 0 s = false := by
  simp [isDue]

theorem pre_zero_cadence (o : Nat) : pre 0 o = 0 := by simp [pre]

theorem pre_pos {e : Nat} (he : 0 < e) (o : Nat) : pre e o = o / e + 1 := by
  have : e ≠ 0 := by omega
  simp [pre, this]

theorem cap_eq_pre (e N : Nat) : cap e N = pre e N := by
  unfold cap pre
  split
  · rfl
  · rw [Nat.add_div_right N (by omega)]

theorem succ_div_of_due {e o : Nat} (h : isDue e (o + 1) = true) : (o + 1) / e = o / e + 1 := by
  rw [isDue_iff] at h
  have hd : e ∣ o + 1 := Nat.dvd_of_mod_eq_zero h.2
  have := @Nat.succ_div o e
  simp only [hd, if_true] at this
  exact this

theorem succ_div_of_not_due {e o : Nat} (he : 0 < e) (h : isDue e (o + 1) = false) :
    (o + 1) / e = o / e := by
  have hd : ¬ e ∣ o + 1 := by
    intro hd
    have : isDue e (o + 1) = true := (isDue_iff _ _).2 ⟨he, Nat.mod_eq_zero_of_dvd hd⟩
    rw [h] at this; cases this
  have := @Nat.succ_div o e
  simp only [hd, if_false] at this
  exact this

theorem pre_succ (e o : Nat) :
    pre e (o + 1) = if isDue e (o + 1) then pre e o + 1 else pre e o := by
  rcases Nat.eq_zero_or_pos e with he | he
  · subst he; simp [pre_zero_cadence, isDue_zero_cadence]
  · rw [pre_pos he, pre_pos he]
    cases h : isDue e (o + 1)
    · simp [succ_div_of_not_due he h]
    · simp [succ_div_of_due h]

theorem pre_mono (e : Nat) {o o' : Nat} (h : o ≤ o') : pre e o ≤ pre e o' := by
  unfold pre
  split
  · exact Nat.le_refl _
  · exact Nat.succ_le_succ (Nat.div_le_div_right h)

/-- the row index of a due step, times the cadence, is the step label -/
theorem pre_mul_of_due {e o : Nat} (h : isDue e (o + 1) = true) : pre e o * e = o + 1 := by
  have he : 0 < e := ((isDue_iff _ _).1 h).1
  have hd : e ∣ o + 1 := Nat.dvd_of_mod_eq_zero ((isDue_iff _ _).1 h).2
  rw [pre_pos he, ← succ_div_of_due h]
  exact Nat.div_mul_cancel hd

/-! ## the specification `due` -/

theorem due_succ (e N : Nat) :
    due e (N + 1) = due e N ++ (if isDue e (N + 1) then [N + 1] else []) := by
  unfold due
  rw [List.range_succ, List.filter_append]
  congr 1
  cases h : isDue e (N + 1) <;> simp [h]

theorem due_zero (e : Nat) : due e 0 = if 0 < e then [0] else [] := by
  unfold due; by_cases h : 0 < e <;> simp [h, isDue]

/-- closed form of the specification -/
theorem due_eq_map (e N : Nat) : due e N = (List.range (pre e N)).map (· * e) := by
  induction N with
  | zero =>
    rcases Nat.eq_zero_or_pos e with he | he
    · subst he; simp [due_zero, pre_zero_cadence]
    · simp [due_zero, he, pre_pos he]
  | succ N ih =>
    rw [due_succ, pre_succ, ih]
    cases h : isDue e (N + 1)
    · simp
    · simp [List.range_succ, pre_mul_of_due h]

theorem due_length_pre (e N : Nat) : (due e N).length = pre e N := by
  simp [due_eq_map]

theorem due_getElem? (e N i : Nat) :
    (due e N)[i]? = if i < pre e N then some (i * e) else none := by
  rw [due_eq_map]
  by_cases h : i < pre e N <;> simp [h]

theorem due_prefix (e : Nat) {o o' : Nat} (h : o ≤ o') : ∃ r, due e o' = due e o ++ r := by
  induction o' with
  | zero =>
    have : o = 0 := by omega
    subst this; exact ⟨[], by simp⟩
  | succ n ih =>
    rcases Nat.lt_or_ge o (n + 1) with h1 | h1
    · obtain ⟨r, hr⟩ := ih (by omega)
      exact ⟨r ++ (if isDue e (n + 1) then [n + 1] else []), by rw [due_succ, hr, List.append_assoc]⟩
    · have : o = n + 1 := by omega
      subst this; exact ⟨[], by simp⟩

/-- `due` is prefix-monotone -/
theorem due_take (e : Nat) {o o' : Nat} (h : o ≤ o') :
    (due e o').take (due e o).length = due e o := by
  obtain ⟨r, hr⟩ := due_prefix e h
  rw [hr]; exact List.take_left' rfl

/-! ## one HDF5 stream -/

/-- the capacity is right and the rows of all due steps `≤ o` are in place -/
def Good (e N o : Nat) (rows : Rows) : Prop :=
  rows.length = cap e N ∧
    ∀ i, i < (if e = 0 then 0 else o / e + 1) → rows[i]? = some (some (i * e))

theorem good_iff {e N o : Nat} {rows : Rows} :
    Good e N o rows ↔ rows.length = pre e N ∧ ∀ i, i < pre e o → rows[i]? = some (some (i * e)) := by
  unfold Good; rw [cap_eq_pre]; rfl

theorem Good.anti {e N o o' : Nat} {rows : Rows} (h : Good e N o' rows) (ho : o ≤ o') :
    Good e N o rows := by
  rw [good_iff] at *
  exact ⟨h.1, fun i hi => h.2 i (Nat.lt_of_lt_of_le hi (pre_mono e ho))⟩

/-- a stream that is `Good` up to the last step is the specified stream -/
theorem Good.eq_spec {e N : Nat} {rows : Rows} (h : Good e N N rows) : rows = specRows e N := by
  rw [good_iff] at h
  apply List.ext_getElem?
  intro i
  unfold specRows
  rw [List.getElem?_map, due_getElem?]
  by_cases hi : i < pre e N
  · simp [hi, h.2 i hi]
  · simp only [hi, if_false, Option.map_none]
    rw [List.getElem?_eq_none_iff]; omega

theorem specRows_good (e N : Nat) : Good e N N (specRows e N) := by
  rw [good_iff]
  refine ⟨by simp [specRows, due_length_pre], fun i hi => ?_⟩
  unfold specRows
  rw [List.getElem?_map, due_getElem?]
  simp [hi]

theorem specRows_length (e N : Nat) : (specRows e N).length = cap e N := (specRows_good e N).1

/-- exact stream invariant after completing step `o` -/
structure SInv (e N o : Nat) (w : SW) : Prop where
  cur : w.cur = pre e o
  good : Good e N o w.rows

/-- loose stream invariant: holds anywhere inside step `o+1` -/
structure LS (e N o : Nat) (w : SW) : Prop where
  cur : pre e o ≤ w.cur
  good : Good e N o w.rows

theorem SInv.loose {e N o : Nat} {w : SW} (h : SInv e N o w) : LS e N o w :=
  ⟨Nat.le_of_eq h.cur.symm, h.good⟩

/-- a write at or beyond the prefix bound does not disturb the prefix -/
theorem LS.write {e N o : Nat} {w : SW} (h : LS e N o w) (s : Nat) : LS e N o (w.write s) := by
  unfold SW.write
  split
  · refine ⟨Nat.le_succ_of_le h.cur, ?_⟩
    have hg := h.good
    rw [good_iff] at hg ⊢
    refine ⟨by simpa using hg.1, fun i hi => ?_⟩
    have hne : w.cur ≠ i := by have := h.cur; omega
    simp only [List.getElem?_set, hne, if_false]
    exact hg.2 i hi
  · exact h

theorem LS.step {e N o : Nat} {w : SW} (h : LS e N o w) (s : Nat) : LS e N o (SW.step e w s) := by
  unfold SW.step
  split
  · exact h.write s
  · exact h

/-- a complete step advances the exact invariant -/
theorem SInv.step {e N o : Nat} {w : SW} (h : SInv e N o w) (ho : o + 1 ≤ N) :
    SInv e N (o + 1) (SW.step e w (o + 1)) := by
  have hg := h.good
  rw [good_iff] at hg
  unfold SW.step
  cases hd : isDue e (o + 1)
  · simp only [Bool.false_eq_true, if_false]
    refine ⟨by rw [pre_succ, hd]; simpa using h.cur, ?_⟩
    rw [good_iff, pre_succ, hd]
    exact hg
  · simp only [if_true]
    have hlt : w.cur < w.rows.length := by
      rw [h.cur, hg.1]
      have h1 := pre_succ e o
      rw [hd] at h1
      have h2 := pre_mono e ho
      simp only [if_true] at h1
      omega
    unfold SW.write
    simp only [hlt, if_true]
    refine ⟨by rw [pre_succ, hd]; simp [h.cur], ?_⟩
    rw [good_iff, pre_succ, hd]
    refine ⟨by simpa using hg.1, fun i hi => ?_⟩
    simp only [if_true] at hi
    simp only [List.getElem?_set]
    by_cases hi' : w.cur = i
    · simp only [hi', if_true]
      rw [← hi'] at *
      simp only [hlt, if_true]
      rw [h.cur, pre_mul_of_due hd]
    · simp only [hi', if_false]
      exact hg.2 i (by rw [h.cur] at hi'; omega)

theorem openFresh_inv (e N : Nat) : SInv e N 0 (openFresh e N) := by
  unfold openFresh SW.step
  rcases Nat.eq_zero_or_pos e with he | he
  · subst he
    simp only [isDue_zero_cadence, Bool.false_eq_true, if_false]
    refine ⟨by simp [pre_zero_cadence], ?_⟩
    rw [good_iff]
    refine ⟨by simp [cap_eq_pre], fun i hi => ?_⟩
    rw [pre_zero_cadence] at hi; omega
  · have hd : isDue e 0 = true := by rw [isDue_iff]; exact ⟨he, Nat.zero_mod e⟩
    have hc : 0 < cap e N := by rw [cap_eq_pre, pre_pos he]; exact Nat.succ_pos _
    simp only [hd, if_true, SW.write, List.length_replicate, hc]
    refine ⟨by simp [pre_pos he], ?_⟩
    rw [good_iff]
    refine ⟨by simp [cap_eq_pre], fun i hi => ?_⟩
    have : i = 0 := by rw [pre_pos he] at hi; simp at hi; exact hi
    subst this
    simp [hc]

theorem openResume_inv {e N o : Nat} {rows : Rows} (h : Good e N o rows) :
    SInv e N o (openResume e o rows) := ⟨rfl, h⟩

theorem runSteps_inv {e N o : Nat} {w : SW} (h : SInv e N o w) :
    ∀ k, o + k ≤ N → SInv e N (o + k) (runSteps e o k w)
  | 0, _ => h
  | k + 1, hk => by
    have ih := runSteps_inv h k (by omega)
    exact ih.step (by omega)

/-! ## hard kill: keep-or-lose merge -/

theorem mergeRows_length (mask : Nat) (f m : Rows) :
    (mergeRows mask f m).length = min f.length m.length := by
  simp [mergeRows]

theorem mergeRows_getElem?_of_eq (mask : Nat) {f m : Rows} {i : Nat} {x : Option Nat}
    (hf : f[i]? = some x) (hm : m[i]? = some x) : (mergeRows mask f m)[i]? = some x := by
  simp [mergeRows, List.getElem?_zipIdx, List.getElem?_zipWith, hf, hm]

theorem Good.merge {e N o : Nat} {f m : Rows} (hf : Good e N o f) (hm : Good e N o m) (mask : Nat) :
    Good e N o (mergeRows mask f m) := by
  rw [good_iff] at *
  refine ⟨by rw [mergeRows_length, hf.1, hm.1]; exact Nat.min_self _, fun i hi => ?_⟩
  exact mergeRows_getElem?_of_eq mask (hf.2 i hi) (hm.2 i hi)

/-! ## the checkpoint cell -/

theorem lastCkpt_spec {e o oc : Nat} (h : lastCkpt e o = some oc) :
    0 < oc ∧ oc ≤ o ∧ isDue e oc = true := by
  unfold lastCkpt at h
  split at h
  · cases h
  · rename_i hc
    have he : 0 < e := by omega
    have hoe : e ≤ o := by omega
    injection h with h
    subst h
    refine ⟨Nat.mul_pos (Nat.div_pos hoe he) he, Nat.div_mul_le_self o e, ?_⟩
    rw [isDue_iff]
    exact ⟨he, Nat.mul_mod_left _ _⟩

theorem lastCkpt_zero (e : Nat) : lastCkpt e 0 = none := by
  unfold lastCkpt
  have : e = 0 ∨ 0 < e := by omega
  simp [this]

theorem lastCkpt_of_due {e o : Nat} (h : isDue e o = true) (ho : 0 < o) : lastCkpt e o = some o := by
  rw [isDue_iff] at h
  have hd : e ∣ o := Nat.dvd_of_mod_eq_zero h.2
  have hle : e ≤ o := Nat.le_of_dvd ho hd
  unfold lastCkpt
  have : ¬ (e = 0 ∨ o < e) := by omega
  simp only [this, if_false]
  rw [Nat.div_mul_cancel hd]

theorem lastCkpt_succ_of_not_due {e o : Nat} (h : isDue e (o + 1) = false) :
    lastCkpt e (o + 1) = lastCkpt e o := by
  rcases Nat.eq_zero_or_pos e with he | he
  · subst he; simp [lastCkpt]
  · have hne : o + 1 ≠ e := by
      intro heq
      have : isDue e (o + 1) = true := by rw [isDue_iff, heq]; exact ⟨he, Nat.mod_self e⟩
      rw [h] at this; cases this
    unfold lastCkpt
    rw [succ_div_of_not_due he h]
    by_cases hlt : o < e
    · have h1 : e = 0 ∨ o + 1 < e := by omega
      have h2 : e = 0 ∨ o < e := by omega
      simp [h1, h2]
    · have h1 : ¬ (e = 0 ∨ o + 1 < e) := by omega
      have h2 : ¬ (e = 0 ∨ o < e) := by omega
      simp [h1, h2]

/-! ## the actions of one step, one at a time -/

def actScreen (c : Cfg) (s upto : Nat) (p : Proc) : Proc :=
  if 0 < upto && isDue c.print s then { p with screen := p.screen ++ [s] } else p

def actData (c : Cfg) (s upto : Nat) (p : Proc) : Proc :=
  if 1 < upto then { p with h5 := { p.h5 with data := SW.step c.h5.data p.h5.data s } } else p

def actVec (c : Cfg) (s upto : Nat) (p : Proc) : Proc :=
  if 2 < upto then { p with h5 := { p.h5 with
              coords := SW.step c.h5.coords p.h5.coords s
              vels := SW.step c.h5.vels p.h5.vels s
              forces := SW.step c.h5.forces p.h5.forces s } } else p

def actXyz (c : Cfg) (s upto : Nat) (p : Proc) : Proc :=
  if 3 < upto && isDue c.xyz s then { p with xyz := p.xyz ++ [s] } else p

def actFlush (c : Cfg) (s upto : Nat) (p : Proc) : Proc :=
  if 4 < upto && isDue c.ckpt s then p.flush else p

def actCkpt (c : Cfg) (s upto : Nat) (p : Proc) : Proc :=
  if 6 < upto && isDue c.ckpt s then { p with ckpt := some (s, p.xyz.length) } else p

theorem stepActs_eq (c : Cfg) (s upto : Nat) (p : Proc) :
    stepActs c s upto p =
      actCkpt c s upto (actFlush c s upto (actXyz c s upto (actVec c s upto
        (actData c s upto (actScreen c s upto p))))) := rfl

/-- closed form of a completely executed step -/
def fullStep (c : Cfg) (s : Nat) (p : Proc) : Proc :=
  let q : Proc :=
    { h5 := { data := SW.step c.h5.data p.h5.data s
              coords := SW.step c.h5.coords p.h5.coords s
              vels := SW.step c.h5.vels p.h5.vels s
              forces := SW.step c.h5.forces p.h5.forces s }
      h5Flushed := p.h5Flushed
      xyz := if isDue c.xyz s then p.xyz ++ [s] else p.xyz
      xyzFlushed := p.xyzFlushed
      ckpt := p.ckpt
      screen := if isDue c.print s then p.screen ++ [s] else p.screen }
  if isDue c.ckpt s then
    { q with h5Flushed := q.h5.map (·.rows), xyzFlushed := q.xyz.length, ckpt := some (s, q.xyz.length) }
  else q

theorem stepActs_full (c : Cfg) (s : Nat) {upto : Nat} (h : 7 ≤ upto) (p : Proc) :
    stepActs c s upto p = fullStep c s p := by
  have h0 : 0 < upto := by omega
  have h1 : 1 < upto := by omega
  have h2 : 2 < upto := by omega
  have h3 : 3 < upto := by omega
  have h4 : 4 < upto := by omega
  have h6 : 6 < upto := by omega
  simp only [stepActs, fullStep, h0, h1, h2, h3, h4, h6, decide_true, Bool.true_and, if_true]
  cases isDue c.print s <;> cases isDue c.xyz s <;> cases isDue c.ckpt s <;> rfl

/-! ## the whole process -/

/-- what is guaranteed to be on disk once the checkpoint of step `oc` exists -/
structure Durable (c : Cfg) (oc : Nat) (p : Proc) : Prop where
  xyz : (due c.xyz oc).length ≤ p.xyzFlushed
  data : Good c.h5.data c.steps oc p.h5Flushed.data
  coords : Good c.h5.coords c.steps oc p.h5Flushed.coords
  vels : Good c.h5.vels c.steps oc p.h5Flushed.vels
  forces : Good c.h5.forces c.steps oc p.h5Flushed.forces

/-- process invariant after completing step `o` -/
structure PInv (c : Cfg) (o : Nat) (p : Proc) : Prop where
  le : o ≤ c.steps
  data : SInv c.h5.data c.steps o p.h5.data
  coords : SInv c.h5.coords c.steps o p.h5.coords
  vels : SInv c.h5.vels c.steps o p.h5.vels
  forces : SInv c.h5.forces c.steps o p.h5.forces
  xyz : p.xyz = due c.xyz o
  flushed_le : p.xyzFlushed ≤ p.xyz.length
  ckpt : p.ckpt = (lastCkpt c.ckpt o).map (fun s => (s, (due c.xyz s).length))
  dur : ∀ oc, lastCkpt c.ckpt o = some oc → Durable c oc p

/-- process invariant anywhere inside step `o+1`, before the checkpoint file is replaced -/
structure Loose (c : Cfg) (o : Nat) (p : Proc) : Prop where
  le : o ≤ c.steps
  data : LS c.h5.data c.steps o p.h5.data
  coords : LS c.h5.coords c.steps o p.h5.coords
  vels : LS c.h5.vels c.steps o p.h5.vels
  forces : LS c.h5.forces c.steps o p.h5.forces
  xyz : ∃ r, p.xyz = due c.xyz o ++ r
  flushed_le : p.xyzFlushed ≤ p.xyz.length
  ckpt : p.ckpt = (lastCkpt c.ckpt o).map (fun s => (s, (due c.xyz s).length))
  dur : ∀ oc, lastCkpt c.ckpt o = some oc → Durable c oc p

theorem PInv.loose {c : Cfg} {o : Nat} {p : Proc} (h : PInv c o p) : Loose c o p :=
  { le := h.le, data := h.data.loose, coords := h.coords.loose, vels := h.vels.loose,
    forces := h.forces.loose, xyz := ⟨[], by simp [h.xyz]⟩, flushed_le := h.flushed_le,
    ckpt := h.ckpt, dur := h.dur }

theorem Loose.actScreen {c : Cfg} {o : Nat} {p : Proc} (h : Loose c o p) (s upto : Nat) :
    Loose c o (actScreen c s upto p) := by
  unfold MDOut.actScreen
  split
  · exact { le := h.le, data := h.data, coords := h.coords, vels := h.vels, forces := h.forces,
            xyz := h.xyz, flushed_le := h.flushed_le, ckpt := h.ckpt,
            dur := fun oc hoc => ⟨(h.dur oc hoc).xyz, (h.dur oc hoc).data, (h.dur oc hoc).coords,
              (h.dur oc hoc).vels, (h.dur oc hoc).forces⟩ }
  · exact h

theorem Loose.actData {c : Cfg} {o : Nat} {p : Proc} (h : Loose c o p) (s upto : Nat) :
    Loose c o (actData c s upto p) := by
  unfold MDOut.actData
  split
  · exact { le := h.le, data := h.data.step s, coords := h.coords, vels := h.vels,
            forces := h.forces, xyz := h.xyz, flushed_le := h.flushed_le, ckpt := h.ckpt,
            dur := fun oc hoc => ⟨(h.dur oc hoc).xyz, (h.dur oc hoc).data, (h.dur oc hoc).coords,
              (h.dur oc hoc).vels, (h.dur oc hoc).forces⟩ }
  · exact h

theorem Loose.actVec {c : Cfg} {o : Nat} {p : Proc} (h : Loose c o p) (s upto : Nat) :
    Loose c o (actVec c s upto p) := by
  unfold MDOut.actVec
  split
  · exact { le := h.le, data := h.data, coords := h.coords.step s, vels := h.vels.step s,
            forces := h.forces.step s, xyz := h.xyz, flushed_le := h.flushed_le, ckpt := h.ckpt,
            dur := fun oc hoc => ⟨(h.dur oc hoc).xyz, (h.dur oc hoc).data, (h.dur oc hoc).coords,
              (h.dur oc hoc).vels, (h.dur oc hoc).forces⟩ }
  · exact h

theorem Loose.actXyz {c : Cfg} {o : Nat} {p : Proc} (h : Loose c o p) (s upto : Nat) :
    Loose c o (actXyz c s upto p) := by
  unfold MDOut.actXyz
  split
  · obtain ⟨r, hr⟩ := h.xyz
    exact { le := h.le, data := h.data, coords := h.coords, vels := h.vels,
            forces := h.forces,
            xyz := ⟨r ++ [s], by show p.xyz ++ [s] = _; rw [hr, List.append_assoc]⟩,
            flushed_le := by
              show p.xyzFlushed ≤ (p.xyz ++ [s]).length
              have := h.flushed_le
              simp only [List.length_append, List.length_singleton]; omega
            ckpt := h.ckpt,
            dur := fun oc hoc => ⟨(h.dur oc hoc).xyz, (h.dur oc hoc).data, (h.dur oc hoc).coords,
              (h.dur oc hoc).vels, (h.dur oc hoc).forces⟩ }
  · exact h

theorem Loose.durable_of_flush {c : Cfg} {o oc : Nat} {p : Proc} (h : Loose c o p) (hoc : oc ≤ o) :
    Durable c oc p.flush := by
  obtain ⟨r, hr⟩ := h.xyz
  refine ⟨?_, h.data.good.anti hoc, h.coords.good.anti hoc, h.vels.good.anti hoc,
    h.forces.good.anti hoc⟩
  show (due c.xyz oc).length ≤ p.xyz.length
  rw [hr, List.length_append, due_length_pre, due_length_pre]
  have := pre_mono c.xyz hoc
  omega

theorem Loose.actFlush {c : Cfg} {o : Nat} {p : Proc} (h : Loose c o p) (s upto : Nat) :
    Loose c o (actFlush c s upto p) := by
  unfold MDOut.actFlush
  split
  · exact { le := h.le, data := h.data, coords := h.coords, vels := h.vels,
            forces := h.forces, xyz := h.xyz, flushed_le := Nat.le_refl _, ckpt := h.ckpt,
            dur := fun oc hoc => h.durable_of_flush (lastCkpt_spec hoc).2.1 }
  · exact h

theorem Loose.actCkpt {c : Cfg} {o : Nat} {p : Proc} (h : Loose c o p) (s : Nat) {upto : Nat}
    (hu : upto ≤ 6) : Loose c o (actCkpt c s upto p) := by
  unfold MDOut.actCkpt
  have : ¬ 6 < upto := by omega
  simp only [this, decide_false, Bool.false_and, Bool.false_eq_true, if_false]
  exact h

/-- a partially executed step (any step label, any number `≤ 6` of actions) keeps the loose invariant -/
theorem Loose.stepActs {c : Cfg} {o : Nat} {p : Proc} (h : Loose c o p) (s : Nat) {upto : Nat}
    (hu : upto ≤ 6) : Loose c o (stepActs c s upto p) := by
  rw [stepActs_eq]
  exact (((((h.actScreen s upto).actData s upto).actVec s upto).actXyz s upto).actFlush s upto).actCkpt
    s hu

theorem xyz_step {e o : Nat} {l : List Nat} (h : l = due e o) :
    (if isDue e (o + 1) then l ++ [o + 1] else l) = due e (o + 1) := by
  rw [due_succ, h]
  cases isDue e (o + 1) <;> simp

/-- a completely executed step advances the exact invariant -/
theorem PInv.fullStep {c : Cfg} {o : Nat} {p : Proc} (h : PInv c o p) (ho : o + 1 ≤ c.steps) :
    PInv c (o + 1) (fullStep c (o + 1) p) := by
  have hx := xyz_step (e := c.xyz) h.xyz
  have hfl : p.xyzFlushed ≤ (if isDue c.xyz (o + 1) then p.xyz ++ [o + 1] else p.xyz).length := by
    have := h.flushed_le
    split
    · simp only [List.length_append, List.length_singleton]; omega
    · exact this
  unfold MDOut.fullStep
  cases hd : isDue c.ckpt (o + 1)
  · simp only [Bool.false_eq_true, if_false]
    exact { le := ho, data := h.data.step ho, coords := h.coords.step ho, vels := h.vels.step ho,
            forces := h.forces.step ho, xyz := hx, flushed_le := hfl,
            ckpt := by rw [lastCkpt_succ_of_not_due hd]; exact h.ckpt
            dur := fun oc hoc => by
              rw [lastCkpt_succ_of_not_due hd] at hoc
              exact ⟨(h.dur oc hoc).xyz, (h.dur oc hoc).data, (h.dur oc hoc).coords,
                (h.dur oc hoc).vels, (h.dur oc hoc).forces⟩ }
  · simp only [if_true]
    have hl := lastCkpt_of_due hd (Nat.succ_pos o)
    exact { le := ho, data := h.data.step ho, coords := h.coords.step ho, vels := h.vels.step ho,
            forces := h.forces.step ho, xyz := hx, flushed_le := Nat.le_refl _,
            ckpt := by rw [hl]; simp only [Option.map_some]; rw [hx]
            dur := fun oc hoc => by
              rw [hl] at hoc
              injection hoc with hoc
              subst hoc
              exact ⟨by show _ ≤ List.length _; rw [hx]; exact Nat.le_refl _,
                (h.data.step ho).good, (h.coords.step ho).good,
                (h.vels.step ho).good, (h.forces.step ho).good⟩ }

theorem PInv.stepActs {c : Cfg} {o : Nat} {p : Proc} (h : PInv c o p) (ho : o + 1 ≤ c.steps)
    {upto : Nat} (hu : 7 ≤ upto) : PInv c (o + 1) (stepActs c (o + 1) upto p) := by
  rw [stepActs_full c _ hu]; exact h.fullStep ho

theorem PInv.runTo {c : Cfg} {o : Nat} {p : Proc} (h : PInv c o p) :
    ∀ k, o + k ≤ c.steps → PInv c (o + k) (runTo c o k p)
  | 0, _ => h
  | k + 1, hk => (PInv.runTo h k (by omega)).stepActs (by omega) (Nat.le_refl 7)

theorem startFresh_inv (c : Cfg) : PInv c 0 (startFresh c) :=
  { le := Nat.zero_le _
    data := openFresh_inv _ _, coords := openFresh_inv _ _, vels := openFresh_inv _ _,
    forces := openFresh_inv _ _
    xyz := by rw [due_zero]; rfl
    flushed_le := Nat.zero_le _
    ckpt := by rw [lastCkpt_zero]; rfl
    dur := fun oc hoc => by rw [lastCkpt_zero] at hoc; cases hoc }

/-- at the end of the run the soft close leaves exactly the specified disk -/
theorem PInv.closeSoft_eq {c : Cfg} {p : Proc} (h : PInv c c.steps p) : p.closeSoft = specDisk c := by
  unfold Proc.closeSoft specDisk Quad.map
  dsimp only
  rw [← h.data.good.eq_spec, ← h.coords.good.eq_spec, ← h.vels.good.eq_spec,
    ← h.forces.good.eq_spec, ← h.xyz, ← h.ckpt]

/-! ## the screen -/

theorem fullStep_screen (c : Cfg) (s : Nat) (p : Proc) :
    (fullStep c s p).screen = if isDue c.print s then p.screen ++ [s] else p.screen := by
  unfold fullStep
  cases isDue c.ckpt s <;> rfl

theorem runTo_screen (c : Cfg) (p : Proc) (hp : p.screen = []) :
    ∀ k, (runTo c 0 k p).screen = (due c.print k).filter (0 < ·)
  | 0 => by
    show p.screen = _
    rw [hp, due_zero]; split <;> simp
  | k + 1 => by
    show (stepActs c (0 + k + 1) 7 (runTo c 0 k p)).screen = _
    rw [stepActs_full c _ (Nat.le_refl 7), fullStep_screen, runTo_screen c p hp k, due_succ,
      List.filter_append, Nat.zero_add]
    cases isDue c.print (k + 1) <;> simp

/-! ## one segment, with the starting process made explicit -/

def segBody (c : Cfg) (p : Proc) (o : Nat) (cr : Option Crash) : Disk × List Nat :=
  match cr with
  | some k =>
    if o < k.step ∧ k.step ≤ c.steps then
      let p := runTo c o (k.step - 1 - o) p
      let p := stepActs c k.step k.upto p
      (if k.hard then p.closeHard k.mask else p.closeSoft, p.screen)
    else
      let p := runTo c o (c.steps - o) p
      (p.closeSoft, p.screen)
  | none =>
    let p := runTo c o (c.steps - o) p
    (p.closeSoft, p.screen)

theorem segment_eq (c : Cfg) (d : Option Disk) (cr : Option Crash) :
    segment c d cr = segBody c (start c d).1 (start c d).2 cr := rfl

/-- running to the end from any state satisfying the process invariant gives the specified disk -/
theorem PInv.complete {c : Cfg} {o : Nat} {p : Proc} (h : PInv c o p) :
    (MDOut.runTo c o (c.steps - o) p).closeSoft = specDisk c := by
  have hle := h.le
  have h1 := h.runTo (c.steps - o) (by omega)
  have h2 : o + (c.steps - o) = c.steps := by omega
  rw [h2] at h1
  exact h1.closeSoft_eq

end MDOut
