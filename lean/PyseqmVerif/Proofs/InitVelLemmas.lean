import PyseqmVerif.Proofs.MDLemmas
import PyseqmVerif.Model.InitVel
import Mathlib.Analysis.SpecialFunctions.Sqrt
import Mathlib.Tactic.FieldSimp
import Mathlib.Tactic.Positivity
/-!
# Helper lemmas for C13: `Model/InitVel.lean` at `ℝ` (sums as `Finset` sums, scaling laws,
the identity `L(v - ω × r) = L(v) - I ω` for the code's inertia matrix)
-/

namespace InitVel
open Verlet MDL Finset

/-! ## sums of mapped / zipped lists as `Finset` sums -/

theorem lsum_map_range {β : Type} (f : β → ℝ) (l : List β) (d : β) :
    lsum (l.map f) = ∑ i ∈ range l.length, f (l.getD i d) := by
  rw [lsum_eq_range _ l.length (by simp)]
  apply Finset.sum_congr rfl
  intro i hi
  exact getD_map f l i d 0 (Finset.mem_range.mp hi)

theorem lsum_zipWith_range {β γ : Type} (f : β → γ → ℝ) (l : List β) (l' : List γ) (d : β) (d' : γ)
    (h : l.length = l'.length) :
    lsum (List.zipWith f l l') = ∑ i ∈ range l.length, f (l.getD i d) (l'.getD i d') := by
  rw [lsum_eq_range _ l.length (by simp [h])]
  apply Finset.sum_congr rfl
  intro i hi
  have hi := Finset.mem_range.mp hi
  exact getD_zipWith f l l' i d d' 0 hi (h ▸ hi)

theorem dotm_eq (m v : List ℝ) (h : m.length = v.length) :
    dotm m v = ∑ i ∈ range m.length, m.getD i 0 * v.getD i 0 := by
  unfold dotm; exact lsum_zipWith_range _ m v 0 0 h

/-! ## kinetic energy under a uniform scaling -/

theorem kineticEnergy_scale (kes α : ℝ) (m v : List ℝ) (h : m.length = v.length) :
    kineticEnergy kes m (v.map (fun vi => vi * α)) = α ^ 2 * kineticEnergy kes m v := by
  rw [kineticEnergy_closed kes m _ (by simp [h]), kineticEnergy_closed kes m v h]
  rw [List.length_map]
  have : ∀ i, (v.map (fun vi => vi * α)).getD i 0 = v.getD i 0 * α := fun i => getD_map₀ _ (by norm_num) _ _
  simp only [this]
  have : ∑ i ∈ range v.length, m.getD i 0 * (v.getD i 0 * α) ^ 2
      = α ^ 2 * ∑ i ∈ range v.length, m.getD i 0 * v.getD i 0 ^ 2 := by
    rw [Finset.mul_sum]
    apply Finset.sum_congr rfl
    intro i _; ring
  rw [this]; ring

theorem temperature_scale (c ek ts ndof : ℝ) : temperature (c * ek) ts ndof = c * temperature ek ts ndof := by
  unfold temperature; ring

/-- zero 3-vector (default of `getD` on `(N,3)` arrays) -/
def z3 : V3 ℝ := (0, 0, 0)

theorem massMask_getD (m : List ℝ) (i : ℕ) :
    (massMask m).getD i 0 = if 0 < m.getD i 0 then 1 else 0 := by
  unfold massMask
  exact getD_map₀ _ (by simp) _ _

theorem removeComMasked_getD (m v : List ℝ) (h : m.length = v.length) (i : ℕ) :
    (removeComMasked m v).getD i 0
      = v.getD i 0 - dotm m v / lsum m * (if 0 < m.getD i 0 then 1 else 0) := by
  unfold removeComMasked
  simp only []
  rw [getD_zipWith₀ _ (by norm_num) v (massMask m) (by simp [massMask, h]), massMask_getD]

/-! ## the `(N,3)` sums -/

theorem angMom_eq (m : List ℝ) (r v : List (V3 ℝ)) (hr : r.length = m.length) (hv : v.length = m.length) :
    angMom m r v =
      (∑ i ∈ range m.length, m.getD i 0 * (cross (r.getD i z3) (v.getD i z3)).1,
       ∑ i ∈ range m.length, m.getD i 0 * (cross (r.getD i z3) (v.getD i z3)).2.1,
       ∑ i ∈ range m.length, m.getD i 0 * (cross (r.getD i z3) (v.getD i z3)).2.2) := by
  have hlen : (List.zipWith (fun mi c => smul3 mi c) m (List.zipWith cross r v)).length = m.length := by
    simp [hr, hv]
  have hget : ∀ i ∈ range m.length,
      (List.zipWith (fun mi c => smul3 mi c) m (List.zipWith cross r v)).getD i z3
        = smul3 (m.getD i 0) (cross (r.getD i z3) (v.getD i z3)) := by
    intro i hi
    have hi := Finset.mem_range.mp hi
    rw [getD_zipWith _ m _ i 0 z3 z3 hi (by simp [hr, hv, hi]),
      getD_zipWith cross r v i z3 z3 z3 (hr ▸ hi) (hv ▸ hi)]
  unfold angMom sum3
  rw [lsum_map_range _ _ z3, lsum_map_range _ _ z3, lsum_map_range _ _ z3, hlen]
  simp only [Prod.mk.injEq]
  refine ⟨?_, ?_, ?_⟩ <;>
  · apply Finset.sum_congr rfl
    intro i hi
    rw [hget i hi]; rfl

theorem inertiaTrace_eq (m : List ℝ) (r : List (V3 ℝ)) (hr : r.length = m.length) :
    inertiaTrace m r = ∑ i ∈ range m.length, m.getD i 0 * dot3 (r.getD i z3) (r.getD i z3) := by
  unfold inertiaTrace; exact lsum_zipWith_range _ m r 0 z3 hr.symm

theorem outerSum_eq (pa pb : V3 ℝ → ℝ) (m : List ℝ) (r : List (V3 ℝ)) (hr : r.length = m.length) :
    outerSum pa pb m r = ∑ i ∈ range m.length, m.getD i 0 * pa (r.getD i z3) * pb (r.getD i z3) := by
  unfold outerSum; exact lsum_zipWith_range _ m r 0 z3 hr.symm

theorem subCross_getD (ω : V3 ℝ) (r v : List (V3 ℝ)) (h : v.length = r.length) (i : ℕ) (hi : i < r.length) :
    (List.zipWith (fun vi ri => sub3 vi (cross ω ri)) v r).getD i z3
      = sub3 (v.getD i z3) (cross ω (r.getD i z3)) :=
  getD_zipWith _ v r i z3 z3 z3 (h ▸ hi) hi

theorem sub3_mk (a b c a' b' c' : ℝ) : sub3 (a, b, c) (a', b', c') = (a - a', b - b', c - c') := rfl

/-- `L(v - ω × r) = L(v) - I ω`: the code's inertia matrix is the operator `ω ↦ Σ m r × (ω × r)` -/
theorem angMom_subCross (m : List ℝ) (r v : List (V3 ℝ)) (ω : V3 ℝ)
    (hr : r.length = m.length) (hv : v.length = m.length) :
    angMom m r (List.zipWith (fun vi ri => sub3 vi (cross ω ri)) v r)
      = sub3 (angMom m r v) (mulVec3 (inertia m r) ω) := by
  rw [angMom_eq m r _ hr (by simp [hr, hv]), angMom_eq m r v hr hv]
  have hget : ∀ i ∈ range m.length,
      (List.zipWith (fun vi ri => sub3 vi (cross ω ri)) v r).getD i z3
        = sub3 (v.getD i z3) (cross ω (r.getD i z3)) := fun i hi =>
    subCross_getD ω r v (by rw [hr, hv]) i (hr ▸ Finset.mem_range.mp hi)
  unfold inertia mulVec3
  simp only [inertiaTrace_eq m r hr, outerSum_eq _ _ m r hr]
  obtain ⟨a, b, c⟩ := ω
  rw [sub3_mk]
  simp only [Prod.mk.injEq]
  refine ⟨?_, ?_, ?_⟩
  · rw [Finset.sum_congr rfl (fun i hi => by rw [hget i hi])]
    simp only [dot3, Finset.sum_mul, ← Finset.sum_sub_distrib, ← Finset.sum_add_distrib]
    apply Finset.sum_congr rfl
    intro i _
    simp only [sub3, cross]; ring
  · rw [Finset.sum_congr rfl (fun i hi => by rw [hget i hi])]
    simp only [dot3, Finset.sum_mul, ← Finset.sum_sub_distrib, ← Finset.sum_add_distrib]
    apply Finset.sum_congr rfl
    intro i _
    simp only [sub3, cross]; ring
  · rw [Finset.sum_congr rfl (fun i hi => by rw [hget i hi])]
    simp only [dot3, Finset.sum_mul, ← Finset.sum_sub_distrib, ← Finset.sum_add_distrib]
    apply Finset.sum_congr rfl
    intro i _
    simp only [sub3, cross]; ring

theorem dotm_map (p : V3 ℝ → ℝ) (m : List ℝ) (l : List (V3 ℝ)) (h : l.length = m.length) :
    dotm m (l.map p) = ∑ i ∈ range m.length, m.getD i 0 * p (l.getD i z3) := by
  rw [dotm_eq m _ (by simp [h])]
  apply Finset.sum_congr rfl
  intro i hi
  rw [getD_map p l i z3 0 (h ▸ Finset.mem_range.mp hi)]

theorem restoreKE_dotm (α : ℝ) (m v : List ℝ) (h : m.length = v.length) :
    dotm m (v.map (fun vi => vi * α)) = α * dotm m v := by
  rw [dotm_eq m _ (by simp [h]), dotm_eq m v h, Finset.mul_sum]
  apply Finset.sum_congr rfl
  intro i _
  rw [getD_map₀ _ (by norm_num)]; ring

/-! ## the `(N,3)` plumbing of `zeroCom` -/

/-- `v.mul_(alpha)` on an `(N,3)` array -/
def scale3 (α : ℝ) (p : V3 ℝ) : V3 ℝ := (p.1 * α, p.2.1 * α, p.2.2 * α)

theorem removeCom_length (m v : List ℝ) : (removeCom m v).length = v.length := by simp [removeCom]

theorem zip3_length (a b c : List ℝ) (hb : b.length = a.length) (hc : c.length = a.length) :
    (zip3 a b c).length = a.length := by simp [zip3, hb, hc]

theorem zip3_getD (a b c : List ℝ) (hb : b.length = a.length) (hc : c.length = a.length) (i : ℕ)
    (hi : i < a.length) : (zip3 a b c).getD i z3 = (a.getD i 0, b.getD i 0, c.getD i 0) := by
  unfold zip3
  rw [getD_zipWith _ a _ i 0 ((0 : ℝ), (0 : ℝ)) z3 hi (by simp [hb, hc, hi]),
    getD_zipWith _ b c i 0 0 ((0 : ℝ), (0 : ℝ)) (hb ▸ hi) (hc ▸ hi)]

theorem col1_zip3 (a b c : List ℝ) (hb : b.length = a.length) (hc : c.length = a.length) :
    col1 (zip3 a b c) = a := by
  apply ext_getD _ _ (by simp [col1, zip3_length a b c hb hc])
  intro i
  by_cases hi : i < a.length
  · unfold col1
    rw [getD_map _ _ i z3 0 (by rw [zip3_length a b c hb hc]; exact hi), zip3_getD a b c hb hc i hi]
  · rw [getD_default _ _ (by simp [col1, zip3_length a b c hb hc]; omega), getD_default _ _ (by omega)]

theorem col2_zip3 (a b c : List ℝ) (hb : b.length = a.length) (hc : c.length = a.length) :
    col2 (zip3 a b c) = b := by
  apply ext_getD _ _ (by simp [col2, zip3_length a b c hb hc, hb])
  intro i
  by_cases hi : i < a.length
  · unfold col2
    rw [getD_map _ _ i z3 0 (by rw [zip3_length a b c hb hc]; exact hi), zip3_getD a b c hb hc i hi]
  · rw [getD_default _ _ (by simp [col2, zip3_length a b c hb hc]; omega), getD_default _ _ (by omega)]

theorem col3_zip3 (a b c : List ℝ) (hb : b.length = a.length) (hc : c.length = a.length) :
    col3 (zip3 a b c) = c := by
  apply ext_getD _ _ (by simp [col3, zip3_length a b c hb hc, hc])
  intro i
  by_cases hi : i < a.length
  · unfold col3
    rw [getD_map _ _ i z3 0 (by rw [zip3_length a b c hb hc]; exact hi), zip3_getD a b c hb hc i hi]
  · rw [getD_default _ _ (by simp [col3, zip3_length a b c hb hc]; omega), getD_default _ _ (by omega)]

theorem removeCom3_length (m : List ℝ) (v : List (V3 ℝ)) : (removeCom3 m v).length = v.length := by
  unfold removeCom3
  rw [zip3_length _ _ _ (by simp [removeCom_length, col1, col2]) (by simp [removeCom_length, col1, col3])]
  simp [removeCom_length, col1]

theorem removeCom3_cols (m : List ℝ) (v : List (V3 ℝ)) :
    col1 (removeCom3 m v) = removeCom m (col1 v) ∧ col2 (removeCom3 m v) = removeCom m (col2 v) ∧
    col3 (removeCom3 m v) = removeCom m (col3 v) := by
  have hb : (removeCom m (col2 v)).length = (removeCom m (col1 v)).length := by
    simp [removeCom_length, col1, col2]
  have hc : (removeCom m (col3 v)).length = (removeCom m (col1 v)).length := by
    simp [removeCom_length, col1, col3]
  exact ⟨col1_zip3 _ _ _ hb hc, col2_zip3 _ _ _ hb hc, col3_zip3 _ _ _ hb hc⟩

theorem rep3_length (m : List ℝ) : (rep3 m).length = 3 * m.length := by
  induction m with
  | nil => rfl
  | cons a m ih => simp [rep3, List.flatMap_cons] at ih ⊢; omega

theorem flatten3_length (v : List (V3 ℝ)) : (flatten3 v).length = 3 * v.length := by
  induction v with
  | nil => rfl
  | cons a v ih => simp [flatten3, List.flatMap_cons] at ih ⊢; omega

theorem flatten3_map_scale (α : ℝ) (v : List (V3 ℝ)) :
    flatten3 (v.map (scale3 α)) = (flatten3 v).map (fun x => x * α) := by
  induction v with
  | nil => rfl
  | cons a v ih =>
    simp only [flatten3, List.map_cons, List.flatMap_cons, List.map_append] at ih ⊢
    rw [ih]; rfl

theorem kineticEnergy3_scale (kes α : ℝ) (m : List ℝ) (v : List (V3 ℝ)) (h : v.length = m.length) :
    kineticEnergy3 kes m (v.map (scale3 α)) = α ^ 2 * kineticEnergy3 kes m v := by
  unfold kineticEnergy3
  rw [flatten3_map_scale, kineticEnergy_scale kes α _ _ (by rw [rep3_length, flatten3_length, h])]

theorem cols_map_scale (α : ℝ) (v : List (V3 ℝ)) :
    col1 (v.map (scale3 α)) = (col1 v).map (fun x => x * α) ∧
    col2 (v.map (scale3 α)) = (col2 v).map (fun x => x * α) ∧
    col3 (v.map (scale3 α)) = (col3 v).map (fun x => x * α) := by
  simp [col1, col2, col3, scale3, Function.comp_def]

theorem angMom_map_scale (α : ℝ) (m : List ℝ) (r v : List (V3 ℝ)) (hr : r.length = m.length)
    (hv : v.length = m.length) :
    angMom m r (v.map (scale3 α))
      = (α * (angMom m r v).1, α * (angMom m r v).2.1, α * (angMom m r v).2.2) := by
  rw [angMom_eq m r _ hr (by simp [hv]), angMom_eq m r v hr hv]
  simp only [Prod.mk.injEq, Finset.mul_sum]
  refine ⟨?_, ?_, ?_⟩ <;>
  · apply Finset.sum_congr rfl
    intro i hi
    rw [getD_map (scale3 α) v i z3 z3 (hv ▸ Finset.mem_range.mp hi)]
    simp only [cross, scale3]; ring

theorem removeCom_getD (m v : List ℝ) (i : ℕ) (hi : i < v.length) :
    (removeCom m v).getD i 0 = v.getD i 0 - dotm m v / lsum m := by
  unfold removeCom
  exact getD_map _ v i 0 0 hi

end InitVel
