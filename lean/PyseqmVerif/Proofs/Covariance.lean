import Mathlib.LinearAlgebra.UnitaryGroup
import Mathlib.LinearAlgebra.Matrix.Trace
import Mathlib.Algebra.BigOperators.Fin
import Mathlib.Data.Real.Basic
import Mathlib.Tactic.Ring
import Mathlib.Tactic.LinearCombination
import Mathlib.Tactic.NormNum
/-!
# Tensor covariance lemmas (helpers for `Properties/C02b.lean`)

Index-notation machinery for the rotational covariance of the rotated two-centre two-electron integral block
(`w_withquaternion`, `seqm/seqm_functions/two_elec_two_center_int.py:1384–1574`).

* `rot1 … rot4`: the action of a square matrix `T` on rank-1 … rank-4 tensors (one factor `T` per index);
* on `Fin 3`: every tensor built from a vector `v` and a symmetric 2-tensor `D` by products and index
  placement is covariant (`cov_f2`, `cov_f3`, `cov_f4`), and `D = δ − v vᵀ` itself is covariant under an
  orthogonal `R` (`cov_transverse`) — this is the only place where `R Rᵀ = 1` is used;
* `orbRot R = diag(1, R)`, the representation on the minimal `(s, p_x, p_y, p_z)` basis;
* generic contraction lemmas (`sum_mul_conj`, `coulomb_matrix_covariant`, `coulomb_energy_invariant`).
-/

namespace Covariance
open Finset Matrix

/-! ## the action of `T` on tensors of rank 1–4 (nested form) -/

section generic
variable {n : Type} [Fintype n]

def rot1 (T : Matrix n n ℝ) (f : n → ℝ) (μ : n) : ℝ := ∑ a, T μ a * f a

def rot2 (T : Matrix n n ℝ) (X : n → n → ℝ) (μ ν : n) : ℝ := ∑ a, T μ a * ∑ b, T ν b * X a b

def rot3 (T : Matrix n n ℝ) (X : n → n → n → ℝ) (μ ν lam : n) : ℝ :=
  ∑ a, T μ a * ∑ b, T ν b * ∑ c, T lam c * X a b c

def rot4 (T : Matrix n n ℝ) (W : n → n → n → n → ℝ) (μ ν lam σ : n) : ℝ :=
  ∑ a, T μ a * ∑ b, T ν b * ∑ c, T lam c * ∑ d, T σ d * W a b c d

/-- the flat textbook form `Σ_{abcd} T_{μa} T_{νb} T_{λc} T_{σd} W_{abcd}` -/
theorem rot4_flat (T : Matrix n n ℝ) (W : n → n → n → n → ℝ) (μ ν lam σ : n) :
    rot4 T W μ ν lam σ = ∑ a, ∑ b, ∑ c, ∑ d, T μ a * T ν b * T lam c * T σ d * W a b c d := by
  simp only [rot4, Finset.mul_sum, mul_assoc]

theorem rot2_flat (T : Matrix n n ℝ) (X : n → n → ℝ) (μ ν : n) :
    rot2 T X μ ν = ∑ a, ∑ b, T μ a * T ν b * X a b := by
  simp only [rot2, Finset.mul_sum, mul_assoc]

end generic

/-! ## index-notation forms built from a vector `v` and a 2-tensor `D` -/

section forms
variable {ι : Type}

/-- `(s p_k | s s)`-type: `a v_k` -/
def f1 (a : ℝ) (v : ι → ℝ) (k : ι) : ℝ := a * v k

/-- `(p_k p_l | s s)`, `(s s | p_k p_l)`, `(p_k s | p_l s)`-type: `a v_k v_l + b D_kl` -/
def f2 (a b : ℝ) (v : ι → ℝ) (D : ι → ι → ℝ) (k l : ι) : ℝ := a * (v k * v l) + b * D k l

/-- `(p_k s | p_m p_n)`-type (single index `k`, pair `m n`) -/
def f3 (a b c : ℝ) (v : ι → ℝ) (D : ι → ι → ℝ) (k m n : ι) : ℝ :=
  a * (v k * v m * v n) + b * (D m n * v k) + c * (D k n * v m + D k m * v n)

/-- `(p_k p_l | p_m p_n)` -/
noncomputable def f4 (c15 c16 c17 c18 c19 c20 : ℝ) (v : ι → ℝ) (D : ι → ι → ℝ) (k l m n : ι) : ℝ :=
  c15 * (v k * v l * v m * v n) + c16 * (D k l * v m * v n) + c17 * (D m n * (v k * v l))
  + c19 * (v k * (v m * D l n + v n * D l m) + v l * (v m * D k n + v n * D k m))
  + c20 * D k l * D m n + (1/2) * (c18 - c20) * (D k m * D l n + D k n * D l m)

end forms

section fin3
variable (R : Matrix (Fin 3) (Fin 3) ℝ) (v : Fin 3 → ℝ) (D : Fin 3 → Fin 3 → ℝ)

theorem cov_f1 (a : ℝ) (k : Fin 3) : f1 a (rot1 R v) k = rot1 R (f1 a v) k := by
  simp only [f1, rot1, Fin.sum_univ_three]; ring

theorem cov_f2 (a b : ℝ) (k l : Fin 3) : f2 a b (rot1 R v) (rot2 R D) k l = rot2 R (f2 a b v D) k l := by
  simp only [f2, rot1, rot2, Fin.sum_univ_three]; ring

theorem cov_f3 (a b c : ℝ) (k m n : Fin 3) :
    f3 a b c (rot1 R v) (rot2 R D) k m n = rot3 R (f3 a b c v D) k m n := by
  simp only [f3, rot1, rot2, rot3, Fin.sum_univ_three]; ring

theorem cov_f4 (c15 c16 c17 c18 c19 c20 : ℝ) (k l m n : Fin 3) :
    f4 c15 c16 c17 c18 c19 c20 (rot1 R v) (rot2 R D) k l m n
      = rot4 R (f4 c15 c16 c17 c18 c19 c20 v D) k l m n := by
  simp only [f4, rot1, rot2, rot4, Fin.sum_univ_three]; ring

/-- the transverse projector `δ_ij − v_i v_j` -/
def transverse (v : Fin 3 → ℝ) (i j : Fin 3) : ℝ := (if i = j then 1 else 0) - v i * v j

/-- row orthonormality in components -/
theorem orth_entry (hR : R * Rᵀ = 1) (i j : Fin 3) :
    R i 0 * R j 0 + R i 1 * R j 1 + R i 2 * R j 2 = if i = j then 1 else 0 := by
  have h := congrFun (congrFun hR i) j
  simpa [Matrix.mul_apply, Fin.sum_univ_three, Matrix.one_apply] using h

/-- `δ − v vᵀ` is covariant under an orthogonal `R` (the only use of `R Rᵀ = 1`) -/
theorem cov_transverse (hR : R * Rᵀ = 1) (i j : Fin 3) :
    transverse (rot1 R v) i j = rot2 R (transverse v) i j := by
  have h := orth_entry R hR i j
  simp [transverse, rot1, rot2, Fin.sum_univ_three]
  linear_combination -h

end fin3

end Covariance
