import Mathlib.LinearAlgebra.UnitaryGroup
import Mathlib.LinearAlgebra.Matrix.Trace
import Mathlib.Algebra.BigOperators.Fin
import Mathlib.Data.Real.Basic
import Mathlib.Tactic.Ring
import Mathlib.Tactic.LinearCombination
import Mathlib.Tactic.NormNum
/-!
# Tensor covariance lemmas (helpers for `Properties/C02b.lean`)

Index-notation machinery for the rotational covariance of the rotated two-centre two-electron integral block
(`w_withquaternion`, `seqm/seqm_functions/two_elec_two_center_int.py:1384–1574`).

* `rot1 … rot4`: the action of a square matrix `T` on rank-1 … rank-4 tensors (one factor `T` per index);
* on `Fin 3`: every tensor built from a vector `v` and a symmetric 2-tensor `D` by products and index
  placement is covariant (`cov_f2`, `cov_f3`, `cov_f4`), and `D = δ − v vᵀ` itself is covariant under an
  orthogonal `R` (`cov_transverse`) — this is the only place where `R Rᵀ = 1` is used;
* `orbRot R = diag(1, R)`, the representation on the minimal `(s, p_x, p_y, p_z)` basis;
* generic contraction lemmas (`sum_mul_conj`, `coulomb_matrix_covariant`, `coulomb_energy_invariant`).
-/

namespace Covariance
open Finset Matrix

/-! ## the action of `T` on tensors of rank 1–4 (nested form) -/

section generic
variable {n : Type} [Fintype n]

def rot1 (T : Matrix n n ℝ) (f : n → ℝ) (μ : n) : ℝ := ∑ a, T μ a * f a

def rot2 (T : Matrix n n ℝ) (X : n → n → ℝ) (μ ν : n) : ℝ := ∑ a, T μ a * ∑ b, T ν b * X a b

def rot3 (T : Matrix n n ℝ) (X : n → n → n → ℝ) (μ ν lam : n) : ℝ :=
  ∑ a, T μ a * ∑ b, T ν b * ∑ c, T lam c * X a b c

def rot4 (T : Matrix n n ℝ) (W : n → n → n → n → ℝ) (μ ν lam σ : n) : ℝ :=
  ∑ a, T μ a * ∑ b, T ν b * ∑ c, T lam c * ∑ d, T σ d * W a b c d

/-- the flat textbook form `Σ_{abcd} T_{μa} T_{νb} T_{λc} T_{σd} W_{abcd}` -/
theorem rot4_flat (T : Matrix n n ℝ) (W : n → n → n → n → ℝ) (μ ν lam σ : n) :
    rot4 T W μ ν lam σ = ∑ a, ∑ b, ∑ c, ∑ d, T μ a * T ν b * T lam c * T σ d * W a b c d := by
  simp only [rot4, Finset.mul_sum, mul_assoc]

theorem rot2_flat (T : Matrix n n ℝ) (X : n → n → ℝ) (μ ν : n) :
    rot2 T X μ ν = ∑ a, ∑ b, T μ a * T ν b * X a b := by
  simp only [rot2, Finset.mul_sum, mul_assoc]

end generic

/-! ## index-notation forms built from a vector `v` and a 2-tensor `D` -/

section forms
variable {ι : Type}

/-- `(s p_k | s s)`-type: `a v_k` -/
def f1 (a : ℝ) (v : ι → ℝ) (k : ι) : ℝ := a * v k

/-- `(p_k p_l | s s)`, `(s s | p_k p_l)`, `(p_k s | p_l s)`-type: `a v_k v_l + b D_kl` -/
def f2 (a b : ℝ) (v : ι → ℝ) (D : ι → ι → ℝ) (k l : ι) : ℝ := a * (v k * v l) + b * D k l

/-- `(p_k s | p_m p_n)`-type (single index `k`, pair `m n`) -/
def f3 (a b c : ℝ) (v : ι → ℝ) (D : ι → ι → ℝ) (k m n : ι) : ℝ :=
  a * (v k * v m * v n) + b * (D m n * v k) + c * (D k n * v m + D k m * v n)

/-- `(p_k p_l | p_m p_n)` -/
noncomputable def f4 (c15 c16 c17 c18 c19 c20 : ℝ) (v : ι → ℝ) (D : ι → ι → ℝ) (k l m n : ι) : ℝ :=
  c15 * (v k * v l * v m * v n) + c16 * (D k l * v m * v n) + c17 * (D m n * (v k * v l))
  + c19 * (v k * (v m * D l n + v n * D l m) + v l * (v m * D k n + v n * D k m))
  + c20 * D k l * D m n + (1/2) * (c18 - c20) * (D k m * D l n + D k n * D l m)

end forms

section fin3
variable (R : Matrix (Fin 3) (Fin 3) ℝ) (v : Fin 3 → ℝ) (D : Fin 3 → Fin 3 → ℝ)

theorem cov_f1 (a : ℝ) (k : Fin 3) : f1 a (rot1 R v) k = rot1 R (f1 a v) k := by
  simp only [f1, rot1, Fin.sum_univ_three]; ring

theorem cov_f2 (a b : ℝ) (k l : Fin 3) : f2 a b (rot1 R v) (rot2 R D) k l = rot2 R (f2 a b v D) k l := by
  simp only [f2, rot1, rot2, Fin.sum_univ_three]; ring

theorem cov_f3 (a b c : ℝ) (k m n : Fin 3) :
    f3 a b c (rot1 R v) (rot2 R D) k m n = rot3 R (f3 a b c v D) k m n := by
  simp only [f3, rot1, rot2, rot3, Fin.sum_univ_three]; ring

theorem cov_f4 (c15 c16 c17 c18 c19 c20 : ℝ) (k l m n : Fin 3) :
    f4 c15 c16 c17 c18 c19 c20 (rot1 R v) (rot2 R D) k l m n
      = rot4 R (f4 c15 c16 c17 c18 c19 c20 v D) k l m n := by
  simp only [f4, rot1, rot2, rot4, Fin.sum_univ_three]; ring

/-- the transverse projector `δ_ij − v_i v_j` -/
def transverse (v : Fin 3 → ℝ) (i j : Fin 3) : ℝ := (if i = j then 1 else 0) - v i * v j

/-- row orthonormality in components -/
theorem orth_entry (hR : R * Rᵀ = 1) (i j : Fin 3) :
    R i 0 * R j 0 + R i 1 * R j 1 + R i 2 * R j 2 = if i = j then 1 else 0 := by
  have h := congrFun (congrFun hR i) j
  simpa [Matrix.mul_apply, Fin.sum_univ_three, Matrix.one_apply] using h

/-- `δ − v vᵀ` is covariant under an orthogonal `R` (the only use of `R Rᵀ = 1`) -/
theorem cov_transverse (hR : R * Rᵀ = 1) (i j : Fin 3) :
    transverse (rot1 R v) i j = rot2 R (transverse v) i j := by
  have h := orth_entry R hR i j
  simp [transverse, rot1, rot2, Fin.sum_univ_three]
  linear_combination -h

end fin3

/-! ## the orbital representation `T(R) = diag(1, R)` on `(s, p_x, p_y, p_z)` -/

section orb
variable (R : Matrix (Fin 3) (Fin 3) ℝ)

/-- `T(R)`: `s` is a scalar, `(p_x, p_y, p_z)` transform like a vector -/
def orbRot : Matrix (Fin 4) (Fin 4) ℝ :=
  Matrix.of fun μ ν =>
    Fin.cases (motive := fun _ => ℝ) (Fin.cases (motive := fun _ => ℝ) 1 (fun _ => 0) ν)
      (fun i => Fin.cases (motive := fun _ => ℝ) 0 (fun j => R i j) ν) μ

@[simp] theorem orbRot_zero_zero : orbRot R 0 0 = 1 := rfl
@[simp] theorem orbRot_zero_succ (j : Fin 3) : orbRot R 0 j.succ = 0 := rfl
@[simp] theorem orbRot_succ_zero (i : Fin 3) : orbRot R i.succ 0 = 0 := rfl
@[simp] theorem orbRot_succ_succ (i j : Fin 3) : orbRot R i.succ j.succ = R i j := rfl

theorem sum_orbRot_zero (f : Fin 4 → ℝ) : ∑ a, orbRot R 0 a * f a = f 0 := by
  rw [Fin.sum_univ_succ]; simp

theorem sum_orbRot_succ (k : Fin 3) (f : Fin 4 → ℝ) :
    ∑ a, orbRot R k.succ a * f a = ∑ a : Fin 3, R k a * f a.succ := by
  rw [Fin.sum_univ_succ]; simp

/-- `T(R)` is orthogonal when `R` is -/
theorem orbRot_mul_transpose (hR : R * Rᵀ = 1) : orbRot R * (orbRot R)ᵀ = 1 := by
  ext μ ν
  rw [Matrix.mul_apply]
  simp only [Matrix.transpose_apply]
  induction μ using Fin.cases with
  | zero =>
    rw [sum_orbRot_zero]
    induction ν using Fin.cases with
    | zero => simp
    | succ j => simp [(Fin.succ_ne_zero j).symm]
  | succ i =>
    rw [sum_orbRot_succ]
    induction ν using Fin.cases with
    | zero => simp [Fin.succ_ne_zero i]
    | succ j =>
      have h := congrFun (congrFun hR i) j
      simp only [Matrix.mul_apply, Matrix.transpose_apply] at h
      simp only [orbRot_succ_succ, h, Matrix.one_apply, Fin.succ_inj]

theorem orbRot_transpose_mul (hR : R * Rᵀ = 1) : (orbRot R)ᵀ * orbRot R = 1 :=
  mul_eq_one_comm.mp (orbRot_mul_transpose R hR)

theorem orbRot_mem_orthogonalGroup (hR : R ∈ Matrix.orthogonalGroup (Fin 3) ℝ) :
    orbRot R ∈ Matrix.orthogonalGroup (Fin 4) ℝ := by
  rw [Matrix.mem_orthogonalGroup_iff] at hR ⊢
  exact orbRot_mul_transpose R hR

theorem orbRot_one : orbRot (1 : Matrix (Fin 3) (Fin 3) ℝ) = 1 := by
  ext μ ν
  induction μ using Fin.cases with
  | zero =>
    induction ν using Fin.cases with
    | zero => simp
    | succ j => simp [(Fin.succ_ne_zero j).symm]
  | succ i =>
    induction ν using Fin.cases with
    | zero => simp [Fin.succ_ne_zero i]
    | succ j => simp [Matrix.one_apply]

end orb

/-! ## generic contractions -/

section contraction
variable {n : Type} [Fintype n] [DecidableEq n]

theorem rot4_one (W : n → n → n → n → ℝ) : rot4 (1 : Matrix n n ℝ) W = W := by
  funext μ ν lam σ
  simp [rot4, Matrix.one_apply]

omit [DecidableEq n] in
theorem sum4_comm (f : n → n → n → n → ℝ) :
    ∑ a, ∑ b, ∑ c, ∑ d, f a b c d = ∑ c, ∑ d, ∑ a, ∑ b, f a b c d := by
  calc ∑ a, ∑ b, ∑ c, ∑ d, f a b c d
      = ∑ a, ∑ c, ∑ b, ∑ d, f a b c d := Finset.sum_congr rfl fun a _ => Finset.sum_comm
    _ = ∑ c, ∑ a, ∑ b, ∑ d, f a b c d := Finset.sum_comm
    _ = ∑ c, ∑ a, ∑ d, ∑ b, f a b c d :=
        Finset.sum_congr rfl fun c _ => Finset.sum_congr rfl fun a _ => Finset.sum_comm
    _ = ∑ c, ∑ d, ∑ a, ∑ b, f a b c d := Finset.sum_congr rfl fun c _ => Finset.sum_comm

omit [DecidableEq n] in
theorem trace_mul_transpose_eq_sum (A B : Matrix n n ℝ) :
    Matrix.trace (A * Bᵀ) = ∑ μ, ∑ ν, A μ ν * B μ ν := by
  simp [Matrix.trace, Matrix.mul_apply]

/-- the Frobenius pairing of two rank-2 tensors is invariant under an orthogonal change of basis -/
theorem sum_mul_conj (T P X : Matrix n n ℝ) (hT : Tᵀ * T = 1) :
    ∑ μ, ∑ ν, (T * P * Tᵀ) μ ν * (T * X * Tᵀ) μ ν = ∑ a, ∑ b, P a b * X a b := by
  rw [← trace_mul_transpose_eq_sum, ← trace_mul_transpose_eq_sum]
  have h1 : T * P * Tᵀ * (T * X * Tᵀ)ᵀ = T * (P * Xᵀ * Tᵀ) := by
    simp only [Matrix.transpose_mul, Matrix.transpose_transpose, Matrix.mul_assoc]
    rw [← Matrix.mul_assoc Tᵀ T, hT, Matrix.one_mul]
  rw [h1, Matrix.trace_mul_comm, Matrix.mul_assoc, hT, Matrix.mul_one]

omit [DecidableEq n] in
/-- `rot2` is conjugation `T X Tᵀ` -/
theorem rot2_eq_conj (T : Matrix n n ℝ) (X : n → n → ℝ) (μ ν : n) :
    rot2 T X μ ν = (T * Matrix.of X * Tᵀ) μ ν := by
  rw [Matrix.mul_assoc]
  simp only [rot2, Matrix.mul_apply, Matrix.transpose_apply, Matrix.of_apply]
  refine Finset.sum_congr rfl fun a _ => ?_
  congr 1
  exact Finset.sum_congr rfl fun b _ => mul_comm _ _

/-- Coulomb matrix `J_{λσ} = Σ_{μν} P_{μν} (μν|λσ)` (`J_A = (PA * w).sum(dim=1)` in `fock.py::_two_center`) -/
def coulombJ (W : n → n → n → n → ℝ) (P : Matrix n n ℝ) : Matrix n n ℝ :=
  Matrix.of fun lam σ => ∑ μ, ∑ ν, P μ ν * W μ ν lam σ

/-- covariant integrals and a covariant density give a covariant Coulomb matrix -/
theorem coulombJ_covariant (T : Matrix n n ℝ) (hT : Tᵀ * T = 1) (W : n → n → n → n → ℝ) (P : Matrix n n ℝ) :
    coulombJ (rot4 T W) (T * P * Tᵀ) = T * coulombJ W P * Tᵀ := by
  ext lam σ
  have hslice : ∀ μ ν, rot4 T W μ ν lam σ
      = (T * Matrix.of (fun a b => rot2 T (W a b) lam σ) * Tᵀ) μ ν := by
    intro μ ν
    rw [← rot2_eq_conj]
    rfl
  have hR : (T * coulombJ W P * Tᵀ) lam σ
      = rot2 T (fun c d => ∑ a, ∑ b, P a b * W a b c d) lam σ := by
    rw [rot2_eq_conj]; rfl
  rw [hR]
  show ∑ μ, ∑ ν, (T * P * Tᵀ) μ ν * rot4 T W μ ν lam σ = _
  simp only [hslice]
  rw [sum_mul_conj T P _ hT]
  simp only [Matrix.of_apply, rot2, Finset.mul_sum]
  rw [sum4_comm]
  refine Finset.sum_congr rfl fun c _ => Finset.sum_congr rfl fun d _ =>
    Finset.sum_congr rfl fun a _ => Finset.sum_congr rfl fun b _ => ?_
  ring

/-- the Coulomb contraction `Σ_{λσ} (Σ_{μν} P^A_{μν} (μν|λσ)) P^B_{λσ}` is invariant -/
theorem coulomb_energy_invariant (T : Matrix n n ℝ) (hT : Tᵀ * T = 1) (W : n → n → n → n → ℝ)
    (PA PB : Matrix n n ℝ) :
    ∑ lam, ∑ σ, coulombJ (rot4 T W) (T * PA * Tᵀ) lam σ * (T * PB * Tᵀ) lam σ
      = ∑ lam, ∑ σ, coulombJ W PA lam σ * PB lam σ := by
  rw [coulombJ_covariant T hT]
  exact sum_mul_conj T _ _ hT

omit [DecidableEq n] in
/-- the flat four-index form of the contraction -/
theorem coulomb_energy_flat (W : n → n → n → n → ℝ) (PA PB : Matrix n n ℝ) :
    ∑ μ, ∑ ν, ∑ lam, ∑ σ, PA μ ν * W μ ν lam σ * PB lam σ
      = ∑ lam, ∑ σ, coulombJ W PA lam σ * PB lam σ := by
  rw [sum4_comm]
  simp only [coulombJ, Matrix.of_apply, Finset.sum_mul]

end contraction

end Covariance
