import PyseqmVerif.Model.SP2Spec
import Mathlib.Data.Real.Basic
import Mathlib.Algebra.BigOperators.Group.List.Basic
import Mathlib.Algebra.Order.AbsoluteValue.Basic
import Mathlib.Tactic.Linarith
import Mathlib.Tactic.Ring
import Mathlib.Tactic.Positivity
import Mathlib.Tactic.NormNum
import Mathlib.Tactic.NormNum.OfScientific

/-! Helper lemmas about `SP2Spec` (model of `SP2.py`) at `ℝ`. -/
namespace SP2Spec
set_option linter.unnecessarySeqFocus false

abbrev rabs : ℝ → ℝ := fun x => |x|

theorem sq_def (x : ℝ) : sq x = x * x := rfl
theorem ex_def (x : ℝ) : ex x = 2 * x - x * x := by unfold ex; norm_num

theorem sq_mem {x : ℝ} (h0 : 0 ≤ x) (h1 : x ≤ 1) : 0 ≤ sq x ∧ sq x ≤ 1 := by
  rw [sq_def]; constructor <;> nlinarith
theorem ex_mem {x : ℝ} (h0 : 0 ≤ x) (h1 : x ≤ 1) : 0 ≤ ex x ∧ ex x ≤ 1 := by
  rw [ex_def]; constructor <;> nlinarith
theorem sq_mono {x y : ℝ} (h0 : 0 ≤ x) (hxy : x ≤ y) : sq x ≤ sq y := by
  rw [sq_def, sq_def]; nlinarith
theorem ex_mono {x y : ℝ} (hy : y ≤ 1) (hxy : x ≤ y) : ex x ≤ ex y := by
  rw [ex_def, ex_def]; nlinarith
theorem sq_fixed (x : ℝ) : sq x = x ↔ x = 0 ∨ x = 1 := by
  rw [sq_def]; constructor
  · intro h
    have : x * (x - 1) = 0 := by linarith
    rcases mul_eq_zero.mp this with h | h
    · left; exact h
    · right; linarith
  · rintro (h | h) <;> simp [h]
theorem ex_fixed (x : ℝ) : ex x = x ↔ x = 0 ∨ x = 1 := by
  rw [ex_def]; constructor
  · intro h
    have : x * (x - 1) = 0 := by linarith
    rcases mul_eq_zero.mp this with h | h
    · left; exact h
    · right; linarith
  · rintro (h | h) <;> simp [h]; norm_num

theorem sq_zero : sq (0:ℝ) = 0 := by simp [sq_def]
theorem ex_zero : ex (0:ℝ) = 0 := by simp [ex_def]
theorem sq_one : sq (1:ℝ) = 1 := by simp [sq_def]
theorem ex_one : ex (1:ℝ) = 1 := by rw [ex_def]; norm_num

theorem tr_eq_sum (xs : List ℝ) : tr xs = xs.sum := by
  unfold tr
  rw [List.sum_eq_foldl]

/-- the branch taken is one of the two maps, applied to every occupation -/
theorem step_cases (nocc : ℝ) (xs : List ℝ) :
    step rabs nocc xs = xs.map sq ∨ step rabs nocc xs = xs.map ex := by
  unfold step
  by_cases h : cond rabs nocc xs = true
  · left; simp [h]
  · right; simp [h]

/-- occupations in `[0,1]` -/
def InUnit (xs : List ℝ) : Prop := ∀ x ∈ xs, 0 ≤ x ∧ x ≤ 1

theorem InUnit.getD {xs : List ℝ} (h : InUnit xs) (i : Nat) : 0 ≤ xs.getD i 0 ∧ xs.getD i 0 ≤ 1 := by
  by_cases hi : i < xs.length
  · have : xs.getD i 0 = xs[i] := by simp [List.getD, hi]
    rw [this]; exact h _ (List.getElem_mem hi)
  · have : xs.getD i 0 = 0 := by simp [List.getD, Nat.le_of_not_lt hi]
    rw [this]; exact ⟨le_refl _, zero_le_one⟩

theorem InUnit.map_sq {xs : List ℝ} (h : InUnit xs) : InUnit (xs.map sq) := by
  intro y hy
  obtain ⟨x, hx, rfl⟩ := List.mem_map.mp hy
  exact sq_mem (h x hx).1 (h x hx).2

theorem InUnit.map_ex {xs : List ℝ} (h : InUnit xs) : InUnit (xs.map ex) := by
  intro y hy
  obtain ⟨x, hx, rfl⟩ := List.mem_map.mp hy
  exact ex_mem (h x hx).1 (h x hx).2

theorem InUnit.step {xs : List ℝ} (h : InUnit xs) (nocc : ℝ) : InUnit (step rabs nocc xs) := by
  rcases step_cases nocc xs with e | e <;> rw [e]
  · exact h.map_sq
  · exact h.map_ex

theorem getD_map_sq (xs : List ℝ) (i : Nat) : (xs.map sq).getD i 0 = sq (xs.getD i 0) := by
  simp only [List.getD_eq_getElem?_getD, List.getElem?_map]
  cases xs[i]? <;> simp [sq_zero]

theorem getD_map_ex (xs : List ℝ) (i : Nat) : (xs.map ex).getD i 0 = ex (xs.getD i 0) := by
  simp only [List.getD_eq_getElem?_getD, List.getElem?_map]
  cases xs[i]? <;> simp [ex_zero]

/-- one SP2 update preserves the (weak) order of any two occupations -/
theorem step_order {xs : List ℝ} (h : InUnit xs) (nocc : ℝ) (i j : Nat)
    (hij : xs.getD i 0 ≤ xs.getD j 0) :
    (step rabs nocc xs).getD i 0 ≤ (step rabs nocc xs).getD j 0 := by
  rcases step_cases nocc xs with e | e <;> rw [e]
  · rw [getD_map_sq, getD_map_sq]; exact sq_mono (h.getD i).1 hij
  · rw [getD_map_ex, getD_map_ex]; exact ex_mono (h.getD j).2 hij

/-- idempotency defect `Σ x(1−x)` -/
def defect (xs : List ℝ) : ℝ := (xs.map fun x => x * (1 - x)).sum

theorem defect_nonneg {xs : List ℝ} (h : InUnit xs) : 0 ≤ defect xs := by
  unfold defect
  apply List.sum_nonneg
  intro y hy
  obtain ⟨x, hx, rfl⟩ := List.mem_map.mp hy
  exact mul_nonneg (h x hx).1 (by linarith [(h x hx).2])

theorem sum_map_sq (xs : List ℝ) : xs.sum - (xs.map sq).sum = defect xs := by
  unfold defect
  induction xs with
  | nil => simp
  | cons x xs ih => simp only [List.map_cons, List.sum_cons, sq_def] at ih ⊢; linarith

theorem sum_map_ex (xs : List ℝ) : (xs.map ex).sum - xs.sum = defect xs := by
  unfold defect
  induction xs with
  | nil => simp
  | cons x xs ih => simp only [List.map_cons, List.sum_cons, ex_def] at ih ⊢; linarith

/-- both branches change the trace by exactly the idempotency defect -/
theorem step_trace (nocc : ℝ) (xs : List ℝ) :
    |tr (step rabs nocc xs) - tr xs| = |defect xs| := by
  rw [tr_eq_sum, tr_eq_sum]
  rcases step_cases nocc xs with e | e <;> rw [e]
  · rw [← sum_map_sq, abs_sub_comm]
  · rw [← sum_map_ex]

theorem defect_map_sq {xs : List ℝ} (h : InUnit xs) : defect (xs.map sq) ≤ 2 * defect xs := by
  unfold defect
  induction xs with
  | nil => simp
  | cons x xs ih =>
    have hx := h x (List.mem_cons_self ..)
    have ih' := ih (fun y hy => h y (List.mem_cons_of_mem _ hy))
    simp only [List.map_cons, List.sum_cons, sq_def] at ih' ⊢
    have : x * x * (1 - x * x) ≤ 2 * (x * (1 - x)) := by
      have h1 : 0 ≤ x * (1 - x) := mul_nonneg hx.1 (by linarith [hx.2])
      have h2 : x * x * (1 - x * x) = (x * (1 - x)) * (x * (1 + x)) := by ring
      rw [h2]
      have h3 : x * (1 + x) ≤ 2 := by nlinarith [hx.1, hx.2]
      nlinarith
    linarith

theorem defect_map_ex {xs : List ℝ} (h : InUnit xs) : defect (xs.map ex) ≤ 2 * defect xs := by
  unfold defect
  induction xs with
  | nil => simp
  | cons x xs ih =>
    have hx := h x (List.mem_cons_self ..)
    have ih' := ih (fun y hy => h y (List.mem_cons_of_mem _ hy))
    simp only [List.map_cons, List.sum_cons, ex_def] at ih' ⊢
    have : (2 * x - x * x) * (1 - (2 * x - x * x)) ≤ 2 * (x * (1 - x)) := by
      have h1 : 0 ≤ x * (1 - x) := mul_nonneg hx.1 (by linarith [hx.2])
      have h2 : (2 * x - x * x) * (1 - (2 * x - x * x)) = (x * (1 - x)) * ((1 - x) * (2 - x)) := by ring
      rw [h2]
      have h3 : (1 - x) * (2 - x) ≤ 2 := by nlinarith [hx.1, hx.2]
      nlinarith
    linarith

theorem defect_step {xs : List ℝ} (h : InUnit xs) (nocc : ℝ) :
    defect (step rabs nocc xs) ≤ 2 * defect xs := by
  rcases step_cases nocc xs with e | e <;> rw [e]
  · exact defect_map_sq h
  · exact defect_map_ex h

/-- number of occupations above one half -/
noncomputable def nOccupied (xs : List ℝ) : Nat := xs.countP (fun x => decide (1/2 < x))

/-- the trace differs from the number of occupations above ½ by at most twice the defect -/
theorem sum_sub_count {xs : List ℝ} (h : InUnit xs) :
    |xs.sum - (nOccupied xs : ℝ)| ≤ 2 * defect xs := by
  unfold nOccupied defect
  induction xs with
  | nil => simp
  | cons x xs ih =>
    have hx := h x (List.mem_cons_self ..)
    have ih' := ih (fun y hy => h y (List.mem_cons_of_mem _ hy))
    rw [abs_le] at ih' ⊢
    by_cases hhalf : 1/2 < x
    · rw [List.countP_cons_of_pos (by simpa using hhalf)]
      simp only [List.map_cons, List.sum_cons, Nat.cast_add, Nat.cast_one]
      constructor <;> nlinarith [ih'.1, ih'.2, hx.1, hx.2]
    · rw [List.countP_cons_of_neg (by simpa using hhalf)]
      simp only [List.map_cons, List.sum_cons]
      have : x ≤ 1/2 := not_lt.mp hhalf
      constructor <;> nlinarith [ih'.1, ih'.2, hx.1, hx.2]

/-! ## reachable states of the loop -/

/-- what is true of every state the loop can be in, started from `init xs` -/
structure Reach (nocc : ℝ) (xs : List ℝ) (s : St ℝ) : Prop where
  len : s.x.length = xs.length
  unit : InUnit s.x
  order : ∀ i j, xs.getD i 0 ≤ xs.getD j 0 → s.x.getD i 0 ≤ s.x.getD j 0
  e0 : s.e0 = |tr s.x - nocc|

theorem reach_init (nocc : ℝ) (xs : List ℝ) (h : InUnit xs) : Reach nocc xs (init rabs nocc xs) :=
  ⟨rfl, h, fun _ _ hij => hij, rfl⟩

theorem step_length (nocc : ℝ) (xs : List ℝ) : (step rabs nocc xs).length = xs.length := by
  rcases step_cases nocc xs with e | e <;> rw [e] <;> simp

theorem reach_iter {nocc : ℝ} {xs : List ℝ} {s : St ℝ} (h : Reach nocc xs s) :
    Reach nocc xs (iter rabs nocc s) :=
  ⟨by show (step rabs nocc s.x).length = _; rw [step_length, h.len],
   h.unit.step nocc,
   fun i j hij => step_order h.unit nocc i j (h.order i j hij),
   rfl⟩

/-- a state produced by one loop body from a reachable state `s`: the two errors tested by the
    stopping rule are those of the new and of the previous occupations -/
theorem iter_errors {nocc : ℝ} {xs : List ℝ} {s : St ℝ} (h : Reach nocc xs s) :
    (iter rabs nocc s).e0 = |tr (step rabs nocc s.x) - nocc| ∧ (iter rabs nocc s).e1 = |tr s.x - nocc| :=
  ⟨rfl, h.e0⟩

/-- if the stopping rule is met after a body, the new occupations are nearly idempotent and
    exactly `nocc` of them exceed ½ -/
theorem stop_count {nocc : ℕ} {xs : List ℝ} {s : St ℝ} {eps : ℝ} (h : Reach nocc xs s)
    (heps : eps ≤ 1/9) (hstop : stop eps (iter rabs nocc s) = true) :
    defect (iter rabs (nocc:ℝ) s).x < 4 * eps ∧ nOccupied (iter rabs (nocc:ℝ) s).x = nocc := by
  obtain ⟨h0, h1⟩ := iter_errors h
  unfold stop at hstop
  simp only [Bool.and_eq_true, decide_eq_true_eq] at hstop
  rw [h0, h1] at hstop
  obtain ⟨hz, hy⟩ := hstop
  set y := s.x with hy_def
  set z := step rabs (nocc:ℝ) y with hz_def
  have hzx : (iter rabs (nocc:ℝ) s).x = z := rfl
  rw [hzx]
  have hdy : defect y < 2 * eps := by
    have h3 := step_trace (nocc:ℝ) y
    rw [abs_of_nonneg (defect_nonneg h.unit)] at h3
    rw [← h3]
    have : tr z - tr y = (tr z - nocc) - (tr y - nocc) := by ring
    rw [← hz_def, this]
    calc |tr z - ↑nocc - (tr y - ↑nocc)| ≤ |tr z - ↑nocc| + |tr y - ↑nocc| := abs_sub _ _
      _ < 2 * eps := by linarith
  have hdz : defect z ≤ 2 * defect y := defect_step h.unit _
  have hzu : InUnit z := h.unit.step _
  refine ⟨by linarith, ?_⟩
  have hc := sum_sub_count hzu
  rw [tr_eq_sum] at hz
  have hlt : |(nOccupied z : ℝ) - (nocc : ℝ)| < 1 := by
    have : (nOccupied z : ℝ) - nocc = (z.sum - nocc) - (z.sum - nOccupied z) := by ring
    rw [this]
    calc |z.sum - ↑nocc - (z.sum - ↑(nOccupied z))| ≤ |z.sum - ↑nocc| + |z.sum - ↑(nOccupied z)| := abs_sub _ _
      _ < 1 := by linarith
  rw [abs_lt] at hlt
  have h1 : ((nOccupied z : ℤ) : ℝ) - ((nocc : ℤ) : ℝ) < 1 := by push_cast; exact hlt.2
  have h2 : -1 < ((nOccupied z : ℤ) : ℝ) - ((nocc : ℤ) : ℝ) := by push_cast; exact hlt.1
  have h1' : (nOccupied z : ℤ) - (nocc : ℤ) < 1 := by exact_mod_cast h1
  have h2' : -1 < (nOccupied z : ℤ) - (nocc : ℤ) := by exact_mod_cast h2
  omega

theorem loop_succ_stop {α : Type} [Add α] [Sub α] [Mul α] [OfScientific α] [OfNat α 0] [LT α]
    [DecidableLT α] (abs : α → α) (eps nocc : α) (fuel : Nat) (s : St α)
    (h : stop eps (iter abs nocc s) = true) :
    loop abs eps nocc (fuel+1) s = (iter abs nocc s, true) := by
  simp [loop, h]

theorem loop_succ_cont {α : Type} [Add α] [Sub α] [Mul α] [OfScientific α] [OfNat α 0] [LT α]
    [DecidableLT α] (abs : α → α) (eps nocc : α) (fuel : Nat) (s : St α)
    (h : stop eps (iter abs nocc s) = false) :
    loop abs eps nocc (fuel+1) s = loop abs eps nocc fuel (iter abs nocc s) := by
  simp [loop, h]

/-- `loop` either stops at a state produced by a body from a reachable state, or exhausts fuel -/
theorem loop_true {nocc : ℝ} {xs : List ℝ} {eps : ℝ} :
    ∀ (fuel : Nat) (s r : St ℝ), Reach nocc xs s → loop rabs eps nocc fuel s = (r, true) →
      ∃ s', Reach nocc xs s' ∧ r = iter rabs nocc s' ∧ stop eps r = true := by
  intro fuel
  induction fuel with
  | zero => intro s r _ h; simp [loop] at h
  | succ fuel ih =>
    intro s r hs h
    cases hst : stop eps (iter rabs nocc s)
    · rw [loop_succ_cont _ _ _ _ _ hst] at h
      exact ih _ r (reach_iter hs) h
    · rw [loop_succ_stop _ _ _ _ _ hst] at h
      simp only [Prod.mk.injEq, and_true] at h
      exact ⟨s, hs, h.symm, h ▸ hst⟩

theorem loop_reach {nocc : ℝ} {xs : List ℝ} {eps : ℝ} :
    ∀ (fuel : Nat) (s : St ℝ), Reach nocc xs s → Reach nocc xs (loop rabs eps nocc fuel s).1 := by
  intro fuel
  induction fuel with
  | zero => intro s hs; exact hs
  | succ fuel ih =>
    intro s hs
    cases hst : stop eps (iter rabs nocc s)
    · rw [loop_succ_cont _ _ _ _ _ hst]; exact ih _ (reach_iter hs)
    · rw [loop_succ_stop _ _ _ _ _ hst]; exact reach_iter hs

/-- with fuel the model returns within `fuel` bodies -/
theorem loop_k_le {α : Type} [Add α] [Sub α] [Mul α] [OfScientific α] [OfNat α 0] [LT α]
    [DecidableLT α] (abs : α → α) (eps nocc : α) :
    ∀ (fuel : Nat) (s : St α), (loop abs eps nocc fuel s).1.k ≤ s.k + fuel := by
  intro fuel
  induction fuel with
  | zero => intro s; exact Nat.le_refl _
  | succ fuel ih =>
    intro s
    have hk : (iter abs nocc s).k = s.k + 1 := rfl
    cases hst : stop eps (iter abs nocc s)
    · rw [loop_succ_cont _ _ _ _ _ hst]
      have := ih (iter abs nocc s)
      rw [hk] at this; omega
    · rw [loop_succ_stop _ _ _ _ _ hst]; show (iter abs nocc s).k ≤ _; rw [hk]; omega

/-- if the stopping rule was never met, all the fuel was used -/
theorem loop_false_k {α : Type} [Add α] [Sub α] [Mul α] [OfScientific α] [OfNat α 0] [LT α]
    [DecidableLT α] (abs : α → α) (eps nocc : α) :
    ∀ (fuel : Nat) (s : St α), (loop abs eps nocc fuel s).2 = false →
      (loop abs eps nocc fuel s).1.k = s.k + fuel := by
  intro fuel
  induction fuel with
  | zero => intro s _; rfl
  | succ fuel ih =>
    intro s h
    have hk : (iter abs nocc s).k = s.k + 1 := rfl
    cases hst : stop eps (iter abs nocc s)
    · rw [loop_succ_cont _ _ _ _ _ hst] at h ⊢
      rw [ih _ h, hk]; omega
    · rw [loop_succ_stop _ _ _ _ _ hst] at h; cases h

/-- an occupation that is exactly `0` (a padding orbital after the `hN` shift) stays `0` -/
theorem step_zero (nocc : ℝ) (xs : List ℝ) (i : Nat) (h : xs.getD i 0 = 0) :
    (step rabs nocc xs).getD i 0 = 0 := by
  rcases step_cases nocc xs with e | e <;> rw [e]
  · rw [getD_map_sq, h, sq_zero]
  · rw [getD_map_ex, h, ex_zero]

theorem clampEps_le (eps : ℝ) : clampEps eps ≤ 1/1000 := by
  unfold clampEps
  split_ifs with h1 h2 <;> norm_num at * <;> linarith

theorem clampEps_ge (eps : ℝ) : 1/10000000 ≤ clampEps eps := by
  unfold clampEps
  split_ifs with h1 h2 <;> norm_num at * <;> linarith

/-! ## the degenerate pair -/

/-- `a` fully occupied levels, two equal occupations `h`, `b` empty levels -/
def deg (a b : Nat) (h : ℝ) : List ℝ := List.replicate a 1 ++ [h, h] ++ List.replicate b 0

theorem tr_deg (a b : Nat) (h : ℝ) : tr (deg a b h) = a + 2 * h := by
  rw [tr_eq_sum]; unfold deg
  simp [List.sum_replicate]; ring

theorem map_sq_deg (a b : Nat) (h : ℝ) : (deg a b h).map sq = deg a b (sq h) := by
  unfold deg; simp [sq_zero, sq_one]

theorem map_ex_deg (a b : Nat) (h : ℝ) : (deg a b h).map ex = deg a b (ex h) := by
  unfold deg; simp [ex_zero, ex_one]

/-- B_4: a small trace error of the degenerate pair is followed by a large one, whatever the branch -/
theorem deg_pair_core (h : ℝ) (hsmall : |2 * h - 1| < (0.1:ℝ)) :
    (0.1:ℝ) < |2 * sq h - 1| ∧ (0.1:ℝ) < |2 * ex h - 1| := by
  have h1 := abs_lt.mp hsmall
  constructor
  · rw [lt_abs]; right; rw [sq_def]; nlinarith
  · rw [lt_abs]; left; rw [ex_def]; nlinarith

theorem deg_never_stops (a b : Nat) (eps : ℝ) (heps : eps ≤ 0.1) :
    ∀ (fuel : Nat) (s : St ℝ) (h : ℝ), s.x = deg a b h → s.e0 = |2 * h - 1| →
      (loop rabs eps ((a + 1 : ℕ) : ℝ) fuel s).2 = false := by
  intro fuel
  induction fuel with
  | zero => intro s h _ _; rfl
  | succ fuel ih =>
    intro s h hx he
    obtain ⟨h', hx', hh'⟩ : ∃ h', (iter rabs ((a + 1 : ℕ) : ℝ) s).x = deg a b h' ∧ (h' = sq h ∨ h' = ex h) := by
      show ∃ h', step rabs _ s.x = deg a b h' ∧ _
      rcases step_cases ((a + 1 : ℕ) : ℝ) s.x with e | e <;> rw [e, hx]
      · exact ⟨sq h, map_sq_deg a b h, Or.inl rfl⟩
      · exact ⟨ex h, map_ex_deg a b h, Or.inr rfl⟩
    have he0 : (iter rabs ((a + 1 : ℕ) : ℝ) s).e0 = |2 * h' - 1| := by
      show |tr (iter rabs ((a + 1 : ℕ) : ℝ) s).x - _| = _
      rw [hx', tr_deg]; push_cast; congr 1; ring
    have he1 : (iter rabs ((a + 1 : ℕ) : ℝ) s).e1 = |2 * h - 1| := he
    have hns : stop eps (iter rabs ((a + 1 : ℕ) : ℝ) s) = false := by
      unfold stop
      rw [he0, he1]
      by_cases hsm : |2 * h - 1| < eps
      · have hc := deg_pair_core h (lt_of_lt_of_le hsm heps)
        have : ¬ |2 * h' - 1| < eps := by
          rcases hh' with rfl | rfl
          · exact not_lt.mpr (le_trans heps (le_of_lt hc.1))
          · exact not_lt.mpr (le_trans heps (le_of_lt hc.2))
        simp [this]
      · simp [hsm]
    rw [loop_succ_cont _ _ _ _ _ hns]
    exact ih _ h' hx' he0

end SP2Spec
