import PyseqmVerif.Model.Hop
import PyseqmVerif.Model.RK4
import PyseqmVerif.Model.SteepestDescent
import Mathlib.Data.Real.Basic
import Mathlib.Analysis.SpecialFunctions.Pow.Real
import Mathlib.Algebra.BigOperators.Group.List.Basic
import Mathlib.Algebra.Order.BigOperators.Group.List
import Mathlib.Tactic.Ring
import Mathlib.Tactic.Linarith
import Mathlib.Tactic.FieldSimp
import Mathlib.Tactic.NormNum
import Mathlib.Tactic.NormNum.OfScientific
import Mathlib.Tactic.Positivity
import Mathlib.Tactic.LinearCombination
/-!
# Helper lemmas for C17 / C20 (models `Hop`, `RK4`, `SD` at `ℝ`)
-/

namespace Hop

/-! ## sequential sums -/

theorem foldl_add_eq (l : List ℝ) (a : ℝ) : l.foldl (· + ·) a = a + l.sum := by
  induction l generalizing a with
  | nil => simp
  | cons x xs ih => simp only [List.foldl_cons, List.sum_cons]; rw [ih]; ring

theorem sumL_eq_sum (l : List ℝ) : sumL l = l.sum := by
  unfold sumL; rw [foldl_add_eq]; ring

@[simp] theorem sumL_nil : sumL ([] : List ℝ) = 0 := rfl

theorem sumL_cons (a : ℝ) (l : List ℝ) : sumL (a :: l) = a + sumL l := by
  simp [sumL_eq_sum]

/-! ## clamp -/

theorem clampMin_ge (c x : ℝ) : c ≤ clampMin c x := by
  unfold clampMin; split_ifs with h
  · exact le_refl _
  · exact not_lt.mp h

theorem clampMin_eq_of_le (c x : ℝ) (h : c ≤ x) : clampMin c x = x := by
  unfold clampMin; rw [if_neg (not_lt.mpr h)]

/-! ## hop probabilities -/

theorem sum_map_div (l : List ℝ) (c : ℝ) : (l.map (· / c)).sum = l.sum / c := by
  induction l with
  | nil => simp
  | cons a l ih => simp only [List.map_cons, List.sum_cons]; rw [ih]; ring

theorem le_one_of_nonneg_sum_le_one (l : List ℝ) (h0 : ∀ x ∈ l, 0 ≤ x) (h1 : l.sum ≤ 1) :
    ∀ x ∈ l, x ≤ 1 := fun x hx => le_trans (List.single_le_sum h0 x hx) h1

/-! ## the scalar quadratic of the velocity rescale

`D = Σ |d_A|²/m_A`, `vd = v·d`, `w = dE / KINETIC_ENERGY_SCALE`; `dKE D vd a` is the change of
`Σ ½ m v²` under `v ↦ v + a d/m`. -/

noncomputable def dKE (D vd a : ℝ) : ℝ := a * vd + a * a * D / 2

theorem rescale_alg (D vd w X : ℝ) (hD : D ≠ 0) (hX : X ^ 2 = vd * vd - 2 * w * D) :
    dKE D vd ((-vd + X) / D) + w = 0 := by
  unfold dKE
  field_simp
  linear_combination hX

theorem rescale_alg_sign (D vd w s : ℝ) (hD : D ≠ 0) (hs : s * s = 1)
    (hrad : 0 ≤ vd * vd - 2 * w * D) :
    dKE D vd ((-vd + s * Real.sqrt (vd * vd - 2 * w * D)) / D) + w = 0 := by
  apply rescale_alg D vd w _ hD
  rw [mul_pow, pow_two s, hs, one_mul, Real.sq_sqrt hrad]

/-- every root of the energy-conservation quadratic is one of `(-vd ± √rad)/D` -/
theorem root_cases (D vd w b : ℝ) (hD : D ≠ 0) (hrad : 0 ≤ vd * vd - 2 * w * D)
    (hb : dKE D vd b + w = 0) :
    b = (-vd + Real.sqrt (vd * vd - 2 * w * D)) / D ∨
    b = (-vd - Real.sqrt (vd * vd - 2 * w * D)) / D := by
  set r := Real.sqrt (vd * vd - 2 * w * D) with hr
  have hrr : r * r = vd * vd - 2 * w * D := Real.mul_self_sqrt hrad
  have h1 : (D * b + vd) * (D * b + vd) = r * r := by
    rw [hrr]; unfold dKE at hb; linear_combination (2 * D) * hb
  rcases mul_self_eq_mul_self_iff.mp h1 with h | h
  · left; field_simp; linarith
  · right; field_simp; linarith

theorem tsign_mul_self (vd : ℝ) (h : vd ≠ 0) : tsign vd * tsign vd = 1 := by
  unfold tsign
  rcases lt_or_gt_of_ne h with hneg | hpos
  · simp [hneg, not_lt.mpr hneg.le]
  · simp [hpos]

theorem signFixed_mul_self (vd : ℝ) : signFixed vd * signFixed vd = 1 := by
  unfold signFixed; split_ifs <;> norm_num

/-- with a sign that agrees with the sign of `vd` the chosen numerator is the smaller one -/
theorem chosen_num_le (vd r s : ℝ) (hr : 0 ≤ r)
    (hs : (0 < vd → s = 1) ∧ (vd < 0 → s = -1) ∧ (vd = 0 → s = 1 ∨ s = -1)) :
    |(-vd + s * r)| ≤ |(-vd + r)| ∧ |(-vd + s * r)| ≤ |(-vd - r)| := by
  rcases lt_trichotomy vd 0 with h | h | h
  · rw [hs.2.1 h]
    refine ⟨?_, le_of_eq (by ring_nf)⟩
    rw [abs_le]; constructor
    · have := neg_abs_le (-vd + r); have := le_abs_self (-vd + r); linarith
    · have := le_abs_self (-vd + r); linarith
  · subst h
    rcases hs.2.2 rfl with h1 | h1 <;> rw [h1] <;> constructor <;> simp [abs_of_nonneg hr]
  · rw [hs.1 h]
    refine ⟨le_of_eq (by ring_nf), ?_⟩
    rw [abs_le]; constructor
    · have := neg_abs_le (-vd - r); have := neg_le_abs (-vd - r); linarith
    · have := neg_le_abs (-vd - r); linarith

/-! ## a molecule as a list of atoms (well-shaped input of `_rescale_velocity_along_nac`) -/

/-- one row of `molecule.mass`, `molecule.mass_inverse`, `molecule.velocities[mol]`, `dvec` -/
structure Atom where
  m : ℝ
  w : ℝ
  vx : ℝ
  vy : ℝ
  vz : ℝ
  dx : ℝ
  dy : ℝ
  dz : ℝ

def flatV (as : List Atom) : List ℝ := as.flatMap fun a => [a.vx, a.vy, a.vz]
def flatD (as : List Atom) : List ℝ := as.flatMap fun a => [a.dx, a.dy, a.dz]
def Atom.vd (a : Atom) : ℝ := a.vx * a.dx + a.vy * a.dy + a.vz * a.dz
def Atom.dd (a : Atom) : ℝ := a.dx * a.dx + a.dy * a.dy + a.dz * a.dz
noncomputable def Atom.ke (a : Atom) : ℝ := 0.5 * a.m * (a.vx * a.vx) + 0.5 * a.m * (a.vy * a.vy) + 0.5 * a.m * (a.vz * a.vz)
/-- `v_A ↦ v_A + α d_A / m_A` -/
def Atom.kick (al : ℝ) (a : Atom) : Atom :=
  { a with vx := a.vx + al * a.dx * a.w, vy := a.vy + al * a.dy * a.w, vz := a.vz + al * a.dz * a.w }
/-- a real atom (`mass_inverse = 1/mass`) or a padding atom (`mass = mass_inverse = 0`, as
    `Molecule.py` sets them) whose `v·d` contribution vanishes -/
def Atom.ok (a : Atom) : Prop := a.m * a.w = 1 ∨ (a.m = 0 ∧ a.w = 0 ∧ a.vd = 0)

@[simp] theorem flatV_nil : flatV [] = [] := rfl
@[simp] theorem flatD_nil : flatD [] = [] := rfl
@[simp] theorem flatV_cons (a : Atom) (as : List Atom) : flatV (a :: as) = a.vx :: a.vy :: a.vz :: flatV as := by
  simp [flatV]
@[simp] theorem flatD_cons (a : Atom) (as : List Atom) : flatD (a :: as) = a.dx :: a.dy :: a.dz :: flatD as := by
  simp [flatD]

theorem dot_flat (as : List Atom) : dot (flatV as) (flatD as) = (as.map Atom.vd).sum := by
  unfold dot; rw [sumL_eq_sum]
  induction as with
  | nil => simp
  | cons a as ih => simp only [flatV_cons, flatD_cons, List.zipWith_cons_cons, List.sum_cons, List.map_cons, ih, Atom.vd]; ring

theorem d2ByM_flat (as : List Atom) :
    d2ByM (flatD as) (as.map (·.w)) = (as.map fun a => a.w * a.dd).sum := by
  unfold d2ByM; rw [sumL_eq_sum]
  induction as with
  | nil => simp [atomSq]
  | cons a as ih => simp only [flatD_cons, atomSq, List.map_cons, List.zipWith_cons_cons, List.sum_cons, ih, Atom.dd]

theorem applyAlpha_flat (al : ℝ) (as : List Atom) :
    applyAlpha al (flatV as) (flatD as) (as.map (·.w)) = flatV (as.map (Atom.kick al)) := by
  unfold applyAlpha
  induction as with
  | nil => simp [expand3]
  | cons a as ih =>
    simp only [flatV_cons, flatD_cons, List.map_cons, expand3, List.zipWith_cons_cons, ih]
    simp [Atom.kick]

theorem kinetic_flat (kes : ℝ) (as : List Atom) :
    kineticEnergy kes (as.map (·.m)) (flatV as) = (as.map Atom.ke).sum * kes := by
  unfold kineticEnergy; rw [sumL_eq_sum]
  congr 1
  induction as with
  | nil => simp [expand3]
  | cons a as ih =>
    simp only [flatV_cons, List.map_cons, expand3, List.zipWith_cons_cons, List.sum_cons, ih, Atom.ke]; ring

@[simp] theorem kick_m (al : ℝ) (a : Atom) : (a.kick al).m = a.m := rfl

theorem map_m_kick (al : ℝ) (as : List Atom) : (as.map (Atom.kick al)).map (·.m) = as.map (·.m) := by
  simp [List.map_map, Function.comp_def]

theorem ke_kick (al : ℝ) (a : Atom) (h : a.ok) :
    (a.kick al).ke - a.ke = al * a.vd + al * al * (a.w * a.dd) / 2 := by
  rcases h with h | ⟨h1, h2, h3⟩
  · simp only [Atom.ke, Atom.kick, Atom.vd, Atom.dd]
    linear_combination (al * (a.vx * a.dx + a.vy * a.dy + a.vz * a.dz) +
      al * al * a.w * (a.dx * a.dx + a.dy * a.dy + a.dz * a.dz) / 2) * h
  · simp only [Atom.ke, Atom.kick, h1, h2, h3]; ring

theorem ke_kick_sum (al : ℝ) (as : List Atom) (h : ∀ a ∈ as, a.ok) :
    ((as.map (Atom.kick al)).map Atom.ke).sum - (as.map Atom.ke).sum =
      dKE (as.map fun a => a.w * a.dd).sum (as.map Atom.vd).sum al := by
  unfold dKE
  induction as with
  | nil => simp
  | cons a as ih =>
    have h1 := ke_kick al a (h a (by simp))
    have h2 := ih (fun b hb => h b (by simp [hb]))
    simp only [List.map_cons, List.sum_cons] at h2 ⊢
    linear_combination h1 + h2

end Hop
