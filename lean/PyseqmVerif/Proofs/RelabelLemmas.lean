import PyseqmVerif.Model.Hop
import Mathlib.Data.List.Nodup
import Mathlib.Data.List.Range
import Mathlib.Data.List.Perm.Basic
import Mathlib.Data.List.Perm.Subperm
/-!
# Helper lemmas for the trivial-crossing relabel (`Hop.scatter`)
-/
namespace Hop

variable {β : Type}

theorem length_scatterInto (is : List Nat) (ss out : List β) :
    (scatterInto is ss out).length = out.length := by
  induction is generalizing ss out with
  | nil => simp [scatterInto]
  | cons i is ih =>
    cases ss with
    | nil => simp [scatterInto]
    | cons s ss => simp [scatterInto, ih]

@[simp] theorem length_scatter (p : List Nat) (old : List β) : (scatter p old).length = old.length :=
  length_scatterInto p old old

/-- a slot that no index points to keeps its old content -/
theorem scatterInto_of_not_mem (is : List Nat) (ss out : List β) (k : Nat) (hk : k ∉ is) :
    (scatterInto is ss out)[k]? = out[k]? := by
  induction is generalizing ss out with
  | nil => simp [scatterInto]
  | cons i is ih =>
    cases ss with
    | nil => simp [scatterInto]
    | cons s ss =>
      simp only [List.mem_cons, not_or] at hk
      simp only [scatterInto]
      rw [ih ss (out.set i s) hk.2, List.getElem?_set_ne (Ne.symm hk.1)]

/-- with distinct in-range indices, slot `is[t]` receives `ss[t]` -/
theorem scatterInto_nodup (is : List Nat) (ss out : List β) (hnd : is.Nodup)
    (hlen : is.length = ss.length) (hlt : ∀ i ∈ is, i < out.length) (t : Nat) (ht : t < is.length) :
    (scatterInto is ss out)[is[t]]? = ss[t]? := by
  induction is generalizing ss out t with
  | nil => simp at ht
  | cons i is ih =>
    cases ss with
    | nil => simp at hlen
    | cons s ss =>
      simp only [scatterInto]
      rw [List.nodup_cons] at hnd
      cases t with
      | zero =>
        simp only [List.getElem_cons_zero, List.getElem?_cons_zero]
        rw [scatterInto_of_not_mem is ss _ i hnd.1]
        have : i < out.length := hlt i (by simp)
        simp [this]
      | succ t =>
        simp only [List.getElem_cons_succ, List.getElem?_cons_succ]
        apply ih ss (out.set i s) hnd.2 (by simpa using hlen)
        intro j hj; simpa using hlt j (by simp [hj])

/-- the last write to a slot wins: with `p[i] = p[j]`, `i < j`, nothing later, slot gets `ss[j]` -/
theorem scatterInto_last (is : List Nat) (ss out : List β) (hlen : is.length = ss.length)
    (t : Nat) (ht : t < is.length) (hlt : is[t] < out.length)
    (hlast : ∀ u (hu : u < is.length), t < u → is[u] ≠ is[t]) :
    (scatterInto is ss out)[is[t]]? = ss[t]? := by
  induction is generalizing ss out t with
  | nil => simp at ht
  | cons i is ih =>
    cases ss with
    | nil => simp at hlen
    | cons s ss =>
      simp only [scatterInto]
      cases t with
      | zero =>
        simp only [List.getElem_cons_zero, List.getElem?_cons_zero] at hlt ⊢
        have hnot : i ∉ is := by
          intro hmem
          obtain ⟨u, hu, hiu⟩ := List.getElem_of_mem hmem
          exact hlast (u+1) (by simpa using hu) (by omega) (by simpa using hiu)
        rw [scatterInto_of_not_mem is ss _ i hnot]
        simp [hlt]
      | succ t =>
        simp only [List.getElem_cons_succ, List.getElem?_cons_succ] at hlt ⊢
        apply ih ss (out.set i s) (by simpa using hlen) t (by simpa using ht) (by simpa using hlt)
        intro u hu htu
        have := hlast (u+1) (by simpa using hu) (by omega)
        simpa using this

theorem map_getElem?_range (l : List β) : (List.range l.length).map (fun i => l[i]?) = l.map some := by
  apply List.ext_getElem
  · simp
  · intro i h1 h2
    simp at h1
    simp [h1]

/-- a duplicate-free vector of `n` indices below `n` is a rearrangement of `0 … n-1` -/
theorem perm_range_of_nodup (p : List Nat) (hnd : p.Nodup) (hlt : ∀ i ∈ p, i < p.length) :
    p.Perm (List.range p.length) := by
  apply (List.Nodup.subperm hnd _).perm_of_length_le (by simp)
  intro i hi; exact List.mem_range.mpr (hlt i hi)

/-- scatter along a bijective index vector permutes the list -/
theorem scatter_perm (p : List Nat) (old : List β) (hnd : p.Nodup) (hlen : p.length = old.length)
    (hlt : ∀ i ∈ p, i < p.length) : (scatter p old).Perm old := by
  have hkey : p.map (fun k => (scatter p old)[k]?) = (List.range p.length).map (fun i => old[i]?) := by
    apply List.ext_getElem
    · simp
    · intro t h1 h2
      simp only [List.length_map] at h1
      simp only [List.getElem_map, List.getElem_range]
      exact scatterInto_nodup p old old hnd hlen (fun i hi => hlen ▸ hlt i hi) t h1
  have h1 : (p.map (fun k => (scatter p old)[k]?)).Perm
      ((List.range p.length).map (fun k => (scatter p old)[k]?)) :=
    (perm_range_of_nodup p hnd hlt).map _
  have h2 : (List.range p.length).map (fun k => (scatter p old)[k]?) = (scatter p old).map some := by
    have : p.length = (scatter p old).length := by simp [hlen]
    rw [this]; exact map_getElem?_range _
  have h3 : (List.range p.length).map (fun i => old[i]?) = old.map some := by
    rw [hlen]; exact map_getElem?_range _
  rw [hkey, h2, h3] at h1
  exact ((List.map_perm_map_iff (fun a b h => Option.some.inj h)).mp h1).symm

end Hop
