def hello := "world"
