import PyseqmVerif.Model.Util
/-!
# Input validation: the guards of the code, in the order they fire (core Lean only)

Mirrors, for the call sequence `Molecule(...)` → `Electronic_Structure(seqm_parameters)` →
(`Molecular_Dynamics_Basic.initialize`) → `esdriver(molecule)`:

| # | site | condition | exception |
|---|------|-----------|-----------|
| 1 | `Molecule.check_input` | a species row is not non-increasing | `ValueError` |
| 2 | `basics.Parser.forward` (UHF) | `nocc_alpha % 1 != 0` or `nocc_beta % 1 != 0` | `ValueError` |
| 3 | `basics.Parser.forward` (RHF) | `n_charge % 2 == 1` | `ValueError` |
| 3b | `basics.Parser.forward` (repair of F17) | `nocc_min < 0` or `nocc_max > norb` | `ValueError` |
| 4 | `basics.Hamiltonian.__init__` | `excited_states` without `n_states` | `ValueError` |
| 5 | `basics.Energy.__init__` | `UHF` and `excited_states is not None` | `NotImplementedError` |
| 6 | `MolecularDynamics.initialize` | `remove_com` mode not `linear`/`angular` | `ValueError` |
| 7 | `scf_loop.scf_loop` | `PM6` and unrestricted | `NotImplementedError` |
| 8 | `scf_loop.scf_loop` (`scf_backward == 2`) | Pulay + unrestricted / converger not in 0,1,2 | `NotImplementedError` / `ValueError` |
| 9 | `scf_loop.SCF.forward` | KSA + unrestricted, Pulay + unrestricted | `NotImplementedError` |
| 10 | `scf_loop.make_Pnew_factory` (from `scf_forward0/1`) | open shell + SP2 | `ValueError` |
| 11 | `basics.Energy.forward` (after the SCF) | excited active state without `excited_states` | `Exception` |
| 12 | `basics.Energy.forward` (after the SCF) | uniform batch, method not cis/tda/rpa | `Exception` |
| 13 | `basics.Energy.forward` (after the SCF) | non-uniform batch, method ≠ `"cis"` | `NotImplementedError` |
| 14 | `rcis_batch.rcis_batch` / `rpa.rpa` | uniform species but different `nocc` | `ValueError` |
| 15 | `basics.Energy.forward` (after CIS) | excited active state + analytical gradient + non-uniform | `NotImplementedError` |

Remarks read off the code (they shape the model):
* `make_Pnew_factory`'s "PM6 + open-shell" `ValueError` is unreachable (guard 7 fires first).
* With `scf_backward == 2`, `scf_loop` sets `sp2[0] = False` (writing into the caller's list) before
  any factory is built, so open shell + SP2 is *not* rejected there.
* `Force.forward` turns `analytical_gradient` on (and writes it into the caller's dict) when an
  excited active state meets `scf_backward == 0`; `analyticalEff` below.
* guards 11–15 fire only after the SCF ran and after `molecule.w`, `molecule.molecular_orbitals`,
  `molecule.dipole`, `molecule.analytical_gradient` were overwritten: nothing is *returned*, but the
  molecule object has been mutated (`ErrKind.afterSCF`).
* At the pinned commit there is **no** guard on `0 ≤ nocc ≤ norb` (finding F17): `acceptsPreFix`.
  The repair (DESIGN Appendix C.6, in `Parser.forward` right after the parity tests:
  `if (nocc_min < 0).any() or (nocc_max > norb_per_mol).any(): raise ValueError`) is `accepts`.
  Neither checks `mult ≥ 1` (`mult = -1` is a triplet with α/β swapped); `acceptsFixed` adds that.
* RHF ignores `mult` altogether.
* `HIPNN_automatic_doublet` is taken at its default `False`; `xlesmd` drivers, `do_all_forces`,
  `nroots > nov` and `normal modes` guards are not modelled.
-/
namespace Validate

inductive Method where | mndo | am1 | pm3 | pm6 | pm6sp
deriving Repr, DecidableEq

/-- `scf_converger[0]`: 0 constant mixing, 1 adaptive mixing, 2 adaptive then Pulay, 3 KSA -/
inductive Converger where | fixed | adaptive | pulay | ksa
deriving Repr, DecidableEq

/-- `scf_backward`: 0 none (`SCF0`), 1 implicit (`SCF`), 2 direct (unrolled) -/
inductive Backward where | none | implicit | direct
deriving Repr, DecidableEq

/-- `excited_states["method"].lower()` -/
inductive ExcMethod where | cis | tda | rpa | other
deriving Repr, DecidableEq

/-- `str(mode).lower().strip()` of `remove_com = (mode, stride)` -/
inductive ComMode where | linear | angular | other
deriving Repr, DecidableEq

structure Excited where
  method : ExcMethod
  nStatesGiven : Bool
deriving Repr, DecidableEq

structure Mol where
  species : List Nat      -- one row of `species`, padding zeros included
  charge : Int
  mult : Int
deriving Repr, DecidableEq

structure Input where
  mols : List Mol
  uhf : Bool
  method : Method
  sp2 : Bool                     -- `sp2[0]`
  converger : Converger
  scfBackward : Backward
  excited : Option Excited       -- `seqm_parameters.get("excited_states")`
  activeExcited : Bool           -- `active_state > 0` for some molecule
  analyticalGrad : Bool          -- `analytical_gradient[0]`
  removeCom : Option ComMode     -- `none`: not an MD run, or `remove_com=None`
deriving Repr, DecidableEq

inductive ErrKind where
  | unsorted | badChargeMult | oddElectronsRHF | noccRange
  | noNStates | uhfExcited | badComMode
  | pm6UHF | uhfPulay | uhfKSA | uhfSP2 | badConvergerDirect
  | activeNoSettings | badExcMethod | nonUniformExc | excOccDiffer | nonUniformExcGrad
deriving Repr, DecidableEq

def ErrKind.token : ErrKind → String
  | .unsorted => "unsorted" | .badChargeMult => "bad_charge_mult"
  | .oddElectronsRHF => "odd_electrons_rhf" | .noccRange => "nocc_range"
  | .noNStates => "no_n_states" | .uhfExcited => "uhf_excited" | .badComMode => "bad_com_mode"
  | .pm6UHF => "pm6_uhf" | .uhfPulay => "uhf_pulay" | .uhfKSA => "uhf_ksa" | .uhfSP2 => "uhf_sp2"
  | .badConvergerDirect => "bad_converger_direct"
  | .activeNoSettings => "active_no_settings" | .badExcMethod => "bad_exc_method"
  | .nonUniformExc => "non_uniform_exc" | .excOccDiffer => "exc_occ_differ"
  | .nonUniformExcGrad => "non_uniform_exc_grad"

/-- the Python exception class raised -/
def ErrKind.pyClass : ErrKind → String
  | .unsorted | .badChargeMult | .oddElectronsRHF | .noccRange | .noNStates | .badComMode
  | .uhfSP2 | .badConvergerDirect | .excOccDiffer => "ValueError"
  | .uhfExcited | .pm6UHF | .uhfPulay | .uhfKSA | .nonUniformExc | .nonUniformExcGrad => "NotImplementedError"
  | .activeNoSettings | .badExcMethod => "Exception"

/-- guards that fire only after the SCF has run and the molecule object was mutated -/
def ErrKind.afterSCF : ErrKind → Bool
  | .activeNoSettings | .badExcMethod | .nonUniformExc | .excOccDiffer | .nonUniformExcGrad => true
  | _ => false

/-! ## quantities the guards compute -/

/-- `Constants.tore` (valence electrons), indices 0…72, copied from `constants.py`
    (driver op `tore` lets the harness compare it with the live table) -/
def toreTable : List Nat :=
  [0, 1, 0, 1, 2, 3, 4, 5, 6, 7, 0, 1, 2, 3, 4, 5, 6, 7, 0, 1, 2, 3, 4, 5, 6, 7, 8, 9, 10, 11, 12,
   3, 4, 5, 6, 7, 0, 1, 2, 3, 4, 5, 6, 7, 8, 9, 10, 11, 12, 3, 4, 5, 6, 7, 0, 1, 2, 3, 4, 5, 6, 7,
   8, 9, 10, 11, 12, 3, 4, 5, 6, 7, 0]

def tore (z : Nat) : Nat := toreTable.getD z 0

/-- `n_charge = sum(tore[species]) - tot_charge` -/
def nelec (m : Mol) : Int := ((m.species.map tore).sum : Nat) - m.charge

/-- `check_input`: `species[:, :-1] >= species[:, 1:]`, all true along the row -/
def rowSorted : List Nat → Bool
  | a :: b :: t => decide (a ≥ b) && rowSorted (b :: t)
  | _ => true

def isSuperHeavy (z : Nat) : Bool :=
  (12 < z && z < 18) || (20 < z && z < 30) || (32 < z && z < 36) || (38 < z && z < 48) ||
  (50 < z && z < 54) || (70 < z && z < 80) || z == 57

def isHeavy (pm6 : Bool) (z : Nat) : Bool :=
  if pm6 then
    1 < z && (z ≤ 12 || (18 ≤ z && z ≤ 20) || (30 ≤ z && z ≤ 32) || (36 ≤ z && z ≤ 38) ||
              (48 ≤ z && z ≤ 50) || (54 ≤ z && z ≤ 56) || (80 ≤ z && z ≤ 83))
  else 1 < z

/-- number of basis functions (`4*nHeavy + nHydro`, for `"PM6"` plus `9*nSuperHeavy`) -/
def norb (meth : Method) (m : Mol) : Nat :=
  let pm6 := meth == .pm6
  let nHydro := (m.species.filter (· == 1)).length
  let nHeavy := (m.species.filter (isHeavy pm6)).length
  let nSuper := if pm6 then (m.species.filter isSuperHeavy).length else 0
  9 * nSuper + 4 * nHeavy + nHydro

/-- twice `nocc_alpha = n/2 + (mult-1)/2` and twice `nocc_beta = n/2 - (mult-1)/2` -/
def twoAlpha (m : Mol) : Int := nelec m + (m.mult - 1)
def twoBeta (m : Mol) : Int := nelec m - (m.mult - 1)

/-- `(nocc_alpha % 1 != 0) or (nocc_beta % 1 != 0)` -/
def uhfFractional (m : Mol) : Bool := twoAlpha m % 2 != 0 || twoBeta m % 2 != 0

/-- RHF `nocc = n_charge // 2` -/
def noccRHF (m : Mol) : Int := nelec m / 2

/-- `torch.equal(species, species[0].expand_as(species))` -/
def homogeneous (i : Input) : Bool :=
  match i.mols with
  | [] => true
  | m0 :: ms => ms.all fun m => m.species == m0.species

/-- `torch.all(nocc_batch == nocc_batch[0])` (RHF; the excited-state code is RHF only) -/
def uniformOcc (i : Input) : Bool :=
  match i.mols with
  | [] => true
  | m0 :: ms => ms.all fun m => noccRHF m == noccRHF m0

/-- `Force.forward`: `analytical_gradient` is switched on for an excited active state when
    `scf_backward == 0` -/
def analyticalEff (i : Input) : Bool :=
  i.analyticalGrad || (i.activeExcited && i.scfBackward == .none)

/-- the repair of F17 as committed: `nocc_min ≥ 0` and `nocc_max ≤ norb_per_mol`
    (evaluated after the parity tests, where `nocc = twoAlpha/2, twoBeta/2` resp. `n/2` exactly) -/
def noccRangeOK (i : Input) : Bool :=
  i.mols.all fun m =>
    if i.uhf then decide (0 ≤ twoAlpha m) && decide (0 ≤ twoBeta m) &&
                  decide (twoAlpha m ≤ 2 * (norb i.method m : Int)) && decide (twoBeta m ≤ 2 * (norb i.method m : Int))
    else decide (0 ≤ nelec m) && decide (nelec m ≤ 2 * (norb i.method m : Int))

/-- the documented occupation precondition: `mult ≥ 1`, `0 ≤ nocc`, `nocc ≤ norb` -/
def occOK (i : Input) : Bool :=
  i.mols.all fun m =>
    if i.uhf then decide (1 ≤ m.mult) && decide (0 ≤ twoBeta m) && decide (twoAlpha m ≤ 2 * (norb i.method m : Int))
    else decide (0 ≤ nelec m) && decide (nelec m ≤ 2 * (norb i.method m : Int))

/-! ## the guards, in firing order -/

/-- guards fired while the inputs are parsed (`Molecule.__init__`: `check_input`, `Parser.forward`) -/
def guardsParse (i : Input) : List (Bool × ErrKind) :=
  [ (!(i.mols.all fun m => rowSorted m.species), .unsorted),
    (i.uhf && i.mols.any uhfFractional, .badChargeMult),
    (!i.uhf && i.mols.any (fun m => nelec m % 2 == 1), .oddElectronsRHF) ]

/-- the guard added by the repair of F17 -/
def guardNocc (i : Input) : List (Bool × ErrKind) := [ (!noccRangeOK i, .noccRange) ]

/-- the same guard strengthened by `mult ≥ 1` -/
def guardOcc (i : Input) : List (Bool × ErrKind) := [ (!occOK i, .noccRange) ]

/-- `Electronic_Structure.__init__` → `Hamiltonian.__init__`, `Energy.__init__` -/
def guardsCtor (uhf : Bool) (exc : Option Excited) : List (Bool × ErrKind) :=
  [ (match exc with | some e => !e.nStatesGiven | none => false, .noNStates),
    (uhf && exc.isSome, .uhfExcited) ]

/-- `MolecularDynamics.initialize` -/
def guardsMD (com : Option ComMode) : List (Bool × ErrKind) :=
  [ (com == some .other, .badComMode) ]

/-- `scf_loop`, then `SCF.forward` / `make_Pnew_factory` (reached for `scf_backward` 0 or 1; with
    `scf_backward == 2` `sp2[0]` has been set to `False` before a factory is built) -/
def guardsSCF (uhf sp2 : Bool) (method : Method) (conv : Converger) (back : Backward) :
    List (Bool × ErrKind) :=
  [ (method == .pm6 && uhf, .pm6UHF),
    (back == .direct && conv == .pulay && uhf, .uhfPulay),
    (back == .direct && conv == .ksa, .badConvergerDirect),
    (back != .direct && (conv == .fixed || conv == .adaptive) && uhf && sp2, .uhfSP2),
    (back != .direct && conv == .ksa && uhf, .uhfKSA),
    (back != .direct && conv == .pulay && uhf, .uhfPulay) ]

def excMethodIs (exc : Option Excited) (p : ExcMethod → Bool) : Bool :=
  match exc with
  | some e => p e.method
  | none => false

/-- `Energy.forward` after the SCF (and, for `excOccDiffer`, inside `rcis_batch`/`rpa`);
    `act` = excited active state, `ana` = `analyticalEff`, `hom` = uniform species,
    `uni` = uniform occupations -/
def guardsPost (exc : Option Excited) (act ana hom uni : Bool) : List (Bool × ErrKind) :=
  [ (act && exc.isNone, .activeNoSettings),
    (hom && excMethodIs exc (· == .other), .badExcMethod),
    (!hom && excMethodIs exc (· != .cis), .nonUniformExc),
    (hom && exc.isSome && !uni, .excOccDiffer),
    (exc.isSome && act && ana && !hom, .nonUniformExcGrad) ]

/-- driver construction, MD initialisation, SCF set-up, and the post-SCF guards -/
def guardsRest (i : Input) : List (Bool × ErrKind) :=
  guardsCtor i.uhf i.excited ++ guardsMD i.removeCom ++
  guardsSCF i.uhf i.sp2 i.method i.converger i.scfBackward ++
  guardsPost i.excited i.activeExcited (analyticalEff i) (homogeneous i) (uniformOcc i)

/-- the first guard whose condition holds raises -/
def firstError : List (Bool × ErrKind) → Except ErrKind Unit
  | [] => .ok ()
  | (c, e) :: gs => if c then .error e else firstError gs

/-- the code at the pinned commit (no occupation guard) -/
def acceptsPreFix (i : Input) : Except ErrKind Unit := firstError (guardsParse i ++ guardsRest i)

/-- the code as it is now (occupation guard of the F17 repair in `Parser.forward`) -/
def accepts (i : Input) : Except ErrKind Unit :=
  firstError (guardsParse i ++ guardNocc i ++ guardsRest i)

/-- the code with the occupation guard strengthened by `mult ≥ 1` -/
def acceptsFixed (i : Input) : Except ErrKind Unit :=
  firstError (guardsParse i ++ guardOcc i ++ guardsRest i)

/-- a calculation: validation first, the numerical kernel only on acceptance -/
def calculate {ρ : Type} (compute : Input → ρ) (i : Input) : Except ErrKind ρ :=
  match accepts i with
  | .error e => .error e
  | .ok () => .ok (compute i)

/-! ## the documented preconditions -/

/-- excited-state part of the preconditions, on the finite data the guards look at -/
def excitedOK (uhf : Bool) (exc : Option Excited) (act ana hom uni : Bool) : Prop :=
  match exc with
  | none => act = false
  | some e =>
    e.nStatesGiven = true ∧ e.method ≠ .other ∧ uhf = false ∧
    (hom = false → e.method = .cis) ∧
    (hom = true → uni = true) ∧
    (act = true → ana = true → hom = true)

/-- reference-type part of the preconditions -/
def scfOK (uhf sp2 : Bool) (method : Method) (conv : Converger) (back : Backward) : Prop :=
  (uhf = true → method ≠ .pm6 ∧ conv ≠ .pulay ∧ conv ≠ .ksa ∧ (sp2 = true → back = .direct)) ∧
  (back = .direct → conv ≠ .ksa)

/-- C18's preconditions (plus the occupation range):
    sorted rows; RHF ⇒ even electron count; UHF ⇒ charge and multiplicity of matching parity;
    occupations within `0 … norb` and `mult ≥ 1`; UHF only with constant/adaptive mixing, no SP2
    (unless the direct backward mode switches SP2 off), no PM6, no excited states; direct backward
    not with KSA; excited-state settings complete, method known, heterogeneous batches only with
    `cis`, uniform occupations otherwise, no analytical excited gradient on heterogeneous
    batches; excited active state only with settings; COM mode known. -/
def WellFormed (i : Input) : Prop :=
  (∀ m ∈ i.mols, m.species.Pairwise (· ≥ ·)) ∧
  (i.uhf = false → ∀ m ∈ i.mols, nelec m % 2 = 0) ∧
  (i.uhf = true → ∀ m ∈ i.mols, (nelec m + (m.mult - 1)) % 2 = 0) ∧
  occOK i = true ∧
  scfOK i.uhf i.sp2 i.method i.converger i.scfBackward ∧
  excitedOK i.uhf i.excited i.activeExcited (analyticalEff i) (homogeneous i) (uniformOcc i) ∧
  i.removeCom ≠ some .other

instance (uhf : Bool) (exc : Option Excited) (act ana hom uni : Bool) :
    Decidable (excitedOK uhf exc act ana hom uni) := by
  unfold excitedOK; split <;> infer_instance

instance (uhf sp2 : Bool) (method : Method) (conv : Converger) (back : Backward) :
    Decidable (scfOK uhf sp2 method conv back) := by
  unfold scfOK; infer_instance

instance (i : Input) : Decidable (WellFormed i) := by
  unfold WellFormed; infer_instance

/-! ## driver -/

def parseMols : Nat → List Int → Option (List Mol)
  | 0, [] => some []
  | n+1, c :: mu :: na :: rest =>
    if na < 0 then none else
    let k := na.toNat
    if rest.length < k then none else do
      let zs := rest.take k
      if zs.any (· < 0) then none else
      let ms ← parseMols n (rest.drop k)
      pure ({ species := zs.map Int.toNat, charge := c, mult := mu } :: ms)
  | _, _ => none

def intList? : List String → Option (List Int)
  | [] => some []
  | t :: ts => do
    let n ← t.toInt?
    let r ← intList? ts
    pure (n :: r)

def mkInput (uhf meth sp2 conv back exc nst act ana com : Nat) (mols : List Mol) : Option Input := do
  let method ← match meth with
    | 0 => some Method.mndo | 1 => some .am1 | 2 => some .pm3 | 3 => some .pm6 | 4 => some .pm6sp | _ => none
  let converger ← match conv with
    | 0 => some Converger.fixed | 1 => some .adaptive | 2 => some .pulay | 3 => some .ksa | _ => none
  let scfBackward ← match back with
    | 0 => some Backward.none | 1 => some .implicit | 2 => some .direct | _ => none
  let excited ← match exc with
    | 0 => some (none : Option Excited)
    | 1 => some (some { method := .cis, nStatesGiven := nst != 0 })
    | 2 => some (some { method := .tda, nStatesGiven := nst != 0 })
    | 3 => some (some { method := .rpa, nStatesGiven := nst != 0 })
    | 4 => some (some { method := .other, nStatesGiven := nst != 0 })
    | _ => none
  let removeCom ← match com with
    | 0 => some (none : Option ComMode) | 1 => some (some .linear) | 2 => some (some .angular)
    | 3 => some (some .other) | _ => none
  if uhf > 1 ∨ sp2 > 1 ∨ act > 1 ∨ ana > 1 ∨ nst > 1 then none else
  pure { mols, uhf := uhf != 0, method, sp2 := sp2 != 0, converger, scfBackward, excited,
         activeExcited := act != 0, analyticalGrad := ana != 0, removeCom }

def showResult : Except ErrKind Unit → String
  | .ok () => "ok"
  | .error e => e.token

/-- `validate uhf method sp2 converger scf_backward exc n_states_given active analytical com nmol
     {charge mult natoms Z_1 … Z_natoms}*nmol`   (decimal integers; charge/mult may be negative)

* `uhf, sp2, n_states_given, active, analytical`: 0/1 (`active` = some `active_state > 0`;
  `analytical` = `analytical_gradient[0]`);
* `method`: 0 MNDO, 1 AM1, 2 PM3, 3 PM6, 4 PM6_SP/PM6_SP_STAR;
* `converger`: `scf_converger[0]` ∈ 0…3;  `scf_backward` ∈ 0…2;
* `exc`: 0 no `excited_states`, 1 cis, 2 tda, 3 rpa, 4 any other method string;
* `com`: 0 no MD / `remove_com=None`, 1 linear, 2 angular, 3 any other mode;
* per molecule the species row including padding zeros.

Answer: `ok` or the token of the first guard that fires (`ErrKind.token`):
`unsorted bad_charge_mult odd_electrons_rhf nocc_range no_n_states uhf_excited bad_com_mode pm6_uhf uhf_pulay
 uhf_ksa uhf_sp2 bad_converger_direct active_no_settings bad_exc_method non_uniform_exc
 exc_occ_differ non_uniform_exc_grad`.
(`nocc_range` = the guard of the F17 repair).
`validate_prefix …` same arguments, the code at the pinned commit (no occupation guard).
`validate_fixed …` same arguments, occupation guard strengthened by `mult ≥ 1`.
`validate_class …` same arguments → Python exception class of the first guard, or `ok`.
`wellformed …` same arguments → `1`/`0`.
`tore Z` → valence electron count used by the model. -/
def handle (toks : List String) : Option String :=
  match toks with
  | ["tore", z] => do
    let n ← z.toNat?
    if n < toreTable.length then pure (toString (tore n)) else none
  | op :: rest =>
    if op = "validate" ∨ op = "validate_fixed" ∨ op = "validate_prefix" ∨ op = "validate_class" ∨
       op = "wellformed" then do
      let ns ← intList? rest
      match ns with
      | uhf :: meth :: sp2 :: conv :: back :: exc :: nst :: act :: ana :: com :: nmol :: more =>
        if [uhf, meth, sp2, conv, back, exc, nst, act, ana, com, nmol].any (· < 0) then none else
        let mols ← parseMols nmol.toNat more
        let i ← mkInput uhf.toNat meth.toNat sp2.toNat conv.toNat back.toNat exc.toNat nst.toNat
                  act.toNat ana.toNat com.toNat mols
        if op = "validate" then pure (showResult (accepts i))
        else if op = "validate_fixed" then pure (showResult (acceptsFixed i))
        else if op = "validate_prefix" then pure (showResult (acceptsPreFix i))
        else if op = "validate_class" then
          pure (match accepts i with | .ok () => "ok" | .error e => e.pyClass)
        else pure (if decide (WellFormed i) then "1" else "0")
      | _ => none
    else none
  | _ => none
-- DRIVER-HANDLER: Validate.handle

end Validate
