import PyseqmVerif.Model.MDOut
/-!
# Values, not just labels: the MD run loop over an abstract deterministic dynamics (core Lean only)

Refines `MDOut` (which stores the STEP LABEL `s` as a stand-in for "the record of step `s`").

Mirrors `seqm/MolecularDynamics.py`: `Molecular_Dynamics_Basic.run`, `initialize`,
`save_checkpoint`, `_build_checkpoint_base`, `run_from_checkpoint`, `_restore_rng`, `HDF5Writer`,
`XYZWriter`; and `seqm/NonadiabaticDynamics.py`: `NonadiabaticDynamicsBase._do_integrator_step`
(the `nonadiabatic` HDF5 stream is appended INSIDE the integrator step), `initialize` (its step-0
row), `HDF5Writer._open_resume` (`i_na = offset // na + 1`).

## Part 1 — the value-level machine

* `σ`   : the COMPLETE engine state: phase space (`molecule.coordinates/velocities/acc/force`),
          `Etot`, density matrix / CIS amplitudes / XL-BOMD history buffers, the global torch RNG
          state, hop bookkeeping (`_active_states`, `_amp_phase`, `post_hop_holdoff`, `prev_state`,
          `_cache_old`), the absolute step counter, and every run-loop local that a later step
          reads (`E0`, the `scale_vel` / `control_energy_shift` / `learned_parameters` arguments).
* `Φ`   : one complete pass of the loop body of `run` up to (excluding) the outputs:
          `_do_integrator_step` + COM removal + velocity scaling / energy shift + the final
          `Ek`, `T`, `V`.  Deterministic: a function of `σ` (the RNG state is part of `σ`).
* `obs` : what `append_data` (thermo row) and `append_vectors` (coordinates, velocities, forces)
          read off the state; `obsXyz` what `XYZWriter.write` reads.  Between these reads of one
          step the code does not mutate the state, so in the model all writes of step `s` observe
          the one `p.st`.
* `save`: `_build_checkpoint_base` + `save_checkpoint` (the image `κ` that goes into
          `{prefix}.restart.pt`); `load`: `_load_checkpoint_base` + `run_from_checkpoint` +
          `_restore_rng` + the resume branch of `initialize`.

Each stream row stores `(s, obs (state when written))`, a checkpoint stores
`(step_done, save (state), xyz frame count)`, resume continues from `load` of the stored image.
Erasing the values (`VProc.erase`, `VDisk.erase`) gives back exactly the label-level machine
`MDOut` (proved in `Proofs/MDStateLemmas.lean`), whose driver output is diffed against the Python.

## Part 2 — the nonadiabatic stream (label level)

`Proc5`/`Disk5` = the `MDOut` process / disk plus one more `SW` stream with cadence `na` whose write
for step `s` happens before action 0 of step `s` (inside `_do_integrator_step`).

## Part 3 — the label passed to `append_nonadiabatic`

`NALabel` abstracts the label expression: `naLabel` is the code (`i + 1`, the absolute step since
`i` already starts at `step_offset`), `naLabelDouble` the historical slip `i + 1 + step_offset`.

No driver handler: everything here is a conservative extension whose label projection is `MDOut`.
-/
namespace MDState
open MDOut

/-! ## Part 1: abstract deterministic dynamics -/

/-- abstract deterministic dynamics with observation and checkpoint save / load -/
structure Dyn (σ κ Rec : Type) where
  /-- one complete step (integrator + post-processing in `run`, before the outputs) -/
  Φ : σ → σ
  /-- per HDF5 stream: what the row written at this state contains -/
  obs : Quad (σ → Rec)
  /-- what the XYZ frame written at this state contains -/
  obsXyz : σ → Rec
  /-- `_build_checkpoint_base` / `save_checkpoint` -/
  save : σ → κ
  /-- `run_from_checkpoint` + `_restore_rng` + resume branch of `initialize` -/
  load : κ → σ

variable {σ κ Rec : Type}

/-- `traj σ0 n = Φ^[n] σ0`: the state of the uninterrupted dynamics after `n` steps -/
def traj (D : Dyn σ κ Rec) (σ0 : σ) : Nat → σ
  | 0 => σ0
  | n + 1 => D.Φ (traj D σ0 n)

/-- a row holds the step label AND the record -/
abbrev VRows (Rec : Type) := List (Option (Nat × Rec))

structure VSW (Rec : Type) where
  rows : VRows Rec
  cur  : Nat

/-- `append_data` / `append_vectors`: label `s` and record `r` at the cursor (capacity guard) -/
def VSW.write (w : VSW Rec) (s : Nat) (r : Rec) : VSW Rec :=
  if w.cur < w.rows.length then { rows := w.rows.set w.cur (some (s, r)), cur := w.cur + 1 } else w

def VSW.step (e : Nat) (w : VSW Rec) (s : Nat) (r : Rec) : VSW Rec :=
  if isDue e s then w.write s r else w

def vopenFresh (e N : Nat) (r0 : Rec) : VSW Rec :=
  VSW.step e { rows := List.replicate (cap e N) none, cur := 0 } 0 r0

def vopenResume (e o : Nat) (disk : VRows Rec) : VSW Rec :=
  { rows := disk, cur := if e = 0 then 0 else o / e + 1 }

/-- durable state, with values; the checkpoint holds `(step_done, saved image, xyz frames)` -/
structure VDisk (κ Rec : Type) where
  h5 : Quad (VRows Rec)
  xyz : List (Nat × Rec)
  ckpt : Option (Nat × κ × Nat)
deriving DecidableEq

/-- a running process: the engine state `st` plus the output state -/
structure VProc (σ κ Rec : Type) where
  st : σ
  h5 : Quad (VSW Rec)
  h5Flushed : Quad (VRows Rec)
  xyz : List (Nat × Rec)
  xyzFlushed : Nat
  ckpt : Option (Nat × κ × Nat)
  screen : List Nat

/-- fresh start: `initialize` produces the initial state `σ0` (same script, same seed) and writes
    the step-0 snapshot of every stream from it -/
def vstartFresh (D : Dyn σ κ Rec) (c : Cfg) (σ0 : σ) : VProc σ κ Rec :=
  { st := σ0
    h5 := Quad.zipWith (fun e ob => vopenFresh e c.steps (ob σ0)) c.h5 D.obs
    h5Flushed := c.h5.map (fun e => List.replicate (cap e c.steps) none)
    xyz := if 0 < c.xyz then [(0, D.obsXyz σ0)] else [], xyzFlushed := 0, ckpt := none, screen := [] }

/-- resume from the checkpoint `(o, k, nx)`: the engine continues from `load k` -/
def vstartResume (D : Dyn σ κ Rec) (c : Cfg) (d : VDisk κ Rec) (o : Nat) (k : κ) (nx : Nat) :
    VProc σ κ Rec :=
  { st := D.load k
    h5 := Quad.zipWith (fun e rows => vopenResume e o rows) c.h5 d.h5
    h5Flushed := d.h5, xyz := d.xyz.take nx, xyzFlushed := min nx d.xyz.length, ckpt := d.ckpt
    screen := [] }

def VProc.flush (p : VProc σ κ Rec) : VProc σ κ Rec :=
  { p with h5Flushed := p.h5.map (·.rows), xyzFlushed := p.xyz.length }

/-- the integrator part of step `s`: the state advances BEFORE any output of the step -/
def vactAdvance (D : Dyn σ κ Rec) (p : VProc σ κ Rec) : VProc σ κ Rec := { p with st := D.Φ p.st }

def vactScreen (c : Cfg) (s upto : Nat) (p : VProc σ κ Rec) : VProc σ κ Rec :=
  if 0 < upto && isDue c.print s then { p with screen := p.screen ++ [s] } else p

def vactData (D : Dyn σ κ Rec) (c : Cfg) (s upto : Nat) (p : VProc σ κ Rec) : VProc σ κ Rec :=
  if 1 < upto then
    { p with h5 := { p.h5 with data := VSW.step c.h5.data p.h5.data s (D.obs.data p.st) } }
  else p

def vactVec (D : Dyn σ κ Rec) (c : Cfg) (s upto : Nat) (p : VProc σ κ Rec) : VProc σ κ Rec :=
  if 2 < upto then { p with h5 := { p.h5 with
              coords := VSW.step c.h5.coords p.h5.coords s (D.obs.coords p.st)
              vels := VSW.step c.h5.vels p.h5.vels s (D.obs.vels p.st)
              forces := VSW.step c.h5.forces p.h5.forces s (D.obs.forces p.st) } } else p

def vactXyz (D : Dyn σ κ Rec) (c : Cfg) (s upto : Nat) (p : VProc σ κ Rec) : VProc σ κ Rec :=
  if 3 < upto && isDue c.xyz s then { p with xyz := p.xyz ++ [(s, D.obsXyz p.st)] } else p

def vactFlush (c : Cfg) (s upto : Nat) (p : VProc σ κ Rec) : VProc σ κ Rec :=
  if 4 < upto && isDue c.ckpt s then p.flush else p

def vactCkpt (D : Dyn σ κ Rec) (c : Cfg) (s upto : Nat) (p : VProc σ κ Rec) : VProc σ κ Rec :=
  if 6 < upto && isDue c.ckpt s then { p with ckpt := some (s, D.save p.st, p.xyz.length) } else p

/-- actions of step `s` in code order, as `MDOut.stepActs`, preceded by the integrator step.
    All outputs (and the checkpoint) of the step read the SAME `p.st`. -/
def vstepActs (D : Dyn σ κ Rec) (c : Cfg) (s upto : Nat) (p : VProc σ κ Rec) : VProc σ κ Rec :=
  vactCkpt D c s upto (vactFlush c s upto (vactXyz D c s upto (vactVec D c s upto
    (vactData D c s upto (vactScreen c s upto (vactAdvance D p))))))

def vrunTo (D : Dyn σ κ Rec) (c : Cfg) (o : Nat) : Nat → VProc σ κ Rec → VProc σ κ Rec
  | 0, p => p
  | k+1, p => vstepActs D c (o + k + 1) 7 (vrunTo D c o k p)

/-- `MDOut.mergeRows` for any row type -/
def vmergeRows {α : Type} (mask : Nat) (flushed mem : List α) : List α :=
  (List.zipWith (fun a b => (a, b)) flushed mem).zipIdx.map
    (fun ((a, b), i) => if mask.testBit i then b else a)

/-- the engine state dies with the process; only the output state survives -/
def VProc.closeSoft (p : VProc σ κ Rec) : VDisk κ Rec :=
  { h5 := p.h5.map (·.rows), xyz := p.xyz, ckpt := p.ckpt }

def VProc.closeHard (p : VProc σ κ Rec) (mask : Nat) : VDisk κ Rec :=
  { h5 := Quad.zipWith (fun f w => vmergeRows mask f w.rows) p.h5Flushed p.h5
    xyz := p.xyz.take (p.xyzFlushed + mask % (p.xyz.length - p.xyzFlushed + 1))
    ckpt := p.ckpt }

def vstart (D : Dyn σ κ Rec) (c : Cfg) (σ0 : σ) (d : Option (VDisk κ Rec)) : VProc σ κ Rec × Nat :=
  match d with
  | some dk => match dk.ckpt with
    | some (o, k, nx) => (vstartResume D c dk o k nx, o)
    | none => (vstartFresh D c σ0, 0)
  | none => (vstartFresh D c σ0, 0)

def vsegBody (D : Dyn σ κ Rec) (c : Cfg) (p : VProc σ κ Rec) (o : Nat) (cr : Option Crash) :
    VDisk κ Rec × List Nat :=
  match cr with
  | some k =>
    if o < k.step ∧ k.step ≤ c.steps then
      let p := vrunTo D c o (k.step - 1 - o) p
      let p := vstepActs D c k.step k.upto p
      (if k.hard then p.closeHard k.mask else p.closeSoft, p.screen)
    else
      let p := vrunTo D c o (c.steps - o) p
      (p.closeSoft, p.screen)
  | none =>
    let p := vrunTo D c o (c.steps - o) p
    (p.closeSoft, p.screen)

def vsegment (D : Dyn σ κ Rec) (c : Cfg) (σ0 : σ) (d : Option (VDisk κ Rec)) (cr : Option Crash) :
    VDisk κ Rec × List Nat :=
  vsegBody D c (vstart D c σ0 d).1 (vstart D c σ0 d).2 cr

def vhistory (D : Dyn σ κ Rec) (c : Cfg) (σ0 : σ) :
    Option (VDisk κ Rec) → List Crash → List (VDisk κ Rec × List Nat)
  | d, [] => [vsegment D c σ0 d none]
  | d, k :: ks =>
    let r := vsegment D c σ0 d (some k)
    r :: vhistory D c σ0 (some r.1) ks

def vfinalDisk (D : Dyn σ κ Rec) (c : Cfg) (σ0 : σ) : Option (VDisk κ Rec) → List Crash → VDisk κ Rec
  | d, [] => (vsegment D c σ0 d none).1
  | d, k :: ks => vfinalDisk D c σ0 (some (vsegment D c σ0 d (some k)).1) ks

/-- the specification of one stream with values: the due labels, each with the observation of the
    state of the UNINTERRUPTED dynamics at that label -/
def vspecRows (f : Nat → Rec) (e N : Nat) : VRows Rec := (due e N).map (fun s => some (s, f s))

def vspecDisk (D : Dyn σ κ Rec) (c : Cfg) (σ0 : σ) : VDisk κ Rec :=
  { h5 := Quad.zipWith (fun e ob => vspecRows (fun s => ob (traj D σ0 s)) e c.steps) c.h5 D.obs
    xyz := (due c.xyz c.steps).map (fun s => (s, D.obsXyz (traj D σ0 s)))
    ckpt := (lastCkpt c.ckpt c.steps).map
      (fun s => (s, D.save (traj D σ0 s), (due c.xyz s).length)) }

/-! ### forgetting the values -/

def eraseRows (r : VRows Rec) : Rows := r.map (Option.map Prod.fst)

def VSW.erase (w : VSW Rec) : SW := { rows := eraseRows w.rows, cur := w.cur }

def eraseCkpt (k : Option (Nat × κ × Nat)) : Option (Nat × Nat) := k.map (fun x => (x.1, x.2.2))

def VDisk.erase (d : VDisk κ Rec) : Disk :=
  { h5 := d.h5.map eraseRows, xyz := d.xyz.map Prod.fst, ckpt := eraseCkpt d.ckpt }

def VProc.erase (p : VProc σ κ Rec) : Proc :=
  { h5 := p.h5.map VSW.erase, h5Flushed := p.h5Flushed.map eraseRows, xyz := p.xyz.map Prod.fst
    xyzFlushed := p.xyzFlushed, ckpt := eraseCkpt p.ckpt, screen := p.screen }

/-! ## Part 2: the nonadiabatic stream, label level -/

/-- the label expression handed to `append_nonadiabatic`: resume offset → absolute step → label -/
abbrev NALabel := Nat → Nat → Nat

/-- the code: loop variable `i` runs from `step_offset`, the label is `i + 1` (absolute) -/
def naLabel : NALabel := fun _ s => s

/-- the historical slip: `i + 1 + step_offset` -/
def naLabelDouble : NALabel := fun o s => s + o

/-- the `MDOut` process plus the in-memory and flushed views of `/data/nonadiabatic` -/
structure Proc5 where
  base : Proc
  na : SW
  naFlushed : Rows
deriving Repr

structure Disk5 where
  base : Disk
  na : Rows
deriving Repr, DecidableEq

/-- a crash of the five-stream process: the `MDOut` crash, whether the `append_nonadiabatic` of the
    crash step was already executed when the crash hits inside `_do_integrator_step`
    (`base.upto = 0`; for `base.upto > 0` it necessarily was), and the keep/lose mask of the
    unflushed nonadiabatic rows for a hard kill -/
structure Crash5 where
  base : Crash
  naDone : Bool
  naMask : Nat
deriving Repr

/-- `_create_new` + the step-0 row written by `NonadiabaticDynamicsBase.initialize` -/
def startFresh5 (c : Cfg) (na : Nat) : Proc5 :=
  { base := startFresh c, na := openFresh na c.steps
    naFlushed := List.replicate (cap na c.steps) none }

/-- `_open_resume`: `i_na = offset // na + 1` -/
def startResume5 (c : Cfg) (na : Nat) (d : Disk5) (o nx : Nat) : Proc5 :=
  { base := startResume c d.base o nx, na := openResume na o d.na, naFlushed := d.na }

/-- step `s`: first (inside the integrator step) the nonadiabatic row with label `lbl`, then the
    `upto` actions of `MDOut.stepActs`; action 4 (`_flush_all`) flushes the whole HDF5 file -/
def stepActs5 (c : Cfg) (na : Nat) (s lbl upto : Nat) (naDone : Bool) (p : Proc5) : Proc5 :=
  let w := if naDone || decide (0 < upto) then SW.step na p.na lbl else p.na
  { base := stepActs c s upto p.base, na := w
    naFlushed := if 4 < upto && isDue c.ckpt s then w.rows else p.naFlushed }

def runTo5 (lab : NALabel) (c : Cfg) (na : Nat) (o : Nat) : Nat → Proc5 → Proc5
  | 0, p => p
  | k+1, p => stepActs5 c na (o + k + 1) (lab o (o + k + 1)) 7 true (runTo5 lab c na o k p)

def Proc5.closeSoft (p : Proc5) : Disk5 := { base := p.base.closeSoft, na := p.na.rows }

def Proc5.closeHard (p : Proc5) (mask naMask : Nat) : Disk5 :=
  { base := p.base.closeHard mask, na := mergeRows naMask p.naFlushed p.na.rows }

def start5 (c : Cfg) (na : Nat) (d : Option Disk5) : Proc5 × Nat :=
  match d with
  | some dk => match dk.base.ckpt with
    | some (o, nx) => (startResume5 c na dk o nx, o)
    | none => (startFresh5 c na, 0)
  | none => (startFresh5 c na, 0)

def segBody5 (lab : NALabel) (c : Cfg) (na : Nat) (p : Proc5) (o : Nat) (cr : Option Crash5) : Disk5 :=
  match cr with
  | some k =>
    if o < k.base.step ∧ k.base.step ≤ c.steps then
      let p := runTo5 lab c na o (k.base.step - 1 - o) p
      let p := stepActs5 c na k.base.step (lab o k.base.step) k.base.upto k.naDone p
      if k.base.hard then p.closeHard k.base.mask k.naMask else p.closeSoft
    else
      (runTo5 lab c na o (c.steps - o) p).closeSoft
  | none => (runTo5 lab c na o (c.steps - o) p).closeSoft

def segment5 (lab : NALabel) (c : Cfg) (na : Nat) (d : Option Disk5) (cr : Option Crash5) : Disk5 :=
  segBody5 lab c na (start5 c na d).1 (start5 c na d).2 cr

def history5 (lab : NALabel) (c : Cfg) (na : Nat) : Option Disk5 → List Crash5 → List Disk5
  | d, [] => [segment5 lab c na d none]
  | d, k :: ks =>
    let r := segment5 lab c na d (some k)
    r :: history5 lab c na (some r) ks

def finalDisk5 (lab : NALabel) (c : Cfg) (na : Nat) : Option Disk5 → List Crash5 → Disk5
  | d, [] => segment5 lab c na d none
  | d, k :: ks => finalDisk5 lab c na (some (segment5 lab c na d (some k))) ks

def specDisk5 (c : Cfg) (na : Nat) : Disk5 := { base := specDisk c, na := specRows na c.steps }

/-! ## Parts 1 + 2 together: the nonadiabatic stream with values

The nonadiabatic record of step 0 is read off the initial state by
`NonadiabaticDynamicsBase.initialize`; the record of step `s+1` is appended INSIDE
`_do_integrator_step`, before the step is complete, so it is a (deterministic) function `mid` of
the state the engine had after step `s`. -/

structure NAObs (σ Rec : Type) where
  /-- row of step 0 (`active_states`, amplitudes, initial `nac_dot`), from the initial state -/
  init : σ → Rec
  /-- row of step `s+1` as a function of the complete state after step `s`: the observation made
      in the middle of `_do_integrator_step`, after `_after_electronic_update` -/
  mid : σ → Rec

/-- the nonadiabatic record the UNINTERRUPTED dynamics produces for label `s` -/
def naAt (D : Dyn σ κ Rec) (O : NAObs σ Rec) (σ0 : σ) : Nat → Rec
  | 0 => O.init σ0
  | s + 1 => O.mid (traj D σ0 s)

structure VProc5 (σ κ Rec : Type) where
  base : VProc σ κ Rec
  na : VSW Rec
  naFlushed : VRows Rec

structure VDisk5 (κ Rec : Type) where
  base : VDisk κ Rec
  na : VRows Rec
deriving DecidableEq

def vstartFresh5 (D : Dyn σ κ Rec) (O : NAObs σ Rec) (c : Cfg) (na : Nat) (σ0 : σ) : VProc5 σ κ Rec :=
  { base := vstartFresh D c σ0, na := vopenFresh na c.steps (O.init σ0)
    naFlushed := List.replicate (cap na c.steps) none }

def vstartResume5 (D : Dyn σ κ Rec) (c : Cfg) (na : Nat) (d : VDisk5 κ Rec) (o : Nat) (k : κ)
    (nx : Nat) : VProc5 σ κ Rec :=
  { base := vstartResume D c d.base o k nx, na := vopenResume na o d.na, naFlushed := d.na }

/-- as `stepActs5` (with the label of the code); the nonadiabatic record is computed from the
    state BEFORE the step (`p.base.st`), `vstepActs` then advances it -/
def vstepActs5 (D : Dyn σ κ Rec) (O : NAObs σ Rec) (c : Cfg) (na : Nat) (s upto : Nat) (naDone : Bool)
    (p : VProc5 σ κ Rec) : VProc5 σ κ Rec :=
  let w := if naDone || decide (0 < upto) then VSW.step na p.na s (O.mid p.base.st) else p.na
  { base := vstepActs D c s upto p.base, na := w
    naFlushed := if 4 < upto && isDue c.ckpt s then w.rows else p.naFlushed }

def vrunTo5 (D : Dyn σ κ Rec) (O : NAObs σ Rec) (c : Cfg) (na : Nat) (o : Nat) :
    Nat → VProc5 σ κ Rec → VProc5 σ κ Rec
  | 0, p => p
  | k+1, p => vstepActs5 D O c na (o + k + 1) 7 true (vrunTo5 D O c na o k p)

def VProc5.closeSoft (p : VProc5 σ κ Rec) : VDisk5 κ Rec :=
  { base := p.base.closeSoft, na := p.na.rows }

def VProc5.closeHard (p : VProc5 σ κ Rec) (mask naMask : Nat) : VDisk5 κ Rec :=
  { base := p.base.closeHard mask, na := vmergeRows naMask p.naFlushed p.na.rows }

def vstart5 (D : Dyn σ κ Rec) (O : NAObs σ Rec) (c : Cfg) (na : Nat) (σ0 : σ)
    (d : Option (VDisk5 κ Rec)) : VProc5 σ κ Rec × Nat :=
  match d with
  | some dk => match dk.base.ckpt with
    | some (o, k, nx) => (vstartResume5 D c na dk o k nx, o)
    | none => (vstartFresh5 D O c na σ0, 0)
  | none => (vstartFresh5 D O c na σ0, 0)

def vsegBody5 (D : Dyn σ κ Rec) (O : NAObs σ Rec) (c : Cfg) (na : Nat) (p : VProc5 σ κ Rec) (o : Nat)
    (cr : Option Crash5) : VDisk5 κ Rec :=
  match cr with
  | some k =>
    if o < k.base.step ∧ k.base.step ≤ c.steps then
      let p := vrunTo5 D O c na o (k.base.step - 1 - o) p
      let p := vstepActs5 D O c na k.base.step k.base.upto k.naDone p
      if k.base.hard then p.closeHard k.base.mask k.naMask else p.closeSoft
    else
      (vrunTo5 D O c na o (c.steps - o) p).closeSoft
  | none => (vrunTo5 D O c na o (c.steps - o) p).closeSoft

def vsegment5 (D : Dyn σ κ Rec) (O : NAObs σ Rec) (c : Cfg) (na : Nat) (σ0 : σ)
    (d : Option (VDisk5 κ Rec)) (cr : Option Crash5) : VDisk5 κ Rec :=
  vsegBody5 D O c na (vstart5 D O c na σ0 d).1 (vstart5 D O c na σ0 d).2 cr

def vhistory5 (D : Dyn σ κ Rec) (O : NAObs σ Rec) (c : Cfg) (na : Nat) (σ0 : σ) :
    Option (VDisk5 κ Rec) → List Crash5 → List (VDisk5 κ Rec)
  | d, [] => [vsegment5 D O c na σ0 d none]
  | d, k :: ks =>
    let r := vsegment5 D O c na σ0 d (some k)
    r :: vhistory5 D O c na σ0 (some r) ks

def vfinalDisk5 (D : Dyn σ κ Rec) (O : NAObs σ Rec) (c : Cfg) (na : Nat) (σ0 : σ) :
    Option (VDisk5 κ Rec) → List Crash5 → VDisk5 κ Rec
  | d, [] => vsegment5 D O c na σ0 d none
  | d, k :: ks => vfinalDisk5 D O c na σ0 (some (vsegment5 D O c na σ0 d (some k))) ks

def vspecDisk5 (D : Dyn σ κ Rec) (O : NAObs σ Rec) (c : Cfg) (na : Nat) (σ0 : σ) : VDisk5 κ Rec :=
  { base := vspecDisk D c σ0, na := vspecRows (naAt D O σ0) na c.steps }

def VProc5.erase (p : VProc5 σ κ Rec) : Proc5 :=
  { base := p.base.erase, na := p.na.erase, naFlushed := eraseRows p.naFlushed }

def VDisk5.erase (d : VDisk5 κ Rec) : Disk5 := { base := d.base.erase, na := eraseRows d.na }

end MDState
