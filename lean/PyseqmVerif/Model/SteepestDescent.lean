import PyseqmVerif.Model.Hop
/-!
# The built-in steepest-descent optimiser (core Lean only, scalar-polymorphic)

Mirrors `Geometry_Optimization_SD.onestep` and `.run` of `seqm/MolecularDynamics.py`:

```
def onestep(self, molecule, ...):
    self.esdriver(molecule, ...)                       # evaluate at the CURRENT coordinates
    force = molecule.force
    molecule.coordinates.add_(self.alpha * force)      # move BEFORE the stop test
    return force, molecule.Etot

def run(self, molecule, ...):
    Lold = torch.zeros(nmol)
    for i in range(self.max_evl):
        force, Lnew = self.onestep(molecule, ...)
        force_err = torch.max(torch.abs(force))        # over the whole BATCH
        energy_err = (Lnew - Lold).sum() / nmol
        if force_err > self.force_tol:
            Lold = Lnew
            continue
        else:
            break
    if i == (self.max_evl - 1): print("not converged within %d step" % self.max_evl)
    else: ... print("converged with %d step, ...")
    return force_err, energy_err
```

Two models:
* `run`: the control flow as a fold over a supplied sequence of per-evaluation records
  `(force_err_i, Etot_i[nmol])` (used by the correspondence harness);
* `runFull`: the same loop with the force engine as a function parameter and the coordinates as
  state (used for the statements about the stored geometry and batch independence).
-/
namespace SD
open Hop (sumL)

variable {α : Type}

/-- what one evaluation contributes to the control flow -/
structure Rec (α : Type) where
  forceErr : α
  E : List α

/-- `nEvals` = `i + 1` after the loop; `notConverged` ↔ the line "not converged within … step" is
    printed; `(forceErr, energyErr)` is the returned pair -/
structure Out (α : Type) where
  nEvals : Nat
  notConverged : Bool
  forceErr : α
  energyErr : α

section model
variable [Add α] [Sub α] [Mul α] [Div α] [OfNat α 0] [LT α] [DecidableLT α]

/-- `(Lnew - Lold).sum() / nmol` -/
def energyErr (nmol : α) (Lnew Lold : List α) : α := sumL (List.zipWith (· - ·) Lnew Lold) / nmol

/-- `for i in range(max_evl)`: `fuel` iterations left, loop variable `i`, `last` = the values
    `(i, force_err, energy_err)` bound by the previous iteration (Python keeps them after the loop;
    `none` = unbound).  Running out of supplied records is `none` as well. -/
def loop (tol nmol : α) : Nat → Nat → List α → Option (Nat × α × α) → List (Rec α) →
    Option (Nat × α × α)
  | 0, _, _, last, _ => last
  | _+1, _, _, _, [] => none
  | fuel+1, i, Lold, _, r :: rs =>
    let fe := r.forceErr
    let ee := energyErr nmol r.E Lold
    if tol < fe then loop tol nmol fuel (i+1) r.E (some (i, fe, ee)) rs
    else some (i, fe, ee)

/-- `run` on supplied records.  `none`: `max_evl = 0` (Python raises `UnboundLocalError` for `i`)
    or fewer records than evaluations. -/
def run (ofNat : Nat → α) (maxEvl : Nat) (tol : α) (nmol : Nat) (recs : List (Rec α)) :
    Option (Out α) :=
  (loop tol (ofNat nmol) maxEvl 0 (List.replicate nmol 0) none recs).map fun (i, fe, ee) =>
    { nEvals := i + 1, notConverged := (i == maxEvl - 1), forceErr := fe, energyErr := ee }

/-- `coordinates.add_(alpha * force)` for one molecule (flattened) -/
def updateCoords (alpha : α) (x F : List α) : List α :=
  List.zipWith (fun xi fi => xi + alpha * fi) x F

/-- … and for the batch: molecule `k` moves along its own force only -/
def updateBatch (alpha : α) (xs Fs : List (List α)) : List (List α) :=
  List.zipWith (updateCoords alpha) xs Fs

/-- `torch.max(torch.abs(force))` over the whole batch (values are `≥ 0`: fold from 0) -/
def maxAbs (abs : α → α) (Fs : List (List α)) : α :=
  (Fs.flatten.map abs).foldl (fun m a => if m < a then a else m) 0

/-- the loop with the engine `eval : batch coordinates → (batch forces, Etot per molecule)` -/
def loopFull (eval : List (List α) → List (List α) × List α) (abs : α → α) (alpha tol nmol : α) :
    Nat → Nat → List (List α) → List α → Option (Nat × α × α) →
    List (List α) × Option (Nat × α × α)
  | 0, _, xs, _, last => (xs, last)
  | fuel+1, i, xs, Lold, _ =>
    let (F, Lnew) := eval xs
    let xs' := updateBatch alpha xs F
    let fe := maxAbs abs F
    let ee := energyErr nmol Lnew Lold
    if tol < fe then loopFull eval abs alpha tol nmol fuel (i+1) xs' Lnew (some (i, fe, ee))
    else (xs', some (i, fe, ee))

/-- `Geometry_Optimization_SD.run`: `(stored coordinates, result)` -/
def runFull (eval : List (List α) → List (List α) × List α) (abs : α → α) (ofNat : Nat → α)
    (alpha : α) (maxEvl : Nat) (tol : α) (xs : List (List α)) :
    List (List α) × Option (Out α) :=
  let r := loopFull eval abs alpha tol (ofNat xs.length) maxEvl 0 xs (List.replicate xs.length 0) none
  (r.1, r.2.map fun (i, fe, ee) =>
    { nEvals := i + 1, notConverged := (i == maxEvl - 1), forceErr := fe, energyErr := ee })

end model

/-! ## driver -/

def parseRecs (nmol : Nat) : Nat → List Float → List (Rec Float)
  | 0, _ => []
  | k+1, l => match l with
    | fe :: rest => { forceErr := fe, E := rest.take nmol } :: parseRecs nmol k (rest.drop nmol)
    | [] => []

/-- Operations (floats are decimal IEEE-754 bit patterns):

* `sd_run max_evl tol nmol nrec (force_err E[nmol])*nrec` → `n_evals msg force_err energy_err`
  (`msg = 1` ↔ "not converged within … step" is printed, `0` ↔ the "converged with …" branch;
  `force_err_i = torch.max(torch.abs(force_i))`, `E = molecule.Etot` of evaluation `i`;
  answers `bad-op` when `max_evl = 0` or when the records run out before the loop stops)
* `sd_update alpha n x[n] F[n]` → `x'[n]` (`coordinates.add_(alpha * force)`, flattened) -/
def handle (toks : List String) : Option String :=
  match toks with
  | "sd_run" :: me :: tol :: nmol :: nrec :: rest => do
    let me ← me.toNat?
    let tol ← Util.floatTok? tol
    let nmol ← nmol.toNat?
    let nrec ← nrec.toNat?
    if rest.length ≠ nrec * (1 + nmol) then none else
    let fs ← Util.floatList? rest
    let o ← run Float.ofNat me tol nmol (parseRecs nmol nrec fs)
    pure (s!"{o.nEvals} {if o.notConverged then 1 else 0} " ++ Util.showFloat o.forceErr ++ " " ++
      Util.showFloat o.energyErr)
  | "sd_update" :: a :: n :: rest => do
    let a ← Util.floatTok? a
    let n ← n.toNat?
    if rest.length ≠ 2 * n then none else
    let fs ← Util.floatList? rest
    pure (Util.showFloats (updateCoords a (fs.take n) (fs.drop n)))
  | _ => none
-- DRIVER-HANDLER: SD.handle

end SD
