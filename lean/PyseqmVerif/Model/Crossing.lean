import PyseqmVerif.Model.Util
/-!
# Trivial-crossing detection in a BATCH of trajectories (index bookkeeping)
(core Lean only, integer data, executable)

Mirrors `seqm/NonadiabaticDynamics.py`, `NonadiabaticDynamicsBase._detect_crossings`
(the part after `ov_win` has been formed, lines ≈ 525–628), statement by statement, INCLUDING the
subset-of-subset index composition

```
need_idx       = need_perm.nonzero()                 # batch indices of the rows that need a permutation
perm_need      = _compute_perm_from_overlap(ov_win[need_idx])
probe_in_need  = probe_mask[need_idx];   probe_mol_idx  = need_idx[probe_in_need]
detect_in_need = detect_mask[need_idx];  detect_mol_idx = need_idx[detect_in_need]
perm           = perm_need[detect_in_need]
det_row, i_sel = trivial.nonzero(as_tuple=True);  j_sel = perm[det_row, i_sel]
full_m         = detect_mol_idx[det_row]             # <- the composition that is easy to get wrong
swap_to[full_m, i_sel] = j_sel;  swap_to[full_m, j_sel] = i_sel
zero_mask[full_m, i_sel, j_sel] = True;  zero_mask[full_m, j_sel, i_sel] = True
```

* Tensors are lists; a boolean-mask index `t[mask]` is `maskSelect`, an integer index `t[idx]` is
  `idx.map (t.getD · default)`, `mask.nonzero()` is `nonzero`, the 2-d `nonzero(as_tuple=True)` is
  `nonzero2` (row-major, as torch).
* Overlaps are integers (e.g. thousandths, `thr = 900` for `0.9`): only comparisons `≥ thr` occur.
* `_compute_perm_from_overlap` is a PARAMETER `permOf : Row → List Nat` (it is row-wise in the
  Python: `perms = [self._hungarian_perm(cost_cpu[m]) for m in range(nmol)]`); it is applied to the
  NEEDED rows only, exactly as `perm_need = self._compute_perm_from_overlap(ov_win[need_idx])`.
* The three data-dependent early exits `return None` (`not need_perm.any()`,
  `not detect_in_need.any()`, `not trivial.any()`) are modelled; the first exit of the Python
  (`not self._detect_crossings_flag or cache_old is None or cache_new is None`) is configuration and
  lies outside the model.  Note that the probe group's reset of `post_hop_holdoff` happens BEFORE
  the second and third exit, so the hold-off counters are an output even when the table is `None`.
* `detectCore true` is the seeded-bug variant `full_m = need_idx[det_row]`.

## wire format of the driver operation `crossing`   (all tokens decimal integers)

```
crossing nmol n thr  T_0 … T_{nmol-1}
   T_m = active holdoff prev_state  ov[n*n]  perm[n]
```
`ov` = the overlap window `ov_win[m]` row-major, already scaled to integers (`thr` in the same
units; the ±2 APC window mask of the Python is re-applied by the handler, which is the identity on
an already windowed matrix, so the raw `|overlap|` may be sent as well); `perm` = what the REAL
`_compute_perm_from_overlap` returns for `ov_win[m:m+1]` (supplied for every trajectory, the model
looks only at those of needed rows; entries must be `< n`; `bad-op` if two NEEDED rows with equal
windows carry different permutations, i.e. if the real routine were not row-wise).  `active < n`, `holdoff ≥ 0`,
`-1 ≤ prev_state < n`.  Answer (one line):

```
none | some s[nmol*n]      -- the returned swap_to, row-major (-1 = undefined); `none` ⇔ Python None
h h[nmol]                  -- post_hop_holdoff afterwards
z k (m i j)*k              -- the k index triples with zero_mask[m,i,j] = True, sorted, no duplicates
```
e.g. `crossing 2 2 900 0 0 -1 10 950 950 10 1 0 0 0 -1 990 0 0 990 0 1`
  → `some 1 0 -1 -1 h 0 0 z 2 0 0 1 0 1 0`
and (trajectory 0 in hold-off and probed, 1 idle, 2 detected: `need_idx = [0,2]`, `detect_mol_idx = [2]`)
`crossing 3 2 900 0 2 0 10 950 950 10 1 0 0 0 -1 990 0 0 990 0 1 1 0 -1 10 950 950 10 1 0`
  → `some -1 -1 -1 -1 1 0 h 0 0 0 z 2 2 0 1 2 1 0`
-/
namespace Crossing

/-- one trajectory's overlap window `ov_win[m]` (n×n, non-negative, scaled to integers) -/
abbrev Row := List (List Int)

/-- the per-trajectory state read by `_detect_crossings` -/
structure Traj where
  /-- `self._active_states[m]` (0-based) -/
  active : Nat
  /-- `self.post_hop_holdoff[m]` (already decremented and clamped at 0 by the caller) -/
  holdoff : Nat
  /-- `self.prev_state[m]`, `-1` = none -/
  prev : Int
  /-- `ov_win[m]` -/
  ov : Row
deriving DecidableEq, Repr

/-! ## tensor idioms -/

/-- `mask.nonzero().squeeze(1)`: the indices of the `True` entries, ascending -/
def nonzeroFrom (k : Nat) : List Bool → List Nat
  | [] => []
  | b :: bs => if b then k :: nonzeroFrom (k + 1) bs else nonzeroFrom (k + 1) bs

def nonzero (mask : List Bool) : List Nat := nonzeroFrom 0 mask

/-- `t[mask]` for a boolean mask over the first axis -/
def maskSelect {β : Type} : List β → List Bool → List β
  | x :: xs, b :: bs => if b then x :: maskSelect xs bs else maskSelect xs bs
  | _, _ => []

/-- `mask2d.nonzero(as_tuple=True)`: `(row, column)` of the `True` entries in row-major order -/
def nonzero2From (r : Nat) : List (List Bool) → List (Nat × Nat)
  | [] => []
  | row :: rest => (nonzero row).map (fun i => (r, i)) ++ nonzero2From (r + 1) rest

def nonzero2 (mask : List (List Bool)) : List (Nat × Nat) := nonzero2From 0 mask

/-- `ov[i, j]` -/
def ovAt (ov : Row) (i j : Nat) : Int := (ov.getD i []).getD j 0

/-- `in_win = (j >= i - w) & (j <= i + w); ov_win = overlap.masked_fill(~in_win, 0.0)` -/
def window (w : Nat) (ov : Row) : Row :=
  ov.zipIdx.map fun (row, i) => row.zipIdx.map fun (x, j) => if i ≤ j + w ∧ j ≤ i + w then x else 0

/-- `row.masked_fill(index == k, 0.0).max() >= thr` (the maximum of a finite row reaches `thr` iff
    one of its entries does) -/
def rowHasStrong (thr : Int) (k : Nat) (row : List Int) : Bool :=
  row.zipIdx.any fun (x, j) => decide (thr ≤ (if j = k then 0 else x))

/-- `has_strong_offdiag = (ov_win.masked_fill(diag_mask, 0.0).max(dim=2).values >= thr).any(dim=1)` -/
def hasStrongOffdiag (thr : Int) (ov : Row) : Bool :=
  ov.zipIdx.any fun (row, i) => rowHasStrong thr i row

/-- `active_row = ov_win[mol_ar, active];
    active_has_partner = active_row.masked_fill(active_mask, 0.0).max(dim=1).values >= thr` -/
def activeHasPartner (thr : Int) (active : Nat) (ov : Row) : Bool :=
  rowHasStrong thr active (ov.getD active [])

/-- `probe_mask = holdoff & (self.prev_state >= 0) & active_has_partner` (element `m`) -/
def probeMaskOf (thr : Int) (t : Traj) : Bool :=
  (decide (0 < t.holdoff) && decide (0 ≤ t.prev)) && activeHasPartner thr t.active t.ov

/-- `detect_mask = (~holdoff) & has_strong_offdiag` (element `m`) -/
def detectMaskOf (thr : Int) (t : Traj) : Bool :=
  (!decide (0 < t.holdoff)) && hasStrongOffdiag thr t.ov

/-- one row of `trivial = (perm != i) & (i < perm) & (ov_ip >= thr)`,
    `ov_ip[r, i] = overlap_det[r, i, perm[r, i]]` -/
def trivRow (thr : Int) (ov : Row) (p : List Nat) : List Bool :=
  p.zipIdx.map fun (pj, i) => (decide (pj ≠ i) && decide (i < pj)) && decide (thr ≤ ovAt ov i pj)

/-- `reset = (partner != active) & (partner_ov >= thr) & (partner != prev)` for one probe row with
    `partner = perm_probe[row, active]`, `partner_ov = ov_win[m, active, partner]` -/
def resetOf (thr : Int) (active : Nat) (prev : Int) (ov : Row) (p : List Nat) : Bool :=
  let partner := p.getD active active
  let partnerOv := ovAt ov active partner
  (decide (partner ≠ active) && decide (thr ≤ partnerOv)) && decide ((partner : Int) ≠ prev)

/-- `swap_to[m, i] = v` -/
def setAt (T : List (List Int)) (m i : Nat) (v : Int) : List (List Int) :=
  T.modify m (fun row => row.set i v)

/-! ## the batch routine -/

structure Result where
  /-- the return value: `none` ⇔ Python `None` -/
  swap : Option (List (List Int))
  /-- `self.post_hop_holdoff` afterwards -/
  holdoff : List Nat
  /-- the index triples `(m, i, j)` with `zero_mask[m, i, j] = True` (empty when `None` is returned:
      the mask is then neither built nor applied), in assignment order -/
  zero : List (Nat × Nat × Nat)
deriving DecidableEq, Repr

/-- the probe block (`# ---- Probe reset ----`): returns the new `post_hop_holdoff` -/
def probeBlock (thr : Int) (ovWin : List Row) (actives : List Nat) (prevs : List Int)
    (holdoffs : List Nat) (needIdx : List Nat) (permNeed : List (List Nat)) (probeMask : List Bool) :
    List Nat :=
  let probeInNeed := needIdx.map (probeMask.getD · false)          -- probe_mask[need_idx]
  if probeInNeed.any id then
    let probeMolIdx := maskSelect needIdx probeInNeed               -- need_idx[probe_in_need]
    let permProbe := maskSelect permNeed probeInNeed                -- perm_need[probe_in_need]
    let reset := (probeMolIdx.zip permProbe).map fun (m, p) =>      -- row = arange(n_probe)
      resetOf thr (actives.getD m 0) (prevs.getD m (-1)) (ovWin.getD m []) p
    if reset.any id then
      -- self.post_hop_holdoff[probe_mol_idx[reset]] = 0
      (maskSelect probeMolIdx reset).foldl (fun h m => h.set m 0) holdoffs
    else holdoffs
  else holdoffs

/-- the detect block (`# ---- Detect + build swaps for trivial crossings ----` to the end).
    `buggy = false` is the code as written (`full_m = detect_mol_idx[det_row]`); `buggy = true` is
    the variant `full_m = need_idx[det_row]`.  `holdoffs'` is only passed through. -/
def detectBlock (buggy : Bool) (n nmol : Nat) (thr : Int) (ovWin : List Row) (detectMask : List Bool)
    (needIdx : List Nat) (permNeed : List (List Nat)) (holdoffs' : List Nat) : Result :=
  let detectInNeed := needIdx.map (detectMask.getD · false)         -- detect_mask[need_idx]
  if !detectInNeed.any id then ⟨none, holdoffs', []⟩                -- return None
  else
    let detectMolIdx := maskSelect needIdx detectInNeed             -- need_idx[detect_in_need]
    let perm := maskSelect permNeed detectInNeed                    -- perm_need[detect_in_need]
    let overlapDet := detectMolIdx.map (ovWin.getD · [])            -- ov_win[detect_mol_idx]
    let trivial := (overlapDet.zip perm).map fun (ov, p) => trivRow thr ov p
    if !trivial.any (·.any id) then ⟨none, holdoffs', []⟩           -- return None
    else
      let sel := nonzero2 trivial                                   -- det_row, i_sel
      let idxMap := if buggy then needIdx else detectMolIdx
      -- (full_m, i_sel, j_sel),  j_sel = perm[det_row, i_sel],  full_m = detect_mol_idx[det_row]
      let triples := sel.map fun (r, i) => (idxMap.getD r 0, i, (perm.getD r []).getD i i)
      let swap0 := List.replicate nmol (List.replicate n (-1 : Int))
      -- swap_to[full_m, i_sel] = j_sel
      let swap1 := triples.foldl (fun T q => setAt T q.1 q.2.1 (q.2.2 : Int)) swap0
      -- swap_to[full_m, j_sel] = i_sel
      let swap2 := triples.foldl (fun T q => setAt T q.1 q.2.2 (q.2.1 : Int)) swap1
      -- zero_mask[full_m, i_sel, j_sel] = True; zero_mask[full_m, j_sel, i_sel] = True
      ⟨some swap2, holdoffs', triples ++ triples.map fun q => (q.1, q.2.2, q.2.1)⟩

/-- `_detect_crossings` on a batch; `n = n_states` (`overlap.shape[1]`). -/
def detectCore (buggy : Bool) (n : Nat) (thr : Int) (permOf : Row → List Nat) (batch : List Traj) :
    Result :=
  let nmol := batch.length
  let ovWin := batch.map (·.ov)
  let actives := batch.map (·.active)
  let prevs := batch.map (·.prev)
  let holdoffs := batch.map (·.holdoff)
  let probeMask := batch.map (probeMaskOf thr)
  let detectMask := batch.map (detectMaskOf thr)
  let needPerm := List.zipWith (· || ·) probeMask detectMask
  if !needPerm.any id then ⟨none, holdoffs, []⟩                     -- if not need_perm.any(): return None
  else
    let needIdx := nonzero needPerm
    let ovNeed := needIdx.map (ovWin.getD · [])                     -- ov_win[need_idx]
    let permNeed := ovNeed.map permOf                               -- row-wise _compute_perm_from_overlap
    let holdoffs' := probeBlock thr ovWin actives prevs holdoffs needIdx permNeed probeMask
    detectBlock buggy n nmol thr ovWin detectMask needIdx permNeed holdoffs'

/-- the routine as written: `(swap_to or None, post_hop_holdoff afterwards)` -/
def detectBatch (n : Nat) (thr : Int) (permOf : Row → List Nat) (batch : List Traj) :
    Option (List (List Int)) × List Nat :=
  let r := detectCore false n thr permOf batch
  (r.swap, r.holdoff)

/-- the set of `(m, i, j)` whose couplings are zeroed -/
def zeroPairs (n : Nat) (thr : Int) (permOf : Row → List Nat) (batch : List Traj) :
    List (Nat × Nat × Nat) :=
  (detectCore false n thr permOf batch).zero

/-- seeded bug: `full_m = need_idx[det_row]` -/
def detectBatchBuggy (n : Nat) (thr : Int) (permOf : Row → List Nat) (batch : List Traj) :
    Option (List (List Int)) × List Nat :=
  let r := detectCore true n thr permOf batch
  (r.swap, r.holdoff)

def zeroPairsBuggy (n : Nat) (thr : Int) (permOf : Row → List Nat) (batch : List Traj) :
    List (Nat × Nat × Nat) :=
  (detectCore true n thr permOf batch).zero

/-! ## per-trajectory specification -/

/-- the trivially crossed pairs `(i, p i)` of one trajectory, ascending in `i` -/
def pairsOf (thr : Int) (ov : Row) (p : List Nat) : List (Nat × Nat) :=
  p.zipIdx.filterMap fun (pj, i) =>
    if (decide (pj ≠ i) && decide (i < pj)) && decide (thr ≤ ovAt ov i pj) then some (i, pj) else none

/-- `row = -1; row[i_sel] = j_sel; row[j_sel] = i_sel` (two assignments, later writes win) -/
def buildRow (n : Nat) (pairs : List (Nat × Nat)) : List Int :=
  let s1 := pairs.foldl (fun s q => s.set q.1 (q.2 : Int)) (List.replicate n (-1 : Int))
  pairs.foldl (fun s q => s.set q.2 (q.1 : Int)) s1

/-- what `_detect_crossings` does to ONE trajectory -/
structure One where
  /-- its row of `swap_to` (all `-1` if `None` is returned) -/
  row : List Int
  /-- its hold-off counter afterwards -/
  holdoff : Nat
  /-- the `(i, j)` of its couplings that are zeroed -/
  zero : List (Nat × Nat)
deriving DecidableEq, Repr

/-- direct per-trajectory specification (no batch indices) -/
def detectOne (n : Nat) (thr : Int) (permOf : Row → List Nat) (t : Traj) : One :=
  let pairs := if detectMaskOf thr t then pairsOf thr t.ov (permOf t.ov) else []
  { row := buildRow n pairs
    holdoff := if probeMaskOf thr t && resetOf thr t.active t.prev t.ov (permOf t.ov) then 0
               else t.holdoff
    zero := pairs ++ pairs.map fun q => (q.2, q.1) }

/-- row `m` of the returned table, `None` read as "nothing defined" -/
def rowOf (n : Nat) (swap : Option (List (List Int))) (m : Nat) : List Int :=
  match swap with
  | none => List.replicate n (-1)
  | some T => T.getD m (List.replicate n (-1))

/-- the `(i, j)` zeroed for trajectory `m` -/
def zeroOf (zero : List (Nat × Nat × Nat)) (m : Nat) : List (Nat × Nat) :=
  (zero.filter fun q => q.1 == m).map (·.2)

/-- the batch of one: `_detect_crossings` run on trajectory `t` alone -/
def detectAlone (n : Nat) (thr : Int) (permOf : Row → List Nat) (t : Traj) : One :=
  let r := detectCore false n thr permOf [t]
  { row := rowOf n r.swap 0, holdoff := r.holdoff.getD 0 t.holdoff, zero := zeroOf r.zero 0 }

/-! ## driver -/

def chunk {β : Type} (k : Nat) : Nat → List β → List (List β)
  | 0, _ => []
  | n+1, l => l.take k :: chunk k n (l.drop k)

def intList? : List String → Option (List Int)
  | [] => some []
  | t :: ts => do
    let n ← t.toInt?
    let r ← intList? ts
    pure (n :: r)

/-- parse `nmol` trajectories `active holdoff prev ov[n*n] perm[n]` -/
def parseTrajs (n : Nat) : Nat → List Int → Option (List (Traj × List Nat))
  | 0, [] => some []
  | 0, _ :: _ => none
  | k+1, toks =>
    match toks with
    | a :: h :: pv :: rest =>
      if rest.length < n * n + n then none else
      let ov := chunk n n (rest.take (n * n))
      let perm := (rest.drop (n * n)).take n
      if a < 0 || a ≥ (n : Int) || h < 0 || pv < -1 || pv ≥ (n : Int)
          || perm.any (fun x => x < 0 || x ≥ (n : Int)) then none else
      (parseTrajs n k (rest.drop (n * n + n))).map fun tl =>
        (({ active := a.toNat, holdoff := h.toNat, prev := pv, ov := window 2 ov } : Traj),
          perm.map Int.toNat) :: tl
    | _ => none

/-- insertion into a sorted duplicate-free list (lexicographic on `(m, i, j)`) -/
def insertSorted (q : Nat × Nat × Nat) : List (Nat × Nat × Nat) → List (Nat × Nat × Nat)
  | [] => [q]
  | x :: xs =>
    let lt (a b : Nat × Nat × Nat) : Bool :=
      a.1 < b.1 || (a.1 == b.1 && (a.2.1 < b.2.1 || (a.2.1 == b.2.1 && a.2.2 < b.2.2)))
    if q == x then x :: xs else if lt q x then q :: x :: xs else x :: insertSorted q xs

def sortDedup (l : List (Nat × Nat × Nat)) : List (Nat × Nat × Nat) :=
  l.foldl (fun acc q => insertSorted q acc) []

/-- Operation `crossing nmol n thr (active holdoff prev ov[n*n] perm[n])*nmol`
    → `none|some s[nmol*n]  h h[nmol]  z k (m i j)*k` (see the file header). -/
def handle (toks : List String) : Option String :=
  match toks with
  | "crossing" :: nmol :: n :: thr :: rest => do
    let nmol ← nmol.toNat?
    let n ← n.toNat?
    let thr ← thr.toInt?
    if n == 0 then none else
    let xs ← intList? rest
    let trajs ← parseTrajs n nmol xs
    let batch := trajs.map (·.1)
    let perms := trajs.map (·.2)
    -- `permOf` must be a function of the overlap window of ONE row: it is the lookup table
    -- window ↦ supplied permutation over the NEEDED rows only (the supplied permutations of the
    -- other rows are never looked at); a request in which two needed rows with equal windows carry
    -- different permutations contradicts row-wiseness of the real routine and is rejected
    let table := ((batch.zip perms).filter fun (t, _) => probeMaskOf thr t || detectMaskOf thr t).map
      fun (t, p) => (t.ov, p)
    if table.any (fun (ov, p) => table.any fun (ov', p') => ov == ov' && p != p') then none else
    let permOf : Row → List Nat := fun ov =>
      match table.find? (fun (ov', _) => ov' == ov) with
      | some (_, p) => p
      | none => []
    let r := detectCore false n thr permOf batch
    let s := match r.swap with
      | none => "none"
      | some T => "some " ++ " ".intercalate (T.flatten.map toString)
    let z := sortDedup r.zero
    let zs := z.flatMap fun (m, i, j) => [toString m, toString i, toString j]
    pure (" ".intercalate ([s, "h"] ++ r.holdoff.map toString ++ ["z", toString z.length] ++ zs))
  | _ => none
-- DRIVER-HANDLER: Crossing.handle

end Crossing
