import PyseqmVerif.Model.Util
/-!
# SCF convergence bookkeeping (core Lean only)

Mirrors `seqm/seqm_functions/scf_loop.py`:
* `get_error` (lines 106-147): the three/four-part test, *including* the fact that the density
  errors are only recomputed for molecules whose energy/DIIS test passes (`dm_mask`), and that the
  flag of an already converged (inactive) molecule is recomputed from its *stored* errors;
* the loop skeleton shared by `scf_forward0` (`for k in range(MAX_ITER + 1)`), `scf_forward1`
  (`for k in range(1, MAX_ITER + 1)`) and the Pulay loop of `scf_forward2`
  (`for k in range(k, MAX_ITER + 1)`, batch-global `counter/cFock/reset_diis` live in the global
  kernel state `γ`): masked write-back `X[notconverged] = …`, `Eelec[notconverged] = Eelec_new[…]`,
  `if Nnot == 0: break`;
* the final flag vector returned by `scf_loop` and the warning test `notconverged.any()`;
* `compute_fac` / `adaptive_mix` (lines 350-420) for one molecule, with the batch-global
  early-exit of the renormalisation loop exposed as an oracle `othersDone`.

All numeric kernels (`make_Pnew`, mixing, `fock`, `elec_energy`, norms) are *parameters*.
Comparisons are the IEEE ones at `Float` (`a > b` is `false` when either side is NaN, exactly as
`torch.gt`), and the order of a linear ordered field in the theorems.

Scope: the default `backward=False` path (what `SCF.forward`, i.e. `scf_backward ∈ {0,1}`, runs).
With `scf_backward == 2` the loops are called with `backward=True`, and `scf_forward0/2` then
update the *whole batch* (`P = torch.lerp(Pnew, P, alpha)`, `P = Pnew.clone()`) instead of
`P[notconverged] = …`: the rows of an already converged molecule keep moving towards its stale
`Pnew` although its flag and stored errors are frozen.  The masking proved sticky here does not
describe that path.

Not modelled: the diagnostics `dm_err.max()`, `dm_element_err.max()` returned by `get_error`
(they are only printed), `scf_forward3` (KSA; its own test is `err > eps` only), float32.
-/
namespace ScfControl

/-- `MAX_ITER` of `scf_loop.py` (tied to `Generated.Constants.MAX_ITER` in `Properties/C03`). -/
def MAX_ITER : Nat := 1000
/-- `CONVERGENCE_DM_ERROR_FACTOR = 2.0` -/
def DM_ERROR_FACTOR : Nat := 2
/-- `CONVERGENCE_DM_ELEMENT_FACTOR = 15.0` -/
def DM_ELEMENT_FACTOR : Nat := 15
/-- `CONVERGENCE_DIIS_FACTOR = 50.0` -/
def DIIS_FACTOR : Nat := 50

/-! ## `get_error` -/

/-- the row of molecule `m` in the arguments of one `get_error` call -/
structure MolIn (α : Type) where
  active : Bool        -- `notconverged[m]` on entry
  eNew : α             -- `Eelec_new[m]`
  eOld : α             -- `Eelec[m]`
  errStored : α        -- `err[m]` on entry (kept for inactive molecules)
  dmFresh : α          -- `norm(P[m]-Pold[m]) / matrix_size_sqrt[m]`, the value line 140 *would* store
  elemFresh : α        -- `amax(|P[m]-Pold[m]|)`, the value line 141 *would* store
  dmStored : α         -- `dm_err[m]` on entry
  elemStored : α       -- `dm_element_err[m]` on entry
  diis : Option α      -- `diis_error[m]`, `none` when `diis_error is None`
deriving Repr

/-- the row of molecule `m` in the results / mutated arguments of one `get_error` call -/
structure MolOut (α : Type) where
  notconv : Bool       -- returned `notconverged[m]`
  dm : α               -- `dm_err[m]` after the call
  elem : α             -- `dm_element_err[m]` after the call
  err : α              -- `err[m]` after the call
  fresh : Bool         -- ghost: `dm_mask[m]`, i.e. lines 140/141 executed for this molecule
deriving Repr

section GetError
variable {α : Type} [Sub α] [Mul α] [OfScientific α] [LT α] [DecidableLT α]

/-- `get_error`, one molecule.  Statement order as in the Python. -/
def getErrorMol (abs : α → α) (eps : α) (m : MolIn α) : MolOut α :=
  -- err[active] = Eelec_new[active] - Eelec[active]
  let err := if m.active then m.eNew - m.eOld else m.errStored
  -- bad = err.abs() > eps
  let bad0 : Bool := decide (eps < abs err)
  -- if diis_error is not None: bad = bad | (diis_error > CONVERGENCE_DIIS_FACTOR * eps)
  let bad : Bool := match m.diis with
    | some d => bad0 || decide (50.0 * eps < d)
    | none => bad0
  -- dm_mask = active & ~bad ; dm_err[dm_mask] = … ; dm_element_err[dm_mask] = …
  let dmMask : Bool := m.active && !bad
  let dm := if dmMask then m.dmFresh else m.dmStored
  let elem := if dmMask then m.elemFresh else m.elemStored
  -- dm_bad = dm_err > eps * CONVERGENCE_DM_ERROR_FACTOR
  let dmBad : Bool := decide (eps * 2.0 < dm)
  -- dm_elem_bad = dm_element_err > eps * CONVERGENCE_DM_ELEMENT_FACTOR
  let elemBad : Bool := decide (eps * 15.0 < elem)
  -- notconverged = bad | dm_bad | dm_elem_bad
  { notconv := bad || dmBad || elemBad, dm := dm, elem := elem, err := err, fresh := dmMask }

/-- `get_error` on a batch (rows are independent) -/
def getError (abs : α → α) (eps : α) (ms : List (MolIn α)) : List (MolOut α) :=
  ms.map (getErrorMol abs eps)

end GetError

/-! ## the loop skeleton -/

/-- everything the loop keeps for molecule `m`.  `s` = the rows `[m]` of the masked tensors
    (`P, Pold, Pnew`, solver history, `diis_error`) plus the row of `F` last computed while the
    molecule was active (rows of `F` of inactive molecules are recomputed but never read). -/
structure Mol (σ α : Type) where
  s : σ
  active : Bool        -- `notconverged[m]`
  eOld : α             -- `Eelec[m]`
  eNew : α             -- `Eelec_new[m]`
  err : α              -- `err[m]`
  dm : α               -- `dm_err[m]`
  elem : α             -- `dm_element_err[m]`
  lastIt : Nat         -- ghost: loop index `k` of the last iteration that wrote this molecule
deriving Repr

/-- the kernels of one solver.  `step k g mols` is the numerical work of iteration `k`
    (`make_Pnew`, mixing / DIIS extrapolation, `fock`): it may read the whole batch and the
    batch-global state and proposes a new row for *every* molecule; the loop writes the proposal
    back only where `notconverged` (that is the `X[notconverged] = …` masking). -/
structure Kernels (γ σ α : Type) where
  step : Nat → γ → List (Mol σ α) → γ × (Nat → σ)
  energy : σ → α            -- `elec_energy(P[m], F[m], Hcore[m])`
  dmErr : σ → α             -- `norm(P[m]-Pold[m]) / matrix_size_sqrt[m]`
  elemErr : σ → α           -- `amax(|P[m]-Pold[m]|)`
  diisErr : σ → Option α    -- `diis_error[m]` (`none` for solvers that pass no `diis_error`)

structure State (γ σ α : Type) where
  g : γ
  mols : List (Mol σ α)
  iters : Nat               -- ghost: number of loop bodies executed
deriving Repr

section Loop
variable {γ σ α : Type} [Sub α] [Mul α] [OfScientific α] [LT α] [DecidableLT α]

/-- the body of one iteration for molecule `m`: masked write-back of the proposal `cand`,
    `Eelec_new[notconverged] = …`, `get_error`, `Eelec[notconverged] = Eelec_new[notconverged]`
    (the last with the *new* mask). -/
def updMol (K : Kernels γ σ α) (abs : α → α) (eps : α) (k : Nat) (cand : σ) (m : Mol σ α) :
    Mol σ α :=
  if m.active then
    let s' := cand
    let eNew := K.energy s'
    let o := getErrorMol abs eps
      { active := true, eNew := eNew, eOld := m.eOld, errStored := m.err,
        dmFresh := K.dmErr s', elemFresh := K.elemErr s',
        dmStored := m.dm, elemStored := m.elem, diis := K.diisErr s' }
    { s := s', active := o.notconv, eNew := eNew,
      eOld := if o.notconv then eNew else m.eOld,
      err := o.err, dm := o.dm, elem := o.elem, lastIt := k }
  else
    -- nothing is written to the rows of an inactive molecule, but `get_error` recomputes its
    -- flag from the stored `err/dm_err/dm_element_err/diis_error`
    let o := getErrorMol abs eps
      { active := false, eNew := m.eNew, eOld := m.eOld, errStored := m.err,
        dmFresh := m.dm, elemFresh := m.elem,
        dmStored := m.dm, elemStored := m.elem, diis := K.diisErr m.s }
    { m with active := o.notconv,
             eOld := if o.notconv then m.eNew else m.eOld,
             err := o.err, dm := o.dm, elem := o.elem }

def body (K : Kernels γ σ α) (abs : α → α) (eps : α) (k : Nat) (st : State γ σ α) :
    State γ σ α :=
  let r := K.step k st.g st.mols
  { g := r.1
    mols := st.mols.mapIdx (fun i m => updMol K abs eps k (r.2 i) m)
    iters := st.iters + 1 }

/-- `Nnot == 0` -/
def allConverged (ms : List (Mol σ α)) : Bool := ms.all (fun m => !m.active)

/-- `for k in range(k0, k0 + fuel): body; if Nnot == 0: break` -/
def loop (K : Kernels γ σ α) (abs : α → α) (eps : α) : Nat → Nat → State γ σ α → State γ σ α
  | 0, _, st => st
  | fuel+1, k, st =>
    let st' := body K abs eps k st
    if allConverged st'.mols then st' else loop K abs eps fuel (k+1) st'

variable [OfNat α 0] [OfNat α 1]

/-- the initialisation common to `scf_forward0/1/2`: `notconverged = ones`, `err = dm_err =
    dm_element_err = ones`, `Eelec = elec_energy(P, F, Hcore)`, `Eelec_new = zeros` -/
def initState (K : Kernels γ σ α) (g : γ) (ss : List σ) : State γ σ α :=
  { g := g
    mols := ss.map (fun s => { s := s, active := true, eOld := K.energy s, eNew := 0,
                               err := 1, dm := 1, elem := 1, lastIt := 0 })
    iters := 0 }

/-- `scf_forward0`: `for k in range(MAX_ITER + 1)` -/
def scfForward0 (K : Kernels γ σ α) (abs : α → α) (eps : α) (g : γ) (ss : List σ) : State γ σ α :=
  loop K abs eps (MAX_ITER + 1) 0 (initState K g ss)

/-- `scf_forward1`: `for k in range(1, MAX_ITER + 1)` -/
def scfForward1 (K : Kernels γ σ α) (abs : α → α) (eps : α) (g : γ) (ss : List σ) : State γ σ α :=
  loop K abs eps MAX_ITER 1 (initState K g ss)

/-- Pulay loop of `scf_forward2` (`nDirect1 = nAdapt = 0`, so `k` starts at 0):
    `for k in range(0, MAX_ITER + 1)` with the `Nnot == 0` test at the top of the body, which
    returns the same `(P, notconverged)` as a `break` at the bottom. -/
def scfForward2 (K : Kernels γ σ α) (abs : α → α) (eps : α) (g : γ) (ss : List σ) : State γ σ α :=
  loop K abs eps (MAX_ITER + 1) 0 (initState K g ss)

/-- the `notconverged` vector returned by `scf_forward*`, `SCF.forward`, `scf_loop` -/
def finalFlags (st : State γ σ α) : List Bool := st.mols.map (·.active)

/-- `scf_loop`: `if notconverged.any(): warnings.warn(…)` -/
def warns (st : State γ σ α) : Bool := (finalFlags st).any id

end Loop

/-! ## `compute_fac` / `adaptive_mix`, one molecule -/

section Adaptive
variable {α : Type} [Add α] [Sub α] [Mul α] [Div α] [OfScientific α] [OfNat α 0] [OfNat α 1]
  [LT α] [DecidableLT α] [LE α] [DecidableLE α]

def lsum (xs : List α) : α := xs.foldl (· + ·) 0

/-- `compute_fac(Pnew_diag, P_diag, Pold_diag)` -/
def computeFac (sqrt : α → α) (dnew d dold : List α) : α :=
  let diff1 := List.zipWith (fun a b => a - b) dnew d
  let diff2 := List.zipWith (fun ab c => ab + c) (List.zipWith (fun a b => a - 2.0 * b) dnew d) dold
  let num := lsum (diff1.map fun x => x * x)
  let den := lsum (diff2.map fun x => x * x)
  -- valid = (den > 0) & (num < 100.0 * den)
  if decide (0 < den) && decide (num < 100.0 * den) then sqrt (num / den) else 0

/-- `x.clamp(lo, hi)` = `min(max(x, lo), hi)` -/
def clamp (lo hi x : α) : α :=
  let y := if x < lo then lo else x
  if hi < y then hi else y

/-- state of the renormalisation loop: `(SUM0, di)` -/
structure Renorm (α : Type) where
  sum0 : α
  di : List α

/-- `done = (~large) | (|SUM3 - 1| <= 1e-5)` for this molecule -/
def renormDone (abs : α → α) (r : Renorm α) : Bool :=
  let sum2 := lsum r.di
  let large : Bool := decide (1.0e-3 < sum2)
  let sum3 : α := if large then r.sum0 / sum2 else 0
  !large || decide (abs (sum3 - 1.0) ≤ 1.0e-5)

/-- one scaling round (executed for *every* molecule of the batch when some molecule is not done) -/
def renormRound (occ : α) (r : Renorm α) : Renorm α :=
  let sum2 := lsum r.di
  let large : Bool := decide (1.0e-3 < sum2)
  let sum3 : α := if large then r.sum0 / sum2 else 0
  -- scaled = di.mul(SUM3).clamp_(min=0.0)
  let scaled := r.di.map (fun x => let y := x * sum3; if y < 0.0 then 0.0 else y)
  -- new_full = scaled > occ_number ; di = where(new_full, occ, scaled)
  let nFull := lsum (scaled.map fun y => if occ < y then (1 : α) else 0)
  { sum0 := r.sum0 - nFull * occ
    di := scaled.map (fun y => if occ < y then occ else y) }

/-- `for _ in range(20): … if torch.all(done): break …`.  `othersDone r` = "every *other*
    molecule of the batch is done in round `r`" (the exit test is batch-global). -/
def renormLoop (abs : α → α) (occ : α) (othersDone : Nat → Bool) : Nat → Nat → Renorm α → List α
  | 0, _, r => r.di
  | fuel+1, rd, r =>
    if renormDone abs r && othersDone rd then r.di
    else renormLoop abs occ othersDone fuel (rd+1) (renormRound occ r)

/-- `DAMP = 0.05 if scf_iteration > 4 else 1.0e10` -/
def damp (it : Nat) : α := if 4 < it then 0.05 else 1.0e10

/-- `occ_number = 1.0 if unrestricted else 2.0` -/
def occNumber (unrestricted : Bool) : α := if unrestricted then 1.0 else 2.0

/-- `torch.diagonal(P)` of an `n × n` matrix given by its entry function -/
def diagOf (n : Nat) (P : Nat → Nat → α) : List α := (List.range n).map fun i => P i i

/-- `FAC`: `compute_fac(diag_cur, diag_prev, diag_old2)` on every third iteration, else zeros -/
def mixFac (sqrt : α → α) (it : Nat) (dcur dprev old2 : List α) : α :=
  if it % 3 == 0 then computeFac sqrt dcur dprev old2 else 0

/-- `Pmix = (1.0 + f_b) * P_cur - (f_b * P_prev)` on every third iteration, else `Pmix = P_cur` -/
def mixOff (it : Nat) (fac : α) (Pprev Pcur : Nat → Nat → α) : Nat → Nat → α :=
  if it % 3 == 0 then fun i j => (1.0 + fac) * Pcur i j - fac * Pprev i j else Pcur

/-- `delta = diag_cur - diag_prev; cap_mask = |delta| > DAMP;
     diag_new = where(cap_mask, diag_prev + sign(delta)*DAMP, diag_cur + FAC*delta).clamp_(0, occ)` -/
def mixDiag0 (abs sign : α → α) (dmp occ fac : α) (dcur dprev : List α) : List α :=
  List.zipWith (fun c p =>
      let delta := c - p
      let v := if dmp < abs delta then p + sign delta * dmp else c + fac * delta
      clamp 0.0 occ v) dcur dprev

/-- `adaptive_mix(scf_iteration, P_prev, P_cur, Pold2_diag, unrestricted)` for one molecule;
    matrices are entry functions on `0..n-1`.  Returns `Pmix` (the second result `diag_prev` is
    `diagOf n Pprev`). -/
def adaptiveMix (abs sqrt sign : α → α) (othersDone : Nat → Bool) (n : Nat) (it : Nat)
    (unrestricted : Bool) (Pprev Pcur : Nat → Nat → α) (old2 : List α) : Nat → Nat → α :=
  let dprev := diagOf n Pprev
  let dcur := diagOf n Pcur
  let occ : α := occNumber unrestricted
  let fac : α := mixFac sqrt it dcur dprev old2
  -- SUM0 = diag_cur.sum(dim=1); di = diag_new; for _ in range(20): …
  let di := renormLoop abs occ othersDone 20 0
    { sum0 := lsum dcur, di := mixDiag0 abs sign (damp it) occ fac dcur dprev }
  -- diag_view.copy_(di)
  fun i j => if i = j then di.getD i 0 else mixOff it fac Pprev Pcur i j

end Adaptive

/-! ## driver -/

def parseMols (hasDiis : Bool) : List String → Option (List (MolIn Float))
  | [] => some []
  | a :: en :: eo :: es :: df :: ef :: ds :: el :: di :: rest => do
    let a ← a.toNat?
    let en ← Util.floatTok? en
    let eo ← Util.floatTok? eo
    let es ← Util.floatTok? es
    let df ← Util.floatTok? df
    let ef ← Util.floatTok? ef
    let ds ← Util.floatTok? ds
    let el ← Util.floatTok? el
    let di ← Util.floatTok? di
    if a > 1 then none
    let r ← parseMols hasDiis rest
    pure ({ active := a == 1, eNew := en, eOld := eo, errStored := es, dmFresh := df,
            elemFresh := ef, dmStored := ds, elemStored := el,
            diis := if hasDiis then some di else none } :: r)
  | _ => none

def showOut (o : MolOut Float) : String :=
  (if o.notconv then "1 " else "0 ") ++ Util.showFloat o.dm ++ " " ++ Util.showFloat o.elem ++ " " ++
    Util.showFloat o.err

/-- `get_error eps nmol hasdiis {active Enew Eold err_stored dmerr_fresh dmelem_fresh dmerr_stored
     dmelem_stored diis}*nmol`
    → `{notconverged dmerr_stored' dmelem_stored' err'}*nmol`

    * `eps` : float64 bit pattern; `nmol`, `hasdiis` (0/1), `active` (0/1 = `notconverged[m]` on
      entry) : decimal integers; every other token a float64 bit pattern.
    * `Enew = Eelec_new[m]`, `Eold = Eelec[m]`, `err_stored = err[m]` **before** the call (needed:
      for an inactive molecule `err[m]` is not overwritten and `bad` is recomputed from it),
      `dmerr_fresh = norm(P[m]-Pold[m])/matrix_size_sqrt[m]`, `dmelem_fresh = amax|P[m]-Pold[m]|`
      (what lines 140/141 would store if `dm_mask[m]`), `dmerr_stored = dm_err[m]`,
      `dmelem_stored = dm_element_err[m]` before the call, `diis = diis_error[m]` (the token must
      be present but is ignored when `hasdiis = 0`, i.e. `diis_error is None`).
    * answer, per molecule: returned `notconverged[m]` (0/1) and `dm_err[m]`,
      `dm_element_err[m]`, `err[m]` after the call. -/
def handle (toks : List String) : Option String :=
  match toks with
  | "get_error" :: eps :: nmol :: hasdiis :: rest => do
    let eps ← Util.floatTok? eps
    let nmol ← nmol.toNat?
    let hd ← hasdiis.toNat?
    if hd > 1 then none
    let ms ← parseMols (hd == 1) rest
    if ms.length ≠ nmol then none
    pure (" ".intercalate ((getError Float.abs eps ms).map showOut))
  | _ => none
-- DRIVER-HANDLER: ScfControl.handle

end ScfControl
