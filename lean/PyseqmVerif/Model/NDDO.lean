import PyseqmVerif.Model.Util
import PyseqmVerif.Generated.FockTables
/-!
# NDDO two-centre two-electron integrals (local frame), one-centre Fock terms, packed J/K
# contraction, charge separations and the defining equations of the additive terms
(core Lean only, scalar-polymorphic; `sqrt`/`pow` are parameters)

Mirrors, statement by statement and in the floating point operation order of the Python:
* `seqm/seqm_functions/two_elec_two_center_int_local_frame.py`
  `two_elec_two_center_int_local_frame` (sp basis: `riHH`, `riXH`, `ri`, and the `core*` outputs);
* `seqm/seqm_functions/fock.py` `_one_center`, `_two_center` (non-PM6 branch) and the final
  `F_full += F_full.triu(1).transpose(1, 2)` of `fock`;
* `seqm/seqm_functions/cal_par.py` `dd_qq` and the residual functions whose roots are sought by
  `additive_term_rho1.forward` / `additive_term_rho2.forward`.

Units (as in the code): distances `r0`, charge separations `da db qa qb` and additive terms
`rho*` are in bohr; `ev = constants.ev` (= 27.21 eV/hartree) converts `e²/bohr` to eV, so every
integral is `ev · Σ qᵢqⱼ / sqrt(Rᵢⱼ² + (ρ_a+ρ_b)²)` in eV.  `a0` does not enter here (the caller
divides Å by `a0` before the call).  `ev` is an argument: the driver is handed the live value.

`x**2` is `x*x` in torch (`pow` with exponent 2), written `sqr x` below.  `c/sqrt(x)` with a Python
float numerator is `isq sqrt c x = (1/sqrt x)·c` (see `isq`).

Besides the code-shaped functions the file contains the SPECIFICATION `riSpec`: every integral as
the double sum over the point charges of the Dewar–Thiel multipoles of the two charge
distributions (M.J.S. Dewar, W. Thiel, Theor. Chim. Acta 46 (1977) 89).  Geometry of the local
frame (MOPAC `repp.f`/`rotate.f`: the local z axis points from atom B to atom A): B sits at the
origin, A at `(0,0,R)`; both atoms use the same axes.
-/
namespace NDDO

section scalar
variable {α : Type} [Add α] [Sub α] [Mul α] [Div α] [Neg α] [OfScientific α]

/-- `x**2` -/
@[inline] def sqr (x : α) : α := x * x

/-- `c/sqrt(x)` with a Python float `c` and a tensor `x`: `Tensor.__rtruediv__` evaluates
    `torch.sqrt(x).reciprocal() * c`, i.e. two roundings `(1/sqrt x)·c` (not one division) -/
@[inline] def isq (sqrt : α → α) (c x : α) : α := 1.0 / sqrt x * c

/-- Klopman–Ohno kernel as the code writes it: `ev/sqrt(r**2 + (rhoA+rhoB)**2)`, `rho = rhoA+rhoB` -/
def ko (sqrt : α → α) (ev r rho : α) : α := isq sqrt ev (sqr r + sqr rho)

/-! ## the code: `two_elec_two_center_int_local_frame` -/

/-- H–H pair: `riHH = ev/sqrt(r0**2+(rho0a+rho0b)**2)` -/
def riHyd (sqrt : α → α) (ev r0 rho0a rho0b : α) : α :=
  isq sqrt ev (sqr r0 + sqr (rho0a + rho0b))

/-- heavy atom – hydrogen pair: `riXH[0..3]` = (ss|ss), (sσ|ss), (σσ|ss), (ππ|ss).
    Arguments as passed by the caller (`qa0` is the un-doubled quadrupole separation). -/
def riXH (sqrt : α → α) (ev r0 da0 qa0 rho0a rho0b rho1a rho2a : α) : List α :=
  let ev1 := ev / 2.0
  let ev2 := ev / 4.0
  let aeeXH := sqr (rho0a + rho0b)
  let rXH := r0
  let daXH := da0
  let qaXH := qa0 * 2.0
  let adeXH := sqr (rho1a + rho0b)
  let aqeXH := sqr (rho2a + rho0b)
  let ev1dsqr6XH := isq sqrt ev1 (sqr rXH + aqeXH)
  let eeXH := isq sqrt ev (sqr rXH + aeeXH)
  [ eeXH,
    isq sqrt ev1 (sqr (rXH + daXH) + adeXH) - isq sqrt ev1 (sqr (rXH - daXH) + adeXH),
    eeXH + isq sqrt ev2 (sqr (rXH + qaXH) + aqeXH) + isq sqrt ev2 (sqr (rXH - qaXH) + aqeXH) - ev1dsqr6XH,
    eeXH + isq sqrt ev1 (sqr rXH + sqr qaXH + aqeXH) - ev1dsqr6XH ]

/-- heavy – heavy pair: the 22 local-frame integrals `ri[0..21]`, code order
    (SS/SS) (SO/SS) (OO/SS) (PP/SS) (SS/OS) (SO/SO) (SP/SP) (OO/SO) (PP/SO) (PO/SP) (SS/OO) (SS/PP)
    (SO/OO) (SO/PP) (SP/OP) (OO/OO) (PP/OO) (OO/PP) (PP/PP) (PO/PO) (PP/P*P*) (P*P/P*P),
    O = p-sigma, P, P* = p-pi.  `qa0 qb0` are the un-doubled quadrupole separations. -/
def riHH (sqrt : α → α) (ev r0 da0 db0 qa0 qb0 rho0a rho0b rho1a rho1b rho2a rho2b : α) : List α :=
  let ev1 := ev / 2.0
  let ev2 := ev / 4.0
  let ev3 := ev / 8.0
  let ev4 := ev / 16.0
  let r := r0
  let da := da0
  let db := db0
  let qa := qa0 * 2.0
  let qb := qb0 * 2.0
  let qa1 := qa0
  let qb1 := qb0
  let aee := sqr (rho0a + rho0b)
  let ade := sqr (rho1a + rho0b)
  let aqe := sqr (rho2a + rho0b)
  let aed := sqr (rho0a + rho1b)
  let aeq := sqr (rho0a + rho2b)
  let axx := sqr (rho1a + rho1b)
  let adq := sqr (rho1a + rho2b)
  let aqd := sqr (rho2a + rho1b)
  let aqq := sqr (rho2a + rho2b)
  let ee := isq sqrt ev (sqr r + aee)
  let dze := isq sqrt (-ev1) (sqr (r + da) + ade) + isq sqrt ev1 (sqr (r - da) + ade)
  let ev1dsqr6 := isq sqrt ev1 (sqr r + aqe)
  let qzze := isq sqrt ev2 (sqr (r - qa) + aqe) + isq sqrt ev2 (sqr (r + qa) + aqe) - ev1dsqr6
  let qxxe := isq sqrt ev1 (sqr r + sqr qa + aqe) - ev1dsqr6
  let edz := isq sqrt (-ev1) (sqr (r - db) + aed) + isq sqrt ev1 (sqr (r + db) + aed)
  let ev1dsqr12 := isq sqrt ev1 (sqr r + aeq)
  let eqzz := isq sqrt ev2 (sqr (r - qb) + aeq) + isq sqrt ev2 (sqr (r + qb) + aeq) - ev1dsqr12
  let eqxx := isq sqrt ev1 (sqr r + sqr qb + aeq) - ev1dsqr12
  let ev2dsqr20 := isq sqrt ev2 (sqr (r + da) + adq)
  let ev2dsqr22 := isq sqrt ev2 (sqr (r - da) + adq)
  let ev2dsqr24 := isq sqrt ev2 (sqr (r - db) + aqd)
  let ev2dsqr26 := isq sqrt ev2 (sqr (r + db) + aqd)
  let ev2dsqr36 := isq sqrt ev2 (sqr r + aqq)
  let ev2dsqr39 := isq sqrt ev2 (sqr r + sqr qa + aqq)
  let ev2dsqr40 := isq sqrt ev2 (sqr r + sqr qb + aqq)
  let ev3dsqr42 := isq sqrt ev3 (sqr (r - qb) + aqq)
  let ev3dsqr44 := isq sqrt ev3 (sqr (r + qb) + aqq)
  let ev3dsqr46 := isq sqrt ev3 (sqr (r + qa) + aqq)
  let ev3dsqr48 := isq sqrt ev3 (sqr (r - qa) + aqq)
  let ri1 := ee
  let ri2 := -dze
  let ri3 := ee + qzze
  let ri4 := ee + qxxe
  let ri5 := -edz
  let ri6 := isq sqrt ev2 (sqr (r + da - db) + axx) + isq sqrt ev2 (sqr (r - da + db) + axx)
             - isq sqrt ev2 (sqr (r - da - db) + axx) - isq sqrt ev2 (sqr (r + da + db) + axx)
  let ri7 := isq sqrt ev1 (sqr r + sqr (da - db) + axx) - isq sqrt ev1 (sqr r + sqr (da + db) + axx)
  let ri8 := -edz + isq sqrt ev3 (sqr (r + qa - db) + aqd) - isq sqrt ev3 (sqr (r + qa + db) + aqd)
             + isq sqrt ev3 (sqr (r - qa - db) + aqd) - isq sqrt ev3 (sqr (r - qa + db) + aqd)
             - ev2dsqr24 + ev2dsqr26
  let ri9 := -edz - ev2dsqr24 + isq sqrt ev2 (sqr (r - db) + sqr qa + aqd)
             + ev2dsqr26 - isq sqrt ev2 (sqr (r + db) + sqr qa + aqd)
  let ri10 := isq sqrt ev2 (sqr (qa1 - db) + sqr (r + qa1) + aqd)
              - isq sqrt ev2 (sqr (qa1 - db) + sqr (r - qa1) + aqd)
              - isq sqrt ev2 (sqr (qa1 + db) + sqr (r + qa1) + aqd)
              + isq sqrt ev2 (sqr (qa1 + db) + sqr (r - qa1) + aqd)
  let ri11 := ee + eqzz
  let ri12 := ee + eqxx
  let ri13 := -dze + isq sqrt ev3 (sqr (r + da - qb) + adq)
              - isq sqrt ev3 (sqr (r - da - qb) + adq)
              + isq sqrt ev3 (sqr (r + da + qb) + adq)
              - isq sqrt ev3 (sqr (r - da + qb) + adq)
              + ev2dsqr22 - ev2dsqr20
  let ri14 := -dze - ev2dsqr20 + isq sqrt ev2 (sqr (r + da) + sqr qb + adq)
              + ev2dsqr22 - isq sqrt ev2 (sqr (r - da) + sqr qb + adq)
  let ri15 := isq sqrt ev2 (sqr (da - qb1) + sqr (r - qb1) + adq)
              - isq sqrt ev2 (sqr (da - qb1) + sqr (r + qb1) + adq)
              - isq sqrt ev2 (sqr (da + qb1) + sqr (r - qb1) + adq)
              + isq sqrt ev2 (sqr (da + qb1) + sqr (r + qb1) + adq)
  let ri16 := ee + eqzz + qzze
              + isq sqrt ev4 (sqr (r + qa - qb) + aqq)
              + isq sqrt ev4 (sqr (r + qa + qb) + aqq)
              + isq sqrt ev4 (sqr (r - qa - qb) + aqq)
              + isq sqrt ev4 (sqr (r - qa + qb) + aqq)
              - ev3dsqr48 - ev3dsqr46 - ev3dsqr42 - ev3dsqr44 + ev2dsqr36
  let ri17 := ee + eqzz + qxxe
              + isq sqrt ev3 (sqr (r - qb) + sqr qa + aqq)
              + isq sqrt ev3 (sqr (r + qb) + sqr qa + aqq)
              - ev3dsqr42 - ev3dsqr44 - ev2dsqr39 + ev2dsqr36
  let ri18 := ee + eqxx + qzze
              + isq sqrt ev3 (sqr (r + qa) + sqr qb + aqq)
              + isq sqrt ev3 (sqr (r - qa) + sqr qb + aqq)
              - ev3dsqr46 - ev3dsqr48 - ev2dsqr40 + ev2dsqr36
  let qxxqxx := isq sqrt ev3 (sqr r + sqr (qa - qb) + aqq)
                + isq sqrt ev3 (sqr r + sqr (qa + qb) + aqq)
                - ev2dsqr39 - ev2dsqr40 + ev2dsqr36
  let ri19 := ee + eqxx + qxxe + qxxqxx
  let ri20 := isq sqrt ev3 (sqr (r + qa1 - qb1) + sqr (qa1 - qb1) + aqq)
              - isq sqrt ev3 (sqr (r + qa1 + qb1) + sqr (qa1 - qb1) + aqq)
              - isq sqrt ev3 (sqr (r - qa1 - qb1) + sqr (qa1 - qb1) + aqq)
              + isq sqrt ev3 (sqr (r - qa1 + qb1) + sqr (qa1 - qb1) + aqq)
              - isq sqrt ev3 (sqr (r + qa1 - qb1) + sqr (qa1 + qb1) + aqq)
              + isq sqrt ev3 (sqr (r + qa1 + qb1) + sqr (qa1 + qb1) + aqq)
              + isq sqrt ev3 (sqr (r - qa1 - qb1) + sqr (qa1 + qb1) + aqq)
              - isq sqrt ev3 (sqr (r - qa1 + qb1) + sqr (qa1 + qb1) + aqq)
  let qxxqyy := isq sqrt ev2 (sqr r + sqr qa + sqr qb + aqq)
                - ev2dsqr39 - ev2dsqr40 + ev2dsqr36
  let ri21 := ee + eqxx + qxxe + qxxqyy
  let ri22 := 0.5 * (qxxqxx - qxxqyy)
  [ri1, ri2, ri3, ri4, ri5, ri6, ri7, ri8, ri9, ri10, ri11, ri12, ri13, ri14, ri15, ri16, ri17,
   ri18, ri19, ri20, ri21, ri22]

/-- `coreHH[0..1]` = `tore[1]*riHH` twice -/
def coreHyd (tore1 ri : α) : List α := [tore1 * ri, tore1 * ri]

/-- `coreXH[0..4]`: `tore[1]*riXH[0..3]`, `tore[ni]*riXH[0]` -/
def coreXH (tore1 toreNi : α) (ri : List α) : List α :=
  (ri.take 4).map (fun x => tore1 * x) ++ [toreNi * ri.getD 0 0.0]

/-- `core[0..7]`: `tore[nj]*ri[0,1,2,3]`, `tore[ni]*ri[0,4,10,11]` -/
def coreHH (toreNi toreNj : α) (ri : List α) : List α :=
  [toreNj * ri.getD 0 0.0, toreNj * ri.getD 1 0.0, toreNj * ri.getD 2 0.0, toreNj * ri.getD 3 0.0,
   toreNi * ri.getD 0 0.0, toreNi * ri.getD 4 0.0, toreNi * ri.getD 10 0.0, toreNi * ri.getD 11 0.0]

/-! ## the specification: Dewar–Thiel point-charge multipoles -/

/-- a point charge `(q, x, y, z)` relative to its atom; `z` along the local axis (B → A) -/
structure PC (α : Type) where
  q : α
  x : α
  y : α
  z : α

/-- a multipole: its additive term `ρ_l` and its point charges -/
structure Multipole (α : Type) where
  rho : α
  pcs : List (PC α)

/-- a one-centre charge distribution `μν` = a sum of multipoles -/
abbrev Dist (α : Type) := List (Multipole α)

/-- sequential sum from zero -/
def lsum (l : List α) : α := l.foldl (fun acc x => acc + x) 0.0

/-- semiempirical interaction of two multipoles, A at `(0,0,R)`, B at the origin: every pair of
    point charges interacts through the Klopman–Ohno kernel with `ρ = ρ_A + ρ_B`:
    `Σᵢ Σⱼ qᵢ qⱼ ev / sqrt((R+zᵢ−zⱼ)² + (xᵢ−xⱼ)² + (yᵢ−yⱼ)² + (ρ_A+ρ_B)²)` -/
def interactMP (sqrt : α → α) (ev R : α) (A B : Multipole α) : α :=
  lsum (A.pcs.map fun p => lsum (B.pcs.map fun c =>
    (p.q * c.q * ev) / sqrt (sqr (R + p.z - c.z) + sqr (p.x - c.x) + sqr (p.y - c.y) + sqr (A.rho + B.rho))))

/-- interaction of two charge distributions: sum over all multipole pairs -/
def interact (sqrt : α → α) (ev R : α) (A B : Dist α) : α :=
  lsum (A.map fun a => lsum (B.map fun b => interactMP sqrt ev R a b))

/-- monopole `q`: unit charge at the nucleus -/
def monopole : List (PC α) := [⟨1.0, 0.0, 0.0, 0.0⟩]
/-- dipole `μ_z` (s pσ): `+1/2` at `+D₁`, `−1/2` at `−D₁` on the axis -/
def dipoleZ (D : α) : List (PC α) := [⟨0.5, 0.0, 0.0, D⟩, ⟨-0.5, 0.0, 0.0, -D⟩]
/-- dipole `μ_x` (s pπ) -/
def dipoleX (D : α) : List (PC α) := [⟨0.5, D, 0.0, 0.0⟩, ⟨-0.5, -D, 0.0, 0.0⟩]
/-- linear quadrupole `Q_zz`: `+1/4` at `±2D₂` on the axis, `−1/2` at the nucleus -/
def quadZZ (D : α) : List (PC α) :=
  [⟨0.25, 0.0, 0.0, 2.0 * D⟩, ⟨-0.5, 0.0, 0.0, 0.0⟩, ⟨0.25, 0.0, 0.0, -(2.0 * D)⟩]
/-- linear quadrupole `Q_xx` -/
def quadXX (D : α) : List (PC α) :=
  [⟨0.25, 2.0 * D, 0.0, 0.0⟩, ⟨-0.5, 0.0, 0.0, 0.0⟩, ⟨0.25, -(2.0 * D), 0.0, 0.0⟩]
/-- linear quadrupole `Q_yy` -/
def quadYY (D : α) : List (PC α) :=
  [⟨0.25, 0.0, 2.0 * D, 0.0⟩, ⟨-0.5, 0.0, 0.0, 0.0⟩, ⟨0.25, 0.0, -(2.0 * D), 0.0⟩]
/-- square quadrupole `Q_xz` (pπ pσ): `+1/4` at `(D₂,D₂)`, `(−D₂,−D₂)`, `−1/4` at `(D₂,−D₂)`, `(−D₂,D₂)` -/
def quadXZ (D : α) : List (PC α) :=
  [⟨0.25, D, 0.0, D⟩, ⟨0.25, -D, 0.0, -D⟩, ⟨-0.25, D, 0.0, -D⟩, ⟨-0.25, -D, 0.0, D⟩]
/-- square quadrupole `Q_xy` (pπ pπ') -/
def quadXY (D : α) : List (PC α) :=
  [⟨0.25, D, D, 0.0⟩, ⟨0.25, -D, -D, 0.0⟩, ⟨-0.25, D, -D, 0.0⟩, ⟨-0.25, -D, D, 0.0⟩]

/-- atomic parameters entering the multipoles: `D₁ = dd`, `D₂ = qq`, `ρ₀, ρ₁, ρ₂` -/
structure Atom (α : Type) where
  d1 : α
  d2 : α
  rho0 : α
  rho1 : α
  rho2 : α

/-- the charge distributions of an sp atom (Dewar–Thiel Table):
    `ss = q`, `sσ = μ_z`, `sπ = μ_x`, `σσ = q + Q_zz`, `ππ = q + Q_xx`, `π'π' = q + Q_yy`,
    `πσ = Q_xz`, `ππ' = Q_xy` -/
def dSS (a : Atom α) : Dist α := [⟨a.rho0, monopole⟩]
def dSZ (a : Atom α) : Dist α := [⟨a.rho1, dipoleZ a.d1⟩]
def dSX (a : Atom α) : Dist α := [⟨a.rho1, dipoleX a.d1⟩]
def dZZ (a : Atom α) : Dist α := [⟨a.rho0, monopole⟩, ⟨a.rho2, quadZZ a.d2⟩]
def dXX (a : Atom α) : Dist α := [⟨a.rho0, monopole⟩, ⟨a.rho2, quadXX a.d2⟩]
def dYY (a : Atom α) : Dist α := [⟨a.rho0, monopole⟩, ⟨a.rho2, quadYY a.d2⟩]
def dXZ (a : Atom α) : Dist α := [⟨a.rho2, quadXZ a.d2⟩]
def dXY (a : Atom α) : Dist α := [⟨a.rho2, quadXY a.d2⟩]

/-- the naive multipole value of the last integral: `(ππ'|ππ') = [Q_xy, Q_xy]` with square
    quadrupoles.  NOT what MNDO programs (MOPAC `repp.f`, and this code) use, see `riSpec`. -/
def specQxyQxy (sqrt : α → α) (ev R : α) (a b : Atom α) : α := interact sqrt ev R (dXY a) (dXY b)

/-- SPECIFICATION of the 22 local-frame integrals, code order.  Entries 0–20 are the multipole
    double sums; entry 21 `(ππ'|ππ')` is the published rotational-invariance prescription
    `½[(ππ|ππ) − (ππ|π'π')]` of the multipole values 18 and 20 (MOPAC `RI(22) = PP*(QXXQXX-QXXQYY)`). -/
def riSpec (sqrt : α → α) (ev R : α) (a b : Atom α) : List α :=
  let I := interact sqrt ev R
  [ I (dSS a) (dSS b), I (dSZ a) (dSS b), I (dZZ a) (dSS b), I (dXX a) (dSS b), I (dSS a) (dSZ b),
    I (dSZ a) (dSZ b), I (dSX a) (dSX b), I (dZZ a) (dSZ b), I (dXX a) (dSZ b), I (dXZ a) (dSX b),
    I (dSS a) (dZZ b), I (dSS a) (dXX b), I (dSZ a) (dZZ b), I (dSZ a) (dXX b), I (dSX a) (dXZ b),
    I (dZZ a) (dZZ b), I (dXX a) (dZZ b), I (dZZ a) (dXX b), I (dXX a) (dXX b), I (dXZ a) (dXZ b),
    I (dXX a) (dYY b),
    0.5 * (I (dXX a) (dXX b) - I (dXX a) (dYY b)) ]

/-- X–H specification: (ss|ss), (sσ|ss), (σσ|ss), (ππ|ss) with the monopole of hydrogen -/
def riXHSpec (sqrt : α → α) (ev R : α) (a b : Atom α) : List α :=
  let I := interact sqrt ev R
  [ I (dSS a) (dSS b), I (dSZ a) (dSS b), I (dZZ a) (dSS b), I (dXX a) (dSS b) ]

/-! ## `cal_par.dd_qq` and the defining equations of `ρ₁`, `ρ₂` -/

/-- `dd_qq(qn, zs, zp)` → `(dd, qq)` -/
def ddqq (sqrt : α → α) (pow : α → α → α) (qn zs zp : α) : α × α :=
  let dd := (2.0 * qn + 1.0) * pow (4.0 * zs * zp) (qn + 0.5) / pow (zs + zp) (2.0 * qn + 2.0) / sqrt 3.0
  let qq := sqrt ((4.0 * sqr qn + 6.0 * qn + 2.0) / 20.0) / zp
  (dd, qq)

/-- `additive_term_rho1.forward`: `hsp1 = 0.5*d1 - 0.5/sqrt(4.0*D1**2 + 1.0/d1**2)` (atomic units);
    the secant iteration seeks `d` with `hspOfD D1 d = hsp_ev/ev`, and returns `rho1 = 0.5/d` -/
def hspOfD (sqrt : α → α) (D1 d : α) : α := 0.5 * d - isq sqrt 0.5 (4.0 * sqr D1 + 1.0 / sqr d)

/-- `additive_term_rho2.forward`:
    `hpp1 = 0.25*q1 - 0.5/sqrt(4.0*D2**2 + 1.0/q1**2) + 0.25/sqrt(8.0*D2**2 + 1.0/q1**2)`;
    root `q` with `hppOfQ D2 q = hpp_ev/ev`, `rho2 = 0.5/q` -/
def hppOfQ (sqrt : α → α) (D2 q : α) : α :=
  0.25 * q - isq sqrt 0.5 (4.0 * sqr D2 + 1.0 / sqr q) + isq sqrt 0.25 (8.0 * sqr D2 + 1.0 / sqr q)

/-- residual of the code's root problem for `ρ₁`, evaluated at a candidate `rho1` (`d = 0.5/rho1`) -/
def rho1Residual (sqrt : α → α) (ev hsp_ev D1 rho1 : α) : α := hspOfD sqrt D1 (0.5 / rho1) - hsp_ev / ev

/-- residual of the code's root problem for `ρ₂` (`q = 0.5/rho2`) -/
def rho2Residual (sqrt : α → α) (ev hpp_ev D2 rho2 : α) : α := hppOfQ sqrt D2 (0.5 / rho2) - hpp_ev / ev

/-! ## `fock._one_center` -/

/-- a block of a matrix, indexed by orbital numbers 0..3 = s, px, py, pz -/
abbrev Blk (α : Type) := Nat → Nat → α

/-- `tmp[..., i, j] = v` (functional update) -/
def setAt (B : Blk α) (i j : Nat) (v : α) : Blk α := fun a b => if a = i ∧ b = j then v else B a b

/-- `0.0 + f 0 + f 1 + … + f (n-1)` (sequential; torch's reduction order may differ by a few ulp) -/
def sumTo : Nat → (Nat → α) → α
  | 0, _ => 0.0
  | n+1, f => sumTo n f + f n

open Generated.FockTables in
/-- `_one_center`: the block `tmp` that is ADDED to the diagonal block `F[maskd]` of one atom,
    computed from that atom's own density block `P` (total density).  Entries written:
    `(0,0)`; `(i,i)` and `(0,i)` for `i ∈ P_INDEX_3`; `(P_OFF_I[k], P_OFF_J[k])`.  Everything else
    (in particular the whole strict lower triangle) stays `0` – `fock` mirrors the upper triangle
    of the assembled matrix at the very end (`symU`). -/
def oneCenterTmp (gss gsp gpp gp2 hsp : α) (P : Blk α) : Blk α :=
  let Pss := P 0 0
  let Pptot := P 1 1 + P 2 2 + P 3 3
  let sp_fac_1 := gsp - 0.5 * hsp
  let sp_fac_2 := 1.5 * hsp - 0.5 * gsp
  let pp_fac_d := 1.25 * gp2 - 0.25 * gpp
  let pp_fac_off := 0.75 * gpp - 1.25 * gp2
  let tmp : Blk α := fun _ _ => 0.0
  let tmp := setAt tmp 0 0 (0.5 * Pss * gss + Pptot * sp_fac_1)
  let tmp := P_INDEX_3.foldl (fun t i =>
    setAt t i i (Pss * sp_fac_1 + 0.5 * P i i * gpp + (Pptot - P i i) * pp_fac_d)) tmp
  let tmp := P_INDEX_3.foldl (fun t i => setAt t 0 i (P 0 i * sp_fac_2)) tmp
  let tmp := (List.zip P_OFF_I P_OFF_J).foldl (fun t ij => setAt t ij.1 ij.2 (P ij.1 ij.2 * pp_fac_off)) tmp
  tmp

/-- `F_full += F_full.triu(1).transpose(1, 2)` restricted to one diagonal block whose strict lower
    triangle is zero: the upper triangle is mirrored -/
def symU (U : Blk α) : Blk α := fun i j => if i ≤ j then U i j else U j i

/-- the effective one-centre two-electron block of the final Fock matrix -/
def oneCenterFock (gss gsp gpp gp2 hsp : α) (P : Blk α) : Blk α := symU (oneCenterTmp gss gsp gpp gp2 hsp P)

/-! ## `fock._two_center` (non-PM6 branch), one pair (A = idxi, B = idxj) -/

open Generated.FockTables in
/-- `i0 = TRIL_IDX_4[0]` (row of the packed lower-triangle entry `t`) -/
def i0 (t : Nat) : Nat := TRIL_IDX_4.getD t 0
open Generated.FockTables in
/-- `i1 = TRIL_IDX_4[1]` (column) -/
def i1 (t : Nat) : Nat := TRIL_IDX_4.getD (10 + t) 0
open Generated.FockTables in
/-- `WEIGHT_10[t]` as a scalar -/
def weight (t : Nat) : α := OfScientific.ofScientific (WEIGHT_10.getD t 0) false 0
open Generated.FockTables in
/-- `K_ind_4[i][j]` -/
def kind (i j : Nat) : Nat := K_ind_4.getD (4 * i + j) 0

/-- `P[maskd[idx]][:, i1, i0] * weight_tc` : packed (upper-triangle element, weighted) -/
def packU (P : Blk α) (t : Nat) : α := P (i1 t) (i0 t) * weight t

/-- `J_A = (PA * w).sum(dim=1)` : `J_A[k] = Σ_t PA[t] w[t,k]` -/
def jA (w : Nat → Nat → α) (PA : Blk α) (k : Nat) : α := sumTo 10 (fun t => packU PA t * w t k)

/-- `J_B = (PB * w).sum(dim=2)` : `J_B[t] = Σ_k PB[k] w[t,k]` -/
def jB (w : Nat → Nat → α) (PB : Blk α) (t : Nat) : α := sumTo 10 (fun k => packU PB k * w t k)

/-- `sum[:, i1, i0] = J` on a zero block (upper triangle is written) -/
def scatterU (J : Nat → α) : Blk α :=
  (List.range 10).foldl (fun B t => setAt B (i1 t) (i0 t) (J t)) (fun _ _ => 0.0)

/-- `Ksum[i,j] = Σ_ν Σ_σ w[K_ind[i,ν], K_ind[j,σ]] * (-0.5 * P_AB[ν,σ])` -/
def kSum (w : Nat → Nat → α) (PAB : Blk α) : Blk α := fun i j =>
  sumTo 4 (fun nu => sumTo 4 (fun sg => w (kind i nu) (kind j sg) * (-0.5 * PAB nu sg)))

/-- what `_two_center` adds for one pair: `sumB` to the diagonal block of A, `sumA` to the diagonal
    block of B (upper triangles only), `Ksum` to the off-diagonal block (A rows, B columns).
    `w[t,k] = (μν|λσ)`, `t` = packed pair on A, `k` = packed pair on B. -/
structure JK (α : Type) where
  fA : Blk α
  fB : Blk α
  fAB : Blk α

def twoCenterJK (w : Nat → Nat → α) (PA PB PAB : Blk α) : JK α :=
  { fA := scatterU (jB w PB), fB := scatterU (jA w PA), fAB := kSum w PAB }

/-- the two-electron operator `G` of a two-atom system (A heavy, B heavy) as `fock` assembles it:
    one-centre terms + two-centre J/K, diagonal blocks mirrored -/
structure Par (α : Type) where
  gss : α
  gsp : α
  gpp : α
  gp2 : α
  hsp : α

/-- a (symmetric) two-atom matrix given by its blocks AA, BB and AB (BA is the transpose of AB) -/
structure Mat2 (α : Type) where
  a : Blk α
  b : Blk α
  ab : Blk α

def blkAdd (X Y : Blk α) : Blk α := fun i j => X i j + Y i j

def gTwoAtoms (pa pb : Par α) (w : Nat → Nat → α) (P : Mat2 α) : Mat2 α :=
  let jk := twoCenterJK w P.a P.b P.ab
  { a := symU (blkAdd (oneCenterTmp pa.gss pa.gsp pa.gpp pa.gp2 pa.hsp P.a) jk.fA)
    b := symU (blkAdd (oneCenterTmp pb.gss pb.gsp pb.gpp pb.gp2 pb.hsp P.b) jk.fB)
    ab := jk.fAB }

/-! ## specification of the one-centre integrals and of the packed index -/

/-- the published one-centre two-electron integrals `(mn|ls)` of an sp atom (0 = s, 1,2,3 = p):
    `(ss|ss)=g_ss`, `(ss|pp)=(pp|ss)=g_sp`, `(pp|pp)=g_pp`, `(pp|p'p')=g_p2`, `(sp|sp)=h_sp`,
    `(pp'|pp')=h_pp=½(g_pp−g_p2)` with all their permutational images; everything else vanishes -/
def oneCenterERI (gss gsp gpp gp2 hsp : α) (m n l s : Nat) : α :=
  if m = n ∧ l = s then
    (if m = 0 ∧ l = 0 then gss else if m = 0 ∨ l = 0 then gsp else if m = l then gpp else gp2)
  else if m ≠ n ∧ ((m = l ∧ n = s) ∨ (m = s ∧ n = l)) then
    (if m = 0 ∨ n = 0 then hsp else 0.5 * (gpp - gp2))
  else 0.0

/-- row-major index of the lower-triangle entry `(i,j)`, `j ≤ i` -/
def tri (i j : Nat) : Nat := i * (i + 1) / 2 + j

/-- the two-centre integral `(μν|λσ)`, `μν` on A and `λσ` on B, read from the packed block -/
def eri (w : Nat → Nat → α) (m n l s : Nat) : α := w (kind m n) (kind l s)

end scalar

/-! ## driver -/

def blkOfList (l : List Float) : Blk Float := fun i j => l.getD (4 * i + j) 0.0
def listOfBlk (B : Blk Float) : List Float :=
  (List.range 4).flatMap fun i => (List.range 4).map fun j => B i j
def wOfList (l : List Float) : Nat → Nat → Float := fun t k => l.getD (10 * t + k) 0.0

/-- Operations (all floats as decimal IEEE-754 bit patterns; `ev` = live `constants.ev`):
* `ri22 ev r0 da db qa qb rho0a rho0b rho1a rho1b rho2a rho2b` → 22 floats `ri[0..21]` (heavy–heavy;
  `qa qb` are the un-doubled `qa0 qb0` as passed to the Python function)
* `ri22spec` same arguments → the 22 specification values `riSpec`
* `riqxyqxy` same arguments → 1 float: the square-quadrupole sum `[Q_xy,Q_xy]` (NOT used by the code)
* `rixh ev r0 da qa rho0a rho0b rho1a rho2a` → 4 floats `riXH[0..3]`
* `rixhspec` same arguments → 4 specification values
* `rihh ev r0 rho0a rho0b` → 1 float
* `onecenter gss gsp gpp gp2 hsp P[16 row-major]` → 16 floats: the block `tmp` added by `_one_center`
  (upper triangle incl. diagonal, strict lower triangle = 0)
* `onecentersym` same arguments → 16 floats: the mirrored block (`oneCenterFock`)
* `twocenterjk w[100 row-major] PA[16] PB[16] PAB[16]` → 48 floats `sumB[16] sumA[16] Ksum[16]`
  (= added to `F[maskd[idxi]]`, `F[maskd[idxj]]`, `F[mask]`)
* `ddqq qn zs zp` → `dd qq`
* `rho1resid ev hsp_ev D1 rho1` → residual `hspOfD D1 (0.5/rho1) - hsp_ev/ev` (atomic units)
* `rho2resid ev hpp_ev D2 rho2` → residual `hppOfQ D2 (0.5/rho2) - hpp_ev/ev` -/
def handle (toks : List String) : Option String :=
  match toks with
  | "ri22" :: rest => do
    match ← Util.floatList? rest with
    | [ev, r0, da, db, qa, qb, r0a, r0b, r1a, r1b, r2a, r2b] =>
      pure (Util.showFloats (riHH Float.sqrt ev r0 da db qa qb r0a r0b r1a r1b r2a r2b))
    | _ => none
  | "ri22spec" :: rest => do
    match ← Util.floatList? rest with
    | [ev, r0, da, db, qa, qb, r0a, r0b, r1a, r1b, r2a, r2b] =>
      pure (Util.showFloats (riSpec Float.sqrt ev r0 ⟨da, qa, r0a, r1a, r2a⟩ ⟨db, qb, r0b, r1b, r2b⟩))
    | _ => none
  | "riqxyqxy" :: rest => do
    match ← Util.floatList? rest with
    | [ev, r0, da, db, qa, qb, r0a, r0b, r1a, r1b, r2a, r2b] =>
      pure (Util.showFloat (specQxyQxy Float.sqrt ev r0 ⟨da, qa, r0a, r1a, r2a⟩ ⟨db, qb, r0b, r1b, r2b⟩))
    | _ => none
  | "rixh" :: rest => do
    match ← Util.floatList? rest with
    | [ev, r0, da, qa, r0a, r0b, r1a, r2a] =>
      pure (Util.showFloats (riXH Float.sqrt ev r0 da qa r0a r0b r1a r2a))
    | _ => none
  | "rixhspec" :: rest => do
    match ← Util.floatList? rest with
    | [ev, r0, da, qa, r0a, r0b, r1a, r2a] =>
      pure (Util.showFloats (riXHSpec Float.sqrt ev r0 ⟨da, qa, r0a, r1a, r2a⟩ ⟨0.0, 0.0, r0b, 0.0, 0.0⟩))
    | _ => none
  | "rihh" :: rest => do
    match ← Util.floatList? rest with
    | [ev, r0, r0a, r0b] => pure (Util.showFloat (riHyd Float.sqrt ev r0 r0a r0b))
    | _ => none
  | "onecenter" :: rest => do
    match ← Util.floatList? rest with
    | gss :: gsp :: gpp :: gp2 :: hsp :: p =>
      if p.length = 16 then
        pure (Util.showFloats (listOfBlk (oneCenterTmp gss gsp gpp gp2 hsp (blkOfList p))))
      else none
    | _ => none
  | "onecentersym" :: rest => do
    match ← Util.floatList? rest with
    | gss :: gsp :: gpp :: gp2 :: hsp :: p =>
      if p.length = 16 then
        pure (Util.showFloats (listOfBlk (oneCenterFock gss gsp gpp gp2 hsp (blkOfList p))))
      else none
    | _ => none
  | "twocenterjk" :: rest => do
    let xs ← Util.floatList? rest
    if xs.length = 148 then
      let w := wOfList (xs.take 100)
      let pa := blkOfList ((xs.drop 100).take 16)
      let pb := blkOfList ((xs.drop 116).take 16)
      let pab := blkOfList ((xs.drop 132).take 16)
      let r := twoCenterJK w pa pb pab
      pure (Util.showFloats (listOfBlk r.fA ++ listOfBlk r.fB ++ listOfBlk r.fAB))
    else none
  | "ddqq" :: rest => do
    match ← Util.floatList? rest with
    | [qn, zs, zp] =>
      let r := ddqq Float.sqrt Float.pow qn zs zp
      pure (Util.showFloats [r.1, r.2])
    | _ => none
  | "rho1resid" :: rest => do
    match ← Util.floatList? rest with
    | [ev, hsp, d1, rho] => pure (Util.showFloat (rho1Residual Float.sqrt ev hsp d1 rho))
    | _ => none
  | "rho2resid" :: rest => do
    match ← Util.floatList? rest with
    | [ev, hpp, d2, rho] => pure (Util.showFloat (rho2Residual Float.sqrt ev hpp d2 rho))
    | _ => none
  | _ => none
-- DRIVER-HANDLER: NDDO.handle

end NDDO
