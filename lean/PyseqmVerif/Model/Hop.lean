import PyseqmVerif.Model.Util
/-!
# Surface hopping: hop probabilities, stochastic choice, velocity rescaling, trivial-crossing relabel
(core Lean only, scalar-polymorphic, one trajectory at a time)

Mirrors `seqm/NonadiabaticDynamics.py`:
* `NonadiabaticDynamicsBase.populations`                          → `population`
* `SurfaceHoppingDynamics._attempt_hop`                            → `hopProbabilities`, `cumsum`, `chooseHop`, `attemptHop`
* `SurfaceHoppingDynamics._rescale_velocity_along_nac`             → `d2ByM`, `dot`, `rescaleAlpha`, `applyAlpha`,
  `rescaleVelocity` (sign function as a parameter), `rescaleVelocityFixed` (= the live code, which since the
  repair of F14 uses `sgn = torch.where(v_dot_d < 0, -1, 1)`; `rescaleVelocity … tsign …` is the
  pre-repair formula `torch.sign(v_dot_d)`, kept for the regression statement)
* the accept/reject part of `SurfaceHoppingDynamics._after_electronic_update` (default
  `decohere_on_hop = False`)                                        → `hopOutcome`
* the two-phase assignment `swap_to[m, i_sel] = j_sel; swap_to[m, j_sel] = i_sel` at the end of
  `_detect_crossings`                                               → `trivialPairs`, `buildSwap`
* the relabel block of `_after_electronic_update` (`perm[defined] = swap_to[defined]`,
  `out.scatter_(1, p, old)`, `a2 = perm[ar, a]`)                    → `permOfSwap`, `scatter`, `relabel`

Every tensor operation of the Python acts on row `m` of the batch only (`[arange, i_state]`,
`sum(dim=1)`, `cumsum(dim=1)`, `scatter_(dim=1)`, the per-molecule loop around
`_rescale_velocity_along_nac`), so the batch functions are `List.map`s of the per-trajectory
functions below (`attemptHopBatch`, `relabelBatch`).

Reductions (`torch.sum`, `torch.cumsum`) are modelled as sequential left-to-right accumulation,
which is what torch does for the short rows that occur here; for long rows torch may use a
different association, so the correspondence harness compares with a few-ulp tolerance.
-/
namespace Hop

variable {α : Type}

/-! ## small numeric helpers -/

/-- sequential `torch.sum` -/
def sumL [Add α] [OfNat α 0] (l : List α) : α := l.foldl (· + ·) 0

/-- `torch.clamp(x, min=c)` (a NaN `x` is returned unchanged, as torch does) -/
def clampMin [LT α] [DecidableLT α] (c x : α) : α := if x < c then c else x

/-- `torch.sign` (`sign(0) = 0`; torch computes `(0 < b) - (b < 0)`, so NaN ↦ 0 too) -/
def tsign [LT α] [DecidableLT α] [Neg α] [OfNat α 0] [OfNat α 1] (b : α) : α :=
  if 0 < b then 1 else if b < 0 then -1 else 0

/-- the sign of the repaired routine (fix of F14, now in the live code):
    `sgn = torch.where(v_dot_d < 0, -torch.ones_like(v_dot_d), torch.ones_like(v_dot_d))` -/
def signFixed [LT α] [DecidableLT α] [Neg α] [OfNat α 0] [OfNat α 1] (b : α) : α :=
  if b < 0 then -1 else 1

/-- `populations`: `x * x + y * y` -/
def population [Add α] [Mul α] (x y : α) : α := x * x + y * y

/-- `populations.sum()` of one trajectory: `Σ_i (x_i² + y_i²)` -/
def totalPopulation [Add α] [Mul α] [OfNat α 0] (x y : List α) : α :=
  sumL (List.zipWith population x y)

/-! ## `_attempt_hop` for one trajectory -/

section attempt
variable [Add α] [Mul α] [Div α] [OfScientific α] [OfNat α 0] [OfNat α 1]
variable [LT α] [DecidableLT α] [LE α] [DecidableLE α]

/-- `hopRow = _hop_integral[m, active]`, `popActive = populations[m, active]`:
```
denom  = torch.clamp(pop[arange, i_state], min=1e-10)
g_rows = self._hop_integral[arange, i_state] / denom.unsqueeze(1)
g_rows = torch.clamp(g_rows, min=0.0)
g_sum  = g_rows.sum(dim=1, keepdim=True)
g_rows = torch.where(g_sum > 1.0, g_rows / g_sum.clamp(min=1e-12), g_rows)
``` -/
def hopProbabilities (hopRow : List α) (popActive : α) : List α :=
  let denom := clampMin (1e-10 : α) popActive
  let g := hopRow.map (fun h => clampMin (0 : α) (h / denom))
  let gsum := sumL g
  if 1 < gsum then g.map (fun gi => gi / clampMin (1e-12 : α) gsum) else g

/-- `torch.cumsum(g_rows, dim=1)`: `c₀ = g₀`, `c_k = c_{k-1} + g_k` -/
def cumsumFrom (acc : α) : List α → List α
  | [] => []
  | g :: gs => (acc + g) :: cumsumFrom (acc + g) gs

def cumsum : List α → List α
  | [] => []
  | g :: gs => g :: cumsumFrom g gs

/-- `cmp = cumsum >= r; has_hop = cmp.any(); tgt = argmax(cmp)` = first index with `cumsum ≥ ξ`
    (`none` ↔ `hop_targets = -1`) -/
def chooseHop (g : List α) (ξ : α) : Option Nat :=
  (cumsum g).findIdx? (fun c => decide (ξ ≤ c))

/-- one row of `_attempt_hop`: amplitudes `x y`, hop integral matrix `hop`, active index `a`,
    uniform draw `ξ`; returns `(g, target)` -/
def attemptHop (x y : List α) (hop : List (List α)) (a : Nat) (ξ : α) : List α × Option Nat :=
  let pa := population (x.getD a 0) (y.getD a 0)
  let g := hopProbabilities (hop.getD a []) pa
  (g, chooseHop g ξ)

/-- the batch is processed row by row -/
def attemptHopBatch (rows : List (List α × List α × List (List α) × Nat × α)) :
    List (List α × Option Nat) :=
  rows.map fun (x, y, hop, a, ξ) => attemptHop x y hop a ξ

end attempt

/-! ## `_rescale_velocity_along_nac` for one molecule -/

section rescale
variable [Add α] [Sub α] [Mul α] [Div α] [Neg α] [OfScientific α] [OfNat α 0] [OfNat α 2]
variable [LE α] [DecidableLE α]

/-- `torch.sum(dvec * dvec, dim=1)` on the flattened `(molsize, 3)` tensor -/
def atomSq : List α → List α
  | a :: b :: c :: rest => (a * a + b * b + c * c) :: atomSq rest
  | _ => []

/-- `d2_by_m = torch.sum(m_inv * torch.sum(dvec * dvec, dim=1))` -/
def d2ByM (d minv : List α) : α := sumL (List.zipWith (· * ·) minv (atomSq d))

/-- `torch.sum(velocities * dvec)` (flattened) -/
def dot (v d : List α) : α := sumL (List.zipWith (· * ·) v d)

/-- `m_inv.unsqueeze(1)` broadcast against `(molsize, 3)`, flattened -/
def expand3 : List α → List α
  | [] => []
  | w :: ws => w :: w :: w :: expand3 ws

/-- the scalar part of `_rescale_velocity_along_nac`: `none` ↔ `return False`
```
if d2_by_m <= 1e-12: return False
v_dot_d = torch.sum(molecule.velocities[mol_index] * dvec)
rad = v_dot_d * v_dot_d - 2.0 * (dE / CONSTANTS.KINETIC_ENERGY_SCALE) * d2_by_m
if rad <= 0: return False
sqrt_rad = torch.sqrt(rad)
alpha = (-v_dot_d + sgn * sqrt_rad) / d2_by_m      # sgn = sign(v_dot_d): `signFixed` (live) / `tsign` (pre-repair)
``` -/
def rescaleAlpha (sqrt sign : α → α) (kes : α) (v d minv : List α) (dE : α) : Option α :=
  let d2 := d2ByM d minv
  if d2 ≤ (1e-12 : α) then none
  else
    let vd := dot v d
    let rad := vd * vd - 2 * (dE / kes) * d2
    if rad ≤ 0 then none
    else some ((-vd + sign vd * sqrt rad) / d2)

/-- `velocities + (alpha * dvec * m_inv.unsqueeze(1))` -/
def applyAlpha (a : α) (v d minv : List α) : List α :=
  List.zipWith (fun vk dw => vk + dw) v (List.zipWith (fun dk wk => a * dk * wk) d (expand3 minv))

/-- `_rescale_velocity_along_nac`: `(accepted, velocities afterwards)`.
    `v`, `d` flattened `(molsize,3)`, `minv` per atom, `kes = CONSTANTS.KINETIC_ENERGY_SCALE`. -/
def rescaleVelocity (sqrt sign : α → α) (kes : α) (v d minv : List α) (dE : α) : Bool × List α :=
  match rescaleAlpha sqrt sign kes v d minv dE with
  | none => (false, v)
  | some a => (true, applyAlpha a v d minv)

/-- accept/reject in `_after_electronic_update` (`decohere_on_hop = False`):
    `(active state, velocities, accepted)` -/
def hopOutcome (sqrt sign : α → α) (kes : α) (active target : Nat) (v d minv : List α) (dE : α) :
    Nat × List α × Bool :=
  match rescaleVelocity sqrt sign kes v d minv dE with
  | (true, v') => (target, v', true)
  | (false, v') => (active, v', false)

/-- the per-molecule loop `for pos, mol in enumerate(hop_idx_list)` touches row `mol` only -/
def hopOutcomeBatch (sqrt sign : α → α) (kes : α)
    (rows : List (Nat × Nat × List α × List α × List α × α)) : List (Nat × List α × Bool) :=
  rows.map fun (active, target, v, d, minv, dE) => hopOutcome sqrt sign kes active target v d minv dE

/-- `Molecular_Dynamics_Basic._kinetic_energy` for one molecule:
    `torch.sum(0.5 * molecule.mass * molecule.velocities**2) * CONSTANTS.KINETIC_ENERGY_SCALE`
    (`mass` per atom, `v` flattened) -/
def kineticEnergy (kes : α) (mass v : List α) : α :=
  sumL (List.zipWith (fun m vk => 0.5 * m * (vk * vk)) (expand3 mass) v) * kes

end rescale

section rescaleFixed
variable [Add α] [Sub α] [Mul α] [Div α] [Neg α] [OfScientific α] [OfNat α 0] [OfNat α 1] [OfNat α 2]
variable [LE α] [DecidableLE α] [LT α] [DecidableLT α]

/-- the routine AS IT STANDS IN THE LIVE CODE (after the F14 repair): identical to
    `rescaleVelocity … torch.sign …` except `sgn = -1 if v_dot_d < 0 else +1`, so `sign(0) = +1` -/
def rescaleVelocityFixed (sqrt : α → α) (kes : α) (v d minv : List α) (dE : α) : Bool × List α :=
  rescaleVelocity sqrt signFixed kes v d minv dE

end rescaleFixed

/-! ## trivial-crossing relabel -/

/-- `trivial = (perm != i) & (i < perm) & (ov_ip >= thr)`; `strong i` says `ov[i, perm i] ≥ 0.9` -/
def trivialPairs (perm : List Nat) (strong : Nat → Bool) : List (Nat × Nat) :=
  perm.zipIdx.filterMap fun (j, i) => if j ≠ i ∧ i < j ∧ strong i then some (i, j) else none

/-- `swap_to = -1; swap_to[m, i_sel] = j_sel; swap_to[m, j_sel] = i_sel` (two assignments, each in
    index order, later writes win) -/
def buildSwap (n : Nat) (pairs : List (Nat × Nat)) : List Int :=
  let s0 : List Int := List.replicate n (-1)
  let s1 := pairs.foldl (fun s (i, j) => s.set i (j : Int)) s0
  pairs.foldl (fun s (i, j) => s.set j (i : Int)) s1

/-- `perm = arange(n); perm[defined] = swap_to[defined]` -/
def permOfSwap (swapTo : List Int) : List Nat :=
  swapTo.zipIdx.map fun (s, i) => if 0 ≤ s then s.toNat else i

/-- sequential `out.scatter_(dim=1, index=p, src=old)` on a clone: `out[p[i]] = src[i]` for
    `i = 0, 1, …` in order (a later write to the same slot wins) -/
def scatterInto {β : Type} : List Nat → List β → List β → List β
  | i :: is, s :: ss, out => scatterInto is ss (out.set i s)
  | _, _, out => out

def scatter {β : Type} (p : List Nat) (old : List β) : List β := scatterInto p old old

/-- relabel of one trajectory: amplitude rows `(x, y, θ)` and active index -/
def relabel {β : Type} (swapTo : List Int) (amps : List β) (active : Nat) : List β × Nat :=
  let p := permOfSwap swapTo
  (scatter p amps, p.getD active active)

def relabelBatch {β : Type} (rows : List (List Int × List β × Nat)) : List (List β × Nat) :=
  rows.map fun (s, amps, a) => relabel s amps a

/-! ## driver -/

def takeFloats (n : Nat) (toks : List String) : Option (List Float × List String) :=
  if toks.length < n then none else do
    let xs ← Util.floatList? (toks.take n)
    pure (xs, toks.drop n)

def chunk {β : Type} (k : Nat) : Nat → List β → List (List β)
  | 0, _ => []
  | n+1, l => l.take k :: chunk k n (l.drop k)

def intList? : List String → Option (List Int)
  | [] => some []
  | t :: ts => do
    let n ← t.toInt?
    let r ← intList? ts
    pure (n :: r)

def showTarget : Option Nat → String
  | some j => toString j
  | none => "-1"

/-- Operations (floats are decimal IEEE-754 bit patterns, integers decimal):

* `hop_probs n active xi x[n] y[n] hopint[n*n]` → `target g[n]`
  (`hopint` row-major `_hop_integral[m]`, `xi` the uniform draw; `target = -1` for no hop)
* `hop_rescale natoms kes dE v[3*natoms] d[3*natoms] minv[natoms]` → `accepted(0/1) v'[3*natoms]`
  (`d` is the already signed `dvec`; PRE-REPAIR formula `sgn = torch.sign(v_dot_d)`, `sign(0) = 0`)
* `hop_rescale_fixed …` same tokens, `sgn = torch.where(v_dot_d < 0, -1, 1)` — THE LIVE CODE since
  the repair of F14
* `hop_relabel n active swap_to[n] amp[3*n]` → `active' amp'[3*n]`
  (`swap_to` decimal integers with `-1` = undefined; `amp` = rows `(x, y, θ)` of `_amp_phase[m]`)
* `hop_buildswap n npairs (i j)*npairs` → `swap_to[n]` (decimal integers) -/
def handle (toks : List String) : Option String :=
  match toks with
  | "hop_probs" :: n :: a :: rest => do
    let n ← n.toNat?
    let a ← a.toNat?
    let (xi, rest) ← takeFloats 1 rest
    let (x, rest) ← takeFloats n rest
    let (y, rest) ← takeFloats n rest
    let (h, rest) ← takeFloats (n * n) rest
    if !rest.isEmpty || a ≥ n then none else
    let ξ ← xi.head?
    let (g, tgt) := attemptHop x y (chunk n n h) a ξ
    pure (showTarget tgt ++ " " ++ Util.showFloats g)
  | op :: na :: rest =>
    if op == "hop_rescale" || op == "hop_rescale_fixed" then do
      let na ← na.toNat?
      let (s, rest) ← takeFloats 2 rest
      let (v, rest) ← takeFloats (3 * na) rest
      let (d, rest) ← takeFloats (3 * na) rest
      let (w, rest) ← takeFloats na rest
      if !rest.isEmpty then none else
      match s with
      | [kes, dE] =>
        let (ok, v') := if op == "hop_rescale" then rescaleVelocity Float.sqrt tsign kes v d w dE
                        else rescaleVelocityFixed Float.sqrt kes v d w dE
        pure ((if ok then "1 " else "0 ") ++ Util.showFloats v')
      | _ => none
    else if op == "hop_relabel" then do
      let n ← na.toNat?
      match rest with
      | a :: rest =>
        let a ← a.toNat?
        if rest.length ≠ n + 3 * n || a ≥ n then none else
        let sw ← intList? (rest.take n)
        if sw.any (fun s => s < -1 || s ≥ (n : Int)) then none else
        let amp ← Util.floatList? (rest.drop n)
        let (amps', a') := relabel sw (chunk 3 n amp) a
        pure (toString a' ++ " " ++ Util.showFloats amps'.flatten)
      | _ => none
    else if op == "hop_buildswap" then do
      let n ← na.toNat?
      match rest with
      | np :: rest =>
        let np ← np.toNat?
        let ns ← Util.natList? rest
        if ns.length ≠ 2 * np || ns.any (· ≥ n) then none else
        let pairs := (chunk 2 np ns).filterMap fun
          | [i, j] => some (i, j)
          | _ => none
        pure (" ".intercalate ((buildSwap n pairs).map toString))
      | _ => none
    else none
  | _ => none
-- DRIVER-HANDLER: Hop.handle

end Hop
