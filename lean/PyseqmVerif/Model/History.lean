import PyseqmVerif.Model.Util
/-!
# Process-global registers of the SCF autograd function (core Lean only)

Mirrors `seqm/seqm_functions/scf_loop.py`:

* `class SCF(torch.autograd.Function)` keeps its configuration in **class attributes**:
  `SCF.__init__` writes `SCF.sp2`, `SCF.converger`, `SCF.scf_backward_eps`;
  `SCF.forward` writes `SCF.scf_backward_eps = eps` (the SCF tolerance of this call — the value
  given to `__init__` is overwritten) and `SCF.themethod = themethod`, and reads `SCF.converger`,
  `SCF.sp2`;
  `SCF.backward` at the pinned commit **read** `SCF.themethod` and `SCF.scf_backward_eps` — at the
  time the backward pass runs, i.e. whatever the latest forward of *any* job left there (finding
  F13; `runLegacy`/`stepLegacy`).  Since the `fix:` commit `forward` stores
  `ctx.themethod = themethod` and `backward` uses `ctx.themethod` and the `eps` tensor saved by its
  own forward (`backward_eps = eps.to(Pin.device)`): the values travel in `ctx` (`run`/`step`, the
  live semantics).  The class attributes are still written, and `SCF.converger`/`SCF.sp2` are
  still read by `forward` — immediately after the `__init__` of the same `scf_loop` call.
* `scf_loop` instantiates `SCF(use_sp2=…, scf_converger=…, scf_backward_eps=…)` and calls `.apply`
  once per energy evaluation (`scf_backward == 1`; `SCF0` for `scf_backward == 0` shares the
  registers of its base class for writing).

A job `j` carries its own settings.  `Op.fwd j` = one `scf_loop` call of job `j`
(`__init__` + `forward`); `Op.bwd j` = autograd running `SCF.backward` on the graph node that
`fwd j` created.  The output of a backward records which `(eps, method)` it used.

`run` is the live (repaired, DESIGN Appendix C.10) semantics; `runLegacy` the pinned commit's.
-/
namespace History

/-- settings of a job; values are opaque labels -/
structure Settings where
  eps : Nat           -- `scf_eps` (Hamiltonian.eps) of the job
  method : Nat        -- `themethod`
  sp2 : Nat := 0      -- `use_sp2`
  converger : Nat := 0
  backwardEps : Nat := 0   -- the `scf_backward_eps` constructor argument (overwritten by forward)
deriving Repr, DecidableEq

/-- the class attributes of `SCF`; `none` = attribute not yet set in this process -/
structure Regs where
  sp2 : Option Nat := none
  converger : Option Nat := none
  themethod : Option Nat := none
  scfBackwardEps : Option Nat := none
deriving Repr, DecidableEq

inductive Op where
  | fwd (j : Nat)
  | bwd (j : Nat)
deriving Repr, DecidableEq

/-- what a backward pass used: `(eps, method)`; `none` = attribute missing (`AttributeError`) -/
abbrev Output := Option (Nat × Nat)

/-- `SCF.__init__` then `SCF.forward` of job settings `s` -/
def Regs.forward (_r : Regs) (s : Settings) : Regs :=
  -- __init__
  let r : Regs := { sp2 := some s.sp2, converger := some s.converger,
                    scfBackwardEps := some s.backwardEps, themethod := _r.themethod }
  -- forward
  { r with scfBackwardEps := some s.eps, themethod := some s.method }

/-- the values `SCF.backward` reads -/
def Regs.read (r : Regs) : Output :=
  match r.scfBackwardEps, r.themethod with
  | some e, some m => some (e, m)
  | _, _ => none

/-- job table lookup; an unknown job id has no effect on the registers -/
def job? (jobs : List Settings) (j : Nat) : Option Settings := jobs[j]?

def stepLegacy (jobs : List Settings) (r : Regs) : Op → Regs × Option Output
  | .fwd j => match job? jobs j with
    | some s => (r.forward s, none)
    | none => (r, none)
  | .bwd _ => (r, some r.read)

/-- the pinned commit's semantics (class-attribute reads): one output per backward, in order -/
def runLegacy (jobs : List Settings) : Regs → List Op → List Output
  | _, [] => []
  | r, op :: ops =>
    let (r', o) := stepLegacy jobs r op
    match o with
    | some out => out :: runLegacy jobs r' ops
    | none => runLegacy jobs r' ops

/-- register state after a history -/
def after (jobs : List Settings) : Regs → List Op → Regs
  | r, [] => r
  | r, op :: ops => after jobs (stepLegacy jobs r op).1 ops

/-- what job `j`'s backward should use: its own forward's values -/
def own (jobs : List Settings) (j : Nat) : Output :=
  (job? jobs j).map fun s => (s.eps, s.method)

/-- the specification: every backward uses its own job's values -/
def ownOutputs (jobs : List Settings) : List Op → List Output
  | [] => []
  | .fwd _ :: ops => ownOutputs jobs ops
  | .bwd j :: ops => own jobs j :: ownOutputs jobs ops

/-! ## live semantics: values travel in `ctx` -/

/-- per-job autograd context: what `forward` saved (`ctx.scf_backward_eps`, `ctx.themethod`) -/
abbrev Ctx := Nat → Option (Nat × Nat)

def Ctx.save (c : Ctx) (j : Nat) (v : Nat × Nat) : Ctx := fun k => if k = j then some v else c k

def step (jobs : List Settings) (c : Ctx) : Op → Ctx × Option Output
  | .fwd j => match job? jobs j with
    | some s => (c.save j (s.eps, s.method), none)
    | none => (c, none)
  | .bwd j => (c, some (c j))

def run (jobs : List Settings) : Ctx → List Op → List Output
  | _, [] => []
  | c, op :: ops =>
    let (c', o) := step jobs c op
    match o with
    | some out => out :: run jobs c' ops
    | none => run jobs c' ops

/-- the most recent forward of a history (the owner of the registers) -/
def lastFwd : List Op → Option Nat
  | [] => none
  | .fwd j :: ops => (lastFwd ops).orElse fun _ => some j
  | .bwd _ :: ops => lastFwd ops

/-! ## driver -/

def parseJobs : Nat → List Nat → Option (List Settings × List Nat)
  | 0, rest => some ([], rest)
  | n+1, e :: m :: rest => do
    let (js, r) ← parseJobs n rest
    pure ({ eps := e, method := m } :: js, r)
  | _, _ => none

def parseOps : Nat → List Nat → Option (List Op)
  | 0, [] => some []
  | n+1, k :: j :: rest => do
    let os ← parseOps n rest
    match k with
    | 0 => pure (Op.fwd j :: os)
    | 1 => pure (Op.bwd j :: os)
    | _ => none
  | _, _ => none

def showOutput : Output → String
  | some (e, m) => s!"{e},{m}"
  | none => "-"

/-- `history njobs {eps_j method_j}*njobs nops {op job}*nops` (all decimal naturals; `eps`/`method`
    are labels chosen by the harness; `op` 0 = forward, 1 = backward; a process starts with unset
    registers) → one token `eps,method` per backward op in order (`-` = job never forwarded);
    `none` when there is no backward.  Live semantics (values read from `ctx`).
    `history_legacy …` same arguments, semantics of the pinned commit (class-attribute reads;
    `-` = register unset). -/
def handle (toks : List String) : Option String :=
  match toks with
  | op :: rest =>
    if op = "history" ∨ op = "history_legacy" then do
      let ns ← Util.natList? rest
      match ns with
      | nj :: r1 =>
        let (jobs, r2) ← parseJobs nj r1
        match r2 with
        | nops :: r3 =>
          let ops ← parseOps nops r3
          let outs := if op = "history" then run jobs (fun _ => none) ops else runLegacy jobs {} ops
          pure (if outs.isEmpty then "none" else " ".intercalate (outs.map showOutput))
        | _ => none
      | _ => none
    else none
  | _ => none
-- DRIVER-HANDLER: History.handle

end History
