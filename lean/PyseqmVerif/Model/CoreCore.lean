import PyseqmVerif.Model.Util
/-!
# Core–core repulsion of one atom pair and its analytical derivative (core Lean only, scalar-polymorphic)

Mirrors, for ONE pair `(i, j)`:

* `seqm/seqm_functions/energy.py`, `pair_nuclear_energy` (lines 91–174), branches `MNDO`, `AM1`, `PM3`
  ```
  rija = rij * a0 ; t1 = tore[ni]*tore[nj]*gam
  XH = ((ni == 7) | (ni == 8)) & (nj == 1)
  tmp = exp(-alpha[idxi]*rija) ; t2 = tmp (~XH) | tmp*rija (XH) ; t3 = exp(-alpha[idxj]*rija)
  MNDO     : EnucAB = t1*(1.0 + t2 + t3)
  AM1/PM3  : t4 = tore[ni]*tore[nj]/rija
             t5 = sum(K[idxi]*exp(-L[idxi]*(rija - M[idxi])**2)) ; t6 = same with idxj
             EnucAB = t1*(1.0 + t2 + t3) + t4*(t5 + t6)
  ```
  (AM1 and PM3 share the formula; they differ in the number of Gaussians, 4 vs 2.)
* `seqm/seqm_functions/anal_grad.py`, `core_core_der` (lines 493–558): one Cartesian component `c` of
  `pair_grad` (= ∂EnucAB/∂X_i,c, `Xij = X_j − X_i` in Å).  What it differentiates analytically: the
  scaling function `g = 1 + t2 + t3` and the Gaussian part; what it takes as given:
  `w_x[:, c, 0, 0] = ∂gam/∂X_i,c`.
  ```
  ZAZB = tore[ni]*tore[nj] ; g = 1.0 + t2 + t3
  prefactor = alpha[idxi] ; prefactor[XH] = prefactor[XH]*rija[XH] - 1.0 ; t3 = alpha[idxj]*t3
  coreTerm = ZAZB*gam/rija*(prefactor*tmp + t3)
  pair_grad  = coreTerm*Xij[c] ; pair_grad += (ZAZB*g)*w_x[c,0,0]                      # MNDO returns here
  t4 = ZAZB/rija ; pair_grad += (ZAZB*pow(rija,-3)*(t5 + t6))*Xij[c]
  t5_der = sum(K*exp(-L*(rija - M)**2)*L*(rija - M)) (idxi) ; t6_der (idxj)
  pair_grad += (2.0*t4/rija*(t5_der + t6_der))*Xij[c]
  ```
* the `hpp` preprocessing at both sites: energy side `two_elec_two_center_int.py:120–122`
  (`hpp = 0.5*(gpp - gp2); hpp = hpp.clamp_min(0.1)`), derivative side `anal_grad.py:566`
  (`hpp = 0.5*(gpp - gp2)`, no clamp).

`exp` and `pow(·,-3)` are parameters.  `torch.sum(…, dim=1)` over the 2 or 4 Gaussians is modelled as a
sequential left fold from 0 (torch's reduction order may differ: agreement to a few ulp).
-/
namespace CoreCore

inductive Method where
  | MNDO
  | AM1
  | PM3
deriving Repr, DecidableEq

/-- one Gaussian correction term `(K, L, M)` of an atom -/
structure Gauss (α : Type) where
  K : α
  L : α
  M : α
deriving Repr

section
variable {α : Type} [Add α] [Sub α] [Mul α] [Div α] [Neg α] [OfNat α 0] [OfScientific α]

/-- `K*exp(-L*(rija - M)**2)`; Python precedence: `(-L) * ((rija - M)**2)`, `x**2 = x*x` -/
def gaussTerm (exp : α → α) (r : α) (g : Gauss α) : α :=
  g.K * exp (-g.L * ((r - g.M) * (r - g.M)))

/-- `t5` / `t6`: `torch.sum(K*exp(-L*(rija - M)**2), dim=1)` -/
def gaussSum (exp : α → α) (r : α) (gs : List (Gauss α)) : α :=
  gs.foldl (fun acc g => acc + gaussTerm exp r g) 0

/-- `K*exp(-L*(rija - M)**2)*L*(rija - M)` -/
def gaussDerTerm (exp : α → α) (r : α) (g : Gauss α) : α :=
  g.K * exp (-g.L * ((r - g.M) * (r - g.M))) * g.L * (r - g.M)

/-- `t5_der` / `t6_der` -/
def gaussDerSum (exp : α → α) (r : α) (gs : List (Gauss α)) : α :=
  gs.foldl (fun acc g => acc + gaussDerTerm exp r g) 0

/-- `g = 1.0 + t2 + t3` (shared by energy and derivative) -/
def scaleG (exp : α → α) (alphaI alphaJ rija : α) (isXH : Bool) : α :=
  let tmp := exp (-alphaI * rija)
  let t2 := if isXH then tmp * rija else tmp
  let t3 := exp (-alphaJ * rija)
  1.0 + t2 + t3

/-- `pair_nuclear_energy` for one pair -/
def pairNuclearEnergy (exp : α → α) (m : Method) (toreI toreJ gam alphaI alphaJ rija : α) (isXH : Bool)
    (gi gj : List (Gauss α)) : α :=
  let t1 := toreI * toreJ * gam
  let mndo := t1 * scaleG exp alphaI alphaJ rija isXH
  match m with
  | .MNDO => mndo
  | _ =>
    let t4 := toreI * toreJ / rija
    let t5 := gaussSum exp rija gi
    let t6 := gaussSum exp rija gj
    mndo + t4 * (t5 + t6)

/-- one Cartesian component of `core_core_der`: `Xc = Xij[c]`, `wxc = w_x[c,0,0]` -/
def coreCoreDer (exp powNeg3 : α → α) (m : Method) (toreI toreJ gam alphaI alphaJ rija : α) (isXH : Bool)
    (gi gj : List (Gauss α)) (Xc wxc : α) : α :=
  let zazb := toreI * toreJ
  let tmp := exp (-alphaI * rija)
  let t3 := exp (-alphaJ * rija)
  let g := scaleG exp alphaI alphaJ rija isXH
  let prefactor := if isXH then alphaI * rija - 1.0 else alphaI
  let t3' := alphaJ * t3
  let coreTerm := zazb * gam / rija * (prefactor * tmp + t3')
  let pg := coreTerm * Xc
  let pg := pg + zazb * g * wxc
  match m with
  | .MNDO => pg
  | _ =>
    let t4 := zazb / rija
    let t5 := gaussSum exp rija gi
    let t6 := gaussSum exp rija gj
    let pg := pg + zazb * powNeg3 rija * (t5 + t6) * Xc
    let t5d := gaussDerSum exp rija gi
    let t6d := gaussDerSum exp rija gj
    pg + 2.0 * t4 / rija * (t5d + t6d) * Xc

/-! ### `hpp` preprocessing (both sites) -/

/-- `x.clamp_min(lo)` -/
def clampMin [LT α] [DecidableLT α] (x lo : α) : α := if x < lo then lo else x

/-- energy side, `two_elec_two_center_int.py:120,122` -/
def hppEnergy [LT α] [DecidableLT α] (gpp gp2 : α) : α := clampMin (0.5 * (gpp - gp2)) 0.1

/-- derivative side, `anal_grad.py:566` (`w_der`) -/
def hppDeriv (gpp gp2 : α) : α := 0.5 * (gpp - gp2)

end

/-! ## driver -/

def method? (s : String) : Option Method :=
  match s with
  | "0" => some .MNDO
  | "1" => some .AM1
  | "2" => some .PM3
  | _ => none

def bool? (s : String) : Option Bool :=
  match s with
  | "0" => some false
  | "1" => some true
  | _ => none

/-- exactly six blocks of `n` floats `Ki Li Mi Kj Lj Mj` → the two Gaussian lists -/
def gaussBlocks? (n : Nat) (toks : List String) : Option (List (Gauss Float) × List (Gauss Float)) := do
  if toks.length ≠ 6 * n then none
  let xs ← Util.floatList? toks
  let blk (b : Nat) : List Float := (xs.drop (b * n)).take n
  let mk (k l m : List Float) : List (Gauss Float) :=
    List.zipWith (fun (kl : Float × Float) mm => { K := kl.1, L := kl.2, M := mm }) (List.zip k l) m
  pure (mk (blk 0) (blk 1) (blk 2), mk (blk 3) (blk 4) (blk 5))

/-- * `enuc method tore_i tore_j gam alpha_i alpha_j rija isXH nK Ki[nK] Li[nK] Mi[nK] Kj[nK] Lj[nK] Mj[nK]`
      → `EnucAB` of the pair.  `method`: 0 = MNDO, 1 = AM1, 2 = PM3; `isXH` ∈ {0,1};
      `rija` in Å (`rij*a0`); `gam` in eV; `nK` = number of Gaussians per atom (any `nK ≥ 0`; ignored by MNDO
      but the six blocks must be present with the announced length).
    * `enucder method tore_i tore_j gam alpha_i alpha_j rija isXH Xc wxc nK Ki… Mj…`
      → `core_core_der(...)[pair, c]` for `Xc = Xij[pair, c]` (Å) and `wxc = w_x[pair, c, 0, 0]`.
    * `hpp_energy gpp gp2` / `hpp_der gpp gp2` → `hpp` as computed by `two_elec_two_center_int` / `w_der`.
    Floats are IEEE-754 bit patterns in decimal; `method`, `isXH`, `nK` are decimal integers. -/
def handle (toks : List String) : Option String :=
  match toks with
  | "enuc" :: ms :: ti :: tj :: gam :: ai :: aj :: r :: xh :: nk :: rest => do
    let m ← method? ms
    let ti ← Util.floatTok? ti
    let tj ← Util.floatTok? tj
    let gam ← Util.floatTok? gam
    let ai ← Util.floatTok? ai
    let aj ← Util.floatTok? aj
    let r ← Util.floatTok? r
    let xh ← bool? xh
    let n ← nk.toNat?
    let (gi, gj) ← gaussBlocks? n rest
    pure (Util.showFloat (pairNuclearEnergy Float.exp m ti tj gam ai aj r xh gi gj))
  | "enucder" :: ms :: ti :: tj :: gam :: ai :: aj :: r :: xh :: xc :: wxc :: nk :: rest => do
    let m ← method? ms
    let ti ← Util.floatTok? ti
    let tj ← Util.floatTok? tj
    let gam ← Util.floatTok? gam
    let ai ← Util.floatTok? ai
    let aj ← Util.floatTok? aj
    let r ← Util.floatTok? r
    let xh ← bool? xh
    let xc ← Util.floatTok? xc
    let wxc ← Util.floatTok? wxc
    let n ← nk.toNat?
    let (gi, gj) ← gaussBlocks? n rest
    pure (Util.showFloat
      (coreCoreDer Float.exp (fun x => Float.pow x (-3.0)) m ti tj gam ai aj r xh gi gj xc wxc))
  | ["hpp_energy", a, b] => do
    let gpp ← Util.floatTok? a
    let gp2 ← Util.floatTok? b
    pure (Util.showFloat (hppEnergy gpp gp2))
  | ["hpp_der", a, b] => do
    let gpp ← Util.floatTok? a
    let gp2 ← Util.floatTok? b
    pure (Util.showFloat (hppDeriv gpp gp2))
  | _ => none
-- DRIVER-HANDLER: CoreCore.handle

end CoreCore
