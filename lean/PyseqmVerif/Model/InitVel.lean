import PyseqmVerif.Model.Verlet
/-!
# Initial velocities and removal of centre-of-mass motion (core Lean only, scalar-polymorphic)

Mirrors `seqm/MolecularDynamics.py`:
* `Molecular_Dynamics_Basic.initialize_velocity`
  ```
  if Temp == 0.0: v = zeros
  scale = sqrt(Temp * mass_inverse) * VEL_SCALE ; v = randn * scale
  Ek = _kinetic_energy ; T1 = _calc_temperature(Ek) ; alpha = sqrt(Temp / T1) ; v *= alpha
  ```
* `Molecular_Dynamics_Basic._zero_com`
  ```
  M = sum(mass) ; Ek_initial = _kinetic_energy
  r_com = sum(mass * x) / M ; r_rel = x - r_com ; (x = r_rel if translate_to_origin)
  v_com = sum(mass * v) / M ; v -= v_com                       # ALL atoms, padding included
  L = sum(mass * cross(r_rel, v)) ; I = sum(mass*|r_rel|²) * eye - sum(mass * r_rel ⊗ r_rel)
  omega = pinv(I) @ L ; v -= cross(omega, r_rel)
  Ek_after = _kinetic_energy ; raise if Ek_after < 1e-12 ; v *= sqrt(Ek_initial / Ek_after)
  ```
The linear part acts on each Cartesian component separately: `removeCom` takes the `N` masses and
the `N` values of one component.  `removeCom` is what the code does today (`v_com` is subtracted
from padding atoms, `mass = 0`, as well); `removeComMasked` is the variant in which the subtraction
is multiplied by `(mass > 0)`.
The angular part uses 3-vectors as triples; `solve I L` stands for `pinv(I, hermitian=True) @ L`.
-/
namespace InitVel
open Verlet

section scalar
variable {α : Type} [Add α] [Sub α] [Mul α] [Div α] [OfScientific α] [OfNat α 0] [OfNat α 1]

/-- `scale = sqrt(Temp * mass_inverse) * VEL_SCALE ; v = randn_like(x) * scale` -/
def mbScale (sqrt : α → α) (temp vel : α) (minv xi : List α) : List α :=
  List.zipWith (fun mi xii => xii * (sqrt (temp * mi) * vel)) minv xi

/-- `alpha = sqrt(Temp / T1) ; v.mul_(alpha)` -/
def rescale (sqrt : α → α) (temp t1 : α) (v : List α) : List α :=
  let alpha := sqrt (temp / t1)
  v.map (fun vi => vi * alpha)

/-- `initialize_velocity` up to (excluding) the `_zero_com` call, flattened `3 N` layout -/
def initVelocityFlat [BEq α] (sqrt : α → α) (temp vel kes ts ndof : α) (m minv xi : List α) : List α :=
  if temp == 0.0 then List.replicate minv.length 0
  else
    let v := mbScale sqrt temp vel minv xi
    let ek := kineticEnergy kes m v
    let t1 := temperature ek ts ndof
    rescale sqrt temp t1 v

/-- `torch.sum(mass * v, dim=1)` for one Cartesian component -/
def dotm (m v : List α) : α := lsum (List.zipWith (fun mi vi => mi * vi) m v)

/-- `v_com = sum(mass * v) / M ; v.sub_(v_com)` for one Cartesian component: the CURRENT code
    (every atom of the padded array is shifted, whatever its mass) -/
def removeCom (m v : List α) : List α :=
  let vcom := dotm m v / lsum m
  v.map (fun vi => vi - vcom)

/-- `(mass > 0)` as a 0/1 array -/
def massMask [LT α] [DecidableLT α] (m : List α) : List α :=
  m.map (fun mi => if 0 < mi then 1 else 0)

/-- planned repair: `v.sub_(v_com * (mass > 0))` -/
def removeComMasked [LT α] [DecidableLT α] (m v : List α) : List α :=
  let vcom := dotm m v / lsum m
  List.zipWith (fun vi ri => vi - vcom * ri) v (massMask m)

/-- `alpha = sqrt(Ek_initial / Ek_after) ; v.mul_(alpha)` -/
def restoreKE (sqrt : α → α) (ek0 ek1 : α) (v : List α) : List α :=
  let alpha := sqrt (ek0 / ek1)
  v.map (fun vi => vi * alpha)

/-! ### 3-vectors as triples -/

abbrev V3 (α : Type) := α × α × α
abbrev M3 (α : Type) := V3 α × V3 α × V3 α

/-- `torch.linalg.cross(a, b)` -/
def cross (a b : V3 α) : V3 α :=
  (a.2.1 * b.2.2 - a.2.2 * b.2.1, a.2.2 * b.1 - a.1 * b.2.2, a.1 * b.2.1 - a.2.1 * b.1)

def sub3 (a b : V3 α) : V3 α := (a.1 - b.1, a.2.1 - b.2.1, a.2.2 - b.2.2)
def smul3 (c : α) (a : V3 α) : V3 α := (c * a.1, c * a.2.1, c * a.2.2)
def dot3 (a b : V3 α) : α := a.1 * b.1 + a.2.1 * b.2.1 + a.2.2 * b.2.2

/-- `torch.sum(·, dim=1)` of an `(N,3)` array: each column is summed on its own -/
def sum3 (l : List (V3 α)) : V3 α :=
  (lsum (l.map (fun p => p.1)), lsum (l.map (fun p => p.2.1)), lsum (l.map (fun p => p.2.2)))

/-- `L = sum(mass * cross(r_rel, v), dim=1)` -/
def angMom (m : List α) (r v : List (V3 α)) : V3 α :=
  sum3 (List.zipWith (fun mi c => smul3 mi c) m (List.zipWith cross r v))

/-- `sum(mass * (r*r).sum(dim=2))` -/
def inertiaTrace (m : List α) (r : List (V3 α)) : α :=
  lsum (List.zipWith (fun mi ri => mi * dot3 ri ri) m r)

/-- entry `(a,b)` of `sum(mass.unsqueeze(3) * r.unsqueeze(3) * r.unsqueeze(2), dim=1)` -/
def outerSum (pa pb : V3 α → α) (m : List α) (r : List (V3 α)) : α :=
  lsum (List.zipWith (fun mi ri => mi * pa ri * pb ri) m r)

/-- `I = sum(mass*|r|²) * eye - sum(mass * r ⊗ r)` (rows) -/
def inertia (m : List α) (r : List (V3 α)) : M3 α :=
  let t := inertiaTrace m r
  let X : V3 α → α := fun p => p.1
  let Y : V3 α → α := fun p => p.2.1
  let Z : V3 α → α := fun p => p.2.2
  ((t * 1 - outerSum X X m r, t * 0 - outerSum X Y m r, t * 0 - outerSum X Z m r),
   (t * 0 - outerSum Y X m r, t * 1 - outerSum Y Y m r, t * 0 - outerSum Y Z m r),
   (t * 0 - outerSum Z X m r, t * 0 - outerSum Z Y m r, t * 1 - outerSum Z Z m r))

/-- matrix (rows) times vector -/
def mulVec3 (A : M3 α) (w : V3 α) : V3 α := (dot3 A.1 w, dot3 A.2.1 w, dot3 A.2.2 w)

/-- `omega = pinv(I) @ L ; v.sub_(cross(omega, r_rel))` -/
def removeAngular (solve : M3 α → V3 α → V3 α) (m : List α) (r v : List (V3 α)) : List (V3 α) :=
  let L := angMom m r v
  let I := inertia m r
  let omega := solve I L
  List.zipWith (fun vi ri => sub3 vi (cross omega ri)) v r

/-! ### the whole `_zero_com` on `(N,3)` arrays -/

def col1 (l : List (V3 α)) : List α := l.map (fun p => p.1)
def col2 (l : List (V3 α)) : List α := l.map (fun p => p.2.1)
def col3 (l : List (V3 α)) : List α := l.map (fun p => p.2.2)
def zip3 (a b c : List α) : List (V3 α) :=
  List.zipWith (fun x yz => (x, yz)) a (List.zipWith (fun y z => (y, z)) b c)

/-- `r - sum(mass*r)/M` resp. `v - sum(mass*v)/M`, all three columns (current code: unmasked) -/
def removeCom3 (m : List α) (v : List (V3 α)) : List (V3 α) :=
  zip3 (removeCom m (col1 v)) (removeCom m (col2 v)) (removeCom m (col3 v))

/-- `(N,3)` array → flattened `3 N`, and the mass replicated per component -/
def flatten3 (l : List (V3 α)) : List α := l.flatMap (fun p => [p.1, p.2.1, p.2.2])
def rep3 (m : List α) : List α := m.flatMap (fun x => [x, x, x])

def kineticEnergy3 (kes : α) (m : List α) (v : List (V3 α)) : α :=
  kineticEnergy kes (rep3 m) (flatten3 v)

/-- `_zero_com(molecule, remove_angular, translate_to_origin, restore_kinetic_energy)`;
    result `(coordinates, velocities)`, `none` = the `RuntimeError` of the zero-energy guard -/
def zeroCom [LT α] [DecidableLT α] (sqrt : α → α) (solve : M3 α → V3 α → V3 α) (kes : α)
    (removeAng translate restore : Bool) (m : List α) (r v : List (V3 α)) :
    Option (List (V3 α) × List (V3 α)) :=
  let ek0 := kineticEnergy3 kes m v
  let rrel := removeCom3 m r
  let r' := if translate then rrel else r
  let v1 := removeCom3 m v
  let v2 := if removeAng then removeAngular solve m rrel v1 else v1
  let ek1 := kineticEnergy3 kes m v2
  if ek1 < 1e-12 then none
  else
    let v3 := if restore then (let alpha := sqrt (ek0 / ek1); v2.map (fun p => (p.1 * alpha, p.2.1 * alpha, p.2.2 * alpha))) else v2
    some (r', v3)

end scalar

/-! ## driver -/

/-- Operations (floats as decimal IEEE-754 bit patterns, `n` decimal):
* `zerocom_linear n m[n] v[n]` → `v'[n]`  (one Cartesian component, unmasked = current code)
* `zerocom_linear_masked n m[n] v[n]` → `v'[n]`  (the planned repair)
* `rescale temp t1 n v[n]` → `v'[n]`
* `mbscale temp vel n minv[n] xi[n]` → `v[n]` -/
def handle (toks : List String) : Option String :=
  match toks with
  | "zerocom_linear" :: n :: rest => do
    let n ← n.toNat?
    match ← blocks? n 2 rest with
    | [m, v] => pure (Util.showFloats (removeCom m v))
    | _ => none
  | "zerocom_linear_masked" :: n :: rest => do
    let n ← n.toNat?
    match ← blocks? n 2 rest with
    | [m, v] => pure (Util.showFloats (removeComMasked m v))
    | _ => none
  | "rescale" :: temp :: t1 :: n :: rest => do
    let temp ← Util.floatTok? temp
    let t1 ← Util.floatTok? t1
    let n ← n.toNat?
    match ← blocks? n 1 rest with
    | [v] => pure (Util.showFloats (rescale Float.sqrt temp t1 v))
    | _ => none
  | "mbscale" :: temp :: vel :: n :: rest => do
    let temp ← Util.floatTok? temp
    let vel ← Util.floatTok? vel
    let n ← n.toNat?
    match ← blocks? n 2 rest with
    | [minv, xi] => pure (Util.showFloats (mbScale Float.sqrt temp vel minv xi))
    | _ => none
  | _ => none
-- DRIVER-HANDLER: InitVel.handle

end InitVel
