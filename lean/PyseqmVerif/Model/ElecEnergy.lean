import PyseqmVerif.Model.Util
/-!
# Electronic energy (core Lean only, scalar-polymorphic)

Mirrors `seqm/seqm_functions/energy.py`, `elec_energy(P, F, Hcore, doTriu=True)` (lines 26–49) for ONE
molecule with `n × n` matrices given as functions `Nat → Nat → α`:

```
h = Hcore.triu() + Hcore.triu(1).transpose(1, 2)                       # doTriu
closed shell : Eelec = 0.5 * torch.sum(P * (h + F), dim=(1, 2))
open shell   : Eelec = 0.5 * torch.sum((P[:,0] + P[:,1]) * h + P[:,0]*F[:,0] + P[:,1]*F[:,1], dim=(1, 2))
```
`torch.sum` over the two matrix dimensions is modelled as nested sequential left folds (rows, then the row
sums); torch's own reduction order is blocked/vectorised, so agreement is to `1e-12·n²` relative, not bitwise.

The force path (`seqm/basics.py`, `Force.forward`, lines 1314–1336) differentiates `Hf` — which contains
this `Eelec` plus `Enuc` — with respect to the coordinates by autograd while the SCF result `P` carries no
gradient (`scf_loop.py:1996–2031`, `SCF0.backward` returns `None` for every input): the Hellmann–Feynman
cut justified in `Properties/C01.lean`.
-/
namespace ElecEnergy

section
variable {α : Type} [Add α] [Mul α] [OfNat α 0] [OfScientific α]

/-- sequential sum `((0 + f 0) + f 1) + … + f (n-1)` -/
def sumRange (n : Nat) (f : Nat → α) : α := (List.range n).foldl (fun acc i => acc + f i) 0

/-- `Hcore.triu() + Hcore.triu(1).transpose(1, 2)`: the full symmetric matrix from the upper triangle -/
def hFromUpper (H : Nat → Nat → α) (i j : Nat) : α :=
  (if i ≤ j then H i j else 0) + (if j < i then H j i else 0)

/-- closed shell `0.5 * torch.sum(P * (h + F))` -/
def elecEnergy (n : Nat) (P h F : Nat → Nat → α) : α :=
  0.5 * sumRange n (fun i => sumRange n (fun j => P i j * (h i j + F i j)))

/-- open shell `0.5 * torch.sum((Pa + Pb) * h + Pa * Fa + Pb * Fb)` -/
def elecEnergyUHF (n : Nat) (Pa Pb h Fa Fb : Nat → Nat → α) : α :=
  0.5 * sumRange n (fun i => sumRange n (fun j =>
    (Pa i j + Pb i j) * h i j + Pa i j * Fa i j + Pb i j * Fb i j))

end

/-! ## driver -/

def matOf (n : Nat) (xs : List Float) (off : Nat) : Nat → Nat → Float :=
  fun i j => xs.getD (off + i * n + j) 0

/-- * `eelec n doTriu P[n·n] F[n·n] Hcore[n·n]` → closed-shell `Eelec` (matrices row-major, `doTriu` ∈ {0,1}).
    * `eelec_uhf n doTriu Pa[n·n] Pb[n·n] Fa[n·n] Fb[n·n] Hcore[n·n]` → open-shell `Eelec`.
    Floats are IEEE-754 bit patterns in decimal. -/
def handle (toks : List String) : Option String :=
  match toks with
  | "eelec" :: ns :: tr :: rest => do
    let n ← ns.toNat?
    let t ← tr.toNat?
    if 1 < t then none
    if rest.length ≠ 3 * n * n then none
    let xs ← Util.floatList? rest
    let P := matOf n xs 0
    let F := matOf n xs (n * n)
    let H := matOf n xs (2 * n * n)
    let h := if t = 1 then hFromUpper H else H
    pure (Util.showFloat (elecEnergy n P h F))
  | "eelec_uhf" :: ns :: tr :: rest => do
    let n ← ns.toNat?
    let t ← tr.toNat?
    if 1 < t then none
    if rest.length ≠ 5 * n * n then none
    let xs ← Util.floatList? rest
    let Pa := matOf n xs 0
    let Pb := matOf n xs (n * n)
    let Fa := matOf n xs (2 * n * n)
    let Fb := matOf n xs (3 * n * n)
    let H := matOf n xs (4 * n * n)
    let h := if t = 1 then hFromUpper H else H
    pure (Util.showFloat (elecEnergyUHF n Pa Pb h Fa Fb))
  | _ => none
-- DRIVER-HANDLER: ElecEnergy.handle

end ElecEnergy
