import PyseqmVerif.Model.Util
/-!
# The additive terms `rho1`, `rho2` as roots, and their hand-written backward (core Lean only)

Mirrors `seqm/seqm_functions/cal_par.py`, classes `additive_term_rho1` and `additive_term_rho2`
(`torch.autograd.Function`s, element-wise over atoms; the model is for a single element).

* `forward(ctx, hsp_ev, D1)`: `hsp = hsp_ev / ev`; five secant steps in the variable `d = 1/(2ρ)` on
  `hspOfD D d = 0.5 d − 0.5/√(4 D² + 1/d²)`; returns `rho1 = 0.5/d`; saves `(rho1, D1)`.
  In the variable `ρ` the equation solved is `ev · h1 ρ D = hsp_ev` with
  `h1 ρ D = ¼ (1/ρ − 1/√(D² + ρ²))` (the docstring of `backward`).
* `backward(ctx, grad_output)`: `rho1BackwardCode` below, statement by statement.
  It multiplies `grad_output` by `∂hsp_ev/∂ρ` and by `dD/dρ|_h` — the reciprocals of the
  derivatives `∂ρ/∂hsp_ev`, `∂ρ/∂D` it has to return (see `Properties/C07.lean`).
* `rho1BackwardTrue`/`rho2BackwardTrue`: the implicit-function derivatives, written in the form of
  the candidate repair (DESIGN Appendix C.4) so that the same driver operation ties to the
  repaired code.

`x ** 1.5` is the explicit parameter `pow15` (`Float.pow · 1.5` in the driver, `x ↦ x·√x` in the
theorems); `torch.sqrt`, `torch.abs`, `x ** y` are parameters of the forward model.  `x**2` is
`x*x` (what `torch.pow(·, 2)` evaluates).
-/
namespace RootSolve

section poly
variable {α : Type} [Add α] [Sub α] [Mul α] [Div α] [Neg α] [OfScientific α]

/-! ## residual functions -/

/-- the function whose root the forward's secant iteration finds, variable `d = 1/(2ρ)`, atomic units:
    `0.5 * d1 - 0.5 / torch.sqrt(4.0 * D1**2 + 1.0 / d1**2)` -/
def hspOfD (sqrt : α → α) (D d : α) : α :=
  0.5 * d - 0.5 / sqrt (4.0 * (D * D) + 1.0 / (d * d))

/-- the same function in the variable `ρ` (docstring of `backward`):
    `hsp = (1/4) * (1/rho1 - 1/sqrt(D1^2 + rho1^2))`, atomic units -/
def h1 (sqrt : α → α) (ρ D : α) : α :=
  0.25 * (1.0 / ρ - 1.0 / sqrt (D * D + ρ * ρ))

/-- `0.25*q - 0.5/sqrt(4 D2² + 1/q²) + 0.25/sqrt(8 D2² + 1/q²)`, variable `q = 1/(2ρ)` -/
def hppOfQ (sqrt : α → α) (D q : α) : α :=
  0.25 * q - 0.5 / sqrt (4.0 * (D * D) + 1.0 / (q * q)) + 0.25 / sqrt (8.0 * (D * D) + 1.0 / (q * q))

/-- `hpp = 1/8/rho2 - 1/4/sqrt(D2^2+rho2^2) + 1/8/sqrt(2*D2^2+rho2^2)`, atomic units -/
def h2 (sqrt : α → α) (ρ D : α) : α :=
  0.125 / ρ - 0.25 / sqrt (D * D + ρ * ρ) + 0.125 / sqrt (2.0 * (D * D) + ρ * ρ)

/-! ## partial derivatives of the residuals (closed forms used by `backward`) -/

/-- `∂h1/∂ρ = (1/4) (ρ/(D²+ρ²)^{3/2} − 1/ρ²)` -/
def dh1dρ (pow15 : α → α) (ρ D : α) : α :=
  0.25 * (ρ / pow15 (D * D + ρ * ρ) - 1.0 / (ρ * ρ))

/-- `∂h1/∂D = (1/4) D/(D²+ρ²)^{3/2}` -/
def dh1dD (pow15 : α → α) (ρ D : α) : α :=
  0.25 * (D / pow15 (D * D + ρ * ρ))

/-- `dhppdrho2 = -0.125 / rho2**2 + rho2 * (tmp1 / 4.0 - tmp2 / 8.0)` -/
def dh2dρ (pow15 : α → α) (ρ D : α) : α :=
  let tmp1 := 1.0 / pow15 (D * D + ρ * ρ)
  let tmp2 := 1.0 / pow15 (2.0 * (D * D) + ρ * ρ)
  let dhppdrho2 := -0.125 / (ρ * ρ) + ρ * (tmp1 / 4.0 - tmp2 / 8.0)
  dhppdrho2

/-- `∂hpp/∂D2 = D2 / 4.0 * (tmp1 - tmp2)` -/
def dh2dD (pow15 : α → α) (ρ D : α) : α :=
  let tmp1 := 1.0 / pow15 (D * D + ρ * ρ)
  let tmp2 := 1.0 / pow15 (2.0 * (D * D) + ρ * ρ)
  D / 4.0 * (tmp1 - tmp2)

/-! ## the code's backward, verbatim -/

/-- `additive_term_rho1.backward`; saved tensors `(rho1, D1)`, incoming `grad_output = g`:
```
tmp  = (D1**2 + rho1**2) ** (1.5)
dhsp = 0.25 * (rho1 / tmp - 1.0 / rho1**2) * grad_output * ev
dD1  = (tmp / rho1**2 / D1 - rho1 / D1) * grad_output
return (dhsp, dD1)
``` -/
def rho1BackwardCode (pow15 : α → α) (ev ρ D g : α) : α × α :=
  let tmp := pow15 (D * D + ρ * ρ)
  let dhsp := 0.25 * (ρ / tmp - 1.0 / (ρ * ρ)) * g * ev
  let dD1 := (tmp / (ρ * ρ) / D - ρ / D) * g
  (dhsp, dD1)

/-- `additive_term_rho2.backward`:
```
tmp1 = 1.0 / (D2**2 + rho2**2) ** 1.5
tmp2 = 1.0 / (2.0 * D2**2 + rho2**2) ** 1.5
dhppdrho2 = -0.125 / rho2**2 + rho2 * (tmp1 / 4.0 - tmp2 / 8.0)
dhpp_ev = dhppdrho2 * grad_output * ev
dD2 = -dhppdrho2 / (D2 / 4.0 * (tmp1 - tmp2)) * grad_output
return (dhpp_ev, dD2)
``` -/
def rho2BackwardCode (pow15 : α → α) (ev ρ D g : α) : α × α :=
  let tmp1 := 1.0 / pow15 (D * D + ρ * ρ)
  let tmp2 := 1.0 / pow15 (2.0 * (D * D) + ρ * ρ)
  let dhppdrho2 := -0.125 / (ρ * ρ) + ρ * (tmp1 / 4.0 - tmp2 / 8.0)
  let dhpp_ev := dhppdrho2 * g * ev
  let dD2 := -dhppdrho2 / (D / 4.0 * (tmp1 - tmp2)) * g
  (dhpp_ev, dD2)

/-! ## the implicit-function derivatives (form of the candidate repair C.4) -/

/-- `dhsp = g / (0.25 * (rho1/tmp - 1/rho1**2) * ev)`, `dD1 = g / (tmp/rho1**2/D1 - rho1/D1)` -/
def rho1BackwardTrue (pow15 : α → α) (ev ρ D g : α) : α × α :=
  let tmp := pow15 (D * D + ρ * ρ)
  let dhsp := g / (0.25 * (ρ / tmp - 1.0 / (ρ * ρ)) * ev)
  let dD1 := g / (tmp / (ρ * ρ) / D - ρ / D)
  (dhsp, dD1)

/-- `dhpp_ev = g / (dhppdrho2 * ev)`, `dD2 = -(D2/4*(tmp1 - tmp2)) / dhppdrho2 * g` -/
def rho2BackwardTrue (pow15 : α → α) (ev ρ D g : α) : α × α :=
  let tmp1 := 1.0 / pow15 (D * D + ρ * ρ)
  let tmp2 := 1.0 / pow15 (2.0 * (D * D) + ρ * ρ)
  let dhppdrho2 := -0.125 / (ρ * ρ) + ρ * (tmp1 / 4.0 - tmp2 / 8.0)
  let dhpp_ev := g / (dhppdrho2 * ev)
  let dD2 := -(D / 4.0 * (tmp1 - tmp2)) / dhppdrho2 * g
  (dhpp_ev, dD2)

/-! ## the forward secant iteration -/

variable [LT α] [DecidableRel (α := α) (· < ·)]

/-- one pass of the `for i in range(1, 6)` body: `(d1, d2) ↦ (d2, d3)`;
    `torch.where(torch.abs(hsp2 - hsp1) > eps, d1 + (d2 - d1) * (hsp - hsp1) / (hsp2 - hsp1), d2)` -/
def secantStep (f : α → α) (abs : α → α) (eps h : α) (d : α × α) : α × α :=
  let h1 := f d.1
  let h2 := f d.2
  let d3 := if eps < abs (h2 - h1) then d.1 + (d.2 - d.1) * (h - h1) / (h2 - h1) else d.2
  (d.2, d3)

def iter {β : Type} (f : β → β) : Nat → β → β
  | 0, x => x
  | n+1, x => iter f n (f x)

/-- `additive_term_rho1.forward` (float64 branch: `eps = 1.0e-16`) -/
def rho1Forward (sqrt abs : α → α) (pow : α → α → α) (ev hspEv D : α) : α :=
  let eps : α := 1.0e-16
  let hsp := hspEv / ev
  let d1 := pow (abs hsp / (D * D)) (1.0 / 3.0)
  let d1 := if hsp < 0.0 then d1 * (-1.0) else d1
  let d2 := d1 + 0.04
  let r := iter (secantStep (hspOfD sqrt D) abs eps hsp) 5 (d1, d2)
  0.5 / r.2

/-- `additive_term_rho2.forward` (float64 branch); `D2**4` is `pow D 4.0` -/
def rho2Forward (sqrt abs : α → α) (pow : α → α → α) (ev hppEv D : α) : α :=
  let eps : α := 1.0e-16
  let hpp := hppEv / ev
  let q1 := pow (abs hpp / 3.0 / pow D 4.0) 0.2
  let q1 := if hpp < 0.0 then q1 * (-1.0) else q1
  let q2 := q1 + 0.04
  let r := iter (secantStep (hppOfQ sqrt D) abs eps hpp) 5 (q1, q2)
  0.5 / r.2

end poly

/-! ## driver -/

def pow15F (x : Float) : Float := Float.pow x 1.5

def showPair (p : Float × Float) : String := Util.showFloat p.1 ++ " " ++ Util.showFloat p.2

/-- Operations (floats as IEEE-754 bit patterns; a single atom = one element of the tensors):

* `rho1_backward_code rho1 D1 grad_output ev` → `dhsp dD1`  (the tuple returned by
  `additive_term_rho1.backward`; `rho1, D1` = `ctx.saved_tensors`, `ev` = `constants.ev`)
* `rho1_backward_true rho1 D1 grad_output ev` → `dhsp dD1`  (implicit-function derivatives × g)
* `rho2_backward_code rho2 D2 grad_output ev` → `dhpp_ev dD2`
* `rho2_backward_true rho2 D2 grad_output ev` → `dhpp_ev dD2`
* `rho1_forward hsp_ev D1 ev` → `rho1`;  `rho2_forward hpp_ev D2 ev` → `rho2`  (float64 branch)
* `rho1_residual rho1 D1 ev` → `ev*h1(rho1,D1)`;  `rho2_residual rho2 D2 ev` → `ev*h2(rho2,D2)` -/
def handle (toks : List String) : Option String :=
  match toks with
  | op :: rest => do
    let xs ← Util.floatList? rest
    match op, xs with
    | "rho1_backward_code", [ρ, D, g, ev] => pure (showPair (rho1BackwardCode pow15F ev ρ D g))
    | "rho1_backward_true", [ρ, D, g, ev] => pure (showPair (rho1BackwardTrue pow15F ev ρ D g))
    | "rho2_backward_code", [ρ, D, g, ev] => pure (showPair (rho2BackwardCode pow15F ev ρ D g))
    | "rho2_backward_true", [ρ, D, g, ev] => pure (showPair (rho2BackwardTrue pow15F ev ρ D g))
    | "rho1_forward", [h, D, ev] => pure (Util.showFloat (rho1Forward Float.sqrt Float.abs Float.pow ev h D))
    | "rho2_forward", [h, D, ev] => pure (Util.showFloat (rho2Forward Float.sqrt Float.abs Float.pow ev h D))
    | "rho1_residual", [ρ, D, ev] => pure (Util.showFloat (ev * h1 Float.sqrt ρ D))
    | "rho2_residual", [ρ, D, ev] => pure (Util.showFloat (ev * h2 Float.sqrt ρ D))
    | _, _ => none
  | _ => none
-- DRIVER-HANDLER: RootSolve.handle

end RootSolve
