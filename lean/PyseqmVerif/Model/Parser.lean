import PyseqmVerif.Model.Util
/-!
# The integer part of `Parser.forward` (`seqm/basics.py`) — core Lean only

A batch is `nmol` rows of `molsize` atomic numbers (`0` = padding).  Everything in
`Parser.forward` that is not a floating point number is a function of

* `sp : Nat → Nat`, the flattened species array `molecule.species.reshape(-1)` (flat atom index
  `i = m*molsize + a`), and
* `close : Nat → Nat → Bool`, standing for `pairdist_sq[m,a,b] < self.outercutoff**2`, addressed by
  the flat indices `(pair_first, pair_second) = (m*molsize+a, m*molsize+b)` of the two atoms
  (only entries inside one molecule are ever read, as in the Python, where `pairdist_sq` has shape
  `nmol*molsize*molsize`).

The definitions follow the statements of `Parser.forward` in code order.  `themethod == "PM6"`
(a different `nHeavy`/`norb_per_mol`) and `nSuperHeavy` are not modelled; `hipnn_automatic_doublet` is `False`.
-/
namespace Parser

/-! ## atoms -/

/-- `nonblank = molecule.species > 0`, flattened -/
def isReal (sp : Nat → Nat) (i : Nat) : Bool := decide (0 < sp i)

/-- `real_atoms = atom_index[nonblank.reshape(-1) > 0]` with `atom_index = arange(nmol*molsize)` -/
def realAtoms (nmol ms : Nat) (sp : Nat → Nat) : List Nat :=
  (List.range (nmol * ms)).filter (isReal sp)

/-- `Z = molecule.species.reshape(-1)[real_atoms]` -/
def Zs (nmol ms : Nat) (sp : Nat → Nat) : List Nat := (realAtoms nmol ms sp).map sp

/-- `nHeavy = torch.sum(molecule.species > 1, dim=1)` (the non-PM6 branch) -/
def nHeavy (nmol ms : Nat) (sp : Nat → Nat) : List Nat :=
  (List.range nmol).map fun m => (List.range ms).countP fun a => decide (1 < sp (m * ms + a))

/-- `nHydro = torch.sum(molecule.species == 1, dim=1)` -/
def nHydro (nmol ms : Nat) (sp : Nat → Nat) : List Nat :=
  (List.range nmol).map fun m => (List.range ms).countP fun a => sp (m * ms + a) == 1

/-! ## electrons -/

/-- `torch.sum(tore[molecule.species], dim=1)` for row `m` (the valence-electron table `tore` has
    integer values, `tore[0] = 0`) -/
def nValence (ms : Nat) (sp : Nat → Nat) (tore : Nat → Nat) (m : Nat) : Nat :=
  (List.range ms).foldl (fun s a => s + tore (sp (m * ms + a))) 0

/-- `n_charge = sum(tore[species]).type(int64) - tot_charge.type(int64)` -/
def nCharge (ms : Nat) (sp : Nat → Nat) (tore : Nat → Nat) (charge : Nat → Int) (m : Nat) : Int :=
  (nValence ms sp tore m : Int) - charge m

/-- `norb_per_mol = 4 * nHeavy + nHydro` of molecule `m` (`themethod != "PM6"`) -/
def norbAt (ms : Nat) (sp : Nat → Nat) (m : Nat) : Nat :=
  4 * ((List.range ms).countP fun a => decide (1 < sp (m * ms + a))) +
    ((List.range ms).countP fun a => sp (m * ms + a) == 1)

/-- `(nocc_min < 0).any() or (nocc_max > norb_per_mol).any()` for one molecule → `ValueError` -/
def noccOutOfRange (norb : Nat) (lo hi : Int) : Bool := decide (lo < 0) || decide ((norb : Int) < hi)

/-- RHF, one molecule: `nocc = n_charge // 2`, `ValueError` iff `n_charge % 2 == 1`
    (torch `//` and `%` on int64 are floor division / remainder with the sign of the divisor);
    then the range guard `0 <= nocc <= norb` -/
def noccRHF1 (n : Int) (norb : Nat) : Option Int :=
  if Int.fmod n 2 == 1 then none else
  let k := Int.fdiv n 2
  if noccOutOfRange norb k k then none else some k

/-- UHF, one molecule: `nocc_alpha = n/2.0 + (mult-1)/2.0`, `nocc_beta = n/2.0 - (mult-1)/2.0`,
    `ValueError` iff `nocc_alpha % 1 != 0` or `nocc_beta % 1 != 0`, then `.type(torch.int64)`
    (truncation), then the range guard on `min`/`max` of the two.  For an integer multiplicity the
    two floats are exact half-integers (`|n|, |mult| < 2^22` even in float32), so the model carries
    the doubled values `2·nocc_alpha = n + (mult-1)` and `2·nocc_beta = n - (mult-1)` as integers:
    the fractional part is non-zero iff the doubled value is odd, and the truncation is
    `Int.tdiv · 2`. -/
def noccUHF1 (n mult : Int) (norb : Nat) : Option (Int × Int) :=
  let twoA := n + (mult - 1)
  let twoB := n - (mult - 1)
  if Int.fmod twoA 2 != 0 || Int.fmod twoB 2 != 0 then none
  else
    let a := Int.tdiv twoA 2
    let b := Int.tdiv twoB 2
    if noccOutOfRange norb (min a b) (max a b) then none else some (a, b)

/-- all molecules of the batch: one failing molecule raises for the whole batch (`.any()`) -/
def allOrRaise {β : Type} : List (Option β) → Option (List β)
  | [] => some []
  | none :: _ => none
  | some x :: r => match allOrRaise r with
    | some xs => some (x :: xs)
    | none => none

/-- `nocc` of the batch, RHF (`none` = `ValueError`) -/
def noccRHF (nmol ms : Nat) (sp : Nat → Nat) (tore : Nat → Nat) (charge : Nat → Int) :
    Option (List Int) :=
  allOrRaise ((List.range nmol).map fun m => noccRHF1 (nCharge ms sp tore charge m) (norbAt ms sp m))

/-- `nocc` of the batch, UHF -/
def noccUHF (nmol ms : Nat) (sp : Nat → Nat) (tore : Nat → Nat) (charge : Nat → Int)
    (mult : Nat → Int) : Option (List (Int × Int)) :=
  allOrRaise ((List.range nmol).map fun m =>
    noccUHF1 (nCharge ms sp tore charge m) (mult m) (norbAt ms sp m))

/-! ## diagonal blocks -/

/-- `(t1 + t2).reshape(-1)[i]`, `t1[a] = a*(molsize+1)`, `t2[m] = m*molsize**2`, `i = m*molsize+a` -/
def maskdAt (ms i : Nat) : Nat := (i % ms) * (ms + 1) + (i / ms) * (ms * ms)

/-- `maskd = (t1 + t2).reshape(-1)[real_atoms]` -/
def maskd (nmol ms : Nat) (sp : Nat → Nat) : List Nat := (realAtoms nmol ms sp).map (maskdAt ms)

/-- `atom_molid = arange(nmol).unsqueeze(1).expand(-1, molsize).reshape(-1)[nonblank]` -/
def atomMolid (nmol ms : Nat) (sp : Nat → Nat) : List Nat := (realAtoms nmol ms sp).map (· / ms)

/-! ## pairs -/

/-- Boolean-mask selection over the flattened `(nmol, molsize, molsize)` index `t`:
    `mol = t / ms²`, `a = (t % ms²) / ms`, `b = t % ms`;
    `pair_first[t] = mol*ms + a`, `pair_second[t] = mol*ms + b`. -/
def flatPairs (nmol ms : Nat) (keep : Nat → Nat → Nat → Bool) : List (Nat × Nat) :=
  (List.range (nmol * (ms * ms))).filterMap fun t =>
    let mol := t / (ms * ms); let a := (t % (ms * ms)) / ms; let b := t % ms
    if keep mol a b then some (mol * ms + a, mol * ms + b) else none

/-- `pairs = (pair_first < pair_second) * nonblank_pairs * close_pairs` at `[mol, a, b]`;
    `nonblank_pairs[mol,a,b] = nonblank[mol,b] * nonblank[mol,a]` -/
def keepPair (ms : Nat) (sp : Nat → Nat) (close : Nat → Nat → Bool) (mol a b : Nat) : Bool :=
  decide (mol * ms + a < mol * ms + b) && (isReal sp (mol * ms + b) && isReal sp (mol * ms + a))
    && close (mol * ms + a) (mol * ms + b)

/-- `(pair_first[pairs], pair_second[pairs])` -/
def pairList (nmol ms : Nat) (sp : Nat → Nat) (close : Nat → Nat → Bool) : List (Nat × Nat) :=
  flatPairs nmol ms (keepPair ms sp close)

/-- `inv_real_atoms = zeros(nmol*molsize); inv_real_atoms[real_atoms] = arange(n_real_atoms)`:
    position in `real_atoms`, `0` for padding slots -/
def invReal (ra : List Nat) (i : Nat) : Nat := if ra.contains i then ra.idxOf i else 0

/-- all outputs of `Parser.forward(..., return_mask_l=True)` that are integers -/
structure Out where
  real : List Nat
  Z : List Nat
  nHeavy : List Nat
  nHydro : List Nat
  maskd : List Nat
  atomMolid : List Nat
  idxi : List Nat
  idxj : List Nat
  ni : List Nat
  nj : List Nat
  mask : List Nat
  maskL : List Nat
  pairMolid : List Nat
deriving Repr, DecidableEq

/-- `mask = real_atoms[idxi] * molsize + real_atoms[idxj] % molsize` for one pair -/
def maskOf (ms : Nat) (ra : List Nat) (ii jj : Nat) : Nat := ra.getD ii 0 * ms + ra.getD jj 0 % ms

/-- `Parser.forward` on the flat representation -/
def run (nmol ms : Nat) (sp : Nat → Nat) (close : Nat → Nat → Bool) : Out :=
  let ra := realAtoms nmol ms sp
  let Z := Zs nmol ms sp
  let amol := atomMolid nmol ms sp
  let pairs := pairList nmol ms sp close
  let idxi := pairs.map fun p => invReal ra p.1
  let idxj := pairs.map fun p => invReal ra p.2
  { real := ra, Z := Z, nHeavy := nHeavy nmol ms sp, nHydro := nHydro nmol ms sp,
    maskd := maskd nmol ms sp, atomMolid := amol, idxi := idxi, idxj := idxj,
    ni := idxi.map fun k => Z.getD k 0, nj := idxj.map fun k => Z.getD k 0,
    mask := List.zipWith (fun ii jj => maskOf ms ra ii jj) idxi idxj,
    maskL := List.zipWith (fun ii jj => maskOf ms ra jj ii) idxi idxj,
    pairMolid := idxi.map fun k => amol.getD k 0 }

/-- the flattened species array of a batch given as rows -/
def spOf (species : List (List Nat)) : Nat → Nat := fun i => species.flatten.getD i 0

/-- `nmol, molsize = molecule.species.shape` -/
def molsizeOf (species : List (List Nat)) : Nat := (species.head?.map List.length).getD 0

/-- `Parser.forward` for a batch given as `nmol` rows of `molsize` atomic numbers -/
def forward (species : List (List Nat)) (close : Nat → Nat → Bool) : Out :=
  run species.length (molsizeOf species) (spOf species) close

/-! ## driver -/

def showInts (xs : List Int) : String := ",".intercalate (xs.map toString)

def showOut (o : Out) : String :=
  "real=" ++ Util.showNats o.real ++ " Z=" ++ Util.showNats o.Z ++
  " nHeavy=" ++ Util.showNats o.nHeavy ++ " nHydro=" ++ Util.showNats o.nHydro ++
  " maskd=" ++ Util.showNats o.maskd ++ " atom_molid=" ++ Util.showNats o.atomMolid ++
  " idxi=" ++ Util.showNats o.idxi ++ " idxj=" ++ Util.showNats o.idxj ++
  " mask=" ++ Util.showNats o.mask ++ " mask_l=" ++ Util.showNats o.maskL ++
  " pair_molid=" ++ Util.showNats o.pairMolid ++
  " ni=" ++ Util.showNats o.ni ++ " nj=" ++ Util.showNats o.nj

/-- * `parser nmol molsize species[nmol*molsize] close[(nmol*molsize)^2]` — `close` is a 0/1 table,
      row-major, entry `(i, j)` for the flat atoms `i = pair_first`, `j = pair_second`.  Answer: one
      line `real=… Z=… nHeavy=… nHydro=… maskd=… atom_molid=… idxi=… idxj=… mask=… mask_l=…
      pair_molid=… ni=… nj=…` (comma separated integers, possibly empty, per section).
    * `nocc uhf(0/1) n_valence_electrons charge mult norb` (integers, `charge`/`mult` may be
      negative; `norb = 4*nHeavy + nHydro` of the molecule) → `nocc` (RHF), `nocc_alpha nocc_beta`
      (UHF) or `raise` (the Python raises `ValueError`: odd electron count / non-integer occupation,
      or `nocc` outside `0 … norb`). -/
def handle (toks : List String) : Option String :=
  match toks with
  | "parser" :: nmolS :: msS :: rest => do
    let nmol ← nmolS.toNat?
    let ms ← msS.toNat?
    let ns ← Util.natList? rest
    let n := nmol * ms
    if ns.length ≠ n + n * n then none else
    let spL := (ns.take n).toArray
    let clL := (ns.drop n).toArray
    let sp : Nat → Nat := fun i => spL.getD i 0
    let close : Nat → Nat → Bool := fun i j => clL.getD (i * n + j) 0 != 0
    pure (showOut (run nmol ms sp close))
  | ["nocc", uhfS, nS, cS, multS, norbS] => do
    let uhf ← uhfS.toNat?
    let nv ← nS.toNat?
    let c ← Util.intTok? cS
    let mult ← Util.intTok? multS
    let norb ← norbS.toNat?
    let n : Int := (nv : Int) - c
    if uhf = 0 then
      match noccRHF1 n norb with
      | some k => pure (toString k)
      | none => pure "raise"
    else
      match noccUHF1 n mult norb with
      | some (a, b) => pure (toString a ++ " " ++ toString b)
      | none => pure "raise"
  | _ => none
-- DRIVER-HANDLER: Parser.handle

end Parser
