import PyseqmVerif.Model.Util
/-!
# Control flow of the batched Davidson loop (core Lean only)

Mirrors the `while davidson_iter <= max_iter` loop of `seqm/seqm_functions/rcis_batch.py::rcis_batch`
(lines 97–223) with the numerical kernels abstracted: for every iteration and molecule the model is
*given*

* `resid` — `resid_norm[i, :]`, the ∞-norms (`torch.linalg.vector_norm(…, ord=inf)`) of the
  residuals of the `nroots` Ritz pairs (integers in an arbitrary unit; only `> root_tol` matters);
* `kept` — how many of the preconditioned residual vectors survive
  `orthogonalize_to_current_subspace` (norm after double projection `> vector_tol`
  `= root_tol·0.01·√nov`); at most one per unconverged root.

Per molecule the code keeps `vstart`, `vend`, `done`, `n_collapses`, `n_iters` and
`amplitude_store`; the model records, instead of the stored amplitudes, the residual norms they had
when they were stored, and whether they were stored by the empty-expansion exit
(`if vend[i] - vstart[i] == 0: done[i] = True; amplitude_store[i] = amplitudes[i]`).

For a molecule that is already `done`, `get_subspace_eig_batched` leaves `e_vec_n` zero, hence its
amplitudes and residuals are zero, `roots_not_converged` is all `False` and none of the masks
(`done_this_loop`, `collapse_mask`, `orthogonalize_mask`) selects it: `molStep` leaves it unchanged.
-/
namespace Davidson

structure Cfg where
  nroots : Nat
  nstart : Nat      -- size of the initial guess space (`vend` at entry)
  maxSub : Nat      -- `maxSubspacesize` (depends on free memory and batch size)
  nov : Nat
  maxIter : Nat     -- `excited_states["max_iter"]`, default 200
  tol : Nat         -- `root_tol`
deriving Repr, DecidableEq

structure MolData where
  resid : List Nat
  kept : Nat
deriving Repr, DecidableEq

structure MolState where
  vstart : Nat
  vend : Nat
  done : Bool := false
  nCollapses : Nat := 0
  nIters : Nat := 0
  stored : Option (List Nat) := none   -- residual norms of what went into `amplitude_store`
  viaEmpty : Bool := false             -- stored by the "no new vectors ⇒ done" exit
deriving Repr, DecidableEq

inductive Err where
  | insufficientMemory   -- collapse needed in the first iteration
  | maxIter              -- "Maximum iterations reached but roots have not converged"
  | badData              -- harness error: data row does not match the batch
deriving Repr, DecidableEq

structure State where
  iter : Nat               -- `davidson_iter`
  mols : List MolState
deriving Repr, DecidableEq

/-- one pass of the loop body for one molecule; `iter` is `davidson_iter` after its increment -/
def molStep (c : Cfg) (iter : Nat) (s : MolState) (d : MolData) : Except Err MolState :=
  if s.done then .ok s else
  -- n_iters[~done] = davidson_iter
  let s := { s with nIters := iter }
  -- roots_not_converged = resid_norm > root_tol;  mol_converged = roots_not_converged.sum() == 0
  let nNot := (d.resid.filter (c.tol < ·)).length
  if nNot = 0 then
    -- done_this_loop: done, n_iters, amplitude_store
    .ok { s with done := true, stored := some d.resid }
  else
    -- collapse_condition = (roots_not_converged.sum + vend > maxSubspacesize) & (maxSubspacesize != nov)
    let collapse := decide (nNot + s.vend > c.maxSub) && decide (c.maxSub ≠ c.nov)
    if collapse && iter == 1 then .error .insufficientMemory else
    let s := if collapse then { s with vstart := 0, vend := c.nroots, nCollapses := s.nCollapses + 1 } else s
    -- orthogonalize_mask = ~done & ~mol_converged
    let kept := min d.kept nNot
    let s := { s with vstart := s.vend, vend := s.vend + kept }
    -- if vend[i] - vstart[i] == 0: done
    if kept = 0 then .ok { s with done := true, stored := some d.resid, viaEmpty := true }
    else .ok s

def molSteps (c : Cfg) (iter : Nat) : List MolState → List MolData → Except Err (List MolState)
  | [], [] => .ok []
  | s :: ss, d :: ds =>
    match molStep c iter s d with
    | .error e => .error e
    | .ok s' => match molSteps c iter ss ds with
      | .error e => .error e
      | .ok ss' => .ok (s' :: ss')
  | _, _ => .error .badData

inductive Outcome where
  | returned (st : State)             -- `break` on `torch.all(done)`: the function returns
  | raised (e : Err) (st : State)     -- an exception leaves the loop
  | fellThrough (st : State)          -- the `while` condition became false (never happens)
  | outOfData (st : State)            -- harness error: not enough iteration data supplied
deriving Repr, DecidableEq

/-- the loop; `data` = kernel results per iteration -/
def run (c : Cfg) : State → List (List MolData) → Outcome
  | st, [] => if st.iter ≤ c.maxIter then .outOfData st else .fellThrough st
  | st, d :: ds =>
    if st.iter ≤ c.maxIter then
      let iter := st.iter + 1                     -- davidson_iter = davidson_iter + 1
      match molSteps c iter st.mols d with
      | .error e => .raised e { st with iter := iter }
      | .ok ms =>
        let st' : State := { iter := iter, mols := ms }
        if ms.all (·.done) then .returned st'     -- if torch.all(done): break
        else if iter > c.maxIter then .raised .maxIter st'   -- if davidson_iter > max_iter: raise
        else run c st' ds
    else .fellThrough st

def init (c : Cfg) (nmol : Nat) : State :=
  { iter := 0, mols := List.replicate nmol { vstart := 0, vend := c.nstart } }

/-! ## driver -/

def parseMolData (nroots : Nat) : Nat → List Nat → Option (List MolData × List Nat)
  | 0, rest => some ([], rest)
  | n+1, k :: rest =>
    if rest.length < nroots then none else do
      let (ds, r) ← parseMolData nroots n (rest.drop nroots)
      pure ({ resid := rest.take nroots, kept := k } :: ds, r)
  | _, _ => none

def parseIters (nroots nmol : Nat) : Nat → List Nat → Option (List (List MolData))
  | 0, [] => some []
  | n+1, rest => do
    let (row, r) ← parseMolData nroots nmol rest
    let rows ← parseIters nroots nmol n r
    pure (row :: rows)
  | _, _ => none

def showMol (s : MolState) : String :=
  s!"{if s.done then 1 else 0},{s.vstart},{s.vend},{s.nCollapses},{s.nIters},{if s.viaEmpty then 1 else 0}"

def showOutcome : Outcome → String
  | .returned st => s!"returned {st.iter} " ++ " ".intercalate (st.mols.map showMol)
  | .raised e st =>
    (match e with | .insufficientMemory => "nomem" | .maxIter => "maxiter" | .badData => "baddata") ++
    s!" {st.iter} " ++ " ".intercalate (st.mols.map showMol)
  | .fellThrough st => s!"fellthrough {st.iter}"
  | .outOfData st => s!"nodata {st.iter}"

/-- `davidson nmol nroots nstart maxSub nov maxIter tol niter {kept r_1 … r_nroots}*(niter*nmol)`
    (decimal naturals; iteration-major, then molecule; `r_k` and `tol` in the same integer unit)
    → `returned|maxiter|nomem|baddata iter {done,vstart,vend,ncollapses,niters,viaEmpty}*nmol`
      or `nodata iter` / `fellthrough iter`. -/
def handle (toks : List String) : Option String :=
  match toks with
  | "davidson" :: rest => do
    let ns ← Util.natList? rest
    match ns with
    | nmol :: nroots :: nstart :: maxSub :: nov :: maxIter :: tol :: niter :: more =>
      let c : Cfg := { nroots, nstart, maxSub, nov, maxIter, tol }
      let data ← parseIters nroots nmol niter more
      pure (showOutcome (run c (init c nmol) data))
    | _ => none
  | _ => none
-- DRIVER-HANDLER: Davidson.handle

end Davidson
