import PyseqmVerif.Model.Util
/-!
# Local-frame rotation from a quaternion (core Lean only, scalar-polymorphic)

Mirrors `seqm/seqm_functions/two_elec_two_center_int.py`, `rotate_with_quaternion(v, calculate_gradient)`
(lines 1576–1703), for ONE unit vector `v = (vx, vy, vz)`:

```
u = (0, v_z, -v_y) ; w_ = 1.0 + v_x ; q_raw = (u_x, u_y, u_z, w_)
mask = |w_| < eps                      # eps = 1e-7 (float64), 5e-4 (float32)
q_raw[mask] = (0, 0, 1, 0)             # antipodal branch
N = norm(q_raw) ; q = q_raw / N ; (qx, qy, qz, qw) = q
rot[0,0] = 1 - 2*(qy*qy + qz*qz) ; rot[0,1] = -2*(qz*qw) ; rot[0,2] = 2*(qy*qw)
rot[1,0] = 2*(qz*qw) ; rot[1,1] = 1 - 2*(qz*qz) ; rot[1,2] = 2*(qy*qz)
rot[2,0] = -2*(qy*qw) ; rot[2,1] = 2*(qy*qz) ; rot[2,2] = 1 - 2*(qy*qy)
```
and, for `calculate_gradient=True`, the chain rule `dRdv = einsum('nijd,ndk->nkij', dr_dq, dq_dv)`.

In `w_withquaternion` the function is called with `v = -xij`, `xij = (x_j - x_i)/|x_j - x_i|`; the rows
`rot[0], rot[1], rot[2]` are the local axes (row 0 is meant to be `v`).

`sqrt` and `abs` are parameters (`Float.sqrt`/`Float.abs` in the driver, `Real.sqrt`/`|·|` in theorems).
`torch.norm` is modelled as `sqrt` of the sequential sum of squares (agreement with torch to ≤ 1 ulp
of the sum, not necessarily bitwise).

`rotqTwoChart` is NOT the code: it is the model of the repair drafted in DESIGN Appendix C.12
(second chart for `v_x < 0`); it has no driver operation.
-/
namespace Rotation

/-- a 3×3 matrix, row-major field names `r<i><j>` = `rot[i, j]` -/
structure M3 (α : Type) where
  r00 : α
  r01 : α
  r02 : α
  r10 : α
  r11 : α
  r12 : α
  r20 : α
  r21 : α
  r22 : α
deriving Repr

def M3.toList {α : Type} (R : M3 α) : List α :=
  [R.r00, R.r01, R.r02, R.r10, R.r11, R.r12, R.r20, R.r21, R.r22]

/-- `rot[i, j]` (indices ≥ 2 read the last row / column) -/
def M3.get {α : Type} (R : M3 α) (i j : Nat) : α :=
  match i, j with
  | 0, 0 => R.r00
  | 0, 1 => R.r01
  | 0, _ => R.r02
  | 1, 0 => R.r10
  | 1, 1 => R.r11
  | 1, _ => R.r12
  | _, 0 => R.r20
  | _, 1 => R.r21
  | _, _ => R.r22

/-- the raw / normalised quaternion `(qx, qy, qz, qw)` -/
structure Quat (α : Type) where
  qx : α
  qy : α
  qz : α
  qw : α
deriving Repr

section
variable {α : Type} [Add α] [Sub α] [Mul α] [Div α] [Neg α]
  [OfNat α 0] [OfNat α 1] [OfNat α 2] [OfNat α 4] [OfScientific α] [LT α] [DecidableLT α]

/-- `eps` for `torch.float64` -/
def eps64 : α := 1.0e-7

/-- `mask = torch.abs(w_) < eps` with `w_ = 1.0 + v[...,0]` -/
def inAntipodal (abs : α → α) (eps vx : α) : Bool := decide (abs (1.0 + vx) < eps)

/-- `q_raw` after the masked overwrite -/
def qRaw (abs : α → α) (eps vx vy vz : α) : Quat α :=
  if inAntipodal abs eps vx then { qx := 0.0, qy := 0.0, qz := 1.0, qw := 0.0 }
  else { qx := 0, qy := vz, qz := -vy, qw := 1.0 + vx }

/-- `torch.norm(q_raw, dim=-1)` -/
def qNorm (sqrt : α → α) (q : Quat α) : α :=
  sqrt (q.qx * q.qx + q.qy * q.qy + q.qz * q.qz + q.qw * q.qw)

/-- the nine entries as functions of the normalised quaternion (`qx` is ignored by the code) -/
def rotOfQ (qy qz qw : α) : M3 α :=
  { r00 := 1 - 2 * (qy*qy + qz*qz), r01 := -2 * (qz*qw), r02 := 2 * (qy*qw),
    r10 := 2 * (qz*qw), r11 := 1 - 2 * (qz*qz), r12 := 2 * (qy*qz),
    r20 := -2 * (qy*qw), r21 := 2 * (qy*qz), r22 := 1 - 2 * (qy*qy) }

/-- `rotate_with_quaternion(v)` for one vector -/
def rotq (sqrt abs : α → α) (eps vx vy vz : α) : M3 α :=
  let q := qRaw abs eps vx vy vz
  let N := qNorm sqrt q
  rotOfQ (q.qy / N) (q.qz / N) (q.qw / N)

/-! ### gradient `dRdv[k, i, j] = ∂ rot[i, j] / ∂ v_k` -/

/-- `dq_raw_dv[i, j]` (4×3) before masking -/
def dqRawDvBase (i j : Nat) : α :=
  match i, j with
  | 1, 2 => 1.0
  | 2, 1 => -1.0
  | 3, 0 => 1.0
  | _, _ => 0

/-- `dq_raw_dv * (~mask)` -/
def dqRawDv (mask : Bool) (i j : Nat) : α :=
  dqRawDvBase i j * (if mask then (0 : α) else 1)

def Quat.get (q : Quat α) (i : Nat) : α :=
  match i with
  | 0 => q.qx
  | 1 => q.qy
  | 2 => q.qz
  | _ => q.qw

/-- `dN_dv[j] = (q_raw.unsqueeze(-1) * dq_raw_dv).sum(dim=1) / N` -/
def dNdv (mask : Bool) (qr : Quat α) (N : α) (j : Nat) : α :=
  (qr.get 0 * dqRawDv mask 0 j + qr.get 1 * dqRawDv mask 1 j + qr.get 2 * dqRawDv mask 2 j
    + qr.get 3 * dqRawDv mask 3 j) / N

/-- `dq_dv[i, j] = (dq_raw_dv * N - q_raw * dN_dv) / N**2` -/
def dqdv (mask : Bool) (qr : Quat α) (N : α) (i j : Nat) : α :=
  (dqRawDv mask i j * N - qr.get i * dNdv mask qr N j) / (N * N)

/-- `dr_dq[i, j, d]` (3×3×4); the entries the code leaves at zero (all those proportional to `qx`) are 0 -/
def drdq (qy qz qw : α) (i j d : Nat) : α :=
  match i, j, d with
  | 0, 0, 1 => -4 * qy
  | 0, 0, 2 => -4 * qz
  | 0, 1, 0 => 2 * qy
  | 0, 1, 2 => -2 * qw
  | 0, 1, 3 => -2 * qz
  | 0, 2, 0 => 2 * qz
  | 0, 2, 1 => 2 * qw
  | 0, 2, 3 => 2 * qy
  | 1, 0, 0 => 2 * qy
  | 1, 0, 2 => 2 * qw
  | 1, 0, 3 => 2 * qz
  | 1, 1, 2 => -4 * qz
  | 1, 2, 0 => -2 * qw
  | 1, 2, 1 => 2 * qz
  | 1, 2, 2 => 2 * qy
  | 2, 0, 0 => 2 * qz
  | 2, 0, 1 => -2 * qw
  | 2, 0, 3 => -2 * qy
  | 2, 1, 0 => 2 * qw
  | 2, 1, 1 => 2 * qz
  | 2, 1, 2 => 2 * qy
  | 2, 2, 1 => -4 * qy
  | _, _, _ => 0

/-- `dRdv[k, i, j] = Σ_d dr_dq[i, j, d] * dq_dv[d, k]` (`einsum('nijd,ndk->nkij')`, sequential in `d`) -/
def rotqGrad (sqrt abs : α → α) (eps vx vy vz : α) (k i j : Nat) : α :=
  let mask := inAntipodal abs eps vx
  let qr := qRaw abs eps vx vy vz
  let N := qNorm sqrt qr
  let qy := qr.qy / N
  let qz := qr.qz / N
  let qw := qr.qw / N
  drdq qy qz qw i j 0 * dqdv mask qr N 0 k + drdq qy qz qw i j 1 * dqdv mask qr N 1 k
    + drdq qy qz qw i j 2 * dqdv mask qr N 2 k + drdq qy qz qw i j 3 * dqdv mask qr N 3 k

/-- the 27 entries in the memory order of the returned tensor `dRdv[n, k, i, j]` (k slowest, j fastest) -/
def rotqGradList (sqrt abs : α → α) (eps vx vy vz : α) : List α :=
  (List.range 3).flatMap fun k => (List.range 3).flatMap fun i => (List.range 3).map fun j =>
    rotqGrad sqrt abs eps vx vy vz k i j

/-! ### rotation of the 22 local-frame integrals to the molecular frame

`w_withquaternion` (`two_elec_two_center_int.py:1384–1527`), heavy–heavy (`XX`) pairs: `ri` are the 22
local-frame integrals, `r0 r1 r2` the rows of `rot = rotate_with_quaternion(-xij)`; orbital index `0 = s`,
`1,2,3 = p_x,p_y,p_z` (Cartesian component `kk - 1`). -/

/-- one element `(kk ll | mm nn)`, dispatch and formulas exactly as in the loop body -/
def wElem (ri : Nat → α) (r0 r1 r2 : Nat → α) (kk ll mm nn : Nat) : α :=
  let k := kk - 1
  let l := ll - 1
  let m := mm - 1
  let n := nn - 1
  if kk = 0 then
    if mm = 0 then ri 0
    else if nn = 0 then ri 4 * r0 m
    else ri 10 * (r0 m * r0 n) + ri 11 * (r1 m * r1 n + r2 m * r2 n)
  else if ll = 0 then
    if mm = 0 then ri 1 * r0 k
    else if nn = 0 then ri 5 * (r0 k * r0 m) + ri 6 * (r1 k * r1 m + r2 k * r2 m)
    else
      ri 12 * (r0 k * r0 m * r0 n) + ri 13 * ((r1 m * r1 n + r2 m * r2 n) * r0 k)
        + ri 14 * (r1 k * (r1 n * r0 m + r1 m * r0 n) + r2 k * (r2 m * r0 n + r2 n * r0 m))
  else
    if mm = 0 then ri 2 * (r0 k * r0 l) + ri 3 * (r1 k * r1 l + r2 k * r2 l)
    else if nn = 0 then
      ri 7 * (r0 k * r0 l * r0 m) + ri 8 * ((r1 k * r1 l + r2 k * r2 l) * r0 m)
        + ri 9 * (r0 k * (r1 l * r1 m + r2 l * r2 m) + r0 l * (r1 k * r1 m + r2 k * r2 m))
    else
      ri 15 * (r0 k * r0 l * r0 m * r0 n)
      + ri 16 * ((r1 k * r1 l + r2 k * r2 l) * r0 m * r0 n)
      + ri 17 * ((r1 m * r1 n + r2 m * r2 n) * (r0 k * r0 l))
      + ri 18 * (r1 k * r1 l * r1 m * r1 n + r2 k * r2 l * r2 m * r2 n)
      + ri 19 * (r0 k * (r0 m * (r1 l * r1 n + r2 l * r2 n) + r0 n * (r1 l * r1 m + r2 l * r2 m))
          + r0 l * (r0 m * (r1 k * r1 n + r2 k * r2 n) + r0 n * (r1 k * r1 m + r2 k * r2 m)))
      + ri 20 * (r1 k * r1 l * r2 m * r2 n + r2 k * r2 l * r1 m * r1 n)
      + ri 21 * ((r1 k * r2 l + r2 k * r1 l) * (r1 m * r2 n + r2 m * r1 n))

/-- the index combinations in the order of `combos` (`idx` = position) -/
def combos : List (Nat × Nat × Nat × Nat) :=
  (List.range 4).flatMap fun kk => (List.range (kk + 1)).flatMap fun ll =>
    (List.range 4).flatMap fun mm => (List.range (mm + 1)).map fun nn => (kk, ll, mm, nn)

def M3.row {α : Type} (R : M3 α) (i : Nat) (c : Nat) : α := R.get i c

/-- the 100 entries `w[pair, :]` of an `XX` pair -/
def wRot (ri : Nat → α) (R : M3 α) : List α :=
  combos.map fun (kk, ll, mm, nn) => wElem ri (R.row 0) (R.row 1) (R.row 2) kk ll mm nn

/-! ### pair geometry (`seqm/basics.py:743–746`, `_refresh_md_geometry`; same in `Parser`) -/

/-- `paircoord = xyz[idxj] - xyz[idxi]` (one pair; vectors as component triples) -/
def pairVec (xi xj : α × α × α) : α × α × α :=
  (xj.1 - xi.1, xj.2.1 - xi.2.1, xj.2.2 - xi.2.2)

/-- `pairdist = torch.linalg.norm(paircoord, dim=1)` -/
def pairDist (sqrt : α → α) (d : α × α × α) : α :=
  sqrt (d.1 * d.1 + d.2.1 * d.2.1 + d.2.2 * d.2.2)

/-- `xij = paircoord / pairdist.unsqueeze(1)` -/
def pairUnit (sqrt : α → α) (d : α × α × α) : α × α × α :=
  (d.1 / pairDist sqrt d, d.2.1 / pairDist sqrt d, d.2.2 / pairDist sqrt d)

/-! ### the repaired two-chart rotation (DESIGN Appendix C.12 — NOT the code in /repo) -/

/-- `flip = v_x < 0; F = (sgn, sgn, 1); R(v) = R_regular(v ∘ F) · diag(F)` (columns scaled by `F`) -/
def rotqTwoChart (sqrt abs : α → α) (eps vx vy vz : α) : M3 α :=
  let sgn : α := if vx < 0 then -1 else 1
  let R := rotq sqrt abs eps (vx * sgn) (vy * sgn) (vz * 1)
  { r00 := R.r00 * sgn, r01 := R.r01 * sgn, r02 := R.r02 * 1,
    r10 := R.r10 * sgn, r11 := R.r11 * sgn, r12 := R.r12 * 1,
    r20 := R.r20 * sgn, r21 := R.r21 * sgn, r22 := R.r22 * 1 }

end

/-! ## driver -/

/-- * `rotq vx vy vz` → the 9 floats `rot[0,0] rot[0,1] rot[0,2] rot[1,0] … rot[2,2]` (row-major) of
      `rotate_with_quaternion(v)` for the float64 input `v = [[vx, vy, vz]]` (`eps = 1e-7`).
    * `rotq_grad vx vy vz` → the 27 floats of `rotate_with_quaternion(v, True)[1][0]` in memory order
      `dRdv[k, i, j]`, `k` slowest (`.reshape(-1)` of the `(3,3,3)` block): entry `9k + 3i + j` is
      `∂ rot[i, j] / ∂ v_k`.
    * `wrot xij_x xij_y xij_z ri[22]` → the 100 floats `w[pair, :]` that `w_withquaternion` produces for a
      heavy–heavy pair with unit vector `xij` and local-frame integrals `ri` (frame = `rotq(-xij)`).
    * `pairgeom xi yi zi xj yj zj` → `pairdist xij_x xij_y xij_z` (Å, unit vector `(x_j − x_i)/|x_j − x_i|`).
    All floats are IEEE-754 bit patterns in decimal. -/
def handle (toks : List String) : Option String :=
  match toks with
  | ["rotq", a, b, c] => do
    let vx ← Util.floatTok? a
    let vy ← Util.floatTok? b
    let vz ← Util.floatTok? c
    pure (Util.showFloats (rotq Float.sqrt Float.abs (eps64 : Float) vx vy vz).toList)
  | ["rotq_grad", a, b, c] => do
    let vx ← Util.floatTok? a
    let vy ← Util.floatTok? b
    let vz ← Util.floatTok? c
    pure (Util.showFloats (rotqGradList Float.sqrt Float.abs (eps64 : Float) vx vy vz))
  | "wrot" :: a :: b :: c :: rest => do
    let x ← Util.floatTok? a
    let y ← Util.floatTok? b
    let z ← Util.floatTok? c
    if rest.length ≠ 22 then none
    let ri ← Util.floatList? rest
    let R := rotq Float.sqrt Float.abs (eps64 : Float) (-x) (-y) (-z)
    pure (Util.showFloats (wRot (fun i => ri.getD i 0) R))
  | ["pairgeom", a, b, c, d, e, f] => do
    let xi ← Util.floatList? [a, b, c]
    let xj ← Util.floatList? [d, e, f]
    match xi, xj with
    | [a, b, c], [d, e, f] =>
      let dv := pairVec (a, b, c) (d, e, f)
      let u := pairUnit Float.sqrt dv
      pure (Util.showFloats [pairDist Float.sqrt dv, u.1, u.2.1, u.2.2])
    | _, _ => none
  | _ => none
-- DRIVER-HANDLER: Rotation.handle

end Rotation
