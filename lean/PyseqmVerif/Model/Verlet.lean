import PyseqmVerif.Model.Util
/-!
# Velocity Verlet, kinetic energy and temperature (core Lean only, scalar-polymorphic)

Mirrors `seqm/MolecularDynamics.py`:
* `Molecular_Dynamics_Basic.one_step`
  ```
  v += 0.5 * acc * dt ; x += v * dt ; <force call> ; acc = force * mass_inverse * ACC_SCALE ; v += 0.5 * acc * dt
  ```
* `Molecular_Dynamics_Basic._kinetic_energy`  `torch.sum(0.5 * mass * v**2, dim=(1,2)) * KINETIC_ENERGY_SCALE`
* `Molecular_Dynamics_Basic._calc_temperature`  `kinetic_energy * TEMPERATURE_SCALE / (0.5 * n_dof)`

Layout: one molecule, arrays flattened to `List α` of length `3 N` (`[x0,y0,z0,x1,…]`); `mass` and
`mass_inverse` (shape `(N,1)` in torch, broadcast over the 3 components) are replicated per
component.  Padding atoms have `mass = 0` and `mass_inverse = 0`.
The unit constants (`ACC_SCALE`, …) are arguments: the driver is handed the live float values, the
theorems use `Generated.Constants`.
The force engine is a function parameter `force : List α → List α` (coordinates ↦ forces).
Floating point operation order is that of the Python expressions (`0.5 * acc * dt = (0.5*acc)*dt`,
`force * mass_inverse * ACC = (force*mass_inverse)*ACC`); `torch.sum` is modelled as a sequential
left fold starting from 0 (torch's own reduction order is blocked/vectorised: agreement of the sum
is to a few ulp, not bitwise).
-/
namespace Verlet

/-- sequential sum, `((0 + l₀) + l₁) + …` -/
def lsum {α : Type} [Add α] [OfNat α 0] (l : List α) : α := l.foldl (· + ·) 0

/-- phase-space point plus the stored acceleration `molecule.acc` -/
structure State (α : Type) where
  x : List α
  v : List α
  a : List α
deriving Repr

section
variable {α : Type} [Add α] [Mul α] [OfScientific α]

/-- `v.add_(0.5 * acc * dt)` -/
def halfKick (dt : α) (v a : List α) : List α :=
  List.zipWith (fun vi ai => vi + 0.5 * ai * dt) v a

/-- `x.add_(v * dt)` -/
def drift (dt : α) (x v : List α) : List α :=
  List.zipWith (fun xi vi => xi + vi * dt) x v

/-- `acc = force * mass_inverse * ACC_SCALE` -/
def accel (accScale : α) (f minv : List α) : List α :=
  List.zipWith (fun fi mi => fi * mi * accScale) f minv

/-- `Molecular_Dynamics_Basic.one_step` -/
def vvStep (force : List α → List α) (accScale dt : α) (minv : List α) (s : State α) : State α :=
  let v1 := halfKick dt s.v s.a
  let x1 := drift dt s.x v1
  let f := force x1
  let a1 := accel accScale f minv
  let v2 := halfKick dt v1 a1
  { x := x1, v := v2, a := a1 }

/-- `k` consecutive `one_step`s -/
def vvRun (force : List α → List α) (accScale dt : α) (minv : List α) : Nat → State α → State α
  | 0, s => s
  | k+1, s => vvStep force accScale dt minv (vvRun force accScale dt minv k s)

/-- `_kinetic_energy`: `torch.sum(0.5 * mass * v**2) * KINETIC_ENERGY_SCALE` (`v**2` is `v*v` in torch) -/
def kineticEnergy [OfNat α 0] (kes : α) (m v : List α) : α :=
  lsum (List.zipWith (fun mi vi => 0.5 * mi * (vi * vi)) m v) * kes

/-- `_calc_temperature`: `kinetic_energy * TEMPERATURE_SCALE / (0.5 * n_dof)` -/
def temperature [Div α] (ek ts ndof : α) : α := ek * ts / (0.5 * ndof)

end

/-! ## driver -/

/-- split a token list into `k` float blocks of length `n` (exactly) -/
def blocks? (n : Nat) : Nat → List String → Option (List (List Float))
  | 0, [] => some []
  | 0, _ :: _ => none
  | k+1, toks =>
    if toks.length < n then none else do
      let b ← Util.floatList? (toks.take n)
      let r ← blocks? n k (toks.drop n)
      pure (b :: r)

/-- Operations (floats as decimal IEEE-754 bit patterns, `n` decimal):
* `vvstep dt accScale n x[n] v[n] a[n] fnew[n] minv[n]` → `x'[n] v'[n] a'[n]`
  (`fnew` = force returned by the engine at the drifted coordinates, recorded by the caller)
* `kinetic kes n m[n] v[n]` → `Ek`
* `temperature ek ts ndof` → `T` -/
def handle (toks : List String) : Option String :=
  match toks with
  | "vvstep" :: dt :: acc :: n :: rest => do
    let dt ← Util.floatTok? dt
    let acc ← Util.floatTok? acc
    let n ← n.toNat?
    match ← blocks? n 5 rest with
    | [x, v, a, fnew, minv] =>
      let s := vvStep (fun _ => fnew) acc dt minv { x := x, v := v, a := a }
      pure (Util.showFloats (s.x ++ s.v ++ s.a))
    | _ => none
  | "kinetic" :: kes :: n :: rest => do
    let kes ← Util.floatTok? kes
    let n ← n.toNat?
    match ← blocks? n 2 rest with
    | [m, v] => pure (Util.showFloat (kineticEnergy kes m v))
    | _ => none
  | ["temperature", ek, ts, ndof] => do
    let ek ← Util.floatTok? ek
    let ts ← Util.floatTok? ts
    let ndof ← Util.floatTok? ndof
    pure (Util.showFloat (temperature ek ts ndof))
  | _ => none
-- DRIVER-HANDLER: Verlet.handle

end Verlet
