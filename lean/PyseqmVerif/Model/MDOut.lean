import PyseqmVerif.Model.Util
/-!
# Output scheduling, checkpointing and crash/resume of the MD run loop (core Lean only)

Mirrors `seqm/MolecularDynamics.py`: `OutputConfig.from_dict`, `HDF5Writer._n_timepoints`,
`HDF5Writer.open/_open_resume/append_data/append_vectors`, `XYZWriter`, the output part of
`Molecular_Dynamics_Basic.initialize/run`, `_flush_all`, `_atomic_save_checkpoint`,
`run_from_checkpoint`.

The dynamics itself is deterministic given the checkpointed state (phase space, RNG state,
density/history buffers), so the record stored for step `s` is a function of `s` alone; the model
stores the step label `s` for "the record of step s".  A row that was never written reads as
`none` (HDF5 fill value 0).

Streams are independent machines:
* an HDF5 stream with cadence `e`: pre-allocated rows, a cursor, `cursor := o / e + 1` on resume;
* the XYZ file: append-only frames behind a user-space buffer, truncated on resume to the size
  recorded in the checkpoint;
* the checkpoint cell: replaced atomically after everything was flushed;
* the screen: one line per due step (no line for step 0).
-/
namespace MDOut

/-! ## one HDF5 stream -/

/-- `HDF5Writer._n_timepoints(steps, stride, include_initial=True)` -/
def cap (e N : Nat) : Nat := if e = 0 then 0 else (N + e) / e

structure SW where
  rows : List (Option Nat)
  cur  : Nat
deriving Repr, DecidableEq

/-- write the record of step `s` at the cursor (capacity guard `i < Tw` as in `append_vectors`) -/
def SW.write (w : SW) (s : Nat) : SW :=
  if w.cur < w.rows.length then { rows := w.rows.set w.cur (some s), cur := w.cur + 1 } else w

/-- per-stream modulo test (`stride > 0 and step % stride == 0`) -/
def isDue (e s : Nat) : Bool := decide (0 < e) && (s % e == 0)

def SW.step (e : Nat) (w : SW) (s : Nat) : SW := if isDue e s then w.write s else w

/-- `_create_new`: allocate, cursor 0; `initialize` then writes the step-0 snapshot -/
def openFresh (e N : Nat) : SW := SW.step e { rows := List.replicate (cap e N) none, cur := 0 } 0

/-- `_open_resume`: keep what is on disk, recompute the cursor from the absolute step -/
def openResume (e o : Nat) (disk : List (Option Nat)) : SW :=
  { rows := disk, cur := if e = 0 then 0 else o / e + 1 }

/-- steps `o+1 … o+k` of the run loop, for this stream -/
def runSteps (e o : Nat) : Nat → SW → SW
  | 0, w => w
  | k+1, w => SW.step e (runSteps e o k w) (o + k + 1)

/-- the specification: the initial snapshot plus every multiple of the cadence up to `N` -/
def due (e N : Nat) : List Nat := (List.range (N+1)).filter (isDue e)

/-! ## the whole output state -/

/-- the four HDF5 streams `/data`, `/coordinates`, `/velocities`, `/forces` -/
structure Quad (α : Type) where
  data : α
  coords : α
  vels : α
  forces : α
deriving Repr, DecidableEq

def Quad.map {α β} (f : α → β) (q : Quad α) : Quad β :=
  { data := f q.data, coords := f q.coords, vels := f q.vels, forces := f q.forces }

def Quad.zipWith {α β γ} (f : α → β → γ) (a : Quad α) (b : Quad β) : Quad γ :=
  { data := f a.data b.data, coords := f a.coords b.coords, vels := f a.vels b.vels, forces := f a.forces b.forces }

def Quad.All {α} (P : α → Prop) (q : Quad α) : Prop := P q.data ∧ P q.coords ∧ P q.vels ∧ P q.forces

def Quad.toList {α} (q : Quad α) : List α := [q.data, q.coords, q.vels, q.forces]

structure Cfg where
  h5 : Quad Nat       -- cadences of the four HDF5 streams
  xyz : Nat
  print : Nat
  ckpt : Nat
  steps : Nat
deriving Repr, DecidableEq

abbrev Rows := List (Option Nat)

/-- durable state -/
structure Disk where
  h5 : Quad Rows
  xyz : List Nat                      -- frame labels, file order
  ckpt : Option (Nat × Nat)           -- (step_done, number of xyz frames on disk at that time)
deriving Repr, DecidableEq

/-- a running process -/
structure Proc where
  h5 : Quad SW                        -- in-memory view of the four streams
  h5Flushed : Quad Rows               -- as of the last flush
  xyz : List Nat                      -- everything written through the file object
  xyzFlushed : Nat                    -- number of frames that reached the file
  ckpt : Option (Nat × Nat)
  screen : List Nat
deriving Repr

def startFresh (c : Cfg) : Proc :=
  { h5 := c.h5.map (fun e => openFresh e c.steps)
    h5Flushed := c.h5.map (fun e => List.replicate (cap e c.steps) none)
    xyz := if 0 < c.xyz then [0] else [], xyzFlushed := 0, ckpt := none, screen := [] }

/-- resume from the checkpoint `(o, nx)`: cursors from `o`; the XYZ file is cut back to `nx` frames -/
def startResume (c : Cfg) (d : Disk) (o nx : Nat) : Proc :=
  { h5 := Quad.zipWith (fun e rows => openResume e o rows) c.h5 d.h5
    h5Flushed := d.h5, xyz := d.xyz.take nx, xyzFlushed := min nx d.xyz.length, ckpt := d.ckpt, screen := [] }

def Proc.flush (p : Proc) : Proc :=
  { p with h5Flushed := p.h5.map (·.rows), xyzFlushed := p.xyz.length }

/-- actions of step `s` in code order; `upto` = number of actions executed (7 = the whole step):
    0 screen, 1 append_data, 2 append_vectors, 3 xyz, 4 flush, 5 checkpoint temp file, 6 os.replace -/
def stepActs (c : Cfg) (s : Nat) (upto : Nat) (p : Proc) : Proc :=
  let p := if 0 < upto && isDue c.print s then { p with screen := p.screen ++ [s] } else p
  let p := if 1 < upto then { p with h5 := { p.h5 with data := SW.step c.h5.data p.h5.data s } } else p
  let p := if 2 < upto then { p with h5 := { p.h5 with
              coords := SW.step c.h5.coords p.h5.coords s
              vels := SW.step c.h5.vels p.h5.vels s
              forces := SW.step c.h5.forces p.h5.forces s } } else p
  let p := if 3 < upto && isDue c.xyz s then { p with xyz := p.xyz ++ [s] } else p
  let p := if 4 < upto && isDue c.ckpt s then p.flush else p
  let p := if 6 < upto && isDue c.ckpt s then { p with ckpt := some (s, p.xyz.length) } else p
  p

/-- complete steps `o+1 … o+k` -/
def runTo (c : Cfg) (o : Nat) : Nat → Proc → Proc
  | 0, p => p
  | k+1, p => stepActs c (o + k + 1) 7 (runTo c o k p)

/-- keep-or-lose merge for a hard kill: bit `i` of `mask` decides whether an unflushed change to
    row `i` reached the disk -/
def mergeRows (mask : Nat) (flushed mem : Rows) : Rows :=
  (List.zipWith (fun a b => (a, b)) flushed mem).zipIdx.map
    (fun ((a, b), i) => if mask.testBit i then b else a)

/-- normal end / exception: `finally` closes (and thereby flushes) both writers -/
def Proc.closeSoft (p : Proc) : Disk :=
  { h5 := p.h5.map (·.rows), xyz := p.xyz, ckpt := p.ckpt }

/-- SIGKILL: unflushed HDF5 rows survive or not (mask), of the buffered XYZ frames a prefix
    of `mask % (pending+1)` frames survives -/
def Proc.closeHard (p : Proc) (mask : Nat) : Disk :=
  { h5 := Quad.zipWith (fun f w => mergeRows mask f w.rows) p.h5Flushed p.h5
    xyz := p.xyz.take (p.xyzFlushed + mask % (p.xyz.length - p.xyzFlushed + 1))
    ckpt := p.ckpt }

structure Crash where
  step : Nat      -- crash while processing step `step` (label, 1-based)
  upto : Nat      -- actions of that step already executed (0 … 7)
  hard : Bool
  mask : Nat
deriving Repr

/-- start the next process: resume if a checkpoint exists, otherwise start over (old files are
    rotated away by `_rotate_existing`) -/
def start (c : Cfg) (d : Option Disk) : Proc × Nat :=
  match d with
  | some dk => match dk.ckpt with
    | some (o, nx) => (startResume c dk o nx, o)
    | none => (startFresh c, 0)
  | none => (startFresh c, 0)

/-- run one process until the crash (or to the end when the crash lies outside the remaining run) -/
def segment (c : Cfg) (d : Option Disk) (cr : Option Crash) : Disk × List Nat :=
  let (p, o) := start c d
  match cr with
  | some k =>
    if o < k.step ∧ k.step ≤ c.steps then
      let p := runTo c o (k.step - 1 - o) p
      let p := stepActs c k.step k.upto p
      (if k.hard then p.closeHard k.mask else p.closeSoft, p.screen)
    else
      let p := runTo c o (c.steps - o) p
      (p.closeSoft, p.screen)
  | none =>
    let p := runTo c o (c.steps - o) p
    (p.closeSoft, p.screen)

/-- a history: crashes in order, then a final uninterrupted segment -/
def history (c : Cfg) : Option Disk → List Crash → List (Disk × List Nat)
  | d, [] => [segment c d none]
  | d, k :: ks =>
    let r := segment c d (some k)
    r :: history c (some r.1) ks

/-- the disk after the last segment of a history -/
def finalDisk (c : Cfg) : Option Disk → List Crash → Disk
  | d, [] => (segment c d none).1
  | d, k :: ks => finalDisk c (some (segment c d (some k)).1) ks

/-- the reference: what an uninterrupted run leaves behind, stated from the specification -/
def specRows (e N : Nat) : Rows := (due e N).map some

/-- the last positive step `≤ o` at which a checkpoint is due -/
def lastCkpt (e o : Nat) : Option Nat := if e = 0 ∨ o < e then none else some (o / e * e)

def specDisk (c : Cfg) : Disk :=
  { h5 := c.h5.map (fun e => specRows e c.steps)
    xyz := due c.xyz c.steps
    ckpt := (lastCkpt c.ckpt c.steps).map (fun s => (s, (due c.xyz s).length)) }

def specScreen (c : Cfg) : List Nat := (due c.print c.steps).filter (0 < ·)

/-! ## driver -/

def showDisk (d : Disk) : String :=
  "h5=" ++ "/".intercalate (d.h5.toList.map Util.showOptNats) ++ " xyz=" ++ Util.showNats d.xyz ++
  " ckpt=" ++ (match d.ckpt with | some (o, nx) => s!"{o}:{nx}" | none => "-")

def parseCrashes : List Nat → Option (List Crash)
  | [] => some []
  | s :: u :: h :: m :: rest => do
    let r ← parseCrashes rest
    pure ({ step := s, upto := u, hard := h != 0, mask := m } :: r)
  | _ => none

def mkCfg (da co ve fo xy pr ck st : Nat) : Cfg :=
  { h5 := { data := da, coords := co, vels := ve, forces := fo }, xyz := xy, print := pr, ckpt := ck, steps := st }

/-! ## the transition-density-matrix stream (written inside `append_data`, i.e. behind the data cadence; theorems in `Properties/C11Tdm.lean`) -/

structure TW where
  labels : List Nat
  capacity : Nat
deriving Repr, DecidableEq

/-- `if i_tdm < flags["Tw_tdm"]: steps[i_tdm] = step; i_tdm += 1` -/
def TW.write (w : TW) (s : Nat) : TW :=
  if w.labels.length < w.capacity then { w with labels := w.labels ++ [s] } else w

/-- `append_data` is reached at the data cadence only; inside it, the stream's own modulo test -/
def tdmStep (d t : Nat) (w : TW) (s : Nat) : TW := if isDue d s && isDue t s then w.write s else w

/-- the initial snapshot (step 0) and steps `1 … k` of the run loop -/
def tdmRun (d t : Nat) : Nat → TW → TW
  | 0, w => tdmStep d t w 0
  | k+1, w => tdmStep d t (tdmRun d t k w) (k + 1)

/-- `_create_new`: `Tw_tdm = _n_timepoints(steps, t)` rows, cursor 0 -/
def tdmOpen (t N : Nat) : TW := { labels := [], capacity := cap t N }

/-- what the nested gates let through -/
def tdmDue (d t N : Nat) : List Nat := (List.range (N+1)).filter (fun s => isDue d s && isDue t s)

/-- `mdout data coords vels forces xyz print ckpt steps {step upto hard mask}*` -/
def handle (toks : List String) : Option String :=
  match toks with
  | "mdout" :: rest => do
    let ns ← Util.natList? rest
    match ns with
    | da :: co :: ve :: fo :: xy :: pr :: ck :: st :: crs =>
      let c := mkCfg da co ve fo xy pr ck st
      let ks ← parseCrashes crs
      let hs := history c none ks
      pure (" ; ".intercalate (hs.map fun (d, scr) => showDisk d ++ " screen=" ++ Util.showNats scr))
    | _ => none
  | "mdspec" :: rest => do
    let ns ← Util.natList? rest
    match ns with
    | [da, co, ve, fo, xy, pr, ck, st] =>
      let c := mkCfg da co ve fo xy pr ck st
      pure (showDisk (specDisk c) ++ " screen=" ++ Util.showNats (specScreen c))
    | _ => none
  | ["tdm", d, t, steps] => do
    let d ← d.toNat?
    let t ← t.toNat?
    let n ← steps.toNat?
    let w := tdmRun d t n (tdmOpen t n)
    pure ("labels=" ++ Util.showNats w.labels ++ " cap=" ++ toString w.capacity)
  | ["ntimepoints", steps, stride] => do
    let n ← steps.toNat?
    let e ← stride.toNat?
    pure (toString (cap e n))
  | _ => none
-- DRIVER-HANDLER: MDOut.handle

end MDOut
