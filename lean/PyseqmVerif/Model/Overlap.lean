import PyseqmVerif.Model.Util
/-!
# Slater-type-orbital overlap integrals, sp basis, principal quantum numbers 1–3
(core Lean only, scalar-polymorphic; `exp`, `sqrt`, `abs`, `x ** y` are parameters)

Mirrors `seqm/seqm_functions/diat_overlap_PM6_SP.py`, statement by statement and in the floating
point operation order of the Python:
* `aintgs`  — `A_k(x) = ∫₁^∞ ξ^k e^{-xξ} dξ`, upward recursion `a_{k+1} = a_1 + k·a_k/x`
  (the entries beyond `a3` are gated by `jcall`);
* `bintgs`  — `B_k(x) = ∫₋₁^¹ η^k e^{-xη} dη`, two regimes (`cond1 = absx > 0.5`, `cond2 = absx <= 0.5`):
  `|x| > 0.5` upward recursion, `|x| ≤ 0.5` (INCLUDING `x = 0`) Maclaurin polynomial **truncated after
  x⁶ / x⁵**.  (Before the repair F27 the series was only used for `1e-6 < |x| ≤ 0.5` and the constants
  `B_k(0)` for `|x| ≤ 1e-6`; that third branch, whose derivative dropped the slope `B_k'(0) = −2/(k+2)` of the
  odd integrals, no longer exists in the Python.  The preset values `2, 0, 2/3, …` of the Python are
  overwritten for every finite `x`; for NaN neither mask holds in the Python, here NaN takes the series branch
  and gives NaN — not compared.)
* `SET`     — `alpha = 0.5·rij·(z1+z2)`, `beta = 0.5·rij·(z1−z2)`;
* the six `jcall` branches of `diatom_overlap_matrix_PM6_SP` giving the local-frame quantities
  `S111` (s|s), `S211` (pσ on atom i | s on j), `S121` (s on i | pσ on j), `S221` (pσ|pσ), `S222` (pπ|pπ);
* the signs with which these enter the molecular-frame block `di`
  (`di[1:,0] = S211·c0`, `di[0,1:] = −S121·c0`, `di[1:,1:] = rot·diag(−S221, S222, S222)·rotᵀ`).

Only `a1..a7`, `b1..b7` are modelled: the sp branches never read a higher index (`a8..a13`,
`b8..b13` serve the d-orbital file).  The substitution `x = 0 → +inf` in `aintgs` is NOT modelled:
every `alpha` that feeds a modelled branch is `0.5·rij·(z1+z2) > 0` for `rij > 0` and positive
exponents (the only vanishing `alpha` of the Python, both exponents `zeta_p = 0` of an H–H pair, feeds
`A22/B22`, which no H–H branch reads).  Lengths are in bohr, exponents in 1/bohr.

`x**2` and `x**3` are products in torch (`pow` with exponent 2, 3); other integer powers and the
fractional powers go through `pw`/`rpow` (libm `pow` in the driver, `x^n`/`Real.rpow` in theorems).
-/
namespace Overlap

/-- seven consecutive auxiliary integrals, index 0..6 (`a1..a7` / `b1..b7` of the Python) -/
structure Aux (α : Type) where
  c0 : α
  c1 : α
  c2 : α
  c3 : α
  c4 : α
  c5 : α
  c6 : α

/-- the five local-frame overlaps of one atom pair (unset entries stay `0.0` as in the Python) -/
structure Local (α : Type) where
  s111 : α
  s211 : α
  s121 : α
  s221 : α
  s222 : α

def Aux.toList {α : Type} (a : Aux α) : List α := [a.c0, a.c1, a.c2, a.c3, a.c4, a.c5, a.c6]
def Local.toList {α : Type} (s : Local α) : List α := [s.s111, s.s211, s.s121, s.s221, s.s222]

/-- `jcall` as assigned from the principal quantum numbers (`qni ≥ qnj` is a precondition of the
    Python: species are sorted); `none` = the Python raises -/
def jcallOf (qni qnj : Nat) : Option Nat :=
  match qni, qnj with
  | 1, 1 => some 2
  | 2, 1 => some 3
  | 2, 2 => some 4
  | 3, 1 => some 431
  | 3, 2 => some 5
  | 3, 3 => some 6
  | _, _ => none

section scalar
variable {α : Type} [Add α] [Sub α] [Mul α] [Div α] [Neg α] [OfScientific α]

/-- `aintgs(x0, jcall)`, columns `a1..a7` -/
def aintgs (exp : α → α) (jcall : Nat) (x : α) : Aux α :=
  let a1 := exp (-x) / x
  let a2 := a1 + a1 / x
  let a3 := a1 + 2.0 * a2 / x
  let a4 := if jcall ≥ 3 then a1 + 3.0 * a3 / x else 0.0
  let a5 := if jcall ≥ 4 then a1 + 4.0 * a4 / x else 0.0
  let a6 := if jcall ≥ 5 then a1 + 5.0 * a5 / x else 0.0
  let a7 := if jcall ≥ 6 then a1 + 6.0 * a6 / x else 0.0
  ⟨a1, a2, a3, a4, a5, a6, a7⟩

/-- `bintgs(x0, jcall)`, columns `b1..b7` (`jcall` is not used by the Python) -/
def bintgs [LT α] [DecidableLT α] (exp abs : α → α) (pw : α → Nat → α) (x : α) : Aux α :=
  if 0.5 < abs x then
    let tx := exp x / x
    let tmx := (-(exp (-x))) / x
    let b1 := tx + tmx
    let b2 := -tx + tmx + b1 / x
    let b3 := tx + tmx + 2.0 * b2 / x
    let b4 := -tx + tmx + 3.0 * b3 / x
    let b5 := tx + tmx + 4.0 * b4 / x
    let b6 := -tx + tmx + 5.0 * b5 / x
    let b7 := tx + tmx + 6.0 * b6 / x
    ⟨b1, b2, b3, b4, b5, b6, b7⟩
  else
    ⟨2.0 + pw x 2 / 3.0 + pw x 4 / 60.0 + pw x 6 / 2520.0,
     (-2.0) / 3.0 * x - pw x 3 / 15.0 - pw x 5 / 420.0,
     2.0 / 3.0 + pw x 2 / 5.0 + pw x 4 / 84.0 + pw x 6 / 3240.0,
     (-2.0) / 5.0 * x - pw x 3 / 21.0 - pw x 5 / 540.0,
     2.0 / 5.0 + pw x 2 / 7.0 + pw x 4 / 108.0 + pw x 6 / 3960.0,
     (-2.0) / 7.0 * x - pw x 3 / 27.0 - pw x 5 / 660.0,
     2.0 / 7.0 + pw x 2 / 9.0 + pw x 4 / 132.0 + pw x 6 / 4680.0⟩

/-- `SET`: first component `alpha`, second `beta` -/
def setAB (rij z1 z2 : α) : α × α := (0.5 * rij * (z1 + z2), 0.5 * rij * (z1 - z2))

/-! ## the polynomial parts of the six branches (arguments: the A and B tables) -/

def poly11ss (A B : Aux α) : α := A.c2 * B.c0 - B.c2 * A.c0

def poly21ss (A B : Aux α) : α := A.c3 * B.c0 - B.c3 * A.c0 + A.c2 * B.c1 - B.c2 * A.c1
def poly21ps (A B : Aux α) : α := A.c2 * B.c0 - B.c2 * A.c0 + A.c3 * B.c1 - B.c3 * A.c1

def poly22ss (A B : Aux α) : α := A.c4 * B.c0 + B.c4 * A.c0 - 2.0 * A.c2 * B.c2
def poly22ps (A B : Aux α) : α :=
  A.c3 * (B.c0 - B.c2) - A.c1 * (B.c2 - B.c4) + B.c3 * (A.c0 - A.c2) - B.c1 * (A.c2 - A.c4)
def poly22sp (A B : Aux α) : α :=
  A.c3 * (B.c0 - B.c2) - A.c1 * (B.c2 - B.c4) - B.c3 * (A.c0 - A.c2) + B.c1 * (A.c2 - A.c4)
def poly22sig (A B : Aux α) : α := B.c2 * (A.c4 + A.c0) - A.c2 * (B.c4 + B.c0)
def poly22pi (A B : Aux α) : α :=
  A.c4 * (B.c0 - B.c2) - B.c4 * (A.c0 - A.c2) - A.c2 * B.c0 + B.c2 * A.c0

def poly31ss (A B : Aux α) : α :=
  A.c4 * B.c0 + 2.0 * B.c1 * A.c3 - 2.0 * A.c1 * B.c3 - B.c4 * A.c0
def poly31ps (A B : Aux α) : α :=
  A.c3 * (B.c0 + B.c2) - A.c1 * (B.c4 + B.c2) + B.c1 * (A.c2 + A.c4) - B.c3 * (A.c2 + A.c0)

def poly32ss (A B : Aux α) : α :=
  A.c5 * B.c0 + B.c1 * A.c4 - 2.0 * B.c2 * A.c3 - 2.0 * A.c2 * B.c3 + B.c4 * A.c1 + B.c5 * A.c0
def poly32ps (A B : Aux α) : α :=
  A.c4 * B.c0 + B.c1 * A.c5 - 2.0 * B.c3 * A.c3 - 2.0 * A.c2 * B.c2 + A.c1 * B.c5 + A.c0 * B.c4
def poly32sp (A B : Aux α) : α :=
  (A.c4 * B.c0 - A.c5 * B.c1) + 2.0 * (A.c3 * B.c1 - A.c4 * B.c2)
    - 2.0 * (A.c1 * B.c3 - A.c2 * B.c4) - (A.c0 * B.c4 - A.c1 * B.c5)
def poly32sig (A B : Aux α) : α :=
  (A.c3 * B.c0 - A.c5 * B.c2) + (A.c2 * B.c1 - A.c4 * B.c3)
    - (A.c1 * B.c2 - A.c3 * B.c4) - (A.c0 * B.c3 - A.c2 * B.c5)
def poly32pi (A B : Aux α) : α :=
  (A.c5 - A.c3) * (B.c0 - B.c2) + (A.c4 - A.c2) * (B.c1 - B.c3)
    - (A.c3 - A.c1) * (B.c2 - B.c4) - (A.c2 - A.c0) * (B.c3 - B.c5)

def poly33ss (A B : Aux α) : α :=
  A.c6 * B.c0 - 3.0 * B.c2 * A.c4 + 3.0 * A.c2 * B.c4 - A.c0 * B.c6
def poly33ps (A B : Aux α) : α :=
  (A.c5 * B.c0 + A.c6 * B.c1) + (-A.c4 * B.c1 - A.c5 * B.c2)
    - 2.0 * (A.c3 * B.c2 + A.c4 * B.c3) - 2.0 * (-A.c2 * B.c3 - A.c3 * B.c4)
    + (A.c1 * B.c4 + A.c2 * B.c5) + (-A.c0 * B.c5 - A.c1 * B.c6)
def poly33sp (A B : Aux α) : α :=
  (A.c5 * B.c0 - A.c6 * B.c1) + (A.c4 * B.c1 - A.c5 * B.c2)
    - 2.0 * (A.c3 * B.c2 - A.c4 * B.c3) - 2.0 * (A.c2 * B.c3 - A.c3 * B.c4)
    + (A.c1 * B.c4 - A.c2 * B.c5) + (A.c0 * B.c5 - A.c1 * B.c6)
def poly33sig (A B : Aux α) : α :=
  (A.c4 * B.c0 - A.c6 * B.c2) - 2.0 * (A.c2 * B.c2 - A.c4 * B.c4) + (A.c0 * B.c4 - A.c2 * B.c6)
def poly33pi (A B : Aux α) : α :=
  (A.c6 - A.c4) * (B.c0 - B.c2) - 2.0 * (A.c4 - A.c2) * (B.c2 - B.c4)
    + (A.c2 - A.c0) * (B.c4 - B.c6)

variable [LT α] [DecidableLT α]

/-- the A and B tables of one `SET` call -/
def tables (exp abs : α → α) (pw : α → Nat → α) (jcall : Nat) (rij z1 z2 : α) : Aux α × Aux α :=
  let ab := setAB rij z1 z2
  (aintgs exp jcall ab.1, bintgs exp abs pw ab.2)

/-- `diatom_overlap_matrix_PM6_SP`, local-frame part, for one pair.
    `za = (zsa, zpa)` exponents of atom i, `zb = (zsb, zpb)` of atom j, `rij` in bohr. -/
def localOverlap (exp sqrt abs : α → α) (rpow : α → α → α) (pw : α → Nat → α)
    (jcall : Nat) (zsa zpa zsb zpb rij : α) : Local α :=
  let t111 := tables exp abs pw jcall rij zsa zsb
  let t211 := tables exp abs pw jcall rij zpa zsb
  let t121 := tables exp abs pw jcall rij zsa zpb
  let t22 := tables exp abs pw jcall rij zpa zpb
  if jcall = 2 then
    ⟨rpow (zsa * zsb * pw rij 2) 1.5 * poly11ss t111.1 t111.2 / 4.0, 0.0, 0.0, 0.0, 0.0⟩
  else if jcall = 3 then
    ⟨rpow zsb 1.5 * rpow zsa 2.5 * pw rij 4 * poly21ss t111.1 t111.2 / (sqrt 3.0 * 8.0),
     rpow zsb 1.5 * rpow zpa 2.5 * pw rij 4 * poly21ps t211.1 t211.2 / 8.0,
     0.0, 0.0, 0.0⟩
  else if jcall = 4 then
    let w := rpow (zpb * zpa) 2.5 * pw rij 5 / 16.0
    ⟨rpow (zsb * zsa) 2.5 * pw rij 5 * poly22ss t111.1 t111.2 / 48.0,
     rpow (zsb * zpa) 2.5 * pw rij 5 * poly22ps t211.1 t211.2 / (16.0 * sqrt 3.0),
     rpow (zpb * zsa) 2.5 * pw rij 5 * poly22sp t121.1 t121.2 / (16.0 * sqrt 3.0),
     -w * poly22sig t22.1 t22.2,
     0.5 * w * poly22pi t22.1 t22.2⟩
  else if jcall = 431 then
    ⟨rpow zsb 1.5 * rpow zsa 3.5 * pw rij 5 * poly31ss t111.1 t111.2 / (sqrt 10.0 * 24.0),
     rpow zsb 1.5 * rpow zpa 3.5 * pw rij 5 * poly31ps t211.1 t211.2 / (8.0 * sqrt 30.0),
     0.0, 0.0, 0.0⟩
  else if jcall = 5 then
    ⟨rpow zsb 2.5 * rpow zsa 3.5 * pw rij 6 * poly32ss t111.1 t111.2 / (sqrt 30.0 * 48.0),
     rpow zsb 2.5 * rpow zpa 3.5 * pw rij 6 * poly32ps t211.1 t211.2 / (48.0 * sqrt 10.0),
     rpow zpb 2.5 * rpow zsa 3.5 * pw rij 6 * poly32sp t121.1 t121.2 / (48.0 * sqrt 10.0),
     rpow zpb 2.5 * rpow zpa 3.5 * pw rij 6 * poly32sig t22.1 t22.2 / (16.0 * sqrt 30.0),
     rpow zpb 2.5 * rpow zpa 3.5 * pw rij 6 * poly32pi t22.1 t22.2 / (32.0 * sqrt 30.0)⟩
  else if jcall = 6 then
    ⟨rpow (zsb * zsa) 3.5 * pw rij 7 * poly33ss t111.1 t111.2 / 1440.0,
     rpow (zsb * zpa) 3.5 * pw rij 7 * poly33ps t211.1 t211.2 / (480.0 * sqrt 3.0),
     rpow (zpb * zsa) 3.5 * pw rij 7 * poly33sp t121.1 t121.2 / (480.0 * sqrt 3.0),
     rpow zpb 3.5 * rpow zpa 3.5 * pw rij 7 * poly33sig t22.1 t22.2 / 480.0,
     rpow zpb 3.5 * rpow zpa 3.5 * pw rij 7 * poly33pi t22.1 t22.2 / 960.0⟩
  else ⟨0.0, 0.0, 0.0, 0.0, 0.0⟩

/-- the factors that multiply the direction cosines in `di`, i.e. the overlaps of orbitals oriented
    along common axes with the local z axis pointing from atom i to atom j:
    `[ (s|s), (pσ_i|s_j), (s_i|pσ_j), (pσ|pσ), (pπ|pπ) ] = [S111, S211, −S121, −S221, S222]` -/
def diFactors (s : Local α) : Local α := ⟨s.s111, s.s211, -s.s121, -s.s221, s.s222⟩

/-- overlap of ONE pair of orbitals `(n1 l1 m)` on atom i (exponent `z1`) and `(n2 l2 m)` on atom j
    (exponent `z2`), `n1 ≥ n2`, common axes (the `diFactors` convention); `m = 0` σ, `m = 1` π.
    The exponents that do not take part are set to `z1`/`z2` as well (they do not influence the
    selected entry). -/
def stoOverlap (exp sqrt abs : α → α) (rpow : α → α → α) (pw : α → Nat → α)
    (n1 l1 n2 l2 m : Nat) (z1 z2 rij : α) : Option α := do
  let jc ← jcallOf n1 n2
  let s := diFactors (localOverlap exp sqrt abs rpow pw jc z1 z1 z2 z2 rij)
  match l1, l2, m with
  | 0, 0, 0 => some s.s111
  | 1, 0, 0 => if n1 ≥ 2 then some s.s211 else none
  | 0, 1, 0 => if n2 ≥ 2 then some s.s121 else none
  | 1, 1, 0 => if n2 ≥ 2 then some s.s221 else none
  | 1, 1, 1 => if n2 ≥ 2 then some s.s222 else none
  | _, _, _ => none

end scalar

/-! ## driver -/

/-- torch `pow` with an integer exponent: 2 and 3 are products, the rest is libm `pow` -/
def pwF (x : Float) (n : Nat) : Float :=
  if n = 2 then x * x else if n = 3 then x * x * x else Float.pow x n.toFloat

/-- operations (floats as IEEE bit patterns, integers decimal):
* `aintgs jcall x`                         → `a1 … a7`
* `bintgs x`                               → `b1 … b7`
* `sto_local n1 n2 zsa zpa zsb zpb R`      → `S111 S211 S121 S221 S222` (the Python's local-frame values;
                                              `n1 ≥ n2` principal quantum numbers of atoms i, j)
* `sto_overlap n1 l1 n2 l2 m zeta1 zeta2 R` → one value in the `diFactors` (common-axes) convention -/
def handle (toks : List String) : Option String :=
  match toks with
  | ["aintgs", jc, x] => do
    let j ← jc.toNat?
    let x ← Util.floatTok? x
    pure (Util.showFloats (aintgs Float.exp j x).toList)
  | ["bintgs", x] => do
    let x ← Util.floatTok? x
    pure (Util.showFloats (bintgs Float.exp Float.abs pwF x).toList)
  | "sto_local" :: n1 :: n2 :: rest => do
    let n1 ← n1.toNat?
    let n2 ← n2.toNat?
    let jc ← jcallOf n1 n2
    match ← Util.floatList? rest with
    | [zsa, zpa, zsb, zpb, r] =>
      pure (Util.showFloats (localOverlap Float.exp Float.sqrt Float.abs Float.pow pwF jc zsa zpa zsb zpb r).toList)
    | _ => none
  | "sto_overlap" :: n1 :: l1 :: n2 :: l2 :: m :: rest => do
    let n1 ← n1.toNat?
    let l1 ← l1.toNat?
    let n2 ← n2.toNat?
    let l2 ← l2.toNat?
    let m ← m.toNat?
    match ← Util.floatList? rest with
    | [z1, z2, r] =>
      let v ← stoOverlap Float.exp Float.sqrt Float.abs Float.pow pwF n1 l1 n2 l2 m z1 z2 r
      pure (Util.showFloat v)
    | _ => none
  | _ => none
-- DRIVER-HANDLER: Overlap.handle

end Overlap
