import PyseqmVerif.Model.Hop
/-!
# Electronic propagation: RK4 in the interaction picture (core Lean only, scalar-polymorphic)

Mirrors `NonadiabaticDynamicsBase._propagate_electronic` of `seqm/NonadiabaticDynamics.py`,
statement by statement, for ONE trajectory (`x y θ : (nstates,)`, energies `(nstates,)`,
`nac_dot : (nstates, nstates)` as a list of rows).  Everything in the Python acts on the batch
index `m` independently (`bmm`, element-wise operations) EXCEPT the adaptive sub-step count,
which is a batch-global maximum (`.amax()` without `dim`) — `nsubBatch`.

`cos`, `sin`, `torch.remainder`, `π`, `int → float` and `ceil → int` are parameters.
`torch.bmm` is modelled as the sequential dot product `Σ_j D_ij u_j` from 0 (BLAS may use FMA or
another association: compare with a few-ulp tolerance).
-/
namespace RK4
open Hop (sumL clampMin)

variable {α : Type}

section core
variable [Add α] [Sub α] [Mul α] [Div α] [Neg α] [OfScientific α]
variable [OfNat α 0] [OfNat α 1] [OfNat α 2] [OfNat α 6]

/-- `x + a * dx` (element-wise) -/
def axpy (a : α) (x dx : List α) : List α := List.zipWith (fun xi di => xi + a * di) x dx

/-- `th - a * e` (element-wise) -/
def axmy (a : α) (th e : List α) : List α := List.zipWith (fun ti ei => ti - a * ei) th e

/-- `nd_old + tau * dnd` -/
def matAxpy (t : α) (M dM : List (List α)) : List (List α) := List.zipWith (axpy t) M dM

/-- `nd_new - nd_old`, `e1 - e0` -/
def vecSub (a b : List α) : List α := List.zipWith (· - ·) a b
def matSub (A B : List (List α)) : List (List α) := List.zipWith vecSub A B

/-- `torch.bmm(nac_proj, u.unsqueeze(-1)).squeeze(-1)` for one molecule -/
def matVec (D : List (List α)) (u : List α) : List α :=
  D.map fun row => sumL (List.zipWith (· * ·) row u)

/-- `u_re = x * ct - y * st`, `u_im = x * st + y * ct` -/
def uRe (x y ct st : List α) : List α :=
  List.zipWith (· - ·) (List.zipWith (· * ·) x ct) (List.zipWith (· * ·) y st)
def uIm (x y ct st : List α) : List α :=
  List.zipWith (· + ·) (List.zipWith (· * ·) x st) (List.zipWith (· * ·) y ct)

/-- `rhs_amp(xr, yi, theta, nac_proj)`:
```
dx = -(ct * r_re + st * r_im)
dy = st * r_re - ct * r_im
``` -/
def rhsAmp (cos sin : α → α) (x y th : List α) (D : List (List α)) : List α × List α :=
  let ct := th.map cos
  let st := th.map sin
  let rRe := matVec D (uRe x y ct st)
  let rIm := matVec D (uIm x y ct st)
  ( (List.zipWith (· + ·) (List.zipWith (· * ·) ct rRe) (List.zipWith (· * ·) st rIm)).map (fun t => -t),
    List.zipWith (· - ·) (List.zipWith (· * ·) st rRe) (List.zipWith (· * ·) ct rIm) )

/-- the step constants computed before the loop -/
structure Consts (α : Type) where
  invNsub : α
  dtSub : α
  halfDtSub : α
  dtOverHbar : α
  halfDtOverHbar : α
  oneSixthDt : α

/-- ```
inv_nsub = 1.0 / float(nsub);  dt_sub = dt_total * inv_nsub;  half_dt_sub = 0.5 * dt_sub
dt_over_hbar = dt_sub / HBAR_EV_FS;  half_dt_over_hbar = 0.5 * dt_over_hbar;  one_sixth_dt = dt_sub / 6.0
``` -/
def mkConsts (ofNat : Nat → α) (dtTotal hbar : α) (nsub : Nat) : Consts α :=
  let invNsub := 1 / ofNat nsub
  let dtSub := dtTotal * invNsub
  let dtOverHbar := dtSub / hbar
  { invNsub := invNsub, dtSub := dtSub, halfDtSub := 0.5 * dtSub, dtOverHbar := dtOverHbar,
    halfDtOverHbar := 0.5 * dtOverHbar, oneSixthDt := dtSub / 6 }

/-- `dx1 + 2.0 * dx2 + 2.0 * dx3 + dx4` -/
def rkComb (k1 k2 k3 k4 : List α) : List α :=
  List.zipWith (· + ·)
    (List.zipWith (· + ·) (List.zipWith (· + ·) k1 (k2.map (2 * ·))) (k3.map (2 * ·))) k4

/-- the body of `for s in range(nsub)` with `tau = s * inv_nsub` -/
def substep (cos sin : α → α) (k : Consts α) (tau : α) (e0 de : List α)
    (ndOld dnd : List (List α)) (x y th : List α) : List α × List α × List α :=
  let tauHalf := tau + 0.5 * k.invNsub
  let tauFull := tau + k.invNsub
  let e1s := axpy tau e0 de
  let e2s := axpy tauHalf e0 de
  let nd1 := matAxpy tau ndOld dnd
  let nd2 := matAxpy tauHalf ndOld dnd
  let nd4 := matAxpy tauFull ndOld dnd
  let (dx1, dy1) := rhsAmp cos sin x y th nd1
  let x2 := axpy k.halfDtSub x dx1
  let y2 := axpy k.halfDtSub y dy1
  let th2 := axmy k.halfDtOverHbar th e1s
  let (dx2, dy2) := rhsAmp cos sin x2 y2 th2 nd2
  let x3 := axpy k.halfDtSub x dx2
  let y3 := axpy k.halfDtSub y dy2
  let th3 := axmy k.halfDtOverHbar th e2s
  let (dx3, dy3) := rhsAmp cos sin x3 y3 th3 nd2
  let x4 := axpy k.dtSub x dx3
  let y4 := axpy k.dtSub y dy3
  let th4 := axmy k.dtOverHbar th e2s
  let (dx4, dy4) := rhsAmp cos sin x4 y4 th4 nd4
  ( axpy k.oneSixthDt x (rkComb dx1 dx2 dx3 dx4),
    axpy k.oneSixthDt y (rkComb dy1 dy2 dy3 dy4),
    List.zipWith (fun ti ei => ti - ei * k.dtOverHbar) th e2s )

/-- `for s in range(nsub)`: `c` iterations left, current index `s` -/
def loop (cos sin : α → α) (ofNat : Nat → α) (k : Consts α) (e0 de : List α)
    (ndOld dnd : List (List α)) : Nat → Nat → List α × List α × List α → List α × List α × List α
  | 0, _, st => st
  | c+1, s, (x, y, th) =>
    loop cos sin ofNat k e0 de ndOld dnd c (s+1)
      (substep cos sin k (ofNat s * k.invNsub) e0 de ndOld dnd x y th)

/-- everything up to (not including) the phase wrap -/
def propagateRaw (cos sin : α → α) (ofNat : Nat → α) (dtTotal hbar : α) (nsub : Nat)
    (x y th e0 e1 : List α) (ndOld ndNew : List (List α)) : List α × List α × List α :=
  loop cos sin ofNat (mkConsts ofNat dtTotal hbar nsub) e0 (vecSub e1 e0) ndOld (matSub ndNew ndOld)
    nsub 0 (x, y, th)

/-- `th = torch.remainder(th + torch.pi, 2.0 * torch.pi) - torch.pi` -/
def wrap (rem : α → α → α) (pi : α) (th : List α) : List α :=
  th.map fun t => rem (t + pi) (2 * pi) - pi

/-- the final-time hop integral:
```
hop_int = u_re_i * u_re_j + u_im_i * u_im_j;  *= nd_new;  *= 2.0 * dt_total;  *= (1.0 - eye)
``` -/
def hopIntegral (cos sin : α → α) (dtTotal : α) (x y th : List α) (ndNew : List (List α)) :
    List (List α) :=
  let ct := th.map cos
  let st := th.map sin
  let u := List.zipWith Prod.mk (uRe x y ct st) (uIm x y ct st)
  (List.zipWith Prod.mk u ndNew).zipIdx.map fun ((ui, row), i) =>
    (List.zipWith Prod.mk u row).zipIdx.map fun ((uj, dij), j) =>
      (ui.1 * uj.1 + ui.2 * uj.2) * dij * (2 * dtTotal) * (1 - (if i = j then 1 else 0))

/-- `_propagate_electronic` for one trajectory with a given sub-step count:
    returns `(x', y', θ', hop_integral)` -/
def propagate (cos sin : α → α) (rem : α → α → α) (pi : α) (ofNat : Nat → α) (dtTotal hbar : α)
    (nsub : Nat) (x y th e0 e1 : List α) (ndOld ndNew : List (List α)) :
    List α × List α × List α × List (List α) :=
  let (x', y', th') := propagateRaw cos sin ofNat dtTotal hbar nsub x y th e0 e1 ndOld ndNew
  let thw := wrap rem pi th'
  (x', y', thw, hopIntegral cos sin dtTotal x' y' thw ndNew)

end core

/-! ## the batch: adaptive sub-step count (global) + row-wise propagation -/

section batch
variable [Add α] [Sub α] [Mul α] [Div α] [Neg α] [OfScientific α]
variable [OfNat α 0] [OfNat α 1] [OfNat α 2] [OfNat α 6] [LT α] [DecidableLT α]

def fmax (a b : α) : α := if a < b then b else a

/-- `t.amax()` of a tensor of absolute values (all `≥ 0`, so folding from 0 gives the same value) -/
def amax (l : List α) : α := l.foldl fmax 0

/-- one trajectory's electronic-structure input -/
structure TrajIn (α : Type) where
  x : List α
  y : List α
  th : List α
  e0 : List α
  e1 : List α
  ndOld : List (List α)
  ndNew : List (List α)

/-- ```
dmax  = torch.maximum(torch.abs(nd_old), torch.abs(nd_new)).amax()      # whole batch
djump = torch.abs(dnd).amax()                                           # whole batch
chi   = dt_total * torch.maximum(dmax, djump)
extra = torch.ceil(torch.clamp((chi - 1.0) / eta_nac, min=0.0))
nsub  = min(base + int(extra), nmax)          # base = 8, nmax = 80, eta_nac = 0.25
``` -/
def nsubBatch (abs : α → α) (ceilNat : α → Nat) (dtTotal : α) (batch : List (TrajIn α)) : Nat :=
  let dmax := amax (batch.flatMap fun t =>
    (List.zipWith (List.zipWith fun a b => fmax (abs a) (abs b)) t.ndOld t.ndNew).flatten)
  let djump := amax (batch.flatMap fun t => ((matSub t.ndNew t.ndOld).map (·.map abs)).flatten)
  let chi := dtTotal * fmax dmax djump
  let extra := ceilNat (clampMin 0 ((chi - 1) / 0.25))
  min (8 + extra) 80

def propagateTraj (cos sin : α → α) (rem : α → α → α) (pi : α) (ofNat : Nat → α) (dtTotal hbar : α)
    (nsub : Nat) (t : TrajIn α) : List α × List α × List α × List (List α) :=
  propagate cos sin rem pi ofNat dtTotal hbar nsub t.x t.y t.th t.e0 t.e1 t.ndOld t.ndNew

/-- row-wise propagation with a given sub-step count -/
def propagateBatchWith (cos sin : α → α) (rem : α → α → α) (pi : α) (ofNat : Nat → α)
    (dtTotal hbar : α) (nsub : Nat) (batch : List (TrajIn α)) :
    List (List α × List α × List α × List (List α)) :=
  batch.map (propagateTraj cos sin rem pi ofNat dtTotal hbar nsub)

/-- `_propagate_electronic(cache_old, cache_new, substeps=None)` on the whole batch -/
def propagateBatch (cos sin abs : α → α) (rem : α → α → α) (pi : α) (ofNat : Nat → α)
    (ceilNat : α → Nat) (dtTotal hbar : α) (batch : List (TrajIn α)) :
    List (List α × List α × List α × List (List α)) :=
  propagateBatchWith cos sin rem pi ofNat dtTotal hbar (nsubBatch abs ceilNat dtTotal batch) batch

end batch

/-! ## Float instantiation and driver -/

/-- `|a| = M · 2^e` with integer `M < 2^53` (`none` for NaN/±∞) -/
def ratParts (a : Float) : Option (Nat × Int) :=
  if a.isNaN || a.isInf then none else
  let (m, e) := a.abs.frExp
  some ((m.scaleB 53).toUInt64.toNat, e - 53)

/-- exact C `fmod` on doubles through integer arithmetic (the result of `fmod` is always
    representable, so no rounding occurs) -/
def fmodF (a b : Float) : Float :=
  match ratParts a, ratParts b with
  | some (ma, ea), some (mb, eb) =>
    if mb == 0 then 0.0 / 0.0 else
    let e : Int := min ea eb
    let A : Nat := ma <<< (ea - e).toNat
    let B : Nat := mb <<< (eb - e).toNat
    let f := (Float.ofNat (A % B)).scaleB e
    if a < 0 then -f else f
  | some _, none => if b.isNaN then b else a
  | none, _ => 0.0 / 0.0

/-- `torch.remainder` (CPU kernel: `mod = fmod(a, b); if (mod != 0 && ((b < 0) != (mod < 0))) mod += b`) -/
def remainderF (a b : Float) : Float :=
  let m := fmodF a b
  if m != 0 && ((b < 0) != (m < 0)) then m + b else m

def piF : Float := 3.141592653589793

def ceilNatF (x : Float) : Nat := x.ceil.toUInt64.toNat

def propagateF (dt hbar : Float) (nsub : Nat) (x y th e0 e1 : List Float)
    (ndOld ndNew : List (List Float)) :=
  propagate Float.cos Float.sin remainderF piF Float.ofNat dt hbar nsub x y th e0 e1 ndOld ndNew

def parseTrajMats (n : Nat) : Nat → List Float → List (TrajIn Float)
  | 0, _ => []
  | k+1, l =>
    { x := [], y := [], th := [], e0 := [], e1 := [],
      ndOld := Hop.chunk n n (l.take (n*n)), ndNew := Hop.chunk n n ((l.drop (n*n)).take (n*n)) }
      :: parseTrajMats n k (l.drop (2*n*n))

/-- Operations (floats are decimal IEEE-754 bit patterns):

* `rk4_propagate nstates nsub dt hbar x[n] y[n] theta[n] E_old[n] E_new[n] D_old[n*n] D_new[n*n]`
  → `x'[n] y'[n] theta'[n] hopint[n*n]`
  (one trajectory of `_propagate_electronic(cache_old, cache_new, substeps=nsub)`: `x y theta` =
  `_amp_phase[m, :, 0/1/2]`, `E_* = cache_*['energies'][m]`, `D_* = cache_*['nac_dot'][m]` row-major,
  `dt = self.timestep`, `hbar = HBAR_EV_FS`; output = new `_amp_phase[m]` columns and `_hop_integral[m]`)
* `rk4_nsub ntraj nstates dt (D_old[n*n] D_new[n*n])*ntraj` → `nsub` (the adaptive, batch-global count)
* `rk4_remainder a b` → `torch.remainder(a, b)` -/
def handle (toks : List String) : Option String :=
  match toks with
  | "rk4_propagate" :: n :: nsub :: rest => do
    let n ← n.toNat?
    let nsub ← nsub.toNat?
    if rest.length ≠ 2 + 5 * n + 2 * n * n then none else
    let fs ← Util.floatList? rest
    match fs with
    | dt :: hbar :: fs =>
      let x := fs.take n
      let y := (fs.drop n).take n
      let th := (fs.drop (2*n)).take n
      let e0 := (fs.drop (3*n)).take n
      let e1 := (fs.drop (4*n)).take n
      let d0 := Hop.chunk n n ((fs.drop (5*n)).take (n*n))
      let d1 := Hop.chunk n n ((fs.drop (5*n + n*n)).take (n*n))
      let (x', y', th', h) := propagateF dt hbar nsub x y th e0 e1 d0 d1
      pure (Util.showFloats (x' ++ y' ++ th' ++ h.flatten))
    | _ => none
  | "rk4_nsub" :: nt :: n :: rest => do
    let nt ← nt.toNat?
    let n ← n.toNat?
    if rest.length ≠ 1 + nt * (2 * n * n) then none else
    let fs ← Util.floatList? rest
    match fs with
    | dt :: fs => pure (toString (nsubBatch Float.abs ceilNatF dt (parseTrajMats n nt fs)))
    | _ => none
  | ["rk4_remainder", a, b] => do
    let a ← Util.floatTok? a
    let b ← Util.floatTok? b
    pure (Util.showFloat (remainderF a b))
  | _ => none
-- DRIVER-HANDLER: RK4.handle

end RK4
