/-! Token helpers for the driver line protocol (core Lean only). -/
namespace Util

def natList? : List String → Option (List Nat)
  | [] => some []
  | t :: ts => do
    let n ← t.toNat?
    let r ← natList? ts
    pure (n :: r)

def intTok? (s : String) : Option Int := s.toInt?

/-- floats cross as decimal IEEE-754 bit patterns -/
def floatTok? (s : String) : Option Float := do
  let n ← s.toNat?
  pure (Float.ofBits n.toUInt64)

def floatList? : List String → Option (List Float)
  | [] => some []
  | t :: ts => do
    let x ← floatTok? t
    let r ← floatList? ts
    pure (x :: r)

def showFloat (x : Float) : String := toString x.toBits.toNat

def showFloats (xs : List Float) : String := " ".intercalate (xs.map showFloat)

def showNats (xs : List Nat) : String := ",".intercalate (xs.map toString)

def showOptNats (xs : List (Option Nat)) : String :=
  ",".intercalate (xs.map fun o => match o with | some n => toString n | none => "-")

end Util
