import PyseqmVerif.Model.Util
/-!
# Reported observables (scalar-polymorphic, core Lean only)

Mirrors
* `seqm/seqm_functions/energy.py`: `total_energy`, `heat_formation`, `elec_energy_isolated_atom`,
  `elec_energy` (closed shell);
* `seqm/basics.py` `Energy.forward`: the RHF gap `e.gather(1, nocc) - e.gather(1, nocc-1)` and
  `Etot += Eexcited`;
* `seqm/ElectronicStructure.py`: `atomic_charges` and `molecule.q = tore[species] - atomic_charges(dm)`;
* `seqm/seqm_functions/dipole.py`: `calc_dipole_matrix(return_diag_dipole=True)`, `calc_ground_dipole`.

Reductions are modelled as sequential left-to-right sums starting from `0` (`index_add_` adds in
index order); the correspondence check compares reductions with a relative tolerance.
-/
namespace Observables

section
variable {α : Type} [Add α] [Sub α] [Mul α] [Neg α] [OfScientific α] [OfNat α 0]

/-- `torch.sum` of a 1-D slice -/
def sumL (xs : List α) : α := xs.foldl (· + ·) 0

/-- `out.index_add_(0, idx, src)`: `out[idx[k]] += src[k]` for `k = 0, 1, …` in this order.  The
    additions into different slots are independent, so slot `m` sees exactly the `src[k]` with
    `idx[k] = m`, in index order. -/
def indexAdd (out : List α) (idx : List Nat) (src : List α) : List α :=
  out.zipIdx.map fun om =>
    (idx.zip src).foldl (fun acc (p : Nat × α) => if p.1 = om.2 then acc + p.2 else acc) om.1

/-- `total_energy(nmol, pair_molid, EnucAB, Eelec)` → `(Etot, Enuc)` -/
def totalEnergy (nmol : Nat) (pairMolid : List Nat) (EnucAB Eelec : List α) : List α × List α :=
  let Enuc := indexAdd (List.replicate nmol (0 : α)) pairMolid EnucAB
  (List.zipWith (· + ·) Eelec Enuc, Enuc)

/-- `Etot += Eexcited` (`Eexcited` is zero for molecules in the ground state) -/
def addExcited (Etot Eexc : List α) : List α := List.zipWith (· + ·) Etot Eexc

/-- `heat_formation(const, nmol, atom_molid, Z, Etot, Eiso, flag)` → `(Hf, Eiso_sum)`;
    `eheat` is `const.eheat[Z]`, one entry per real atom -/
def heatFormation (flag : Bool) (atomMolid : List Nat) (Etot Eiso eheat : List α) : List α × List α :=
  let zeros := Etot.map fun _ => (0 : α)
  let EisoSum := indexAdd zeros atomMolid Eiso
  if flag then
    let eheatSum := indexAdd zeros atomMolid eheat
    (List.zipWith (· + ·) (List.zipWith (· - ·) Etot EisoSum) eheatSum, EisoSum)
  else
    (List.zipWith (· - ·) Etot EisoSum, EisoSum)

/-- `elec_energy_isolated_atom` for one atom: parameters of the atom and the `const.*c[Z]` counts -/
def eisoAtom (uss upp gss gpp gsp gp2 hsp ussc uppc gssc gppc gspc gp2c hspc : α) : α :=
  uss * ussc + upp * uppc + gss * gssc + gpp * gppc + gsp * gspc + gp2 * gp2c + hsp * hspc

/-- RHF gap of one molecule: `e.gather(1, nocc) - e.gather(1, nocc-1)`; `none` when an index is out
    of range (`nocc = 0` gives index `-1`, `nocc ≥ len(e)` is past the end: torch raises) -/
def gapRHF (e : List α) (nocc : Nat) : Option α :=
  if nocc = 0 then none else
  match e[nocc]?, e[nocc - 1]? with
  | some lumo, some homo => some (lumo - homo)
  | _, _ => none

/-- `atomic_charges(P, n_orbital)`: `P.diagonal().reshape(.., n_atom, n_orbital).sum(axis=2)`, then
    `q = tore[species] - …` -/
def atomicCharges (natoms norb : Nat) (tore Pdiag : List α) : List α :=
  (List.range natoms).map fun A =>
    tore.getD A 0 - sumL ((List.range norb).map fun k => Pdiag.getD (A * norb + k) 0)

/-! ### ground-state dipole -/

/-- one atom slot of a molecule as `calc_ground_dipole` sees it -/
structure DAtom (α : Type) where
  Z : Nat                -- atomic number, 0 = padding
  tore : α               -- `const.tore[Z]`
  R : Nat → α            -- coordinates, component `d = 0,1,2`
  P : Nat → Nat → α      -- the atom's 4×4 diagonal block of the density matrix
  dd : α                 -- `dd_qq(...)[0] * a0` (only read for `Z > 2`)

/-- `calc_dipole_matrix(mol, return_diag_dipole=True)[d, m, atom, x, y]`:
    heavy atoms (`isX = Z > 2`): `-coord[d]` on the diagonal, `-dd` at `(0,d+1)` and `(d+1,0)`;
    hydrogen (`isH = Z == 1`): `-coord[d]` at `(0,0)`; every other slot (padding, `Z = 2`): zero -/
def dipoleBlock (a : DAtom α) (d x y : Nat) : α :=
  if 2 < a.Z then
    (if x = y then - a.R d
     else if (x = 0 ∧ y = d + 1) ∨ (x = d + 1 ∧ y = 0) then - a.dd else 0)
  else if a.Z = 1 then (if x = 0 ∧ y = 0 then - a.R d else 0)
  else 0

/-- contribution of one atom to `einsum("bxyn,dbnxy->bd", P_blocks, dipole_diag_blocks)` -/
def elecDipoleAtom (a : DAtom α) (d : Nat) : α :=
  sumL ((List.range 4).map fun x => sumL ((List.range 4).map fun y => a.P x y * dipoleBlock a d x y))

/-- `calc_ground_dipole` for one molecule, component `d`:
    `(electronic_dipole + nuclear_dipole) * to_debye * debye_to_AU` -/
def groundDipole (toDebye debyeToAU : α) (atoms : List (DAtom α)) (d : Nat) : α :=
  let elec := sumL (atoms.map fun a => elecDipoleAtom a d)
  let nuc := sumL (atoms.map fun a => a.tore * a.R d)
  (elec + nuc) * toDebye * debyeToAU

/-- `h = Hcore.triu() + Hcore.triu(1).transpose(1, 2)` -/
def symmetrizeUpper (H : Nat → Nat → α) : Nat → Nat → α := fun i j => if i ≤ j then H i j else H j i

/-- closed shell `elec_energy`: `0.5 * torch.sum(P * (h + F), dim=(1, 2))` for one molecule of
    `n × n` matrices -/
def elecEnergy (n : Nat) (P h F : Nat → Nat → α) : α :=
  0.5 * sumL ((List.range n).map fun i => sumL ((List.range n).map fun j => P i j * (h i j + F i j)))

end

/-! ## driver (Float) -/

/-- * `total_energy nmol npairs pair_molid[npairs] EnucAB[npairs] Eelec[nmol]` → `Etot[nmol] Enuc[nmol]`
    * `heat_formation nmol natoms atom_molid[natoms] Etot[nmol] Eiso[natoms] eheat[natoms]` →
      `Hf[nmol] EisoSum[nmol]` (`flag=True`)
    * `gap_rhf n nocc e[n]` → `gap`, or `raise` when `nocc = 0` or `nocc ≥ n`
    * `charges natoms norb_per_atom tore[natoms] Pdiag[natoms*norb_per_atom]` → `q[natoms]`
    Integers in decimal, floats as IEEE-754 bit patterns; an index `≥ nmol` answers `raise`. -/
def handle (toks : List String) : Option String :=
  match toks with
  | "total_energy" :: nmolS :: npS :: rest => do
    let nmol ← nmolS.toNat?
    let np ← npS.toNat?
    if rest.length ≠ np + np + nmol then none else
    let pm ← Util.natList? (rest.take np)
    let en ← Util.floatList? ((rest.drop np).take np)
    let ee ← Util.floatList? (rest.drop (np + np))
    if pm.any (fun i => decide (nmol ≤ i)) then pure "raise" else
    let (etot, enuc) := totalEnergy nmol pm en ee
    pure (Util.showFloats (etot ++ enuc))
  | "heat_formation" :: nmolS :: naS :: rest => do
    let nmol ← nmolS.toNat?
    let na ← naS.toNat?
    if rest.length ≠ na + nmol + na + na then none else
    let am ← Util.natList? (rest.take na)
    let etot ← Util.floatList? ((rest.drop na).take nmol)
    let eiso ← Util.floatList? ((rest.drop (na + nmol)).take na)
    let eheat ← Util.floatList? (rest.drop (na + nmol + na))
    if am.any (fun i => decide (nmol ≤ i)) then pure "raise" else
    let (hf, es) := heatFormation true am etot eiso eheat
    pure (Util.showFloats (hf ++ es))
  | "gap_rhf" :: nS :: noccS :: rest => do
    let n ← nS.toNat?
    let nocc ← noccS.toNat?
    if rest.length ≠ n then none else
    let e ← Util.floatList? rest
    match gapRHF e nocc with
    | some g => pure (Util.showFloat g)
    | none => pure "raise"
  | "charges" :: naS :: norbS :: rest => do
    let na ← naS.toNat?
    let norb ← norbS.toNat?
    if rest.length ≠ na + na * norb then none else
    let tore ← Util.floatList? (rest.take na)
    let pd ← Util.floatList? (rest.drop na)
    pure (Util.showFloats (atomicCharges na norb tore pd))
  | _ => none
-- DRIVER-HANDLER: Observables.handle

end Observables
