import PyseqmVerif.Model.Verlet
/-!
# Langevin thermostat (Bussi–Parrinello splitting) and the `set_dof` variants (core Lean only)

Mirrors `seqm/MolecularDynamics.py`:
* `Molecular_Dynamics_Langevin.initialize`
  ```
  s = -dt / damp ; c1 = exp(0.5 * s) ; one_me = -expm1(s)
  c2 = sqrt(one_me * Temp * mass_inverse) * VEL_SCALE
  ```
* `Molecular_Dynamics_Langevin._apply_langevin_thermostat`   `v.mul_(c1) ; v.add_(c2 * randn_like(v))`
* `Molecular_Dynamics_Langevin.one_step`   thermostat ; velocity Verlet ; thermostat
* `Molecular_Dynamics_Basic.set_dof`, `Molecular_Dynamics_Langevin.set_dof`, `XL_BOMD.set_dof`

`exp`, `expm1`, `sqrt` are parameters; the random draws `xi` are inputs (the RNG is external).
Same flattened `3 N` layout as `Verlet`.
-/
namespace Langevin
open Verlet

section
variable {α : Type} [Add α] [Sub α] [Mul α] [Div α] [Neg α] [OfScientific α]

/-- `s = -dt / damp` (Python: `(-dt) / damp`) -/
def langevinS (dt damp : α) : α := (-dt) / damp

/-- `langevin_c1 = exp(0.5 * s)` -/
def langevinC1 (exp : α → α) (dt damp : α) : α := exp (0.5 * langevinS dt damp)

/-- `one_me = -expm1(s)` -/
def oneMinusE (expm1 : α → α) (dt damp : α) : α := -(expm1 (langevinS dt damp))

/-- one entry of `langevin_c2 = sqrt(one_me * Temp * mass_inverse) * VEL_SCALE` -/
def langevinC2s (expm1 sqrt : α → α) (dt damp temp vel mi : α) : α :=
  sqrt (oneMinusE expm1 dt damp * temp * mi) * vel

/-- `langevin_c2` (one entry per flattened component) -/
def langevinC2 (expm1 sqrt : α → α) (dt damp temp vel : α) (minv : List α) : List α :=
  minv.map (langevinC2s expm1 sqrt dt damp temp vel)

/-- `_apply_langevin_thermostat`: `v.mul_(c1)` then `v.add_(c2 * xi)`, i.e. `v * c1 + c2 * xi` -/
def thermostat (c1 : α) (c2 v xi : List α) : List α :=
  List.zipWith (fun a b => a + b) (v.map (fun vi => vi * c1)) (List.zipWith (fun ci xii => ci * xii) c2 xi)

/-- `Molecular_Dynamics_Langevin.one_step`; `xi1`, `xi2` are the two `randn_like` draws -/
def langevinStep (force : List α → List α) (accScale dt : α) (minv : List α)
    (c1 : α) (c2 xi1 xi2 : List α) (s : State α) : State α :=
  let s0 : State α := { s with v := thermostat c1 c2 s.v xi1 }
  let s1 := vvStep force accScale dt minv s0
  { s1 with v := thermostat c1 c2 s1.v xi2 }

/-- `Molecular_Dynamics_Basic.set_dof`: `3.0 * num_atoms - constraints` -/
def setDofBasic (numAtoms constraints : α) : α := 3.0 * numAtoms - constraints

/-- `Molecular_Dynamics_Langevin.set_dof`: `3.0 * num_atoms` (constraints ignored) -/
def setDofLangevin (numAtoms _constraints : α) : α := 3.0 * numAtoms

/-- `XL_BOMD.set_dof`: `if damp is not None: constraints = 0.0` then `3.0 * num_atoms - constraints` -/
def setDofXL (dampSet : Bool) (numAtoms constraints : α) : α :=
  3.0 * numAtoms - (if dampSet then 0.0 else constraints)

end

/-! ## Float instantiation -/

/-- `expm1` at `Float` by Kahan's trick (core Lean has no `Float.expm1`) -/
def expm1F (x : Float) : Float :=
  let u := Float.exp x
  if u == 1.0 then x
  else if u - 1.0 == -1.0 then -1.0
  else (u - 1.0) * x / Float.log u

/-- Operations (floats as decimal IEEE-754 bit patterns, `n` decimal):
* `langevin_c dt damp temp vel n minv[n]` → `c1 c2[n]`
* `langevin_apply c1 n v[n] c2[n] xi[n]` → `v'[n]`
* `setdof kind numAtoms constraints` → `n_dof`, `kind` decimal:
  `0` Basic, `1` Langevin, `2` XL_BOMD with `damp` set, `3` XL_BOMD with `damp = None` -/
def handle (toks : List String) : Option String :=
  match toks with
  | "langevin_c" :: dt :: damp :: temp :: vel :: n :: rest => do
    let dt ← Util.floatTok? dt
    let damp ← Util.floatTok? damp
    let temp ← Util.floatTok? temp
    let vel ← Util.floatTok? vel
    let n ← n.toNat?
    match ← blocks? n 1 rest with
    | [minv] =>
      pure (Util.showFloats (langevinC1 Float.exp dt damp :: langevinC2 expm1F Float.sqrt dt damp temp vel minv))
    | _ => none
  | "langevin_apply" :: c1 :: n :: rest => do
    let c1 ← Util.floatTok? c1
    let n ← n.toNat?
    match ← blocks? n 3 rest with
    | [v, c2, xi] => pure (Util.showFloats (thermostat c1 c2 v xi))
    | _ => none
  | ["setdof", kind, na, cons] => do
    let kind ← kind.toNat?
    let na ← Util.floatTok? na
    let cons ← Util.floatTok? cons
    match kind with
    | 0 => pure (Util.showFloat (setDofBasic na cons))
    | 1 => pure (Util.showFloat (setDofLangevin na cons))
    | 2 => pure (Util.showFloat (setDofXL true na cons))
    | 3 => pure (Util.showFloat (setDofXL false na cons))
    | _ => none
  | _ => none
-- DRIVER-HANDLER: Langevin.handle

end Langevin
