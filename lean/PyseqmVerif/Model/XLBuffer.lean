import PyseqmVerif.Model.Util
/-!
# XL-BOMD auxiliary-density propagation: coefficient vector, circular history buffer, restart
(core Lean only, scalar-polymorphic; a "density" is one scalar, the Python acts elementwise)

Mirrors `seqm/MolecularDynamics.py`:
* `XL_BOMD.__init__`            → `mkTmp`, `mkCoeff`, `mkCoeffD`
* `XL_BOMD._propagate_P`        → `propagate`
* `KSA_XL_BOMD._propagate_P`    → `propagateKSA`
* `XL_BOMD.one_step` (the three lines `cindx = step % m; P = _propagate_P(..); Pt[m-1-cindx] = P`)
                                → `stepAt`, `step` (and `stepAtKSA`, `stepKSA`)
* `XL_BOMD.initialize` (`P = dm.clone(); Pt = dm.expand(m, ..).clone()`) → `init`
* `Molecular_Dynamics_Basic.run` (`for i in range(step_offset, steps): one_step(i)`) → `xlRun`,
  `xlRunFrom`
* `Molecular_Dynamics_Basic.run_from_checkpoint`
  (`cindx = (step_done - 1) % m; P = Pt[m - 1 - cindx]`)       → `restoreIndex`, `restorePhase`

Floating point operation order of `_propagate_P`:
`coeff_D * (c*D + (1.0 - c)*P) + torch.sum(coeff[cindx:cindx+m] * Pt, dim=0)` with the literal
`c = 0.95`; the reduction over `dim 0` accumulates slot `0, 1, …, m-1` sequentially from the left,
starting from the first product.  (Measured against torch 2.x on CPU: this is the order of the
16-column vectorised outer-reduction path of `SumKernel.cpp`, which is the one taken by every
element of a density of shape `(nmol, 4·molsize, 4·molsize)`; tensors whose non-reduced numel is not
a multiple of 16 — e.g. a `(1,1,1)` "scalar density" — are summed with 4 interleaved partial sums
and differ from this model in the last bits for `m ≥ 5`.)
-/
namespace XLBuffer

section generic
variable {α : Type} [Add α] [Sub α] [Mul α] [OfScientific α] [OfNat α 0]

/-- `torch.sum(t, dim=0)`: sequential accumulation from the first element (empty sum is 0) -/
def sumSeq : List α → α
  | [] => 0
  | x :: xs => xs.foldl (· + ·) x

/-- the Python slice `coeff[cindx : cindx + m]` -/
def window (coeff : List α) (cindx m : Nat) : List α := (coeff.drop cindx).take m

/-- `torch.sum(self.coeff[cindx:(cindx+self.m)].reshape(-1,1,1,1) * Pt, dim=0)` -/
def histTerm (coeff : List α) (m cindx : Nat) (Pt : List α) : α :=
  sumSeq (List.zipWith (· * ·) (window coeff cindx m) Pt)

/-- `XL_BOMD._propagate_P` -/
def propagate (coeffD : α) (coeff : List α) (m cindx : Nat) (D P : α) (Pt : List α) : α :=
  let c : α := 0.95
  coeffD * (c * D + (1.0 - c) * P) + histTerm coeff m cindx Pt

/-- `KSA_XL_BOMD._propagate_P` (`d2` is `molecule.dP2dt2`) -/
def propagateKSA (coeffD : α) (coeff : List α) (m cindx : Nat) (d2 P : α) (Pt : List α) : α :=
  coeffD * (d2 + P) + histTerm coeff m cindx Pt

/-- `P = self._propagate_P(P, Pt, cindx, molecule); Pt[self.m - 1 - cindx] = P` -/
def stepAt (coeffD : α) (coeff : List α) (m cindx : Nat) (D P : α) (Pt : List α) : α × List α :=
  let Pn := propagate coeffD coeff m cindx D P Pt
  (Pn, Pt.set (m - 1 - cindx) Pn)

def stepAtKSA (coeffD : α) (coeff : List α) (m cindx : Nat) (d2 P : α) (Pt : List α) : α × List α :=
  let Pn := propagateKSA coeffD coeff m cindx d2 P Pt
  (Pn, Pt.set (m - 1 - cindx) Pn)

/-- the density part of `XL_BOMD.one_step(molecule, step, P, Pt)`: `cindx = step % self.m` -/
def step (coeffD : α) (coeff : List α) (m stepIdx : Nat) (D P : α) (Pt : List α) : α × List α :=
  stepAt coeffD coeff m (stepIdx % m) D P Pt

def stepKSA (coeffD : α) (coeff : List α) (m stepIdx : Nat) (d2 P : α) (Pt : List α) : α × List α :=
  stepAtKSA coeffD coeff m (stepIdx % m) d2 P Pt

/-- `XL_BOMD.initialize`: `P = dm`, `Pt` = `m` copies of `dm` -/
def init (m : Nat) (dm : α) : α × List α := (dm, List.replicate m dm)

/-- the uninterrupted run: state `(P, Pt)` after `n` steps (`one_step` is called with the 0-based
    loop index `i = 0 … n-1`; `D i` is `molecule.dm` as seen by the `i`-th call) -/
def xlRun (coeffD : α) (coeff : List α) (m : Nat) (D : Nat → α) (P0 : α) : Nat → α × List α
  | 0 => init m P0
  | n+1 =>
    let s := xlRun coeffD coeff m D P0 n
    step coeffD coeff m n (D n) s.1 s.2

def xlRunKSA (coeffD : α) (coeff : List α) (m : Nat) (d2 : Nat → α) (P0 : α) : Nat → α × List α
  | 0 => init m P0
  | n+1 =>
    let s := xlRunKSA coeffD coeff m d2 P0 n
    stepKSA coeffD coeff m n (d2 n) s.1 s.2

/-- `for i in range(step_offset, step_offset + j)`: `j` further steps from the state `st` -/
def xlRunFrom (coeffD : α) (coeff : List α) (m : Nat) (D : Nat → α) (offset : Nat) (st : α × List α) :
    Nat → α × List α
  | 0 => st
  | j+1 =>
    let s := xlRunFrom coeffD coeff m D offset st j
    step coeffD coeff m (offset + j) (D (offset + j)) s.1 s.2

/-- `XL_BOMD.__init__`: `tmp = as_tensor(coeffs[k][2:]) * alpha; tmp[0] += 2.0 - cc*kappa;
    tmp[1] -= 1.0` with the literal `cc = 1.00` -/
def mkTmp (kappa alpha : α) (cs : List α) : List α :=
  let cc : α := 1.00
  let tmp := cs.map (· * alpha)
  let tmp := tmp.modify 0 (· + (2.0 - cc * kappa))
  tmp.modify 1 (· - 1.0)

/-- `self.coeff = tmp.repeat(2)` -/
def mkCoeff (kappa alpha : α) (cs : List α) : List α :=
  let tmp := mkTmp kappa alpha cs
  tmp ++ tmp

/-- `self.coeff_D = cc * self.kappa` -/
def mkCoeffD (kappa : α) : α := (1.00 : α) * kappa

end generic

/-- `m - 1 - ((step_done - 1) % m)` with Python's `%` (result in `[0, m)` also for `step_done = 0`) -/
def restoreIndex (m stepDone : Nat) : Nat :=
  m - 1 - (((stepDone : Int) - 1) % (m : Int)).toNat

/-- `run_from_checkpoint`: `P = Pt[m - 1 - cindx]` -/
def restorePhase {α : Type} (m stepDone : Nat) (Pt : List α) : Option α := Pt[restoreIndex m stepDone]?

/-! ## driver -/

/-- split `xs` into its first `n` elements and the rest (`none` if too short) -/
def splitExact {β : Type} (n : Nat) (xs : List β) : Option (List β × List β) :=
  if xs.length < n then none else some (xs.take n, xs.drop n)

def parseProp (rest : List String) : Option (Float × Nat × Nat × Float × Float × List Float × List Float) :=
  match rest with
  | cD :: ms :: cs :: a :: p :: more => do
    let coeffD ← Util.floatTok? cD
    let m ← ms.toNat?
    let cindx ← cs.toNat?
    let a ← Util.floatTok? a
    let p ← Util.floatTok? p
    let xs ← Util.floatList? more
    if m = 0 ∨ m ≤ cindx ∨ xs.length ≠ 3 * m then none
    else
      let (coeff, Pt) ← splitExact (2 * m) xs
      pure (coeffD, m, cindx, a, p, coeff, Pt)
  | _ => none

/--
* `xlprop coeffD m cindx D P coeff[0] … coeff[2m-1] Pt[0] … Pt[m-1]` → `Pnew Pt'[0] … Pt'[m-1]`
  (`XL_BOMD._propagate_P` followed by `Pt[m-1-cindx] = Pnew`);
* `xlpropksa coeffD m cindx dP2dt2 P coeff[0..2m-1] Pt[0..m-1]` → `Pnew Pt'[0] … Pt'[m-1]`
  (`KSA_XL_BOMD._propagate_P`, same buffer update);
* `xlrestore m step_done Pt[0] … Pt[m-1]` → `P` (`run_from_checkpoint`);
* `xlinit kappa alpha c_0 … c_k` → `coeff_D coeff[0] … coeff[2k+1]` (`XL_BOMD.__init__`, float64).

`m`, `cindx`, `step_done` are decimal naturals, everything else a decimal IEEE-754 bit pattern.
Malformed input (`m = 0`, `cindx ≥ m`, wrong number of tokens) is rejected. -/
def handle (toks : List String) : Option String :=
  match toks with
  | "xlprop" :: rest => do
    let (coeffD, m, cindx, D, P, coeff, Pt) ← parseProp rest
    let r := stepAt coeffD coeff m cindx D P Pt
    pure (Util.showFloats (r.1 :: r.2))
  | "xlpropksa" :: rest => do
    let (coeffD, m, cindx, d2, P, coeff, Pt) ← parseProp rest
    let r := stepAtKSA coeffD coeff m cindx d2 P Pt
    pure (Util.showFloats (r.1 :: r.2))
  | "xlrestore" :: ms :: sd :: more => do
    let m ← ms.toNat?
    let s ← sd.toNat?
    let Pt ← Util.floatList? more
    if m = 0 ∨ Pt.length ≠ m then none
    else
      let P ← restorePhase m s Pt
      pure (Util.showFloat P)
  | "xlinit" :: ka :: al :: more => do
    let kappa ← Util.floatTok? ka
    let alpha ← Util.floatTok? al
    let cs ← Util.floatList? more
    if cs.length < 2 then none
    else pure (Util.showFloats (mkCoeffD kappa :: mkCoeff kappa alpha cs))
  | _ => none
-- DRIVER-HANDLER: XLBuffer.handle

end XLBuffer
