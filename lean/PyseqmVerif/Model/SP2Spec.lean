import PyseqmVerif.Model.Util
/-!
# SP2 density-matrix purification acting on a spectrum (core Lean only)

Mirrors `seqm/seqm_functions/SP2.py`, function `SP2`, **float64 branch** (`flag = False`).

`SP2` only ever forms polynomials of the scaled Fock matrix `a0 = (hN·1 − a)/(hN − h1)`, and
`p(U D Uᵀ) = U p(D) Uᵀ`, so the whole iteration is determined by its action on the *occupations*
`x_i = (hN − λ_i)/(hN − h1) ∈ [0,1]` (`λ_i` the eigenvalues of `a`; low level ↔ occupation near 1):
`tr a0 = Σ x_i`, `tr a0² = Σ x_i²`, and the two branches are `x ↦ x²` and `x ↦ 2x − x²`.

Statement order and floating-point operation order as in the Python (`tr` sums left to right).
The Python loop is `while notconverged.any() and k < SP2_MAX_ITER:` (the cap `SP2_MAX_ITER = 200`
was added by the F4 fix; before it the loop was uncapped).  `loop`/`sp2Spectrum` take explicit
`fuel` and report whether the stopping rule was met within it; `sp2` is the live function
(`fuel = SP2_MAX_ITER`).  When the cap is hit the Python returns `factor * a0` exactly as when the
rule is met: no flag, no warning.

Padding (`scf_loop.make_Pnew_factory`, SP2 branch): the diagonal entries of zero-padded orbitals
are set to the Gershgorin bound `hN` before `SP2` is called, so their scaled occupation is exactly
`(hN − hN)/(hN − h1) = 0`, a fixed point of both branch maps.

Not modelled: the float32 stopping rule (`errm0 < eps ∧ errm0 ≥ errm2`).
-/
namespace SP2Spec

section
variable {α : Type} [Add α] [Sub α] [Mul α] [Div α] [OfScientific α] [OfNat α 0]
  [LT α] [DecidableLT α]

/-- `SP2_MAX_ITER` of `SP2.py` -/
def SP2_MAX_ITER : Nat := 200

/-- float64 branch of the `eps` clamp: `SP2_EPS_FLOAT64_MAX = 1e-3`, `SP2_EPS_FLOAT64_MIN = 1e-7` -/
def clampEps (eps : α) : α :=
  if (1.0e-3 : α) < eps then 1.0e-3 else if eps < (1.0e-7 : α) then 1.0e-7 else eps

/-- `torch.sum(a0.diagonal(...), dim=1)` for one molecule -/
def tr (xs : List α) : α := xs.foldl (· + ·) 0

/-- the Gershgorin scaling on the spectrum: diagonal of `(eye * hN − a) / (hN − h1)` -/
def scale (hN h1 : α) (lams : List α) : List α := lams.map fun l => (hN - l) / (hN - h1)

def sq (x : α) : α := x * x
def ex (x : α) : α := 2.0 * x - x * x

/-- `cond = |tr a2 − nocc| < |2 tr a0 − tr a2 − nocc|` -/
def cond (abs : α → α) (nocc : α) (xs : List α) : Bool :=
  let trA2 := tr (xs.map sq)
  decide (abs (trA2 - nocc) < abs (2.0 * tr xs - trA2 - nocc))

/-- `a0[cond1] = a2[cond1]` ; `a0[cond2] = 2.0 * a0[cond2] − a2[cond2]` -/
def step (abs : α → α) (nocc : α) (xs : List α) : List α :=
  if cond abs nocc xs then xs.map sq else xs.map ex

structure St (α : Type) where
  x : List α
  e0 : α      -- `errm0`
  e1 : α      -- `errm1`
  e2 : α      -- `errm2`
  k : Nat     -- iterations done
deriving Repr

/-- `errm0 = |tr a0 − nocc|; errm1 = errm0.clone(); errm2 = errm1.clone(); k = 0` -/
def init (abs : α → α) (nocc : α) (xs : List α) : St α :=
  let e := abs (tr xs - nocc)
  { x := xs, e0 := e, e1 := e, e2 := e, k := 0 }

/-- one pass through the body of the `while` -/
def iter (abs : α → α) (nocc : α) (s : St α) : St α :=
  let x' := step abs nocc s.x
  { x := x', e2 := s.e1, e1 := s.e0, e0 := abs (tr x' - nocc), k := s.k + 1 }

/-- float64 rule: leave the loop when `errm0 < eps` and `errm1 < eps` -/
def stop (eps : α) (s : St α) : Bool := decide (s.e0 < eps) && decide (s.e1 < eps)

/-- the `while` loop with fuel; second component: was the stopping rule met? -/
def loop (abs : α → α) (eps nocc : α) : Nat → St α → St α × Bool
  | 0, s => (s, false)
  | fuel+1, s =>
    let s' := iter abs nocc s
    if stop eps s' then (s', true) else loop abs eps nocc fuel s'

/-- `SP2(a, nocc, eps)/factor` on the occupations `xs` of `a0` -/
def sp2Spectrum (abs : α → α) (eps nocc : α) (fuel : Nat) (xs : List α) : St α × Bool :=
  loop abs (clampEps eps) nocc fuel (init abs nocc xs)

/-- the live `SP2(a, nocc, eps)/factor` on the occupations: the `while` is capped at `SP2_MAX_ITER` -/
def sp2 (abs : α → α) (eps nocc : α) (xs : List α) : St α × Bool :=
  sp2Spectrum abs eps nocc SP2_MAX_ITER xs

end

/-! ## driver -/

/-- `sp2_spectrum eps nocc fuel n x[n]` → `iters converged(0/1) x'[n]`

    * `eps` : float64 bit pattern of the *user* threshold (`sp2[1]`; the model applies the float64
      clamp into `[1e-7, 1e-3]` itself); `nocc`, `fuel`, `n` : decimal integers; `x[n]` : float64
      bit patterns of the diagonal of the scaled matrix `a0` (for a diagonal Fock matrix
      `diag(λ)`: `x_i = (hN − λ_i)/(hN − h1)`, `hN = max λ`, `h1 = min λ`).
    * answer: number of loop bodies executed, `1` iff the stopping rule was met within `fuel`
      bodies (`0` = fuel exhausted, the Python would still be looping), then the diagonal of `a0`
      on exit (the Python returns `factor * a0`).

    `sp2_live eps nocc n x[n]` → same answer format, with `fuel = SP2_MAX_ITER` (the live
    function: `converged = 0` means the Python left the loop through the cap). -/
def handle (toks : List String) : Option String :=
  match toks with
  | "sp2_spectrum" :: eps :: nocc :: fuel :: n :: rest => do
    let eps ← Util.floatTok? eps
    let nocc ← nocc.toNat?
    let fuel ← fuel.toNat?
    let n ← n.toNat?
    let xs ← Util.floatList? rest
    if xs.length ≠ n then none
    let r := sp2Spectrum Float.abs eps nocc.toFloat fuel xs
    pure (toString r.1.k ++ (if r.2 then " 1" else " 0") ++
          (if n = 0 then "" else " " ++ Util.showFloats r.1.x))
  | "sp2_live" :: eps :: nocc :: n :: rest => do
    let eps ← Util.floatTok? eps
    let nocc ← nocc.toNat?
    let n ← n.toNat?
    let xs ← Util.floatList? rest
    if xs.length ≠ n then none
    let r := sp2 Float.abs eps nocc.toFloat xs
    pure (toString r.1.k ++ (if r.2 then " 1" else " 0") ++
          (if n = 0 then "" else " " ++ Util.showFloats r.1.x))
  | _ => none
-- DRIVER-HANDLER: SP2Spec.handle

end SP2Spec
