import PyseqmVerif.Model.Util
/-!
# `pack` / `unpack` (`seqm/seqm_functions/pack.py`) and the block views of `hcore.py`/`fock.py`/
# `scf_loop.reshape_Hcore` as index maps — core Lean only

A matrix is a function `Nat → Nat → α` (row, column) together with its size; entries outside the
size are never read by the theorems (and are `zero` where a definition has to produce something).

Layout of the padded `size × size` matrix (`size = 4*molsize`) of one molecule under the
sorted-species convention: heavy atoms first, 4 orbitals each (`nho = 4*nHeavy` rows), then the
hydrogens, one s orbital every 4th row (`nho, nho+4, …, nho+4*(nHydro-1)`); all other rows and
columns are padding.  The packed matrix keeps exactly the orbital rows: `norb = nho + nHydro`.
-/
namespace Pack
variable {α : Type}

/-- packed orbital index ↦ row of the padded matrix: `i` for `i < nho`, the slice
    `nho : nho+4*nHydro : 4` afterwards -/
def up (nho : Nat) (i : Nat) : Nat := if i < nho then i else nho + 4 * (i - nho)

/-- the rows of the padded matrix that carry an orbital -/
def isOrb (nho nH : Nat) (I : Nat) : Bool :=
  decide (I < nho) || (decide (nho ≤ I) && decide (I < nho + 4 * nH) && ((I - nho) % 4 == 0))

/-- padded row ↦ packed orbital index (meaningful on `isOrb` rows) -/
def down (nho : Nat) (I : Nat) : Nat := if I < nho then I else nho + (I - nho) / 4

/-- `packone(x, nho, nHydro, norb)`: `x0 = zeros(norb, norb)` and the four slice assignments
    `x0[:nho,:nho] = x[:nho,:nho]`, `x0[:nho, nho:nho+nH] = x[:nho, nho:nho+4nH:4]`,
    `x0[nho:nho+nH, nho:nho+nH] = x[nho:nho+4nH:4, nho:nho+4nH:4]`,
    `x0[nho:nho+nH, :nho] = x[nho:nho+4nH:4, :nho]`.
    (`norb ≥ nho + nH`; in a batch with unequal molecules `norb` is the batch maximum and the
    remaining rows/columns stay zero.) -/
def pack (zero : α) (nho nH : Nat) (x : Nat → Nat → α) : Nat → Nat → α :=
  fun i j => if i < nho + nH ∧ j < nho + nH then x (up nho i) (up nho j) else zero

/-- `unpackone(x0, nho, nHydro, size)`: `x = zeros(size, size)` and the four inverse slice
    assignments (precondition of the Python: `nho + 4*nHydro ≤ size`, otherwise the slices have
    the wrong shape and torch raises) -/
def unpack (zero : α) (nho nH size : Nat) (y : Nat → Nat → α) : Nat → Nat → α :=
  fun I J =>
    if I < size ∧ J < size ∧ isOrb nho nH I = true ∧ isOrb nho nH J = true
    then y (down nho I) (down nho J) else zero

/-! ## block views

`hcore` and `fock` work on `M : (nmol*molsize*molsize, nbf, nbf)`; block `m*ms² + a*ms + b` is the
`(atom a, atom b)` block of molecule `m` (`maskd` addresses `a = b`, `mask` the blocks `a < b`). -/

/-- `reshape_Hcore`: `M.reshape(nmol, ms, ms, nbf, nbf).transpose(2, 3).reshape(nmol, nbf*ms, nbf*ms)`
    (the same expression ends `fock`) -/
def reshapeHcore (ms nbf : Nat) (M : Nat → Nat → Nat → α) : Nat → Nat → Nat → α :=
  fun m r c => M (m * (ms * ms) + (r / nbf) * ms + c / nbf) (r % nbf) (c % nbf)

/-- `P0.view(nmol, ms, nbf, ms, nbf).transpose(2, 3).reshape(-1, nbf, nbf)` (start of `fock`) -/
def toBlocks (ms nbf : Nat) (P : Nat → Nat → Nat → α) : Nat → Nat → Nat → α :=
  fun blk x y => P (blk / (ms * ms)) (((blk % (ms * ms)) / ms) * nbf + x) ((blk % ms) * nbf + y)

/-! ## driver -/

/-- the index-valued test matrix `X[I][J] = 1 + I*ncols + J` (so that `0` marks a zero-filled entry) -/
def idxMat (ncols : Nat) : Nat → Nat → Nat := fun I J => 1 + I * ncols + J

def listOf (n : Nat) (x : Nat → Nat → Nat) : List Nat :=
  (List.range n).flatMap fun i => (List.range n).map fun j => x i j

/-- * `packidx nheavy nhydro molsize [norb]` → the `norb*norb` entries (row-major, space separated)
      of `pack(X, nheavy, nhydro)` for the `4*molsize × 4*molsize` matrix `X[I][J] = 1 + I*4*molsize + J`;
      `norb` defaults to `4*nheavy + nhydro` (single-matrix call), a larger `norb` is the batch case
      (`packone(x, nho, nHydro, norb)`); `0` = zero fill.
    * `unpackidx nheavy nhydro molsize size` → the `size*size` entries of `unpack(X0, nheavy, nhydro, size)`
      for the `norb × norb` matrix `X0[i][j] = 1 + i*norb + j`, `norb = 4*nheavy + nhydro`; `0` = zero fill.
    Both need `nheavy + nhydro ≤ molsize` (and `4*(nheavy+nhydro) ≤ size`); otherwise `bad-op`. -/
def handle (toks : List String) : Option String :=
  match toks with
  | "packidx" :: rest => do
    let ns ← Util.natList? rest
    match ns with
    | [nhv, nhy, ms] =>
      if nhv + nhy ≤ ms then
        pure (" ".intercalate ((listOf (4 * nhv + nhy) (pack 0 (4 * nhv) nhy (idxMat (4 * ms)))).map toString))
      else none
    | [nhv, nhy, ms, norb] =>
      if nhv + nhy ≤ ms ∧ 4 * nhv + nhy ≤ norb then
        pure (" ".intercalate ((listOf norb (pack 0 (4 * nhv) nhy (idxMat (4 * ms)))).map toString))
      else none
    | _ => none
  | "unpackidx" :: rest => do
    let ns ← Util.natList? rest
    match ns with
    | [nhv, nhy, ms, size] =>
      if nhv + nhy ≤ ms ∧ 4 * (nhv + nhy) ≤ size then
        pure (" ".intercalate ((listOf size (unpack 0 (4 * nhv) nhy size (idxMat (4 * nhv + nhy)))).map toString))
      else none
    | _ => none
  | _ => none
-- DRIVER-HANDLER: Pack.handle

end Pack
