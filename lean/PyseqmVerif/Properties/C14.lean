import PyseqmVerif.Proofs.ObservablesLemmas
/-!
# C14 — reported observables are mutually consistent

"For every calculation the total energy equals electronic plus nuclear energy (plus the
active-state excitation energy), the heat of formation equals total energy minus isolated-atom
energies plus atomic heats, the gap equals LUMO minus HOMO of the reported ascending orbital
energies which are the eigenvalues of the reported Fock operator, atomic charges follow from the
density matrix and sum to the molecular charge, and the dipole moment is the one implied by those
charges and the density (translation-invariant for neutral molecules, shifting by charge times
displacement for ions)."

Model: `Model/Observables.lean` (mirrors `energy.py`, `Energy.forward`, `atomic_charges`,
`dipole.py`), instantiated at `ℝ`.  `slotSum idx src m` is the exact sum of the `src[k]` with
`idx[k] = m`.  Not covered here (external kernels, checked by probes): that `e` are the eigenvalues
of the reported `F`, and that `tr P` equals the electron count (C03).
-/
namespace C14
open Observables

theorem getElem?_of_lt {l : List ℝ} {m : Nat} (hm : m < l.length) : l[m]? = some (l.getD m 0) := by
  simp [List.getD_eq_getElem?_getD, List.getElem?_eq_getElem hm]

/-! ## total energy -/

/-- `Etot[m] = Eelec[m] + Σ_{k : pair_molid[k] = m} EnucAB[k]` and `Enuc[m]` is that sum, for any
    number of pairs in any order (a molecule without pairs gets `Enuc = 0`) -/
theorem etot_eq_eelec_plus_enuc (nmol : Nat) (pairMolid : List Nat) (EnucAB Eelec : List ℝ)
    (hlen : Eelec.length = nmol) (m : Nat) (hm : m < nmol) :
    (totalEnergy nmol pairMolid EnucAB Eelec).1[m]? =
      some (Eelec.getD m 0 + slotSum pairMolid EnucAB m) ∧
    (totalEnergy nmol pairMolid EnucAB Eelec).2[m]? = some (slotSum pairMolid EnucAB m) := by
  unfold totalEnergy
  simp only
  have h2 : (indexAdd (List.replicate nmol (0 : ℝ)) pairMolid EnucAB)[m]? =
      some (slotSum pairMolid EnucAB m) := by
    rw [indexAdd_getElem?]; simp [hm]
  refine ⟨?_, h2⟩
  rw [List.getElem?_zipWith, h2, getElem?_of_lt (by omega : m < Eelec.length)]

/-- with `Etot += Eexcited`: `Etot[m] = Eelec[m] + Enuc[m] + Eexcited[m]` -/
theorem etot_with_excitation (nmol : Nat) (pairMolid : List Nat) (EnucAB Eelec Eexc : List ℝ)
    (hlen : Eelec.length = nmol) (hlen' : Eexc.length = nmol) (m : Nat) (hm : m < nmol) :
    (addExcited (totalEnergy nmol pairMolid EnucAB Eelec).1 Eexc)[m]? =
      some (Eelec.getD m 0 + slotSum pairMolid EnucAB m + Eexc.getD m 0) := by
  unfold addExcited
  rw [List.getElem?_zipWith, (etot_eq_eelec_plus_enuc nmol pairMolid EnucAB Eelec hlen m hm).1,
    getElem?_of_lt (by omega : m < Eexc.length)]

/-! ## heat of formation -/

/-- `Hf[m] = Etot[m] − Σ_{A∈m} Eiso_A + Σ_{A∈m} eheat_A`; the reported `Eiso[m]` is `Σ_{A∈m} Eiso_A`;
    with `flag=False` the heats are left out -/
theorem hf_identity (atomMolid : List Nat) (Etot Eiso eheat : List ℝ) (m : Nat) (hm : m < Etot.length) :
    (heatFormation true atomMolid Etot Eiso eheat).1[m]? =
      some (Etot.getD m 0 - slotSum atomMolid Eiso m + slotSum atomMolid eheat m) ∧
    (heatFormation true atomMolid Etot Eiso eheat).2[m]? = some (slotSum atomMolid Eiso m) ∧
    (heatFormation false atomMolid Etot Eiso eheat).1[m]? =
      some (Etot.getD m 0 - slotSum atomMolid Eiso m) := by
  have hz : ∀ src : List ℝ, (indexAdd (Etot.map fun _ => (0 : ℝ)) atomMolid src)[m]? =
      some (slotSum atomMolid src m) := by
    intro src
    rw [indexAdd_getElem?, List.getElem?_map, List.getElem?_eq_getElem hm]
    simp
  unfold heatFormation
  simp only [if_true, Bool.false_eq_true, if_false]
  refine ⟨?_, hz Eiso, ?_⟩
  · rw [List.getElem?_zipWith, List.getElem?_zipWith, hz Eiso, hz eheat, getElem?_of_lt hm]
  · rw [List.getElem?_zipWith, hz Eiso, getElem?_of_lt hm]

/-- `Eiso` of one atom is the parameter/occupation-count contraction of `elec_energy_isolated_atom` -/
theorem eiso_atom_formula (uss upp gss gpp gsp gp2 hsp ussc uppc gssc gppc gspc gp2c hspc : ℝ) :
    eisoAtom uss upp gss gpp gsp gp2 hsp ussc uppc gssc gppc gspc gp2c hspc =
      ussc * uss + uppc * upp + gssc * gss + gppc * gpp + gspc * gsp + gp2c * gp2 + hspc * hsp := by
  unfold eisoAtom; ring

/-! ## gap -/

/-- For `0 < nocc < len(e)` the reported gap is `e[nocc] − e[nocc−1]`; when the reported orbital
    energies are ascending, `e[nocc−1]` is the highest occupied and `e[nocc]` the lowest virtual
    level, and the gap is non-negative.  For `nocc = 0` or `nocc ≥ len(e)` there is no gap
    (the Python `gather` raises). -/
theorem gap_is_lumo_minus_homo (e : List ℝ) (nocc : Nat) :
    (0 < nocc → nocc < e.length →
      gapRHF e nocc = some (e.getD nocc 0 - e.getD (nocc - 1) 0) ∧
      (e.Pairwise (· ≤ ·) →
        (∀ i, i < nocc → e.getD i 0 ≤ e.getD (nocc - 1) 0) ∧
        (∀ j, nocc ≤ j → j < e.length → e.getD nocc 0 ≤ e.getD j 0) ∧
        0 ≤ e.getD nocc 0 - e.getD (nocc - 1) 0)) ∧
    (nocc = 0 ∨ e.length ≤ nocc → gapRHF e nocc = none) := by
  constructor
  · intro h0 h1
    have h1' : nocc - 1 < e.length := by omega
    constructor
    · unfold gapRHF
      rw [if_neg (by omega), getElem?_of_lt h1, getElem?_of_lt h1']
    · intro hs
      have key : ∀ i j, i ≤ j → j < e.length → e.getD i 0 ≤ e.getD j 0 := by
        intro i j hij hj
        have hi : i < e.length := by omega
        rw [← List.getElem_eq_getD (h := hi) 0, ← List.getElem_eq_getD (h := hj) 0]
        rcases Nat.lt_or_eq_of_le hij with h | h
        · exact (List.pairwise_iff_getElem.mp hs) i j hi hj h
        · subst h; exact le_refl _
      refine ⟨fun i hi => key i (nocc - 1) (by omega) h1', fun j hj hj' => key nocc j hj hj', ?_⟩
      have := key (nocc - 1) nocc (by omega) h1
      linarith
  · intro h
    unfold gapRHF
    rcases h with h | h
    · rw [if_pos h]
    · by_cases h0 : nocc = 0
      · rw [if_pos h0]
      · rw [if_neg h0]
        have : e[nocc]? = none := by rw [List.getElem?_eq_none_iff]; exact h
        rw [this]

/-! ## atomic charges -/

/-- `Σ_A q_A = Σ_A tore_A − tr P` for the atoms of a molecule, hence `= Q` (the molecular charge)
    exactly when the density matrix carries `Σ_A tore_A − Q` electrons (`tr P = N_el`, which is what
    the SCF density satisfies, C03) -/
theorem charges_sum_to_molecular_charge (natoms norb : Nat) (tore Pdiag : List ℝ)
    (ht : tore.length = natoms) (hp : Pdiag.length = natoms * norb) :
    (atomicCharges natoms norb tore Pdiag).sum = tore.sum - Pdiag.sum ∧
    ∀ Q : ℝ, (Pdiag.sum = tore.sum - Q ↔ (atomicCharges natoms norb tore Pdiag).sum = Q) := by
  have h : (atomicCharges natoms norb tore Pdiag).sum = tore.sum - Pdiag.sum := by
    unfold atomicCharges
    simp only [sumL_eq_sum]
    rw [sum_map_sub', sum_eq_sum_range_getD tore, sum_eq_sum_range_getD Pdiag, ht, hp, sum_range_mul]
  refine ⟨h, fun Q => ?_⟩
  rw [h]
  constructor <;> intro hh <;> linarith

/-- each `q_A` is `tore_A` minus the atom's diagonal-block trace -/
theorem charge_of_atom (natoms norb : Nat) (tore Pdiag : List ℝ) (A : Nat) (hA : A < natoms) :
    (atomicCharges natoms norb tore Pdiag)[A]? =
      some (tore.getD A 0 - ((List.range norb).map fun k => Pdiag.getD (A * norb + k) 0).sum) := by
  unfold atomicCharges
  rw [List.getElem?_map, List.getElem?_range hA]
  simp [sumL_eq_sum]

/-! ## dipole -/

/-- translate every atom of the molecule by `t` -/
def shift (t : Nat → ℝ) (a : DAtom ℝ) : DAtom ℝ := { a with R := fun d => a.R d + t d }

/-- the electron population that `calc_ground_dipole` attaches to the atom's position: the full
    block trace for heavy atoms (`Z > 2`), `P[0,0]` for hydrogen, nothing for `Z = 2`/padding -/
def dipolePop (a : DAtom ℝ) : ℝ :=
  if 2 < a.Z then a.P 0 0 + a.P 1 1 + a.P 2 2 + a.P 3 3 else if a.Z = 1 then a.P 0 0 else 0

/-- the sp-hybridisation term of one atom: `−dd·(P[0,d+1] + P[d+1,0])` for heavy atoms -/
def hybrid (a : DAtom ℝ) (d : Nat) : ℝ :=
  if 2 < a.Z ∧ d < 3 then - a.dd * (a.P 0 (d + 1) + a.P (d + 1) 0) else 0

/-- the total charge seen by the dipole code -/
def dipoleCharge (atoms : List (DAtom ℝ)) : ℝ := (atoms.map fun a => a.tore - dipolePop a).sum

theorem elecDipoleAtom_shift (a : DAtom ℝ) (t : Nat → ℝ) (d : Nat) :
    elecDipoleAtom (shift t a) d = elecDipoleAtom a d - dipolePop a * t d := by
  unfold elecDipoleAtom dipolePop
  simp only [sumL_eq_sum]
  by_cases hZ : 2 < a.Z
  · simp [dipoleBlock, shift, hZ, List.range_succ]
    ring
  · by_cases h1 : a.Z = 1
    · simp [dipoleBlock, shift, h1, List.range_succ]
      ring
    · simp [dipoleBlock, shift, hZ, h1, List.range_succ]

/-- `μ_d = (Σ_A (tore_A − pop_A)·R_A,d + Σ_A hybrid_A,d) · to_debye · debye_to_AU`: the point-charge
    dipole of the charges plus the one-centre sp-hybridisation term -/
theorem dipole_is_charges_plus_hybrid (c1 c2 : ℝ) (atoms : List (DAtom ℝ)) (d : Nat) :
    groundDipole c1 c2 atoms d =
      ((atoms.map fun a => (a.tore - dipolePop a) * a.R d).sum + (atoms.map fun a => hybrid a d).sum)
        * c1 * c2 := by
  unfold groundDipole
  simp only [sumL_eq_sum]
  have hatom : ∀ a : DAtom ℝ, elecDipoleAtom a d = hybrid a d - dipolePop a * a.R d := by
    intro a
    unfold elecDipoleAtom dipolePop hybrid
    simp only [sumL_eq_sum]
    by_cases hZ : 2 < a.Z
    · by_cases hd : d < 3
      · have : d = 0 ∨ d = 1 ∨ d = 2 := by omega
        rcases this with rfl | rfl | rfl <;> simp [dipoleBlock, hZ, List.range_succ] <;> ring
      · have e0 : ¬ d = 0 := by omega
        have e1 : ¬ d = 1 := by omega
        have e2 : ¬ d = 2 := by omega
        simp [dipoleBlock, hZ, hd, List.range_succ, e0, e1, e2]
        ring
    · by_cases h1 : a.Z = 1
      · simp [dipoleBlock, h1, List.range_succ]
      · simp [dipoleBlock, hZ, h1, List.range_succ]
  simp only [hatom]
  congr 2
  induction atoms with
  | nil => simp
  | cons a l ih =>
    simp only [List.map_cons, List.sum_cons] at ih ⊢
    linarith

/-- translation law: `μ(R + t) = μ(R) + Q·t` (times the unit factors), for every displacement and
    every density -/
theorem dipole_translation_law (c1 c2 : ℝ) (atoms : List (DAtom ℝ)) (t : Nat → ℝ) (d : Nat) :
    groundDipole c1 c2 (atoms.map (shift t)) d =
      groundDipole c1 c2 atoms d + dipoleCharge atoms * t d * c1 * c2 := by
  unfold groundDipole dipoleCharge
  simp only [sumL_eq_sum, List.map_map, Function.comp_def, elecDipoleAtom_shift]
  have h1 : ((atoms.map fun a => (shift t a).tore * (shift t a).R d).sum) =
      (atoms.map fun a => a.tore * a.R d).sum + (atoms.map fun a => a.tore).sum * t d := by
    rw [← sum_map_add_mul]
    congr 1
    apply List.map_congr_left
    intro a _
    simp only [shift]; ring
  rw [h1, sum_map_sub_mul, sum_map_sub']
  ring

/-- hence the dipole is translation invariant iff the molecule is neutral (for non-zero unit
    factors; "if" holds unconditionally) -/
theorem dipole_invariant_iff_neutral (c1 c2 : ℝ) (hc : c1 * c2 ≠ 0) (atoms : List (DAtom ℝ)) :
    (∀ t d, groundDipole c1 c2 (atoms.map (shift t)) d = groundDipole c1 c2 atoms d) ↔
      dipoleCharge atoms = 0 := by
  constructor
  · intro h
    have := h (fun _ => 1) 0
    rw [dipole_translation_law] at this
    have h2 : dipoleCharge atoms * (c1 * c2) = 0 := by linarith
    rcases mul_eq_zero.mp h2 with h3 | h3
    · exact h3
    · exact absurd h3 hc
  · intro h t d
    rw [dipole_translation_law, h]; ring

/-- the charge seen by the dipole code is the sum of the reported atomic charges
    `q_A = tore_A − tr P_AA` provided hydrogens carry no p population and slots that are neither
    heavy nor hydrogen carry no population at all (true for the zero-padded SCF density) -/
theorem dipole_charge_eq_sum_of_atomic_charges (atoms : List (DAtom ℝ))
    (hH : ∀ a ∈ atoms, a.Z = 1 → a.P 1 1 = 0 ∧ a.P 2 2 = 0 ∧ a.P 3 3 = 0)
    (hpad : ∀ a ∈ atoms, ¬ 2 < a.Z → a.Z ≠ 1 → a.P 0 0 + a.P 1 1 + a.P 2 2 + a.P 3 3 = 0) :
    dipoleCharge atoms = (atoms.map fun a => a.tore - (a.P 0 0 + a.P 1 1 + a.P 2 2 + a.P 3 3)).sum := by
  unfold dipoleCharge
  congr 1
  apply List.map_congr_left
  intro a ha
  unfold dipolePop
  by_cases hZ : 2 < a.Z
  · simp [hZ]
  · by_cases h1 : a.Z = 1
    · obtain ⟨e1, e2, e3⟩ := hH a ha h1
      simp [h1, e1, e2, e3]
    · simp [hZ, h1, hpad a ha hZ h1]

/-! ## electronic energy -/

/-- `h = Hcore.triu() + Hcore.triu(1).T` is symmetric and agrees with `Hcore` on the upper triangle -/
theorem symmetrizeUpper_symm (H : Nat → Nat → ℝ) (i j : Nat) :
    symmetrizeUpper H i j = symmetrizeUpper H j i ∧ (i ≤ j → symmetrizeUpper H i j = H i j) := by
  unfold symmetrizeUpper
  constructor
  · by_cases h : i ≤ j
    · by_cases h' : j ≤ i
      · have : i = j := by omega
        subst this; rfl
      · rw [if_pos h, if_neg h']
    · rw [if_neg h, if_pos (by omega)]
  · intro h; rw [if_pos h]

/-- `Eelec = ½ Σ_ij P_ij (h_ij + F_ij) = ½ Σ_ij P_ij h_ij + ½ Σ_ij P_ij F_ij`, and for symmetric
    `h`, `F` this is `½ tr(P (h + F))` (`Σ_i Σ_j P_ij (h+F)_ji`) -/
theorem elec_energy_symmetric_form (n : Nat) (P h F : Nat → Nat → ℝ) :
    elecEnergy n P h F =
      (1 / 2) * ((List.range n).map fun i => ((List.range n).map fun j => P i j * h i j).sum).sum +
      (1 / 2) * ((List.range n).map fun i => ((List.range n).map fun j => P i j * F i j).sum).sum ∧
    ((∀ i j, h i j = h j i) → (∀ i j, F i j = F j i) →
      elecEnergy n P h F =
        (1 / 2) * ((List.range n).map fun i =>
          ((List.range n).map fun j => P i j * (h j i + F j i)).sum).sum) := by
  constructor
  · unfold elecEnergy
    simp only [sumL_eq_sum]
    have : ∀ i, ((List.range n).map fun j => P i j * (h i j + F i j)).sum =
        ((List.range n).map fun j => P i j * h i j).sum + ((List.range n).map fun j => P i j * F i j).sum := by
      intro i
      rw [← List.sum_map_add]
      congr 1
      apply List.map_congr_left
      intro j _; ring
    simp only [this, List.sum_map_add]
    norm_num
    ring
  · intro hh hF
    unfold elecEnergy
    simp only [sumL_eq_sum]
    have e : (fun i => ((List.range n).map fun j => P i j * (h i j + F i j)).sum) =
        (fun i => ((List.range n).map fun j => P i j * (h j i + F j i)).sum) := by
      funext i; congr 2; funext j; rw [hh i j, hF i j]
    rw [e]
    norm_num

/-! ## non-vacuity -/

/-- two molecules, three pairs (two in molecule 0, one in molecule 1) -/
example : (totalEnergy 2 [0, 0, 1] [1, 2, 4] [(10 : ℝ), 20]).1 = [13, 24] := by
  simp [totalEnergy, indexAdd, List.zipIdx]
  norm_num

example : gapRHF [(-3 : ℝ), -1, 2, 5] 2 = some 3 := by
  simp [gapRHF]; norm_num

/-- one heavy atom with `tore = 4` and populations `1.5, 1, 1, 0.5`: `q = 0` -/
example : (atomicCharges 1 4 [(4 : ℝ)] [1.5, 1, 1, 0.5]).sum = 0 := by
  rw [(charges_sum_to_molecular_charge 1 4 [4] [1.5, 1, 1, 0.5] rfl rfl).1]
  norm_num

example : (heatFormation true [0, 0, 1] [(5 : ℝ), 7] [1, 2, 3] [10, 20, 30]).1[1]? = some (7 - 3 + 30) := by
  rw [(hf_identity [0, 0, 1] [5, 7] [1, 2, 3] [10, 20, 30] 1 (by decide)).1]
  simp [slotSum]

/-- a charged "molecule" (one H with population 0: a proton) — its dipole is not translation invariant -/
example : dipoleCharge [{ Z := 1, tore := 1, R := fun _ => 0, P := fun _ _ => 0, dd := 0 }] = 1 := by
  simp [dipoleCharge, dipolePop]

end C14
