import PyseqmVerif.Model.CoreCore
import PyseqmVerif.Model.ElecEnergy
import PyseqmVerif.Properties.C02
import Mathlib.LinearAlgebra.Matrix.Trace
import Mathlib.Analysis.SpecialFunctions.ExpDeriv
import Mathlib.Analysis.SpecialFunctions.Sqrt
import Mathlib.Analysis.Calculus.Deriv.Inv
import Mathlib.Analysis.Calculus.Deriv.Mul
import Mathlib.Analysis.Calculus.Deriv.Pow
import Mathlib.Analysis.Calculus.Deriv.Add
import Mathlib.Tactic.IntervalCases
import Mathlib.Tactic.NoncommRing
import Mathlib.Tactic.Ring
import Mathlib.Tactic.FieldSimp
import Mathlib.Tactic.Linarith
import Mathlib.Tactic.NormNum
/-!
# C01 — forces are −∇E

"For every supported Hamiltonian, SCF solver, spin treatment, molecular charge and active electronic
state, the force returned for each atom equals minus the derivative of the returned total energy with
respect to that atom's Cartesian coordinates, to the accuracy implied by the SCF threshold. The three
selectable force evaluators (reverse-mode differentiation, analytical, semi-numerical) therefore agree
with a finite-difference derivative of the energy and with each other. Padding atoms receive exactly
zero force."

Proved here (closed-shell ground state, sp basis; the rest of the lattice is probe-only, DESIGN §5-C01):

1. `energy_expansion`, `hf_stationary`, `hf_defect_identity`: the Hellmann–Feynman cut made by
   `Force.forward` / `SCF0.backward` (density detached) is exact at self-consistency; for an unconverged
   density the error is `tr([ρ,F][Δ,ρ])`.
2. `energy_affine_in_integrals`: at fixed `P` the Dewar–Yamaguchi contraction is the exact variation.
3. `core_core_der_is_derivative` (+ `_radial`, `_cartesian`): the model of `core_core_der` is the derivative
   of the model of `pair_nuclear_energy` for MNDO / AM1 / PM3, normal and N–H/O–H case.  No mismatch found.
   `rotq_grad_is_derivative` (+ `_partial_derivative`): the `dRdv` returned by `rotate_with_quaternion` is the
   derivative of the returned rotation outside the antipodal branch.
4. **KNOWN DEFECT F1** `hpp_preprocessing_consistent_counterexample` / `hpp_preprocessing_mismatch_witness`:
   `w_der` (`anal_grad.py:566`) recomputes `hpp` without the `clamp_min(0.1)` of the energy path
   (`two_elec_two_center_int.py:120–122`); they agree iff `½(gpp − gp2) ≥ 0.1` (`hpp_mismatch_iff`).
   PM3 Cl (`gpp = 7.522215`, `gp2 = 7.504154`) is a witness; so are PM3 Be, Mg, Ga, As, Sb, Te, Hg, Tl, Pb.
   The analytical evaluator therefore differentiates a different energy function for these elements.
5. `padding_force_zero`, `padding_grad_zero_assembled`, `net_force_zero`.
-/

namespace C01
open CoreCore

/-! ## 1. Hellmann–Feynman (lifted from prototype B.3) -/

section hf
open Matrix
variable {n : Type*} [Fintype n] [DecidableEq n]

/-- `F(P) = h + G(P)`; `G` is the (linear) two-electron contraction -/
def fock (h : Matrix n n ℝ) (G : Matrix n n ℝ →ₗ[ℝ] Matrix n n ℝ) (P : Matrix n n ℝ) : Matrix n n ℝ :=
  h + G P

/-- `E(P; h, G, Enuc) = ½⟨P, h + F(P)⟩ + Enuc` with `⟨A, B⟩ = tr(A B)`
    (`elec_energy` + `total_energy`; see `elecEnergy_model_eq_trace` for the tie to the executable model) -/
noncomputable def energy (h : Matrix n n ℝ) (G : Matrix n n ℝ →ₗ[ℝ] Matrix n n ℝ) (Enuc : ℝ) (P : Matrix n n ℝ) : ℝ :=
  (1/2 : ℝ) * trace (P * (h + fock h G P)) + Enuc

/-- Exact second-order expansion: for `G` linear and self-adjoint,
    `E(P+Δ) = E(P) + ⟨F(P), Δ⟩ + ½⟨Δ, GΔ⟩`. -/
theorem energy_expansion (G : Matrix n n ℝ →ₗ[ℝ] Matrix n n ℝ)
    (hsa : ∀ A B, trace (A * G B) = trace (B * G A)) (h P Δ : Matrix n n ℝ) (Enuc : ℝ) :
    energy h G Enuc (P + Δ)
      = energy h G Enuc P + trace (fock h G P * Δ) + (1/2 : ℝ) * trace (Δ * G Δ) := by
  rw [trace_mul_comm (fock h G P) Δ]
  simp only [energy, fock, map_add, add_mul, mul_add, trace_add]
  rw [hsa P Δ]
  ring

/-- Hellmann–Feynman: at a self-consistent (`[F, ρ] = 0`) idempotent density `ρ = P/2` the first-order
    energy change along any tangent direction `Δ = ρΔ(1−ρ) + (1−ρ)Δρ` vanishes, so the derivative at fixed
    `P` (what autograd computes with the density detached, and what the analytical evaluator contracts)
    is the total derivative. -/
theorem hf_stationary (F ρ Δ : Matrix n n ℝ)
    (hid : ρ * ρ = ρ) (hcomm : F * ρ = ρ * F)
    (htan : Δ = ρ * Δ * (1 - ρ) + (1 - ρ) * Δ * ρ) :
    trace (F * Δ) = 0 := by
  have hq : (1 - ρ) * ρ = 0 := by rw [sub_mul, one_mul, hid, sub_self]
  have hq' : ρ * (1 - ρ) = 0 := by rw [mul_sub, mul_one, hid, sub_self]
  have hcomm' : F * (1 - ρ) = (1 - ρ) * F := by rw [mul_sub, sub_mul, mul_one, one_mul, hcomm]
  rw [htan, mul_add, trace_add]
  have t1 : trace (F * (ρ * Δ * (1 - ρ))) = 0 := by
    have : F * (ρ * Δ * (1 - ρ)) = (F * ρ * Δ) * (1 - ρ) := by noncomm_ring
    rw [this, trace_mul_comm, ← mul_assoc, ← mul_assoc, ← hcomm', mul_assoc F, hq]
    simp
  have t2 : trace (F * ((1 - ρ) * Δ * ρ)) = 0 := by
    have : F * ((1 - ρ) * Δ * ρ) = (F * (1 - ρ) * Δ) * ρ := by noncomm_ring
    rw [this, trace_mul_comm, ← mul_assoc, ← mul_assoc, ← hcomm, mul_assoc F, hq']
    simp
  rw [t1, t2, add_zero]

/-- the same in terms of `P = 2ρ`, as the property is phrased -/
theorem hf_stationary_P (h : Matrix n n ℝ) (G : Matrix n n ℝ →ₗ[ℝ] Matrix n n ℝ) (P Δ : Matrix n n ℝ)
    (hid : ((1/2 : ℝ) • P) * ((1/2 : ℝ) • P) = (1/2 : ℝ) • P)
    (hcomm : fock h G P * P = P * fock h G P)
    (htan : Δ = ((1/2 : ℝ) • P) * Δ * (1 - (1/2 : ℝ) • P) + (1 - (1/2 : ℝ) • P) * Δ * ((1/2 : ℝ) • P)) :
    trace (fock h G P * Δ) = 0 := by
  apply hf_stationary (fock h G P) ((1/2 : ℝ) • P) Δ hid _ htan
  rw [Matrix.mul_smul, Matrix.smul_mul, hcomm]

/-- Unconverged density: for idempotent `ρ` and tangent `Δ`, `⟨F, Δ⟩ = tr([ρ, F]·[Δ, ρ])` — the
    Hellmann–Feynman defect is bilinear in the SCF commutator residual (what the SCF threshold bounds) and in
    the density response. -/
theorem hf_defect_identity (F ρ Δ : Matrix n n ℝ) (hid : ρ * ρ = ρ)
    (htan : Δ = ρ * Δ * (1 - ρ) + (1 - ρ) * Δ * ρ) :
    trace (F * Δ) = trace ((ρ * F - F * ρ) * (Δ * ρ - ρ * Δ)) := by
  have e1 : (ρ * F - F * ρ) * (Δ * ρ - ρ * Δ)
      = ρ * (F * Δ * ρ) - ρ * (F * ρ * Δ) - F * ρ * Δ * ρ + F * (ρ * ρ) * Δ := by noncomm_ring
  have e2 : F * Δ = F * (ρ * Δ) + F * Δ * ρ - (F * ρ * Δ * ρ + F * ρ * Δ * ρ) := by
    conv_lhs => rw [htan]
    noncomm_ring
  rw [e1, hid]
  simp only [trace_sub, trace_add]
  rw [trace_mul_comm ρ (F * Δ * ρ), trace_mul_comm ρ (F * ρ * Δ)]
  have a1 : F * Δ * ρ * ρ = F * Δ * ρ := by rw [mul_assoc, hid]
  have a2 : F * ρ * Δ * ρ = F * ρ * Δ * ρ := rfl
  rw [a1]
  conv_lhs => rw [e2]
  simp only [trace_sub, trace_add]
  have a3 : F * (ρ * Δ) = F * ρ * Δ := by rw [mul_assoc]
  rw [a3]
  ring

/-- `hf_stationary` is the special case `[ρ, F] = 0` of the defect identity -/
example (F ρ Δ : Matrix n n ℝ) (hid : ρ * ρ = ρ) (hcomm : F * ρ = ρ * F)
    (htan : Δ = ρ * Δ * (1 - ρ) + (1 - ρ) * Δ * ρ) : trace (F * Δ) = 0 := by
  rw [hf_defect_identity F ρ Δ hid htan, hcomm]; simp

/-! ## 2. the energy is affine in the integrals at fixed `P` -/

/-- At fixed `P`: `E(P; h+δh, G+δG, Enuc+δE) − E(P; h, G, Enuc) = ⟨P, δh⟩ + ½⟨P, δG(P)⟩ + δE` exactly.
    With `δh`, `δG`, `δE` the coordinate derivatives of the integrals this is the contraction done by
    `contract_ao_derivatives_with_density`. -/
theorem energy_affine_in_integrals (h δh : Matrix n n ℝ) (G δG : Matrix n n ℝ →ₗ[ℝ] Matrix n n ℝ)
    (Enuc δE : ℝ) (P : Matrix n n ℝ) :
    energy (h + δh) (G + δG) (Enuc + δE) P - energy h G Enuc P
      = trace (P * δh) + (1/2 : ℝ) * trace (P * δG P) + δE := by
  simp only [energy, fock, LinearMap.add_apply, mul_add, trace_add]
  ring

end hf

/-- non-vacuity of `hf_stationary` / `hf_defect_identity`: a 2×2 self-consistent state with a non-zero
    tangent direction -/
example : ∃ F ρ Δ : Matrix (Fin 2) (Fin 2) ℝ, ρ * ρ = ρ ∧ F * ρ = ρ * F ∧
    Δ = ρ * Δ * (1 - ρ) + (1 - ρ) * Δ * ρ ∧ Δ ≠ 0 := by
  refine ⟨!![1, 0; 0, 2], !![1, 0; 0, 0], !![0, 1; 1, 0], ?_, ?_, ?_, ?_⟩
  · ext i j; fin_cases i <;> fin_cases j <;> simp [Matrix.mul_apply, Fin.sum_univ_two]
  · ext i j; fin_cases i <;> fin_cases j <;> simp [Matrix.mul_apply, Fin.sum_univ_two]
  · ext i j; fin_cases i <;> fin_cases j <;>
      simp [Matrix.mul_apply, Fin.sum_univ_two, Matrix.one_apply, Matrix.sub_apply, Matrix.vecMul,
        dotProduct]
  · intro h
    have := congrFun (congrFun h 0) 1
    simp at this

/-! ### tie to the executable model `ElecEnergy.elecEnergy` (`energy.py:47`) -/

section tie
open Finset

theorem sumRange_eq (n : Nat) (f : Nat → ℝ) : ElecEnergy.sumRange n f = ∑ i ∈ range n, f i := by
  have key : ∀ (l : List Nat) (a : ℝ), l.foldl (fun acc i => acc + f i) a = a + (l.map f).sum := by
    intro l
    induction l with
    | nil => intro a; simp
    | cons x xs ih => intro a; rw [List.foldl_cons, ih, List.map_cons, List.sum_cons]; ring
  rw [ElecEnergy.sumRange, key, zero_add]
  induction n with
  | zero => simp
  | succ k ih => rw [List.range_succ, List.map_append, List.sum_append, ih, sum_range_succ]; simp

/-- the code's elementwise `0.5 * sum(P * (h + F))` is `½ tr(P (h + F))` when `h + F` is symmetric -/
theorem elecEnergy_model_eq_trace (n : Nat) (P h F : Nat → Nat → ℝ)
    (hsym : ∀ i j, h i j + F i j = h j i + F j i) :
    ElecEnergy.elecEnergy n P h F
      = (1/2 : ℝ) * Matrix.trace ((Matrix.of fun i j : Fin n => P i j) *
          ((Matrix.of fun i j : Fin n => h i j) + (Matrix.of fun i j : Fin n => F i j))) := by
  simp only [ElecEnergy.elecEnergy, sumRange_eq, Matrix.trace, Matrix.diag, Matrix.mul_apply,
    Matrix.add_apply, Matrix.of_apply]
  rw [Finset.sum_range]
  have : (0.5 : ℝ) = 1/2 := by norm_num
  rw [this]
  congr 1
  apply Finset.sum_congr rfl
  intro i _
  rw [Finset.sum_range]
  apply Finset.sum_congr rfl
  intro j _
  rw [hsym]

/-- `Hcore.triu() + Hcore.triu(1).transpose(1,2)` is symmetric -/
theorem hFromUpper_symm (H : Nat → Nat → ℝ) (i j : Nat) :
    ElecEnergy.hFromUpper H i j = ElecEnergy.hFromUpper H j i := by
  simp only [ElecEnergy.hFromUpper]
  rcases lt_trichotomy i j with h | h | h
  · simp [h.le, h, not_le.mpr h, not_lt.mpr h.le]
  · subst h; simp
  · simp [h.le, h, not_le.mpr h, not_lt.mpr h.le]

end tie

/-! ## 3. `core_core_der` is the derivative of `pair_nuclear_energy` -/

section corecore
open Real

theorem one_lit : (1.0 : ℝ) = 1 := by norm_num
theorem two_lit : (2.0 : ℝ) = 2 := by norm_num

/-- `pow(·, -3)` at `ℝ` -/
noncomputable def powNeg3 (r : ℝ) : ℝ := r ^ (-3 : ℤ)

theorem foldl_add_eq {β : Type} (f : β → ℝ) (l : List β) (a : ℝ) :
    l.foldl (fun acc g => acc + f g) a = a + (l.map f).sum := by
  induction l generalizing a with
  | nil => simp
  | cons x xs ih => rw [List.foldl_cons, ih, List.map_cons, List.sum_cons]; ring

theorem gaussSum_eq (r : ℝ) (gs : List (Gauss ℝ)) :
    gaussSum exp r gs = (gs.map (gaussTerm exp r)).sum := by
  rw [gaussSum, foldl_add_eq, zero_add]

theorem gaussDerSum_eq (r : ℝ) (gs : List (Gauss ℝ)) :
    gaussDerSum exp r gs = (gs.map (gaussDerTerm exp r)).sum := by
  rw [gaussDerSum, foldl_add_eq, zero_add]

/-- one Gaussian along a curve `ρ(t)` -/
theorem gaussTerm_hasDerivAt (g : Gauss ℝ) (ρ : ℝ → ℝ) (ρ' t0 : ℝ) (hρ : HasDerivAt ρ ρ' t0) :
    HasDerivAt (fun t => gaussTerm exp (ρ t) g) (-2 * gaussDerTerm exp (ρ t0) g * ρ') t0 := by
  have h1 : HasDerivAt (fun t => ρ t - g.M) ρ' t0 := hρ.sub_const g.M
  have h2 : HasDerivAt (fun t => (ρ t - g.M) * (ρ t - g.M)) (ρ' * (ρ t0 - g.M) + (ρ t0 - g.M) * ρ') t0 :=
    h1.mul h1
  have h3 : HasDerivAt (fun t => exp (-g.L * ((ρ t - g.M) * (ρ t - g.M))))
      (exp (-g.L * ((ρ t0 - g.M) * (ρ t0 - g.M))) * (-g.L * (ρ' * (ρ t0 - g.M) + (ρ t0 - g.M) * ρ'))) t0 :=
    (h2.const_mul (-g.L)).exp
  have h4 := h3.const_mul g.K
  simp only [gaussTerm, gaussDerTerm]
  refine h4.congr_deriv ?_
  ring

theorem gaussSum_hasDerivAt (gs : List (Gauss ℝ)) (ρ : ℝ → ℝ) (ρ' t0 : ℝ) (hρ : HasDerivAt ρ ρ' t0) :
    HasDerivAt (fun t => gaussSum exp (ρ t) gs) (-2 * gaussDerSum exp (ρ t0) gs * ρ') t0 := by
  simp only [gaussSum_eq, gaussDerSum_eq]
  induction gs with
  | nil => simpa using hasDerivAt_const t0 (0:ℝ)
  | cons g gs ih =>
    simp only [List.map_cons, List.sum_cons]
    refine ((gaussTerm_hasDerivAt g ρ ρ' t0 hρ).add ih).congr_deriv ?_
    ring

/-- the scaling function `g = 1 + t2 + t3` along a curve; the derivative is `−(prefactor·tmp + α_j t3)·ρ'`
    with the `prefactor` of `core_core_der` -/
theorem scaleG_hasDerivAt (ai aj : ℝ) (xh : Bool) (ρ : ℝ → ℝ) (ρ' t0 : ℝ) (hρ : HasDerivAt ρ ρ' t0) :
    HasDerivAt (fun t => scaleG exp ai aj (ρ t) xh)
      (-(((if xh then ai * ρ t0 - 1.0 else ai) * exp (-ai * ρ t0) + aj * exp (-aj * ρ t0)) * ρ')) t0 := by
  have hi : HasDerivAt (fun t => exp (-ai * ρ t)) (exp (-ai * ρ t0) * (-ai * ρ')) t0 :=
    (hρ.const_mul (-ai)).exp
  have hj : HasDerivAt (fun t => exp (-aj * ρ t)) (exp (-aj * ρ t0) * (-aj * ρ')) t0 :=
    (hρ.const_mul (-aj)).exp
  cases xh
  · simp only [scaleG, Bool.false_eq_true, if_false]
    refine (((hasDerivAt_const t0 (1.0:ℝ)).add hi).add hj).congr_deriv ?_
    ring
  · simp only [scaleG, if_true]
    refine (((hasDerivAt_const t0 (1.0:ℝ)).add (hi.mul hρ)).add hj).congr_deriv ?_
    rw [one_lit]; ring

/-- **Main statement.**  Let the pair distance `ρ(t)` (Å) and the `(ss|ss)` integral `γ(t)` vary along any
    one-parameter motion with `ρ'(t₀) = −Xc/ρ(t₀)` (atom `i` displaced along Cartesian axis `c`,
    `Xc = (X_j − X_i)_c`) and `γ'(t₀) = wxc` (what `w_x[:, c, 0, 0]` supplies).  Then the value computed by
    `core_core_der` is the derivative of `pair_nuclear_energy` — for MNDO, AM1 and PM3, for the normal and for
    the N–H/O–H (`isXH`) case, and for any number of Gaussians. -/
theorem core_core_der_is_derivative (m : Method) (ti tj ai aj : ℝ) (xh : Bool) (gi gj : List (Gauss ℝ))
    (γ ρ : ℝ → ℝ) (t0 Xc wxc : ℝ) (hR : ρ t0 ≠ 0)
    (hγ : HasDerivAt γ wxc t0) (hρ : HasDerivAt ρ (-Xc / ρ t0) t0) :
    HasDerivAt (fun t => pairNuclearEnergy exp m ti tj (γ t) ai aj (ρ t) xh gi gj)
      (coreCoreDer exp powNeg3 m ti tj (γ t0) ai aj (ρ t0) xh gi gj Xc wxc) t0 := by
  have hg := scaleG_hasDerivAt ai aj xh ρ _ t0 hρ
  have hmndo : HasDerivAt (fun t => ti * tj * γ t * scaleG exp ai aj (ρ t) xh)
      (ti * tj * wxc * scaleG exp ai aj (ρ t0) xh + ti * tj * γ t0 *
        -(((if xh then ai * ρ t0 - 1.0 else ai) * exp (-ai * ρ t0) + aj * exp (-aj * ρ t0))
          * (-Xc / ρ t0))) t0 := (hγ.const_mul (ti * tj)).mul hg
  have hgi := gaussSum_hasDerivAt gi ρ _ t0 hρ
  have hgj := gaussSum_hasDerivAt gj ρ _ t0 hρ
  have ht4 : HasDerivAt (fun t => ti * tj / ρ t) ((0 * ρ t0 - ti * tj * (-Xc / ρ t0)) / ρ t0 ^ 2) t0 :=
    (hasDerivAt_const t0 (ti * tj)).div hρ hR
  have hgauss : HasDerivAt (fun t => ti * tj / ρ t * (gaussSum exp (ρ t) gi + gaussSum exp (ρ t) gj))
      ((0 * ρ t0 - ti * tj * (-Xc / ρ t0)) / ρ t0 ^ 2 * (gaussSum exp (ρ t0) gi + gaussSum exp (ρ t0) gj)
        + ti * tj / ρ t0 * (-2 * gaussDerSum exp (ρ t0) gi * (-Xc / ρ t0)
            + -2 * gaussDerSum exp (ρ t0) gj * (-Xc / ρ t0))) t0 := ht4.mul (hgi.add hgj)
  have hp3 : powNeg3 (ρ t0) = 1 / (ρ t0)^3 := by
    simp [powNeg3, zpow_neg, zpow_ofNat]
  cases m
  · -- MNDO
    simp only [pairNuclearEnergy, coreCoreDer]
    refine hmndo.congr_deriv ?_
    cases xh <;> simp only [scaleG, if_true, if_false, Bool.false_eq_true, one_lit] <;> field_simp <;> ring
  · -- AM1
    simp only [pairNuclearEnergy, coreCoreDer]
    refine (hmndo.add hgauss).congr_deriv ?_
    rw [hp3]
    cases xh <;> simp only [scaleG, if_true, if_false, Bool.false_eq_true, one_lit, two_lit] <;>
      field_simp <;> ring
  · -- PM3
    simp only [pairNuclearEnergy, coreCoreDer]
    refine (hmndo.add hgauss).congr_deriv ?_
    rw [hp3]
    cases xh <;> simp only [scaleG, if_true, if_false, Bool.false_eq_true, one_lit, two_lit] <;>
      field_simp <;> ring

/-- Radial form: with `γ` a differentiable function of the distance, `dE/dR` is the code's value for
    `Xc = −R`, `wxc = γ'(R)` (moving atom `j` outward along the bond). -/
theorem core_core_der_is_derivative_radial (m : Method) (ti tj ai aj : ℝ) (xh : Bool)
    (gi gj : List (Gauss ℝ)) (γ : ℝ → ℝ) (R γ' : ℝ) (hR : R ≠ 0) (hγ : HasDerivAt γ γ' R) :
    HasDerivAt (fun r => pairNuclearEnergy exp m ti tj (γ r) ai aj r xh gi gj)
      (coreCoreDer exp powNeg3 m ti tj (γ R) ai aj R xh gi gj (-R) γ') R := by
  have hρ : HasDerivAt (fun r : ℝ => r) (-(-R) / R) R := by
    have : -(-R) / R = 1 := by field_simp
    rw [this]; exact hasDerivAt_id R
  exact core_core_der_is_derivative m ti tj ai aj xh gi gj γ (fun r => r) R (-R) γ' hR hγ hρ

/-- distance as a function of the displacement `t` of atom `i` along the axis whose pair-vector component
    is `a` (`b`, `c` are the other two components of `X_j − X_i`) -/
theorem dist_hasDerivAt (a b c : ℝ) (h : a*a + b*b + c*c ≠ 0) :
    HasDerivAt (fun t => sqrt ((a - t)*(a - t) + b*b + c*c)) (-a / sqrt (a*a + b*b + c*c)) 0 := by
  have h1 : HasDerivAt (fun t : ℝ => a - t) (-1) 0 := by
    simpa using (hasDerivAt_id (0:ℝ)).const_sub a
  have h2 : HasDerivAt (fun t : ℝ => (a - t)*(a - t) + b*b + c*c) (-1 * (a - 0) + (a - 0) * -1) 0 :=
    ((h1.mul h1).add_const (b*b)).add_const (c*c)
  have h3 := h2.sqrt (by simpa using h)
  refine h3.congr_deriv ?_
  simp only [sub_zero]
  field_simp
  ring

/-- Cartesian form: `core_core_der(...)[pair, c]` is `∂ EnucAB / ∂ X_{i,c}`, given that `w_x[pair, c, 0, 0]`
    is `∂ gam / ∂ X_{i,c}`. -/
theorem core_core_der_is_derivative_cartesian (m : Method) (ti tj ai aj : ℝ) (xh : Bool)
    (gi gj : List (Gauss ℝ)) (γ : ℝ → ℝ) (a b c wxc : ℝ) (h : a*a + b*b + c*c ≠ 0)
    (hγ : HasDerivAt γ wxc 0) :
    HasDerivAt
      (fun t => pairNuclearEnergy exp m ti tj (γ t) ai aj (sqrt ((a - t)*(a - t) + b*b + c*c)) xh gi gj)
      (coreCoreDer exp powNeg3 m ti tj (γ 0) ai aj (sqrt (a*a + b*b + c*c)) xh gi gj a wxc) 0 := by
  have hpos : 0 < a*a + b*b + c*c :=
    lt_of_le_of_ne (by nlinarith [mul_self_nonneg a, mul_self_nonneg b, mul_self_nonneg c]) (Ne.symm h)
  have hR : sqrt ((a - 0)*(a - 0) + b*b + c*c) ≠ 0 := by
    rw [sub_zero]; exact (sqrt_pos.mpr hpos).ne'
  have hρ := dist_hasDerivAt a b c h
  have := core_core_der_is_derivative m ti tj ai aj xh gi gj γ
    (fun t => sqrt ((a - t)*(a - t) + b*b + c*c)) 0 a wxc hR hγ (by simpa using hρ)
  simpa using this

/-- non-vacuity: O–H pair of PM3-like shape (two Gaussians each, XH case), Klopman–Ohno `γ`, `R = 1 Å` -/
example : ∃ (γ : ℝ → ℝ) (γ' : ℝ), HasDerivAt γ γ' 1 ∧ (1:ℝ) ≠ 0 ∧
    HasDerivAt (fun r => pairNuclearEnergy exp .PM3 6 1 (γ r) 3 3 r true
        [⟨-1, 6, 1⟩, ⟨1, 6, 2⟩] [⟨1, 5, 1⟩, ⟨0, 6, 2⟩])
      (coreCoreDer exp powNeg3 .PM3 6 1 (γ 1) 3 3 1 true
        [⟨-1, 6, 1⟩, ⟨1, 6, 2⟩] [⟨1, 5, 1⟩, ⟨0, 6, 2⟩] (-1) γ') 1 := by
  refine ⟨fun r => 14 / (r + 1), -(14 / (1 + 1)^2), ?_, one_ne_zero, ?_⟩
  · have h : HasDerivAt (fun r : ℝ => r + 1) 1 1 := (hasDerivAt_id (1:ℝ)).add_const 1
    have := (hasDerivAt_const (1:ℝ) (14:ℝ)).div h (by norm_num)
    refine this.congr_deriv ?_
    norm_num
  · apply core_core_der_is_derivative_radial _ _ _ _ _ _ _ _ _ 1 _ one_ne_zero
    have h : HasDerivAt (fun r : ℝ => r + 1) 1 1 := (hasDerivAt_id (1:ℝ)).add_const 1
    have := (hasDerivAt_const (1:ℝ) (14:ℝ)).div h (by norm_num)
    refine this.congr_deriv ?_
    norm_num

end corecore

/-! ## 3b. `dRdv` of `rotate_with_quaternion(v, calculate_gradient=True)` is the derivative of the rotation

Outside the antipodal branch (strictly: `eps < |1 + v_x|`, so that the branch condition is locally constant).
Inside the branch the code returns `dRdv = 0` (`C02.antipodal_grad_zero`), the derivative of the frozen —
wrong — frame (F2). -/

section rotgrad
open Rotation C02 Real

theorem hasDerivAt_of_eq {f g : ℝ → ℝ} {f' g' t0 : ℝ} (h : HasDerivAt g g' t0) (hf : ∀ t, f t = g t)
    (hd : f' = g') : HasDerivAt f f' t0 := by
  have : f = g := funext hf
  rw [this, hd]; exact h

theorem quad_hasDerivAt (c0 c1 c2 c3 c4 c5 : ℝ) (y z w : ℝ → ℝ) (dy dz dw t0 : ℝ)
    (hy : HasDerivAt y dy t0) (hz : HasDerivAt z dz t0) (hw : HasDerivAt w dw t0) :
    HasDerivAt (fun t => c0 + c1 * (y t * y t) + c2 * (z t * z t) + c3 * (y t * z t)
        + c4 * (y t * w t) + c5 * (z t * w t))
      (c1 * (2 * y t0 * dy) + c2 * (2 * z t0 * dz) + c3 * (dy * z t0 + y t0 * dz)
        + c4 * (dy * w t0 + y t0 * dw) + c5 * (dz * w t0 + z t0 * dw)) t0 := by
  have hyy : HasDerivAt (fun t => y t * y t) (dy * y t0 + y t0 * dy) t0 := hy.mul hy
  have hzz : HasDerivAt (fun t => z t * z t) (dz * z t0 + z t0 * dz) t0 := hz.mul hz
  have hyz : HasDerivAt (fun t => y t * z t) (dy * z t0 + y t0 * dz) t0 := hy.mul hz
  have hyw : HasDerivAt (fun t => y t * w t) (dy * w t0 + y t0 * dw) t0 := hy.mul hw
  have hzw : HasDerivAt (fun t => z t * w t) (dz * w t0 + z t0 * dw) t0 := hz.mul hw
  have h := HasDerivAt.add (HasDerivAt.add (HasDerivAt.add (HasDerivAt.add (HasDerivAt.add
    (hasDerivAt_const t0 c0) (hyy.const_mul c1)) (hzz.const_mul c2)) (hyz.const_mul c3))
    (hyw.const_mul c4)) (hzw.const_mul c5)
  exact hasDerivAt_of_eq h (fun t => rfl) (by ring)

/-- `dr_dq` is the gradient of the nine entries with respect to the quaternion -/
theorem rotOfQ_hasDerivAt (y z w : ℝ → ℝ) (dx dy dz dw t0 : ℝ)
    (hy : HasDerivAt y dy t0) (hz : HasDerivAt z dz t0) (hw : HasDerivAt w dw t0)
    (i j : Nat) (hi : i < 3) (hj : j < 3) (hdx : dx = 0) :
    HasDerivAt (fun t => (rotOfQ (y t) (z t) (w t)).get i j)
      (drdq (y t0) (z t0) (w t0) i j 0 * dx + drdq (y t0) (z t0) (w t0) i j 1 * dy
        + drdq (y t0) (z t0) (w t0) i j 2 * dz + drdq (y t0) (z t0) (w t0) i j 3 * dw) t0 := by
  subst hdx
  have Q := fun c0 c1 c2 c3 c4 c5 => quad_hasDerivAt c0 c1 c2 c3 c4 c5 y z w dy dz dw t0 hy hz hw
  interval_cases i <;> interval_cases j <;> simp only [M3.get, rotOfQ, drdq]
  · exact hasDerivAt_of_eq (Q 1 (-2) (-2) 0 0 0) (fun t => by ring) (by ring)
  · exact hasDerivAt_of_eq (Q 0 0 0 0 0 (-2)) (fun t => by ring) (by ring)
  · exact hasDerivAt_of_eq (Q 0 0 0 0 2 0) (fun t => by ring) (by ring)
  · exact hasDerivAt_of_eq (Q 0 0 0 0 0 2) (fun t => by ring) (by ring)
  · exact hasDerivAt_of_eq (Q 1 0 (-2) 0 0 0) (fun t => by ring) (by ring)
  · exact hasDerivAt_of_eq (Q 0 0 0 2 0 0) (fun t => by ring) (by ring)
  · exact hasDerivAt_of_eq (Q 0 0 0 0 (-2) 0) (fun t => by ring) (by ring)
  · exact hasDerivAt_of_eq (Q 0 0 0 2 0 0) (fun t => by ring) (by ring)
  · exact hasDerivAt_of_eq (Q 1 (-2) 0 0 0 0) (fun t => by ring) (by ring)

/-- the model on the regular chart, with the norm exactly as `qNorm` writes it -/
theorem rotq_regular_raw (eps vx vy vz : ℝ) (h : eps ≤ |1 + vx|) :
    rotR eps vx vy vz =
      rotOfQ (vz / Real.sqrt (0*0 + vz*vz + -vy * -vy + (1+vx)*(1+vx)))
             (-vy / Real.sqrt (0*0 + vz*vz + -vy * -vy + (1+vx)*(1+vx)))
             ((1+vx) / Real.sqrt (0*0 + vz*vz + -vy * -vy + (1+vx)*(1+vx))) := by
  have hm : ¬ |1 + vx| < eps := not_lt.mpr h
  simp only [rotR, rotq, qRaw, inAntipodal, qNorm, C02.one_lit, hm, decide_false, Bool.false_eq_true,
    if_false]


/-- normalised raw-quaternion curve `(0, a, b, c)/N`: derivative of every frame entry, written in the shape
    of the code (`dN = (q_raw · q_raw')/N`, `dq = (q_raw' N − q_raw dN)/N²`, `dR = dr_dq · dq`) -/
theorem rotOfQ_normalised_hasDerivAt (a b c : ℝ → ℝ) (a' b' c' : ℝ)
    (ha : HasDerivAt a a' 0) (hb : HasDerivAt b b' 0) (hc : HasDerivAt c c' 0)
    (hS : 0 < (0:ℝ)*0 + a 0 * a 0 + b 0 * b 0 + c 0 * c 0) (i j : Nat) (hi : i < 3) (hj : j < 3) :
    HasDerivAt
      (fun t => (rotOfQ (a t / Real.sqrt (0*0 + a t * a t + b t * b t + c t * c t))
        (b t / Real.sqrt (0*0 + a t * a t + b t * b t + c t * c t))
        (c t / Real.sqrt (0*0 + a t * a t + b t * b t + c t * c t))).get i j)
      (let n := Real.sqrt (0*0 + a 0 * a 0 + b 0 * b 0 + c 0 * c 0)
       let dn := (0 * 0 + a 0 * a' + b 0 * b' + c 0 * c') / n
       drdq (a 0 / n) (b 0 / n) (c 0 / n) i j 0 * ((0 * n - 0 * dn) / (n * n))
        + drdq (a 0 / n) (b 0 / n) (c 0 / n) i j 1 * ((a' * n - a 0 * dn) / (n * n))
        + drdq (a 0 / n) (b 0 / n) (c 0 / n) i j 2 * ((b' * n - b 0 * dn) / (n * n))
        + drdq (a 0 / n) (b 0 / n) (c 0 / n) i j 3 * ((c' * n - c 0 * dn) / (n * n))) 0 := by
  have hSd : HasDerivAt (fun t => (0:ℝ)*0 + a t * a t + b t * b t + c t * c t)
      (0 + (a' * a 0 + a 0 * a') + (b' * b 0 + b 0 * b') + (c' * c 0 + c 0 * c')) 0 :=
    HasDerivAt.add (HasDerivAt.add (HasDerivAt.add (hasDerivAt_const 0 ((0:ℝ)*0)) (ha.mul ha))
      (hb.mul hb)) (hc.mul hc)
  have hN : HasDerivAt (fun t => Real.sqrt ((0:ℝ)*0 + a t * a t + b t * b t + c t * c t))
      ((0 + (a' * a 0 + a 0 * a') + (b' * b 0 + b 0 * b') + (c' * c 0 + c 0 * c'))
        / (2 * Real.sqrt ((0:ℝ)*0 + a 0 * a 0 + b 0 * b 0 + c 0 * c 0))) 0 := hSd.sqrt hS.ne'
  have hN0 : Real.sqrt ((0:ℝ)*0 + a 0 * a 0 + b 0 * b 0 + c 0 * c 0) ≠ 0 := (Real.sqrt_pos.mpr hS).ne'
  generalize hn : Real.sqrt ((0:ℝ)*0 + a 0 * a 0 + b 0 * b 0 + c 0 * c 0) = n at hN hN0
  have hqy : HasDerivAt (fun t => a t / Real.sqrt ((0:ℝ)*0 + a t * a t + b t * b t + c t * c t))
      ((a' * n - a 0 * ((0 + (a' * a 0 + a 0 * a') + (b' * b 0 + b 0 * b') + (c' * c 0 + c 0 * c'))
        / (2 * n))) / n ^ 2) 0 := by
    have := ha.div hN (by rw [hn]; exact hN0)
    rw [hn] at this; exact this
  have hqz : HasDerivAt (fun t => b t / Real.sqrt ((0:ℝ)*0 + a t * a t + b t * b t + c t * c t))
      ((b' * n - b 0 * ((0 + (a' * a 0 + a 0 * a') + (b' * b 0 + b 0 * b') + (c' * c 0 + c 0 * c'))
        / (2 * n))) / n ^ 2) 0 := by
    have := hb.div hN (by rw [hn]; exact hN0)
    rw [hn] at this; exact this
  have hqw : HasDerivAt (fun t => c t / Real.sqrt ((0:ℝ)*0 + a t * a t + b t * b t + c t * c t))
      ((c' * n - c 0 * ((0 + (a' * a 0 + a 0 * a') + (b' * b 0 + b 0 * b') + (c' * c 0 + c 0 * c'))
        / (2 * n))) / n ^ 2) 0 := by
    have := hc.div hN (by rw [hn]; exact hN0)
    rw [hn] at this; exact this
  have hR := rotOfQ_hasDerivAt _ _ _ 0 _ _ _ 0 hqy hqz hqw i j hi hj rfl
  refine hR.congr_deriv ?_
  simp only [hn]
  interval_cases i <;> interval_cases j <;> simp only [drdq] <;> ring

/-- **`dRdv` is the derivative of the rotation** (chain-rule form): along any differentiable curve `v(t)`
    that starts strictly outside the antipodal branch, every entry `rot[i,j](v(t))` has derivative
    `Σ_k dRdv[k,i,j] · v_k'`. -/
theorem rotq_grad_is_derivative (eps : ℝ) (X Y Z : ℝ → ℝ) (X' Y' Z' : ℝ)
    (hX : HasDerivAt X X' 0) (hY : HasDerivAt Y Y' 0) (hZ : HasDerivAt Z Z' 0)
    (heps : 0 ≤ eps) (h : eps < |1 + X 0|) (i j : Nat) (hi : i < 3) (hj : j < 3) :
    HasDerivAt (fun t => (rotR eps (X t) (Y t) (Z t)).get i j)
      (rotqGrad Real.sqrt (fun x => |x|) eps (X 0) (Y 0) (Z 0) 0 i j * X'
        + rotqGrad Real.sqrt (fun x => |x|) eps (X 0) (Y 0) (Z 0) 1 i j * Y'
        + rotqGrad Real.sqrt (fun x => |x|) eps (X 0) (Y 0) (Z 0) 2 i j * Z') 0 := by
  have hb : HasDerivAt (fun t => -Y t) (-Y') 0 := hY.neg
  have hc : HasDerivAt (fun t => 1 + X t) X' 0 := hX.const_add 1
  have hm : ¬ |1 + X 0| < eps := not_lt.mpr h.le
  have hne : 1 + X 0 ≠ 0 := by
    intro h0
    rw [h0, abs_zero] at h
    linarith
  have hSpos : 0 < (0:ℝ)*0 + Z 0 * Z 0 + -Y 0 * -Y 0 + (1 + X 0) * (1 + X 0) := by
    have := mul_self_pos.mpr hne
    nlinarith [mul_self_nonneg (Z 0), mul_self_nonneg (Y 0)]
  have hgen := rotOfQ_normalised_hasDerivAt (fun t => Z t) (fun t => -Y t) (fun t => 1 + X t) Z' (-Y') X'
    hZ hb hc hSpos i j hi hj
  beta_reduce at hgen
  -- the model coincides with the regular chart near t = 0
  have hev : ∀ᶠ t in nhds (0:ℝ), eps < |1 + X t| := by
    have hcont : ContinuousAt (fun t => |1 + X t|) 0 :=
      (continuous_abs.continuousAt).comp (hc.continuousAt)
    exact hcont.eventually (lt_mem_nhds h)
  have hfun : (fun t => (rotR eps (X t) (Y t) (Z t)).get i j) =ᶠ[nhds 0]
      fun t => (rotOfQ (Z t / Real.sqrt (0*0 + Z t * Z t + -Y t * -Y t + (1 + X t) * (1 + X t)))
        (-Y t / Real.sqrt (0*0 + Z t * Z t + -Y t * -Y t + (1 + X t) * (1 + X t)))
        ((1 + X t) / Real.sqrt (0*0 + Z t * Z t + -Y t * -Y t + (1 + X t) * (1 + X t)))).get i j := by
    filter_upwards [hev] with t ht
    rw [rotq_regular_raw eps (X t) (Y t) (Z t) ht.le]
  refine (hgen.congr_of_eventuallyEq hfun).congr_deriv ?_
  simp only [rotqGrad, qRaw, inAntipodal, qNorm, C02.one_lit, hm, decide_false, Bool.false_eq_true,
    if_false, dqdv, dNdv, dqRawDv, dqRawDvBase, Quat.get]
  generalize Real.sqrt ((0:ℝ)*0 + Z 0 * Z 0 + -Y 0 * -Y 0 + (1 + X 0) * (1 + X 0)) = n
  interval_cases i <;> interval_cases j <;> simp only [drdq] <;> ring

/-- partial derivatives: `dRdv[k, i, j] = ∂ rot[i, j] / ∂ v_k` -/
theorem rotq_grad_is_partial_derivative (eps vx vy vz : ℝ) (heps : 0 ≤ eps) (h : eps < |1 + vx|)
    (i j : Nat) (hi : i < 3) (hj : j < 3) :
    HasDerivAt (fun t => (rotR eps (vx + t) vy vz).get i j)
      (rotqGrad Real.sqrt (fun x => |x|) eps vx vy vz 0 i j) 0 ∧
    HasDerivAt (fun t => (rotR eps vx (vy + t) vz).get i j)
      (rotqGrad Real.sqrt (fun x => |x|) eps vx vy vz 1 i j) 0 ∧
    HasDerivAt (fun t => (rotR eps vx vy (vz + t)).get i j)
      (rotqGrad Real.sqrt (fun x => |x|) eps vx vy vz 2 i j) 0 := by
  have hid : ∀ c : ℝ, HasDerivAt (fun t : ℝ => c + t) 1 0 := fun c => (hasDerivAt_id (0:ℝ)).const_add c
  have hcst : ∀ c : ℝ, HasDerivAt (fun _ : ℝ => c) 0 0 := fun c => hasDerivAt_const 0 c
  refine ⟨?_, ?_, ?_⟩
  · have := rotq_grad_is_derivative eps (fun t => vx + t) (fun _ => vy) (fun _ => vz) 1 0 0
      (hid vx) (hcst vy) (hcst vz) heps (by simpa using h) i j hi hj
    simpa using this
  · have := rotq_grad_is_derivative eps (fun _ => vx) (fun t => vy + t) (fun _ => vz) 0 1 0
      (hcst vx) (hid vy) (hcst vz) heps (by simpa using h) i j hi hj
    simpa using this
  · have := rotq_grad_is_derivative eps (fun _ => vx) (fun _ => vy) (fun t => vz + t) 0 0 1
      (hcst vx) (hcst vy) (hid vz) heps (by simpa using h) i j hi hj
    simpa using this

/-- non-vacuity: `v = (3/5, 0, 4/5)`, float64 threshold -/
example : (0:ℝ) ≤ eps64 ∧ (eps64:ℝ) < |1 + 3/5| := by
  refine ⟨by norm_num [eps64], ?_⟩
  rw [abs_of_pos (by norm_num)]; norm_num [eps64]

end rotgrad

/-! ## 4. `hpp` preprocessing — KNOWN DEFECT F1 -/

section hpp

/-- FULL STATEMENT (false of the code): energy-side and derivative-side preprocessing compute the same `hpp`:
    `∀ gpp gp2, hppEnergy gpp gp2 = hppDeriv gpp gp2`.
    They differ exactly when the clamp of `two_elec_two_center_int.py:122` is active. -/
theorem hpp_mismatch_iff (gpp gp2 : ℝ) :
    hppEnergy gpp gp2 ≠ hppDeriv gpp gp2 ↔ 0.5 * (gpp - gp2) < 0.1 := by
  simp only [hppEnergy, hppDeriv, clampMin]
  split_ifs with h
  · simp only [h, iff_true]; exact ne_of_gt h
  · simp [h]

/-- the part that holds: when the clamp is inactive the two sites agree -/
theorem hpp_preprocessing_consistent_partial (gpp gp2 : ℝ) (h : 0.1 ≤ 0.5 * (gpp - gp2)) :
    hppEnergy gpp gp2 = hppDeriv gpp gp2 := by
  by_contra hne
  exact absurd ((hpp_mismatch_iff gpp gp2).mp hne) (not_lt.mpr h)

/-- **F1 witness**: PM3 chlorine, `g_pp = 7.522215`, `g_p2 = 7.504154`
    (`seqm/params/parameters_PM3_MOPAC.csv`): energy path uses `hpp = 0.1`, `w_der` uses `0.0090305`. -/
theorem hpp_preprocessing_mismatch_witness :
    hppEnergy (7.522215 : ℝ) 7.504154 = 0.1 ∧ hppDeriv (7.522215 : ℝ) 7.504154 = 0.0090305 ∧
    hppEnergy (7.522215 : ℝ) 7.504154 ≠ hppDeriv 7.522215 7.504154 := by
  have h : (0.5 : ℝ) * (7.522215 - 7.504154) < 0.1 := by norm_num
  refine ⟨?_, ?_, (hpp_mismatch_iff _ _).mpr h⟩
  · simp only [hppEnergy, clampMin, h, if_true]
  · simp only [hppDeriv]; norm_num

theorem hpp_preprocessing_consistent_counterexample :
    ¬ ∀ gpp gp2 : ℝ, hppEnergy gpp gp2 = hppDeriv gpp gp2 :=
  fun hall => hpp_preprocessing_mismatch_witness.2.2 (hall _ _)

/-- non-vacuity of the partial statement: PM3 carbon (`g_pp = 10.796292`, `g_p2 = 9.042566`) -/
example : (0.1 : ℝ) ≤ 0.5 * (10.796292 - 9.042566) := by norm_num

end hpp

/-! ## 5. padding atoms and net force -/

section padding
variable {ι : Type} [DecidableEq ι]

/-- If the energy does not depend on coordinate `k` (padding atoms never enter a pair, a mask or a block:
    `Parser` model, C05), its partial derivative with respect to that coordinate is exactly 0. -/
theorem padding_force_zero (E : (ι → ℝ) → ℝ) (k : ι)
    (hE : ∀ (x : ι → ℝ) (t : ℝ), E (Function.update x k t) = E x) (x : ι → ℝ) :
    HasDerivAt (fun t => E (Function.update x k t)) 0 (x k) := by
  have : (fun t => E (Function.update x k t)) = fun _ => E x := funext fun t => hE x t
  rw [this]
  exact hasDerivAt_const _ _

end padding

/-- non-vacuity: an energy of coordinates 0 and 1 only; coordinate 2 is "padding" -/
example : ∃ E : (Fin 3 → ℝ) → ℝ, (∀ x t, E (Function.update x 2 t) = E x) ∧ E ![0, 1, 5] ≠ E ![0, 2, 5] := by
  refine ⟨fun x => (x 0 - x 1)^2, ?_, ?_⟩
  · intro x t
    simp [Function.update]
  · norm_num

/-- analytical evaluator: the gradient is assembled by `index_add_` over the pair list, so an atom that is in
    no pair gets exactly 0 (`anal_grad.py:214–221`) … -/
theorem padding_grad_zero_assembled {ι π : Type} [DecidableEq ι] [Fintype π]
    (idxi idxj : π → ι) (g : π → Fin 3 → ℝ) (a : ι) (hi : ∀ p, idxi p ≠ a) (hj : ∀ p, idxj p ≠ a) :
    C02.assemble idxi idxj g a = 0 :=
  C02.assemble_unpaired_zero idxi idxj g a hi hj

/-- … and the net force on the batch (hence on every molecule, pairs never cross molecules) is exactly 0. -/
theorem net_force_zero {ι π : Type} [Fintype ι] [DecidableEq ι] [Fintype π]
    (idxi idxj : π → ι) (g : π → Fin 3 → ℝ) : ∑ a, C02.assemble idxi idxj g a = 0 :=
  C02.net_force_zero_of_pairwise idxi idxj g

end C01
