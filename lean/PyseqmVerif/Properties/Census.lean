import PyseqmVerif.Generated.LoopCensus
import PyseqmVerif.Generated.Guards
/-!
# Static censuses regenerated from the live source on every run (AST walks, `vf/translate/gen.py`)

* `Generated.LoopCensus.whileLoops`: every `while` loop on the SCF / purification / response / Davidson / MD path with a
  syntactic judgement `capped` (its test or a guarded `break`/`raise`/`return` in its body compares against a bound).
  C03 ("every call returns in bounded time"): no uncapped `while` may exist on that path.  The historical `SP2` loop
  (`while notconverged.any()`) is exactly what this obligation rejects.
* `Generated.Guards.raises`: every `raise` (function, exception class) in the modules that hold the documented input guards.
  C18: each documented precondition has its guard statement in the expected function.

These are source-shape dependent ties (DESIGN §2.6): if they break while every behavioural tie and probe passes, the verdict is
`VIOLATION … no-failing-input-found` naming the obligation.
-/

namespace Census
open Generated

/-- no `while` loop on the SCF/response/MD path is syntactically unbounded -/
theorem all_while_loops_capped : ∀ l ∈ LoopCensus.whileLoops, l.capped = true := by decide

/-- the purification loop is in the census (so that the statement above is about it) -/
theorem sp2_loop_in_census : ∃ l ∈ LoopCensus.whileLoops, l.func = "SP2" ∧ l.capped = true := by decide

structure Req where
  file : String
  func : String
  exc : String
  atLeast : Nat
deriving Repr, DecidableEq

/-- the documented guards: (file, function, exception class, minimal number of such `raise` statements) -/
def required : List Req := [
  ⟨"seqm/Molecule.py", "check_input", "ValueError", 1⟩,                       -- species rows sorted
  ⟨"seqm/basics.py", "forward", "ValueError", 3⟩,                             -- UHF charge/multiplicity, RHF parity, occupation range
  ⟨"seqm/basics.py", "__init__", "NotImplementedError", 1⟩,                   -- unrestricted + excited states
  ⟨"seqm/basics.py", "forward", "Exception", 1⟩,                              -- excited active state without settings
  ⟨"seqm/basics.py", "forward", "NotImplementedError", 2⟩,                    -- heterogeneous batch: RPA, analytical excited gradient
  ⟨"seqm/seqm_functions/scf_loop.py", "make_Pnew_factory", "ValueError", 2⟩,  -- open shell + PM6 / SP2
  ⟨"seqm/seqm_functions/scf_loop.py", "forward", "NotImplementedError", 2⟩,   -- UHF + Pulay / KSA
  ⟨"seqm/MolecularDynamics.py", "initialize", "ValueError", 1⟩                -- unknown COM removal mode
]

def count (r : Req) : Nat :=
  (Guards.raises.filter (fun g => g.file == r.file && g.func == r.func && g.exc == r.exc)).length

/-- every documented guard is present in the source -/
theorem documented_guards_present : ∀ r ∈ required, r.atLeast ≤ count r := by decide

end Census
