import PyseqmVerif.Properties.CensusLoops
import PyseqmVerif.Properties.CensusGuards
import PyseqmVerif.Properties.CensusState
/-! Umbrella import of the three static censuses (kept separate so that a broken census only breaks the property it belongs to). -/
