import PyseqmVerif.Generated.SDGen
import PyseqmVerif.Model.SteepestDescent
/-!
# Translator tie for the built-in steepest-descent optimiser (C20)

`Generated/SDGen.lean` (from `Geometry_Optimization_SD.onestep` / `.run`, every run): the order evaluate → read force → move → return of one step,
the coordinate update, the loop `for i in range(self.max_evl)` with the order of its statements (step, `force_err = torch.max(torch.abs(force))` over
the whole batch, `energy_err = (Lnew - Lold).sum() / nmol`, the continue test and what each branch does), the not-converged test after the loop and
the returned pair.  The theorems identify these with the loop model `SD.loopFull` / `SD.run`, about which `C20.*` proves descent, truthful stopping,
the returned residual being that of the last geometry evaluated, fixed padding atoms and batch independence of the path.
-/
set_option linter.unusedSectionVars false
namespace SDTie
open Generated

/-- one step evaluates at the CURRENT coordinates, then moves, then returns the force it evaluated (so the reported residual belongs to the last
    geometry evaluated, and the stored coordinates are one move ahead: `SD.loopFull` is written in exactly this order) -/
theorem onestep_order : SDGen.onestepOrder = ["eval", "read_force", "move", "return (force, molecule.Etot)"] := by decide

/-- the loop body: step, the two reported quantities, then the test; the continuing branch only shifts `Lold`, the other branch leaves the loop -/
theorem loop_order :
    SDGen.loopOrder = ["onestep -> (force, Lnew)", "force_err", "energy_err", "if: Lold = Lnew; continue", "else: break"] := by decide

theorem returned_pair : SDGen.returned = "(force_err, energy_err)" ∧ SDGen.energyErrOperands = ("Lnew", "Lold") := by decide

section
variable {α : Type} [Add α] [Mul α] [LT α] [DecidableLT α]

theorem update_is_model (alpha : α) (x F : List α) : SD.updateCoords alpha x F = List.zipWith (SDGen.sdUpdate1 alpha) x F := rfl

/-- the loop continues exactly when the model's loop continues (`tol < fe`) -/
theorem continue_is_model (fe tol : α) : SDGen.continueTest fe tol = decide (tol < fe) := rfl

end

/-- the not-converged report of the source is the model's `i == maxEvl - 1` (for a cap of at least one evaluation; with `max_evl = 0` the
    source raises on the unbound loop variable and the model returns `none`) -/
theorem capHit_is_model (i maxEvl : Nat) (h : 1 ≤ maxEvl) : SDGen.capHit (i : Int) (maxEvl : Int) = (i == maxEvl - 1) := by
  unfold SDGen.capHit
  by_cases hh : i = maxEvl - 1
  · have h1 : (i : Int) = (maxEvl : Int) - 1 := by omega
    have h2 : (i == maxEvl - 1) = true := by simp [hh]
    rw [h2]
    exact decide_eq_true h1
  · have h1 : ¬ ((i : Int) = (maxEvl : Int) - 1) := by omega
    have h2 : (i == maxEvl - 1) = false := by simp [hh]
    rw [h2]
    exact decide_eq_false h1

example : SDGen.capHit 4 5 = true ∧ SDGen.capHit 3 5 = false ∧ SDGen.continueTest (2 : Nat) 1 = true := by decide

end SDTie
