import PyseqmVerif.Proofs.MDOutLemmas
/-!
# C10 — kill at any instant + resume = uninterrupted run (output files and checkpoint)

`resume_any_history`: for every configuration and every finite sequence of crashes (any step, any
number of executed actions of that step, soft or hard, any keep/lose mask), resuming from the
checkpoint (or starting over when there is none) and finally running to completion leaves exactly
the disk of an uninterrupted run, which by `C11.uninterrupted_run` is the specified disk.

The proof goes through an explicit invariant `DiskInv` of every disk that a process can leave
behind, `disk_invariant_along_history`.
-/
namespace MDOut

/-! ## the disk invariant -/

/-- Every disk a (crashed or completed) process leaves behind is resumable:
if there is a checkpoint `(o, nx)` then `o` is a positive checkpoint-due step of the run, `nx` is
the number of XYZ frames due up to `o` and the first `nx` frames on file are exactly those; each of
the four HDF5 streams has its full capacity and the rows of all its due steps `≤ o` are in place
(`Good e N o rows` unfolds to
`rows.length = cap e N ∧ ∀ i, i < (if e = 0 then 0 else o / e + 1) → rows[i]? = some (some (i * e))`).
Rows and frames beyond are arbitrary.  Without a checkpoint nothing is required: the next process
starts over. -/
def DiskInv (c : Cfg) (d : Disk) : Prop :=
  ∀ o nx, d.ckpt = some (o, nx) →
    0 < o ∧ o ≤ c.steps ∧ isDue c.ckpt o = true ∧ nx = (due c.xyz o).length ∧
    d.xyz.take nx = due c.xyz o ∧
    Good c.h5.data c.steps o d.h5.data ∧ Good c.h5.coords c.steps o d.h5.coords ∧
    Good c.h5.vels c.steps o d.h5.vels ∧ Good c.h5.forces c.steps o d.h5.forces

/-- `Good`, spelled out -/
example (e N o : Nat) (rows : Rows) :
    Good e N o rows ↔
      (rows.length = cap e N ∧
        ∀ i, i < (if e = 0 then 0 else o / e + 1) → rows[i]? = some (some (i * e))) := Iff.rfl

/-! ## closing a process anywhere leaves a resumable disk -/

theorem Loose.ckpt_cases {c : Cfg} {o oc nx : Nat} {p : Proc} (h : Loose c o p)
    (hck : p.ckpt = some (oc, nx)) :
    lastCkpt c.ckpt o = some oc ∧ nx = (due c.xyz oc).length := by
  rw [h.ckpt] at hck
  cases hl : lastCkpt c.ckpt o with
  | none => rw [hl] at hck; cases hck
  | some s =>
    rw [hl] at hck
    simp only [Option.map_some, Option.some.injEq, Prod.mk.injEq] at hck
    obtain ⟨h1, h2⟩ := hck
    subst h1
    exact ⟨rfl, h2.symm⟩

theorem Loose.xyz_take {c : Cfg} {o oc : Nat} {p : Proc} (h : Loose c o p) (hoc : oc ≤ o) :
    p.xyz.take (due c.xyz oc).length = due c.xyz oc := by
  obtain ⟨r, hr⟩ := h.xyz
  obtain ⟨r', hr'⟩ := due_prefix c.xyz hoc
  rw [hr, hr', List.append_assoc]
  exact List.take_left' rfl

theorem Loose.diskInv_soft {c : Cfg} {o : Nat} {p : Proc} (h : Loose c o p) :
    DiskInv c p.closeSoft := by
  intro oc nx hck
  obtain ⟨hl, hnx⟩ := h.ckpt_cases hck
  obtain ⟨h1, h2, h3⟩ := lastCkpt_spec hl
  subst hnx
  exact ⟨h1, Nat.le_trans h2 h.le, h3, rfl, h.xyz_take h2, h.data.good.anti h2,
    h.coords.good.anti h2, h.vels.good.anti h2, h.forces.good.anti h2⟩

theorem Loose.diskInv_hard {c : Cfg} {o : Nat} {p : Proc} (h : Loose c o p) (mask : Nat) :
    DiskInv c (p.closeHard mask) := by
  intro oc nx hck
  obtain ⟨hl, hnx⟩ := h.ckpt_cases hck
  obtain ⟨h1, h2, h3⟩ := lastCkpt_spec hl
  have hd := h.dur oc hl
  subst hnx
  refine ⟨h1, Nat.le_trans h2 h.le, h3, rfl, ?_, hd.data.merge (h.data.good.anti h2) mask,
    hd.coords.merge (h.coords.good.anti h2) mask, hd.vels.merge (h.vels.good.anti h2) mask,
    hd.forces.merge (h.forces.good.anti h2) mask⟩
  show (p.xyz.take _).take _ = _
  rw [List.take_take, Nat.min_eq_left (Nat.le_trans hd.xyz (Nat.le_add_right _ _))]
  exact h.xyz_take h2

/-! ## starting the next process -/

theorem startResume_inv {c : Cfg} {d : Disk} {o nx : Nat} (hd : DiskInv c d)
    (hc : d.ckpt = some (o, nx)) : PInv c o (startResume c d o nx) := by
  obtain ⟨h1, h2, h3, h4, h5, g1, g2, g3, g4⟩ := hd o nx hc
  have hl := lastCkpt_of_due h3 h1
  have hlen : min nx d.xyz.length = nx := by
    have := congrArg List.length h5
    rw [List.length_take, ← h4] at this
    exact this
  exact { le := h2
          data := openResume_inv g1, coords := openResume_inv g2, vels := openResume_inv g3,
          forces := openResume_inv g4
          xyz := h5
          flushed_le := by
            show min nx d.xyz.length ≤ (d.xyz.take nx).length
            rw [List.length_take]; exact Nat.le_refl _
          ckpt := by
            show d.ckpt = _
            rw [hl, hc, h4]; rfl
          dur := fun oc hoc => by
            rw [hl] at hoc
            injection hoc with hoc
            subst hoc
            exact ⟨by show _ ≤ min nx d.xyz.length; rw [hlen, h4]; exact Nat.le_refl _,
              g1, g2, g3, g4⟩ }

theorem start_some_ckpt (c : Cfg) {dk : Disk} {o nx : Nat} (h : dk.ckpt = some (o, nx)) :
    start c (some dk) = (startResume c dk o nx, o) := by
  simp only [start, h]

theorem start_some_none (c : Cfg) {dk : Disk} (h : dk.ckpt = none) :
    start c (some dk) = (startFresh c, 0) := by
  simp only [start, h]

theorem start_inv {c : Cfg} {d : Option Disk} (hd : ∀ dk, d = some dk → DiskInv c dk) :
    PInv c (start c d).2 (start c d).1 := by
  cases d with
  | none => exact startFresh_inv c
  | some dk =>
    cases hc : dk.ckpt with
    | none => rw [start_some_none c hc]; exact startFresh_inv c
    | some on =>
      obtain ⟨o, nx⟩ := on
      rw [start_some_ckpt c hc]
      exact startResume_inv (hd dk rfl) hc

/-! ## one segment -/

/-- running up to the crash and executing part of the crash step leaves a loosely invariant state -/
theorem crash_loose {c : Cfg} {o : Nat} {p : Proc} (h : PInv c o p) {s : Nat} (hs : o < s)
    (hsN : s ≤ c.steps) (upto : Nat) :
    ∃ o', Loose c o' (stepActs c s upto (runTo c o (s - 1 - o) p)) := by
  have h1 := h.runTo (s - 1 - o) (by omega)
  have e1 : o + (s - 1 - o) = s - 1 := by omega
  rw [e1] at h1
  by_cases hu : 7 ≤ upto
  · have h2 := h1.stepActs (by omega) hu
    have e2 : s - 1 + 1 = s := by omega
    rw [e2] at h2
    exact ⟨s, h2.loose⟩
  · exact ⟨s - 1, h1.loose.stepActs s (by omega)⟩

theorem segBody_inv {c : Cfg} {o : Nat} {p : Proc} (h : PInv c o p) (cr : Option Crash) :
    DiskInv c (segBody c p o cr).1 := by
  have hend : DiskInv c (runTo c o (c.steps - o) p).closeSoft :=
    (h.runTo (c.steps - o) (by have := h.le; omega)).loose.diskInv_soft
  cases cr with
  | none => exact hend
  | some k =>
    simp only [segBody]
    split
    · rename_i hk
      obtain ⟨o', hl⟩ := crash_loose h hk.1 hk.2 k.upto
      cases k.hard
      · exact hl.diskInv_soft
      · exact hl.diskInv_hard k.mask
    · exact hend

/-- every segment, crashed or not, leaves a resumable disk -/
theorem segment_inv {c : Cfg} {d : Option Disk} (hd : ∀ dk, d = some dk → DiskInv c dk)
    (cr : Option Crash) : DiskInv c (segment c d cr).1 := by
  rw [segment_eq]; exact segBody_inv (start_inv hd) cr

/-- a segment that is not interrupted leaves the specified disk, whatever resumable disk it
    started from -/
theorem segment_complete {c : Cfg} {d : Option Disk} (hd : ∀ dk, d = some dk → DiskInv c dk) :
    (segment c d none).1 = specDisk c := by
  rw [segment_eq]; exact (start_inv hd).complete

theorem some_inv {c : Cfg} {d : Disk} (h : DiskInv c d) : ∀ dk, some d = some dk → DiskInv c dk := by
  intro dk e; injection e with e; subst e; exact h

/-! ## histories -/

theorem finalDisk_eq_spec (c : Cfg) :
    ∀ (ks : List Crash) (d : Option Disk), (∀ dk, d = some dk → DiskInv c dk) →
      finalDisk c d ks = specDisk c
  | [], _, hd => segment_complete hd
  | k :: ks, _, hd => finalDisk_eq_spec c ks _ (some_inv (segment_inv hd (some k)))

theorem history_inv (c : Cfg) :
    ∀ (ks : List Crash) (d : Option Disk), (∀ dk, d = some dk → DiskInv c dk) →
      ∀ r ∈ history c d ks, DiskInv c r.1
  | [], _, hd => by
    intro r hr
    simp only [history, List.mem_singleton] at hr
    subst hr; exact segment_inv hd none
  | k :: ks, _, hd => by
    intro r hr
    simp only [history, List.mem_cons] at hr
    rcases hr with hr | hr
    · subst hr; exact segment_inv hd (some k)
    · exact history_inv c ks _ (some_inv (segment_inv hd (some k))) r hr

/-- THE main theorem: for every configuration and every finite sequence of crashes (any step, any
    number of actions executed, soft or hard, any keep/lose mask), resuming from the checkpoint (or
    starting over when no checkpoint exists) and finally running to completion leaves exactly the
    disk of an uninterrupted run. -/
theorem resume_any_history (c : Cfg) (ks : List Crash) : finalDisk c none ks = specDisk c :=
  finalDisk_eq_spec c ks none (fun _ h => by cases h)

/-- the same, stated against the uninterrupted run of the model itself -/
theorem resume_eq_uninterrupted (c : Cfg) (ks : List Crash) :
    finalDisk c none ks = finalDisk c none [] := by
  rw [resume_any_history, resume_any_history]

/-- every disk produced along a history is resumable -/
theorem disk_invariant_along_history (c : Cfg) (ks : List Crash) :
    ∀ r ∈ history c none ks, DiskInv c r.1 :=
  history_inv c ks none (fun _ h => by cases h)

/-- in particular the specified disk itself is resumable -/
theorem specDisk_inv (c : Cfg) : DiskInv c (specDisk c) := by
  have := segment_inv (c := c) (d := none) (fun _ h => by cases h) none
  rwa [segment_complete (fun _ h => by cases h)] at this

/-- the last entry of a history is `finalDisk` -/
theorem history_getLast (c : Cfg) :
    ∀ (ks : List Crash) (d : Option Disk), ((history c d ks).map Prod.fst).getLast? = some (finalDisk c d ks)
  | [], _ => rfl
  | k :: ks, d => by
    have ih := history_getLast c ks (some (segment c d (some k)).1)
    simp only [history, finalDisk, List.map_cons]
    rw [List.getLast?_cons, ih]; rfl

/-! ## non-vacuity: concrete crash histories -/

section examples

private def c0 : Cfg := mkCfg 3 2 3 5 4 2 4 12

/-- soft crash (exception) between the checkpoints of steps 4 and 8, after the XYZ frame of step 6
    would have been considered -/
example : finalDisk c0 none [⟨6, 4, false, 0⟩] = specDisk c0 := by decide
/-- the crashed process really left something different behind (rows of steps 5, 6 beyond the
    checkpoint, frames 0,4 only) -/
example : (segment c0 none (some ⟨6, 4, false, 0⟩)).1 =
    { h5 := { data := [some 0, some 3, some 6, none, none]
              coords := [some 0, some 2, some 4, some 6, none, none, none]
              vels := [some 0, some 3, some 6, none, none]
              forces := [some 0, some 5, none] }
      xyz := [0, 4], ckpt := some (4, 2) } := by decide
/-- hard kill between checkpoints: mask `0b01010` keeps some unflushed rows and loses others -/
example : finalDisk c0 none [⟨7, 3, true, 10⟩] = specDisk c0 := by decide
example : (segment c0 none (some ⟨7, 3, true, 10⟩)).1 ≠ specDisk c0 := by decide
/-- hard kill inside the checkpoint step: after the flush, before `os.replace` -/
example : finalDisk c0 none [⟨8, 6, true, 3⟩] = specDisk c0 := by decide
/-- crash before the first checkpoint: the run starts over -/
example : finalDisk c0 none [⟨3, 2, true, 7⟩] = specDisk c0 := by decide
example : (segment c0 none (some ⟨3, 2, true, 7⟩)).1.ckpt = none := by decide
/-- two crashes, the second one in the resumed process before it reaches a new checkpoint -/
example : finalDisk c0 none [⟨7, 4, true, 5⟩, ⟨6, 2, false, 0⟩] = specDisk c0 := by decide
/-- three crashes, soft and hard mixed, one of them after the whole step was executed -/
example : finalDisk c0 none [⟨5, 7, false, 0⟩, ⟨11, 5, true, 21⟩, ⟨12, 7, true, 1⟩] = specDisk c0 := by
  decide
/-- a crash outside the remaining run is no crash: the disk is complete and a further resume
    changes nothing -/
example : finalDisk c0 none [⟨40, 1, true, 0⟩, ⟨2, 1, true, 0⟩] = specDisk c0 := by decide
/-- the invariant is not trivially true: a disk whose checkpoint claims more than is on file -/
example : ¬ DiskInv c0 { h5 := (specDisk c0).h5, xyz := [0], ckpt := some (4, 2) } := by
  intro h
  have := (h 4 2 rfl).2.2.2.2.1
  revert this; decide

end examples

end MDOut
