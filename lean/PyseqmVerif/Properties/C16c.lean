import Mathlib.Data.Matrix.Mul
import Mathlib.Data.Matrix.Diagonal
import Mathlib.Data.Fin.VecNotation
import Mathlib.LinearAlgebra.Matrix.Notation
import Mathlib.Tactic.NormNum
import Mathlib.Tactic.FinCases
/-!
# C16c — a vanishing residual certifies an eigenpair, not that it is among the LOWEST (formal content of F20 / F20b)

The iterative CIS/RPA solver stops when the residuals `A x − θ x` of the requested number of Ritz pairs are below the tolerance.  `C16.lean` proves
that a small residual puts a true eigenvalue within `‖r‖` of `θ`.  What the test cannot see:

* `ritz_exact_of_invariant`: if the search space is invariant under `A` (`A V = V H`, which is what happens when the start vectors are already exact
  eigenvectors fixed by symmetry, or span a symmetry block), EVERY Ritz pair `(θ, V c)` with `H c = θ c` is an exact eigenpair of `A`: all residuals
  are zero, no correction vector is generated, the solver stops in its first iteration - with the eigenvalues of the block it started in;
* `zero_residuals_miss_a_lower_root`: a concrete 3 × 3 witness: `A = diag(1, 2, 3)`, start space spanned by `e₁, e₃`: the two Ritz pairs `(1, e₁)`,
  `(3, e₃)` are orthonormal and have residual exactly 0, yet `2 < 3` is an eigenvalue (eigenvector `e₂`) that is never looked at.
  This is the CO / PM3 / RPA case of F20b (5.491 and 5.986 eV returned, 5.858 eV skipped) and methane of F20 in miniature.

So "lowest requested eigenvalues" cannot follow from the solver's own stopping test; the C16 probes compare with a dense diagonalisation instead.
-/
namespace C16c
open Matrix

variable {n k : Type*} [Fintype n] [Fintype k]

/-- residual of a Ritz pair -/
def residual (A : Matrix n n ℚ) (θ : ℚ) (x : n → ℚ) : n → ℚ := A.mulVec x - θ • x

/-- Ritz pairs of an invariant search space are exact eigenpairs -/
theorem ritz_exact_of_invariant (A : Matrix n n ℚ) (V : Matrix n k ℚ) (H : Matrix k k ℚ) (hinv : A * V = V * H)
    (c : k → ℚ) (θ : ℚ) (hc : H.mulVec c = θ • c) :
    residual A θ (V.mulVec c) = 0 := by
  unfold residual
  rw [Matrix.mulVec_mulVec, hinv, ← Matrix.mulVec_mulVec, hc, Matrix.mulVec_smul, sub_self]

/-- the witness: both requested Ritz pairs converged to machine zero, a lower root is missed -/
theorem zero_residuals_miss_a_lower_root :
    let A : Matrix (Fin 3) (Fin 3) ℚ := Matrix.diagonal ![1, 2, 3]
    residual A 1 ![1, 0, 0] = 0 ∧ residual A 3 ![0, 0, 1] = 0 ∧ (![1, 0, 0] : Fin 3 → ℚ) ⬝ᵥ ![0, 0, 1] = 0
      ∧ A.mulVec ![0, 1, 0] = (2 : ℚ) • ![0, 1, 0] ∧ (2 : ℚ) < 3 := by
  intro A
  refine ⟨?_, ?_, ?_, ?_, by norm_num⟩
  · funext i; fin_cases i <;> simp [residual, A, Matrix.mulVec_diagonal]
  · funext i; fin_cases i <;> simp [residual, A, Matrix.mulVec_diagonal]
  · simp [dotProduct, Fin.sum_univ_three]
  · funext i; fin_cases i <;> simp [A, Matrix.mulVec_diagonal]

end C16c
