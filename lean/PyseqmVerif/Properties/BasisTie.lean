import PyseqmVerif.Generated.BasisCount
/-!
# Translator tie for the real-versus-padding orbital bound (C03, C05)

Every eigen-solver wrapper, the SP2 padding protection, the thermal-occupation routine, the initial guess and the charge/multiplicity guard
decide which rows of a (zero-padded) matrix are real basis functions with an integer expression of the molecule's atom-class counts.
`Generated/BasisCount.lean` holds every such expression as it stands in the source now (extracted by AST on every run, with the class
counts renamed to `nsh nh nhy` and the test `method == "PM6"` to the flag `isD`), the element-class masks of `Parser.forward`, and the
elements of the shipped PM6 table.

* `all_sites_count_the_basis`: each expression is the number of basis functions of its basis: `4 nh + nhy` for the s,p sites, `9 nsh + 4 nh + nhy`
  for the s,p,d sites, and the one or the other according to the flag for the sites that serve both.  (A precedence slip such as
  `9*nsh if PM6 else 0 + 4*nh + nhy` fails here: it drops the s,p atoms and hydrogens of a PM6 molecule.)
* `classes_partition_sp`, `classes_partition_d`: the element-class masks assign every (supported) element to exactly one class, so the class counts
  add up to the number of real atoms and `basis_of_species_*`: the sum over atoms of the per-atom block size is the counted bound.
* `d_class_vs_table`: the elements the code gives nine basis functions are those with a d exponent in the shipped PM6 table, EXCEPT Se and Te
  (classified as d-atoms, no d exponent shipped: a PM6 calculation on them stops with a `math domain error`; recorded as an observation in DESIGN.md).
-/
namespace BasisTie
open Generated.BasisCount

/-- the number of basis functions the site has to produce -/
def spec : Kind → Int → Int → Int → Int → Int
  | .sp, _, nh, nhy, _ => 4 * nh + nhy
  | .d, nsh, nh, nhy, _ => 9 * nsh + 4 * nh + nhy
  | .both, nsh, nh, nhy, isD => if isD ≠ 0 then 9 * nsh + 4 * nh + nhy else 4 * nh + nhy

theorem all_sites_count_the_basis :
    ∀ s ∈ sites, ∀ nsh nh nhy isD : Int, s.2.2 nsh nh nhy isD = spec s.2.1 nsh nh nhy isD := by
  simp only [sites, List.forall_mem_cons, List.not_mem_nil, false_imp_iff, implies_true, and_true]
  and_intros
  all_goals
    intro nsh nh nhy isD
    simp only [spec]
    first
      | (simp; done)
      | (simp; omega)
      | (by_cases hD : isD = 0 <;> simp [hD] <;> omega)

/-- s,p basis: every atomic number `z ≥ 1` is hydrogen or heavy, never both; padding (`z = 0`) is neither -/
theorem classes_partition_sp (z : Int) (hz : 0 ≤ z) :
    (isHydro z = true ∨ isHeavySP z = true ↔ 1 ≤ z) ∧ ¬ (isHydro z = true ∧ isHeavySP z = true) := by
  simp only [isHydro, isHeavySP, decide_eq_true_eq]
  omega

/-- s,p,d basis: every element of the shipped PM6 table is in exactly one class; padding is in none -/
theorem classes_partition_d :
    ∀ z ∈ pm6Elements, ((isHydro z).toNat + (isHeavyD z).toNat + (isSuperHeavy z).toNat = 1) := by
  decide +kernel

theorem padding_in_no_class : isHydro 0 = false ∧ isHeavySP 0 = false ∧ isHeavyD 0 = false ∧ isSuperHeavy 0 = false := by
  decide

/-- per-atom number of basis functions in the s,p basis -/
def blockSP (z : Int) : Int := if isHydro z then 1 else if isHeavySP z then 4 else 0
/-- per-atom number of basis functions in the s,p,d basis -/
def blockD (z : Int) : Int := if isHydro z then 1 else if isSuperHeavy z then 9 else if isHeavyD z then 4 else 0

def count (p : Int → Bool) (sp : List Int) : Int := ((sp.filter p).length : Int)

theorem count_cons (p : Int → Bool) (z : Int) (sp : List Int) : count p (z :: sp) = (if p z then 1 else 0) + count p sp := by
  unfold count
  by_cases h : p z = true
  · simp [h]; omega
  · simp [h]

/-- the bound of the s,p sites is the sum of the per-atom block sizes, for any species row (padding zeros included, any order) -/
theorem basis_of_species_sp (sp : List Int) (h : ∀ z ∈ sp, 0 ≤ z) :
    (sp.map blockSP).sum = spec .sp 0 (count isHeavySP sp) (count isHydro sp) 0 := by
  induction sp with
  | nil => simp [spec, count]
  | cons z t ih =>
    have ht : ∀ z ∈ t, 0 ≤ z := fun y hy => h y (List.mem_cons_of_mem _ hy)
    have hz := h z (List.mem_cons_self ..)
    have hp := (classes_partition_sp z hz).2
    simp only [List.map_cons, List.sum_cons, ih ht, spec, count_cons, blockSP]
    by_cases h1 : isHydro z = true <;> by_cases h2 : isHeavySP z = true <;> simp_all <;> omega

/-- the bound of the s,p,d sites is the sum of the per-atom block sizes, for any species row made of PM6 elements and padding zeros -/
theorem basis_of_species_d (sp : List Int) (h : ∀ z ∈ sp, z = 0 ∨ z ∈ pm6Elements) :
    (sp.map blockD).sum = spec .d (count isSuperHeavy sp) (count isHeavyD sp) (count isHydro sp) 0 := by
  induction sp with
  | nil => simp [spec, count]
  | cons z t ih =>
    have ht : ∀ z ∈ t, z = 0 ∨ z ∈ pm6Elements := fun y hy => h y (List.mem_cons_of_mem _ hy)
    have hz := h z (List.mem_cons_self ..)
    have hone : (isHydro z).toNat + (isHeavyD z).toNat + (isSuperHeavy z).toNat ≤ 1 := by
      rcases hz with rfl | hz
      · decide
      · have := classes_partition_d z hz; omega
    simp only [List.map_cons, List.sum_cons, ih ht, spec, count_cons, blockD]
    by_cases h1 : isHydro z = true <;> by_cases h2 : isSuperHeavy z = true <;> by_cases h3 : isHeavyD z = true <;>
      simp_all [Bool.toNat] <;> omega

/-- elements treated as nine-function atoms versus elements that carry a d exponent in the shipped table: they differ exactly on Se and Te -/
theorem d_class_vs_table :
    pm6Elements.filter (fun z => isSuperHeavy z != decide (z ∈ pm6WithDExponent)) = [34, 52] := by
  decide +kernel

/-- non-vacuity: hydrogen sulfide under PM6 has 9 + 2 basis functions, under an s,p method 4 + 2 -/
example : (([16, 1, 1, 0] : List Int).map blockD).sum = 11 ∧ (([16, 1, 1, 0] : List Int).map blockSP).sum = 6 := by decide

end BasisTie
