import PyseqmVerif.Generated.HopAlpha
import PyseqmVerif.Model.Hop
import PyseqmVerif.Model.Langevin
import Mathlib.Data.Real.Basic
import Mathlib.Tactic.NormNum
/-!
# Translator tie for two scalar kernels (C17, C12)

`Generated/HopAlpha.lean` holds, translated statement by statement from the source as it stands now,
* the scalar part of `SurfaceHoppingDynamics._rescale_velocity_along_nac` (the two rejection tests, the discriminant, the root choice) and its
  velocity update, and
* the two Langevin coefficients of `Molecular_Dynamics_Langevin.initialize`.

The theorems say these are the model's `Hop.rescaleAlpha … Hop.signFixed …` / `Hop.applyAlpha` and `Langevin.langevinC1` / `langevinC2s`, about
which C17 (exact energy conservation of an accepted hop, smaller adjustment, frustrated hops untouched) and C12 (fluctuation–dissipation) are proved.
The Langevin ties hold for every scalar type (`rfl`); the hop tie is over ℝ because the source writes `2.0` where the model writes `2`.
-/
namespace ScalarTie
open Generated

/-- the translated scalar part of the hop rescaling, fed with the model's two reductions, is the model's `rescaleAlpha` with the live sign rule -/
theorem rescaleAlpha_is_model (sqrt : ℝ → ℝ) (kes : ℝ) (v d minv : List ℝ) (dE : ℝ) :
    HopAlpha.rescaleAlpha sqrt kes (Hop.d2ByM d minv) (Hop.dot v d) dE = Hop.rescaleAlpha sqrt Hop.signFixed kes v d minv dE := by
  unfold HopAlpha.rescaleAlpha Hop.rescaleAlpha Hop.signFixed
  by_cases h1 : Hop.d2ByM d minv ≤ (1e-12 : ℝ)
  · simp only [h1, if_true]
  · simp only [h1, if_false]
    have h2 : ((2.0 : ℝ)) = 2 := by norm_num
    rw [h2]

/-- the translated velocity update is the model's, component by component -/
theorem applyAlpha_is_model (a : ℝ) (v d minv : List ℝ) :
    Hop.applyAlpha a v d minv = List.zipWith (fun vk dw => vk + dw) v (List.zipWith (fun dk wk => HopAlpha.applyAlpha1 a 0 dk wk) d (Hop.expand3 minv)) := by
  unfold Hop.applyAlpha HopAlpha.applyAlpha1
  simp only [zero_add]

theorem applyAlpha1_form (a v d w : ℝ) : HopAlpha.applyAlpha1 a v d w = v + a * d * w := rfl

section
variable {α : Type} [Mul α] [Div α] [Neg α] [OfScientific α]

theorem langevinC1_is_model (exp expm1 sqrt : α → α) (dt damp temp vel mi : α) :
    HopAlpha.langevinC1 exp expm1 sqrt dt damp temp vel mi = Langevin.langevinC1 exp dt damp := rfl

omit [OfScientific α] in
theorem langevinC2_is_model (exp expm1 sqrt : α → α) (dt damp temp vel mi : α) :
    HopAlpha.langevinC2 exp expm1 sqrt dt damp temp vel mi = Langevin.langevinC2s expm1 sqrt dt damp temp vel mi := rfl

end

/-- non-vacuity: a downward hop (dE < 0) along a unit coupling vector is accepted and the rejection tests are live -/
example : HopAlpha.rescaleAlpha (fun x : ℚ => x / 5) 1 1 3 (-8) = some 2 ∧ HopAlpha.rescaleAlpha (fun x : ℚ => x / 5) 1 1 1 8 = none
    ∧ HopAlpha.rescaleAlpha (fun x : ℚ => x / 5) 1 0 1 (-8) = none := by
  refine ⟨?_, ?_, ?_⟩ <;> (unfold HopAlpha.rescaleAlpha; norm_num)

end ScalarTie
