import PyseqmVerif.Generated.StepBody
import PyseqmVerif.Model.Langevin
/-!
# Translator tie for the integrator step bodies (C08, C12, C09)

`Generated/StepBody.lean` is the sequence of phase-space statements of every `one_step` in `seqm/MolecularDynamics.py` as it stands now
(NVE, Langevin, XL-BOMD — inherited by KSA-XL-BOMD — and XL-ESMD), translated statement by statement on every run.  The theorems below say that
these ARE the model's steps, about which C08 (order, reversibility, momentum), C12 (thermostat placement, NVE limit) and C09 (the auxiliary
density is propagated before the force evaluation that uses it) are proved:

* `basic_is_vvStep`: the NVE step is `Verlet.vvStep` (kick with the OLD acceleration, drift, force at the NEW positions, kick with the NEW one);
* `langevin_is_langevinStep`: the Langevin step is thermostat, `vvStep`, thermostat, i.e. `Langevin.langevinStep` when the thermostat is
  `Langevin.thermostat` with the two draws;
* `xl_is_vvStep_on_propagated_aux`: without damping and cavity the XL step is `vvStep` whose force engine sees `prop aux`, the PROPAGATED auxiliary
  state, and that state is what the step returns; with damping it is wrapped in the thermostat exactly like the Langevin step; with the spherical
  cavity switched on the cavity force is added to the force that accelerates the atoms;
* `esmd_is_xl_without_cavity`.

All proofs are `rfl`: a statement reordered, dropped, duplicated or altered in the source changes the generated definition and the proof fails.
-/
namespace StepTie
open Verlet Generated

section
variable {α σ : Type} [Add α] [Mul α] [OfScientific α]
variable (force : σ → List α → List α) (prop : σ → σ) (thermo : Nat → List α → List α) (sphForce : List α → List α)
variable (damp sph : Bool) (accScale dt : α) (minv : List α) (aux : σ) (s : State α)

/-- thermostat on the velocities before and after a step -/
def wrapped (thermo : Nat → List α → List α) (step : State α → State α) (s : State α) : State α :=
  let s1 := step { s with v := thermo 0 s.v }
  { s1 with v := thermo 1 s1.v }

theorem basic_is_vvStep :
    StepBody.basic force prop thermo sphForce damp sph accScale dt minv aux s = (aux, vvStep (force aux) accScale dt minv s) := rfl

theorem langevin_is_wrapped_vvStep :
    StepBody.langevin force prop thermo sphForce damp sph accScale dt minv aux s
      = (aux, wrapped thermo (vvStep (force aux) accScale dt minv) s) := rfl

theorem xl_is_vvStep_on_propagated_aux :
    StepBody.xl force prop thermo sphForce false false accScale dt minv aux s
      = (prop aux, vvStep (force (prop aux)) accScale dt minv s) := rfl

theorem xl_damped_is_wrapped :
    StepBody.xl force prop thermo sphForce true false accScale dt minv aux s
      = (prop aux, wrapped thermo (vvStep (force (prop aux)) accScale dt minv) s) := rfl

theorem xl_cavity_force_is_added :
    StepBody.xl force prop thermo sphForce false true accScale dt minv aux s
      = (prop aux, vvStep (fun x => List.zipWith (fun a b => a + b) (force (prop aux) x) (sphForce x)) accScale dt minv s) := rfl

theorem esmd_is_xl_without_cavity :
    StepBody.esmd force prop thermo sphForce damp sph accScale dt minv aux s
      = StepBody.xl force prop thermo sphForce damp false accScale dt minv aux s := by
  cases damp <;> rfl

end

section
variable {α σ : Type} [Add α] [Mul α] [OfScientific α]

/-- with the model's thermostat and the two random draws the generated Langevin step is the model's `langevinStep` -/
theorem langevin_is_langevinStep (force : σ → List α → List α) (prop : σ → σ) (sphForce : List α → List α) (damp sph : Bool)
    (accScale dt : α) (minv : List α) (aux : σ) (c1 : α) (c2 xi1 xi2 : List α) (s : State α) :
    (StepBody.langevin force prop (fun k v => Langevin.thermostat c1 c2 v (if k = 0 then xi1 else xi2)) sphForce damp sph accScale dt minv aux s).2
      = Langevin.langevinStep (force aux) accScale dt minv c1 c2 xi1 xi2 s := rfl

end

/-- non-vacuity: one NVE step of a free particle (zero force) on rationals-as-floats is a plain drift -/
example : (StepBody.basic (σ := Unit) (fun _ x => x.map fun _ => (0.0 : Float)) id (fun _ v => v) id false false 1.0 0.5 [1.0] () ⟨[0.0], [2.0], [0.0]⟩).2.x = [1.0] := by
  rfl

end StepTie
