import PyseqmVerif.Generated.ObsGen
/-!
# Translator tie for the energy assembly (C14)

`Generated/ObsGen.lean`: `total_energy`, `heat_formation`, `elec_energy_isolated_atom` and the summands, reduction axes and factors of `elec_energy`
(closed and open shell) of `seqm_functions/energy.py`, translated statement by statement on every run (`torch.zeros`/`zeros_like`, `index_add_`,
entry-wise sums of per-molecule vectors, `if flag`, tuple returns).  They are the definitions of `Model/Observables.lean` about which `C14.*`
proves `Etot = Eelec + Enuc (+ excitation)`, `Hf = Etot − ΣEiso + Σeheat`, and that the electronic energy is the symmetric bilinear form of the density.
All proofs are `rfl` (a case split on `flag` for the heat of formation), for every scalar type.
-/
set_option linter.unusedSectionVars false
namespace ObsTie
open Generated

section
variable {α : Type} [Add α] [Sub α] [Mul α] [Neg α] [OfScientific α] [OfNat α 0]

theorem totalEnergy_is_model (nmol : Nat) (pairMolid : List Nat) (EnucAB Eelec : List α) :
    ObsGen.totalEnergy nmol pairMolid EnucAB Eelec = Observables.totalEnergy nmol pairMolid EnucAB Eelec := rfl

theorem heatFormation_is_model (flag : Bool) (atomMolid : List Nat) (Etot Eiso eheat : List α) :
    ObsGen.heatFormation flag atomMolid Etot Eiso eheat = Observables.heatFormation flag atomMolid Etot Eiso eheat := by
  cases flag <;> rfl

theorem eisoAtom_is_model (uss upp gss gpp gsp gp2 hsp ussc uppc gssc gppc gspc gp2c hspc : α) :
    ObsGen.eisoAtom uss upp gss gpp gsp gp2 hsp ussc uppc gssc gppc gspc gp2c hspc
      = Observables.eisoAtom uss upp gss gpp gsp gp2 hsp ussc uppc gssc gppc gspc gp2c hspc := rfl

theorem elecEnergy_is_model (n : Nat) (P h F : Nat → Nat → α) :
    Observables.elecEnergy n P h F
      = ObsGen.eelecFactor * Observables.sumL ((List.range n).map fun i => Observables.sumL ((List.range n).map fun j => ObsGen.eelecSummand (P i j) (h i j) (F i j))) := rfl

/-- the open-shell summand is the closed-shell one applied to each spin density with the shared one-electron part -/
theorem eelecSummandU_form (pa pb h fa fb : α) : ObsGen.eelecSummandU pa pb h fa fb = (pa + pb) * h + pa * fa + pb * fb := rfl

theorem eelecFactorU_eq : (ObsGen.eelecFactorU : α) = ObsGen.eelecFactor := rfl

end

example : ObsGen.totalEnergy 2 [0, 1, 1] [1.0, 2.0, 4.0] [10.0, (20.0 : Float)] = ([11.0, 26.0], [1.0, 6.0]) := by decide +kernel

end ObsTie
