import PyseqmVerif.Proofs.MDLemmas
import PyseqmVerif.Generated.Constants
import Mathlib.Tactic.IntervalCases
import Mathlib.Tactic.LinearCombination
import Mathlib.Tactic.FieldSimp
import Mathlib.Tactic.Positivity
/-!
# C08 — the NVE integrator (velocity Verlet) and the thermodynamic output

Statements about the executable model `Verlet` (`Model/Verlet.lean`, diffed against
`Molecular_Dynamics_Basic.one_step/_kinetic_energy/_calc_temperature` through the driver ops
`vvstep`, `kinetic`, `temperature`) instantiated at `ℝ`, for any number of atoms, any `dt`, any
force engine `force : List ℝ → List ℝ` and any value of the unit constants.

Vocabulary (defined in `Proofs/MDLemmas.lean`): component `i` of a flattened array is
`l.getD i 0`; `Sized n s` = the three arrays of the state have `n` entries; `ForceSized n force` =
the engine returns `n` entries; `AccOf force ACC minv s` = the stored `acc` is
`force(x) * mass_inverse * ACC` (what `initialize` and every `one_step` establish);
`flipV` = velocity reversal; `linMom/netForce/angMomFlat/netTorque` = sums over the atoms of a
flattened array, forces counted on real atoms (`mass ≠ 0`) only.
-/
namespace C08
open Verlet MDL Finset Matrix

section nve
variable {n : ℕ} {force : List ℝ → List ℝ} {minv : List ℝ} {s : State ℝ} (ACC dt : ℝ)

/-- `one_step` is the textbook velocity-Verlet map, componentwise:
    `x' = x + v dt + ½ a dt²`, `v' = v + ½ (a + a') dt`, `a' = F(x')·minv·ACC` -/
theorem vv_exact_forms (hs : Sized n s) (hm : minv.length = n) (hF : ForceSized n force) (i : ℕ) :
    (vvStep force ACC dt minv s).x.getD i 0
        = s.x.getD i 0 + s.v.getD i 0 * dt + 1 / 2 * s.a.getD i 0 * dt ^ 2 ∧
    (vvStep force ACC dt minv s).v.getD i 0
        = s.v.getD i 0 + 1 / 2 * (s.a.getD i 0 + (vvStep force ACC dt minv s).a.getD i 0) * dt ∧
    (vvStep force ACC dt minv s).a.getD i 0
        = (force (vvStep force ACC dt minv s).x).getD i 0 * minv.getD i 0 * ACC := by
  refine ⟨?_, ?_, vvStep_a_getD ACC dt hs hm hF i⟩
  · rw [vvStep_x_getD ACC dt hs]; ring
  · rw [vvStep_v_getD ACC dt hs hm hF]; ring

/-- time reversibility: step, negate `v`, step, negate `v` returns `(x, v, a)` exactly -/
theorem vv_reversible (hs : Sized n s) (hm : minv.length = n) (hF : ForceSized n force)
    (hinv : AccOf force ACC minv s) :
    flipV (vvStep force ACC dt minv (flipV (vvStep force ACC dt minv s))) = s := by
  have hs1 := vvStep_sized ACC dt hs hm hF
  have hs2 := flipV_sized hs1
  have hs3 := vvStep_sized ACC dt hs2 hm hF
  -- coordinates come back
  have hx : (vvStep force ACC dt minv (flipV (vvStep force ACC dt minv s))).x = s.x := by
    apply ext_getD _ _ (by rw [hs3.1, hs.1])
    intro i
    rw [vvStep_x_getD ACC dt hs2, flipV_v_getD, vvStep_v_getD ACC dt hs hm hF]
    show (vvStep force ACC dt minv s).x.getD i 0 + _ = _
    rw [vvStep_x_getD ACC dt hs]
    show _ + (_ + 1 / 2 * (vvStep force ACC dt minv s).a.getD i 0 * dt) * dt = _
    ring
  have ha : (vvStep force ACC dt minv (flipV (vvStep force ACC dt minv s))).a = s.a := by
    rw [hinv]
    show accel ACC (force (vvStep force ACC dt minv (flipV (vvStep force ACC dt minv s))).x) minv = _
    rw [hx]
  have hv : (vvStep force ACC dt minv (flipV (vvStep force ACC dt minv s))).v.map (fun vi => -vi) = s.v := by
    apply ext_getD _ _ (by rw [List.length_map, hs3.2.1, hs.2.1])
    intro i
    rw [getD_map₀ _ (by norm_num), vvStep_v_getD ACC dt hs2 hm hF, ha, flipV_v_getD,
      vvStep_v_getD ACC dt hs hm hF]
    show -(_ + 1 / 2 * (vvStep force ACC dt minv s).a.getD i 0 * dt + _) = _
    ring
  cases s with
  | mk x v a =>
    simp only [flipV] at hx ha hv ⊢
    simp only [hx, ha, hv]

/-- the same for `k` steps forward and `k` steps back -/
theorem vv_reversible_n (hm : minv.length = n) (hF : ForceSized n force) (k : ℕ) :
    ∀ s : State ℝ, Sized n s → AccOf force ACC minv s →
      flipV (vvRun force ACC dt minv k (flipV (vvRun force ACC dt minv k s))) = s := by
  induction k with
  | zero => intro s _ _; exact flipV_flipV s
  | succ k ih =>
    intro s hs hinv
    have ht := vvRun_sized ACC dt hm hF k hs
    have hti := vvRun_accOf ACC dt k hinv
    have hrev := vv_reversible ACC dt ht hm hF hti
    -- one step back from `flip (step t)` is `flip t`
    have hback : vvStep force ACC dt minv (flipV (vvStep force ACC dt minv (vvRun force ACC dt minv k s)))
        = flipV (vvRun force ACC dt minv k s) := by
      rw [← hrev, flipV_flipV, hrev]
    rw [vvRun_succ']
    show flipV (vvRun force ACC dt minv k (vvStep force ACC dt minv
      (flipV (vvStep force ACC dt minv (vvRun force ACC dt minv k s))))) = s
    rw [hback]
    exact ih s hs hinv

/-! ### linear momentum -/

/-- General form: `idx` selects the flattened entries that are summed (e.g. one Cartesian component
    of every atom).  Real atoms have `m * minv = 1`, padding atoms `m = 0`; the net force on the
    real atoms of the selection vanishes at both force evaluations of the step. -/
theorem vv_linear_momentum_idx {ι : Type} (S : Finset ι) (idx : ι → ℕ) (m : List ℝ)
    (hs : Sized n s) (hm : minv.length = n) (hF : ForceSized n force)
    (hinv : AccOf force ACC minv s)
    (hreal : ∀ i ∈ S, m.getD (idx i) 0 * minv.getD (idx i) 0 = 1 ∨ m.getD (idx i) 0 = 0)
    (hF0 : ∑ i ∈ S, (if m.getD (idx i) 0 = 0 then 0 else (force s.x).getD (idx i) 0) = 0)
    (hF1 : ∑ i ∈ S, (if m.getD (idx i) 0 = 0 then 0
              else (force (vvStep force ACC dt minv s).x).getD (idx i) 0) = 0) :
    ∑ i ∈ S, m.getD (idx i) 0 * (vvStep force ACC dt minv s).v.getD (idx i) 0
      = ∑ i ∈ S, m.getD (idx i) 0 * s.v.getD (idx i) 0 := by
  have ha0 : ∀ k, s.a.getD k 0 = (force s.x).getD k 0 * minv.getD k 0 * ACC := by
    intro k; rw [hinv, accel_getD _ _ _ (by rw [hF _ hs.1, hm])]
  have key : ∀ i ∈ S, m.getD (idx i) 0 * (vvStep force ACC dt minv s).v.getD (idx i) 0
      = m.getD (idx i) 0 * s.v.getD (idx i) 0
        + (1 / 2 * dt * ACC) * (if m.getD (idx i) 0 = 0 then 0 else (force s.x).getD (idx i) 0)
        + (1 / 2 * dt * ACC) * (if m.getD (idx i) 0 = 0 then 0
              else (force (vvStep force ACC dt minv s).x).getD (idx i) 0) := by
    intro i hi
    rw [vvStep_v_getD ACC dt hs hm hF, vvStep_a_getD ACC dt hs hm hF, ha0]
    rcases hreal i hi with h1 | h0
    · have hne : m.getD (idx i) 0 ≠ 0 := by
        intro h; rw [h] at h1; norm_num at h1
      rw [if_neg hne, if_neg hne]
      linear_combination
        (1 / 2 * dt * ACC * (force s.x).getD (idx i) 0
          + 1 / 2 * dt * ACC * (force (vvStep force ACC dt minv s).x).getD (idx i) 0) * h1
    · rw [if_pos h0, if_pos h0, h0]; ring
  rw [Finset.sum_congr rfl key, Finset.sum_add_distrib, Finset.sum_add_distrib,
    ← Finset.mul_sum, ← Finset.mul_sum, hF0, hF1]
  ring

/-- Cartesian component `c` of `Σ mᵢ vᵢ` is conserved by a step when the net force on the real
    atoms vanishes at both force evaluations (padding atoms: mass 0, any force entry) -/
theorem vv_linear_momentum (N c : ℕ) (m : List ℝ)
    (hs : Sized n s) (hm : minv.length = n) (hF : ForceSized n force)
    (hinv : AccOf force ACC minv s)
    (hreal : ∀ k, m.getD k 0 * minv.getD k 0 = 1 ∨ m.getD k 0 = 0)
    (hF0 : netForce N c m (force s.x) = 0)
    (hF1 : netForce N c m (force (vvStep force ACC dt minv s).x) = 0) :
    linMom N c m (vvStep force ACC dt minv s).v = linMom N c m s.v :=
  vv_linear_momentum_idx ACC dt (range N) (fun i => 3 * i + c) m hs hm hF hinv
    (fun _ _ => hreal _) hF0 hF1

/-- `Σ mᵢ xᵢ × vᵢ` is conserved by a step when the net torque on the real atoms vanishes at
    both force evaluations (`mass_inverse` replicated over the 3 components of an atom) -/
theorem vv_angular_momentum (N : ℕ) (m : List ℝ)
    (hs : Sized n s) (hm : minv.length = n) (hF : ForceSized n force)
    (hinv : AccOf force ACC minv s)
    (hrep : ∀ i, minv.getD (3 * i + 1) 0 = minv.getD (3 * i) 0 ∧ minv.getD (3 * i + 2) 0 = minv.getD (3 * i) 0)
    (hreal : ∀ i, m.getD (3 * i) 0 * minv.getD (3 * i) 0 = 1 ∨ m.getD (3 * i) 0 = 0)
    (hT0 : netTorque N m s.x (force s.x) = 0)
    (hT1 : netTorque N m (vvStep force ACC dt minv s).x (force (vvStep force ACC dt minv s).x) = 0) :
    angMomFlat N m (vvStep force ACC dt minv s).x (vvStep force ACC dt minv s).v = angMomFlat N m s.x s.v := by
  have hx' := vvStep_x_length (force := force) (minv := minv) ACC dt hs
  -- mass × (x × acc) is ACC × the torque on a real atom, 0 on a padding atom
  have torque : ∀ (x f : List ℝ) (i : ℕ), f.length = minv.length →
      m.getD (3 * i) 0 • (vec3 x i ⨯₃ vec3 (accel ACC f minv) i)
        = ACC • (if m.getD (3 * i) 0 = 0 then 0 else vec3 x i ⨯₃ vec3 f i) := by
    intro x f i hf
    rw [vec3_accel ACC f hf i (hrep i), map_smul, smul_smul]
    rcases hreal i with h1 | h0
    · have hne : m.getD (3 * i) 0 ≠ 0 := by
        intro h; rw [h] at h1; norm_num at h1
      rw [if_neg hne, ← mul_assoc, h1, one_mul]
    · rw [if_pos h0, h0]; simp
  have step : ∀ i, m.getD (3 * i) 0 •
        (vec3 (vvStep force ACC dt minv s).x i ⨯₃ vec3 (vvStep force ACC dt minv s).v i)
      = m.getD (3 * i) 0 • (vec3 s.x i ⨯₃ vec3 s.v i)
        + (dt / 2 * ACC) • (if m.getD (3 * i) 0 = 0 then 0 else vec3 s.x i ⨯₃ vec3 (force s.x) i)
        + (dt / 2 * ACC) • (if m.getD (3 * i) 0 = 0 then 0
            else vec3 (vvStep force ACC dt minv s).x i ⨯₃ vec3 (force (vvStep force ACC dt minv s).x) i) := by
    intro i
    have t0 := torque s.x (force s.x) i (by rw [hF _ hs.1, hm])
    have t1 := torque (vvStep force ACC dt minv s).x (force (vvStep force ACC dt minv s).x) i
      (by rw [hF _ hx', hm])
    rw [← hinv] at t0
    have ha' : (vvStep force ACC dt minv s).a = accel ACC (force (vvStep force ACC dt minv s).x) minv := rfl
    rw [← ha'] at t1
    rw [vec3_step_v ACC dt hs hm hF i]
    conv_lhs => rw [vec3_step_x ACC dt hs i]
    rw [cross_expand, ← vec3_step_x ACC dt hs i, smul_add, smul_add, smul_comm _ (dt / 2), t0,
      smul_comm _ (dt / 2), t1, smul_smul, smul_smul]
  unfold angMomFlat netTorque at *
  rw [Finset.sum_congr rfl (fun i _ => step i), Finset.sum_add_distrib, Finset.sum_add_distrib,
    ← Finset.smul_sum, ← Finset.smul_sum, hT0, hT1]
  simp

/-- for `F = -k x`, unit mass, `ω² = k·ACC`: the shadow energy
    `½ v² + ½ ω² x² (1 - ω² dt²/4)` is conserved exactly by `vvStep`, for every `dt` -/
theorem vv_harmonic_shadow (k : ℝ) (hs : Sized n s) (hm : minv.length = n)
    (hinv : AccOf (harmonicForce k) ACC minv s) (i : ℕ) (hmi : minv.getD i 0 = 1) :
    shadow (k * ACC) dt ((vvStep (harmonicForce k) ACC dt minv s).x.getD i 0)
        ((vvStep (harmonicForce k) ACC dt minv s).v.getD i 0)
      = shadow (k * ACC) dt (s.x.getD i 0) (s.v.getD i 0) := by
  have hF := harmonicForce_sized k n
  have hf : ∀ y : List ℝ, (harmonicForce k y).getD i 0 = -k * y.getD i 0 := by
    intro y; unfold harmonicForce; exact getD_map₀ _ (by norm_num) _ _
  have ha0 : s.a.getD i 0 = -k * s.x.getD i 0 * 1 * ACC := by
    rw [hinv, accel_getD _ _ _ (by rw [hF _ hs.1, hm]), hf, hmi]
  obtain ⟨ex, ev, ea⟩ := vv_exact_forms ACC dt hs hm hF i
  rw [hf, hmi] at ea
  rw [ev, ea, ex, ha0]
  unfold shadow
  ring

/-- the reported `(Ek, T)` are the closed-form functions of the current velocities -/
theorem thermo_consistent (kes ts ndof : ℝ) (m v : List ℝ) (h : m.length = v.length) :
    kineticEnergy kes m v = (1 / 2 * ∑ i ∈ range v.length, m.getD i 0 * v.getD i 0 ^ 2) * kes ∧
    temperature (kineticEnergy kes m v) ts ndof
      = (∑ i ∈ range v.length, m.getD i 0 * v.getD i 0 ^ 2) * kes * ts / ndof := by
  refine ⟨kineticEnergy_closed kes m v h, ?_⟩
  rw [kineticEnergy_closed kes m v h]
  unfold temperature
  rw [half_eq]
  by_cases hn : ndof = 0
  · subst hn; simp
  · field_simp

/-- `Ek ≥ 0` for non-negative masses and unit factor -/
theorem kinetic_nonneg (kes : ℝ) (m v : List ℝ) (h : m.length = v.length) (hk : 0 ≤ kes)
    (hmass : ∀ i, 0 ≤ m.getD i 0) : 0 ≤ kineticEnergy kes m v := by
  rw [kineticEnergy_closed kes m v h]
  apply mul_nonneg _ hk
  apply mul_nonneg (by norm_num)
  apply Finset.sum_nonneg
  intro i _
  exact mul_nonneg (hmass i) (sq_nonneg _)

/-- `T ≥ 0` likewise -/
theorem temperature_nonneg (kes ts ndof : ℝ) (m v : List ℝ) (h : m.length = v.length) (hk : 0 ≤ kes)
    (ht : 0 ≤ ts) (hn : 0 ≤ ndof) (hmass : ∀ i, 0 ≤ m.getD i 0) :
    0 ≤ temperature (kineticEnergy kes m v) ts ndof := by
  unfold temperature
  apply div_nonneg (mul_nonneg (kinetic_nonneg kes m v h hk hmass) ht)
  rw [half_eq]; positivity

end nve

/-! ### unit constants of the live code -/
open Generated.Constants in
/-- the four unit constants of the live code are mutually consistent:
    `ACC·KES = 1` (`F/m → Å/fs²` and `amu(Å/fs)² → eV` are inverse) and `VEL²·KES·TS = 1`
    (`½ m σ² KES TS / ½ = T`), both to `10⁻⁹` (a per-mille change of any constant breaks this) -/
theorem units_consistent :
    |ACC_SCALE * KINETIC_ENERGY_SCALE - 1| < 1e-9 ∧
    |VEL_SCALE ^ 2 * KINETIC_ENERGY_SCALE * TEMPERATURE_SCALE - 1| < 1e-9 := by
  constructor
  · rw [abs_lt]; constructor <;> norm_num [ACC_SCALE, KINETIC_ENERGY_SCALE]
  · rw [abs_lt]; constructor <;> norm_num [VEL_SCALE, KINETIC_ENERGY_SCALE, TEMPERATURE_SCALE]


open Generated.Constants in
/-- sensitivity of `units_consistent`: a per-mille change of a constant violates both bounds -/
theorem units_consistent_sensitive :
    ¬ |ACC_SCALE * (1001 / 1000) * KINETIC_ENERGY_SCALE - 1| < 1e-9 ∧
    ¬ |VEL_SCALE ^ 2 * KINETIC_ENERGY_SCALE * (TEMPERATURE_SCALE * (999 / 1000)) - 1| < 1e-9 := by
  constructor
  · rw [abs_lt]; norm_num [ACC_SCALE, KINETIC_ENERGY_SCALE]
  · rw [abs_lt]; norm_num [VEL_SCALE, KINETIC_ENERGY_SCALE, TEMPERATURE_SCALE]
/-! ### non-vacuity: two real atoms joined by a spring plus one padding atom -/
section examples

/-- masses `1, 2` and a padding atom (mass 0), replicated per component -/
def mEx : List ℝ := [1, 1, 1, 2, 2, 2, 0, 0, 0]
noncomputable def minvEx : List ℝ := [1, 1, 1, 1 / 2, 1 / 2, 1 / 2, 0, 0, 0]

/-- pair force `F₁ = x₂ - x₁ = -F₂`; the padding atom is handed a junk force `7` on purpose -/
def springForce (y : List ℝ) : List ℝ :=
  [y.getD 3 0 - y.getD 0 0, y.getD 4 0 - y.getD 1 0, y.getD 5 0 - y.getD 2 0,
   y.getD 0 0 - y.getD 3 0, y.getD 1 0 - y.getD 4 0, y.getD 2 0 - y.getD 5 0, 7, 7, 7]

/-- a moving start state whose stored acceleration is consistent -/
noncomputable def sEx : State ℝ :=
  { x := [0, 0, 0, 1, 2, 3, 5, 5, 5], v := [1, 0, -1, 0, 1 / 2, 0, 0, 0, 0],
    a := accel 1 (springForce [0, 0, 0, 1, 2, 3, 5, 5, 5]) minvEx }

theorem sEx_sized : Sized 9 sEx := by
  refine ⟨rfl, rfl, ?_⟩
  simp [sEx, springForce, minvEx]

theorem springForce_sized : ForceSized 9 springForce := fun _ _ => rfl

theorem sEx_accOf : AccOf springForce 1 minvEx sEx := rfl

theorem ex_real : ∀ k, mEx.getD k 0 * minvEx.getD k 0 = 1 ∨ mEx.getD k 0 = 0 := by
  intro k
  by_cases h : k < 9
  · interval_cases k <;> simp [mEx, minvEx]
  · right; exact getD_default _ _ (by simp [mEx]; omega)

theorem ex_rep : ∀ i, minvEx.getD (3 * i + 1) 0 = minvEx.getD (3 * i) 0 ∧
    minvEx.getD (3 * i + 2) 0 = minvEx.getD (3 * i) 0 := by
  intro i
  by_cases h : i < 3
  · interval_cases i <;> simp [minvEx]
  · rw [getD_default _ (3 * i + 1) (by simp [minvEx]; omega),
      getD_default _ (3 * i + 2) (by simp [minvEx]; omega),
      getD_default _ (3 * i) (by simp [minvEx]; omega)]
    exact ⟨rfl, rfl⟩

theorem ex_netForce (c : ℕ) (hc : c < 3) (y : List ℝ) : netForce 3 c mEx (springForce y) = 0 := by
  interval_cases c <;> simp [netForce, Finset.sum_range_succ, mEx, springForce]

theorem ex_netTorque (y : List ℝ) : netTorque 3 mEx y (springForce y) = 0 := by
  ext j
  fin_cases j <;>
    simp [netTorque, Finset.sum_range_succ, mEx, springForce, vec3, vec3f, cross_apply] <;> ring

/-- the hypotheses of `vv_exact_forms`, `vv_reversible(_n)`, `vv_linear_momentum`,
    `vv_angular_momentum` hold together for this system (masses differ, a padding atom with a
    non-zero force entry is present, the state moves) -/
example (dt : ℝ) (c : ℕ) (hc : c < 3) :
    linMom 3 c mEx (vvStep springForce 1 dt minvEx sEx).v = linMom 3 c mEx sEx.v :=
  vv_linear_momentum 1 dt 3 c mEx sEx_sized rfl springForce_sized sEx_accOf ex_real
    (ex_netForce c hc _) (ex_netForce c hc _)

example (dt : ℝ) :
    angMomFlat 3 mEx (vvStep springForce 1 dt minvEx sEx).x (vvStep springForce 1 dt minvEx sEx).v
      = angMomFlat 3 mEx sEx.x sEx.v :=
  vv_angular_momentum 1 dt 3 mEx sEx_sized rfl springForce_sized sEx_accOf ex_rep
    (fun i => ex_real (3 * i)) (ex_netTorque _) (ex_netTorque _)

example (dt : ℝ) (k : ℕ) :
    flipV (vvRun springForce 1 dt minvEx k (flipV (vvRun springForce 1 dt minvEx k sEx))) = sEx :=
  vv_reversible_n (n := 9) (minv := minvEx) 1 dt rfl springForce_sized k sEx sEx_sized sEx_accOf

/-- the momentum is not trivially zero in the example -/
example : linMom 3 0 mEx sEx.v = 1 := by
  simp [linMom, Finset.sum_range_succ, mEx, sEx]

/-- harmonic oscillator: hypotheses of `vv_harmonic_shadow` are satisfiable with `x, v ≠ 0` -/
example (dt : ℝ) :
    let s : State ℝ := { x := [1], v := [2], a := accel 3 (harmonicForce 5 [1]) [1] }
    shadow (5 * 3) dt ((vvStep (harmonicForce 5) 3 dt [1] s).x.getD 0 0)
        ((vvStep (harmonicForce 5) 3 dt [1] s).v.getD 0 0) = shadow (5 * 3) dt 1 2 := by
  intro s
  exact vv_harmonic_shadow 3 dt 5 (n := 1) (s := s) ⟨rfl, rfl, rfl⟩ rfl rfl 0 rfl

/-- `kinetic_nonneg` / `thermo_consistent`: a concrete value -/
example : kineticEnergy (2 : ℝ) [1, 3] [2, 1] = 7 := by
  rw [kineticEnergy_closed (2 : ℝ) [1, 3] [2, 1] rfl]; simp [Finset.sum_range_succ]; norm_num

example (dt : ℝ) :
    (vvStep springForce 1 dt minvEx sEx).x.getD 0 0
      = sEx.x.getD 0 0 + sEx.v.getD 0 0 * dt + 1 / 2 * sEx.a.getD 0 0 * dt ^ 2 :=
  (vv_exact_forms 1 dt sEx_sized rfl springForce_sized 0).1

/-- `kinetic_nonneg`: non-negative masses including a padding atom -/
example : 0 ≤ kineticEnergy (2 : ℝ) [1, 0] [2, 5] := by
  apply kinetic_nonneg 2 [1, 0] [2, 5] rfl (by norm_num)
  intro i
  by_cases h : i < 2
  · interval_cases i <;> simp
  · rw [getD_default _ _ (by simp; omega)]

end examples

end C08
