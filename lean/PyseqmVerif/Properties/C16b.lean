import PyseqmVerif.Properties.C16
import Mathlib.Analysis.Matrix.Spectrum
import Mathlib.Analysis.Matrix.PosDef
import Mathlib.LinearAlgebra.Matrix.PosDef
import Mathlib.LinearAlgebra.Matrix.NonsingularInverse
import Mathlib.Algebra.Order.Chebyshev
import Mathlib.Tactic.Linarith
import Mathlib.Tactic.Ring
import Mathlib.Tactic.NormNum

namespace C16b

open Matrix
open scoped RealInnerProductSpace

variable {n : Type*} [Fintype n] [DecidableEq n]

/-- a symmetric real matrix moves across the dot product -/
theorem dot_mulVec_symm (P : Matrix n n ℝ) (hP : P.IsSymm) (u v : n → ℝ) :
    u ⬝ᵥ P *ᵥ v = (P *ᵥ u) ⬝ᵥ v := by
  rw [Matrix.dotProduct_mulVec, ← Matrix.mulVec_transpose, hP.eq]

theorem isHermitian_of_isSymm {P : Matrix n n ℝ} (hP : P.IsSymm) : P.IsHermitian := by
  rw [Matrix.IsHermitian, Matrix.conjTranspose_eq_transpose_of_trivial]; exact hP

theorem exists_min_eigenpair [Nonempty n] (H : Matrix n n ℝ) (hH : H.IsSymm) :
    ∃ (lam : ℝ) (e : n → ℝ), e ≠ 0 ∧ H *ᵥ e = lam • e ∧
      ∀ u : n → ℝ, lam * (u ⬝ᵥ u) ≤ u ⬝ᵥ H *ᵥ u := by
  have hH' := isHermitian_of_isSymm hH
  obtain ⟨i0, hi0⟩ := Finite.exists_min hH'.eigenvalues
  set b := hH'.eigenvectorBasis with hb
  refine ⟨hH'.eigenvalues i0, ⇑(b i0), ?_, hH'.mulVec_eigenvectorBasis i0, ?_⟩
  · intro h0
    have : ‖b i0‖ = 1 := b.orthonormal.1 i0
    sorry
  · intro u
    sorry

end C16b
