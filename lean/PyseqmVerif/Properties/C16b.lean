import Mathlib.Analysis.Matrix.Spectrum
import Mathlib.Analysis.Matrix.PosDef
import Mathlib.LinearAlgebra.Matrix.PosDef
import Mathlib.LinearAlgebra.Matrix.NonsingularInverse
import Mathlib.LinearAlgebra.Matrix.Charpoly.Basic
import Mathlib.LinearAlgebra.FiniteDimensional.Lemmas
import Mathlib.Algebra.Order.Chebyshev
import Mathlib.Algebra.Order.Star.Real
import Mathlib.Data.Complex.BigOperators
import Mathlib.Order.Interval.Finset.Fin
import Mathlib.Tactic.Linarith
import Mathlib.Tactic.Ring
import Mathlib.Tactic.Abel
import Mathlib.Tactic.FieldSimp
import Mathlib.Tactic.Positivity
import Mathlib.Tactic.NormNum
import Mathlib.Tactic.FinCases
/-!
# C16b — RPA vs CIS in general dimension, and the algebra of the code's RPA formulation

Python: `seqm/seqm_functions/rpa.py` (`make_sqrt_mat`, `rpa_subspace_eig`, `calc_rpa_residue`).
The code solves `(A−B)(A+B) Z = ω² Z` through the symmetrised product
`H = (A−B)^{1/2} (A+B) (A−B)^{1/2}` (`make_sqrt_mat` = `V diag(√λ) Vᵀ`), takes `ω = √(eig H)`,
reconstructs `X+Y = (A−B)^{1/2} e`, `X−Y = (A+B)(X+Y)/ω` and normalises `X·X − Y·Y = 1`.

Setting: `A B : Matrix n n ℝ` symmetric (`n` any `Fintype`), `A+B` and `A−B` positive definite
(stable reference).  CIS energies = eigenvalues of `A` (`IsCISEig`), RPA: `ω² ` eigenvalue of
`(A−B)(A+B)` (`IsRPAEig`), coupled form `A X + B Y = ω X`, `B X + A Y = −ω Y` (`IsRPAPair`).

Proved (all at full strength, nothing partial):
* (1)  `rpa_lowest_le_cis_lowest` — there is a lowest RPA root `ω₁ > 0` (an eigenvalue, below every
  other RPA root) with `ω₁² ≤ a² − (xᵀBx)² ≤ a²` and `ω₁ ≤ a` for EVERY unit CIS eigenpair `(a, x)`.
  `rpa_lowest_variational` is the underlying bound `ω₁² (xᵀx)² ≤ (xᵀAx)² − (xᵀBx)²` for all `x`.
* (1c) `rpa_le_cis_all_roots` — EVERY root: with both spectra sorted (Mathlib `eigenvalues₀`),
  `√λ_k(H) ≤ λ_k(A)` for all `k`; `rpa_count_ge_cis_count` is the counting form,
  `card_le_card_eigenvalues_le` the half of Courant–Fischer it rests on (not in Mathlib);
  `symProd_charpoly` / `symProd_eigenvalue_isRPAEig`: the spectrum of `H` is the RPA spectrum.
* (2)  `rpa_eigenvalues_positive`, `rpa_eigenvalues_real_pos` — every (complex) eigenvalue of
  `(A−B)(A+B)` is real and positive (square-root-free `⟨u,v⟩_{A+B}` argument).
* (3)  `rpa_reduces_to_cis_when_B_zero` — `B = 0`: `ω > 0` is an RPA root iff it is a CIS energy.
* (4)  `rpa_pair_structure`, `rpa_pair_common_flip`, `rpa_norm_blind_to_X_flip`,
  `flip_X_only_breaks_solution`, `flip_X_only_stable`, `rpa_pair_norm_pos`,
  `rpa_code_amplitudes` — the coupled equations, what the code returns, and the sign-flip algebra:
  flipping `X` alone keeps `X·X − Y·Y` but is a solution iff `B X = 0 ∧ B Y = 0`
  (stable reference, `ω > 0`: iff additionally `Y = 0`).
* `sqrtMat_mul_self`, `sqrtMat_isSymm` — `make_sqrt_mat` returns a symmetric square root.
-/
namespace C16b

open Matrix

theorem isHermitian_of_isSymm {n : Type*} {P : Matrix n n ℝ} (hP : P.IsSymm) :
    P.IsHermitian := by
  rw [Matrix.IsHermitian, Matrix.conjTranspose_eq_transpose_of_trivial]; exact hP

theorem isSymm_of_isHermitian {n : Type*} {P : Matrix n n ℝ} (hP : P.IsHermitian) :
    P.IsSymm := by
  rw [Matrix.IsHermitian, Matrix.conjTranspose_eq_transpose_of_trivial] at hP; exact hP

/-! ## algebra that needs no spectral theory -/
section algebra
variable {n : Type*} [Fintype n]

/-- a symmetric real matrix moves across the dot product -/
theorem dot_mulVec_symm (P : Matrix n n ℝ) (hP : P.IsSymm) (u v : n → ℝ) :
    u ⬝ᵥ P *ᵥ v = (P *ᵥ u) ⬝ᵥ v := by
  rw [Matrix.dotProduct_mulVec, ← Matrix.mulVec_transpose, hP.eq]

theorem dot_self_pos {v : n → ℝ} (hv : v ≠ 0) : 0 < v ⬝ᵥ v := by
  have h := Matrix.dotProduct_star_self_pos_iff.mpr hv
  rwa [star_trivial] at h

/-- Cauchy–Schwarz for the dot product -/
theorem dot_sq_le (u v : n → ℝ) : (u ⬝ᵥ v) ^ 2 ≤ (u ⬝ᵥ u) * (v ⬝ᵥ v) := by
  have := Finset.sum_mul_sq_le_sq_mul_sq Finset.univ u v
  simpa only [dotProduct, sq] using this

theorem quad_add (A B : Matrix n n ℝ) (x : n → ℝ) :
    x ⬝ᵥ (A + B) *ᵥ x = x ⬝ᵥ A *ᵥ x + x ⬝ᵥ B *ᵥ x := by
  rw [add_mulVec, dotProduct_add]

theorem quad_sub (A B : Matrix n n ℝ) (x : n → ℝ) :
    x ⬝ᵥ (A - B) *ᵥ x = x ⬝ᵥ A *ᵥ x - x ⬝ᵥ B *ᵥ x := by
  rw [sub_mulVec, dotProduct_sub]

theorem norm_eq_sum_dot_diff (X Y : n → ℝ) : X ⬝ᵥ X - Y ⬝ᵥ Y = (X + Y) ⬝ᵥ (X - Y) := by
  rw [add_dotProduct, dotProduct_sub, dotProduct_sub, dotProduct_comm Y X]; ring

theorem posDef_dot_pos {P : Matrix n n ℝ} (hP : P.PosDef) {x : n → ℝ} (hx : x ≠ 0) :
    0 < x ⬝ᵥ P *ᵥ x := by
  have := hP.dotProduct_mulVec_pos hx
  rwa [star_trivial] at this

theorem posDef_dot_nonneg {P : Matrix n n ℝ} (hP : P.PosDef) (x : n → ℝ) :
    0 ≤ x ⬝ᵥ P *ᵥ x := by
  by_cases hx : x = 0
  · rw [hx, zero_dotProduct]
  · exact (posDef_dot_pos hP hx).le

theorem posDef_mulVec_ne_zero {P : Matrix n n ℝ} (hP : P.PosDef) {x : n → ℝ} (hx : x ≠ 0) :
    P *ᵥ x ≠ 0 := by
  intro h
  have := posDef_dot_pos hP hx
  rw [h, dotProduct_zero] at this
  exact lt_irrefl _ this

/-- `μ` is an eigenvalue of the RPA product matrix `(A−B)(A+B)` (`μ = ω²`) -/
def IsRPAEig (A B : Matrix n n ℝ) (μ : ℝ) : Prop :=
  ∃ z : n → ℝ, z ≠ 0 ∧ ((A - B) * (A + B)) *ᵥ z = μ • z

/-- `a` is a CIS excitation energy: an eigenvalue of `A` -/
def IsCISEig (A : Matrix n n ℝ) (a : ℝ) : Prop := ∃ x : n → ℝ, x ≠ 0 ∧ A *ᵥ x = a • x

/-- the TDHF/RPA equations as written in `calc_rpa_residue`:
    `A X + B Y = ω X`, `B X + A Y = −ω Y` -/
def IsRPAPair (A B : Matrix n n ℝ) (w : ℝ) (X Y : n → ℝ) : Prop :=
  A *ᵥ X + B *ᵥ Y = w • X ∧ B *ᵥ X + A *ᵥ Y = -(w • Y)

/-- under the stability hypotheses `A = ((A+B) + (A−B))/2` is positive definite as a form -/
theorem cis_form_pos (A B : Matrix n n ℝ) (hK : (A + B).PosDef) (hM : (A - B).PosDef)
    {x : n → ℝ} (hx : x ≠ 0) : 0 < x ⬝ᵥ A *ᵥ x := by
  have h1 := posDef_dot_pos hK hx
  have h2 := posDef_dot_pos hM hx
  rw [quad_add] at h1
  rw [quad_sub] at h2
  linarith

/-- every CIS energy is positive under the stability hypotheses -/
theorem cis_eigenvalue_pos (A B : Matrix n n ℝ) (hK : (A + B).PosDef) (hM : (A - B).PosDef)
    (a : ℝ) (h : IsCISEig A a) : 0 < a := by
  obtain ⟨x, hx, hax⟩ := h
  have h1 := cis_form_pos A B hK hM hx
  rw [hax, dotProduct_smul, smul_eq_mul] at h1
  exact (mul_pos_iff_of_pos_right (dot_self_pos hx)).mp h1

/-! ### (2) positivity / reality of the RPA spectrum (no square root needed) -/

/-- `(A−B)(A+B)` is self-adjoint for the inner product `⟨u,v⟩ = uᵀ(A+B)v` -/
theorem rpa_product_selfadjoint (A B : Matrix n n ℝ) (hA : A.IsSymm) (hB : B.IsSymm)
    (u v : n → ℝ) :
    (((A - B) * (A + B)) *ᵥ u) ⬝ᵥ (A + B) *ᵥ v =
      u ⬝ᵥ (A + B) *ᵥ (((A - B) * (A + B)) *ᵥ v) := by
  have hK : (A + B).IsSymm := hA.add hB
  have hM : (A - B).IsSymm := hA.sub hB
  rw [← mulVec_mulVec, ← mulVec_mulVec, ← dot_mulVec_symm _ hM, dot_mulVec_symm _ hK u]

/-- the `⟨·,·⟩_{A+B}` Rayleigh numerator of the RPA product is the `(A−B)`-form of `(A+B)u` -/
theorem rpa_product_form (A B : Matrix n n ℝ) (hA : A.IsSymm) (hB : B.IsSymm) (u v : n → ℝ) :
    (((A - B) * (A + B)) *ᵥ u) ⬝ᵥ (A + B) *ᵥ v =
      ((A + B) *ᵥ u) ⬝ᵥ (A - B) *ᵥ ((A + B) *ᵥ v) := by
  have hM : (A - B).IsSymm := hA.sub hB
  rw [← mulVec_mulVec, ← dot_mulVec_symm _ hM]

/-- **C16b (2)** every real eigenvalue `ω²` of `(A−B)(A+B)` is positive. -/
theorem rpa_eigenvalues_positive (A B : Matrix n n ℝ) (hA : A.IsSymm) (hB : B.IsSymm)
    (hK : (A + B).PosDef) (hM : (A - B).PosDef) (mu : ℝ) (h : IsRPAEig A B mu) : 0 < mu := by
  obtain ⟨z, hz, hmu⟩ := h
  have h1 := rpa_product_form A B hA hB z z
  rw [hmu, smul_dotProduct, smul_eq_mul] at h1
  have h2 := posDef_dot_pos hM (posDef_mulVec_ne_zero hK hz)
  have h3 := posDef_dot_pos hK hz
  rw [← h1] at h2
  exact (mul_pos_iff_of_pos_right h3).mp h2

/-- **C16b (2), reality** in real/imaginary parts: a complex eigenpair `z = p + i q`,
    `μ = α + i β` of the real matrix `T = (A−B)(A+B)` reads `T p = α p − β q`, `T q = β p + α q`.
    Then `β = 0` and `α > 0`. -/
theorem rpa_eigenvalues_real_pair (A B : Matrix n n ℝ) (hA : A.IsSymm) (hB : B.IsSymm)
    (hK : (A + B).PosDef) (hM : (A - B).PosDef) (al be : ℝ) (p q : n → ℝ)
    (hpq : p ≠ 0 ∨ q ≠ 0)
    (hp : ((A - B) * (A + B)) *ᵥ p = al • p - be • q)
    (hq : ((A - B) * (A + B)) *ᵥ q = be • p + al • q) : be = 0 ∧ 0 < al := by
  have hsum : 0 < p ⬝ᵥ (A + B) *ᵥ p + q ⬝ᵥ (A + B) *ᵥ q := by
    have hpp := posDef_dot_nonneg hK p
    have hqq := posDef_dot_nonneg hK q
    rcases hpq with h | h
    · have := posDef_dot_pos hK h; linarith
    · have := posDef_dot_pos hK h; linarith
  -- self-adjointness gives β = 0
  have hsa := rpa_product_selfadjoint A B hA hB p q
  rw [hp, hq, sub_dotProduct, smul_dotProduct, smul_dotProduct, mulVec_add, dotProduct_add,
    mulVec_smul, mulVec_smul, dotProduct_smul, dotProduct_smul] at hsa
  simp only [smul_eq_mul] at hsa
  have hbe : be = 0 := by
    have : be * (p ⬝ᵥ (A + B) *ᵥ p + q ⬝ᵥ (A + B) *ᵥ q) = 0 := by linarith
    rcases mul_eq_zero.mp this with h | h
    · exact h
    · exact absurd h hsum.ne'
  refine ⟨hbe, ?_⟩
  -- positivity of α
  have hfp := rpa_product_form A B hA hB p p
  have hfq := rpa_product_form A B hA hB q q
  rw [hp, hbe, zero_smul, sub_zero, smul_dotProduct, smul_eq_mul] at hfp
  rw [hq, hbe, zero_smul, zero_add, smul_dotProduct, smul_eq_mul] at hfq
  have hg : 0 < ((A + B) *ᵥ p) ⬝ᵥ (A - B) *ᵥ ((A + B) *ᵥ p) +
      ((A + B) *ᵥ q) ⬝ᵥ (A - B) *ᵥ ((A + B) *ᵥ q) := by
    have hgp := posDef_dot_nonneg hM ((A + B) *ᵥ p)
    have hgq := posDef_dot_nonneg hM ((A + B) *ᵥ q)
    rcases hpq with h | h
    · have := posDef_dot_pos hM (posDef_mulVec_ne_zero hK h); linarith
    · have := posDef_dot_pos hM (posDef_mulVec_ne_zero hK h); linarith
  have : 0 < al * (p ⬝ᵥ (A + B) *ᵥ p + q ⬝ᵥ (A + B) *ᵥ q) := by
    rw [mul_add, hfp, hfq]; exact hg
  exact (mul_pos_iff_of_pos_right hsum).mp this

theorem map_ofReal_mulVec_re (T : Matrix n n ℝ) (z : n → ℂ) :
    (fun i => ((T.map Complex.ofReal *ᵥ z) i).re) = T *ᵥ (fun i => (z i).re) := by
  funext i
  simp only [mulVec, dotProduct, Matrix.map_apply, Complex.re_sum, Complex.re_ofReal_mul]

theorem map_ofReal_mulVec_im (T : Matrix n n ℝ) (z : n → ℂ) :
    (fun i => ((T.map Complex.ofReal *ᵥ z) i).im) = T *ᵥ (fun i => (z i).im) := by
  funext i
  simp only [mulVec, dotProduct, Matrix.map_apply, Complex.im_sum, Complex.im_ofReal_mul]

/-- **C16b (2), reality**: every complex eigenvalue of the real matrix `(A−B)(A+B)` is real and
    positive, so `ω = √(ω²)` is well defined for every RPA root. -/
theorem rpa_eigenvalues_real_pos (A B : Matrix n n ℝ) (hA : A.IsSymm) (hB : B.IsSymm)
    (hK : (A + B).PosDef) (hM : (A - B).PosDef) (mu : ℂ) (z : n → ℂ) (hz : z ≠ 0)
    (h : (((A - B) * (A + B)).map Complex.ofReal) *ᵥ z = mu • z) : mu.im = 0 ∧ 0 < mu.re := by
  have hre := map_ofReal_mulVec_re ((A - B) * (A + B)) z
  have him := map_ofReal_mulVec_im ((A - B) * (A + B)) z
  rw [h] at hre him
  refine rpa_eigenvalues_real_pair A B hA hB hK hM mu.re mu.im (fun i => (z i).re)
    (fun i => (z i).im) ?_ ?_ ?_
  · by_contra hcon
    push Not at hcon
    apply hz
    funext i
    exact Complex.ext (congrFun hcon.1 i) (congrFun hcon.2 i)
  · rw [← hre]; funext i
    simp only [Pi.smul_apply, smul_eq_mul, Complex.mul_re, Pi.sub_apply]
  · rw [← him]; funext i
    simp only [Pi.smul_apply, smul_eq_mul, Complex.mul_im, Pi.add_apply]
    ring

/-! ### (3) Tamm–Dancoff limit `B = 0` -/

/-- **C16b (3a)**: for `B = 0` the square of every CIS energy is an RPA eigenvalue
    (`A² x = a² x`), no hypothesis on `A` needed. -/
theorem rpa_of_cis_when_B_zero (A : Matrix n n ℝ) (a : ℝ) (h : IsCISEig A a) :
    IsRPAEig A 0 (a ^ 2) := by
  obtain ⟨x, hx, hax⟩ := h
  refine ⟨x, hx, ?_⟩
  rw [sub_zero, add_zero, ← mulVec_mulVec, hax, mulVec_smul, hax, smul_smul, sq]

/-- **C16b (3)**: for `B = 0` and `A` positive definite the RPA excitation energies are exactly the
    CIS ones: `ω > 0` solves `A² z = ω² z` for some `z ≠ 0` iff `ω` is an eigenvalue of `A`. -/
theorem rpa_reduces_to_cis_when_B_zero (A : Matrix n n ℝ) (hA : A.PosDef) (w : ℝ) (hw : 0 < w) :
    IsRPAEig A 0 (w ^ 2) ↔ IsCISEig A w := by
  constructor
  · rintro ⟨z, hz, h⟩
    rw [sub_zero, add_zero, ← mulVec_mulVec] at h
    refine ⟨A *ᵥ z + w • z, ?_, ?_⟩
    · intro h0
      have h1 : A *ᵥ z = -(w • z) := eq_neg_of_add_eq_zero_left h0
      have h2 := posDef_dot_pos hA hz
      rw [h1, dotProduct_neg, dotProduct_smul, smul_eq_mul] at h2
      have := mul_pos hw (dot_self_pos hz)
      linarith
    · rw [mulVec_add, h, mulVec_smul, smul_add, smul_smul, sq, add_comm]
  · exact rpa_of_cis_when_B_zero A w

/-! ### (4) the coupled `(X, Y)` equations -/

theorem rpa_pair_sum (A B : Matrix n n ℝ) (w : ℝ) (X Y : n → ℝ) (h : IsRPAPair A B w X Y) :
    (A + B) *ᵥ (X + Y) = w • (X - Y) := by
  obtain ⟨h1, h2⟩ := h
  rw [add_mulVec, mulVec_add, mulVec_add, smul_sub]
  calc A *ᵥ X + A *ᵥ Y + (B *ᵥ X + B *ᵥ Y)
      = (A *ᵥ X + B *ᵥ Y) + (B *ᵥ X + A *ᵥ Y) := by abel
    _ = w • X - w • Y := by rw [h1, h2]; abel

theorem rpa_pair_diff (A B : Matrix n n ℝ) (w : ℝ) (X Y : n → ℝ) (h : IsRPAPair A B w X Y) :
    (A - B) *ᵥ (X - Y) = w • (X + Y) := by
  obtain ⟨h1, h2⟩ := h
  rw [sub_mulVec, mulVec_sub, mulVec_sub, smul_add]
  calc A *ᵥ X - A *ᵥ Y - (B *ᵥ X - B *ᵥ Y)
      = (A *ᵥ X + B *ᵥ Y) - (B *ᵥ X + A *ᵥ Y) := by abel
    _ = w • X + w • Y := by rw [h1, h2]; abel

/-- **C16b (4a)**: a solution `(X, Y)` of the coupled equations gives the eigenvector `Z = X + Y`
    of the product form `(A−B)(A+B) Z = ω² Z` the code solves, and `(Y, X)` solves the coupled
    equations with `−ω` (the de-excitation partner). -/
theorem rpa_pair_structure (A B : Matrix n n ℝ) (w : ℝ) (X Y : n → ℝ)
    (h : IsRPAPair A B w X Y) :
    ((A - B) * (A + B)) *ᵥ (X + Y) = w ^ 2 • (X + Y) ∧ IsRPAPair A B (-w) Y X := by
  refine ⟨?_, ?_, ?_⟩
  · rw [← mulVec_mulVec, rpa_pair_sum A B w X Y h, mulVec_smul, rpa_pair_diff A B w X Y h,
      smul_smul, sq]
  · rw [add_comm, h.2, neg_smul]
  · rw [add_comm, h.1, neg_smul, neg_neg]

/-- conversely (the code's reconstruction): from `K p = ω m`, `M m = ω p` (`p = X+Y`, `m = X−Y`)
    the pair `X = p + m`, `Y = p − m` solves the coupled equations -/
theorem rpa_pair_of_sum_diff (A B : Matrix n n ℝ) (w : ℝ) (p m : n → ℝ)
    (hK : (A + B) *ᵥ p = w • m) (hM : (A - B) *ᵥ m = w • p) :
    IsRPAPair A B w (p + m) (p - m) := by
  rw [add_mulVec] at hK
  rw [sub_mulVec] at hM
  constructor
  · rw [mulVec_add, mulVec_sub, smul_add, ← hK, ← hM]; abel
  · rw [mulVec_add, mulVec_sub, smul_sub, ← hK, ← hM]; abel

/-- **C16b (4b)**: a common sign flip of `(X, Y)` keeps both the equations and the
    normalisation `X·X − Y·Y`. -/
theorem rpa_pair_common_flip (A B : Matrix n n ℝ) (w : ℝ) (X Y : n → ℝ)
    (h : IsRPAPair A B w X Y) :
    IsRPAPair A B w (-X) (-Y) ∧ (-X) ⬝ᵥ (-X) - (-Y) ⬝ᵥ (-Y) = X ⬝ᵥ X - Y ⬝ᵥ Y := by
  refine ⟨⟨?_, ?_⟩, ?_⟩
  · rw [mulVec_neg, mulVec_neg, ← neg_add, h.1, smul_neg]
  · rw [mulVec_neg, mulVec_neg, ← neg_add, h.2, smul_neg]
  · rw [neg_dotProduct_neg, neg_dotProduct_neg]

/-- the normalisation alone cannot see an `X`-only flip: `X·X − Y·Y` is unchanged -/
theorem rpa_norm_blind_to_X_flip (X Y : n → ℝ) :
    (-X) ⬝ᵥ (-X) - Y ⬝ᵥ Y = X ⬝ᵥ X - Y ⬝ᵥ Y := by
  rw [neg_dotProduct_neg]

/-- **C16b (4c)** *flipping the sign of the `X` block only*: if `(X, Y)` solves the coupled
    equations then `(−X, Y)` solves them for the same `ω` **iff** `B X = 0 ∧ B Y = 0`
    (and then `A X = ω X`, `A Y = −ω Y`: the two blocks are uncoupled). -/
theorem flip_X_only_breaks_solution (A B : Matrix n n ℝ) (w : ℝ) (X Y : n → ℝ)
    (h : IsRPAPair A B w X Y) :
    IsRPAPair A B w (-X) Y ↔ (B *ᵥ X = 0 ∧ B *ᵥ Y = 0) := by
  obtain ⟨h1, h2⟩ := h
  constructor
  · rintro ⟨h3, h4⟩
    rw [mulVec_neg, smul_neg] at h3
    rw [mulVec_neg] at h4
    constructor
    · have : (2 : ℝ) • (B *ᵥ X) = 0 := by
        rw [two_smul]
        calc B *ᵥ X + B *ᵥ X = (B *ᵥ X + A *ᵥ Y) - (-(B *ᵥ X) + A *ᵥ Y) := by abel
          _ = 0 := by rw [h2, h4, sub_self]
      exact (smul_eq_zero.mp this).resolve_left (by norm_num)
    · have : (2 : ℝ) • (B *ᵥ Y) = 0 := by
        rw [two_smul]
        calc B *ᵥ Y + B *ᵥ Y = (A *ᵥ X + B *ᵥ Y) + (-(A *ᵥ X) + B *ᵥ Y) := by abel
          _ = 0 := by rw [h1, h3]; abel
      exact (smul_eq_zero.mp this).resolve_left (by norm_num)
  · rintro ⟨hX, hY⟩
    rw [hY, add_zero] at h1
    rw [hX, zero_add] at h2
    constructor
    · rw [mulVec_neg, hY, add_zero, h1, smul_neg]
    · rw [mulVec_neg, hX, neg_zero, zero_add, h2]

/-- **C16b (4d)** under the stability hypotheses and `ω > 0` the degenerate case forces `Y = 0`:
    an `X`-only flipped pair is again a solution only for a pure CIS state that `B` does not
    couple (`Y = 0`, `B X = 0`, `A X = ω X`).  Any state with a genuine de-excitation component
    `Y ≠ 0` is destroyed by the flip. -/
theorem flip_X_only_stable (A B : Matrix n n ℝ) (hK : (A + B).PosDef) (hM : (A - B).PosDef)
    (w : ℝ) (hw : 0 < w) (X Y : n → ℝ) (h : IsRPAPair A B w X Y)
    (hflip : IsRPAPair A B w (-X) Y) : Y = 0 ∧ B *ᵥ X = 0 ∧ A *ᵥ X = w • X := by
  obtain ⟨hX, hY⟩ := (flip_X_only_breaks_solution A B w X Y h).mp hflip
  obtain ⟨h1, h2⟩ := h
  rw [hY, add_zero] at h1
  rw [hX, zero_add] at h2
  refine ⟨?_, hX, h1⟩
  by_contra hne
  have h3 := cis_form_pos A B hK hM hne
  rw [h2, dotProduct_neg, dotProduct_smul, smul_eq_mul] at h3
  have := mul_pos hw (dot_self_pos hne)
  linarith

/-- **C16b (4e)**: for a non-trivial solution with `ω > 0` of a stable reference the radicand of
    the code's normalisation `XYnorm = sqrt(X·X − Y·Y)` is positive. -/
theorem rpa_pair_norm_pos (A B : Matrix n n ℝ) (hK : (A + B).PosDef) (w : ℝ) (hw : 0 < w)
    (X Y : n → ℝ) (h : IsRPAPair A B w X Y) (hXY : X ≠ 0 ∨ Y ≠ 0) : 0 < X ⬝ᵥ X - Y ⬝ᵥ Y := by
  have hs := rpa_pair_sum A B w X Y h
  have hne : X + Y ≠ 0 := by
    intro h0
    rw [h0, mulVec_zero] at hs
    have hd : X - Y = 0 := (smul_eq_zero.mp hs.symm).resolve_left hw.ne'
    have hXeq : X = Y := sub_eq_zero.mp hd
    rw [hXeq] at h0
    have hY : Y = 0 := by
      have : (2 : ℝ) • Y = 0 := by rw [two_smul]; exact h0
      exact (smul_eq_zero.mp this).resolve_left (by norm_num)
    rcases hXY with h' | h'
    · exact h' (hXeq.trans hY)
    · exact h' hY
  have hpos := posDef_dot_pos hK hne
  rw [hs, dotProduct_smul, smul_eq_mul, ← norm_eq_sum_dot_diff] at hpos
  exact (mul_pos_iff_of_pos_left hw).mp hpos

end algebra

/-! ## spectral part -/
section spectral
variable {n : Type*} [Fintype n] [DecidableEq n]

/-! ### eigenbasis expansions for a real symmetric matrix (in `⬝ᵥ` language) -/

theorem eigenbasis_expansion {H : Matrix n n ℝ} (hH : H.IsHermitian) (v w : n → ℝ) :
    v ⬝ᵥ w = ∑ i, (⇑(hH.eigenvectorBasis i) ⬝ᵥ v) * (⇑(hH.eigenvectorBasis i) ⬝ᵥ w) := by
  have := hH.eigenvectorBasis.sum_inner_mul_inner (WithLp.toLp 2 v) (WithLp.toLp 2 w)
  simp only [EuclideanSpace.inner_eq_star_dotProduct, star_trivial] at this
  rw [dotProduct_comm v w, ← this]
  refine Finset.sum_congr rfl fun i _ => ?_
  rw [dotProduct_comm w]

theorem eigenbasis_norm {H : Matrix n n ℝ} (hH : H.IsHermitian) (v : n → ℝ) :
    v ⬝ᵥ v = ∑ i, (⇑(hH.eigenvectorBasis i) ⬝ᵥ v) ^ 2 := by
  rw [eigenbasis_expansion hH v v]
  exact Finset.sum_congr rfl fun i _ => (sq _).symm

theorem eigenbasis_quad {H : Matrix n n ℝ} (hH : H.IsHermitian) (v : n → ℝ) :
    v ⬝ᵥ H *ᵥ v = ∑ i, hH.eigenvalues i * (⇑(hH.eigenvectorBasis i) ⬝ᵥ v) ^ 2 := by
  rw [eigenbasis_expansion hH v (H *ᵥ v)]
  refine Finset.sum_congr rfl fun i _ => ?_
  rw [dot_mulVec_symm H (isSymm_of_isHermitian hH) _ v, hH.mulVec_eigenvectorBasis i,
    smul_dotProduct, smul_eq_mul]
  ring

theorem eigenbasis_orthonormal {H : Matrix n n ℝ} (hH : H.IsHermitian) (i k : n) :
    ⇑(hH.eigenvectorBasis i) ⬝ᵥ ⇑(hH.eigenvectorBasis k) = if i = k then 1 else 0 := by
  have := orthonormal_iff_ite.mp hH.eigenvectorBasis.orthonormal k i
  simp only [EuclideanSpace.inner_eq_star_dotProduct, star_trivial] at this
  rw [this]
  simp only [eq_comm]

theorem eigenbasis_ne_zero {H : Matrix n n ℝ} (hH : H.IsHermitian) (i : n) :
    (⇑(hH.eigenvectorBasis i) : n → ℝ) ≠ 0 := by
  intro h
  have := eigenbasis_orthonormal hH i i
  rw [h, zero_dotProduct, if_pos rfl] at this
  exact zero_ne_one this

/-- if `v` has no component along eigenvectors with eigenvalue `> c` then `vᵀHv ≤ c vᵀv` -/
theorem quad_le_of_orth {H : Matrix n n ℝ} (hH : H.IsHermitian) (c : ℝ) (v : n → ℝ)
    (horth : ∀ i, c < hH.eigenvalues i → ⇑(hH.eigenvectorBasis i) ⬝ᵥ v = 0) :
    v ⬝ᵥ H *ᵥ v ≤ c * (v ⬝ᵥ v) := by
  rw [eigenbasis_quad hH, eigenbasis_norm hH, Finset.mul_sum]
  refine Finset.sum_le_sum fun i _ => ?_
  by_cases h : c < hH.eigenvalues i
  · rw [horth i h]; simp
  · exact mul_le_mul_of_nonneg_right (not_lt.mp h) (sq_nonneg _)

/-- if `v ≠ 0` has no component along eigenvectors with eigenvalue `≤ θ` then `θ vᵀv < vᵀHv` -/
theorem lt_quad_of_orth {H : Matrix n n ℝ} (hH : H.IsHermitian) (θ : ℝ) (v : n → ℝ) (hv : v ≠ 0)
    (horth : ∀ i, hH.eigenvalues i ≤ θ → ⇑(hH.eigenvectorBasis i) ⬝ᵥ v = 0) :
    θ * (v ⬝ᵥ v) < v ⬝ᵥ H *ᵥ v := by
  have hpos := dot_self_pos hv
  obtain ⟨k, hk⟩ : ∃ k, ⇑(hH.eigenvectorBasis k) ⬝ᵥ v ≠ 0 := by
    by_contra hall
    push Not at hall
    rw [eigenbasis_norm hH] at hpos
    simp [hall] at hpos
  rw [eigenbasis_quad hH, eigenbasis_norm hH, Finset.mul_sum]
  refine Finset.sum_lt_sum (fun i _ => ?_) ⟨k, Finset.mem_univ k, ?_⟩
  · by_cases h : hH.eigenvalues i ≤ θ
    · rw [horth i h]; simp
    · exact mul_le_mul_of_nonneg_right (not_le.mp h).le (sq_nonneg _)
  · have hlt : θ < hH.eigenvalues k := by
      by_contra h
      exact hk (horth k (not_lt.mp h))
    exact mul_lt_mul_of_pos_right hlt (by positivity)

/-- **min principle**: a real symmetric matrix has a smallest eigenpair `(λ, e)`, and
    `λ uᵀu ≤ uᵀHu` for every `u`. -/
theorem exists_min_eigenpair [Nonempty n] (H : Matrix n n ℝ) (hH : H.IsSymm) :
    ∃ (lam : ℝ) (e : n → ℝ), e ≠ 0 ∧ H *ᵥ e = lam • e ∧
      ∀ u : n → ℝ, lam * (u ⬝ᵥ u) ≤ u ⬝ᵥ H *ᵥ u := by
  have hH' := isHermitian_of_isSymm hH
  obtain ⟨i0, hi0⟩ := Finite.exists_min hH'.eigenvalues
  refine ⟨hH'.eigenvalues i0, ⇑(hH'.eigenvectorBasis i0), eigenbasis_ne_zero hH' i0,
    hH'.mulVec_eigenvectorBasis i0, fun u => ?_⟩
  rw [eigenbasis_quad hH', eigenbasis_norm hH', Finset.mul_sum]
  exact Finset.sum_le_sum fun i _ => mul_le_mul_of_nonneg_right (hi0 i) (sq_nonneg _)

/-- **half of Courant–Fischer**: if every non-trivial combination `v = Σ αᵢ uᵢ` of a family
    `u : ι → ℝⁿ` is non-zero and has Rayleigh quotient `vᵀHv ≤ θ vᵀv`, then the symmetric `H` has
    at least `|ι|` eigenvalues `≤ θ` (with multiplicity). -/
theorem card_le_card_eigenvalues_le {ι : Type*} [Fintype ι] {H : Matrix n n ℝ}
    (hH : H.IsHermitian) (θ : ℝ) (u : ι → n → ℝ)
    (hu : ∀ α : ι → ℝ, α ≠ 0 → (∑ i, α i • u i) ≠ 0 ∧
      (∑ i, α i • u i) ⬝ᵥ H *ᵥ (∑ i, α i • u i) ≤ θ * ((∑ i, α i • u i) ⬝ᵥ (∑ i, α i • u i))) :
    Fintype.card ι ≤ Fintype.card {j // hH.eigenvalues j ≤ θ} := by
  by_contra hlt
  push Not at hlt
  let G : Matrix {j // hH.eigenvalues j ≤ θ} ι ℝ :=
    Matrix.of fun j i => ⇑(hH.eigenvectorBasis j.1) ⬝ᵥ u i
  have hker : LinearMap.ker G.mulVecLin ≠ ⊥ := by
    apply LinearMap.ker_ne_bot_of_finrank_lt
    rw [Module.finrank_fintype_fun_eq_card, Module.finrank_fintype_fun_eq_card]
    exact hlt
  obtain ⟨α, hαker, hα0⟩ := Submodule.exists_mem_ne_zero_of_ne_bot hker
  have hG : G *ᵥ α = 0 := by
    rw [LinearMap.mem_ker, Matrix.mulVecLin_apply] at hαker
    exact hαker
  obtain ⟨hv0, hvle⟩ := hu α hα0
  have horth : ∀ j, hH.eigenvalues j ≤ θ →
      ⇑(hH.eigenvectorBasis j) ⬝ᵥ (∑ i, α i • u i) = 0 := by
    intro j hj
    have h1 := congrFun hG ⟨j, hj⟩
    rw [dotProduct_sum]
    simp only [dotProduct_smul, smul_eq_mul]
    simp only [mulVec, dotProduct, Matrix.of_apply, G, Pi.zero_apply] at h1 ⊢
    rw [← h1]
    exact Finset.sum_congr rfl fun i _ => mul_comm _ _
  exact absurd (lt_quad_of_orth hH θ _ hv0 horth) (not_lt.mpr hvle)

/-- coefficients of a combination of the eigenvectors with eigenvalue `≤ c` -/
theorem eigen_comb_coeff {H : Matrix n n ℝ} (hH : H.IsHermitian) (c : ℝ)
    (α : {i // hH.eigenvalues i ≤ c} → ℝ) (k : n) :
    ⇑(hH.eigenvectorBasis k) ⬝ᵥ (∑ i, α i • (⇑(hH.eigenvectorBasis i.1) : n → ℝ)) =
      if h : hH.eigenvalues k ≤ c then α ⟨k, h⟩ else 0 := by
  rw [dotProduct_sum]
  simp only [dotProduct_smul, smul_eq_mul, eigenbasis_orthonormal]
  split_ifs with h
  · rw [Finset.sum_eq_single ⟨k, h⟩]
    · simp
    · intro i _ hi
      have : k ≠ i.1 := fun hk => hi (Subtype.ext hk.symm)
      simp [this]
    · intro h'; exact absurd (Finset.mem_univ _) h'
  · refine Finset.sum_eq_zero fun i _ => ?_
    have : k ≠ i.1 := fun hk => h (hk ▸ i.2)
    simp [this]

/-- two antitone sequences with the counting domination `#{g ≤ c} ≤ #{f ≤ c}` for all `c`
    are ordered termwise: `f k ≤ g k` -/
theorem antitone_le_of_count {N : ℕ} (f g : Fin N → ℝ) (hf : Antitone f) (hg : Antitone g)
    (hcount : ∀ c, Fintype.card {i // g i ≤ c} ≤ Fintype.card {i // f i ≤ c}) (k : Fin N) :
    f k ≤ g k := by
  by_contra hlt
  push Not at hlt
  have h := hcount (g k)
  rw [Fintype.card_subtype, Fintype.card_subtype] at h
  have h1 : Finset.Ici k ⊆ Finset.univ.filter (fun i => g i ≤ g k) := by
    intro i hi
    rw [Finset.mem_Ici] at hi
    exact Finset.mem_filter.mpr ⟨Finset.mem_univ _, hg hi⟩
  have h2 : Finset.univ.filter (fun i => f i ≤ g k) ⊆ Finset.Ioi k := by
    intro i hi
    rw [Finset.mem_filter] at hi
    rw [Finset.mem_Ioi]
    by_contra hik
    have := hf (not_lt.mp hik)
    linarith [hi.2]
  have h3 := Finset.card_le_card h1
  have h4 := Finset.card_le_card h2
  rw [Fin.card_Ici] at h3
  rw [Fin.card_Ioi] at h4
  have := k.2
  omega

theorem card_eigenvalues₀_le {H : Matrix n n ℝ} (hH : H.IsHermitian) (c : ℝ) :
    Fintype.card {k // hH.eigenvalues₀ k ≤ c} = Fintype.card {i // hH.eigenvalues i ≤ c} := by
  refine Fintype.card_congr
    (Equiv.subtypeEquiv (Fintype.equivOfCardEq (Fintype.card_fin _)) fun k => ?_)
  unfold Matrix.IsHermitian.eigenvalues
  rw [Equiv.symm_apply_apply]

/-! ### `make_sqrt_mat` -/

/-- model of `make_sqrt_mat`: `eigenvectors @ diag(sqrt(eigenvalues)) @ eigenvectorsᵀ` -/
noncomputable def sqrtMat (M : Matrix n n ℝ) (hM : M.IsHermitian) : Matrix n n ℝ :=
  (hM.eigenvectorUnitary : Matrix n n ℝ) * diagonal (fun i => Real.sqrt (hM.eigenvalues i)) *
    (hM.eigenvectorUnitary : Matrix n n ℝ)ᴴ

theorem sqrtMat_isSymm (M : Matrix n n ℝ) (hM : M.IsHermitian) : (sqrtMat M hM).IsSymm := by
  have h : (sqrtMat M hM).IsHermitian := by
    unfold sqrtMat
    exact isHermitian_mul_mul_conjTranspose _ (isHermitian_diagonal _)
  exact isSymm_of_isHermitian h

/-- when no eigenvalue is negative (otherwise the code raises) the result squares to `M` -/
theorem sqrtMat_mul_self (M : Matrix n n ℝ) (hM : M.PosSemidef) :
    sqrtMat M hM.1 * sqrtMat M hM.1 = M := by
  have hU : (hM.1.eigenvectorUnitary : Matrix n n ℝ)ᴴ *
      (hM.1.eigenvectorUnitary : Matrix n n ℝ) = 1 := by
    rw [← star_eq_conjTranspose]; exact Unitary.coe_star_mul_self _
  have hd : diagonal (fun i => Real.sqrt (hM.1.eigenvalues i)) *
      diagonal (fun i => Real.sqrt (hM.1.eigenvalues i)) = diagonal hM.1.eigenvalues := by
    rw [diagonal_mul_diagonal]
    congr 1
    funext i
    exact Real.mul_self_sqrt (hM.eigenvalues_nonneg i)
  conv_rhs => rw [hM.1.spectral_theorem, Unitary.conjStarAlgAut_apply]
  unfold sqrtMat
  set U := (hM.1.eigenvectorUnitary : Matrix n n ℝ)
  set D := diagonal (fun i => Real.sqrt (hM.1.eigenvalues i))
  calc U * D * Uᴴ * (U * D * Uᴴ) = U * D * (Uᴴ * U) * D * Uᴴ := by simp only [Matrix.mul_assoc]
    _ = U * (D * D) * Uᴴ := by rw [hU, Matrix.mul_one, Matrix.mul_assoc U D D]
    _ = _ := by
      rw [hd, star_eq_conjTranspose]
      rfl

theorem sqrtMat_mulVec_mulVec (M : Matrix n n ℝ) (hM : M.PosSemidef) (v : n → ℝ) :
    sqrtMat M hM.1 *ᵥ (sqrtMat M hM.1 *ᵥ v) = M *ᵥ v := by
  rw [mulVec_mulVec, sqrtMat_mul_self M hM]

theorem sqrtMat_injective (M : Matrix n n ℝ) (hM : M.PosDef) :
    Function.Injective (sqrtMat M hM.1).mulVec := by
  intro u v huv
  by_contra hne
  have hd : u - v ≠ 0 := sub_ne_zero.mpr hne
  have h0 : sqrtMat M hM.1 *ᵥ (u - v) = 0 := by rw [mulVec_sub, huv, sub_self]
  have h1 : M *ᵥ (u - v) = 0 := by
    rw [← sqrtMat_mulVec_mulVec M hM.posSemidef, h0, mulVec_zero]
  exact posDef_mulVec_ne_zero hM hd h1

theorem sqrtMat_mulVec_ne_zero (M : Matrix n n ℝ) (hM : M.PosDef) {e : n → ℝ} (he : e ≠ 0) :
    sqrtMat M hM.1 *ᵥ e ≠ 0 := by
  intro h
  apply he
  apply sqrtMat_injective M hM
  show sqrtMat M hM.1 *ᵥ e = sqrtMat M hM.1 *ᵥ 0
  rw [h, mulVec_zero]

theorem sqrtMat_surjective (M : Matrix n n ℝ) (hM : M.PosDef) (x : n → ℝ) :
    ∃ u, sqrtMat M hM.1 *ᵥ u = x :=
  (Matrix.mulVec_surjective_iff_isUnit.mpr
    (Matrix.mulVec_injective_iff_isUnit.mp (sqrtMat_injective M hM))) x

/-- Cauchy–Schwarz through the square root: `S u = x ⇒ (xᵀx)² ≤ (uᵀu)(xᵀMx)`
    (i.e. `xᵀM⁻¹x ≥ (xᵀx)²/xᵀMx`) -/
theorem sqrt_cauchy (M : Matrix n n ℝ) (hM : M.PosSemidef) (u x : n → ℝ)
    (hu : sqrtMat M hM.1 *ᵥ u = x) : (x ⬝ᵥ x) ^ 2 ≤ (u ⬝ᵥ u) * (x ⬝ᵥ M *ᵥ x) := by
  have hS := sqrtMat_isSymm M hM.1
  have h2 := dot_sq_le u (sqrtMat M hM.1 *ᵥ x)
  rw [dot_mulVec_symm _ hS, hu] at h2
  rw [← sqrtMat_mulVec_mulVec M hM x, dot_mulVec_symm _ hS x]
  exact h2

/-! ### the symmetrised product of `rpa_subspace_eig` -/

/-- the symmetrised product the code diagonalises (`H = AmB_sqrt @ ApB @ AmB_sqrt`):
    `H = (A−B)^{1/2} (A+B) (A−B)^{1/2}` -/
noncomputable def symProd (A B : Matrix n n ℝ) (hM : (A - B).IsHermitian) : Matrix n n ℝ :=
  sqrtMat (A - B) hM * (A + B) * sqrtMat (A - B) hM

theorem symProd_isSymm (A B : Matrix n n ℝ) (hA : A.IsSymm) (hB : B.IsSymm)
    (hM : (A - B).IsHermitian) : (symProd A B hM).IsSymm := by
  have hS := sqrtMat_isSymm (A - B) hM
  have hK : (A + B).IsSymm := hA.add hB
  unfold symProd
  rw [Matrix.IsSymm, transpose_mul, transpose_mul, hS.eq, hK.eq, Matrix.mul_assoc]

theorem symProd_isHermitian (A B : Matrix n n ℝ) (hA : A.IsSymm) (hB : B.IsSymm)
    (hM : (A - B).IsHermitian) : (symProd A B hM).IsHermitian :=
  isHermitian_of_isSymm (symProd_isSymm A B hA hB hM)

theorem symProd_mulVec (A B : Matrix n n ℝ) (hM : (A - B).IsHermitian) (u : n → ℝ) :
    symProd A B hM *ᵥ u = sqrtMat (A - B) hM *ᵥ ((A + B) *ᵥ (sqrtMat (A - B) hM *ᵥ u)) := by
  unfold symProd
  rw [mulVec_mulVec, mulVec_mulVec]

theorem symProd_quad (A B : Matrix n n ℝ) (hM : (A - B).IsHermitian) (u : n → ℝ) :
    u ⬝ᵥ symProd A B hM *ᵥ u =
      (sqrtMat (A - B) hM *ᵥ u) ⬝ᵥ (A + B) *ᵥ (sqrtMat (A - B) hM *ᵥ u) := by
  rw [symProd_mulVec, dot_mulVec_symm _ (sqrtMat_isSymm (A - B) hM)]

/-- eigenvectors of the symmetrised product give RPA eigenvectors `X+Y = (A−B)^{1/2} e`
    (the code's `XpY = AmB_sqrt @ e_vec_n`) -/
theorem symProd_eig_to_rpa (A B : Matrix n n ℝ) (hM : (A - B).PosSemidef) (lam : ℝ) (e : n → ℝ)
    (he : symProd A B hM.1 *ᵥ e = lam • e) :
    ((A - B) * (A + B)) *ᵥ (sqrtMat (A - B) hM.1 *ᵥ e) =
      lam • (sqrtMat (A - B) hM.1 *ᵥ e) := by
  rw [← mulVec_mulVec, ← sqrtMat_mulVec_mulVec (A - B) hM, ← symProd_mulVec, he, mulVec_smul]

/-- and conversely every RPA eigenvector comes from one of the symmetrised product -/
theorem rpa_eig_to_symProd (A B : Matrix n n ℝ) (hM : (A - B).PosDef) (mu : ℝ) (e : n → ℝ)
    (hz : ((A - B) * (A + B)) *ᵥ (sqrtMat (A - B) hM.1 *ᵥ e) =
      mu • (sqrtMat (A - B) hM.1 *ᵥ e)) :
    symProd A B hM.1 *ᵥ e = mu • e := by
  apply sqrtMat_injective (A - B) hM
  show sqrtMat (A - B) hM.1 *ᵥ (symProd A B hM.1 *ᵥ e) = sqrtMat (A - B) hM.1 *ᵥ (mu • e)
  rw [mulVec_smul, ← hz, symProd_mulVec, sqrtMat_mulVec_mulVec (A - B) hM.posSemidef,
    mulVec_mulVec]

/-- the symmetrised product has the same characteristic polynomial as `(A−B)(A+B)`: its
    eigenvalues are ALL the RPA `ω²`, with multiplicity -/
theorem symProd_charpoly (A B : Matrix n n ℝ) (hM : (A - B).PosSemidef) :
    (symProd A B hM.1).charpoly = ((A - B) * (A + B)).charpoly := by
  unfold symProd
  rw [Matrix.charpoly_mul_comm, ← Matrix.mul_assoc, sqrtMat_mul_self (A - B) hM]

/-- every eigenvalue of the symmetrised product is an RPA eigenvalue -/
theorem symProd_eigenvalue_isRPAEig (A B : Matrix n n ℝ) (hM : (A - B).PosDef)
    (hH : (symProd A B hM.1).IsHermitian) (j : n) : IsRPAEig A B (hH.eigenvalues j) :=
  ⟨sqrtMat (A - B) hM.1 *ᵥ ⇑(hH.eigenvectorBasis j),
    sqrtMat_mulVec_ne_zero (A - B) hM (eigenbasis_ne_zero hH j),
    symProd_eig_to_rpa A B hM.posSemidef _ _ (hH.mulVec_eigenvectorBasis j)⟩

/-- the eigenvalues the code takes the square root of (`r_eval = torch.sqrt(r_eval)`) are
    positive for a stable reference: the `ValueError` branches are unreachable in exact arithmetic -/
theorem symProd_eigenvalues_pos (A B : Matrix n n ℝ) (hA : A.IsSymm) (hB : B.IsSymm)
    (hK : (A + B).PosDef) (hM : (A - B).PosDef) (hH : (symProd A B hM.1).IsHermitian) (j : n) :
    0 < hH.eigenvalues j :=
  rpa_eigenvalues_positive A B hA hB hK hM _ (symProd_eigenvalue_isRPAEig A B hM hH j)

/-! ### (1) RPA ≤ CIS, lowest root -/

/-- Rayleigh quotient of the symmetrised product at `u = S⁻¹x`, bounded by Cauchy–Schwarz -/
theorem symProd_rayleigh_bound (A B : Matrix n n ℝ) (hM : (A - B).PosDef)
    (lam : ℝ) (hlam : 0 ≤ lam)
    (hmin : ∀ u : n → ℝ, lam * (u ⬝ᵥ u) ≤ u ⬝ᵥ symProd A B hM.1 *ᵥ u) (x : n → ℝ) :
    lam * (x ⬝ᵥ x) ^ 2 ≤ (x ⬝ᵥ A *ᵥ x) ^ 2 - (x ⬝ᵥ B *ᵥ x) ^ 2 := by
  obtain ⟨u, hu⟩ := sqrtMat_surjective (A - B) hM x
  have h1 := hmin u
  rw [symProd_quad, hu, quad_add] at h1
  have hcs := sqrt_cauchy (A - B) hM.posSemidef u x hu
  have hpq := posDef_dot_nonneg hM x
  rw [quad_sub] at hcs hpq
  calc lam * (x ⬝ᵥ x) ^ 2
      ≤ lam * ((u ⬝ᵥ u) * (x ⬝ᵥ A *ᵥ x - x ⬝ᵥ B *ᵥ x)) := mul_le_mul_of_nonneg_left hcs hlam
    _ = (lam * (u ⬝ᵥ u)) * (x ⬝ᵥ A *ᵥ x - x ⬝ᵥ B *ᵥ x) := by ring
    _ ≤ (x ⬝ᵥ A *ᵥ x + x ⬝ᵥ B *ᵥ x) * (x ⬝ᵥ A *ᵥ x - x ⬝ᵥ B *ᵥ x) :=
        mul_le_mul_of_nonneg_right h1 hpq
    _ = _ := by ring

/-- **C16b (1a)** the lowest RPA root exists, is positive, is the minimum of the RPA spectrum,
    and obeys the variational bound `ω₁² (xᵀx)² ≤ (xᵀAx)² − (xᵀBx)²` for EVERY vector `x`. -/
theorem rpa_lowest_variational [Nonempty n] (A B : Matrix n n ℝ) (hA : A.IsSymm) (hB : B.IsSymm)
    (hK : (A + B).PosDef) (hM : (A - B).PosDef) :
    ∃ w1 : ℝ, 0 < w1 ∧ IsRPAEig A B (w1 ^ 2) ∧ (∀ mu, IsRPAEig A B mu → w1 ^ 2 ≤ mu) ∧
      ∀ x : n → ℝ, w1 ^ 2 * (x ⬝ᵥ x) ^ 2 ≤ (x ⬝ᵥ A *ᵥ x) ^ 2 - (x ⬝ᵥ B *ᵥ x) ^ 2 := by
  obtain ⟨lam, e, he0, he, hmin⟩ :=
    exists_min_eigenpair (symProd A B hM.1) (symProd_isSymm A B hA hB hM.1)
  have hrpa : IsRPAEig A B lam :=
    ⟨_, sqrtMat_mulVec_ne_zero (A - B) hM he0, symProd_eig_to_rpa A B hM.posSemidef lam e he⟩
  have hlam : 0 < lam := rpa_eigenvalues_positive A B hA hB hK hM lam hrpa
  have hsq : Real.sqrt lam ^ 2 = lam := Real.sq_sqrt hlam.le
  refine ⟨Real.sqrt lam, Real.sqrt_pos.mpr hlam, by rwa [hsq], ?_, ?_⟩
  · rintro mu ⟨w, hw0, hw⟩
    obtain ⟨e', rfl⟩ := sqrtMat_surjective (A - B) hM w
    have he' : e' ≠ 0 := by
      intro h; apply hw0; rw [h, mulVec_zero]
    have hH := rpa_eig_to_symProd A B hM mu e' hw
    have h1 := hmin e'
    rw [hH, dotProduct_smul, smul_eq_mul] at h1
    rw [hsq]
    exact le_of_mul_le_mul_right h1 (dot_self_pos he')
  · intro x
    rw [hsq]
    exact symProd_rayleigh_bound A B hM lam hlam.le hmin x

/-- **C16b (1)** *RPA never exceeds CIS, lowest root.*  There is a lowest RPA excitation energy
    `ω₁ > 0` (`ω₁²` an eigenvalue of `(A−B)(A+B)`, below every other RPA root) such that for EVERY
    CIS eigenpair `A x = a x`, `xᵀx = 1`:  `ω₁² ≤ a² − (xᵀBx)² ≤ a²` and `ω₁ ≤ a`.  In particular
    `ω₁(RPA) ≤ a₁(CIS)` for the smallest eigenvalue `a₁` of `A`. -/
theorem rpa_lowest_le_cis_lowest [Nonempty n] (A B : Matrix n n ℝ) (hA : A.IsSymm)
    (hB : B.IsSymm) (hK : (A + B).PosDef) (hM : (A - B).PosDef) :
    ∃ w1 : ℝ, 0 < w1 ∧ IsRPAEig A B (w1 ^ 2) ∧
      (∀ w : ℝ, 0 < w → IsRPAEig A B (w ^ 2) → w1 ≤ w) ∧
      ∀ (a : ℝ) (x : n → ℝ), x ⬝ᵥ x = 1 → A *ᵥ x = a • x →
        w1 ^ 2 ≤ a ^ 2 - (x ⬝ᵥ B *ᵥ x) ^ 2 ∧ a ^ 2 - (x ⬝ᵥ B *ᵥ x) ^ 2 ≤ a ^ 2 ∧ w1 ≤ a := by
  obtain ⟨w1, hw1, hrpa, hlow, hvar⟩ := rpa_lowest_variational A B hA hB hK hM
  refine ⟨w1, hw1, hrpa, ?_, ?_⟩
  · intro w hw hwr
    have := hlow _ hwr
    exact (pow_le_pow_iff_left₀ hw1.le hw.le (by norm_num)).mp this
  · intro a x hx hax
    have hx0 : x ≠ 0 := by
      intro h; rw [h, zero_dotProduct] at hx; exact zero_ne_one hx
    have ha : 0 < a := cis_eigenvalue_pos A B hK hM a ⟨x, hx0, hax⟩
    have h1 := hvar x
    rw [hx, hax, dotProduct_smul, hx, smul_eq_mul, mul_one, one_pow, mul_one] at h1
    have h2 : a ^ 2 - (x ⬝ᵥ B *ᵥ x) ^ 2 ≤ a ^ 2 := by
      have := sq_nonneg (x ⬝ᵥ B *ᵥ x); linarith
    exact ⟨h1, h2, (pow_le_pow_iff_left₀ hw1.le ha.le (by norm_num)).mp (h1.trans h2)⟩

/-! ### (1b,c) RPA ≤ CIS, every root -/

/-- if `S u = x ≠ 0` and `xᵀAx ≤ c xᵀx` then `uᵀ(S(A+B)S)u ≤ c² uᵀu` -/
theorem symProd_quad_le (A B : Matrix n n ℝ) (hK : (A + B).PosDef) (hM : (A - B).PosDef)
    (c : ℝ) (u x : n → ℝ) (hu : sqrtMat (A - B) hM.1 *ᵥ u = x) (hx : x ≠ 0)
    (hc : x ⬝ᵥ A *ᵥ x ≤ c * (x ⬝ᵥ x)) :
    u ⬝ᵥ symProd A B hM.1 *ᵥ u ≤ c ^ 2 * (u ⬝ᵥ u) := by
  have hcs := sqrt_cauchy (A - B) hM.posSemidef u x hu
  have hd := posDef_dot_pos hM hx
  have hp := cis_form_pos A B hK hM hx
  rw [quad_sub] at hcs hd
  rw [symProd_quad, hu, quad_add]
  refine le_of_mul_le_mul_right ?_ hd
  calc (x ⬝ᵥ A *ᵥ x + x ⬝ᵥ B *ᵥ x) * (x ⬝ᵥ A *ᵥ x - x ⬝ᵥ B *ᵥ x)
      = (x ⬝ᵥ A *ᵥ x) ^ 2 - (x ⬝ᵥ B *ᵥ x) ^ 2 := by ring
    _ ≤ (x ⬝ᵥ A *ᵥ x) ^ 2 := by have := sq_nonneg (x ⬝ᵥ B *ᵥ x); linarith
    _ ≤ (c * (x ⬝ᵥ x)) ^ 2 := pow_le_pow_left₀ hp.le hc 2
    _ = c ^ 2 * (x ⬝ᵥ x) ^ 2 := by ring
    _ ≤ c ^ 2 * ((u ⬝ᵥ u) * (x ⬝ᵥ A *ᵥ x - x ⬝ᵥ B *ᵥ x)) :=
        mul_le_mul_of_nonneg_left hcs (sq_nonneg c)
    _ = c ^ 2 * (u ⬝ᵥ u) * (x ⬝ᵥ A *ᵥ x - x ⬝ᵥ B *ᵥ x) := by ring

/-- **C16b (1b)** *counting form, all roots*: for every threshold `c` the symmetrised RPA matrix
    `(A−B)^{1/2}(A+B)(A−B)^{1/2}` has at least as many eigenvalues `ω² ≤ c²` as `A` has
    eigenvalues `a ≤ c` (with multiplicity). -/
theorem rpa_count_ge_cis_count (A B : Matrix n n ℝ) (hA : A.IsHermitian)
    (hK : (A + B).PosDef) (hM : (A - B).PosDef) (hH : (symProd A B hM.1).IsHermitian) (c : ℝ) :
    Fintype.card {i // hA.eigenvalues i ≤ c} ≤ Fintype.card {j // hH.eigenvalues j ≤ c ^ 2} := by
  choose u hu using fun i : {i // hA.eigenvalues i ≤ c} =>
    sqrtMat_surjective (A - B) hM ⇑(hA.eigenvectorBasis i.1)
  refine card_le_card_eigenvalues_le hH (c ^ 2) u fun α hα => ?_
  set v := ∑ i, α i • u i with hv
  set x : n → ℝ := ∑ i, α i • (⇑(hA.eigenvectorBasis i.1) : n → ℝ) with hx
  have hSv : sqrtMat (A - B) hM.1 *ᵥ v = x := by
    rw [hv, hx, mulVec_sum]
    exact Finset.sum_congr rfl fun i _ => by rw [mulVec_smul, hu i]
  obtain ⟨i0, hi0⟩ := Function.ne_iff.mp hα
  have hx0 : x ≠ 0 := by
    intro h0
    have := eigen_comb_coeff hA c α i0.1
    rw [← hx, h0, dotProduct_zero, dif_pos i0.2] at this
    exact hi0 this.symm
  have hv0 : v ≠ 0 := by
    intro h0; rw [h0, mulVec_zero] at hSv; exact hx0 hSv.symm
  have hxc : x ⬝ᵥ A *ᵥ x ≤ c * (x ⬝ᵥ x) := by
    refine quad_le_of_orth hA c x fun k hk => ?_
    rw [hx, eigen_comb_coeff hA c α k, dif_neg (not_le.mpr hk)]
  exact ⟨hv0, symProd_quad_le A B hK hM c v x hSv hx0 hxc⟩

/-- **C16b (1c)** *RPA never exceeds CIS, every root, general dimension.*  With both spectra
    sorted the same way (Mathlib's `eigenvalues₀` is decreasing), the `k`-th RPA excitation energy
    `ω_k = √(λ_k((A−B)^{1/2}(A+B)(A−B)^{1/2}))` is at most the `k`-th CIS energy `a_k = λ_k(A)`.
    (`hH` is `symProd_isHermitian`; by `symProd_charpoly` the `λ_k` are exactly the eigenvalues
    of `(A−B)(A+B)` with multiplicity.) -/
theorem rpa_le_cis_all_roots (A B : Matrix n n ℝ) (hA : A.IsHermitian)
    (hK : (A + B).PosDef) (hM : (A - B).PosDef) (hH : (symProd A B hM.1).IsHermitian)
    (k : Fin (Fintype.card n)) :
    Real.sqrt (hH.eigenvalues₀ k) ≤ hA.eigenvalues₀ k := by
  refine antitone_le_of_count (fun k => Real.sqrt (hH.eigenvalues₀ k)) hA.eigenvalues₀
    (fun i j hij => Real.sqrt_le_sqrt (hH.eigenvalues₀_antitone hij)) hA.eigenvalues₀_antitone
    (fun c => ?_) k
  rcases isEmpty_or_nonempty {k // hA.eigenvalues₀ k ≤ c} with he | ⟨⟨k0, hk0⟩⟩
  · rw [Fintype.card_eq_zero]; exact Nat.zero_le _
  · have hpos : 0 < hA.eigenvalues₀ k0 := by
      have h1 : IsCISEig A (hA.eigenvalues (Fintype.equivOfCardEq (Fintype.card_fin _) k0)) :=
        ⟨_, eigenbasis_ne_zero hA _, hA.mulVec_eigenvectorBasis _⟩
      have h2 := cis_eigenvalue_pos A B hK hM _ h1
      unfold Matrix.IsHermitian.eigenvalues at h2
      rwa [Equiv.symm_apply_apply] at h2
    have hc : 0 ≤ c := (hpos.trans_le hk0).le
    calc Fintype.card {k // hA.eigenvalues₀ k ≤ c}
        = Fintype.card {i // hA.eigenvalues i ≤ c} := card_eigenvalues₀_le hA c
      _ ≤ Fintype.card {j // hH.eigenvalues j ≤ c ^ 2} :=
          rpa_count_ge_cis_count A B hA hK hM hH c
      _ = Fintype.card {k // hH.eigenvalues₀ k ≤ c ^ 2} := (card_eigenvalues₀_le hH (c ^ 2)).symm
      _ ≤ Fintype.card {k // Real.sqrt (hH.eigenvalues₀ k) ≤ c} :=
          Fintype.card_subtype_mono _ _ fun k hk => Real.sqrt_le_iff.mpr ⟨hc, hk⟩

/-! ### the amplitudes reconstructed by `rpa_subspace_eig` -/

/-- **C16b (4f)** *what `rpa_subspace_eig` returns is a solution.*  For an eigenpair
    `H e = ω² e` of the symmetrised product (`ω ≠ 0`), the code's `XpY = S e`,
    `XmY = (A+B) XpY / ω`, `X = XpY + XmY`, `Y = XpY − XmY` solve the coupled equations, and the
    normalisation radicand is `X·X − Y·Y = 4 XpYᵀ(A+B)XpY / ω`. -/
theorem rpa_code_amplitudes (A B : Matrix n n ℝ) (hM : (A - B).PosSemidef) (w : ℝ) (hw : w ≠ 0)
    (e : n → ℝ) (he : symProd A B hM.1 *ᵥ e = w ^ 2 • e) :
    let XpY := sqrtMat (A - B) hM.1 *ᵥ e
    let XmY := w⁻¹ • ((A + B) *ᵥ XpY)
    IsRPAPair A B w (XpY + XmY) (XpY - XmY) ∧
      (XpY + XmY) ⬝ᵥ (XpY + XmY) - (XpY - XmY) ⬝ᵥ (XpY - XmY) =
        4 * w⁻¹ * (XpY ⬝ᵥ (A + B) *ᵥ XpY) := by
  intro XpY XmY
  have hrpa := symProd_eig_to_rpa A B hM _ e he
  have h1 : (A + B) *ᵥ XpY = w • XmY := by
    show _ = w • (w⁻¹ • _)
    rw [smul_smul, mul_inv_cancel₀ hw, one_smul]
  have h2 : (A - B) *ᵥ XmY = w • XpY := by
    show (A - B) *ᵥ (w⁻¹ • ((A + B) *ᵥ XpY)) = w • XpY
    rw [mulVec_smul, mulVec_mulVec, hrpa, smul_smul]
    congr 1
    field_simp
  refine ⟨rpa_pair_of_sum_diff A B w XpY XmY h1 h2, ?_⟩
  rw [norm_eq_sum_dot_diff]
  have e1 : XpY + XmY + (XpY - XmY) = (2 : ℝ) • XpY := by rw [two_smul]; abel
  have e2 : XpY + XmY - (XpY - XmY) = (2 : ℝ) • XmY := by rw [two_smul]; abel
  rw [e1, e2, smul_dotProduct, dotProduct_smul]
  show (2 : ℝ) • (2 : ℝ) • (XpY ⬝ᵥ (w⁻¹ • ((A + B) *ᵥ XpY))) = _
  rw [dotProduct_smul]
  simp only [smul_eq_mul]
  ring

end spectral

/-! ## non-vacuity and concrete sanity checks (2×2) -/
section examples

/-- Sylvester's criterion for a real symmetric `2×2` matrix -/
theorem posDef_two (a b d : ℝ) (ha : 0 < a) (hdet : 0 < a * d - b ^ 2) :
    (!![a, b; b, d] : Matrix (Fin 2) (Fin 2) ℝ).PosDef := by
  refine Matrix.PosDef.of_dotProduct_mulVec_pos ?_ fun x hx => ?_
  · rw [Matrix.IsHermitian, Matrix.conjTranspose_eq_transpose_of_trivial]
    ext i j; fin_cases i <;> fin_cases j <;> rfl
  · rw [star_trivial]
    simp only [dotProduct, mulVec, Fin.sum_univ_two, Matrix.of_apply, Matrix.cons_val',
      Matrix.cons_val_zero, Matrix.cons_val_one, Matrix.cons_val_fin_one]
    have hxy : x 0 ≠ 0 ∨ x 1 ≠ 0 := by
      by_contra hcon
      push Not at hcon
      apply hx; funext i; fin_cases i
      · exact hcon.1
      · exact hcon.2
    have key : 0 < a * (x 0 * (a * x 0 + b * x 1) + x 1 * (b * x 0 + d * x 1)) := by
      have e : a * (x 0 * (a * x 0 + b * x 1) + x 1 * (b * x 0 + d * x 1)) =
          (a * x 0 + b * x 1) ^ 2 + (a * d - b ^ 2) * x 1 ^ 2 := by ring
      rw [e]
      by_cases h1 : x 1 = 0
      · have h0 : x 0 ≠ 0 := hxy.resolve_right (not_not.mpr h1)
        rw [h1]
        have : 0 < (a * x 0) ^ 2 := by positivity
        simpa using this
      · have : 0 < (a * d - b ^ 2) * x 1 ^ 2 := by positivity
        have := sq_nonneg (a * x 0 + b * x 1)
        linarith
    exact (mul_pos_iff_of_pos_left ha).mp key

/-- example data: `A = diag(2,3)` (CIS energies 2, 3), `B` couples the two excitations -/
def exA : Matrix (Fin 2) (Fin 2) ℝ := !![2, 0; 0, 3]
/-- see `exA` -/
def exB : Matrix (Fin 2) (Fin 2) ℝ := !![0, 1; 1, 0]

theorem exA_symm : exA.IsSymm := by
  ext i j; fin_cases i <;> fin_cases j <;> rfl
theorem exB_symm : exB.IsSymm := by
  ext i j; fin_cases i <;> fin_cases j <;> rfl

theorem ex_sum : exA + exB = !![2, 1; 1, 3] := by
  ext i j; fin_cases i <;> fin_cases j <;> simp [exA, exB]
theorem ex_diff : exA - exB = !![2, -1; -1, 3] := by
  ext i j; fin_cases i <;> fin_cases j <;> simp [exA, exB]

theorem ex_sum_posDef : (exA + exB).PosDef := by
  rw [ex_sum]; exact posDef_two 2 1 3 (by norm_num) (by norm_num)
theorem ex_diff_posDef : (exA - exB).PosDef := by
  rw [ex_diff]; exact posDef_two 2 (-1) 3 (by norm_num) (by norm_num)

/-- non-vacuity of the hypotheses of `rpa_lowest_le_cis_lowest` / `rpa_le_cis_all_roots` /
    `rpa_eigenvalues_positive`: a stable pair with `B ≠ 0` not commuting with `A`, and a unit CIS
    eigenvector -/
example : exA.IsSymm ∧ exB.IsSymm ∧ (exA + exB).PosDef ∧ (exA - exB).PosDef ∧ exB ≠ 0 ∧
    exA * exB ≠ exB * exA ∧
    (![1, 0] : Fin 2 → ℝ) ⬝ᵥ ![1, 0] = 1 ∧ exA *ᵥ ![1, 0] = (2 : ℝ) • ![1, 0] := by
  refine ⟨exA_symm, exB_symm, ex_sum_posDef, ex_diff_posDef, ?_, ?_, ?_, ?_⟩
  · intro h
    have := congrFun (congrFun h 0) 1
    simp [exB] at this
  · intro h
    have := congrFun (congrFun h 0) 1
    simp [exA, exB] at this
  · simp [dotProduct, Fin.sum_univ_two]
  · funext i; fin_cases i <;> simp [exA, mulVec, dotProduct, Fin.sum_univ_two]

/-- the theorem applied: this system has an RPA root `ω₁ ≤ 2 =` lowest CIS energy
    (numerically `ω₁² = (11 − √21)/2 ≈ 3.21 < 4`) -/
example : ∃ w1 : ℝ, 0 < w1 ∧ IsRPAEig exA exB (w1 ^ 2) ∧ w1 ≤ 2 := by
  obtain ⟨w1, h0, h1, -, h3⟩ :=
    rpa_lowest_le_cis_lowest exA exB exA_symm exB_symm ex_sum_posDef ex_diff_posDef
  refine ⟨w1, h0, h1, (h3 2 ![1, 0] ?_ ?_).2.2⟩
  · simp [dotProduct, Fin.sum_univ_two]
  · funext i; fin_cases i <;> simp [exA, mulVec, dotProduct, Fin.sum_univ_two]

/-- all roots for the example: both sorted RPA energies are below the sorted CIS energies -/
example (k : Fin (Fintype.card (Fin 2))) :
    Real.sqrt ((symProd_isHermitian exA exB exA_symm exB_symm ex_diff_posDef.1).eigenvalues₀ k) ≤
      (isHermitian_of_isSymm exA_symm).eigenvalues₀ k :=
  rpa_le_cis_all_roots exA exB _ ex_sum_posDef ex_diff_posDef _ k

/-- fully explicit instance in the style of `C16.rpa_le_cis_2x2`: `A = 5·1`, `B = [[0,3],[3,0]]`
    gives `(A−B)(A+B) = 16·1`, so `ω = 4 ≤ 5` -/
example : IsRPAEig (!![5, 0; 0, 5] : Matrix (Fin 2) (Fin 2) ℝ) !![0, 3; 3, 0] (4 ^ 2) ∧
    IsCISEig (!![5, 0; 0, 5] : Matrix (Fin 2) (Fin 2) ℝ) 5 ∧ (4 : ℝ) ≤ 5 := by
  refine ⟨⟨![1, 0], ?_, ?_⟩, ⟨![1, 0], ?_, ?_⟩, by norm_num⟩
  · intro h; have := congrFun h 0; simp at this
  · funext i; fin_cases i <;>
      simp [Matrix.mul_apply, mulVec, dotProduct, Fin.sum_univ_two] <;> norm_num
  · intro h; have := congrFun h 0; simp at this
  · funext i; fin_cases i <;> simp [mulVec, dotProduct, Fin.sum_univ_two]

/-- a concrete solution of the coupled equations whose `X`-only flip is NOT a solution
    (`n = 1`, `A = 5`, `B = 3`, `ω = 4`, `(X, Y) = (3, −1)`): the seeded defect is detectable
    by the residual although `X·X − Y·Y` is unchanged -/
example : IsRPAPair (!![5] : Matrix (Fin 1) (Fin 1) ℝ) !![3] 4 ![3] ![-1] ∧
    ¬ IsRPAPair (!![5] : Matrix (Fin 1) (Fin 1) ℝ) !![3] 4 (-![3]) ![-1] := by
  constructor
  · constructor <;> funext i <;> fin_cases i <;> simp <;> norm_num
  · rintro ⟨h, -⟩
    have := congrFun h 0
    simp at this
    norm_num at this

end examples

end C16b
