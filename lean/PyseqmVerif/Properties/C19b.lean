import PyseqmVerif.Properties.C03
import Mathlib.Data.Matrix.Block
import Mathlib.Data.Matrix.Mul
import Mathlib.Data.Finset.Sum
import Mathlib.LinearAlgebra.Matrix.Trace
import Mathlib.Analysis.Calculus.Deriv.Add
import Mathlib.Tactic.Linarith
import Mathlib.Tactic.NormNum
import Mathlib.Tactic.FinCases
import Mathlib.Tactic.Ring
import Mathlib.Tactic.Positivity
import Mathlib.Tactic.Push
/-!
# C19b — exact additivity for decoupled fragments (closed-shell SCF model)

Property C19: "The energy of a system made of closed-shell neutral fragments separated by a large
distance tends to the sum of the fragment energies … With the default (infinite) pair cutoff no
interaction is dropped at any distance; with a finite cutoff exactly the pairs beyond it are
ignored."

In the NDDO model every inter-fragment interaction enters through PAIR terms: the resonance
integrals `β·S` (off-diagonal block of the one-electron matrix), the core–electron attraction
(added to the diagonal block of the *other* atom), the two-centre two-electron integrals (Coulomb
part added to the diagonal blocks, exchange part to the off-diagonal block of `G(P)`) and the
core–core repulsion.  When the pair list contains no pair `(i, j)` with `i ∈ A`, `j ∈ B`
(`C19.finite_cutoff_exact`: with a finite cutoff exactly the pairs beyond it are dropped) none of
these is ever added, i.e.

* `H = fromBlocks H_A 0 0 H_B`,
* `G (fromBlocks P_A X Y P_B) = fromBlocks (G_A P_A) 0 0 (G_B P_B)` (`StronglyDecoupled`; only the
  block-diagonal instance `Decoupled` is needed for most statements),
* `E_nuc = E_nuc,A + E_nuc,B`.

Proved here, for real matrices over the index type `a ⊕ b`, `F(P) = H + G(P)`,
`E_elec(P) = ½ tr (P (H + F(P)))` (the form of `C14.elec_energy_symmetric_form`).  `G` is an
arbitrary function: linearity is **not** needed for any statement below.

1. `energy_additive_blockdiag` (and `energy_additive_any_density`, `total_energy_additive`);
2. `fock_blockdiag`, `commutator_blockdiag`, `stationary_of_fragments`;
3. `aufbau_of_fragments` (sufficiency of level alignment), `alignment_of_aufbau` (necessity),
   `aufbau_iff_aligned`; `aufbau_of_fragments_fermi` (strict common Fermi level ⇒ the direct sum
   is *the* aufbau density of the super-system Fock matrix, via `aufbau_unique_of_gap`); the
   Rayleigh characterisation `aufbau_rayleigh`; the concrete counterexample
   `aufbau_needs_level_alignment` (charge transfer between two 1×1 fragments);
4. `forces_decouple`.

Not proved (and not claimed): that the SCF *iteration* of the super-system converges to the direct
sum from an arbitrary start; only that the direct sum is a fixed point of `P ↦ aufbau(F(P))`
(unique image under a strict gap) with exactly additive energy.  The asymptotic (un-dropped pairs,
large distance) part of C19 is in `C19.lean` and the numerical harness.
-/
namespace C19b
open Matrix
set_option linter.unusedSectionVars false

/-! ## the closed-shell SCF model -/
section Model
variable {n : Type*} [Fintype n] [DecidableEq n]

/-- Fock matrix `F(P) = H + G(P)` -/
def fock (H : Matrix n n ℝ) (G : Matrix n n ℝ → Matrix n n ℝ) (P : Matrix n n ℝ) : Matrix n n ℝ :=
  H + G P

/-- electronic energy `E(P) = ½ tr (P (H + F(P)))` -/
noncomputable def elecEnergy (H : Matrix n n ℝ) (G : Matrix n n ℝ → Matrix n n ℝ)
    (P : Matrix n n ℝ) : ℝ :=
  (1 / 2) * trace (P * (H + fock H G P))

/-- total energy `E_elec(P) + E_nuc` -/
noncomputable def totalEnergy (H : Matrix n n ℝ) (G : Matrix n n ℝ → Matrix n n ℝ) (Enuc : ℝ)
    (P : Matrix n n ℝ) : ℝ :=
  elecEnergy H G P + Enuc

/-- the SCF commutator `[F(P), P]` -/
def commutator (H : Matrix n n ℝ) (G : Matrix n n ℝ → Matrix n n ℝ) (P : Matrix n n ℝ) :
    Matrix n n ℝ :=
  fock H G P * P - P * fock H G P

/-- `P` is a closed-shell SCF stationary point with `N` electrons: symmetric, `tr P = N`,
    `(P/2)² = P/2`, `[F(P), P] = 0` (the clauses of C03) -/
structure IsScfStationary (H : Matrix n n ℝ) (G : Matrix n n ℝ → Matrix n n ℝ) (N : ℝ)
    (P : Matrix n n ℝ) : Prop where
  symm : Pᵀ = P
  trace_eq : trace P = N
  idem : ((1 / 2 : ℝ) • P) * ((1 / 2 : ℝ) • P) = (1 / 2 : ℝ) • P
  comm : commutator H G P = 0

/-- `(C, e, occ)` is an aufbau eigen-decomposition of `F`: orthonormal eigenvectors
    `CᵀC = 1`, `F C = C diag(e)`, and every occupied level lies (weakly) below every virtual level.
    This is what `sym_eig_trunc` produces: `eigh` sorts ascending and the first `nocc` columns are
    occupied. -/
structure AufbauData (F C : Matrix n n ℝ) (e : n → ℝ) (occ : Finset n) : Prop where
  orth : Cᵀ * C = 1
  eig : F * C = C * diagonal e
  order : ∀ i ∈ occ, ∀ j ∉ occ, e i ≤ e j

/-- `P` is an aufbau density of `F` with `k` doubly occupied orbitals (`P = 2 C_occ C_occᵀ`,
    `C03.aufbauP`) -/
def IsAufbau (F : Matrix n n ℝ) (k : ℕ) (P : Matrix n n ℝ) : Prop :=
  ∃ (C : Matrix n n ℝ) (e : n → ℝ) (occ : Finset n),
    AufbauData F C e occ ∧ occ.card = k ∧ P = C03.aufbauP C occ

/-- `P` is a fixed point of the SCF map `P ↦ aufbau(F(P))` — what a converged `scf_loop` returns -/
def IsScfSolution (H : Matrix n n ℝ) (G : Matrix n n ℝ → Matrix n n ℝ) (k : ℕ)
    (P : Matrix n n ℝ) : Prop :=
  IsAufbau (fock H G P) k P

/-- one-centre two-electron term `G(P) = diag(g_i · P_ii)` (used for the examples) -/
def oneCentreG (g : n → ℝ) (P : Matrix n n ℝ) : Matrix n n ℝ := diagonal fun i => g i * P i i

end Model

/-! ## decoupling -/
section Decoupling
variable {a b : Type*} [Fintype a] [Fintype b] [DecidableEq a] [DecidableEq b]

/-- `G` of a block-diagonal density is block diagonal with the fragment operators: in particular
    its off-diagonal blocks vanish (needed for stationarity) -/
def Decoupled (G : Matrix (a ⊕ b) (a ⊕ b) ℝ → Matrix (a ⊕ b) (a ⊕ b) ℝ)
    (GA : Matrix a a ℝ → Matrix a a ℝ) (GB : Matrix b b ℝ → Matrix b b ℝ) : Prop :=
  ∀ PA PB, G (fromBlocks PA 0 0 PB) = fromBlocks (GA PA) 0 0 (GB PB)

/-- all inter-fragment pairs dropped: for *any* density (off-diagonal blocks `X`, `Y` arbitrary)
    `G(P)` is block diagonal and its blocks only see the diagonal blocks of `P` -/
def StronglyDecoupled (G : Matrix (a ⊕ b) (a ⊕ b) ℝ → Matrix (a ⊕ b) (a ⊕ b) ℝ)
    (GA : Matrix a a ℝ → Matrix a a ℝ) (GB : Matrix b b ℝ → Matrix b b ℝ) : Prop :=
  ∀ PA X Y PB, G (fromBlocks PA X Y PB) = fromBlocks (GA PA) 0 0 (GB PB)

theorem StronglyDecoupled.decoupled {G : Matrix (a ⊕ b) (a ⊕ b) ℝ → Matrix (a ⊕ b) (a ⊕ b) ℝ}
    {GA : Matrix a a ℝ → Matrix a a ℝ} {GB : Matrix b b ℝ → Matrix b b ℝ}
    (h : StronglyDecoupled G GA GB) : Decoupled G GA GB := fun PA PB => h PA 0 0 PB

/-- the general two-fragment NDDO two-electron operator: fragment terms plus the pair terms
    `J_AB`, `J_BA` (two-centre Coulomb, enters the diagonal blocks) and `K_AB`, `K_BA` (two-centre
    exchange, enters the off-diagonal blocks) -/
def pairG (GA : Matrix a a ℝ → Matrix a a ℝ) (GB : Matrix b b ℝ → Matrix b b ℝ)
    (JAB : Matrix b b ℝ → Matrix a a ℝ) (JBA : Matrix a a ℝ → Matrix b b ℝ)
    (KAB : Matrix a b ℝ → Matrix a b ℝ) (KBA : Matrix b a ℝ → Matrix b a ℝ)
    (P : Matrix (a ⊕ b) (a ⊕ b) ℝ) : Matrix (a ⊕ b) (a ⊕ b) ℝ :=
  fromBlocks (GA P.toBlocks₁₁ + JAB P.toBlocks₂₂) (KAB P.toBlocks₁₂)
    (KBA P.toBlocks₂₁) (GB P.toBlocks₂₂ + JBA P.toBlocks₁₁)

/-- with the pair terms dropped (each is a sum over the pairs `(i ∈ A, j ∈ B)` of the pair list,
    which is empty) the operator is strongly decoupled -/
theorem pairG_dropped (GA : Matrix a a ℝ → Matrix a a ℝ) (GB : Matrix b b ℝ → Matrix b b ℝ) :
    StronglyDecoupled (pairG GA GB (fun _ => 0) (fun _ => 0) (fun _ => 0) (fun _ => 0)) GA GB := by
  intro PA X Y PB
  simp [pairG]

/-- the one-centre operator of the union is strongly decoupled -/
theorem oneCentreG_decoupled (gA : a → ℝ) (gB : b → ℝ) :
    StronglyDecoupled (oneCentreG (Sum.elim gA gB)) (oneCentreG gA) (oneCentreG gB) := by
  intro PA X Y PB
  unfold oneCentreG
  rw [fromBlocks_diagonal]
  congr 1
  funext i
  cases i <;> simp

theorem trace_fromBlocks (A : Matrix a a ℝ) (B : Matrix a b ℝ) (C : Matrix b a ℝ)
    (D : Matrix b b ℝ) : trace (fromBlocks A B C D) = trace A + trace D := by
  simp [trace, Fintype.sum_sum_type]

variable (HA : Matrix a a ℝ) (HB : Matrix b b ℝ)
  (G : Matrix (a ⊕ b) (a ⊕ b) ℝ → Matrix (a ⊕ b) (a ⊕ b) ℝ)
  (GA : Matrix a a ℝ → Matrix a a ℝ) (GB : Matrix b b ℝ → Matrix b b ℝ)

/-! ## 1. energy -/

/-- **The Fock matrix of a direct-sum density is the direct sum of the fragment Fock matrices.** -/
theorem fock_blockdiag (hG : Decoupled G GA GB) (PA : Matrix a a ℝ) (PB : Matrix b b ℝ) :
    fock (fromBlocks HA 0 0 HB) G (fromBlocks PA 0 0 PB) =
      fromBlocks (fock HA GA PA) 0 0 (fock HB GB PB) := by
  unfold fock
  rw [hG, fromBlocks_add]
  simp only [add_zero]

/-- **Exact additivity of the electronic energy** on direct-sum densities. -/
theorem energy_additive_blockdiag (hG : Decoupled G GA GB) (PA : Matrix a a ℝ)
    (PB : Matrix b b ℝ) :
    elecEnergy (fromBlocks HA 0 0 HB) G (fromBlocks PA 0 0 PB) =
      elecEnergy HA GA PA + elecEnergy HB GB PB := by
  unfold elecEnergy
  rw [fock_blockdiag HA HB G GA GB hG, fromBlocks_add, fromBlocks_multiply, trace_fromBlocks]
  simp only [add_zero, Matrix.mul_zero, zero_add]
  ring

/-- with all pairs dropped the electronic energy of **any** super-system density (off-diagonal
    blocks included) is the sum of the fragment energies of its diagonal blocks: the energy
    functional itself is additive, not only its value at the solution -/
theorem energy_additive_any_density (hG : StronglyDecoupled G GA GB) (PA : Matrix a a ℝ)
    (X : Matrix a b ℝ) (Y : Matrix b a ℝ) (PB : Matrix b b ℝ) :
    elecEnergy (fromBlocks HA 0 0 HB) G (fromBlocks PA X Y PB) =
      elecEnergy HA GA PA + elecEnergy HB GB PB := by
  unfold elecEnergy fock
  rw [hG, fromBlocks_add, fromBlocks_add, fromBlocks_multiply, trace_fromBlocks]
  simp only [add_zero, Matrix.mul_zero, zero_add]
  ring

/-- **Total energy**: with the core–core energy additive (its sum runs over the pairs of the pair
    list, all of which lie inside a fragment) `E_tot = E_tot,A + E_tot,B`, exactly -/
theorem total_energy_additive (hG : Decoupled G GA GB) (EnucA EnucB : ℝ) (PA : Matrix a a ℝ)
    (PB : Matrix b b ℝ) :
    totalEnergy (fromBlocks HA 0 0 HB) G (EnucA + EnucB) (fromBlocks PA 0 0 PB) =
      totalEnergy HA GA EnucA PA + totalEnergy HB GB EnucB PB := by
  unfold totalEnergy
  rw [energy_additive_blockdiag HA HB G GA GB hG]
  ring

/-! ## 2. stationary points -/

/-- `[F(P), P]` of a direct sum is the direct sum of the fragment commutators -/
theorem commutator_blockdiag (hG : Decoupled G GA GB) (PA : Matrix a a ℝ) (PB : Matrix b b ℝ) :
    commutator (fromBlocks HA 0 0 HB) G (fromBlocks PA 0 0 PB) =
      fromBlocks (commutator HA GA PA) 0 0 (commutator HB GB PB) := by
  unfold commutator
  rw [fock_blockdiag HA HB G GA GB hG, fromBlocks_multiply, fromBlocks_multiply]
  simp only [add_zero, Matrix.mul_zero, Matrix.zero_mul, zero_add]
  ext i j
  rcases i with i | i <;> rcases j with j | j <;> simp

/-- **Direct sums of fragment stationary points are stationary points of the super-system**, with
    `N_A + N_B` electrons, and their energy is the sum of the fragment energies. -/
theorem stationary_of_fragments (hG : Decoupled G GA GB) (NA NB EnucA EnucB : ℝ)
    (PA : Matrix a a ℝ) (PB : Matrix b b ℝ)
    (hA : IsScfStationary HA GA NA PA) (hB : IsScfStationary HB GB NB PB) :
    IsScfStationary (fromBlocks HA 0 0 HB) G (NA + NB) (fromBlocks PA 0 0 PB) ∧
    elecEnergy (fromBlocks HA 0 0 HB) G (fromBlocks PA 0 0 PB) =
      elecEnergy HA GA PA + elecEnergy HB GB PB ∧
    totalEnergy (fromBlocks HA 0 0 HB) G (EnucA + EnucB) (fromBlocks PA 0 0 PB) =
      totalEnergy HA GA EnucA PA + totalEnergy HB GB EnucB PB := by
  refine ⟨⟨?_, ?_, ?_, ?_⟩, energy_additive_blockdiag HA HB G GA GB hG PA PB,
    total_energy_additive HA HB G GA GB hG EnucA EnucB PA PB⟩
  · rw [fromBlocks_transpose, hA.symm, hB.symm, transpose_zero, transpose_zero]
  · rw [trace_fromBlocks, hA.trace_eq, hB.trace_eq]
  · rw [fromBlocks_smul, fromBlocks_multiply]
    simp only [smul_zero, add_zero, Matrix.mul_zero, Matrix.zero_mul, zero_add]
    rw [hA.idem, hB.idem]
  · rw [commutator_blockdiag HA HB G GA GB hG, hA.comm, hB.comm, fromBlocks_zero]

/-- the converse: a direct sum is stationary only if both fragments are -/
theorem fragments_of_stationary (hG : Decoupled G GA GB) (N : ℝ)
    (PA : Matrix a a ℝ) (PB : Matrix b b ℝ)
    (h : IsScfStationary (fromBlocks HA 0 0 HB) G N (fromBlocks PA 0 0 PB)) :
    IsScfStationary HA GA (trace PA) PA ∧ IsScfStationary HB GB (trace PB) PB ∧
      N = trace PA + trace PB := by
  have hs := h.symm
  rw [fromBlocks_transpose, fromBlocks_inj] at hs
  have hi := h.idem
  rw [fromBlocks_smul, fromBlocks_multiply] at hi
  simp only [smul_zero, add_zero, Matrix.mul_zero, Matrix.zero_mul, zero_add] at hi
  rw [fromBlocks_inj] at hi
  have hc := h.comm
  rw [commutator_blockdiag HA HB G GA GB hG, ← fromBlocks_zero, fromBlocks_inj] at hc
  have ht := h.trace_eq
  rw [trace_fromBlocks] at ht
  exact ⟨⟨hs.1, rfl, hi.1, hc.1⟩, ⟨hs.2.2.2, rfl, hi.2.2.2, hc.2.2.2⟩, ht.symm⟩

end Decoupling


/-! ## 3. aufbau solutions -/
section Rayleigh
variable {n : Type*} [Fintype n] [DecidableEq n]
  {F C : Matrix n n ℝ} {e : n → ℝ} {occ : Finset n}

theorem AufbauData.orth' (h : AufbauData F C e occ) : C * Cᵀ = 1 := mul_eq_one_comm.mp h.orth

/-- `F = C diag(e) Cᵀ` (in particular `F` is symmetric) -/
theorem AufbauData.spectral (h : AufbauData F C e occ) : F = C * diagonal e * Cᵀ := by
  calc F = F * (C * Cᵀ) := by rw [h.orth', Matrix.mul_one]
    _ = C * diagonal e * Cᵀ := by rw [← Matrix.mul_assoc, h.eig]

/-- an aufbau density has the C03 properties: symmetric, `tr = 2k`, `(P/2)² = P/2`, `[F, P] = 0` -/
theorem IsAufbau.properties {k : ℕ} {P : Matrix n n ℝ} (h : IsAufbau F k P) :
    Pᵀ = P ∧ trace P = 2 * k ∧ ((1 / 2 : ℝ) • P) * ((1 / 2 : ℝ) • P) = (1 / 2 : ℝ) • P ∧
      F * P = P * F := by
  obtain ⟨C, e, occ, hd, hk, rfl⟩ := h
  have := C03.aufbau_density C F e occ hd.orth hd.eig
  rw [hk] at this
  exact this

/-- an SCF solution (fixed point of `P ↦ aufbau(F(P))`) is an SCF stationary point -/
theorem IsScfSolution.stationary {H : Matrix n n ℝ} {G : Matrix n n ℝ → Matrix n n ℝ} {k : ℕ}
    {P : Matrix n n ℝ} (h : IsScfSolution H G k P) : IsScfStationary H G (2 * k) P := by
  obtain ⟨h1, h2, h3, h4⟩ := IsAufbau.properties h
  exact ⟨h1, h2, h3, by unfold commutator; rw [h4, sub_self]⟩

/-- quadratic forms in eigen-coordinates `w = Cᵀ z` -/
theorem AufbauData.quadForm (h : AufbauData F C e occ) (z : n → ℝ) :
    z ⬝ᵥ F *ᵥ z = ∑ i, e i * (Cᵀ *ᵥ z) i ^ 2 ∧ z ⬝ᵥ z = ∑ i, (Cᵀ *ᵥ z) i ^ 2 := by
  constructor
  · calc z ⬝ᵥ F *ᵥ z = z ⬝ᵥ (C * diagonal e * Cᵀ) *ᵥ z := by rw [← h.spectral]
      _ = (Cᵀ *ᵥ z) ⬝ᵥ (diagonal e *ᵥ (Cᵀ *ᵥ z)) := by
          rw [← mulVec_mulVec, ← mulVec_mulVec, dotProduct_mulVec, ← mulVec_transpose]
      _ = ∑ i, e i * (Cᵀ *ᵥ z) i ^ 2 := by
          simp only [dotProduct, mulVec_diagonal]
          apply Finset.sum_congr rfl; intro i _; ring
  · calc z ⬝ᵥ z = z ⬝ᵥ (C * Cᵀ) *ᵥ z := by rw [h.orth', one_mulVec]
      _ = (Cᵀ *ᵥ z) ⬝ᵥ (Cᵀ *ᵥ z) := by
          rw [← mulVec_mulVec, dotProduct_mulVec, ← mulVec_transpose]
      _ = ∑ i, (Cᵀ *ᵥ z) i ^ 2 := by
          simp only [dotProduct]
          apply Finset.sum_congr rfl; intro i _; ring

/-- `Cᵀ (P z) = 2 D (Cᵀ z)` for `P = 2 C D Cᵀ` -/
theorem AufbauData.coords_aufbauP (h : AufbauData F C e occ) (z : n → ℝ) :
    Cᵀ *ᵥ (C03.aufbauP C occ *ᵥ z) = (2 : ℝ) • (C03.occDiag occ *ᵥ (Cᵀ *ᵥ z)) := by
  have hm : Cᵀ * C03.aufbauP C occ = (2 : ℝ) • (C03.occDiag occ * Cᵀ) := by
    unfold C03.aufbauP
    rw [Matrix.mul_smul, ← Matrix.mul_assoc, ← Matrix.mul_assoc, h.orth, Matrix.one_mul]
  rw [mulVec_mulVec, hm, smul_mulVec, ← mulVec_mulVec]

/-- vectors in the range of `P/2` have no virtual component -/
theorem AufbauData.coords_of_range (h : AufbauData F C e occ) (x : n → ℝ)
    (hx : C03.aufbauP C occ *ᵥ x = (2 : ℝ) • x) : ∀ i ∉ occ, (Cᵀ *ᵥ x) i = 0 := by
  intro i hi
  have h1 := h.coords_aufbauP x
  rw [hx, mulVec_smul] at h1
  have h2 := congrFun h1 i
  simp only [Pi.smul_apply, smul_eq_mul, C03.occDiag, mulVec_diagonal, hi, if_false,
    zero_mul, mul_zero] at h2
  linarith

/-- vectors in the kernel of `P` have no occupied component -/
theorem AufbauData.coords_of_kernel (h : AufbauData F C e occ) (y : n → ℝ)
    (hy : C03.aufbauP C occ *ᵥ y = 0) : ∀ i ∈ occ, (Cᵀ *ᵥ y) i = 0 := by
  intro i hi
  have h1 := h.coords_aufbauP y
  rw [hy, mulVec_zero] at h1
  have h2 := congrFun h1 i
  simp only [Pi.smul_apply, smul_eq_mul, C03.occDiag, mulVec_diagonal, hi, if_true,
    one_mul, Pi.zero_apply] at h2
  linarith

/-- the `i`-th orbital `c_i` (column of `C`): `P c_i = 2 c_i` or `0`, `c_iᵀ F c_i = e_i`,
    `c_iᵀ c_i = 1` -/
theorem AufbauData.col_facts (h : AufbauData F C e occ) (i : n) :
    (C03.aufbauP C occ *ᵥ (fun r => C r i) =
      (if i ∈ occ then (2 : ℝ) else 0) • (fun r => C r i)) ∧
    ((fun r => C r i) ⬝ᵥ F *ᵥ (fun r => C r i) = e i) ∧
    ((fun r => C r i) ⬝ᵥ (fun r => C r i) = 1) := by
  have hPC : C03.aufbauP C occ * C = (2 : ℝ) • (C * C03.occDiag occ) := by
    unfold C03.aufbauP
    rw [Matrix.smul_mul, Matrix.mul_assoc, h.orth, Matrix.mul_one]
  have hcol : ∀ M : Matrix n n ℝ, (M *ᵥ fun r => C r i) = fun r => (M * C) r i := by
    intro M; ext r; simp [mulVec, dotProduct, Matrix.mul_apply]
  have hnorm : (fun r => C r i) ⬝ᵥ (fun r => C r i) = 1 := by
    have := congrFun (congrFun h.orth i) i
    rw [Matrix.mul_apply, one_apply_eq] at this
    simpa [dotProduct] using this
  refine ⟨?_, ?_, hnorm⟩
  · rw [hcol, hPC]
    ext r
    simp only [Matrix.smul_apply, C03.occDiag, mul_diagonal, smul_eq_mul, Pi.smul_apply]
    split_ifs <;> ring
  · have : (F *ᵥ fun r => C r i) = e i • fun r => C r i := by
      rw [hcol, h.eig]
      ext r
      simp only [mul_diagonal, Pi.smul_apply, smul_eq_mul]
      ring
    rw [this, dotProduct_smul, hnorm, smul_eq_mul, mul_one]

/-- **Rayleigh characterisation of aufbau.**  For an aufbau density `P` of `F`: the Rayleigh
    quotient of `F` on the range of `P/2` (occupied space, `P x = 2x`) never exceeds the Rayleigh
    quotient on the kernel (virtual space, `P y = 0`); written without division. -/
theorem aufbau_rayleigh (h : AufbauData F C e occ) (x y : n → ℝ)
    (hx : C03.aufbauP C occ *ᵥ x = (2 : ℝ) • x) (hy : C03.aufbauP C occ *ᵥ y = 0) :
    (x ⬝ᵥ F *ᵥ x) * (y ⬝ᵥ y) ≤ (y ⬝ᵥ F *ᵥ y) * (x ⬝ᵥ x) := by
  have hu := h.coords_of_range x hx
  have hv := h.coords_of_kernel y hy
  rw [(h.quadForm x).1, (h.quadForm x).2, (h.quadForm y).1, (h.quadForm y).2]
  set u := Cᵀ *ᵥ x
  set v := Cᵀ *ᵥ y
  rw [Finset.sum_mul_sum, Finset.sum_mul_sum, Finset.sum_comm]
  apply Finset.sum_le_sum
  intro j _
  apply Finset.sum_le_sum
  intro i _
  by_cases hi : i ∈ occ
  · by_cases hj : j ∈ occ
    · rw [hv j hj]; simp
    · have := h.order i hi j hj
      have h1 : 0 ≤ u i ^ 2 * v j ^ 2 := by positivity
      nlinarith [mul_le_mul_of_nonneg_right this h1]
  · rw [hu i hi]; simp

end Rayleigh

section Uniqueness
variable {n : Type*} [Fintype n] [DecidableEq n]

/-- **With a strict HOMO–LUMO gap the aufbau density is unique**: it does not depend on the choice
    of eigenvectors, of the eigenvalue labelling, or on how degeneracies *inside* the occupied or
    the virtual space are resolved.  So "the" density returned by diagonalising `F` is well
    defined. -/
theorem aufbau_unique_of_gap {F C : Matrix n n ℝ} {e : n → ℝ} {occ : Finset n}
    (h : AufbauData F C e occ) (hgap : ∀ i ∈ occ, ∀ j ∉ occ, e i < e j)
    (P' : Matrix n n ℝ) (h' : IsAufbau F occ.card P') : P' = C03.aufbauP C occ := by
  obtain ⟨C', e', occ', hd', hcard, rfl⟩ := h'
  set U : Matrix n n ℝ := Cᵀ * C' with hU
  have hCC := h.orth'
  have hCC' := hd'.orth'
  -- `U` is orthogonal
  have hU1 : Uᵀ * U = 1 := by
    rw [hU, transpose_mul, transpose_transpose]
    calc C'ᵀ * C * (Cᵀ * C') = C'ᵀ * (C * Cᵀ) * C' := by simp only [Matrix.mul_assoc]
      _ = 1 := by rw [hCC, Matrix.mul_one, hd'.orth]
  have hU2 : U * Uᵀ = 1 := mul_eq_one_comm.mp hU1
  -- `diag(e) U = U diag(e')`
  have hCF : Cᵀ * F = diagonal e * Cᵀ := by
    conv_lhs => rw [h.spectral]
    rw [← Matrix.mul_assoc, ← Matrix.mul_assoc, h.orth, Matrix.one_mul]
  have hEU : diagonal e * U = U * diagonal e' := by
    rw [hU, ← Matrix.mul_assoc, ← hCF, Matrix.mul_assoc, hd'.eig, ← Matrix.mul_assoc]
  have hsupp : ∀ i j, U i j ≠ 0 → e i = e' j := by
    intro i j hne
    have := congrFun (congrFun hEU i) j
    rw [diagonal_mul, mul_diagonal] at this
    have h3 : (e i - e' j) * U i j = 0 := by linarith
    rcases mul_eq_zero.mp h3 with h4 | h4
    · linarith
    · exact absurd h4 hne
  have hcol : ∀ j, ∑ i, U i j ^ 2 = 1 := by
    intro j
    have := congrFun (congrFun hU1 j) j
    rw [Matrix.mul_apply, one_apply_eq] at this
    rw [← this]
    apply Finset.sum_congr rfl; intro i _; rw [transpose_apply]; ring
  have hrow : ∀ i, ∑ j, U i j ^ 2 = 1 := by
    intro i
    have := congrFun (congrFun hU2 i) i
    rw [Matrix.mul_apply, one_apply_eq] at this
    rw [← this]
    apply Finset.sum_congr rfl; intro j _; rw [transpose_apply]; ring
  -- the columns that meet the occupied rows
  set L : Finset n := Finset.univ.filter (fun j => ∃ i ∈ occ, U i j ≠ 0) with hL
  have hA : ∀ j ∈ L, ∀ i ∉ occ, U i j = 0 := by
    intro j hj i hi
    rw [hL, Finset.mem_filter] at hj
    obtain ⟨i0, hi0, hne⟩ := hj.2
    by_contra hne'
    have h1 := hsupp i0 j hne
    have h2 := hsupp i j hne'
    have := hgap i0 hi0 i hi
    linarith
  have hB : ∀ j ∉ L, ∀ i ∈ occ, U i j = 0 := by
    intro j hj i hi
    by_contra hne
    exact hj (by rw [hL, Finset.mem_filter]; exact ⟨Finset.mem_univ _, i, hi, hne⟩)
  -- `|L| = |occ|`
  have hcardL : L.card = occ.card := by
    have h1 : ∑ i ∈ occ, ∑ j, U i j ^ 2 = (occ.card : ℝ) := by
      simp only [hrow, Finset.sum_const, nsmul_eq_mul, mul_one]
    have h2 : ∑ i ∈ occ, ∑ j, U i j ^ 2 = (L.card : ℝ) := by
      rw [Finset.sum_comm]
      have : ∀ j, ∑ i ∈ occ, U i j ^ 2 = if j ∈ L then 1 else 0 := by
        intro j
        by_cases hj : j ∈ L
        · rw [if_pos hj, ← hcol j]
          apply Finset.sum_subset (Finset.subset_univ _)
          intro i _ hi
          rw [hA j hj i hi]; ring
        · rw [if_neg hj]
          apply Finset.sum_eq_zero
          intro i hi
          rw [hB j hj i hi]; ring
      simp only [this, Finset.sum_ite_mem, Finset.univ_inter, Finset.sum_const, nsmul_eq_mul,
        mul_one]
    exact_mod_cast h2.symm.trans h1
  -- `L` is strictly below its complement in the primed spectrum
  have hC : ∀ j ∈ L, ∀ j2 ∉ L, e' j < e' j2 := by
    intro j hj j2 hj2
    have hj' := hj
    rw [hL, Finset.mem_filter] at hj'
    obtain ⟨i0, hi0, hne⟩ := hj'.2
    have : ∃ i2, U i2 j2 ≠ 0 := by
      by_contra hall
      push Not at hall
      have := hcol j2
      simp only [hall, ne_eq, OfNat.ofNat_ne_zero, not_false_eq_true, zero_pow,
        Finset.sum_const_zero] at this
      exact zero_ne_one this
    obtain ⟨i2, hne2⟩ := this
    have hi2 : i2 ∉ occ := fun hi2 => hne2 (hB j2 hj2 i2 hi2)
    rw [← hsupp i0 j hne, ← hsupp i2 j2 hne2]
    exact hgap i0 hi0 i2 hi2
  -- hence `occ' = L`
  have hocc' : occ' = L := by
    apply Finset.eq_of_subset_of_card_le
    · intro j hj
      by_contra hjL
      have hex : ∃ j2 ∈ L, j2 ∉ occ' := by
        by_contra hall
        push Not at hall
        have hLe : L = occ' :=
          Finset.eq_of_subset_of_card_le hall (by rw [hcard, hcardL])
        exact hjL (hLe ▸ hj)
      obtain ⟨j2, hj2L, hj2⟩ := hex
      have h1 := hd'.order j hj j2 hj2
      have h2 := hC j2 hj2L j hjL
      linarith
    · rw [hcard, hcardL]
  -- `D U = U D'`
  have hDU : C03.occDiag occ * U = U * C03.occDiag occ' := by
    ext i j
    unfold C03.occDiag
    rw [diagonal_mul, mul_diagonal, hocc']
    by_cases hi : i ∈ occ <;> by_cases hj : j ∈ L
    · simp [hi, hj]
    · simp [hi, hj, hB j hj i hi]
    · simp [hi, hj, hA j hj i hi]
    · simp [hi, hj]
  unfold C03.aufbauP
  congr 1
  calc C' * C03.occDiag occ' * C'ᵀ = (C * Cᵀ) * C' * C03.occDiag occ' * C'ᵀ := by
        rw [hCC, Matrix.one_mul]
    _ = C * (U * C03.occDiag occ') * C'ᵀ := by rw [hU]; simp only [Matrix.mul_assoc]
    _ = C * (C03.occDiag occ * U) * C'ᵀ := by rw [hDU]
    _ = C * C03.occDiag occ * Cᵀ * (C' * C'ᵀ) := by rw [hU]; simp only [Matrix.mul_assoc]
    _ = C * C03.occDiag occ * Cᵀ := by rw [hCC', Matrix.mul_one]

end Uniqueness

section AufbauFragments
variable {a b : Type*} [Fintype a] [Fintype b] [DecidableEq a] [DecidableEq b]

theorem occDiag_disjSum (occA : Finset a) (occB : Finset b) :
    C03.occDiag (occA.disjSum occB) = fromBlocks (C03.occDiag occA) 0 0 (C03.occDiag occB) := by
  unfold C03.occDiag
  rw [fromBlocks_diagonal]
  congr 1
  funext i
  cases i <;> simp [Finset.inl_mem_disjSum, Finset.inr_mem_disjSum]

/-- `2 C_occ C_occᵀ` of block-diagonal orbitals with the union of the occupied sets is the direct
    sum of the fragment densities -/
theorem aufbauP_fromBlocks (CA : Matrix a a ℝ) (CB : Matrix b b ℝ) (occA : Finset a)
    (occB : Finset b) :
    C03.aufbauP (fromBlocks CA 0 0 CB) (occA.disjSum occB) =
      fromBlocks (C03.aufbauP CA occA) 0 0 (C03.aufbauP CB occB) := by
  unfold C03.aufbauP
  rw [occDiag_disjSum, fromBlocks_transpose, fromBlocks_multiply, fromBlocks_multiply,
    fromBlocks_smul]
  simp

/-- **The spectrum of a block-diagonal matrix is the union of the block spectra** (eigenvector
    embedding `Sum.inl`/`Sum.inr`), and the union of the occupied sets is an aufbau occupation as
    soon as each fragment's occupied levels lie below the *other* fragment's virtual levels. -/
theorem aufbauData_fromBlocks {FA CA : Matrix a a ℝ} {FB CB : Matrix b b ℝ} {eA : a → ℝ}
    {eB : b → ℝ} {occA : Finset a} {occB : Finset b}
    (hA : AufbauData FA CA eA occA) (hB : AufbauData FB CB eB occB)
    (hAB : ∀ i ∈ occA, ∀ j ∉ occB, eA i ≤ eB j) (hBA : ∀ i ∈ occB, ∀ j ∉ occA, eB i ≤ eA j) :
    AufbauData (fromBlocks FA 0 0 FB) (fromBlocks CA 0 0 CB) (Sum.elim eA eB)
      (occA.disjSum occB) := by
  refine ⟨?_, ?_, ?_⟩
  · rw [fromBlocks_transpose, fromBlocks_multiply]
    simp only [transpose_zero, Matrix.mul_zero, Matrix.zero_mul, add_zero, zero_add]
    rw [hA.orth, hB.orth, fromBlocks_one]
  · rw [← fromBlocks_diagonal, fromBlocks_multiply, fromBlocks_multiply]
    simp only [Matrix.mul_zero, Matrix.zero_mul, add_zero, zero_add]
    rw [hA.eig, hB.eig]
  · rintro (i | i) hi (j | j) hj <;>
      simp only [Finset.inl_mem_disjSum, Finset.inr_mem_disjSum, Sum.elim_inl, Sum.elim_inr]
        at hi hj ⊢
    · exact hA.order i hi j hj
    · exact hAB i hi j hj
    · exact hBA i hi j hj
    · exact hB.order i hi j hj

variable (HA : Matrix a a ℝ) (HB : Matrix b b ℝ)
  (G : Matrix (a ⊕ b) (a ⊕ b) ℝ → Matrix (a ⊕ b) (a ⊕ b) ℝ)
  (GA : Matrix a a ℝ → Matrix a a ℝ) (GB : Matrix b b ℝ → Matrix b b ℝ)

/-- **Aufbau solutions of aligned fragments.**  Let `P_A`, `P_B` be self-consistent aufbau
    solutions of the fragments (`P_X = 2 C_X,occ C_X,occᵀ` with `C_X` the eigenvectors of
    `F_X(P_X)`, occupied levels below virtual levels).  If moreover the occupied levels of each
    fragment lie (weakly) below the virtual levels of the *other* fragment, then the direct sum is
    a self-consistent aufbau solution of the decoupled super-system — with orbitals the embedded
    fragment orbitals, orbital energies the union of the fragment orbital energies,
    `n_occ = n_occ,A + n_occ,B` — and its energy is the sum of the fragment energies. -/
theorem aufbau_of_fragments (hG : Decoupled G GA GB)
    {PA CA : Matrix a a ℝ} {PB CB : Matrix b b ℝ} {eA : a → ℝ} {eB : b → ℝ}
    {occA : Finset a} {occB : Finset b}
    (hA : AufbauData (fock HA GA PA) CA eA occA) (hPA : PA = C03.aufbauP CA occA)
    (hB : AufbauData (fock HB GB PB) CB eB occB) (hPB : PB = C03.aufbauP CB occB)
    (hAB : ∀ i ∈ occA, ∀ j ∉ occB, eA i ≤ eB j) (hBA : ∀ i ∈ occB, ∀ j ∉ occA, eB i ≤ eA j)
    (EnucA EnucB : ℝ) :
    AufbauData (fock (fromBlocks HA 0 0 HB) G (fromBlocks PA 0 0 PB)) (fromBlocks CA 0 0 CB)
      (Sum.elim eA eB) (occA.disjSum occB) ∧
    fromBlocks PA 0 0 PB = C03.aufbauP (fromBlocks CA 0 0 CB) (occA.disjSum occB) ∧
    IsScfSolution (fromBlocks HA 0 0 HB) G (occA.card + occB.card) (fromBlocks PA 0 0 PB) ∧
    totalEnergy (fromBlocks HA 0 0 HB) G (EnucA + EnucB) (fromBlocks PA 0 0 PB) =
      totalEnergy HA GA EnucA PA + totalEnergy HB GB EnucB PB := by
  have h1 : AufbauData (fock (fromBlocks HA 0 0 HB) G (fromBlocks PA 0 0 PB))
      (fromBlocks CA 0 0 CB) (Sum.elim eA eB) (occA.disjSum occB) := by
    rw [fock_blockdiag HA HB G GA GB hG]
    exact aufbauData_fromBlocks hA hB hAB hBA
  have h2 : fromBlocks PA 0 0 PB = C03.aufbauP (fromBlocks CA 0 0 CB) (occA.disjSum occB) := by
    rw [aufbauP_fromBlocks, ← hPA, ← hPB]
  exact ⟨h1, h2, ⟨_, _, _, h1, Finset.card_disjSum _ _, h2⟩,
    total_energy_additive HA HB G GA GB hG EnucA EnucB PA PB⟩

/-- **… with a common Fermi level** (max occupied level over both fragments `< μ <` min virtual
    level over both): the direct sum is **the** aufbau density of the super-system Fock matrix —
    any aufbau density of `F(P_A ⊕ P_B)` with `n_occ,A + n_occ,B` pairs, whichever eigenvectors the
    eigensolver returns, equals `P_A ⊕ P_B`.  So one SCF step of the super-system started at the
    direct sum returns the direct sum, and the converged super-system energy is exactly
    `E_A + E_B`. -/
theorem aufbau_of_fragments_fermi (hG : Decoupled G GA GB)
    {PA CA : Matrix a a ℝ} {PB CB : Matrix b b ℝ} {eA : a → ℝ} {eB : b → ℝ}
    {occA : Finset a} {occB : Finset b}
    (hA : AufbauData (fock HA GA PA) CA eA occA) (hPA : PA = C03.aufbauP CA occA)
    (hB : AufbauData (fock HB GB PB) CB eB occB) (hPB : PB = C03.aufbauP CB occB)
    (μ : ℝ) (hoA : ∀ i ∈ occA, eA i < μ) (hoB : ∀ i ∈ occB, eB i < μ)
    (hvA : ∀ j ∉ occA, μ < eA j) (hvB : ∀ j ∉ occB, μ < eB j) :
    IsScfSolution (fromBlocks HA 0 0 HB) G (occA.card + occB.card) (fromBlocks PA 0 0 PB) ∧
    (∀ P', IsAufbau (fock (fromBlocks HA 0 0 HB) G (fromBlocks PA 0 0 PB))
        (occA.card + occB.card) P' → P' = fromBlocks PA 0 0 PB) ∧
    elecEnergy (fromBlocks HA 0 0 HB) G (fromBlocks PA 0 0 PB) =
      elecEnergy HA GA PA + elecEnergy HB GB PB := by
  obtain ⟨h1, h2, h3, -⟩ := aufbau_of_fragments HA HB G GA GB hG hA hPA hB hPB
    (fun i hi j hj => le_of_lt ((hoA i hi).trans (hvB j hj)))
    (fun i hi j hj => le_of_lt ((hoB i hi).trans (hvA j hj))) 0 0
  refine ⟨h3, ?_, energy_additive_blockdiag HA HB G GA GB hG PA PB⟩
  intro P' hP'
  rw [h2]
  apply aufbau_unique_of_gap h1
  · rintro (i | i) hi (j | j) hj <;>
      simp only [Finset.inl_mem_disjSum, Finset.inr_mem_disjSum, Sum.elim_inl, Sum.elim_inr]
        at hi hj ⊢
    · exact (hoA i hi).trans (hvA j hj)
    · exact (hoA i hi).trans (hvB j hj)
    · exact (hoB i hi).trans (hvA j hj)
    · exact (hoB i hi).trans (hvB j hj)
  · rw [Finset.card_disjSum]; exact hP'

/-- **Level alignment is also necessary**: if the direct sum of two self-consistent aufbau fragment
    solutions is an aufbau density of the decoupled super-system Fock matrix (for any number of
    pairs), then every occupied level of each fragment lies (weakly) below every virtual level of
    the other.  Together with `aufbau_of_fragments` the hypothesis is therefore exact. -/
theorem alignment_of_aufbau (hG : Decoupled G GA GB)
    {PA CA : Matrix a a ℝ} {PB CB : Matrix b b ℝ} {eA : a → ℝ} {eB : b → ℝ}
    {occA : Finset a} {occB : Finset b}
    (hA : AufbauData (fock HA GA PA) CA eA occA) (hPA : PA = C03.aufbauP CA occA)
    (hB : AufbauData (fock HB GB PB) CB eB occB) (hPB : PB = C03.aufbauP CB occB) {k : ℕ}
    (hsol : IsScfSolution (fromBlocks HA 0 0 HB) G k (fromBlocks PA 0 0 PB)) :
    (∀ i ∈ occA, ∀ j ∉ occB, eA i ≤ eB j) ∧ (∀ i ∈ occB, ∀ j ∉ occA, eB i ≤ eA j) := by
  obtain ⟨C, e, occ, hd, -, hP⟩ := hsol
  rw [fock_blockdiag HA HB G GA GB hG] at hd
  have key : ∀ (xa ya : a → ℝ) (xb yb : b → ℝ), PA *ᵥ xa = (2 : ℝ) • xa → PB *ᵥ xb = (2 : ℝ) • xb →
      PA *ᵥ ya = 0 → PB *ᵥ yb = 0 →
      (xa ⬝ᵥ fock HA GA PA *ᵥ xa + xb ⬝ᵥ fock HB GB PB *ᵥ xb) * (ya ⬝ᵥ ya + yb ⬝ᵥ yb) ≤
        (ya ⬝ᵥ fock HA GA PA *ᵥ ya + yb ⬝ᵥ fock HB GB PB *ᵥ yb) * (xa ⬝ᵥ xa + xb ⬝ᵥ xb) := by
    intro xa ya xb yb h1 h2 h3 h4
    have hx : C03.aufbauP C occ *ᵥ Sum.elim xa xb = (2 : ℝ) • Sum.elim xa xb := by
      rw [← hP, fromBlocks_mulVec]
      simp only [Sum.elim_comp_inl, Sum.elim_comp_inr, zero_mulVec, add_zero, zero_add, h1, h2]
      ext i; cases i <;> simp
    have hy : C03.aufbauP C occ *ᵥ Sum.elim ya yb = 0 := by
      rw [← hP, fromBlocks_mulVec]
      simp only [Sum.elim_comp_inl, Sum.elim_comp_inr, zero_mulVec, add_zero, h3, h4]
      ext i; cases i <;> simp
    have := aufbau_rayleigh hd _ _ hx hy
    simpa only [fromBlocks_mulVec, Sum.elim_comp_inl, Sum.elim_comp_inr, zero_mulVec, add_zero,
      zero_add, sumElim_dotProduct_sumElim] using this
  constructor
  · intro i hi j hj
    obtain ⟨a1, a2, a3⟩ := hA.col_facts i
    obtain ⟨b1, b2, b3⟩ := hB.col_facts j
    rw [← hPA, if_pos hi] at a1
    rw [← hPB, if_neg hj, zero_smul] at b1
    have := key (fun r => CA r i) 0 0 (fun r => CB r j) a1 (by simp) (by simp) b1
    simp only [a2, a3, b2, b3, mulVec_zero, dotProduct_zero, add_zero, zero_add, mul_one] at this
    exact this
  · intro i hi j hj
    obtain ⟨a1, a2, a3⟩ := hA.col_facts j
    obtain ⟨b1, b2, b3⟩ := hB.col_facts i
    rw [← hPA, if_neg hj, zero_smul] at a1
    rw [← hPB, if_pos hi] at b1
    have := key 0 (fun r => CA r j) (fun r => CB r i) 0 (by simp) b1 a1 (by simp)
    simp only [a2, a3, b2, b3, mulVec_zero, dotProduct_zero, add_zero, zero_add, mul_one] at this
    exact this

/-- `aufbau_of_fragments` and `alignment_of_aufbau` combined -/
theorem aufbau_iff_aligned (hG : Decoupled G GA GB)
    {PA CA : Matrix a a ℝ} {PB CB : Matrix b b ℝ} {eA : a → ℝ} {eB : b → ℝ}
    {occA : Finset a} {occB : Finset b}
    (hA : AufbauData (fock HA GA PA) CA eA occA) (hPA : PA = C03.aufbauP CA occA)
    (hB : AufbauData (fock HB GB PB) CB eB occB) (hPB : PB = C03.aufbauP CB occB) :
    IsScfSolution (fromBlocks HA 0 0 HB) G (occA.card + occB.card) (fromBlocks PA 0 0 PB) ↔
      (∀ i ∈ occA, ∀ j ∉ occB, eA i ≤ eB j) ∧ (∀ i ∈ occB, ∀ j ∉ occA, eB i ≤ eA j) :=
  ⟨alignment_of_aufbau HA HB G GA GB hG hA hPA hB hPB,
   fun h => (aufbau_of_fragments HA HB G GA GB hG hA hPA hB hPB h.1 h.2 0 0).2.2.1⟩

end AufbauFragments


/-! ### the counterexample: level alignment is necessary -/
namespace Cex

/-- fragment A: one orbital at `0`, no electrons (empty acceptor level) -/
def HA : Matrix (Fin 1) (Fin 1) ℝ := !![0]
/-- fragment B: one orbital at `-1`, one electron pair; one-centre repulsion `g = 1` lifts its
    Fock level to `-1 + 1·2 = 1`, above the empty level of A -/
def HB : Matrix (Fin 1) (Fin 1) ℝ := !![-1]
def g : Fin 1 → ℝ := fun _ => 1
def PA : Matrix (Fin 1) (Fin 1) ℝ := 0
def PB : Matrix (Fin 1) (Fin 1) ℝ := !![2]
/-- the decoupled super-system -/
def H : Matrix (Fin 1 ⊕ Fin 1) (Fin 1 ⊕ Fin 1) ℝ := fromBlocks HA 0 0 HB
def G : Matrix (Fin 1 ⊕ Fin 1) (Fin 1 ⊕ Fin 1) ℝ → Matrix (Fin 1 ⊕ Fin 1) (Fin 1 ⊕ Fin 1) ℝ :=
  oneCentreG (Sum.elim g g)

theorem G_decoupled : Decoupled G (oneCentreG g) (oneCentreG g) :=
  (oneCentreG_decoupled g g).decoupled

theorem fockA : fock HA (oneCentreG g) PA = !![0] := by
  ext i j; fin_cases i; fin_cases j; simp [fock, oneCentreG, HA, PA]

theorem fockB : fock HB (oneCentreG g) PB = !![1] := by
  ext i j; fin_cases i; fin_cases j; simp [fock, oneCentreG, HB, PB, g]; norm_num

theorem solA : IsScfSolution HA (oneCentreG g) 0 PA := by
  refine ⟨1, fun _ => 0, ∅, ⟨by simp, ?_, by simp⟩, rfl, ?_⟩
  · rw [fockA]; ext i j; fin_cases i; fin_cases j; simp
  · ext i j; simp [C03.aufbauP_apply, PA]

theorem solB : IsScfSolution HB (oneCentreG g) 1 PB := by
  refine ⟨1, fun _ => 1, Finset.univ, ⟨by simp, ?_, by simp⟩, rfl, ?_⟩
  · rw [fockB]; ext i j; fin_cases i; fin_cases j; simp
  · ext i j; fin_cases i; fin_cases j; simp [C03.aufbauP_apply, PB]

theorem fockAB : fock H G (fromBlocks PA 0 0 PB) = fromBlocks !![0] 0 0 !![1] := by
  unfold H
  rw [fock_blockdiag HA HB G _ _ G_decoupled, fockA, fockB]

end Cex

/-- **Level alignment is necessary for the aufbau statement.**  Two 1×1 fragments: A has an empty
    level at `0`, B a doubly occupied level whose Fock energy is `1 > 0`.  Both fragment densities
    are self-consistent aufbau solutions, their direct sum is an SCF *stationary point* of the
    decoupled super-system with additive energy (statement 2 still holds), but it is **not** an
    aufbau solution: the aufbau density of the super-system Fock matrix `diag(0, 1)` with one pair
    is `diag(2, 0)` — the pair is transferred from B to A (charge transfer), and the next SCF
    iterate of the super-system leaves the direct sum. -/
theorem aufbau_needs_level_alignment :
    IsScfSolution Cex.HA (oneCentreG Cex.g) 0 Cex.PA ∧
    IsScfSolution Cex.HB (oneCentreG Cex.g) 1 Cex.PB ∧
    fock Cex.HA (oneCentreG Cex.g) Cex.PA = !![0] ∧ fock Cex.HB (oneCentreG Cex.g) Cex.PB = !![1] ∧
    Decoupled Cex.G (oneCentreG Cex.g) (oneCentreG Cex.g) ∧
    IsScfStationary Cex.H Cex.G 2 (fromBlocks Cex.PA 0 0 Cex.PB) ∧
    elecEnergy Cex.H Cex.G (fromBlocks Cex.PA 0 0 Cex.PB) =
      elecEnergy Cex.HA (oneCentreG Cex.g) Cex.PA + elecEnergy Cex.HB (oneCentreG Cex.g) Cex.PB ∧
    ¬ IsScfSolution Cex.H Cex.G 1 (fromBlocks Cex.PA 0 0 Cex.PB) ∧
    IsAufbau (fock Cex.H Cex.G (fromBlocks Cex.PA 0 0 Cex.PB)) 1 (fromBlocks !![2] 0 0 0) ∧
    fromBlocks !![2] 0 0 0 ≠ fromBlocks Cex.PA 0 0 Cex.PB := by
  have hst := (stationary_of_fragments Cex.HA Cex.HB Cex.G _ _ Cex.G_decoupled _ _ 0 0 _ _
    Cex.solA.stationary Cex.solB.stationary)
  refine ⟨Cex.solA, Cex.solB, Cex.fockA, Cex.fockB, Cex.G_decoupled, ?_, hst.2.1, ?_, ?_, ?_⟩
  · have h := hst.1
    have e : (2 : ℝ) * ((0 : ℕ) : ℝ) + 2 * ((1 : ℕ) : ℝ) = 2 := by norm_num
    rw [e] at h
    exact h
  · rintro ⟨C, e, occ, hd, -, hP⟩
    rw [Cex.fockAB] at hd
    have hx : C03.aufbauP C occ *ᵥ (Sum.elim 0 1 : Fin 1 ⊕ Fin 1 → ℝ) =
        (2 : ℝ) • (Sum.elim 0 1 : Fin 1 ⊕ Fin 1 → ℝ) := by
      rw [← hP]
      ext i
      rcases i with i | i <;> fin_cases i <;>
        simp [mulVec, dotProduct, Fintype.sum_sum_type, Cex.PA, Cex.PB]
    have hy : C03.aufbauP C occ *ᵥ (Sum.elim 1 0 : Fin 1 ⊕ Fin 1 → ℝ) = 0 := by
      rw [← hP]
      ext i
      rcases i with i | i <;> fin_cases i <;>
        simp [mulVec, dotProduct, Fintype.sum_sum_type, Cex.PA, Cex.PB]
    have := aufbau_rayleigh hd _ _ hx hy
    simp [mulVec, dotProduct, Fintype.sum_sum_type] at this
    linarith
  · refine ⟨1, Sum.elim (fun _ => 0) (fun _ => 1), {Sum.inl 0}, ⟨by simp, ?_, ?_⟩, by simp, ?_⟩
    · rw [Cex.fockAB, Matrix.one_mul, Matrix.mul_one, ← fromBlocks_diagonal]
      congr 1 <;> ext i j <;> fin_cases i <;> fin_cases j <;> simp
    · rintro (i | i) hi (j | j) hj <;> fin_cases i <;> fin_cases j <;> simp at hi hj ⊢
    · unfold C03.aufbauP C03.occDiag
      rw [Matrix.one_mul, transpose_one, Matrix.mul_one]
      ext i j
      rcases i with i | i <;> rcases j with j | j <;> fin_cases i <;> fin_cases j <;>
        simp [diagonal]
  · intro h
    have := congrFun (congrFun h (Sum.inl 0)) (Sum.inl 0)
    simp [Cex.PA] at this

/-! ## 4. forces -/
section Forces
variable {a b : Type*} [Fintype a] [Fintype b] [DecidableEq a] [DecidableEq b]

/-- **Forces decouple.**  `x` = all coordinates of fragment A (any type), `y` = one Cartesian
    coordinate of an atom of B.  If `H_A`, `G_A`, `E_nuc,A` and hence the fragment solution `P_A`
    depend on `x` only, and `H_B`, `G_B`, `E_nuc,B`, `P_B` on `y` only, and the super-system is
    decoupled at every geometry, then the super-system energy at the direct-sum density is
    `E_A(x) + E_B(y)` and its derivative with respect to `y` is the derivative of the *isolated*
    fragment-B energy: no contribution from A (no differentiability assumption: `deriv` of both
    sides agree, and `HasDerivAt` transfers). -/
theorem forces_decouple {X : Type*}
    (HA : X → Matrix a a ℝ) (GA : X → Matrix a a ℝ → Matrix a a ℝ) (EnucA : X → ℝ)
    (PA : X → Matrix a a ℝ)
    (HB : ℝ → Matrix b b ℝ) (GB : ℝ → Matrix b b ℝ → Matrix b b ℝ) (EnucB : ℝ → ℝ)
    (PB : ℝ → Matrix b b ℝ)
    (G : X → ℝ → Matrix (a ⊕ b) (a ⊕ b) ℝ → Matrix (a ⊕ b) (a ⊕ b) ℝ)
    (hG : ∀ x y, Decoupled (G x y) (GA x) (GB y)) (x : X) (y : ℝ) :
    (∀ y, totalEnergy (fromBlocks (HA x) 0 0 (HB y)) (G x y) (EnucA x + EnucB y)
        (fromBlocks (PA x) 0 0 (PB y)) =
      totalEnergy (HA x) (GA x) (EnucA x) (PA x) + totalEnergy (HB y) (GB y) (EnucB y) (PB y)) ∧
    deriv (fun y => totalEnergy (fromBlocks (HA x) 0 0 (HB y)) (G x y) (EnucA x + EnucB y)
        (fromBlocks (PA x) 0 0 (PB y))) y =
      deriv (fun y => totalEnergy (HB y) (GB y) (EnucB y) (PB y)) y ∧
    ∀ d, HasDerivAt (fun y => totalEnergy (HB y) (GB y) (EnucB y) (PB y)) d y →
      HasDerivAt (fun y => totalEnergy (fromBlocks (HA x) 0 0 (HB y)) (G x y) (EnucA x + EnucB y)
        (fromBlocks (PA x) 0 0 (PB y))) d y := by
  have hadd : ∀ y, totalEnergy (fromBlocks (HA x) 0 0 (HB y)) (G x y) (EnucA x + EnucB y)
        (fromBlocks (PA x) 0 0 (PB y)) =
      totalEnergy (HA x) (GA x) (EnucA x) (PA x) + totalEnergy (HB y) (GB y) (EnucB y) (PB y) :=
    fun y => total_energy_additive _ _ _ _ _ (hG x y) _ _ _ _
  refine ⟨hadd, ?_, ?_⟩
  · simp only [hadd]
    exact deriv_const_add _
  · intro d hd
    simp only [hadd]
    exact hd.const_add _

end Forces


/-! ## non-vacuity -/
namespace Ex
noncomputable section

/-- fragment A (2 orbitals, one pair): rational rotated orbitals `c₀ = (3/5, 4/5)` (occupied,
    level `-1`), `c₁ = (4/5, -3/5)` (virtual, level `+1`); one-centre `g = (25/18, 25/32)` so that
    `G(P_A) = 1`, and `H_A = F_A − G(P_A)` -/
def CA : Matrix (Fin 2) (Fin 2) ℝ := !![3/5, 4/5; 4/5, -3/5]
def eA : Fin 2 → ℝ := ![-1, 1]
def occA : Finset (Fin 2) := {0}
def PA : Matrix (Fin 2) (Fin 2) ℝ := !![18/25, 24/25; 24/25, 32/25]
def gA : Fin 2 → ℝ := ![25/18, 25/32]
def HA : Matrix (Fin 2) (Fin 2) ℝ := !![-18/25, -24/25; -24/25, -32/25]
/-- fragment B (1 orbital, one pair): `H_B = -3`, `g = 1`, Fock level `-3 + 2 = -1` -/
def CB : Matrix (Fin 1) (Fin 1) ℝ := 1
def eB : Fin 1 → ℝ := ![-1]
def occB : Finset (Fin 1) := Finset.univ
def PB : Matrix (Fin 1) (Fin 1) ℝ := !![2]
def gB : Fin 1 → ℝ := ![1]
def HB : Matrix (Fin 1) (Fin 1) ℝ := !![-3]

theorem fockA : fock HA (oneCentreG gA) PA = !![7/25, -24/25; -24/25, -7/25] := by
  ext i j
  fin_cases i <;> fin_cases j <;> simp [fock, oneCentreG, HA, PA, gA] <;> norm_num

theorem fockB : fock HB (oneCentreG gB) PB = !![-1] := by
  ext i j
  fin_cases i; fin_cases j; simp [fock, oneCentreG, HB, PB, gB]; norm_num

theorem dataA : AufbauData (fock HA (oneCentreG gA) PA) CA eA occA := by
  refine ⟨?_, ?_, ?_⟩
  · ext i j
    fin_cases i <;> fin_cases j <;> simp [CA, Matrix.mul_apply, Fin.sum_univ_two] <;> norm_num
  · rw [fockA]
    ext i j
    fin_cases i <;> fin_cases j <;> simp [CA, eA, Matrix.mul_apply, Fin.sum_univ_two] <;> norm_num
  · intro i hi j hj
    fin_cases i <;> fin_cases j <;> simp [occA, eA] at hi hj ⊢

theorem densA : PA = C03.aufbauP CA occA := by
  ext i j
  rw [C03.aufbauP_apply]
  fin_cases i <;> fin_cases j <;> simp [occA, CA, PA] <;> norm_num

theorem dataB : AufbauData (fock HB (oneCentreG gB) PB) CB eB occB := by
  refine ⟨by simp [CB], ?_, ?_⟩
  · rw [fockB]
    ext i j
    fin_cases i; fin_cases j; simp [CB, eB]
  · intro i _ j hj
    exact absurd (Finset.mem_univ j) hj

theorem densB : PB = C03.aufbauP CB occB := by
  ext i j
  fin_cases i; fin_cases j; simp [C03.aufbauP_apply, occB, CB, PB]

end
end Ex

/-- the fragments are SCF solutions, hence stationary points (hypotheses of
    `stationary_of_fragments`), with a genuinely non-diagonal density and a non-zero `G` -/
example : IsScfStationary Ex.HA (oneCentreG Ex.gA) (2 * (1 : ℕ)) Ex.PA ∧
    IsScfStationary Ex.HB (oneCentreG Ex.gB) (2 * (1 : ℕ)) Ex.PB :=
  ⟨IsScfSolution.stationary ⟨_, _, _, Ex.dataA, rfl, Ex.densA⟩,
   IsScfSolution.stationary ⟨_, _, _, Ex.dataB, rfl, Ex.densB⟩⟩

/-- `stationary_of_fragments` / `fragments_of_stationary` on the 2 ⊕ 1 instance -/
example : IsScfStationary (fromBlocks Ex.HA 0 0 Ex.HB) (oneCentreG (Sum.elim Ex.gA Ex.gB))
    (2 * (1 : ℕ) + 2 * (1 : ℕ)) (fromBlocks Ex.PA 0 0 Ex.PB) :=
  (stationary_of_fragments Ex.HA Ex.HB _ _ _ (oneCentreG_decoupled Ex.gA Ex.gB).decoupled _ _ 0 0
    _ _ (IsScfSolution.stationary ⟨_, _, _, Ex.dataA, rfl, Ex.densA⟩)
    (IsScfSolution.stationary ⟨_, _, _, Ex.dataB, rfl, Ex.densB⟩)).1

/-- `aufbau_of_fragments_fermi` on the 2 ⊕ 1 instance with Fermi level `μ = 0`: occupied levels
    `-1, -1`, virtual level `+1`; the direct sum is *the* aufbau solution of the super-system -/
example :
    IsScfSolution (fromBlocks Ex.HA 0 0 Ex.HB) (oneCentreG (Sum.elim Ex.gA Ex.gB)) (1 + 1)
      (fromBlocks Ex.PA 0 0 Ex.PB) ∧
    ∀ P', IsAufbau (fock (fromBlocks Ex.HA 0 0 Ex.HB) (oneCentreG (Sum.elim Ex.gA Ex.gB))
      (fromBlocks Ex.PA 0 0 Ex.PB)) (1 + 1) P' → P' = fromBlocks Ex.PA 0 0 Ex.PB := by
  have h := aufbau_of_fragments_fermi Ex.HA Ex.HB _ _ _
    (oneCentreG_decoupled Ex.gA Ex.gB).decoupled Ex.dataA Ex.densA Ex.dataB Ex.densB 0
    (by intro i hi; fin_cases i <;> simp [Ex.occA, Ex.eA] at hi ⊢)
    (by intro i _; fin_cases i; simp [Ex.eB])
    (by intro j hj; fin_cases j <;> simp [Ex.occA, Ex.eA] at hj ⊢)
    (by intro j hj; exact absurd (Finset.mem_univ j) hj)
  exact ⟨h.1, h.2.1⟩

/-- `aufbau_iff_aligned` / `alignment_of_aufbau` on the instance: the levels are aligned
    (`-1 ≤ 1`), so the direct sum is a solution — and conversely -/
example : IsScfSolution (fromBlocks Ex.HA 0 0 Ex.HB) (oneCentreG (Sum.elim Ex.gA Ex.gB))
    (Ex.occA.card + Ex.occB.card) (fromBlocks Ex.PA 0 0 Ex.PB) :=
  (aufbau_iff_aligned Ex.HA Ex.HB _ _ _ (oneCentreG_decoupled Ex.gA Ex.gB).decoupled
    Ex.dataA Ex.densA Ex.dataB Ex.densB).mpr
    ⟨fun _ _ j hj => absurd (Finset.mem_univ j) hj,
     by intro i _ j hj; fin_cases i; fin_cases j <;> simp [Ex.occA, Ex.eA, Ex.eB] at hj ⊢⟩

/-- `aufbau_rayleigh` on fragment A: `x = c₀` is in the range, `y = c₁` in the kernel -/
example : C03.aufbauP Ex.CA Ex.occA *ᵥ ![3/5, 4/5] = (2 : ℝ) • ![3/5, 4/5] ∧
    C03.aufbauP Ex.CA Ex.occA *ᵥ ![4/5, -3/5] = 0 := by
  rw [← Ex.densA]
  constructor <;> ext i <;> fin_cases i <;>
    simp [Ex.PA, mulVec, dotProduct, Fin.sum_univ_two] <;> norm_num

/-- `aufbau_unique_of_gap`: fragment A has a strict gap (`-1 < 1`) -/
example : ∀ i ∈ Ex.occA, ∀ j ∉ Ex.occA, Ex.eA i < Ex.eA j := by
  intro i hi j hj
  fin_cases i <;> fin_cases j <;> simp [Ex.occA, Ex.eA] at hi hj ⊢

/-- `energy_additive_any_density`: the one-centre operator is strongly decoupled, and the energy of
    a density *with* inter-fragment coherences is still the sum of the fragment energies -/
example (X : Matrix (Fin 2) (Fin 1) ℝ) (Y : Matrix (Fin 1) (Fin 2) ℝ) :
    elecEnergy (fromBlocks Ex.HA 0 0 Ex.HB) (oneCentreG (Sum.elim Ex.gA Ex.gB))
      (fromBlocks Ex.PA X Y Ex.PB) =
    elecEnergy Ex.HA (oneCentreG Ex.gA) Ex.PA + elecEnergy Ex.HB (oneCentreG Ex.gB) Ex.PB :=
  energy_additive_any_density _ _ _ _ _ (oneCentreG_decoupled Ex.gA Ex.gB) _ _ _ _

/-- the fragment energies of the instance, evaluated: `E_A = -3`, `E_B = -4`, so the super-system
    electronic energy at the direct sum is exactly `-7` -/
example : elecEnergy Ex.HA (oneCentreG Ex.gA) Ex.PA = -3 ∧
    elecEnergy Ex.HB (oneCentreG Ex.gB) Ex.PB = -4 ∧
    elecEnergy (fromBlocks Ex.HA 0 0 Ex.HB) (oneCentreG (Sum.elim Ex.gA Ex.gB))
      (fromBlocks Ex.PA 0 0 Ex.PB) = -7 := by
  have hA : elecEnergy Ex.HA (oneCentreG Ex.gA) Ex.PA = -3 := by
    unfold elecEnergy
    rw [Ex.fockA]
    simp [Ex.HA, Ex.PA, trace, Fin.sum_univ_two]
    norm_num
  have hB : elecEnergy Ex.HB (oneCentreG Ex.gB) Ex.PB = -4 := by
    unfold elecEnergy
    rw [Ex.fockB]
    simp [Ex.HB, Ex.PB, trace]
    norm_num
  refine ⟨hA, hB, ?_⟩
  rw [energy_additive_blockdiag _ _ _ _ _ (oneCentreG_decoupled Ex.gA Ex.gB).decoupled, hA, hB]
  norm_num

/-- `forces_decouple`: one-orbital fragments whose levels move with their own coordinate,
    `H_A(x) = [x]`, `H_B(y) = [y²]`; the `y`-derivative of the super-system energy is that of B -/
example (x y : ℝ) :
    deriv (fun y => totalEnergy (fromBlocks !![x] 0 0 !![y ^ 2])
        (oneCentreG (Sum.elim (fun _ : Fin 1 => (1 : ℝ)) (fun _ : Fin 1 => (1 : ℝ)))) (x + y)
        (fromBlocks !![2] 0 0 !![2])) y =
      deriv (fun y => totalEnergy !![y ^ 2] (oneCentreG (fun _ : Fin 1 => (1 : ℝ))) y !![2]) y :=
  (forces_decouple (fun x : ℝ => !![x]) (fun _ => oneCentreG (fun _ : Fin 1 => (1 : ℝ)))
    (fun x => x) (fun _ => !![2]) (fun y : ℝ => !![y ^ 2])
    (fun _ => oneCentreG (fun _ : Fin 1 => (1 : ℝ))) (fun y => y) (fun _ => !![2])
    (fun _ _ => oneCentreG (Sum.elim (fun _ : Fin 1 => (1 : ℝ)) (fun _ : Fin 1 => (1 : ℝ))))
    (fun _ _ => (oneCentreG_decoupled _ _).decoupled) x y).2.1

end C19b
