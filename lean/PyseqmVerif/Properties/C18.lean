import PyseqmVerif.Properties.CensusGuards
import PyseqmVerif.Model.Validate
import Mathlib.Tactic.Common
/-!
# C18 — invalid requests are rejected loudly

"Inputs that violate a documented precondition (…) raise an error before any result is produced."

Full statement wanted: `accepts i = .ok () ↔ WellFormed i`.  Three versions of the code:

* `acceptsPreFix` — the pinned commit.  `←` holds (`wellformed_implies_acceptsPreFix`);
  `→` is FALSE: nothing checks `0 ≤ nocc ≤ norb` (`missing_nocc_guard_counterexample`, finding F17);
  it holds under the extra hypothesis `occOK i` (`accepts_implies_wellformed_partial`).
* `accepts` — the code as it is now, with the repair of F17 (`nocc_min ≥ 0`, `nocc_max ≤ norb`).
  `←` holds (`wellformed_implies_accepts`); `→` holds whenever the multiplicities are ≥ 1
  (`accepts_iff_wellformed_of_mult_pos`) and fails only for non-positive "multiplicities"
  (`nonpositive_multiplicity_accepted_counterexample`: `mult = −1` is run as the α/β-swapped
  triplet).
* `acceptsFixed` — additionally `mult ≥ 1`: `acceptsFixed_iff_wellformed`, both directions.

The second sentence of C18 (finite results or an explicit flag) concerns the numerical kernels and
is covered by probes, not by this model.
-/
namespace C18
open Validate

/-! ## generic facts about guard lists -/

theorem firstError_ok_iff (gs : List (Bool × ErrKind)) :
    firstError gs = .ok () ↔ ∀ g ∈ gs, g.1 = false := by
  induction gs with
  | nil => simp [firstError]
  | cons g gs ih =>
    obtain ⟨c, e⟩ := g
    cases c <;> simp [firstError, ih]

/-- the guards fire in list order: the error reported is that of the FIRST true condition -/
theorem firstError_error_iff (gs : List (Bool × ErrKind)) (e : ErrKind) :
    firstError gs = .error e ↔
      ∃ pre post, gs = pre ++ (true, e) :: post ∧ ∀ g ∈ pre, g.1 = false := by
  induction gs with
  | nil => simp [firstError]
  | cons g gs ih =>
    obtain ⟨c, e'⟩ := g
    cases c
    · simp only [firstError, Bool.false_eq_true, if_false, ih]
      constructor
      · rintro ⟨pre, post, rfl, h⟩
        exact ⟨(false, e') :: pre, post, rfl, by simpa using h⟩
      · rintro ⟨pre, post, h, hp⟩
        cases pre with
        | nil => simp at h
        | cons q pre =>
          simp only [List.cons_append, List.cons.injEq] at h
          exact ⟨pre, post, h.2, fun g hg => hp g (List.mem_cons_of_mem _ hg)⟩
    · simp only [firstError, if_true]
      constructor
      · intro h
        cases h
        exact ⟨[], gs, rfl, by simp⟩
      · rintro ⟨pre, post, h, hp⟩
        cases pre with
        | nil => simp only [List.nil_append, List.cons.injEq, Prod.mk.injEq] at h; rw [h.1.2]
        | cons q pre =>
          simp only [List.cons_append, List.cons.injEq] at h
          have := hp q (List.mem_cons_self)
          rw [← h.1] at this
          simp at this

/-! ## each guard decides its documented precondition -/

/-- `check_input`'s adjacent comparison is the documented "non-increasing row" -/
theorem rowSorted_iff (l : List Nat) : rowSorted l = true ↔ l.Pairwise (· ≥ ·) := by
  induction l with
  | nil => simp [rowSorted]
  | cons a t ih =>
    cases t with
    | nil => simp [rowSorted]
    | cons b t =>
      simp only [rowSorted, Bool.and_eq_true, decide_eq_true_eq, ih]
      constructor
      · rintro ⟨hab, hp⟩
        refine List.pairwise_cons.2 ⟨?_, hp⟩
        intro c hc
        rcases List.mem_cons.1 hc with rfl | hc
        · exact hab
        · exact Nat.le_trans ((List.pairwise_cons.1 hp).1 c hc) hab
      · intro hp
        obtain ⟨h1, h2⟩ := List.pairwise_cons.1 hp
        exact ⟨h1 b (List.mem_cons_self), h2⟩

theorem int_emod_two (n : Int) : n % 2 = 0 ∨ n % 2 = 1 := by omega

theorem guardsParse_pass (i : Input) :
    (∀ g ∈ guardsParse i, g.1 = false) ↔
      (∀ m ∈ i.mols, m.species.Pairwise (· ≥ ·)) ∧
      (i.uhf = false → ∀ m ∈ i.mols, nelec m % 2 = 0) ∧
      (i.uhf = true → ∀ m ∈ i.mols, (nelec m + (m.mult - 1)) % 2 = 0) := by
  have hsorted : (i.mols.all fun m => rowSorted m.species) = true ↔
      ∀ m ∈ i.mols, m.species.Pairwise (· ≥ ·) := by
    simp [List.all_eq_true, rowSorted_iff]
  have hfrac : ∀ m : Mol, uhfFractional m = false ↔ (nelec m + (m.mult - 1)) % 2 = 0 := by
    intro m
    simp only [uhfFractional, twoAlpha, twoBeta, Bool.or_eq_false_iff, bne_eq_false_iff_eq]
    omega
  have hodd : ∀ m : Mol, (nelec m % 2 == 1) = false ↔ nelec m % 2 = 0 := by
    intro m
    simp only [beq_eq_false_iff_ne, ne_eq]
    omega
  simp only [guardsParse, List.mem_cons, List.not_mem_nil, or_false, forall_eq_or_imp, forall_eq,
    Bool.not_eq_false', hsorted]
  cases hu : i.uhf
  · simp only [Bool.false_and, Bool.not_false, Bool.true_and, true_and, Bool.false_eq_true,
      false_implies, and_true, true_implies]
    rw [List.any_eq_false]
    simp only [Bool.not_eq_true, hodd]
  · simp only [Bool.true_and, Bool.not_true, Bool.false_and, and_true, Bool.true_eq_false,
      false_implies, true_and, true_implies]
    rw [List.any_eq_false]
    simp only [Bool.not_eq_true, hfrac]

theorem guardsCtorPost_pass (uhf : Bool) (exc : Option Excited) (act ana hom uni : Bool) :
    ((∀ g ∈ guardsCtor uhf exc, g.1 = false) ∧ (∀ g ∈ guardsPost exc act ana hom uni, g.1 = false)) ↔
      excitedOK uhf exc act ana hom uni := by
  rcases exc with _ | ⟨m, n⟩
  · cases uhf <;> cases act <;> cases ana <;> cases hom <;> cases uni <;>
      simp [guardsCtor, guardsPost, excitedOK, excMethodIs]
  · cases m <;> cases n <;> cases uhf <;> cases act <;> cases ana <;> cases hom <;> cases uni <;>
      simp [guardsCtor, guardsPost, excitedOK, excMethodIs]

theorem guardsSCF_pass (uhf sp2 : Bool) (method : Method) (conv : Converger) (back : Backward) :
    (∀ g ∈ guardsSCF uhf sp2 method conv back, g.1 = false) ↔ scfOK uhf sp2 method conv back := by
  cases uhf <;> cases sp2 <;> cases method <;> cases conv <;> cases back <;>
    simp [guardsSCF, scfOK]

theorem guardsMD_pass (com : Option ComMode) :
    (∀ g ∈ guardsMD com, g.1 = false) ↔ com ≠ some .other := by
  rcases com with _ | c
  · simp [guardsMD]
  · cases c <;> simp [guardsMD]

theorem guardsRest_pass (i : Input) :
    (∀ g ∈ guardsRest i, g.1 = false) ↔
      scfOK i.uhf i.sp2 i.method i.converger i.scfBackward ∧
      excitedOK i.uhf i.excited i.activeExcited (analyticalEff i) (homogeneous i) (uniformOcc i) ∧
      i.removeCom ≠ some .other := by
  simp only [guardsRest, List.forall_mem_append]
  rw [guardsMD_pass, guardsSCF_pass, ← guardsCtorPost_pass]
  tauto

/-! ## the property theorems -/

/-- **C18, repaired code**: with the occupation guard, the guards accept exactly the well-formed
    inputs — every violation is rejected, and nothing well-formed is rejected. -/
theorem acceptsFixed_iff_wellformed (i : Input) : acceptsFixed i = .ok () ↔ WellFormed i := by
  unfold acceptsFixed WellFormed
  rw [firstError_ok_iff]
  simp only [List.forall_mem_append, guardsParse_pass, guardsRest_pass, guardOcc,
    List.mem_cons, List.not_mem_nil, or_false, forall_eq, Bool.not_eq_false']
  tauto

/-- acceptance at the pinned commit = well-formedness minus the occupation range -/
theorem acceptsPreFix_iff (i : Input) :
    acceptsPreFix i = .ok () ↔
      (∀ m ∈ i.mols, m.species.Pairwise (· ≥ ·)) ∧
      (i.uhf = false → ∀ m ∈ i.mols, nelec m % 2 = 0) ∧
      (i.uhf = true → ∀ m ∈ i.mols, (nelec m + (m.mult - 1)) % 2 = 0) ∧
      scfOK i.uhf i.sp2 i.method i.converger i.scfBackward ∧
      excitedOK i.uhf i.excited i.activeExcited (analyticalEff i) (homogeneous i) (uniformOcc i) ∧
      i.removeCom ≠ some .other := by
  unfold acceptsPreFix
  rw [firstError_ok_iff]
  simp only [List.forall_mem_append, guardsParse_pass, guardsRest_pass]
  tauto

/-- acceptance by the code as it is now (repair of F17 in place) -/
theorem accepts_iff (i : Input) :
    accepts i = .ok () ↔ acceptsPreFix i = .ok () ∧ noccRangeOK i = true := by
  unfold accepts acceptsPreFix
  simp only [firstError_ok_iff, List.forall_mem_append, guardNocc,
    List.mem_cons, List.not_mem_nil, or_false, forall_eq, Bool.not_eq_false']
  tauto

/-- **C18, pinned commit, partial**: acceptance implies well-formedness provided the occupations
    are in range (`mult ≥ 1`, `0 ≤ nocc ≤ norb`) — the one precondition no guard checked. -/
theorem accepts_implies_wellformed_partial (i : Input) (hocc : occOK i = true)
    (h : acceptsPreFix i = .ok ()) : WellFormed i := by
  rw [acceptsPreFix_iff] at h
  unfold WellFormed
  tauto

/-- no false rejections at the pinned commit -/
theorem wellformed_implies_acceptsPreFix (i : Input) (h : WellFormed i) : acceptsPreFix i = .ok () := by
  rw [acceptsPreFix_iff]
  unfold WellFormed at h
  tauto

/-- with multiplicities ≥ 1 the committed guard is the documented occupation range -/
theorem occOK_iff_noccRangeOK (i : Input) (hm : i.uhf = true → ∀ m ∈ i.mols, 1 ≤ m.mult) :
    occOK i = true ↔ noccRangeOK i = true := by
  unfold occOK noccRangeOK
  simp only [List.all_eq_true]
  refine forall₂_congr fun m hmem => ?_
  cases hu : i.uhf
  · simp
  · have h1 := hm hu m hmem
    simp only [↓reduceIte, Bool.and_eq_true, decide_eq_true_eq]
    unfold twoAlpha twoBeta
    omega

/-- **C18, code as it is now**: with multiplicities ≥ 1 the guards accept exactly the well-formed
    inputs. -/
theorem accepts_iff_wellformed_of_mult_pos (i : Input)
    (hm : i.uhf = true → ∀ m ∈ i.mols, 1 ≤ m.mult) : accepts i = .ok () ↔ WellFormed i := by
  rw [accepts_iff, acceptsPreFix_iff, ← occOK_iff_noccRangeOK i hm]
  unfold WellFormed
  tauto

/-- no false rejections by the code as it is now -/
theorem wellformed_implies_accepts (i : Input) (h : WellFormed i) : accepts i = .ok () := by
  have hm : i.uhf = true → ∀ m ∈ i.mols, 1 ≤ m.mult := by
    intro hu m hmem
    have hocc := h.2.2.2.1
    unfold occOK at hocc
    have := (List.all_eq_true.1 hocc) m hmem
    simp only [hu, if_true, Bool.and_eq_true, decide_eq_true_eq] at this
    exact this.1.1
  exact (accepts_iff_wellformed_of_mult_pos i hm).2 h

/-- neutral water, UHF, multiplicity 9 -/
def waterMult9 : Input :=
  { mols := [{ species := [8, 1, 1], charge := 0, mult := 9 }], uhf := true, method := .am1,
    sp2 := false, converger := .adaptive, scfBackward := .none, excited := none,
    activeExcited := false, analyticalGrad := false, removeCom := none }

def h2o (c m : Int) : Mol := { species := [8, 1, 1], charge := c, mult := m }
def ch2 (c m : Int) : Mol := { species := [6, 1, 1], charge := c, mult := m }
/-- AM1, adaptive mixing, `scf_backward = 0`, nothing else requested -/
def plain (uhf : Bool) (mols : List Mol) : Input := { waterMult9 with uhf := uhf, mols := mols }
def withExc (m : ExcMethod) (mols : List Mol) : Input :=
  { plain false mols with excited := some { method := m, nStatesGiven := true } }

/-- **finding F17**: the extra hypothesis of the partial theorem cannot be dropped.
    Neutral H₂O with UHF and multiplicity 9 passes every guard of the pinned commit although it
    asks for 8 α electrons in 6 orbitals (and 0 β); the committed repair rejects it. -/
theorem missing_nocc_guard_counterexample :
    acceptsPreFix waterMult9 = .ok () ∧ ¬ WellFormed waterMult9 ∧
    (waterMult9.mols.map twoAlpha = [16]) ∧ (waterMult9.mols.map (norb .am1) = [6]) ∧
    accepts waterMult9 = .error .noccRange ∧ acceptsFixed waterMult9 = .error .noccRange := by
  decide

/-- what is left after the repair: a non-positive "multiplicity" of the right parity is accepted
    (`mult = −1`: nocc = (3, 5), the triplet with α/β exchanged) -/
theorem nonpositive_multiplicity_accepted_counterexample :
    accepts (plain true [h2o 0 (-1)]) = .ok () ∧ ¬ WellFormed (plain true [h2o 0 (-1)]) ∧
    acceptsFixed (plain true [h2o 0 (-1)]) = .error .noccRange := by
  decide

/-- an over-charged RHF ion (`H₂O¹⁰⁺`: −2 electrons) passed every guard of the pinned commit (it
    failed later by an incidental `IndexError`); the repair rejects it -/
theorem overcharged_rhf_accepted :
    acceptsPreFix (plain false [h2o 10 1]) = .ok () ∧
    accepts (plain false [h2o 10 1]) = .error .noccRange := by
  decide

/-- **structural**: `calculate` consults the guards before the numerical kernel is touched:
    a result exists only if the guards accepted, and an error is exactly the first firing guard.
    (In the code the guards `ErrKind.afterSCF` run after the SCF and after the molecule object
    was mutated; nothing is returned, which is what this statement captures.) -/
theorem guards_fire_before_results {ρ : Type} (compute : Input → ρ) (i : Input) :
    (∀ r, calculate compute i = .ok r → accepts i = .ok () ∧ r = compute i) ∧
    (∀ e, calculate compute i = .error e ↔ accepts i = .error e) := by
  unfold calculate
  cases h : accepts i with
  | error e => simp
  | ok u => cases u; simp [eq_comm]

/-- rejected inputs produce no result, whatever the kernel would have returned (even `NaN`) -/
theorem illformed_yields_no_result {ρ : Type} (compute : Input → ρ) (i : Input)
    (hm : i.uhf = true → ∀ m ∈ i.mols, 1 ≤ m.mult) (h : ¬ WellFormed i) :
    ∃ e, calculate compute i = .error e := by
  unfold calculate
  cases ha : accepts i with
  | error e => exact ⟨e, rfl⟩
  | ok u => cases u; exact absurd ((accepts_iff_wellformed_of_mult_pos i hm).1 ha) h

/-! ## order of firing, and observations -/

/-- with two violations the earlier site wins: unsorted species + odd electron count -/
example : accepts (plain false [{ species := [1, 6, 1, 1], charge := 0, mult := 1 }]) = .error .unsorted := by
  decide

/-- `"tda"` is accepted as a synonym of `"cis"` on uniform batches but rejected (with the message
    "RPA for non-uniform batch not yet available") on non-uniform ones, where `"cis"` is accepted -/
theorem tda_alias_rejected_on_heterogeneous_witness :
    accepts (withExc .cis [h2o 0 1, ch2 0 1]) = .ok () ∧
    accepts (withExc .tda [h2o 0 1, ch2 0 1]) = .error .nonUniformExc ∧
    accepts (withExc .tda [h2o 0 1, h2o 0 1]) = .ok () := by
  decide

/-! ## non-vacuity -/

/-- a well-formed closed-shell input (water + methane, RHF, Pulay) -/
example : WellFormed
    { mols := [{ species := [8, 1, 1, 0, 0], charge := 0, mult := 1 }, { species := [6, 1, 1, 1, 1], charge := 0, mult := 1 }],
      uhf := false, method := .pm3, sp2 := false, converger := .pulay, scfBackward := .implicit,
      excited := none, activeExcited := false, analyticalGrad := false, removeCom := some .linear } := by
  decide

/-- a well-formed open-shell input (methyl radical doublet, UHF) satisfying `occOK` -/
example :
    let i : Input := plain true [{ species := [6, 1, 1, 1], charge := 0, mult := 2 }]
    occOK i = true ∧ accepts i = .ok () ∧ WellFormed i := by
  decide

/-- one witness per modelled guard -/
example : accepts (plain true [h2o 0 2]) = .error .badChargeMult := by decide
example : accepts (plain false [{ species := [6, 1, 1, 1], charge := 0, mult := 1 }])
    = .error .oddElectronsRHF := by decide
example : accepts { plain true [h2o 0 1] with converger := .pulay } = .error .uhfPulay := by decide
example : accepts { plain true [h2o 0 1] with converger := .ksa } = .error .uhfKSA := by decide
example : accepts { plain true [h2o 0 1] with sp2 := true } = .error .uhfSP2 := by decide
example : accepts { plain true [h2o 0 1] with sp2 := true, scfBackward := .direct } = .ok () := by decide
example : accepts { plain true [h2o 0 1] with method := .pm6 } = .error .pm6UHF := by decide
example : accepts { plain false [h2o 0 1] with converger := .ksa, scfBackward := .direct }
    = .error .badConvergerDirect := by decide
example : accepts { plain true [h2o 0 1] with excited := some { method := .cis, nStatesGiven := true } }
    = .error .uhfExcited := by decide
example : accepts { plain false [h2o 0 1] with excited := some { method := .cis, nStatesGiven := false } }
    = .error .noNStates := by decide
example : accepts { plain false [h2o 0 1] with activeExcited := true } = .error .activeNoSettings := by decide
example : accepts { plain false [h2o 0 1] with removeCom := some .other } = .error .badComMode := by decide
example : accepts (withExc .other [h2o 0 1]) = .error .badExcMethod := by decide
example : accepts (withExc .rpa [h2o 0 1, ch2 0 1]) = .error .nonUniformExc := by decide
example : accepts { withExc .cis [h2o 0 1, ch2 0 1] with activeExcited := true }
    = .error .nonUniformExcGrad := by decide
example : accepts (withExc .cis [h2o 0 1, h2o 2 1]) = .error .excOccDiffer := by decide

end C18
