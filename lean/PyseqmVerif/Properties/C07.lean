import PyseqmVerif.Model.RootSolve
import Mathlib.LinearAlgebra.Matrix.NonsingularInverse
import Mathlib.Analysis.SpecificLimits.Basic
import Mathlib.Analysis.SpecialFunctions.Sqrt
import Mathlib.Analysis.Calculus.Deriv.Inv
import Mathlib.Analysis.Calculus.Deriv.Add
import Mathlib.Analysis.Calculus.Deriv.Mul
import Mathlib.Analysis.Calculus.Deriv.Comp
import Mathlib.Analysis.Calculus.Deriv.Prod
import Mathlib.Analysis.Calculus.FDeriv.Prod
import Mathlib.Tactic.FieldSimp
import Mathlib.Tactic.Linarith
import Mathlib.Tactic.Ring
import Mathlib.Tactic.NormNum.OfScientific
/-!
# C07 — differentiability in coordinates and parameters

What is proved here (model level):
1. `implicit_adjoint` — the vector–Jacobian product of the SCF fixed point `P* = g(P*, θ)`,
   `vᵀ (1−A)⁻¹ B`, equals `uᵀ B` for ANY solution `u` of `u = v + Aᵀ u`, i.e. any fixed point of
   the map `affine_eq` that `SCF.backward` hands to `fixed_point_anderson`/`fixed_point_picard`;
   the solution exists and is unique when `1 − A` is invertible; the Picard iterates (and, from
   `u₀ = 0`, the Neumann partial sums of the unrolled mode) converge to it when `Aᵀ` is a
   contraction.
2. `root_implicit_derivative` — implicit differentiation of a root `r(ρ, D) = h`.
3. `rho_backward_true_correct` — `rho1BackwardTrue`/`rho2BackwardTrue` (the formulas of the
   candidate repair) return `g·∂ρ/∂h_ev` and `g·∂ρ/∂D` of any differentiable root branch.
4. `rho_backward_code_is_reciprocal_counterexample` — the CODE's `backward` returns
   `g·∂h_ev/∂ρ` and `g·dD/dρ`: the product with the true value is `g²` (reciprocals), and they
   differ at a concrete point (finding F6).
5. `param_identity_preserved_iff_no_copy` — a caller's tensor receives the gradient iff the packed
   parameter dictionary holds the caller's object itself; `copy.deepcopy` makes that false (F5).

Partial: the autograd graph semantics (which tensors are saved with their upstream graph, F6b)
and the equality with finite differences of the full energy are exhibited by the harness probes;
Hessian symmetry is Schwarz's theorem for the C² model energy and is not restated here.
-/
namespace C07

/-! ## 1. the implicit adjoint -/
section adjoint
open Matrix Filter Topology

variable {n p : Type*} [Fintype n] [DecidableEq n]

/-- `affine_eq(u) = grad_P + agrad(Pout, Pin, grad_outputs=u)`: `u ↦ v + Aᵀ u` -/
def picardMap (A : Matrix n n ℝ) (v u : n → ℝ) : n → ℝ := v + Aᵀ.mulVec u

/-- **C07 (1)** Implicit-function adjoint of a fixed point `P* = g(P*, θ)`, `dP*/dθ = (1 − A)⁻¹ B`:
    `vᵀ dP*/dθ = uᵀ B` for the `u` that solves `u = v + Aᵀ u`. -/
theorem implicit_adjoint (A : Matrix n n ℝ) (B : Matrix n p ℝ) (v u : n → ℝ)
    (hinv : IsUnit (1 - A).det) (hu : u = v + Aᵀ.mulVec u) :
    v ᵥ* ((1 - A)⁻¹ * B) = u ᵥ* B := by
  have h1 : u ᵥ* (1 - A) = v := by
    rw [vecMul_sub, vecMul_one]
    have : u ᵥ* A = Aᵀ.mulVec u := (mulVec_transpose A u).symm
    rw [this]
    nth_rewrite 1 [hu]
    simp
  rw [← vecMul_vecMul, ← h1, vecMul_vecMul u, mul_nonsing_inv _ hinv, vecMul_one]

/-- any fixed point of the Picard map is the adjoint solution -/
theorem picard_fixed_point_is_adjoint (A : Matrix n n ℝ) (B : Matrix n p ℝ) (v u : n → ℝ)
    (hinv : IsUnit (1 - A).det) (hu : Function.IsFixedPt (picardMap A v) u) :
    v ᵥ* ((1 - A)⁻¹ * B) = u ᵥ* B :=
  implicit_adjoint A B v u hinv hu.symm

/-- the adjoint equation has a solution when `1 − A` is invertible … -/
theorem adjoint_solution_exists (A : Matrix n n ℝ) (v : n → ℝ) (hinv : IsUnit (1 - A).det) :
    ∃ u, Function.IsFixedPt (picardMap A v) u := by
  have hinvT : IsUnit (1 - Aᵀ).det := by
    have : (1 - Aᵀ) = (1 - A)ᵀ := by simp
    rw [this, det_transpose]; exact hinv
  refine ⟨(1 - Aᵀ)⁻¹.mulVec v, ?_⟩
  unfold Function.IsFixedPt picardMap
  have h : (1 - Aᵀ).mulVec ((1 - Aᵀ)⁻¹.mulVec v) = v := by
    rw [mulVec_mulVec, mul_nonsing_inv _ hinvT, one_mulVec]
  rw [sub_mulVec, one_mulVec] at h
  exact (sub_eq_iff_eq_add.1 h).symm

/-- … and only one -/
theorem adjoint_solution_unique (A : Matrix n n ℝ) (v u u' : n → ℝ) (hinv : IsUnit (1 - A).det)
    (hu : Function.IsFixedPt (picardMap A v) u) (hu' : Function.IsFixedPt (picardMap A v) u') :
    u = u' := by
  have hinvT : IsUnit (1 - Aᵀ).det := by
    have : (1 - Aᵀ) = (1 - A)ᵀ := by simp
    rw [this, det_transpose]; exact hinv
  have key : ∀ w, Function.IsFixedPt (picardMap A v) w → (1 - Aᵀ).mulVec w = v := by
    intro w hw
    unfold Function.IsFixedPt picardMap at hw
    rw [sub_mulVec, one_mulVec]
    exact sub_eq_iff_eq_add.2 hw.symm
  have h1 := key u hu
  have h2 := key u' hu'
  have : (1 - Aᵀ)⁻¹.mulVec ((1 - Aᵀ).mulVec u) = (1 - Aᵀ)⁻¹.mulVec ((1 - Aᵀ).mulVec u') := by
    rw [h1, h2]
  simpa [mulVec_mulVec, nonsing_inv_mul _ hinvT] using this

/-- `fixed_point_picard`: `u_{k+1} = affine_eq(u_k)` -/
def picardIter (A : Matrix n n ℝ) (v u0 : n → ℝ) : ℕ → (n → ℝ)
  | 0 => u0
  | k + 1 => picardMap A v (picardIter A v u0 k)

omit [DecidableEq n] in
/-- the error of the Picard iteration is propagated by `Aᵀ` -/
theorem picard_error_step (A : Matrix n n ℝ) (v u u0 : n → ℝ)
    (hu : Function.IsFixedPt (picardMap A v) u) (k : ℕ) :
    u - picardIter A v u0 (k + 1) = Aᵀ.mulVec (u - picardIter A v u0 k) := by
  have hu' : u = v + Aᵀ.mulVec u := hu.symm
  simp only [picardIter, picardMap]
  rw [mulVec_sub]
  nth_rewrite 1 [hu']
  abel

/-- the unrolled (Neumann) mode: from `u₀ = 0` the Picard iterates are the partial sums
    `Σ_{j<k} (Aᵀ)^j v` that `SCF.backward` accumulates when `SCF_IMPLICIT_BACKWARD = False` -/
theorem picardIter_zero_eq_neumann (A : Matrix n n ℝ) (v : n → ℝ) (k : ℕ) :
    picardIter A v 0 k = ∑ j ∈ Finset.range k, (Aᵀ ^ j).mulVec v := by
  induction k with
  | zero => simp [picardIter]
  | succ k ih =>
    rw [picardIter, picardMap, ih, Finset.sum_range_succ', mulVec_sum]
    simp only [pow_succ', pow_zero, one_mulVec, mulVec_mulVec]
    abel

omit [DecidableEq n] in
/-- convergence of `fixed_point_picard` (and of the Neumann sums) to the adjoint solution when
    `Aᵀ` contracts the sup norm by a factor `q < 1` -/
theorem picard_converges (A : Matrix n n ℝ) (v u u0 : n → ℝ) (q : ℝ) (hq0 : 0 ≤ q) (hq1 : q < 1)
    (hA : ∀ w : n → ℝ, ‖Aᵀ.mulVec w‖ ≤ q * ‖w‖)
    (hu : Function.IsFixedPt (picardMap A v) u) :
    Tendsto (picardIter A v u0) atTop (𝓝 u) := by
  have hbound : ∀ k, ‖u - picardIter A v u0 k‖ ≤ q ^ k * ‖u - u0‖ := by
    intro k
    induction k with
    | zero => simp [picardIter]
    | succ k ih =>
      rw [picard_error_step A v u u0 hu k]
      calc ‖Aᵀ.mulVec (u - picardIter A v u0 k)‖ ≤ q * ‖u - picardIter A v u0 k‖ := hA _
        _ ≤ q * (q ^ k * ‖u - u0‖) := mul_le_mul_of_nonneg_left ih hq0
        _ = q ^ (k + 1) * ‖u - u0‖ := by ring
  rw [tendsto_iff_norm_sub_tendsto_zero]
  have hlim : Tendsto (fun k => q ^ k * ‖u - u0‖) atTop (𝓝 0) := by
    have := (tendsto_pow_atTop_nhds_zero_of_lt_one hq0 hq1).mul_const ‖u - u0‖
    simpa using this
  refine squeeze_zero (fun k => norm_nonneg _) (fun k => ?_) hlim
  rw [norm_sub_rev]
  exact hbound k

/-- non-vacuity: `A = ½·1` on `ℝ²` is a contraction with invertible `1 − A` -/
example : ∃ A : Matrix (Fin 2) (Fin 2) ℝ, IsUnit (1 - A).det ∧
    ∀ w : Fin 2 → ℝ, ‖Aᵀ.mulVec w‖ ≤ (1 / 2) * ‖w‖ := by
  refine ⟨(1 / 2 : ℝ) • (1 : Matrix (Fin 2) (Fin 2) ℝ), ?_, ?_⟩
  · have : (1 : Matrix (Fin 2) (Fin 2) ℝ) - (1 / 2 : ℝ) • (1 : Matrix (Fin 2) (Fin 2) ℝ)
        = (1 / 2 : ℝ) • (1 : Matrix (Fin 2) (Fin 2) ℝ) := by
      ext i j; simp [Matrix.one_apply]; split <;> norm_num
    rw [this, det_smul]
    simp
  · intro w
    rw [transpose_smul, transpose_one, smul_mulVec, one_mulVec, norm_smul]
    simp

end adjoint

/-! ## 2. implicit differentiation of a root -/
section implicit
open Filter Topology

/-- `∂ρ/∂h`: if `r(ρ(h)) = h` near `h₀` then `r'·ρ' = 1` -/
theorem root_implicit_derivative_h (r ρ : ℝ → ℝ) (h0 r' ρ' : ℝ)
    (hr : HasDerivAt r r' (ρ h0)) (hρ : HasDerivAt ρ ρ' h0)
    (hroot : ∀ᶠ h in 𝓝 h0, r (ρ h) = h) : r' * ρ' = 1 := by
  have hcomp : HasDerivAt (fun h => r (ρ h)) (r' * ρ') h0 := HasDerivAt.comp h0 hr hρ
  have hid : HasDerivAt (fun h => r (ρ h)) 1 h0 :=
    (hasDerivAt_id h0).congr_of_eventuallyEq hroot
  exact hcomp.unique hid

/-- `∂ρ/∂D`: if `r(ρ(D), D) = h` near `D₀` and `r` is differentiable at `(ρ(D₀), D₀)` with partials
    `r_ρ`, `r_D`, then `r_ρ·ρ' + r_D = 0` -/
theorem root_implicit_derivative_D (r : ℝ × ℝ → ℝ) (ρ : ℝ → ℝ) (D0 h rρ rD ρ' : ℝ)
    (hr : HasFDerivAt r (rρ • ContinuousLinearMap.fst ℝ ℝ ℝ + rD • ContinuousLinearMap.snd ℝ ℝ ℝ)
      (ρ D0, D0))
    (hρ : HasDerivAt ρ ρ' D0) (hroot : ∀ᶠ D in 𝓝 D0, r (ρ D, D) = h) : rρ * ρ' + rD = 0 := by
  have hγ : HasDerivAt (fun D => (ρ D, D)) (ρ', 1) D0 := hρ.prodMk (hasDerivAt_id D0)
  have hcomp := HasFDerivAt.comp_hasDerivAt (f := fun D => (ρ D, D)) D0 hr hγ
  have hconst : HasDerivAt (r ∘ fun D => (ρ D, D)) 0 D0 :=
    (hasDerivAt_const D0 h).congr_of_eventuallyEq hroot
  have := hcomp.unique hconst
  simpa using this

theorem partial_of_fderiv (r : ℝ × ℝ → ℝ) (x0 D0 rρ rD : ℝ)
    (hr : HasFDerivAt r (rρ • ContinuousLinearMap.fst ℝ ℝ ℝ + rD • ContinuousLinearMap.snd ℝ ℝ ℝ)
      (x0, D0)) : HasDerivAt (fun x => r (x, D0)) rρ x0 := by
    have hγ : HasDerivAt (fun x : ℝ => (x, D0)) (1, 0) x0 :=
      (hasDerivAt_id _).prodMk (hasDerivAt_const _ D0)
    have := HasFDerivAt.comp_hasDerivAt (f := fun x : ℝ => (x, D0)) x0 hr hγ
    simp at this
    exact this

/-- **C07 (2)** for a differentiable root `ρ(h, D)` of `r(ρ, D) = h`:
    `∂ρ/∂h = 1/∂_ρ r` and `∂ρ/∂D = −∂_D r/∂_ρ r`. -/
theorem root_implicit_derivative (r : ℝ × ℝ → ℝ) (ρ : ℝ → ℝ → ℝ) (h0 D0 rρ rD ρh ρD : ℝ)
    (hr : HasFDerivAt r (rρ • ContinuousLinearMap.fst ℝ ℝ ℝ + rD • ContinuousLinearMap.snd ℝ ℝ ℝ)
      (ρ h0 D0, D0))
    (hρh : HasDerivAt (fun h => ρ h D0) ρh h0) (hρD : HasDerivAt (fun D => ρ h0 D) ρD D0)
    (hrooth : ∀ᶠ h in 𝓝 h0, r (ρ h D0, D0) = h) (hrootD : ∀ᶠ D in 𝓝 D0, r (ρ h0 D, D) = h0) :
    rρ ≠ 0 ∧ ρh = 1 / rρ ∧ ρD = -rD / rρ := by
  have hr1 := partial_of_fderiv r (ρ h0 D0) D0 rρ rD hr
  have e1 := root_implicit_derivative_h (fun x => r (x, D0)) (fun h => ρ h D0) h0 rρ ρh hr1 hρh hrooth
  have e2 := root_implicit_derivative_D r (fun D => ρ h0 D) D0 h0 rρ rD ρD hr hρD hrootD
  have hne : rρ ≠ 0 := by
    intro h0'; rw [h0', zero_mul] at e1; exact zero_ne_one e1
  refine ⟨hne, ?_, ?_⟩
  · field_simp; linarith
  · field_simp; linarith

/-- non-vacuity: `r(ρ, D) = ρ + D`, root `ρ(h, D) = h − D` -/
example : ∃ (r : ℝ × ℝ → ℝ) (ρ : ℝ → ℝ → ℝ),
    HasFDerivAt r ((1 : ℝ) • ContinuousLinearMap.fst ℝ ℝ ℝ + (1 : ℝ) • ContinuousLinearMap.snd ℝ ℝ ℝ)
      (ρ 0 0, 0) ∧ ∀ h D, r (ρ h D, D) = h := by
  refine ⟨fun p => p.1 + p.2, fun h D => h - D, ?_, by intro h D; simp⟩
  have := (hasFDerivAt_fst (𝕜 := ℝ) (E := ℝ) (F := ℝ) (p := ((0:ℝ) - 0, (0:ℝ)))).add
    (hasFDerivAt_snd (𝕜 := ℝ) (E := ℝ) (F := ℝ) (p := ((0:ℝ) - 0, (0:ℝ))))
  simp only [one_smul]
  exact this

end implicit

/-! ## 3./4. the additive terms `rho1`, `rho2` -/
section rho
open RootSolve Filter Topology

/-- `x ** 1.5` over the reals -/
noncomputable def pow15R (x : ℝ) : ℝ := x * Real.sqrt x

theorem h1_real (ρ D : ℝ) :
    h1 Real.sqrt ρ D = (1 / 4) * (1 / ρ - 1 / Real.sqrt (D * D + ρ * ρ)) := by
  unfold h1; norm_num

theorem h2_real (ρ D : ℝ) :
    h2 Real.sqrt ρ D = (1 / 8) / ρ - (1 / 4) / Real.sqrt (D * D + ρ * ρ)
      + (1 / 8) / Real.sqrt (2 * (D * D) + ρ * ρ) := by
  unfold h2; norm_num

theorem dh1dρ_real (ρ D : ℝ) :
    dh1dρ pow15R ρ D = (1 / 4) * (ρ / ((D * D + ρ * ρ) * Real.sqrt (D * D + ρ * ρ)) - 1 / (ρ * ρ)) := by
  unfold dh1dρ pow15R; norm_num

theorem dh1dD_real (ρ D : ℝ) :
    dh1dD pow15R ρ D = (1 / 4) * (D / ((D * D + ρ * ρ) * Real.sqrt (D * D + ρ * ρ))) := by
  unfold dh1dD pow15R; norm_num

theorem dh2dρ_real (ρ D : ℝ) :
    dh2dρ pow15R ρ D = -(1 / 8) / (ρ * ρ)
      + ρ * (1 / ((D * D + ρ * ρ) * Real.sqrt (D * D + ρ * ρ)) / 4
             - 1 / ((2 * (D * D) + ρ * ρ) * Real.sqrt (2 * (D * D) + ρ * ρ)) / 8) := by
  unfold dh2dρ pow15R; norm_num

theorem dh2dD_real (ρ D : ℝ) :
    dh2dD pow15R ρ D = D / 4 * (1 / ((D * D + ρ * ρ) * Real.sqrt (D * D + ρ * ρ))
             - 1 / ((2 * (D * D) + ρ * ρ) * Real.sqrt (2 * (D * D) + ρ * ρ))) := by
  unfold dh2dD pow15R; norm_num

/-- derivative of `t ↦ 1/√(a·D(t)² + ρ(t)²)` -/
theorem hasDerivAt_inv_sqrt (a : ℝ) (ha : 0 ≤ a) (ρ D : ℝ → ℝ) (t ρ' D' : ℝ)
    (hρ : HasDerivAt ρ ρ' t) (hD : HasDerivAt D D' t) (hpos : 0 < ρ t) :
    HasDerivAt (fun t => 1 / Real.sqrt (a * (D t * D t) + ρ t * ρ t))
      (-(a * D t * D' + ρ t * ρ') /
        ((a * (D t * D t) + ρ t * ρ t) * Real.sqrt (a * (D t * D t) + ρ t * ρ t))) t := by
  have hs : 0 < a * (D t * D t) + ρ t * ρ t := by
    have := mul_nonneg ha (mul_self_nonneg (D t)); nlinarith
  have hsd : HasDerivAt (fun t => a * (D t * D t) + ρ t * ρ t)
      (a * (D' * D t + D t * D') + (ρ' * ρ t + ρ t * ρ')) t :=
    HasDerivAt.add (HasDerivAt.const_mul a (HasDerivAt.mul hD hD)) (HasDerivAt.mul hρ hρ)
  have hsq := HasDerivAt.sqrt hsd hs.ne'
  have hw : 0 < Real.sqrt (a * (D t * D t) + ρ t * ρ t) := Real.sqrt_pos.2 hs
  have hinv := HasDerivAt.div (hasDerivAt_const t (1 : ℝ)) hsq hw.ne'
  have hsw := Real.mul_self_sqrt hs.le
  refine HasDerivAt.congr_deriv hinv ?_
  set w := Real.sqrt (a * (D t * D t) + ρ t * ρ t) with hwdef
  rw [← hsw]
  field_simp
  ring

theorem hasDerivAt_inv_pos (ρ : ℝ → ℝ) (t ρ' : ℝ) (hρ : HasDerivAt ρ ρ' t) (hpos : 0 < ρ t) :
    HasDerivAt (fun t => 1 / ρ t) (-ρ' / (ρ t * ρ t)) t := by
  have := HasDerivAt.div (hasDerivAt_const t (1 : ℝ)) hρ hpos.ne'
  refine HasDerivAt.congr_deriv this ?_
  field_simp
  ring

/-- chain rule for `h1` along an arbitrary differentiable curve `(ρ(t), D(t))`, `ρ > 0` -/
theorem h1_hasDerivAt_curve (ρ D : ℝ → ℝ) (t ρ' D' : ℝ)
    (hρ : HasDerivAt ρ ρ' t) (hD : HasDerivAt D D' t) (hpos : 0 < ρ t) :
    HasDerivAt (fun t => h1 Real.sqrt (ρ t) (D t))
      (dh1dρ pow15R (ρ t) (D t) * ρ' + dh1dD pow15R (ρ t) (D t) * D') t := by
  have h1' := hasDerivAt_inv_sqrt 1 zero_le_one ρ D t ρ' D' hρ hD hpos
  simp only [one_mul] at h1'
  have hinvρ := hasDerivAt_inv_pos ρ t ρ' hρ hpos
  have := HasDerivAt.const_mul (1 / 4 : ℝ) (HasDerivAt.sub hinvρ h1')
  simp only [h1_real]
  refine HasDerivAt.congr_deriv this ?_
  rw [dh1dρ_real, dh1dD_real]
  have hs : 0 < D t * D t + ρ t * ρ t := by nlinarith [mul_self_nonneg (D t)]
  have hw : 0 < Real.sqrt (D t * D t + ρ t * ρ t) := Real.sqrt_pos.2 hs
  field_simp
  ring

/-- chain rule for `h2` along an arbitrary differentiable curve -/
theorem h2_hasDerivAt_curve (ρ D : ℝ → ℝ) (t ρ' D' : ℝ)
    (hρ : HasDerivAt ρ ρ' t) (hD : HasDerivAt D D' t) (hpos : 0 < ρ t) :
    HasDerivAt (fun t => h2 Real.sqrt (ρ t) (D t))
      (dh2dρ pow15R (ρ t) (D t) * ρ' + dh2dD pow15R (ρ t) (D t) * D') t := by
  have ha := hasDerivAt_inv_sqrt 1 zero_le_one ρ D t ρ' D' hρ hD hpos
  simp only [one_mul] at ha
  have hb := hasDerivAt_inv_sqrt 2 zero_le_two ρ D t ρ' D' hρ hD hpos
  have hinvρ := hasDerivAt_inv_pos ρ t ρ' hρ hpos
  have := HasDerivAt.add (HasDerivAt.sub (HasDerivAt.const_mul (1 / 8 : ℝ) hinvρ)
    (HasDerivAt.const_mul (1 / 4 : ℝ) ha)) (HasDerivAt.const_mul (1 / 8 : ℝ) hb)
  have hs1 : 0 < D t * D t + ρ t * ρ t := by nlinarith [mul_self_nonneg (D t)]
  have hs2 : 0 < 2 * (D t * D t) + ρ t * ρ t := by nlinarith [mul_self_nonneg (D t)]
  have hw1 : 0 < Real.sqrt (D t * D t + ρ t * ρ t) := Real.sqrt_pos.2 hs1
  have hw2 : 0 < Real.sqrt (2 * (D t * D t) + ρ t * ρ t) := Real.sqrt_pos.2 hs2
  have hfun : (fun t => h2 Real.sqrt (ρ t) (D t)) =
      fun t => 1 / 8 * (1 / ρ t) - 1 / 4 * (1 / Real.sqrt (D t * D t + ρ t * ρ t))
        + 1 / 8 * (1 / Real.sqrt (2 * (D t * D t) + ρ t * ρ t)) := by
    funext x; rw [h2_real]; ring
  rw [hfun]
  refine HasDerivAt.congr_deriv this ?_
  rw [dh2dρ_real, dh2dD_real]
  field_simp
  ring

/-- `∂h1/∂ρ < 0`: the residual is strictly monotone in `ρ`, the root is non-degenerate -/
theorem dh1dρ_neg (ρ D : ℝ) (hρ : 0 < ρ) (hD : D ≠ 0) : dh1dρ pow15R ρ D < 0 := by
  rw [dh1dρ_real]
  have hD2 : 0 < D * D := mul_self_pos.2 hD
  have hs : 0 < D * D + ρ * ρ := by nlinarith
  have hw : 0 < Real.sqrt (D * D + ρ * ρ) := Real.sqrt_pos.2 hs
  have hwρ : ρ < Real.sqrt (D * D + ρ * ρ) := by
    rw [Real.lt_sqrt hρ.le]; nlinarith
  have : ρ / ((D * D + ρ * ρ) * Real.sqrt (D * D + ρ * ρ)) < 1 / (ρ * ρ) := by
    rw [div_lt_div_iff₀ (by positivity) (by positivity)]
    nlinarith [mul_pos hρ hρ, mul_pos hD2 hw]
  linarith

/-- the two implicit-function identities for a root branch of `ev·h1(ρ, D) = h` -/
theorem rho1_root_identities (ev : ℝ) (ρ : ℝ → ℝ → ℝ) (h0 D0 ρh ρD : ℝ) (hpos : 0 < ρ h0 D0)
    (hρh : HasDerivAt (fun h => ρ h D0) ρh h0) (hρD : HasDerivAt (fun D => ρ h0 D) ρD D0)
    (hrooth : ∀ᶠ h in 𝓝 h0, ev * h1 Real.sqrt (ρ h D0) D0 = h)
    (hrootD : ∀ᶠ D in 𝓝 D0, ev * h1 Real.sqrt (ρ h0 D) D = h0) :
    ev * (dh1dρ pow15R (ρ h0 D0) D0 * ρh) = 1 ∧
    ev * (dh1dρ pow15R (ρ h0 D0) D0 * ρD + dh1dD pow15R (ρ h0 D0) D0) = 0 := by
  constructor
  · have hc := HasDerivAt.const_mul ev
      (h1_hasDerivAt_curve (fun h => ρ h D0) (fun _ => D0) h0 ρh 0 hρh (hasDerivAt_const h0 D0) hpos)
    have hid : HasDerivAt (fun h => ev * h1 Real.sqrt (ρ h D0) D0) 1 h0 :=
      (hasDerivAt_id h0).congr_of_eventuallyEq hrooth
    have := hc.unique hid
    simpa using this
  · have hc := HasDerivAt.const_mul ev
      (h1_hasDerivAt_curve (fun D => ρ h0 D) (fun D => D) D0 ρD 1 hρD (hasDerivAt_id D0) hpos)
    have hconst : HasDerivAt (fun D => ev * h1 Real.sqrt (ρ h0 D) D) 0 D0 :=
      (hasDerivAt_const D0 h0).congr_of_eventuallyEq hrootD
    have := hc.unique hconst
    simpa using this

/-- branch form: for ANY root branch `ρ(h_ev, D)` of `ev·h1(ρ, D) = h_ev` that is differentiable in each
    argument, `rho1BackwardTrue` returns `(g·∂ρ/∂h_ev, g·∂ρ/∂D)`.  (Existence of such a branch is the
    implicit function theorem, `∂_ρ h1 < 0` by `dh1dρ_neg`; satisfiability of the curve form below
    is shown by an explicit example.) -/
theorem rho1_backward_true_correct_branch (ev : ℝ) (ρ : ℝ → ℝ → ℝ) (h0 D0 ρh ρD g : ℝ)
    (hD0 : D0 ≠ 0) (hpos : 0 < ρ h0 D0)
    (hρh : HasDerivAt (fun h => ρ h D0) ρh h0) (hρD : HasDerivAt (fun D => ρ h0 D) ρD D0)
    (hrooth : ∀ᶠ h in 𝓝 h0, ev * h1 Real.sqrt (ρ h D0) D0 = h)
    (hrootD : ∀ᶠ D in 𝓝 D0, ev * h1 Real.sqrt (ρ h0 D) D = h0) :
    rho1BackwardTrue pow15R ev (ρ h0 D0) D0 g = (g * ρh, g * ρD) := by
  obtain ⟨e1, e2⟩ := rho1_root_identities ev ρ h0 D0 ρh ρD hpos hρh hρD hrooth hrootD
  set r := ρ h0 D0 with hr
  have hev : ev ≠ 0 := by rintro rfl; simp at e1
  have ha : dh1dρ pow15R r D0 ≠ 0 := (dh1dρ_neg r D0 hpos hD0).ne
  have hs : 0 < D0 * D0 + r * r := by nlinarith [mul_self_nonneg D0]
  have hw : 0 < Real.sqrt (D0 * D0 + r * r) := Real.sqrt_pos.2 hs
  have e2' : dh1dρ pow15R r D0 * ρD + dh1dD pow15R r D0 = 0 := by
    rcases mul_eq_zero.1 e2 with h | h
    · exact absurd h hev
    · exact h
  have hcomp1 : (rho1BackwardTrue pow15R ev r D0 g).1 = g / (dh1dρ pow15R r D0 * ev) := rfl
  have hcomp2 : (rho1BackwardTrue pow15R ev r D0 g).2 =
      g / (pow15R (D0 * D0 + r * r) / (r * r) / D0 - r / D0) := rfl
  refine Prod.ext ?_ ?_
  · rw [hcomp1]
    show _ = g * ρh
    field_simp
    linear_combination (-g) * e1
  · rw [hcomp2]
    show _ = g * ρD
    rw [dh1dρ_real, dh1dD_real] at e2'
    have hne : dh1dρ pow15R r D0 ≠ 0 := ha
    rw [dh1dρ_real] at hne
    unfold pow15R
    set X := (D0 * D0 + r * r) * Real.sqrt (D0 * D0 + r * r) with hX
    have hXpos : 0 < X := mul_pos hs hw
    have hXr : X - r * r * r ≠ 0 := by
      intro h
      apply hne
      have hXe : X = r * r * r := by linarith
      rw [hXe]
      field_simp
      ring
    have key : (r * r * r - X) * ρD + D0 * (r * r) = 0 := by
      field_simp at e2'
      linarith
    have hden : X / (r * r) / D0 - r / D0 = (X - r * r * r) / (r * r * D0) := by
      field_simp
    rw [hden, div_div_eq_mul_div, div_eq_iff hXr]
    linear_combination g * key

/-- the same for `ev·h2(ρ, D) = h` -/
theorem rho2_root_identities (ev : ℝ) (ρ : ℝ → ℝ → ℝ) (h0 D0 ρh ρD : ℝ) (hpos : 0 < ρ h0 D0)
    (hρh : HasDerivAt (fun h => ρ h D0) ρh h0) (hρD : HasDerivAt (fun D => ρ h0 D) ρD D0)
    (hrooth : ∀ᶠ h in 𝓝 h0, ev * h2 Real.sqrt (ρ h D0) D0 = h)
    (hrootD : ∀ᶠ D in 𝓝 D0, ev * h2 Real.sqrt (ρ h0 D) D = h0) :
    ev * (dh2dρ pow15R (ρ h0 D0) D0 * ρh) = 1 ∧
    ev * (dh2dρ pow15R (ρ h0 D0) D0 * ρD + dh2dD pow15R (ρ h0 D0) D0) = 0 := by
  constructor
  · have hc := HasDerivAt.const_mul ev
      (h2_hasDerivAt_curve (fun h => ρ h D0) (fun _ => D0) h0 ρh 0 hρh (hasDerivAt_const h0 D0) hpos)
    have hid : HasDerivAt (fun h => ev * h2 Real.sqrt (ρ h D0) D0) 1 h0 :=
      (hasDerivAt_id h0).congr_of_eventuallyEq hrooth
    have := hc.unique hid
    simpa using this
  · have hc := HasDerivAt.const_mul ev
      (h2_hasDerivAt_curve (fun D => ρ h0 D) (fun D => D) D0 ρD 1 hρD (hasDerivAt_id D0) hpos)
    have hconst : HasDerivAt (fun D => ev * h2 Real.sqrt (ρ h0 D) D) 0 D0 :=
      (hasDerivAt_const D0 h0).congr_of_eventuallyEq hrootD
    have := hc.unique hconst
    simpa using this

/-- branch form for `rho2` -/
theorem rho2_backward_true_correct_branch (ev : ℝ) (ρ : ℝ → ℝ → ℝ) (h0 D0 ρh ρD g : ℝ)
    (hpos : 0 < ρ h0 D0)
    (hρh : HasDerivAt (fun h => ρ h D0) ρh h0) (hρD : HasDerivAt (fun D => ρ h0 D) ρD D0)
    (hrooth : ∀ᶠ h in 𝓝 h0, ev * h2 Real.sqrt (ρ h D0) D0 = h)
    (hrootD : ∀ᶠ D in 𝓝 D0, ev * h2 Real.sqrt (ρ h0 D) D = h0) :
    rho2BackwardTrue pow15R ev (ρ h0 D0) D0 g = (g * ρh, g * ρD) := by
  obtain ⟨e1, e2⟩ := rho2_root_identities ev ρ h0 D0 ρh ρD hpos hρh hρD hrooth hrootD
  set r := ρ h0 D0 with hr
  have hev : ev ≠ 0 := by rintro rfl; simp at e1
  have ha : dh2dρ pow15R r D0 ≠ 0 := by
    intro h; rw [h] at e1; simp at e1
  have e2' : dh2dρ pow15R r D0 * ρD + dh2dD pow15R r D0 = 0 := by
    rcases mul_eq_zero.1 e2 with h | h
    · exact absurd h hev
    · exact h
  have hcomp1 : (rho2BackwardTrue pow15R ev r D0 g).1 = g / (dh2dρ pow15R r D0 * ev) := rfl
  have hcomp2 : (rho2BackwardTrue pow15R ev r D0 g).2 =
      -(dh2dD pow15R r D0) / dh2dρ pow15R r D0 * g := rfl
  refine Prod.ext ?_ ?_
  · rw [hcomp1]
    show _ = g * ρh
    field_simp
    linear_combination (-g) * e1
  · rw [hcomp2]
    show _ = g * ρD
    field_simp
    linear_combination (-g) * e2'

/-- what the code returns instead: products with the true values are `g²` -/
theorem rho1_code_times_true (pow15 : ℝ → ℝ) (ev ρ D g : ℝ)
    (h1 : 0.25 * (ρ / pow15 (D * D + ρ * ρ) - 1.0 / (ρ * ρ)) * ev ≠ 0)
    (h2 : pow15 (D * D + ρ * ρ) / (ρ * ρ) / D - ρ / D ≠ 0) :
    (rho1BackwardCode pow15 ev ρ D g).1 * (rho1BackwardTrue pow15 ev ρ D g).1 = g * g ∧
    (rho1BackwardCode pow15 ev ρ D g).2 * (rho1BackwardTrue pow15 ev ρ D g).2 = g * g := by
  have key : ∀ a c : ℝ, a * ev ≠ 0 → c ≠ 0 →
      (a * g * ev) * (g / (a * ev)) = g * g ∧ (c * g) * (g / c) = g * g := by
    intro a c ha hc
    have ha' : a ≠ 0 := left_ne_zero_of_mul ha
    have hev : ev ≠ 0 := right_ne_zero_of_mul ha
    constructor <;> field_simp
  exact key _ _ h1 h2

/-- the same for `rho2` -/
theorem rho2_code_times_true (pow15 : ℝ → ℝ) (ev ρ D g : ℝ)
    (h1 : dh2dρ pow15 ρ D * ev ≠ 0) (h2 : dh2dD pow15 ρ D ≠ 0) :
    (rho2BackwardCode pow15 ev ρ D g).1 * (rho2BackwardTrue pow15 ev ρ D g).1 = g * g ∧
    (rho2BackwardCode pow15 ev ρ D g).2 * (rho2BackwardTrue pow15 ev ρ D g).2 = g * g := by
  have ha : dh2dρ pow15 ρ D ≠ 0 := left_ne_zero_of_mul h1
  have hev : ev ≠ 0 := right_ne_zero_of_mul h1
  have c1 : (rho2BackwardCode pow15 ev ρ D g).1 = dh2dρ pow15 ρ D * g * ev := rfl
  have c2 : (rho2BackwardCode pow15 ev ρ D g).2 = -(dh2dρ pow15 ρ D) / dh2dD pow15 ρ D * g := rfl
  have t1 : (rho2BackwardTrue pow15 ev ρ D g).1 = g / (dh2dρ pow15 ρ D * ev) := rfl
  have t2 : (rho2BackwardTrue pow15 ev ρ D g).2 = -(dh2dD pow15 ρ D) / dh2dρ pow15 ρ D * g := rfl
  rw [c1, c2, t1, t2]
  constructor
  · field_simp
  · field_simp

theorem sqrt25 : Real.sqrt 25 = 5 := by
  rw [show (25 : ℝ) = 5 ^ 2 by norm_num]; exact Real.sqrt_sq (by norm_num)

theorem pow15R_25 : pow15R 25 = 125 := by unfold pow15R; rw [sqrt25]; norm_num

/-- values of the code's and the true backward of `rho1` at `ρ = 3, D = 4, g = 1, ev = 27.21` -/
theorem rho1_values :
    rho1BackwardCode pow15R (2721 / 100) 3 4 1 = (-(49 * 2721) / 225000, 49 / 18) ∧
    rho1BackwardTrue pow15R (2721 / 100) 3 4 1 = (-225000 / (49 * 2721), 18 / 49) := by
  have h : (4 : ℝ) * 4 + 3 * 3 = 25 := by norm_num
  constructor
  · simp only [rho1BackwardCode, h, pow15R_25]; norm_num
  · simp only [rho1BackwardTrue, h, pow15R_25]; norm_num

theorem sqrt41_gt : 6 < Real.sqrt 41 := by
  rw [Real.lt_sqrt (by norm_num)]; norm_num

theorem dh2dρ_3_4 : dh2dρ pow15R 3 4 = -1 / 72 + 3 / 500 - 3 / (328 * Real.sqrt 41) := by
  rw [dh2dρ_real]
  have h1 : (4 : ℝ) * 4 + 3 * 3 = 25 := by norm_num
  have h2 : (2 : ℝ) * (4 * 4) + 3 * 3 = 41 := by norm_num
  rw [h1, h2, sqrt25]
  have : 0 < Real.sqrt 41 := by linarith [sqrt41_gt]
  field_simp
  ring

theorem dh2dρ_3_4_bounds : -1 / 100 < dh2dρ pow15R 3 4 ∧ dh2dρ pow15R 3 4 < 0 := by
  rw [dh2dρ_3_4]
  have h6 := sqrt41_gt
  have hpos : 0 < 3 / (328 * Real.sqrt 41) := by positivity
  have hlt : 3 / (328 * Real.sqrt 41) < 3 / (328 * 6) := by
    apply div_lt_div_of_pos_left (by norm_num) (by norm_num)
    linarith
  constructor
  · have : (3 : ℝ) / (328 * 6) < 2 / 1000 := by norm_num
    linarith
  · linarith

/-- **C07 (4), finding F6**: at `ρ = 3, D = 4, g = 1, ev = 27.21` the tuple returned by the code's
    `additive_term_rho1.backward` differs from the true derivatives in both components, and the
    first component of `additive_term_rho2.backward` differs as well; in each case code × true = 1:
    the code returns the reciprocals (`∂h_ev/∂ρ`, `dD/dρ|_h`) of what autograd needs. -/
theorem rho_backward_code_is_reciprocal_counterexample :
    (rho1BackwardCode pow15R (2721 / 100) 3 4 1).1 ≠ (rho1BackwardTrue pow15R (2721 / 100) 3 4 1).1 ∧
    (rho1BackwardCode pow15R (2721 / 100) 3 4 1).2 ≠ (rho1BackwardTrue pow15R (2721 / 100) 3 4 1).2 ∧
    (rho1BackwardCode pow15R (2721 / 100) 3 4 1).1 * (rho1BackwardTrue pow15R (2721 / 100) 3 4 1).1 = 1 ∧
    (rho1BackwardCode pow15R (2721 / 100) 3 4 1).2 * (rho1BackwardTrue pow15R (2721 / 100) 3 4 1).2 = 1 ∧
    (rho2BackwardCode pow15R (2721 / 100) 3 4 1).1 ≠ (rho2BackwardTrue pow15R (2721 / 100) 3 4 1).1 ∧
    (rho2BackwardCode pow15R (2721 / 100) 3 4 1).1 * (rho2BackwardTrue pow15R (2721 / 100) 3 4 1).1 = 1 := by
  obtain ⟨hc, ht⟩ := rho1_values
  obtain ⟨hlo, hhi⟩ := dh2dρ_3_4_bounds
  have c1 : (rho2BackwardCode pow15R (2721 / 100) 3 4 1).1 = dh2dρ pow15R 3 4 * 1 * (2721 / 100) := rfl
  have t1 : (rho2BackwardTrue pow15R (2721 / 100) 3 4 1).1 = 1 / (dh2dρ pow15R 3 4 * (2721 / 100)) := rfl
  set a := dh2dρ pow15R 3 4 with ha
  have hx0 : a * (2721 / 100) < 0 := by nlinarith
  have hx1 : -1 < a * (2721 / 100) := by nlinarith
  refine ⟨?_, ?_, ?_, ?_, ?_, ?_⟩
  · rw [hc, ht]; norm_num
  · rw [hc, ht]; norm_num
  · rw [hc, ht]; norm_num
  · rw [hc, ht]; norm_num
  · rw [c1, t1]
    intro h
    have hne : a * (2721 / 100) ≠ 0 := hx0.ne
    rw [mul_one, eq_div_iff hne] at h
    nlinarith
  · rw [c1, t1, mul_one]
    exact mul_one_div_cancel hx0.ne

/-- the forward's variable `d = 1/(2ρ)` and the backward's variable `ρ` describe the same equation -/
theorem residual_forms_agree (D d : ℝ) (hd : 0 < d) :
    hspOfD Real.sqrt D d = h1 Real.sqrt (0.5 / d) D := by
  unfold hspOfD h1
  have h4 : (4.0 : ℝ) * (D * D) + 1.0 / (d * d) = 2 ^ 2 * (D * D + 0.5 / d * (0.5 / d)) := by
    norm_num; field_simp; ring
  rw [h4, Real.sqrt_mul (by norm_num), Real.sqrt_sq (by norm_num)]
  have hs : 0 < D * D + 0.5 / d * (0.5 / d) := by
    have : 0 < (0.5 : ℝ) / d := by positivity
    nlinarith [mul_self_nonneg D]
  have hw : 0 < Real.sqrt (D * D + 0.5 / d * (0.5 / d)) := Real.sqrt_pos.2 hs
  norm_num
  field_simp
  ring

theorem residual_forms_agree2 (D q : ℝ) (hq : 0 < q) :
    hppOfQ Real.sqrt D q = h2 Real.sqrt (0.5 / q) D := by
  unfold hppOfQ h2
  have h4 : (4.0 : ℝ) * (D * D) + 1.0 / (q * q) = 2 ^ 2 * (D * D + 0.5 / q * (0.5 / q)) := by
    norm_num; field_simp; ring
  have h8 : (8.0 : ℝ) * (D * D) + 1.0 / (q * q) = 2 ^ 2 * (2.0 * (D * D) + 0.5 / q * (0.5 / q)) := by
    norm_num; field_simp; ring
  rw [h4, h8, Real.sqrt_mul (by norm_num), Real.sqrt_mul (by norm_num), Real.sqrt_sq (by norm_num)]
  have hp : 0 < (0.5 : ℝ) / q := by positivity
  have hs1 : 0 < D * D + 0.5 / q * (0.5 / q) := by nlinarith [mul_self_nonneg D]
  have hs2 : 0 < 2.0 * (D * D) + 0.5 / q * (0.5 / q) := by
    have : (0:ℝ) ≤ 2.0 * (D * D) := by have := mul_self_nonneg D; norm_num; linarith
    nlinarith
  have hw1 : 0 < Real.sqrt (D * D + 0.5 / q * (0.5 / q)) := Real.sqrt_pos.2 hs1
  have hw2 : 0 < Real.sqrt (2.0 * (D * D) + 0.5 / q * (0.5 / q)) := Real.sqrt_pos.2 hs2
  norm_num
  field_simp
  ring

/-- `rho1BackwardTrue` in terms of the partial derivatives of the residual -/
theorem rho1_true_eq (ev r D g : ℝ) (hr : 0 < r) (hD : D ≠ 0) :
    rho1BackwardTrue pow15R ev r D g =
      (g / (dh1dρ pow15R r D * ev), -(dh1dD pow15R r D) / dh1dρ pow15R r D * g) := by
  have hne : dh1dρ pow15R r D ≠ 0 := (dh1dρ_neg r D hr hD).ne
  have hs : 0 < D * D + r * r := by nlinarith [mul_self_nonneg D]
  have hw : 0 < Real.sqrt (D * D + r * r) := Real.sqrt_pos.2 hs
  have hcomp2 : (rho1BackwardTrue pow15R ev r D g).2 =
      g / (pow15R (D * D + r * r) / (r * r) / D - r / D) := rfl
  refine Prod.ext rfl ?_
  rw [hcomp2]
  show _ = -(dh1dD pow15R r D) / dh1dρ pow15R r D * g
  rw [dh1dρ_real] at hne ⊢
  rw [dh1dD_real]
  unfold pow15R
  set X := (D * D + r * r) * Real.sqrt (D * D + r * r) with hX
  have hXpos : 0 < X := mul_pos hs hw
  have hXr : X - r * r * r ≠ 0 := by
    intro h
    apply hne
    have hXe : X = r * r * r := by linarith
    rw [hXe]
    field_simp
    ring
  have hXr' : r * r * r - X ≠ 0 := by intro h; apply hXr; linarith
  have hden : X / (r * r) / D - r / D = (X - r * r * r) / (r * r * D) := by
    field_simp
  have hnum : (1 / 4 * (r / X - 1 / (r * r))) = -(X - r * r * r) / (4 * X * (r * r)) := by
    field_simp
    ring
  rw [hden, hnum]
  clear_value X
  field_simp

/-- **C07 (3)** total-differential form: along ANY differentiable curve `(ρ(t), D(t), h(t))` on the
    solution set `ev·h1(ρ, D) = h`, `g·ρ' = (∂L/∂h)·h' + (∂L/∂D)·D'` with the two numbers returned by
    `rho1BackwardTrue` — i.e. they are `g·∂ρ/∂h_ev` and `g·∂ρ/∂D`. -/
theorem rho1_backward_true_correct_curve (ev : ℝ) (ρ D h : ℝ → ℝ) (t ρ' D' h' g : ℝ) (hev : ev ≠ 0)
    (hpos : 0 < ρ t) (hD0 : D t ≠ 0)
    (hρ : HasDerivAt ρ ρ' t) (hD : HasDerivAt D D' t) (hh : HasDerivAt h h' t)
    (hroot : ∀ᶠ s in 𝓝 t, ev * h1 Real.sqrt (ρ s) (D s) = h s) :
    (rho1BackwardTrue pow15R ev (ρ t) (D t) g).1 * h' +
      (rho1BackwardTrue pow15R ev (ρ t) (D t) g).2 * D' = g * ρ' := by
  have hc := HasDerivAt.const_mul ev (h1_hasDerivAt_curve ρ D t ρ' D' hρ hD hpos)
  have e := hc.unique (hh.congr_of_eventuallyEq hroot)
  rw [rho1_true_eq ev (ρ t) (D t) g hpos hD0]
  have hne : dh1dρ pow15R (ρ t) (D t) ≠ 0 := (dh1dρ_neg (ρ t) (D t) hpos hD0).ne
  simp only
  rw [← e]
  field_simp
  ring

/-- the same for `rho2`; `∂h2/∂ρ ≠ 0` is a hypothesis here (non-degenerate root) -/
theorem rho2_backward_true_correct_curve (ev : ℝ) (ρ D h : ℝ → ℝ) (t ρ' D' h' g : ℝ) (hev : ev ≠ 0)
    (hpos : 0 < ρ t) (hne : dh2dρ pow15R (ρ t) (D t) ≠ 0)
    (hρ : HasDerivAt ρ ρ' t) (hD : HasDerivAt D D' t) (hh : HasDerivAt h h' t)
    (hroot : ∀ᶠ s in 𝓝 t, ev * h2 Real.sqrt (ρ s) (D s) = h s) :
    (rho2BackwardTrue pow15R ev (ρ t) (D t) g).1 * h' +
      (rho2BackwardTrue pow15R ev (ρ t) (D t) g).2 * D' = g * ρ' := by
  have hc := HasDerivAt.const_mul ev (h2_hasDerivAt_curve ρ D t ρ' D' hρ hD hpos)
  have e := hc.unique (hh.congr_of_eventuallyEq hroot)
  have hcomp1 : (rho2BackwardTrue pow15R ev (ρ t) (D t) g).1 = g / (dh2dρ pow15R (ρ t) (D t) * ev) := rfl
  have hcomp2 : (rho2BackwardTrue pow15R ev (ρ t) (D t) g).2 =
      -(dh2dD pow15R (ρ t) (D t)) / dh2dρ pow15R (ρ t) (D t) * g := rfl
  rw [hcomp1, hcomp2, ← e]
  field_simp
  ring

/-- non-vacuity: the curve `ρ(t) = 3 + t`, `D(t) = 4 + 2t`, `h(t) = ev·h1(ρ(t), D(t))` at `t = 0` -/
example : ∃ (ρ D h : ℝ → ℝ) (ρ' D' h' : ℝ),
    0 < ρ 0 ∧ D 0 ≠ 0 ∧ HasDerivAt ρ ρ' 0 ∧ HasDerivAt D D' 0 ∧ HasDerivAt h h' 0 ∧ ρ' ≠ 0 ∧ D' ≠ 0 ∧
    ∀ᶠ s in 𝓝 (0 : ℝ), (2721 / 100 : ℝ) * h1 Real.sqrt (ρ s) (D s) = h s := by
  have hρ : HasDerivAt (fun t : ℝ => 3 + t) 1 0 := (hasDerivAt_id (0 : ℝ)).const_add 3
  have hD : HasDerivAt (fun t : ℝ => 4 + 2 * t) 2 0 := by
    simpa using ((hasDerivAt_id (0 : ℝ)).const_mul 2).const_add 4
  have hpos : 0 < (fun t : ℝ => 3 + t) 0 := by norm_num
  refine ⟨fun t => 3 + t, fun t => 4 + 2 * t,
    fun t => (2721 / 100 : ℝ) * h1 Real.sqrt (3 + t) (4 + 2 * t), 1, 2, _,
    by norm_num, by norm_num, hρ, hD,
    HasDerivAt.const_mul _ (h1_hasDerivAt_curve _ _ 0 1 2 hρ hD hpos), one_ne_zero, two_ne_zero,
    Filter.Eventually.of_forall fun s => rfl⟩

/-- **C07 (3)** `rho_backward_true_correct`: both repaired backward formulas are the
    vector–Jacobian products of the respective root, in total-differential form. -/
theorem rho_backward_true_correct (ev : ℝ) (hev : ev ≠ 0) (ρ D h : ℝ → ℝ) (t ρ' D' h' g : ℝ)
    (hpos : 0 < ρ t) (hρ : HasDerivAt ρ ρ' t) (hD : HasDerivAt D D' t) (hh : HasDerivAt h h' t) :
    ((D t ≠ 0) → (∀ᶠ s in 𝓝 t, ev * h1 Real.sqrt (ρ s) (D s) = h s) →
      (rho1BackwardTrue pow15R ev (ρ t) (D t) g).1 * h' +
        (rho1BackwardTrue pow15R ev (ρ t) (D t) g).2 * D' = g * ρ') ∧
    ((dh2dρ pow15R (ρ t) (D t) ≠ 0) → (∀ᶠ s in 𝓝 t, ev * h2 Real.sqrt (ρ s) (D s) = h s) →
      (rho2BackwardTrue pow15R ev (ρ t) (D t) g).1 * h' +
        (rho2BackwardTrue pow15R ev (ρ t) (D t) g).2 * D' = g * ρ') :=
  ⟨fun hD0 hroot => rho1_backward_true_correct_curve ev ρ D h t ρ' D' h' g hev hpos hD0 hρ hD hh hroot,
   fun hne hroot => rho2_backward_true_correct_curve ev ρ D h t ρ' D' h' g hev hpos hne hρ hD hh hroot⟩

/-- non-vacuity of the `rho2` non-degeneracy hypothesis and of `rho1_code_times_true`'s -/
example : dh2dρ pow15R 3 4 ≠ 0 := dh2dρ_3_4_bounds.2.ne
example : (rho1BackwardCode pow15R (2721 / 100) 3 4 1).1 ≠ 0 ∧ (rho1BackwardCode pow15R (2721 / 100) 3 4 1).2 ≠ 0 := by
  rw [rho1_values.1]; norm_num

end rho

/-! ## 5. identity of caller-supplied parameter tensors -/
namespace ParamPack

/-- a leaf tensor was created by the user (`requires_grad_()`); a non-leaf one is the output of a
    differentiable computation (e.g. of a callable of the geometry) -/
inductive Kind where | leaf | nonLeaf
deriving DecidableEq, Repr

/-- a tensor object: Python identity `id`, kind, payload -/
structure Obj where
  id : Nat
  kind : Kind
  val : Int
deriving DecidableEq, Repr

/-- `copy.deepcopy(tensor)`: a leaf is cloned into a NEW object (`fresh id ≠ id`) that has no
    connection to the original's `.grad`; a non-leaf raises
    "Only Tensors created explicitly by the user support the deepcopy protocol" -/
def deepcopy (fresh : Nat → Nat) (o : Obj) : Except Unit Obj :=
  match o.kind with
  | .leaf => .ok { o with id := fresh o.id }
  | .nonLeaf => .error ()

def copyAll (fresh : Nat → Nat) : List (String × Obj) → Except Unit (List (String × Obj))
  | [] => .ok []
  | (k, o) :: rest =>
    match deepcopy fresh o with
    | .error e => .error e
    | .ok o' => match copyAll fresh rest with
      | .error e => .error e
      | .ok rest' => .ok ((k, o') :: rest')

/-- the learned part of `molecule.parameters`: `Pack_Parameters.forward` returns the caller's dict
    (learned keys untouched, table keys added); `Molecule.__init__` and
    `Energy._prepare_molecule_inputs` then apply `copy.deepcopy` (`copy = true`, the code) or not
    (`copy = false`, the repair C.5) -/
def packed (copy : Bool) (fresh : Nat → Nat) (learned : List (String × Obj)) :
    Except Unit (List (String × Obj)) :=
  if copy then copyAll fresh learned else .ok learned

/-- autograd accumulates `∂E/∂θ` into the object that took part in the computation; the caller
    sees it iff that object is the caller's -/
def GradReaches (caller used : String × Obj) : Prop := caller.1 = used.1 ∧ used.2.id = caller.2.id

/-- all learned tensors receive their gradient -/
def AllReach (learned : List (String × Obj)) : Except Unit (List (String × Obj)) → Prop
  | .error _ => False
  | .ok used => List.Forall₂ GradReaches learned used

theorem forall₂_refl (l : List (String × Obj)) : List.Forall₂ GradReaches l l := by
  induction l with
  | nil => exact .nil
  | cons a l ih => exact .cons ⟨rfl, rfl⟩ ih

/-- **C07 (5)**: with at least one learned parameter, the gradients reach the caller's tensors
    iff no copy is interposed. -/
theorem param_identity_preserved_iff_no_copy (fresh : Nat → Nat) (hfresh : ∀ i, fresh i ≠ i)
    (learned : List (String × Obj)) (hne : learned ≠ []) (copy : Bool) :
    AllReach learned (packed copy fresh learned) ↔ copy = false := by
  cases copy with
  | false =>
    have h : AllReach learned (packed false fresh learned) := by
      simp only [packed, Bool.false_eq_true, if_false, AllReach]
      exact forall₂_refl learned
    exact ⟨fun _ => rfl, fun _ => h⟩
  | true =>
    simp only [packed, if_true, Bool.true_eq_false, iff_false]
    cases learned with
    | nil => exact absurd rfl hne
    | cons a rest =>
      obtain ⟨k, o⟩ := a
      intro h
      unfold copyAll at h
      cases hk : o.kind with
      | nonLeaf => simp [deepcopy, hk, AllReach] at h
      | leaf =>
        simp only [deepcopy, hk] at h
        cases hr : copyAll fresh rest with
        | error e => simp [hr, AllReach] at h
        | ok rest' =>
          simp only [hr, AllReach] at h
          cases h with
          | cons h1 _ => exact hfresh o.id h1.2

/-- non-vacuity: a fresh-id function -/
example : ∀ i : Nat, (· + 1000) i ≠ i := by intro i; simp

/-- the two failure modes of the code (F5): a leaf tensor silently gets no gradient, a non-leaf
    tensor (parameters computed from the geometry) makes the call raise -/
example : packed true (· + 1000) [("U_ss", { id := 7, kind := .leaf, val := 3 })]
    = .ok [("U_ss", { id := 1007, kind := .leaf, val := 3 })] := by decide
example : packed true (· + 1000) [("U_ss", { id := 7, kind := .nonLeaf, val := 3 })] = .error () := by
  decide
example : packed false (· + 1000) [("U_ss", { id := 7, kind := .nonLeaf, val := 3 })]
    = .ok [("U_ss", { id := 7, kind := .nonLeaf, val := 3 })] := by decide

end ParamPack

end C07
