import PyseqmVerif.Model.RootSolve
import Mathlib.LinearAlgebra.Matrix.NonsingularInverse
import Mathlib.Analysis.SpecificLimits.Basic
import Mathlib.Analysis.SpecialFunctions.Sqrt
import Mathlib.Analysis.Calculus.Deriv.Inv
import Mathlib.Analysis.Calculus.Deriv.Comp
import Mathlib.Analysis.Calculus.Deriv.Prod
import Mathlib.Analysis.Calculus.FDeriv.Prod
import Mathlib.Tactic.FieldSimp
import Mathlib.Tactic.Linarith
import Mathlib.Tactic.Ring
import Mathlib.Tactic.NormNum.OfScientific
/-!
# C07 — differentiability in coordinates and parameters

What is proved here (model level):
1. `implicit_adjoint` — the vector–Jacobian product of the SCF fixed point `P* = g(P*, θ)`,
   `vᵀ (1−A)⁻¹ B`, equals `uᵀ B` for ANY solution `u` of `u = v + Aᵀ u`, i.e. any fixed point of
   the map `affine_eq` that `SCF.backward` hands to `fixed_point_anderson`/`fixed_point_picard`;
   the solution exists and is unique when `1 − A` is invertible; the Picard iterates (and, from
   `u₀ = 0`, the Neumann partial sums of the unrolled mode) converge to it when `Aᵀ` is a
   contraction.
2. `root_implicit_derivative` — implicit differentiation of a root `r(ρ, D) = h`.
3. `rho_backward_true_correct` — `rho1BackwardTrue`/`rho2BackwardTrue` (the formulas of the
   candidate repair) return `g·∂ρ/∂h_ev` and `g·∂ρ/∂D` of any differentiable root branch.
4. `rho_backward_code_is_reciprocal_counterexample` — the CODE's `backward` returns
   `g·∂h_ev/∂ρ` and `g·dD/dρ`: the product with the true value is `g²` (reciprocals), and they
   differ at a concrete point (finding F6).
5. `param_identity_preserved_iff_no_copy` — a caller's tensor receives the gradient iff the packed
   parameter dictionary holds the caller's object itself; `copy.deepcopy` makes that false (F5).

Partial: the autograd graph semantics (which tensors are saved with their upstream graph, F6b)
and the equality with finite differences of the full energy are exhibited by the harness probes;
Hessian symmetry is Schwarz's theorem for the C² model energy and is not restated here.
-/
namespace C07

/-! ## 1. the implicit adjoint -/
section adjoint
open Matrix Filter Topology

variable {n p : Type*} [Fintype n] [DecidableEq n]

/-- `affine_eq(u) = grad_P + agrad(Pout, Pin, grad_outputs=u)`: `u ↦ v + Aᵀ u` -/
def picardMap (A : Matrix n n ℝ) (v u : n → ℝ) : n → ℝ := v + Aᵀ.mulVec u

/-- **C07 (1)** Implicit-function adjoint of a fixed point `P* = g(P*, θ)`, `dP*/dθ = (1 − A)⁻¹ B`:
    `vᵀ dP*/dθ = uᵀ B` for the `u` that solves `u = v + Aᵀ u`. -/
theorem implicit_adjoint (A : Matrix n n ℝ) (B : Matrix n p ℝ) (v u : n → ℝ)
    (hinv : IsUnit (1 - A).det) (hu : u = v + Aᵀ.mulVec u) :
    v ᵥ* ((1 - A)⁻¹ * B) = u ᵥ* B := by
  have h1 : u ᵥ* (1 - A) = v := by
    rw [vecMul_sub, vecMul_one]
    have : u ᵥ* A = Aᵀ.mulVec u := (mulVec_transpose A u).symm
    rw [this]
    nth_rewrite 1 [hu]
    simp
  rw [← vecMul_vecMul, ← h1, vecMul_vecMul u, mul_nonsing_inv _ hinv, vecMul_one]

/-- any fixed point of the Picard map is the adjoint solution -/
theorem picard_fixed_point_is_adjoint (A : Matrix n n ℝ) (B : Matrix n p ℝ) (v u : n → ℝ)
    (hinv : IsUnit (1 - A).det) (hu : Function.IsFixedPt (picardMap A v) u) :
    v ᵥ* ((1 - A)⁻¹ * B) = u ᵥ* B :=
  implicit_adjoint A B v u hinv hu.symm

/-- the adjoint equation has a solution when `1 − A` is invertible … -/
theorem adjoint_solution_exists (A : Matrix n n ℝ) (v : n → ℝ) (hinv : IsUnit (1 - A).det) :
    ∃ u, Function.IsFixedPt (picardMap A v) u := by
  have hinvT : IsUnit (1 - Aᵀ).det := by
    have : (1 - Aᵀ) = (1 - A)ᵀ := by simp
    rw [this, det_transpose]; exact hinv
  refine ⟨(1 - Aᵀ)⁻¹.mulVec v, ?_⟩
  unfold Function.IsFixedPt picardMap
  have h : (1 - Aᵀ).mulVec ((1 - Aᵀ)⁻¹.mulVec v) = v := by
    rw [mulVec_mulVec, mul_nonsing_inv _ hinvT, one_mulVec]
  rw [sub_mulVec, one_mulVec] at h
  exact (sub_eq_iff_eq_add.1 h).symm

/-- … and only one -/
theorem adjoint_solution_unique (A : Matrix n n ℝ) (v u u' : n → ℝ) (hinv : IsUnit (1 - A).det)
    (hu : Function.IsFixedPt (picardMap A v) u) (hu' : Function.IsFixedPt (picardMap A v) u') :
    u = u' := by
  have hinvT : IsUnit (1 - Aᵀ).det := by
    have : (1 - Aᵀ) = (1 - A)ᵀ := by simp
    rw [this, det_transpose]; exact hinv
  have key : ∀ w, Function.IsFixedPt (picardMap A v) w → (1 - Aᵀ).mulVec w = v := by
    intro w hw
    unfold Function.IsFixedPt picardMap at hw
    rw [sub_mulVec, one_mulVec]
    exact sub_eq_iff_eq_add.2 hw.symm
  have h1 := key u hu
  have h2 := key u' hu'
  have : (1 - Aᵀ)⁻¹.mulVec ((1 - Aᵀ).mulVec u) = (1 - Aᵀ)⁻¹.mulVec ((1 - Aᵀ).mulVec u') := by
    rw [h1, h2]
  simpa [mulVec_mulVec, nonsing_inv_mul _ hinvT] using this

/-- `fixed_point_picard`: `u_{k+1} = affine_eq(u_k)` -/
def picardIter (A : Matrix n n ℝ) (v u0 : n → ℝ) : ℕ → (n → ℝ)
  | 0 => u0
  | k + 1 => picardMap A v (picardIter A v u0 k)

omit [DecidableEq n] in
/-- the error of the Picard iteration is propagated by `Aᵀ` -/
theorem picard_error_step (A : Matrix n n ℝ) (v u u0 : n → ℝ)
    (hu : Function.IsFixedPt (picardMap A v) u) (k : ℕ) :
    u - picardIter A v u0 (k + 1) = Aᵀ.mulVec (u - picardIter A v u0 k) := by
  have hu' : u = v + Aᵀ.mulVec u := hu.symm
  simp only [picardIter, picardMap]
  rw [mulVec_sub]
  nth_rewrite 1 [hu']
  abel

/-- the unrolled (Neumann) mode: from `u₀ = 0` the Picard iterates are the partial sums
    `Σ_{j<k} (Aᵀ)^j v` that `SCF.backward` accumulates when `SCF_IMPLICIT_BACKWARD = False` -/
theorem picardIter_zero_eq_neumann (A : Matrix n n ℝ) (v : n → ℝ) (k : ℕ) :
    picardIter A v 0 k = ∑ j ∈ Finset.range k, (Aᵀ ^ j).mulVec v := by
  induction k with
  | zero => simp [picardIter]
  | succ k ih =>
    rw [picardIter, picardMap, ih, Finset.sum_range_succ', mulVec_sum]
    simp only [pow_succ', pow_zero, one_mulVec, mulVec_mulVec]
    abel

omit [DecidableEq n] in
/-- convergence of `fixed_point_picard` (and of the Neumann sums) to the adjoint solution when
    `Aᵀ` contracts the sup norm by a factor `q < 1` -/
theorem picard_converges (A : Matrix n n ℝ) (v u u0 : n → ℝ) (q : ℝ) (hq0 : 0 ≤ q) (hq1 : q < 1)
    (hA : ∀ w : n → ℝ, ‖Aᵀ.mulVec w‖ ≤ q * ‖w‖)
    (hu : Function.IsFixedPt (picardMap A v) u) :
    Tendsto (picardIter A v u0) atTop (𝓝 u) := by
  have hbound : ∀ k, ‖u - picardIter A v u0 k‖ ≤ q ^ k * ‖u - u0‖ := by
    intro k
    induction k with
    | zero => simp [picardIter]
    | succ k ih =>
      rw [picard_error_step A v u u0 hu k]
      calc ‖Aᵀ.mulVec (u - picardIter A v u0 k)‖ ≤ q * ‖u - picardIter A v u0 k‖ := hA _
        _ ≤ q * (q ^ k * ‖u - u0‖) := mul_le_mul_of_nonneg_left ih hq0
        _ = q ^ (k + 1) * ‖u - u0‖ := by ring
  rw [tendsto_iff_norm_sub_tendsto_zero]
  have hlim : Tendsto (fun k => q ^ k * ‖u - u0‖) atTop (𝓝 0) := by
    have := (tendsto_pow_atTop_nhds_zero_of_lt_one hq0 hq1).mul_const ‖u - u0‖
    simpa using this
  refine squeeze_zero (fun k => norm_nonneg _) (fun k => ?_) hlim
  rw [norm_sub_rev]
  exact hbound k

/-- non-vacuity: `A = ½·1` on `ℝ²` is a contraction with invertible `1 − A` -/
example : ∃ A : Matrix (Fin 2) (Fin 2) ℝ, IsUnit (1 - A).det ∧
    ∀ w : Fin 2 → ℝ, ‖Aᵀ.mulVec w‖ ≤ (1 / 2) * ‖w‖ := by
  refine ⟨(1 / 2 : ℝ) • (1 : Matrix (Fin 2) (Fin 2) ℝ), ?_, ?_⟩
  · have : (1 : Matrix (Fin 2) (Fin 2) ℝ) - (1 / 2 : ℝ) • (1 : Matrix (Fin 2) (Fin 2) ℝ)
        = (1 / 2 : ℝ) • (1 : Matrix (Fin 2) (Fin 2) ℝ) := by
      ext i j; simp [Matrix.one_apply]; split <;> norm_num
    rw [this, det_smul]
    simp
  · intro w
    rw [transpose_smul, transpose_one, smul_mulVec, one_mulVec, norm_smul]
    simp

end adjoint

/-! ## 2. implicit differentiation of a root -/
section implicit
open Filter Topology

/-- `∂ρ/∂h`: if `r(ρ(h)) = h` near `h₀` then `r'·ρ' = 1` -/
theorem root_implicit_derivative_h (r ρ : ℝ → ℝ) (h0 r' ρ' : ℝ)
    (hr : HasDerivAt r r' (ρ h0)) (hρ : HasDerivAt ρ ρ' h0)
    (hroot : ∀ᶠ h in 𝓝 h0, r (ρ h) = h) : r' * ρ' = 1 := by
  have hcomp : HasDerivAt (fun h => r (ρ h)) (r' * ρ') h0 := hr.comp h0 hρ
  have hid : HasDerivAt (fun h => r (ρ h)) 1 h0 :=
    (hasDerivAt_id h0).congr_of_eventuallyEq (by simpa using hroot)
  exact hcomp.unique hid

/-- `∂ρ/∂D`: if `r(ρ(D), D) = h` near `D₀` and `r` is differentiable at `(ρ(D₀), D₀)` with partials
    `r_ρ`, `r_D`, then `r_ρ·ρ' + r_D = 0` -/
theorem root_implicit_derivative_D (r : ℝ × ℝ → ℝ) (ρ : ℝ → ℝ) (D0 h rρ rD ρ' : ℝ)
    (hr : HasFDerivAt r (rρ • ContinuousLinearMap.fst ℝ ℝ ℝ + rD • ContinuousLinearMap.snd ℝ ℝ ℝ)
      (ρ D0, D0))
    (hρ : HasDerivAt ρ ρ' D0) (hroot : ∀ᶠ D in 𝓝 D0, r (ρ D, D) = h) : rρ * ρ' + rD = 0 := by
  have hγ : HasDerivAt (fun D => (ρ D, D)) (ρ', 1) D0 := hρ.prodMk (hasDerivAt_id D0)
  have hcomp := hr.comp_hasDerivAt D0 hγ
  have hconst : HasDerivAt (r ∘ fun D => (ρ D, D)) 0 D0 :=
    (hasDerivAt_const D0 h).congr_of_eventuallyEq (by simpa [Function.comp] using hroot)
  have := hcomp.unique hconst
  simpa using this

/-- **C07 (2)** for a differentiable root `ρ(h, D)` of `r(ρ, D) = h`:
    `∂ρ/∂h = 1/∂_ρ r` and `∂ρ/∂D = −∂_D r/∂_ρ r`. -/
theorem root_implicit_derivative (r : ℝ × ℝ → ℝ) (ρ : ℝ → ℝ → ℝ) (h0 D0 rρ rD ρh ρD : ℝ)
    (hr : HasFDerivAt r (rρ • ContinuousLinearMap.fst ℝ ℝ ℝ + rD • ContinuousLinearMap.snd ℝ ℝ ℝ)
      (ρ h0 D0, D0))
    (hρh : HasDerivAt (fun h => ρ h D0) ρh h0) (hρD : HasDerivAt (fun D => ρ h0 D) ρD D0)
    (hrooth : ∀ᶠ h in 𝓝 h0, r (ρ h D0, D0) = h) (hrootD : ∀ᶠ D in 𝓝 D0, r (ρ h0 D, D) = h0) :
    rρ ≠ 0 ∧ ρh = 1 / rρ ∧ ρD = -rD / rρ := by
  have hr1 : HasDerivAt (fun x => r (x, D0)) rρ (ρ h0 D0) := by
    have hγ : HasDerivAt (fun x : ℝ => (x, D0)) (1, 0) (ρ h0 D0) :=
      (hasDerivAt_id _).prodMk (hasDerivAt_const _ D0)
    have := hr.comp_hasDerivAt (ρ h0 D0) hγ
    simpa [Function.comp] using this
  have e1 := root_implicit_derivative_h (fun x => r (x, D0)) (fun h => ρ h D0) h0 rρ ρh hr1 hρh hrooth
  have e2 := root_implicit_derivative_D r (fun D => ρ h0 D) D0 h0 rρ rD ρD hr hρD hrootD
  have hne : rρ ≠ 0 := by
    intro h0'; rw [h0', zero_mul] at e1; exact zero_ne_one e1
  refine ⟨hne, ?_, ?_⟩
  · field_simp; linarith
  · field_simp; linarith

/-- non-vacuity: `r(ρ, D) = ρ + D`, root `ρ(h, D) = h − D` -/
example : ∃ (r : ℝ × ℝ → ℝ) (ρ : ℝ → ℝ → ℝ),
    HasFDerivAt r ((1 : ℝ) • ContinuousLinearMap.fst ℝ ℝ ℝ + (1 : ℝ) • ContinuousLinearMap.snd ℝ ℝ ℝ)
      (ρ 0 0, 0) ∧ ∀ h D, r (ρ h D, D) = h := by
  refine ⟨fun p => p.1 + p.2, fun h D => h - D, ?_, by intro h D; simp⟩
  have := (hasFDerivAt_fst (𝕜 := ℝ) (E := ℝ) (F := ℝ) (p := ((0:ℝ) - 0, (0:ℝ)))).add
    (hasFDerivAt_snd (𝕜 := ℝ) (E := ℝ) (F := ℝ) (p := ((0:ℝ) - 0, (0:ℝ))))
  simpa using this

end implicit

/-! ## 3. the additive terms: derivatives of the residuals along any curve -/
section rho
open RootSolve Filter Topology

/-- `x ** 1.5` over the reals -/
noncomputable def pow15R (x : ℝ) : ℝ := x * Real.sqrt x

theorem h1_real (ρ D : ℝ) :
    h1 Real.sqrt ρ D = (1 / 4) * (1 / ρ - 1 / Real.sqrt (D * D + ρ * ρ)) := by
  unfold h1; norm_num

theorem h2_real (ρ D : ℝ) :
    h2 Real.sqrt ρ D = (1 / 8) / ρ - (1 / 4) / Real.sqrt (D * D + ρ * ρ)
      + (1 / 8) / Real.sqrt (2 * (D * D) + ρ * ρ) := by
  unfold h2; norm_num

theorem dh1dρ_real (ρ D : ℝ) :
    dh1dρ pow15R ρ D = (1 / 4) * (ρ / ((D * D + ρ * ρ) * Real.sqrt (D * D + ρ * ρ)) - 1 / (ρ * ρ)) := by
  unfold dh1dρ pow15R; norm_num

theorem dh1dD_real (ρ D : ℝ) :
    dh1dD pow15R ρ D = (1 / 4) * (D / ((D * D + ρ * ρ) * Real.sqrt (D * D + ρ * ρ))) := by
  unfold dh1dD pow15R; norm_num

theorem dh2dρ_real (ρ D : ℝ) :
    dh2dρ pow15R ρ D = -(1 / 8) / (ρ * ρ)
      + ρ * (1 / ((D * D + ρ * ρ) * Real.sqrt (D * D + ρ * ρ)) / 4
             - 1 / ((2 * (D * D) + ρ * ρ) * Real.sqrt (2 * (D * D) + ρ * ρ)) / 8) := by
  unfold dh2dρ pow15R; norm_num

theorem dh2dD_real (ρ D : ℝ) :
    dh2dD pow15R ρ D = D / 4 * (1 / ((D * D + ρ * ρ) * Real.sqrt (D * D + ρ * ρ))
             - 1 / ((2 * (D * D) + ρ * ρ) * Real.sqrt (2 * (D * D) + ρ * ρ))) := by
  unfold dh2dD pow15R; norm_num

/-- derivative of `t ↦ 1/√(a·D(t)² + ρ(t)²)` -/
theorem hasDerivAt_inv_sqrt (a : ℝ) (ha : 0 ≤ a) (ρ D : ℝ → ℝ) (t ρ' D' : ℝ)
    (hρ : HasDerivAt ρ ρ' t) (hD : HasDerivAt D D' t) (hpos : 0 < ρ t) :
    HasDerivAt (fun t => 1 / Real.sqrt (a * (D t * D t) + ρ t * ρ t))
      (-(a * D t * D' + ρ t * ρ') /
        ((a * (D t * D t) + ρ t * ρ t) * Real.sqrt (a * (D t * D t) + ρ t * ρ t))) t := by
  have hs : 0 < a * (D t * D t) + ρ t * ρ t := by
    have := mul_nonneg ha (mul_self_nonneg (D t)); nlinarith
  have hsd : HasDerivAt (fun t => a * (D t * D t) + ρ t * ρ t)
      (a * (D' * D t + D t * D') + (ρ' * ρ t + ρ t * ρ')) t :=
    ((hD.mul hD).const_mul a).add (hρ.mul hρ)
  have hsq := hsd.sqrt hs.ne'
  have hw : 0 < Real.sqrt (a * (D t * D t) + ρ t * ρ t) := Real.sqrt_pos.2 hs
  have hinv := (hasDerivAt_const t (1 : ℝ)).div hsq hw.ne'
  convert hinv using 1
  have hsw := Real.mul_self_sqrt hs.le
  set w := Real.sqrt (a * (D t * D t) + ρ t * ρ t) with hwdef
  rw [← hsw]
  field_simp
  ring

/-- chain rule for `h1` along an arbitrary differentiable curve `(ρ(t), D(t))`, `ρ > 0` -/
theorem h1_hasDerivAt_curve (ρ D : ℝ → ℝ) (t ρ' D' : ℝ)
    (hρ : HasDerivAt ρ ρ' t) (hD : HasDerivAt D D' t) (hpos : 0 < ρ t) :
    HasDerivAt (fun t => h1 Real.sqrt (ρ t) (D t))
      (dh1dρ pow15R (ρ t) (D t) * ρ' + dh1dD pow15R (ρ t) (D t) * D') t := by
  have h1' := hasDerivAt_inv_sqrt 1 zero_le_one ρ D t ρ' D' hρ hD hpos
  simp only [one_mul] at h1'
  have hinvρ : HasDerivAt (fun t => 1 / ρ t) (-ρ' / (ρ t * ρ t)) t := by
    have := (hasDerivAt_const t (1 : ℝ)).div hρ hpos.ne'
    convert this using 1
    field_simp
    ring
  have := (hinvρ.sub h1').const_mul (1 / 4 : ℝ)
  simp only [h1_real]
  convert this using 1
  rw [dh1dρ_real, dh1dD_real]
  have hs : 0 < D t * D t + ρ t * ρ t := by nlinarith [mul_self_nonneg (D t)]
  have hw : 0 < Real.sqrt (D t * D t + ρ t * ρ t) := Real.sqrt_pos.2 hs
  field_simp
  ring

/-- chain rule for `h2` along an arbitrary differentiable curve -/
theorem h2_hasDerivAt_curve (ρ D : ℝ → ℝ) (t ρ' D' : ℝ)
    (hρ : HasDerivAt ρ ρ' t) (hD : HasDerivAt D D' t) (hpos : 0 < ρ t) :
    HasDerivAt (fun t => h2 Real.sqrt (ρ t) (D t))
      (dh2dρ pow15R (ρ t) (D t) * ρ' + dh2dD pow15R (ρ t) (D t) * D') t := by
  have ha := hasDerivAt_inv_sqrt 1 zero_le_one ρ D t ρ' D' hρ hD hpos
  simp only [one_mul] at ha
  have hb := hasDerivAt_inv_sqrt 2 zero_le_two ρ D t ρ' D' hρ hD hpos
  have hinvρ : HasDerivAt (fun t => 1 / ρ t) (-ρ' / (ρ t * ρ t)) t := by
    have := (hasDerivAt_const t (1 : ℝ)).div hρ hpos.ne'
    convert this using 1
    field_simp
    ring
  have := ((hinvρ.const_mul (1 / 8 : ℝ)).sub (ha.const_mul (1 / 4 : ℝ))).add (hb.const_mul (1 / 8 : ℝ))
  simp only [h2_real]
  have hs1 : 0 < D t * D t + ρ t * ρ t := by nlinarith [mul_self_nonneg (D t)]
  have hs2 : 0 < 2 * (D t * D t) + ρ t * ρ t := by nlinarith [mul_self_nonneg (D t)]
  have hw1 : 0 < Real.sqrt (D t * D t + ρ t * ρ t) := Real.sqrt_pos.2 hs1
  have hw2 : 0 < Real.sqrt (2 * (D t * D t) + ρ t * ρ t) := Real.sqrt_pos.2 hs2
  convert this using 1
  · funext x
    ring
  · rw [dh2dρ_real, dh2dD_real]
    field_simp
    ring

end rho

end C07
