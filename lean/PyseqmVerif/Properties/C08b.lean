import PyseqmVerif.Proofs.HarmonicND
import PyseqmVerif.Properties.C08
import Mathlib.LinearAlgebra.Matrix.Determinant.Basic
import Mathlib.Analysis.Complex.Trigonometric
import Mathlib.Analysis.SpecialFunctions.Trigonometric.Deriv
import Mathlib.Tactic.FieldSimp
import Mathlib.Tactic.FinCases
/-!
# C08b — velocity Verlet on the harmonic system: shadow energy, no drift, order, symplecticity

Property C08 (excerpt): "integration is time-reversible and second-order accurate … energy is
conserved with no secular drift".  `C08.lean` proves reversibility, the momentum laws and the
ONE-dimensional shadow invariant.  This file proves, for the executable model `Verlet.vvStep`
(`Molecular_Dynamics_Basic.one_step`) at `ℝ` driven by the MULTI-dimensional linear force engine
`F(y) = −K y` (`HarmonicND.linForce K`, `K` any symmetric `n × n` matrix), any masses with
`mᵢ · mass_inverseᵢ = 1`, any `dt`, any value `ACC` of the unit constant `ACC_SCALE`:

* `vv_harmonic_shadow_nd(_iterate)`: the modified energy
    `H̃ = ½ vᵀ M v + ½ ACC xᵀ K x − (dt²/8) ACC² (K x)ᵀ M⁻¹ (K x)`
  is conserved EXACTLY by one / any number of steps;
* `vv_energy_error_bounded_no_drift`: `Eₙ − E₀ = (dt²/4) ACC² (q(xₙ) − q(x₀))`, `q ≥ 0`;
* `vv_energy_error_uniform_bound(_trace)`: under the stability hypothesis `dt² L < 4` the error is
  `≤ dt² L / (4 − dt² L) · E₀` for all `n`;
* `vv_matches_exact_flow_to_second_order(_nd)` and `vv_second_order_local_error_harmonic`;
* `vv_symplectic_1d`, `vv_symplectic_nd`.

Units: the acceleration of the code is `a = F · mass_inverse · ACC`, so the stiffness seen by the
integrator is `ACC · K`; energies are written in the unit in which the kinetic energy is
`½ vᵀ M v` (the code's `Ek = KES · ½ vᵀ M v` and `C08.units_consistent`: `ACC · KES = 1`, i.e.
`H̃ = ACC · (Ek + V − …)`).  For `ACC = 1` these are the textbook formulas.
Definitions (`shadowE`, `energy`, `qform`, `kin`, `pot`, `sympl`, `vecOf`, `linForce`) are in
`Proofs/HarmonicND.lean`; `shadowE_explicit` / `shadowE_matrix_form` below spell `H̃` out.
-/
namespace C08b
open Verlet MDL HarmonicND Matrix Finset

noncomputable section

/-! ### what `H̃` is -/

/-- `H̃` written out with sums -/
theorem shadowE_explicit {ι : Type} [Fintype ι] (K : Matrix ι ι ℝ) (m w : ι → ℝ) (c h : ℝ)
    (x v : ι → ℝ) :
    shadowE K m w c h x v
      = 1 / 2 * ∑ i, m i * v i ^ 2 + 1 / 2 * c * ∑ i, x i * (∑ j, K i j * x j)
        - h ^ 2 / 8 * c ^ 2 * ∑ i, w i * (∑ j, K i j * x j) ^ 2 := by
  unfold shadowE kin pot qform
  simp only [dotProduct, mulVec]
  ring

/-- for symmetric `K`: `H̃ = ½ vᵀ M v + ½ c xᵀ (K − (h²/4) c K M⁻¹ K) x` -/
theorem shadowE_matrix_form {ι : Type} [Fintype ι] [DecidableEq ι] (K : Matrix ι ι ℝ)
    (hK : K.IsSymm) (m w : ι → ℝ) (c h : ℝ) (x v : ι → ℝ) :
    shadowE K m w c h x v
      = kin m v + 1 / 2 * c * (x ⬝ᵥ (K - (h ^ 2 / 4 * c) • (K * diagonal w * K)) *ᵥ x) := by
  have hq : ∑ i, w i * (K *ᵥ x) i ^ 2 = x ⬝ᵥ (K * diagonal w * K) *ᵥ x := by
    rw [← mulVec_mulVec, ← mulVec_mulVec, sym_dot hK x]
    simp only [dotProduct, mulVec_diagonal]
    exact Finset.sum_congr rfl (fun i _ => by ring)
  unfold shadowE pot qform
  rw [hq, sub_mulVec, smul_mulVec, dotProduct_sub, dotProduct_smul, smul_eq_mul]
  ring

/-- coefficient/sign check against `C08.vv_harmonic_shadow`: for one unit-mass oscillator
    (`K = [k]`) `H̃` is the 1-D `shadow (k·c) h x v = ½v² + ½(kc)x²(1 − (kc)h²/4)` -/
theorem shadowE_one_dim (k c h : ℝ) (x v : Fin 1 → ℝ) :
    shadowE !![k] (fun _ => 1) (fun _ => 1) c h x v = shadow (k * c) h (x 0) (v 0) := by
  rw [shadowE_explicit]
  simp [shadow]
  ring

section nd
variable {n : ℕ} {K : Matrix (Fin n) (Fin n) ℝ} {minv : List ℝ} {s : State ℝ} (ACC dt : ℝ)

/-! ### 1. the N-dimensional shadow energy -/

/-- one `one_step` with `F = −K x` (`K` symmetric, `mᵢ · minvᵢ = 1`) conserves
    `H̃ = ½ vᵀMv + ½ ACC xᵀKx − (dt²/8) ACC² (Kx)ᵀM⁻¹(Kx)` exactly, for every `dt` -/
theorem vv_harmonic_shadow_nd (hK : K.IsSymm) (hs : Sized n s) (hm : minv.length = n)
    (hinv : AccOf (linForce K) ACC minv s) (m : Fin n → ℝ)
    (hmw : ∀ i : Fin n, m i * minv.getD i 0 = 1) :
    shadowE K m (vecOf n minv) ACC dt
        (vecOf n (vvStep (linForce K) ACC dt minv s).x) (vecOf n (vvStep (linForce K) ACC dt minv s).v)
      = shadowE K m (vecOf n minv) ACC dt (vecOf n s.x) (vecOf n s.v) := by
  obtain ⟨ex, ev⟩ := vvStep_vec ACC dt hs hm hinv
  rw [ex, ev]
  exact shadow_step m (vecOf n minv) ACC dt hK hmw _ _

/-- … and hence along any number of steps -/
theorem vv_harmonic_shadow_nd_iterate (hK : K.IsSymm) (hs : Sized n s) (hm : minv.length = n)
    (hinv : AccOf (linForce K) ACC minv s) (m : Fin n → ℝ)
    (hmw : ∀ i : Fin n, m i * minv.getD i 0 = 1) (k : ℕ) :
    shadowE K m (vecOf n minv) ACC dt
        (vecOf n (vvRun (linForce K) ACC dt minv k s).x) (vecOf n (vvRun (linForce K) ACC dt minv k s).v)
      = shadowE K m (vecOf n minv) ACC dt (vecOf n s.x) (vecOf n s.v) := by
  induction k with
  | zero => rfl
  | succ k ih =>
    rw [← ih]
    exact vv_harmonic_shadow_nd ACC dt hK (vvRun_sized ACC dt hm (linForce_sized K) k hs) hm
      (vvRun_accOf ACC dt k hinv) m hmw

/-! ### 2. the true energy: exact error formula, no secular drift -/

/-- the error of the true energy `E = ½ vᵀMv + ½ ACC xᵀKx` after `k` steps is a function of the two
    end points only: `E_k − E_0 = (dt²/4) ACC² (q(x_k) − q(x_0))`, `q(x) = ½ (Kx)ᵀM⁻¹(Kx) ≥ 0` -/
theorem vv_energy_error_bounded_no_drift (hK : K.IsSymm) (hs : Sized n s) (hm : minv.length = n)
    (hinv : AccOf (linForce K) ACC minv s) (m : Fin n → ℝ) (hmass : ∀ i, 0 < m i)
    (hmw : ∀ i : Fin n, m i * minv.getD i 0 = 1) (k : ℕ) :
    energy K m ACC (vecOf n (vvRun (linForce K) ACC dt minv k s).x)
          (vecOf n (vvRun (linForce K) ACC dt minv k s).v)
        - energy K m ACC (vecOf n s.x) (vecOf n s.v)
      = dt ^ 2 / 4 * ACC ^ 2 * (qform K (vecOf n minv) (vecOf n (vvRun (linForce K) ACC dt minv k s).x)
          - qform K (vecOf n minv) (vecOf n s.x)) ∧
    (∀ y : Fin n → ℝ, 0 ≤ qform K (vecOf n minv) y) := by
  constructor
  · rw [energy_eq_shadow K m (vecOf n minv) ACC dt, energy_eq_shadow K m (vecOf n minv) ACC dt,
      vv_harmonic_shadow_nd_iterate ACC dt hK hs hm hinv m hmw k]
    ring
  · intro y
    apply qform_nonneg K
    intro i
    have h1 := hmw i
    have h2 := hmass i
    by_contra hneg
    have hneg := not_le.mp hneg
    have : m i * minv.getD i 0 < 0 := mul_neg_of_pos_of_neg h2 hneg
    unfold vecOf at hneg
    linarith

/-- **uniform bound**.  Stability hypothesis in operator form: `ACC · K M⁻¹ K ≼ L · K`
    (`hL`: `ACC² q(y) ≤ L · ½ ACC yᵀKy` for all `y`; for positive semidefinite `K` this says
    `λ_max(ACC · M⁻¹K) ≤ L` on the range of `K`) and `dt² L < 4`.  Then for every `k`
    `E_k ≤ 4/(4 − dt² L) · E_0` (so `x_k, v_k` stay bounded) and
    `|E_k − E_0| ≤ dt² L/(4 − dt² L) · E_0`: `O(dt²)`, independent of `k`. -/
theorem vv_energy_error_uniform_bound (hK : K.IsSymm) (hs : Sized n s) (hm : minv.length = n)
    (hinv : AccOf (linForce K) ACC minv s) (m : Fin n → ℝ) (hmass : ∀ i, 0 < m i)
    (hmw : ∀ i : Fin n, m i * minv.getD i 0 = 1)
    (hpsd : ∀ y : Fin n → ℝ, 0 ≤ pot K ACC y) (L : ℝ) (hL0 : 0 ≤ L)
    (hL : ∀ y : Fin n → ℝ, ACC ^ 2 * qform K (vecOf n minv) y ≤ L * pot K ACC y)
    (hstab : dt ^ 2 * L < 4) (k : ℕ) :
    energy K m ACC (vecOf n (vvRun (linForce K) ACC dt minv k s).x)
          (vecOf n (vvRun (linForce K) ACC dt minv k s).v)
        ≤ 4 / (4 - dt ^ 2 * L) * energy K m ACC (vecOf n s.x) (vecOf n s.v) ∧
    |energy K m ACC (vecOf n (vvRun (linForce K) ACC dt minv k s).x)
          (vecOf n (vvRun (linForce K) ACC dt minv k s).v)
        - energy K m ACC (vecOf n s.x) (vecOf n s.v)|
      ≤ dt ^ 2 * L / (4 - dt ^ 2 * L) * energy K m ACC (vecOf n s.x) (vecOf n s.v) := by
  have hq := (vv_energy_error_bounded_no_drift ACC dt hK hs hm hinv m hmass hmw k).2
  have hcons := vv_harmonic_shadow_nd_iterate ACC dt hK hs hm hinv m hmw k
  have hmn : ∀ i, 0 ≤ m i := fun i => (hmass i).le
  unfold shadowE at hcons
  unfold energy
  exact bound_core (kin_nonneg m hmn _) (hpsd _) (hq _) (kin_nonneg m hmn _) (hq _) (hL _) (hL _) hL0
    hstab hcons

/-- the same with a constant that can be read off the data: for positive semidefinite symmetric
    `K` and `ACC ≥ 0` the hypothesis `hL` holds with `L = ACC · tr(M⁻¹K) = ACC Σᵢ Kᵢᵢ/mᵢ`
    (`≥ λ_max(ACC · M⁻¹K)`); stability condition `dt² · ACC · tr(M⁻¹K) < 4` -/
theorem vv_energy_error_uniform_bound_trace (hK : K.IsSymm) (hs : Sized n s) (hm : minv.length = n)
    (hinv : AccOf (linForce K) ACC minv s) (m : Fin n → ℝ) (hmass : ∀ i, 0 < m i)
    (hmw : ∀ i : Fin n, m i * minv.getD i 0 = 1)
    (hpsd : ∀ y : Fin n → ℝ, 0 ≤ y ⬝ᵥ K *ᵥ y) (hACC : 0 ≤ ACC)
    (hstab : dt ^ 2 * (ACC * ∑ i, vecOf n minv i * K i i) < 4) (k : ℕ) :
    |energy K m ACC (vecOf n (vvRun (linForce K) ACC dt minv k s).x)
          (vecOf n (vvRun (linForce K) ACC dt minv k s).v)
        - energy K m ACC (vecOf n s.x) (vecOf n s.v)|
      ≤ dt ^ 2 * (ACC * ∑ i, vecOf n minv i * K i i) / (4 - dt ^ 2 * (ACC * ∑ i, vecOf n minv i * K i i))
          * energy K m ACC (vecOf n s.x) (vecOf n s.v) := by
  have hw : ∀ i, 0 ≤ vecOf n minv i := by
    intro i
    have h1 := hmw i
    have h2 := hmass i
    by_contra hneg
    have hneg := not_le.mp hneg
    have : m i * minv.getD i 0 < 0 := mul_neg_of_pos_of_neg h2 hneg
    linarith
  have hKii : ∀ i, 0 ≤ K i i := by
    intro i
    have := hpsd (Pi.single i 1)
    rwa [mulVec_single_one, single_one_dotProduct, col_apply] at this
  have hpot : ∀ y : Fin n → ℝ, 0 ≤ pot K ACC y := fun y => by
    unfold pot; exact mul_nonneg (mul_nonneg (by norm_num) hACC) (hpsd y)
  have hL0 : 0 ≤ ACC * ∑ i, vecOf n minv i * K i i :=
    mul_nonneg hACC (Finset.sum_nonneg fun i _ => mul_nonneg (hw i) (hKii i))
  exact (vv_energy_error_uniform_bound ACC dt hK hs hm hinv m hmass hmw hpot _ hL0
    (fun y => stab_trace (vecOf n minv) ACC hK hpsd hw y) hstab k).2

/-! ### 3. (N-D) second order: the step is the order-2 Taylor polynomial of the exact flow -/

/-- algebraic surrogate of second-order accuracy, N-D: with `a(y) = −ACC M⁻¹ K y` (linear), the
    exact flow of `ẋ = v, v̇ = a(x)` has `ẍ = a(x)`, `v̈ = a(v)`; one `one_step` returns
    `x' = x + dt v + (dt²/2) a(x)` — exactly the Taylor polynomial of degree 2 — and
    `v' = v + dt a(x) + (dt²/2) a(v) + (dt³/4) a(a(x))` — the Taylor polynomial of degree 2 plus one
    `dt³` term (the exact flow has `(dt³/6) a(a(x))` there: first discrepancy at order `dt³`) -/
theorem vv_matches_exact_flow_to_second_order_nd (hs : Sized n s) (hm : minv.length = n)
    (hinv : AccOf (linForce K) ACC minv s) :
    vecOf n (vvStep (linForce K) ACC dt minv s).x
      = vecOf n s.x + dt • vecOf n s.v + (dt ^ 2 / 2) • acc K (vecOf n minv) ACC (vecOf n s.x) ∧
    vecOf n (vvStep (linForce K) ACC dt minv s).v
      = vecOf n s.v + dt • acc K (vecOf n minv) ACC (vecOf n s.x)
        + (dt ^ 2 / 2) • acc K (vecOf n minv) ACC (vecOf n s.v)
        + (dt ^ 3 / 4) • acc K (vecOf n minv) ACC (acc K (vecOf n minv) ACC (vecOf n s.x)) := by
  obtain ⟨ex, ev⟩ := vvStep_vec ACC dt hs hm hinv
  rw [ex, ev]
  exact step_taylor K (vecOf n minv) ACC dt _ _

/-! ### 4. (N-D) symplecticity -/

/-- the one-step map `Φ` (linear in `(x, v)`) preserves the symplectic two-form
    `ω((x,v),(y,u)) = xᵀ M u − vᵀ M y` (= `dx ∧ dp`, `p = M v`): for two states `s`, `t`,
    `ω(Φ s, Φ t) = ω(s, t)`.  In terms of the Jacobian `J` of `Φ` this is `Jᵀ Ω J = Ω` with
    `Ω = [[0, M], [−M, 0]]`. -/
theorem vv_symplectic_nd {t : State ℝ} (hK : K.IsSymm) (hs : Sized n s) (ht : Sized n t)
    (hm : minv.length = n) (hinv : AccOf (linForce K) ACC minv s)
    (hinvt : AccOf (linForce K) ACC minv t) (m : Fin n → ℝ)
    (hmw : ∀ i : Fin n, m i * minv.getD i 0 = 1) :
    sympl m (vecOf n (vvStep (linForce K) ACC dt minv s).x) (vecOf n (vvStep (linForce K) ACC dt minv s).v)
        (vecOf n (vvStep (linForce K) ACC dt minv t).x) (vecOf n (vvStep (linForce K) ACC dt minv t).v)
      = sympl m (vecOf n s.x) (vecOf n s.v) (vecOf n t.x) (vecOf n t.v) := by
  obtain ⟨ex, ev⟩ := vvStep_vec ACC dt hs hm hinv
  obtain ⟨ey, eu⟩ := vvStep_vec ACC dt ht hm hinvt
  rw [ex, ev, ey, eu]
  exact sympl_step m (vecOf n minv) ACC dt hK hmw _ _ _ _

end nd

/-! ### the one-dimensional oscillator (`C08`'s `harmonicForce k`, unit mass, `ω² = k · ACC`) -/
section oned
variable {n : ℕ} {minv : List ℝ} {s : State ℝ} (ACC dt : ℝ)

/-- one-step matrix of velocity Verlet for `ẍ = −w2 x` acting on `(x, v)` -/
def vvMat (w2 h : ℝ) : Matrix (Fin 2) (Fin 2) ℝ :=
  !![1 - w2 * h ^ 2 / 2, h; -(w2 * h) + w2 ^ 2 * h ^ 3 / 4, 1 - w2 * h ^ 2 / 2]

/-- generator of the exact flow: `d/dt (x, v) = A (x, v)`, `A = [[0, 1], [−w2, 0]]` -/
def oscGen (w2 : ℝ) : Matrix (Fin 2) (Fin 2) ℝ := !![0, 1; -w2, 0]

/-- component `i` of `one_step` with `F = −k x` and `minvᵢ = 1` is `vvMat (k·ACC) dt` -/
theorem vv_harmonic_step_1d (k : ℝ) (hs : Sized n s) (hm : minv.length = n)
    (hinv : AccOf (harmonicForce k) ACC minv s) (i : ℕ) (hmi : minv.getD i 0 = 1) :
    ![(vvStep (harmonicForce k) ACC dt minv s).x.getD i 0,
      (vvStep (harmonicForce k) ACC dt minv s).v.getD i 0]
      = vvMat (k * ACC) dt *ᵥ ![s.x.getD i 0, s.v.getD i 0] := by
  have hF := harmonicForce_sized k n
  have hf : ∀ y : List ℝ, (harmonicForce k y).getD i 0 = -k * y.getD i 0 := by
    intro y; unfold harmonicForce; exact getD_map₀ _ (by norm_num) _ _
  have ha0 : s.a.getD i 0 = -k * s.x.getD i 0 * 1 * ACC := by
    rw [hinv, accel_getD _ _ _ (by rw [hF _ hs.1, hm]), hf, hmi]
  obtain ⟨ex, ev, ea⟩ := C08.vv_exact_forms ACC dt hs hm hF i
  rw [hf, hmi] at ea
  rw [ev, ea, ex, ha0]
  ext j
  fin_cases j <;> simp [vvMat, mulVec, dotProduct, Fin.sum_univ_two] <;> ring

/-- **area preservation**: the one-step matrix has determinant exactly 1, for every `w2`, `h` -/
theorem vv_symplectic_1d (w2 h : ℝ) : (vvMat w2 h).det = 1 := by
  unfold vvMat
  rw [det_fin_two_of]
  ring

/-- **algebraic surrogate of second-order accuracy** (this, not a `C h³` bound on the entries, is
    what is proved here; the analytic bound is `vv_second_order_local_error_harmonic` below):
    the one-step matrix is a polynomial in `h` that agrees with the Taylor polynomial
    `1 + hA + (h²/2)A²` of the exact propagator `exp(hA)` through order `h²`; the remainder is the
    single term `h³ · [[0,0],[w2²/4,0]]`, whereas the `h³` coefficient of `exp(hA)` is
    `A³/6 = [[0, −w2/6],[w2²/6, 0]]` — the first discrepancy is at order `h³`. -/
theorem vv_matches_exact_flow_to_second_order (w2 h : ℝ) :
    vvMat w2 h = 1 + h • oscGen w2 + (h ^ 2 / 2) • oscGen w2 ^ 2 + h ^ 3 • !![0, 0; w2 ^ 2 / 4, 0] ∧
    (1 / 6 : ℝ) • oscGen w2 ^ 3 = !![0, -w2 / 6; w2 ^ 2 / 6, 0] := by
  constructor
  · ext i j
    fin_cases i <;> fin_cases j <;>
      simp [vvMat, oscGen, pow_two] <;> ring
  · ext i j
    fin_cases i <;> fin_cases j <;>
      simp [oscGen, pow_succ] <;> ring

/-- the exact flow of `ẋ = v, v̇ = −ω² x` through `(x, v)` -/
def exactX (ω x v t : ℝ) : ℝ := x * Real.cos (ω * t) + v / ω * Real.sin (ω * t)
/-- velocity of the exact flow -/
def exactV (ω x v t : ℝ) : ℝ := -(x * ω) * Real.sin (ω * t) + v * Real.cos (ω * t)

/-- `exactX/exactV` is the solution of the initial value problem -/
theorem exact_flow_solves (ω x v : ℝ) (hω : ω ≠ 0) :
    exactX ω x v 0 = x ∧ exactV ω x v 0 = v ∧
    (∀ t, HasDerivAt (exactX ω x v) (exactV ω x v t) t) ∧
    (∀ t, HasDerivAt (exactV ω x v) (-ω ^ 2 * exactX ω x v t) t) := by
  refine ⟨by simp [exactX], by simp [exactV], ?_, ?_⟩
  · intro t
    have hlin : HasDerivAt (fun t : ℝ => ω * t) ω t := by
      simpa using (hasDerivAt_id t).const_mul ω
    have hc := (Real.hasDerivAt_cos (ω * t)).comp t hlin
    have hsn := (Real.hasDerivAt_sin (ω * t)).comp t hlin
    have key : HasDerivAt (fun t => x * Real.cos (ω * t) + v / ω * Real.sin (ω * t))
        (x * (-Real.sin (ω * t) * ω) + v / ω * (Real.cos (ω * t) * ω)) t :=
      (hc.const_mul x).add (hsn.const_mul (v / ω))
    refine key.congr_deriv ?_
    unfold exactV
    field_simp
  · intro t
    have hlin : HasDerivAt (fun t : ℝ => ω * t) ω t := by
      simpa using (hasDerivAt_id t).const_mul ω
    have hc := (Real.hasDerivAt_cos (ω * t)).comp t hlin
    have hsn := (Real.hasDerivAt_sin (ω * t)).comp t hlin
    have key : HasDerivAt (fun t => -(x * ω) * Real.sin (ω * t) + v * Real.cos (ω * t))
        (-(x * ω) * (Real.cos (ω * t) * ω) + v * (-Real.sin (ω * t) * ω)) t :=
      (hsn.const_mul (-(x * ω))).add (hc.const_mul v)
    refine key.congr_deriv ?_
    unfold exactX
    field_simp
    ring

/-- **second-order accuracy, analytic form** (local error `O(dt³)`): one `one_step` on the
    oscillator `ẍ = −ω² x` (`ω² = k·ACC`, `ω > 0`) differs from the exact flow after time `dt` by at
    most `C · |ω dt|³` with `C` explicit in `|x|, |v|, ω`, for every `|ω dt| ≤ 1` -/
theorem vv_second_order_local_error_harmonic (k ω : ℝ) (hω : 0 < ω) (hkω : k * ACC = ω ^ 2)
    (hs : Sized n s) (hm : minv.length = n)
    (hinv : AccOf (harmonicForce k) ACC minv s) (i : ℕ) (hmi : minv.getD i 0 = 1)
    (hdt : |ω * dt| ≤ 1) :
    |(vvStep (harmonicForce k) ACC dt minv s).x.getD i 0
        - exactX ω (s.x.getD i 0) (s.v.getD i 0) dt|
      ≤ (|s.x.getD i 0| / 16 + |s.v.getD i 0| / (5 * ω)) * |ω * dt| ^ 3 ∧
    |(vvStep (harmonicForce k) ACC dt minv s).v.getD i 0
        - exactV ω (s.x.getD i 0) (s.v.getD i 0) dt|
      ≤ (ω * |s.x.getD i 0| / 10 + |s.v.getD i 0| / 16) * |ω * dt| ^ 3 := by
  have hstep := vv_harmonic_step_1d ACC dt k hs hm hinv i hmi
  have hx' : (vvStep (harmonicForce k) ACC dt minv s).x.getD i 0
      = (1 - ω ^ 2 * dt ^ 2 / 2) * s.x.getD i 0 + dt * s.v.getD i 0 := by
    have := congrFun hstep 0
    simpa [vvMat, mulVec, dotProduct, Fin.sum_univ_two, hkω] using this
  have hv' : (vvStep (harmonicForce k) ACC dt minv s).v.getD i 0
      = (-(ω ^ 2 * dt) + (ω ^ 2) ^ 2 * dt ^ 3 / 4) * s.x.getD i 0
        + (1 - ω ^ 2 * dt ^ 2 / 2) * s.v.getD i 0 := by
    have := congrFun hstep 1
    simpa [vvMat, mulVec, dotProduct, Fin.sum_univ_two, hkω] using this
  rw [hx', hv']
  generalize s.x.getD i 0 = x
  generalize s.v.getD i 0 = v
  unfold exactX exactV
  set θ := ω * dt with hθ
  have hC := Real.cos_bound hdt
  have hS := Real.sin_bound hdt
  set C := Real.cos θ - (1 - θ ^ 2 / 2) with hCdef
  set S := Real.sin θ - (θ - θ ^ 3 / 6) with hSdef
  have ht0 : 0 ≤ |θ| := abs_nonneg θ
  have ht3 : 0 ≤ |θ| ^ 3 := pow_nonneg ht0 3
  have h43 : |θ| ^ 4 ≤ |θ| ^ 3 := pow_le_pow_of_le_one ht0 hdt (by norm_num)
  have h53 : |θ| ^ 5 ≤ |θ| ^ 3 := pow_le_pow_of_le_one ht0 hdt (by norm_num)
  have hCb : |C| ≤ |θ| ^ 3 / 16 := by linarith
  have hSb : |S| ≤ |θ| ^ 3 / 100 := by linarith
  have habs3 : |θ ^ 3| = |θ| ^ 3 := abs_pow θ 3
  have hdtθ : dt = θ / ω := by rw [hθ]; field_simp
  constructor
  · have e : (1 - ω ^ 2 * dt ^ 2 / 2) * x + dt * v - (x * Real.cos θ + v / ω * Real.sin θ)
        = -(x * C) + -(v / ω * (S - θ ^ 3 / 6)) := by
      rw [hCdef, hSdef, hdtθ]; field_simp; ring
    rw [e]
    have b1 : |-(x * C)| ≤ |x| * (|θ| ^ 3 / 16) := by
      rw [abs_neg, abs_mul]; exact mul_le_mul_of_nonneg_left hCb (abs_nonneg x)
    have b2 : |-(v / ω * (S - θ ^ 3 / 6))| ≤ |v| / ω * (|θ| ^ 3 / 100 + |θ| ^ 3 / 6) := by
      rw [abs_neg, abs_mul, abs_div, abs_of_pos hω]
      apply mul_le_mul_of_nonneg_left _ (div_nonneg (abs_nonneg v) hω.le)
      have : |S - θ ^ 3 / 6| ≤ |S| + |θ ^ 3 / 6| := abs_sub _ _
      rw [abs_div, habs3, abs_of_pos (by norm_num : (0 : ℝ) < 6)] at this
      linarith
    have hvω : 0 ≤ |v| / ω := div_nonneg (abs_nonneg v) hω.le
    have hfin : |v| / ω * (|θ| ^ 3 / 100 + |θ| ^ 3 / 6) ≤ |v| / (5 * ω) * |θ| ^ 3 := by
      have : |v| / (5 * ω) = |v| / ω / 5 := by field_simp
      rw [this]
      nlinarith [mul_nonneg hvω ht3]
    calc |-(x * C) + -(v / ω * (S - θ ^ 3 / 6))|
        ≤ |-(x * C)| + |-(v / ω * (S - θ ^ 3 / 6))| := abs_add_le _ _
      _ ≤ |x| * (|θ| ^ 3 / 16) + |v| / (5 * ω) * |θ| ^ 3 := by linarith
      _ = (|x| / 16 + |v| / (5 * ω)) * |θ| ^ 3 := by ring
  · have e : (-(ω ^ 2 * dt) + (ω ^ 2) ^ 2 * dt ^ 3 / 4) * x + (1 - ω ^ 2 * dt ^ 2 / 2) * v
          - (-(x * ω) * Real.sin θ + v * Real.cos θ)
        = x * ω * (S + θ ^ 3 / 12) + -(v * C) := by
      rw [hCdef, hSdef, hdtθ]; field_simp; ring
    rw [e]
    have b1 : |-(v * C)| ≤ |v| * (|θ| ^ 3 / 16) := by
      rw [abs_neg, abs_mul]; exact mul_le_mul_of_nonneg_left hCb (abs_nonneg v)
    have b2 : |x * ω * (S + θ ^ 3 / 12)| ≤ |x| * ω * (|θ| ^ 3 / 100 + |θ| ^ 3 / 12) := by
      rw [abs_mul, abs_mul, abs_of_pos hω]
      apply mul_le_mul_of_nonneg_left _ (mul_nonneg (abs_nonneg x) hω.le)
      have : |S + θ ^ 3 / 12| ≤ |S| + |θ ^ 3 / 12| := abs_add_le _ _
      rw [abs_div, habs3, abs_of_pos (by norm_num : (0 : ℝ) < 12)] at this
      linarith
    have hxω : 0 ≤ |x| * ω := mul_nonneg (abs_nonneg x) hω.le
    have hfin : |x| * ω * (|θ| ^ 3 / 100 + |θ| ^ 3 / 12) ≤ ω * |x| / 10 * |θ| ^ 3 := by
      nlinarith [mul_nonneg hxω ht3]
    calc |x * ω * (S + θ ^ 3 / 12) + -(v * C)|
        ≤ |x * ω * (S + θ ^ 3 / 12)| + |-(v * C)| := abs_add_le _ _
      _ ≤ ω * |x| / 10 * |θ| ^ 3 + |v| * (|θ| ^ 3 / 16) := by linarith
      _ = (ω * |x| / 10 + |v| / 16) * |θ| ^ 3 := by ring

end oned

/-! ### non-vacuity: two coupled oscillators, masses `1, 2`, `K = [[2,−1],[−1,2]]`, `ACC = 1` -/
section examples

/-- symmetric, positive definite, not diagonal -/
def KEx : Matrix (Fin 2) (Fin 2) ℝ := !![2, -1; -1, 2]
def mEx : Fin 2 → ℝ := ![1, 2]
def minvEx : List ℝ := [1, 1 / 2]

/-- a moving start state whose stored acceleration is consistent -/
def sEx : State ℝ :=
  { x := [1, -1], v := [1 / 2, 3], a := accel 1 (linForce KEx [1, -1]) minvEx }

theorem KEx_symm : KEx.IsSymm := by
  ext i j; fin_cases i <;> fin_cases j <;> simp [KEx]

theorem sEx_sized : Sized 2 sEx := by
  refine ⟨rfl, rfl, ?_⟩
  simp [sEx, linForce, minvEx]

theorem sEx_accOf : AccOf (linForce KEx) 1 minvEx sEx := rfl

theorem ex_mass_pos : ∀ i, 0 < mEx i := by
  intro i; fin_cases i <;> simp [mEx]

theorem ex_mw : ∀ i : Fin 2, mEx i * minvEx.getD i 0 = 1 := by
  intro i; fin_cases i <;> simp [mEx, minvEx]

theorem KEx_quad (y : Fin 2 → ℝ) : y ⬝ᵥ KEx *ᵥ y = 2 * y 0 ^ 2 - 2 * y 0 * y 1 + 2 * y 1 ^ 2 := by
  simp [KEx, dotProduct, mulVec, Fin.sum_univ_two]; ring

theorem KEx_psd (y : Fin 2 → ℝ) : 0 ≤ y ⬝ᵥ KEx *ᵥ y := by
  rw [KEx_quad]; nlinarith [sq_nonneg (y 0 - y 1), sq_nonneg (y 0), sq_nonneg (y 1)]

/-- `vv_harmonic_shadow_nd_iterate` applies (every `dt`, every number of steps) -/
example (dt : ℝ) (k : ℕ) :
    shadowE KEx mEx (vecOf 2 minvEx) 1 dt
        (vecOf 2 (vvRun (linForce KEx) 1 dt minvEx k sEx).x)
        (vecOf 2 (vvRun (linForce KEx) 1 dt minvEx k sEx).v)
      = shadowE KEx mEx (vecOf 2 minvEx) 1 dt (vecOf 2 sEx.x) (vecOf 2 sEx.v) :=
  vv_harmonic_shadow_nd_iterate 1 dt KEx_symm sEx_sized rfl sEx_accOf mEx ex_mw k

/-- the conserved value is not trivial: `H̃(sEx) = 97/8 − (27/16) dt²` -/
example (dt : ℝ) :
    shadowE KEx mEx (vecOf 2 minvEx) 1 dt (vecOf 2 sEx.x) (vecOf 2 sEx.v)
      = 97 / 8 - 27 / 16 * dt ^ 2 := by
  rw [shadowE_explicit]
  simp [KEx, mEx, minvEx, sEx, vecOf, Fin.sum_univ_two]
  ring

/-- `vv_energy_error_bounded_no_drift` applies -/
example (dt : ℝ) (k : ℕ) :
    energy KEx mEx 1 (vecOf 2 (vvRun (linForce KEx) 1 dt minvEx k sEx).x)
          (vecOf 2 (vvRun (linForce KEx) 1 dt minvEx k sEx).v)
        - energy KEx mEx 1 (vecOf 2 sEx.x) (vecOf 2 sEx.v)
      = dt ^ 2 / 4 * 1 ^ 2 * (qform KEx (vecOf 2 minvEx) (vecOf 2 (vvRun (linForce KEx) 1 dt minvEx k sEx).x)
          - qform KEx (vecOf 2 minvEx) (vecOf 2 sEx.x)) :=
  (vv_energy_error_bounded_no_drift 1 dt KEx_symm sEx_sized rfl sEx_accOf mEx ex_mass_pos ex_mw k).1

/-- the stability hypothesis `hL` of `vv_energy_error_uniform_bound` holds with `L = 3`
    (`λ_max(M⁻¹K) = (3+√3)/2 ≈ 2.37`): `3·U(y) − q(y) = ¾ y₀² + (3/2) y₁² ≥ 0` -/
theorem ex_hL (y : Fin 2 → ℝ) :
    (1 : ℝ) ^ 2 * qform KEx (vecOf 2 minvEx) y ≤ 3 * pot KEx 1 y := by
  unfold pot
  rw [KEx_quad]
  simp [qform, KEx, minvEx, vecOf, mulVec, dotProduct, Fin.sum_univ_two]
  nlinarith [sq_nonneg (y 0), sq_nonneg (y 1)]

/-- `vv_energy_error_uniform_bound` applies with `dt = 1` (`dt² L = 3 < 4`): the energy error is at
    most `3 E₀` after any number of steps; with `dt = 1/10`: at most `(3/397) E₀` -/
example (k : ℕ) :
    |energy KEx mEx 1 (vecOf 2 (vvRun (linForce KEx) 1 (1 / 10) minvEx k sEx).x)
          (vecOf 2 (vvRun (linForce KEx) 1 (1 / 10) minvEx k sEx).v)
        - energy KEx mEx 1 (vecOf 2 sEx.x) (vecOf 2 sEx.v)|
      ≤ 3 / 397 * energy KEx mEx 1 (vecOf 2 sEx.x) (vecOf 2 sEx.v) := by
  have h := (vv_energy_error_uniform_bound 1 (1 / 10) KEx_symm sEx_sized rfl sEx_accOf mEx ex_mass_pos
    ex_mw (fun y => by unfold pot; have := KEx_psd y; linarith) 3 (by norm_num) ex_hL
    (by norm_num) k).2
  have e : ((1 : ℝ) / 10) ^ 2 * 3 / (4 - (1 / 10) ^ 2 * 3) = 3 / 397 := by norm_num
  rwa [e] at h

/-- `vv_energy_error_uniform_bound_trace` applies: `tr(M⁻¹K) = 2 + 1 = 3`, `dt = 1` -/
example (k : ℕ) :
    |energy KEx mEx 1 (vecOf 2 (vvRun (linForce KEx) 1 1 minvEx k sEx).x)
          (vecOf 2 (vvRun (linForce KEx) 1 1 minvEx k sEx).v)
        - energy KEx mEx 1 (vecOf 2 sEx.x) (vecOf 2 sEx.v)|
      ≤ 3 * energy KEx mEx 1 (vecOf 2 sEx.x) (vecOf 2 sEx.v) := by
  have htr : (1 : ℝ) * ∑ i, vecOf 2 minvEx i * KEx i i = 3 := by
    simp [vecOf, minvEx, KEx, Fin.sum_univ_two]; norm_num
  have h := vv_energy_error_uniform_bound_trace 1 1 KEx_symm sEx_sized rfl sEx_accOf mEx ex_mass_pos
    ex_mw KEx_psd (by norm_num) (by rw [htr]; norm_num) k
  rw [htr] at h
  have e : (1 : ℝ) ^ 2 * 3 / (4 - 1 ^ 2 * 3) = 3 := by norm_num
  rwa [e] at h

/-- the true energy of the start state is positive: the bounds are not `0 ≤ 0` -/
example : energy KEx mEx 1 (vecOf 2 sEx.x) (vecOf 2 sEx.v) = 97 / 8 := by
  unfold energy kin pot
  rw [KEx_quad]
  simp [mEx, sEx, vecOf, Fin.sum_univ_two]
  norm_num

/-- `vv_symplectic_nd` applies to two different states, with a non-zero value of the form -/
def tEx : State ℝ :=
  { x := [0, 2], v := [1, 0], a := accel 1 (linForce KEx [0, 2]) minvEx }

theorem tEx_sized : Sized 2 tEx := by
  refine ⟨rfl, rfl, ?_⟩
  simp [tEx, linForce, minvEx]

example (dt : ℝ) :
    sympl mEx (vecOf 2 (vvStep (linForce KEx) 1 dt minvEx sEx).x)
        (vecOf 2 (vvStep (linForce KEx) 1 dt minvEx sEx).v)
        (vecOf 2 (vvStep (linForce KEx) 1 dt minvEx tEx).x)
        (vecOf 2 (vvStep (linForce KEx) 1 dt minvEx tEx).v)
      = sympl mEx (vecOf 2 sEx.x) (vecOf 2 sEx.v) (vecOf 2 tEx.x) (vecOf 2 tEx.v) :=
  vv_symplectic_nd 1 dt KEx_symm sEx_sized tEx_sized rfl sEx_accOf rfl mEx ex_mw

example : sympl mEx (vecOf 2 sEx.x) (vecOf 2 sEx.v) (vecOf 2 tEx.x) (vecOf 2 tEx.v) = -11 := by
  simp [sympl, mEx, sEx, tEx, vecOf, Fin.sum_univ_two]; norm_num

/-- `vv_matches_exact_flow_to_second_order_nd` applies -/
example (dt : ℝ) :
    vecOf 2 (vvStep (linForce KEx) 1 dt minvEx sEx).x
      = vecOf 2 sEx.x + dt • vecOf 2 sEx.v + (dt ^ 2 / 2) • acc KEx (vecOf 2 minvEx) 1 (vecOf 2 sEx.x) :=
  (vv_matches_exact_flow_to_second_order_nd 1 dt sEx_sized rfl sEx_accOf).1

/-- 1-D: hypotheses of `vv_harmonic_step_1d` / `vv_second_order_local_error_harmonic` are
    satisfiable (`k = 2`, `ACC = 2`, `ω = 2`, `dt = 1/4`, `x = 1`, `v = 2`) -/
example :
    let s : State ℝ := { x := [1], v := [2], a := accel 2 (harmonicForce 2 [1]) [1] }
    |(vvStep (harmonicForce 2) 2 (1 / 4) [1] s).x.getD 0 0 - exactX 2 1 2 (1 / 4)|
      ≤ (|(1 : ℝ)| / 16 + |(2 : ℝ)| / (5 * 2)) * |(2 : ℝ) * (1 / 4)| ^ 3 := by
  intro s
  exact (vv_second_order_local_error_harmonic 2 (1 / 4) 2 2 (by norm_num) (by norm_num)
    (n := 1) (s := s) ⟨rfl, rfl, rfl⟩ rfl rfl 0 rfl (by rw [abs_of_pos] <;> norm_num)).1

end examples

end

end C08b
