import PyseqmVerif.Proofs.CrossingLemmas
import PyseqmVerif.Model.Hop
/-!
# C17b — trivial-crossing detection in a batch: per-trajectory isolation of the index bookkeeping

Clause of property C17 (verbatim): "… a trivial-crossing relabelling is a permutation of amplitudes
and active index, and nothing done to one trajectory of a batch affects another."

Subject: `seqm/NonadiabaticDynamics.py`, `NonadiabaticDynamicsBase._detect_crossings`, modelled in
`PyseqmVerif/Model/Crossing.lean` (`Crossing.detectCore`) INCLUDING the subset-of-subset index
composition `need_idx → detect_in_need → det_row` and the scatter into the full-size table.  The
assignment routine `_compute_perm_from_overlap` is a parameter `permOf : Row → List Nat`; its type
already says "row-wise" (it sees ONE trajectory's overlap window), which is what the Python does
(`perms = [self._hungarian_perm(cost_cpu[m]) for m in range(nmol)]`).  No other hypothesis on
`permOf` is needed for isolation.

Results
* `crossing_isolation` — row `m` of the returned table (`None` read as all `-1`), the new hold-off
  counter of `m` and the zeroed coupling pairs of `m` are those of the routine run on trajectory `m`
  ALONE (`detectAlone`, the batch of one), which in turn is the direct specification `detectOne`
  (`detectAlone_eq_detectOne`).  No hypotheses beyond `batch[m]? = some t`.
* `crossing_rows_are_involutions` — if the assignment of a detected trajectory is an involution of
  length `≤ n`, its row is a set of disjoint symmetric swaps.  The hypothesis is forced:
  `crossing_rows_not_involution_witness` (the 3-cycle `[1,2,0]` gives the row `[1,0,1]`; this is
  finding F15 of C17 seen from the producer side — the Hungarian assignment is a permutation but
  nothing makes it an involution).
* `wrong_index_map_witness` / `wrong_index_map_invisible_without_holdoff` — the seeded bug
  `full_m = need_idx[det_row]` writes the swap into the wrong trajectory as soon as a probed
  (hold-off) trajectory precedes a detected one, and is extensionally EQUAL to the correct routine
  on every batch whose probe group is empty (in particular on every batch without hold-off history).
* `none_iff` — the routine returns `None` exactly when no trajectory outside hold-off with a strong
  off-diagonal overlap has a crossed pair.

Nothing in the Python contradicts isolation for this routine (contrast F16 for the sub-step count).
-/
namespace C17b
open Crossing

/-! ## isolation -/

/-- the batch of one IS the direct per-trajectory specification -/
theorem detectAlone_eq_detectOne (n : Nat) (thr : Int) (permOf : Row → List Nat) (t : Traj) :
    detectAlone n thr permOf t = detectOne n thr permOf t := by
  obtain ⟨h1, h2, h3⟩ := detectCore_at n thr permOf [t] 0 t rfl
  unfold detectAlone
  simp only [h1, h3, List.getD_eq_getElem?_getD, h2, Option.getD_some]

/-- **Per-trajectory isolation of `_detect_crossings`.**  For every batch, every row-wise assignment
routine `permOf` and every trajectory `m` of the batch: the row `swap_to[m]` (with `None` read as
all `-1`), the new `post_hop_holdoff[m]` and the set `{(i,j) | zero_mask[m,i,j]}` are exactly those
obtained by running the routine on trajectory `m` alone. -/
theorem crossing_isolation (n : Nat) (thr : Int) (permOf : Row → List Nat) (batch : List Traj)
    (m : Nat) (t : Traj) (h : batch[m]? = some t) :
    rowOf n (detectBatch n thr permOf batch).1 m = (detectAlone n thr permOf t).row ∧
    (detectBatch n thr permOf batch).2[m]? = some (detectAlone n thr permOf t).holdoff ∧
    zeroOf (zeroPairs n thr permOf batch) m = (detectAlone n thr permOf t).zero := by
  rw [detectAlone_eq_detectOne]
  exact detectCore_at n thr permOf batch m t h

/-- the same statement in "change the others" form: two batches that agree on trajectory `m`
(whatever their other members, whatever their sizes) agree on everything returned for `m` -/
theorem crossing_isolation_between_batches (n : Nat) (thr : Int) (permOf : Row → List Nat)
    (batch batch' : List Traj) (m : Nat) (hm : m < batch.length) (h : batch[m]? = batch'[m]?) :
    rowOf n (detectBatch n thr permOf batch).1 m = rowOf n (detectBatch n thr permOf batch').1 m ∧
    (detectBatch n thr permOf batch).2[m]? = (detectBatch n thr permOf batch').2[m]? ∧
    zeroOf (zeroPairs n thr permOf batch) m = zeroOf (zeroPairs n thr permOf batch') m := by
  have ht : batch[m]? = some batch[m] := List.getElem?_eq_getElem hm
  obtain ⟨a1, a2, a3⟩ := crossing_isolation n thr permOf batch m _ ht
  obtain ⟨b1, b2, b3⟩ := crossing_isolation n thr permOf batch' m _ (h ▸ ht)
  exact ⟨a1.trans b1.symm, a2.trans b2.symm, a3.trans b3.symm⟩

/-- `none` is returned but the hold-off of trajectory 0 is reset all the same (the probe block runs
before the second early exit), and trajectory 1 is untouched -/
example :
    detectBatch 2 900 (fun _ => [1, 0])
      [⟨0, 2, 0, [[10, 950], [950, 10]]⟩, ⟨0, 1, -1, [[990, 0], [0, 990]]⟩] = (none, [0, 1]) := by
  decide

/-- non-vacuity: a batch of three in which every group occurs — trajectory 0 is probed (and reset),
trajectory 1 needs nothing, trajectory 2 has a detected crossing; each row equals the batch of one -/
example :
    let sw : Row := [[10, 950], [950, 10]]
    let batch : List Traj := [⟨0, 2, 0, sw⟩, ⟨0, 0, -1, [[990, 0], [0, 990]]⟩, ⟨1, 0, -1, sw⟩]
    detectBatch 2 900 (fun _ => [1, 0]) batch = (some [[-1, -1], [-1, -1], [1, 0]], [0, 0, 0]) ∧
    zeroPairs 2 900 (fun _ => [1, 0]) batch = [(2, 0, 1), (2, 1, 0)] ∧
    detectAlone 2 900 (fun _ => [1, 0]) ⟨1, 0, -1, sw⟩ = ⟨[1, 0], 0, [(0, 1), (1, 0)]⟩ ∧
    detectAlone 2 900 (fun _ => [1, 0]) ⟨0, 2, 0, sw⟩ = ⟨[-1, -1], 0, []⟩ := by
  decide

/-! ## rows are symmetric swaps -/

/-- **Rows are involutions** when the assignment is: if `permOf` returns an involution of length
`≤ n` for trajectory `m` (only required when `m` is in the detect group — the routine does not look
at it otherwise), then `swap_to[m, i] = j ≥ 0` implies `swap_to[m, j] = i` and `i ≠ j`. -/
theorem crossing_rows_are_involutions (n : Nat) (thr : Int) (permOf : Row → List Nat)
    (batch : List Traj) (m : Nat) (t : Traj) (h : batch[m]? = some t)
    (hinv : detectMaskOf thr t = true → IsInvolution (permOf t.ov) ∧ (permOf t.ov).length ≤ n)
    (i : Nat) (v : Int)
    (hr : (rowOf n (detectBatch n thr permOf batch).1 m)[i]? = some v) (hv : 0 ≤ v) :
    (rowOf n (detectBatch n thr permOf batch).1 m)[v.toNat]? = some (i : Int) ∧ (i : Int) ≠ v := by
  have hrow := (detectCore_at n thr permOf batch m t h).1
  have hrow' : rowOf n (detectBatch n thr permOf batch).1 m = (detectOne n thr permOf t).row := hrow
  rw [hrow'] at hr ⊢
  by_cases hd : detectMaskOf thr t = true
  · have e : (detectOne n thr permOf t).row = buildRow n (pairsOf thr t.ov (permOf t.ov)) := by
      simp [detectOne, hd]
    rw [e] at hr ⊢
    exact buildRow_symmetric n thr t.ov (permOf t.ov) (hinv hd).1 (hinv hd).2 i v hr hv
  · have e : (detectOne n thr permOf t).row = List.replicate n (-1) := by
      simp [detectOne, hd, buildRow]
    rw [e, List.getElem?_replicate] at hr
    split at hr
    · have : v = -1 := (Option.some.inj hr).symm
      omega
    · cases hr

/-- non-vacuity: four states, the involution `[0, 2, 1, 3]`, strong overlap between states 1, 2 -/
example :
    let ov : Row := [[990, 0, 0, 0], [0, 20, 970, 0], [0, 960, 30, 0], [0, 0, 0, 990]]
    IsInvolution [0, 2, 1, 3] ∧ detectMaskOf 900 ⟨1, 0, -1, ov⟩ = true ∧
    detectBatch 4 900 (fun _ => [0, 2, 1, 3]) [⟨1, 0, -1, ov⟩] = (some [[-1, 2, 1, -1]], [0]) := by
  refine ⟨?_, by decide, by decide⟩
  intro i j hij
  have hi : i < 4 := by
    rcases List.getElem?_eq_some_iff.mp hij with ⟨hlt, _⟩; simpa using hlt
  have : i = 0 ∨ i = 1 ∨ i = 2 ∨ i = 3 := by omega
  rcases this with rfl | rfl | rfl | rfl <;> simp at hij <;> subst hij <;> rfl

/-- FINDING (producer side of F15): the hypothesis is forced.  The 3-cycle `[1, 2, 0]` (each of the
three overlaps `≥ thr`; it is a valid permutation, so `_hungarian_perm` can return it) yields the row
`[1, 0, 1]` (the swap vector of F15): `swap_to[2] = 1` but `swap_to[1] = 0 ≠ 2`. -/
theorem crossing_rows_not_involution_witness :
    let ov : Row := [[0, 950, 0], [0, 0, 950], [950, 0, 0]]
    let r := rowOf 3 (detectBatch 3 900 (fun _ => [1, 2, 0]) [⟨0, 0, -1, ov⟩]).1 0
    ¬ IsInvolution [1, 2, 0] ∧ r = [1, 0, 1] ∧
    r[2]? = some 1 ∧ ¬ (r[(1 : Int).toNat]? = some ((2 : Nat) : Int)) := by
  refine ⟨?_, by decide, by decide, by decide⟩
  intro h
  have := h 0 1 rfl
  simp at this

/-- the row produced here is the one the consumer-side model of C17 starts from:
`Hop.buildSwap n (Hop.trivialPairs perm strong)` with `strong i := ov[i, perm i] ≥ thr`; so
`C17.relabel_is_permutation_iff_involution` / `C17.relabel_three_cycle_counterexample` apply to the
rows returned by the batch routine -/
theorem row_eq_hop_buildSwap (n : Nat) (thr : Int) (ov : Row) (p : List Nat) :
    buildRow n (pairsOf thr ov p) =
      Hop.buildSwap n (Hop.trivialPairs p fun i => decide (thr ≤ ovAt ov i (p.getD i i))) := by
  have hp : pairsOf thr ov p =
      Hop.trivialPairs p fun i => decide (thr ≤ ovAt ov i (p.getD i i)) := by
    unfold pairsOf Hop.trivialPairs
    apply filterMap_congr_mem
    rintro ⟨pj, i⟩ hmem
    have hget : p.getD i i = pj := by
      rw [List.mk_mem_zipIdx_iff_getElem?] at hmem
      simp [List.getD_eq_getElem?_getD, hmem]
    simp only [hget, Bool.and_eq_true, decide_eq_true_eq, and_assoc]
  rw [hp]
  rfl

/-- the length hypothesis is forced too (a shape violation, listed for completeness): an
assignment longer than the table drops the symmetric entry -/
example :
    let r := rowOf 1 (detectBatch 1 900 (fun _ => [1, 0]) [⟨0, 0, -1, [[0, 950], [950, 0]]⟩]).1 0
    r = [1] ∧ r[(1 : Int).toNat]? = none := by
  decide

/-! ## the index map `full_m = detect_mol_idx[det_row]` -/

/-- **The seeded bug is observable**: trajectory 0 in hold-off and probed, trajectory 1 idle,
trajectory 2 with a detected crossing.  `need_idx = [0, 2]`, `detect_mol_idx = [2]`, `det_row = 0`:
the correct routine writes the swap into row 2, the variant `full_m = need_idx[det_row]` writes it
into row 0 — the trajectory that is in hold-off — and zeroes ITS couplings. -/
theorem wrong_index_map_witness :
    let sw : Row := [[10, 950], [950, 10]]
    let batch : List Traj := [⟨0, 2, 0, sw⟩, ⟨0, 0, -1, [[990, 0], [0, 990]]⟩, ⟨1, 0, -1, sw⟩]
    detectBatch 2 900 (fun _ => [1, 0]) batch = (some [[-1, -1], [-1, -1], [1, 0]], [0, 0, 0]) ∧
    detectBatchBuggy 2 900 (fun _ => [1, 0]) batch = (some [[1, 0], [-1, -1], [-1, -1]], [0, 0, 0]) ∧
    zeroPairs 2 900 (fun _ => [1, 0]) batch = [(2, 0, 1), (2, 1, 0)] ∧
    zeroPairsBuggy 2 900 (fun _ => [1, 0]) batch = [(0, 0, 1), (0, 1, 0)] ∧
    detectBatchBuggy 2 900 (fun _ => [1, 0]) batch ≠ detectBatch 2 900 (fun _ => [1, 0]) batch := by
  decide

/-- **… and invisible without hold-off history**: on every batch whose probe group is empty the
variant is extensionally equal to the correct routine (then `need_idx = detect_mol_idx`). -/
theorem wrong_index_map_invisible_without_holdoff (n : Nat) (thr : Int) (permOf : Row → List Nat)
    (batch : List Traj) (h : ∀ t ∈ batch, probeMaskOf thr t = false) :
    detectBatchBuggy n thr permOf batch = detectBatch n thr permOf batch ∧
    zeroPairsBuggy n thr permOf batch = zeroPairs n thr permOf batch := by
  have e : detectCore true n thr permOf batch = detectCore false n thr permOf batch := by
    rw [detectCore_nf true n thr permOf batch (fun _ => detIdxOf_eq_needIdxOf thr batch h),
      detectCore_nf false n thr permOf batch (by intro hb; cases hb)]
  simp only [detectBatchBuggy, detectBatch, zeroPairsBuggy, zeroPairs, e, and_self]

/-- in particular on every batch in which no trajectory is in hold-off, or none has hopped or been
relabelled before (`prev_state = -1`) -/
theorem wrong_index_map_invisible_no_history (n : Nat) (thr : Int) (permOf : Row → List Nat)
    (batch : List Traj) (h : ∀ t ∈ batch, t.holdoff = 0 ∨ t.prev < 0) :
    detectBatchBuggy n thr permOf batch = detectBatch n thr permOf batch ∧
    zeroPairsBuggy n thr permOf batch = zeroPairs n thr permOf batch := by
  apply wrong_index_map_invisible_without_holdoff
  intro t ht
  rcases h t ht with h0 | h0
  · simp [probeMaskOf, h0]
  · have : ¬ (0 ≤ t.prev) := by omega
    simp [probeMaskOf, this]

/-- non-vacuity: a batch without hold-off in which crossings ARE detected at a higher index -/
example :
    let sw : Row := [[10, 950], [950, 10]]
    let batch : List Traj := [⟨0, 0, -1, [[990, 0], [0, 990]]⟩, ⟨1, 0, -1, sw⟩]
    (∀ t ∈ batch, t.holdoff = 0 ∨ t.prev < 0) ∧
    detectBatchBuggy 2 900 (fun _ => [1, 0]) batch = (some [[-1, -1], [1, 0]], [0, 0]) := by
  decide

/-! ## when `None` is returned -/

/-- **`None` is returned exactly when** no trajectory of the detect group (not in hold-off, some
off-diagonal windowed overlap `≥ thr`) has a crossed pair.  (The configuration exit
`not self._detect_crossings_flag or cache_* is None` lies outside the model.) -/
theorem none_iff (n : Nat) (thr : Int) (permOf : Row → List Nat) (batch : List Traj) :
    (detectBatch n thr permOf batch).1 = none ↔
      ∀ t ∈ batch, detectMaskOf thr t = true → pairsOf thr t.ov (permOf t.ov) = [] := by
  rw [← tripOf_eq_nil_iff]
  show (detectCore false n thr permOf batch).swap = none ↔ _
  rw [detectCore_nf false n thr permOf batch (by intro hb; cases hb)]
  show (if (tripOf thr permOf batch).isEmpty then none else some _) = none ↔ _
  cases tripOf thr permOf batch <;> simp

/-- the same, spelled out: for every trajectory with `post_hop_holdoff = 0` and a strong
off-diagonal overlap, every `i` with `i < perm[i]` has `ov[i, perm[i]] < thr` -/
theorem none_iff_explicit (n : Nat) (thr : Int) (permOf : Row → List Nat) (batch : List Traj) :
    (detectBatch n thr permOf batch).1 = none ↔
      ∀ t ∈ batch, t.holdoff = 0 → hasStrongOffdiag thr t.ov = true →
        ∀ i j : Nat, (permOf t.ov)[i]? = some j → i < j → ovAt t.ov i j < thr := by
  rw [none_iff]
  constructor
  · intro h t ht h0 hs i j hij hlt
    have hd : detectMaskOf thr t = true := by simp [detectMaskOf, h0, hs]
    have hnil := h t ht hd
    apply Int.lt_of_not_ge
    intro hge
    have : (i, j) ∈ pairsOf thr t.ov (permOf t.ov) :=
      (mem_pairsOf thr t.ov _ i j).mpr ⟨hij, by omega, hlt, hge⟩
    rw [hnil] at this
    cases this
  · intro h t ht hd
    simp only [detectMaskOf, Bool.and_eq_true, Bool.not_eq_true', decide_eq_false_iff_not,
      Nat.not_lt, Nat.le_zero_eq] at hd
    apply List.eq_nil_iff_forall_not_mem.mpr
    rintro ⟨i, j⟩ hq
    obtain ⟨h1, _, h3, h4⟩ := (mem_pairsOf thr t.ov _ i j).mp hq
    have := h t ht hd.1 hd.2 i j h1 h3
    omega

/-- non-vacuity, one instance per exit: nothing needed; probe group only; detect group without a
strong assigned pair (the off-diagonal 950 is not chosen by the identity assignment); and a batch
for which a table IS returned -/
example :
    (detectBatch 2 900 (fun _ => [0, 1]) [⟨0, 0, -1, [[990, 0], [0, 990]]⟩]).1 = none ∧
    (detectBatch 2 900 (fun _ => [1, 0]) [⟨0, 1, 1, [[10, 950], [950, 10]]⟩]).1 = none ∧
    (detectBatch 2 900 (fun _ => [0, 1]) [⟨0, 0, -1, [[990, 950], [0, 990]]⟩]).1 = none ∧
    (detectBatch 2 900 (fun _ => [1, 0]) [⟨0, 0, -1, [[10, 950], [950, 10]]⟩]).1 ≠ none := by
  decide

end C17b
