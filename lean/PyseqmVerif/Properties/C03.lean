import PyseqmVerif.Properties.CensusLoops
import PyseqmVerif.Proofs.ScfLemmas
import PyseqmVerif.Proofs.SP2Lemmas
import PyseqmVerif.Generated.Constants
import Mathlib.LinearAlgebra.Matrix.Trace
import Mathlib.LinearAlgebra.Matrix.Gershgorin
import Mathlib.Analysis.Normed.Field.Lemmas
import Mathlib.Analysis.Normed.Module.Basic
import Mathlib.Data.Matrix.Basic
import Mathlib.Tactic.NoncommRing
import Mathlib.Tactic.Module
/-!
# C03 — converged ⇒ self-consistent; failure flagged; termination

> Whenever a calculation reports a molecule as converged, the returned density matrix is symmetric,
> has trace equal to the number of valence electrons (atomic charges sum to the requested molecular
> charge), is idempotent, commutes with the Fock matrix built from it, reproduces itself when the
> Fock matrix is re-diagonalised, and the reported electronic energy is the energy functional of
> that density, all to within bounds proportional to the requested threshold. A molecule that does
> not meet its threshold within the iteration cap is reported as not converged (never silently
> returned as converged), and every call returns in bounded time.

What is proved here, about the executable models `ScfControl` (`scf_loop.get_error`, loop skeleton
of `scf_forward0/1/2`) and `SP2Spec` (`SP2.SP2` on the spectrum), which the driver diffs against
the live Python:

* bookkeeping (`flag_truthful`, `flag_sticky`, `not_converged_reported`, `loop_bounded`,
  `converged_implies_fresh`) for **arbitrary kernels**, over any linear ordered field;
* the algebra that turns "‖P_new − P_old‖ small" into the clauses of the property
  (`aufbau_density`, `charges_sum`, `mixing_preserves_symmetry_trace`,
  `mixing_idempotency_defect`, `mixing_commutator_defect`);
* SP2: range / monotonicity / fixed points / order preservation / `sp2_is_aufbau`,
  the non-termination witness `sp2_degenerate_never_stops`, `sp2_capped_terminates`;
* `padding_shift_gershgorin`.

Termination.  The SCF loops are `for` loops (`loop_bounded`).  `SP2` is
`while notconverged.any() and k < SP2_MAX_ITER` since the F4 fix (`sp2_live_bounded`); before it
the loop was uncapped and `sp2_degenerate_never_stops` is the spectrum on which it never returned.
In the live code that theorem means: on such a spectrum `SP2` runs exactly `SP2_MAX_ITER` bodies
and returns the un-purified `a0` through the cap, with no flag of its own
(`sp2_degenerate_hits_cap`).  The SCF-level theorems above are kernel-agnostic, so they still
hold with that `SP2` as `make_Pnew`: a molecule is reported converged only if `|ΔE|`, `‖P−Pold‖`
pass on the returned state.  What is lost when the cap is hit is only the *idempotency* guarantee,
which comes from `sp2_is_aufbau` (rule met), not from `get_error`.

What is **not** a theorem of the code (see the remarks at the corresponding theorems):
* "never silently returned as converged" needs an *ordered* scalar: with IEEE NaN every `>` of
  `get_error` is `False`, so a molecule whose energy became NaN is returned **converged**
  (`unordered_errors_reported_converged`; reproduced on the real `get_error` through the driver);
* the iteration cap of `scf_forward0/2` is `MAX_ITER + 1` bodies, not `MAX_ITER` (`loop_bounded`);
* the DIIS part of the test is evaluated on the density *before* the last update (it is whatever
  `Kernels.diisErr` reads from the state; in `scf_forward2` that is `max|F(P_k)P_k − P_kF(P_k)|`
  while `P_{k+1}` is returned);
* with `scf_backward == 2` (`backward=True`) `scf_forward0/2` update the whole batch, not
  `P[notconverged]`: rows of converged molecules keep moving (outside the model, see
  `Model/ScfControl.lean`).
-/
namespace C03
open ScfControl
set_option linter.unusedSectionVars false

/-! ## the generated constants (an edit of the Python constants breaks these) -/

theorem max_iter_value : Generated.Constants.MAX_ITER = 1000 := by decide
theorem max_iter_tied : ScfControl.MAX_ITER = Generated.Constants.MAX_ITER := by decide
theorem dm_error_factor_value : Generated.Constants.CONVERGENCE_DM_ERROR_FACTOR = 2 := by
  norm_num [Generated.Constants.CONVERGENCE_DM_ERROR_FACTOR]
theorem dm_element_factor_value : Generated.Constants.CONVERGENCE_DM_ELEMENT_FACTOR = 15 := by
  norm_num [Generated.Constants.CONVERGENCE_DM_ELEMENT_FACTOR]
theorem diis_factor_value : Generated.Constants.CONVERGENCE_DIIS_FACTOR = 50 := by
  norm_num [Generated.Constants.CONVERGENCE_DIIS_FACTOR]
theorem dm_error_factor_tied :
    (ScfControl.DM_ERROR_FACTOR : ℚ) = Generated.Constants.CONVERGENCE_DM_ERROR_FACTOR := by
  norm_num [ScfControl.DM_ERROR_FACTOR, Generated.Constants.CONVERGENCE_DM_ERROR_FACTOR]
theorem dm_element_factor_tied :
    (ScfControl.DM_ELEMENT_FACTOR : ℚ) = Generated.Constants.CONVERGENCE_DM_ELEMENT_FACTOR := by
  norm_num [ScfControl.DM_ELEMENT_FACTOR, Generated.Constants.CONVERGENCE_DM_ELEMENT_FACTOR]
theorem diis_factor_tied :
    (ScfControl.DIIS_FACTOR : ℚ) = Generated.Constants.CONVERGENCE_DIIS_FACTOR := by
  norm_num [ScfControl.DIIS_FACTOR, Generated.Constants.CONVERGENCE_DIIS_FACTOR]
/-- the literals `2.0 / 15.0 / 50.0` used by the model `getErrorMol` are these factors -/
theorem model_literals_tied :
    ((2.0 : ℚ) = Generated.Constants.CONVERGENCE_DM_ERROR_FACTOR) ∧
    ((15.0 : ℚ) = Generated.Constants.CONVERGENCE_DM_ELEMENT_FACTOR) ∧
    ((50.0 : ℚ) = Generated.Constants.CONVERGENCE_DIIS_FACTOR) := by
  refine ⟨?_, ?_, ?_⟩ <;>
    norm_num [Generated.Constants.CONVERGENCE_DM_ERROR_FACTOR,
      Generated.Constants.CONVERGENCE_DM_ELEMENT_FACTOR, Generated.Constants.CONVERGENCE_DIIS_FACTOR]
/-- `SP2_EPS_FLOAT64_MAX/MIN` are the float64 roundings of the decimal literals of `clampEps` -/
theorem sp2_eps_tied :
    |Generated.Constants.SP2_EPS_FLOAT64_MAX - (1.0e-3 : ℚ)| < 1 / 10^18 ∧
    |Generated.Constants.SP2_EPS_FLOAT64_MIN - (1.0e-7 : ℚ)| < 1 / 10^22 := by
  constructor <;>
    (rw [abs_lt]; constructor <;>
      norm_num [Generated.Constants.SP2_EPS_FLOAT64_MAX, Generated.Constants.SP2_EPS_FLOAT64_MIN])
theorem sp2_max_iter_value : Generated.Constants.SP2_MAX_ITER = 200 := by decide
theorem sp2_max_iter_tied : SP2Spec.SP2_MAX_ITER = Generated.Constants.SP2_MAX_ITER := by decide
theorem padding_shift_constants :
    Generated.Constants.PADDING_EIGENSHIFT_START_FACTOR = 1 ∧
    0 < Generated.Constants.PADDING_EIGENSHIFT_INCREMENT := by
  constructor <;>
    norm_num [Generated.Constants.PADDING_EIGENSHIFT_START_FACTOR,
      Generated.Constants.PADDING_EIGENSHIFT_INCREMENT]

/-! ## 1. bookkeeping of the SCF loop, for arbitrary kernels -/
section Bookkeeping
variable {K : Type} [Field K] [LinearOrder K] [IsStrictOrderedRing K] {γ σ : Type}

/-- **Truthful flag.**  Whatever the kernels do: a molecule returned as converged by the loop
    (any start index, any cap) carries errors that were evaluated on *the state that is returned*
    (`m.s`, i.e. its `P`, `Pold`, … rows): the energy of that state, `‖P−Pold‖` of that state, and
    they pass `|ΔE| ≤ eps`, `dm_err ≤ 2 eps`, `dm_elem ≤ 15 eps`, `diis ≤ 50 eps` (when supplied).
    In particular its rows were not touched after the iteration in which the tests passed. -/
theorem flag_truthful (Kn : Kernels γ σ K) (eps : K) (g : γ) (ss : List σ) (fuel k0 : Nat)
    (m : Mol σ K) (hm : m ∈ (loop Kn (fun x => |x|) eps fuel k0 (initState Kn g ss)).mols)
    (hconv : m.active = false) :
    m.eNew = Kn.energy m.s ∧ m.err = Kn.energy m.s - m.eOld ∧ |m.err| ≤ eps ∧
    m.dm = Kn.dmErr m.s ∧ m.dm ≤ 2 * eps ∧
    m.elem = Kn.elemErr m.s ∧ m.elem ≤ 15 * eps ∧
    (∀ d, Kn.diisErr m.s = some d → d ≤ 50 * eps) := by
  have h := loop_forall Kn (fun x => |x|) eps (Truthful Kn eps)
    (fun k cand m hm => updMol_truthful Kn eps k cand m hm) fuel k0 _
    (initState_truthful Kn eps g ss) m hm hconv
  obtain ⟨h1, h2, h3, h4, h5, h6, h7, h8⟩ := h
  exact ⟨h1, by rw [h2, h1], h5, h3, h6, h4, h7, h8⟩

/-- `flag_truthful` for the three modelled solvers -/
theorem flag_truthful_forward0 (Kn : Kernels γ σ K) (eps : K) (g : γ) (ss : List σ)
    (m : Mol σ K) (hm : m ∈ (scfForward0 Kn (fun x => |x|) eps g ss).mols) (hconv : m.active = false) :
    |Kn.energy m.s - m.eOld| ≤ eps ∧ Kn.dmErr m.s ≤ 2 * eps ∧ Kn.elemErr m.s ≤ 15 * eps ∧
    (∀ d, Kn.diisErr m.s = some d → d ≤ 50 * eps) := by
  obtain ⟨-, h2, h3, h4, h5, h6, h7, h8⟩ := flag_truthful Kn eps g ss _ _ m hm hconv
  exact ⟨h2 ▸ h3, h4 ▸ h5, h6 ▸ h7, h8⟩

theorem flag_truthful_forward1 (Kn : Kernels γ σ K) (eps : K) (g : γ) (ss : List σ)
    (m : Mol σ K) (hm : m ∈ (scfForward1 Kn (fun x => |x|) eps g ss).mols) (hconv : m.active = false) :
    |Kn.energy m.s - m.eOld| ≤ eps ∧ Kn.dmErr m.s ≤ 2 * eps ∧ Kn.elemErr m.s ≤ 15 * eps ∧
    (∀ d, Kn.diisErr m.s = some d → d ≤ 50 * eps) := by
  obtain ⟨-, h2, h3, h4, h5, h6, h7, h8⟩ := flag_truthful Kn eps g ss _ _ m hm hconv
  exact ⟨h2 ▸ h3, h4 ▸ h5, h6 ▸ h7, h8⟩

theorem flag_truthful_forward2 (Kn : Kernels γ σ K) (eps : K) (g : γ) (ss : List σ)
    (m : Mol σ K) (hm : m ∈ (scfForward2 Kn (fun x => |x|) eps g ss).mols) (hconv : m.active = false) :
    |Kn.energy m.s - m.eOld| ≤ eps ∧ Kn.dmErr m.s ≤ 2 * eps ∧ Kn.elemErr m.s ≤ 15 * eps ∧
    (∀ d, Kn.diisErr m.s = some d → d ≤ 50 * eps) := by
  obtain ⟨-, h2, h3, h4, h5, h6, h7, h8⟩ := flag_truthful Kn eps g ss _ _ m hm hconv
  exact ⟨h2 ▸ h3, h4 ▸ h5, h6 ▸ h7, h8⟩

/-- **Sticky.**  Once molecule `i` is converged after `n` bodies, its whole record — state rows
    (`P`…), energies, stored errors, flag — is identical after `n + d` bodies, whatever the kernels
    propose in between (the flag of an inactive molecule *is* recomputed by `get_error`, from stored
    errors that nobody overwrites). -/
theorem flag_sticky (Kn : Kernels γ σ K) (eps : K) (g : γ) (ss : List σ) (k0 n d i : Nat)
    (m : Mol σ K)
    (hi : (runN Kn (fun x => |x|) eps k0 n (initState Kn g ss)).mols[i]? = some m)
    (hconv : m.active = false) :
    (runN Kn (fun x => |x|) eps k0 (n + d) (initState Kn g ss)).mols[i]? = some m := by
  rw [runN_add]
  exact runN_frozen Kn eps _ _ i m
    (runN_truthful Kn eps k0 _ (initState_truthful Kn eps g ss) n) hi hconv d

/-- … and the record returned by the loop (with its `break`) is that frozen record. -/
theorem flag_sticky_returned (Kn : Kernels γ σ K) (eps : K) (g : γ) (ss : List σ)
    (fuel k0 n i : Nat) (hn : n ≤ fuel) (m : Mol σ K)
    (hi : (runN Kn (fun x => |x|) eps k0 n (initState Kn g ss)).mols[i]? = some m)
    (hconv : m.active = false) :
    (loop Kn (fun x => |x|) eps fuel k0 (initState Kn g ss)).mols[i]? = some m := by
  obtain ⟨j, hj, he, hx⟩ := loop_eq_runN Kn (fun x => |x|) eps fuel k0 (initState Kn g ss)
  rw [he]
  by_cases hnj : n ≤ j
  · obtain ⟨d, rfl⟩ := Nat.exists_eq_add_of_le hnj
    exact flag_sticky Kn eps g ss k0 n d i m hi hconv
  · have hjn : j < n := Nat.lt_of_not_le hnj
    have hall : allConverged (runN Kn (fun x => |x|) eps k0 j (initState Kn g ss)).mols = true := by
      rcases hx with hx | hx
      · omega
      · exact hx
    obtain ⟨d, rfl⟩ := Nat.exists_eq_add_of_le (Nat.le_of_lt hjn)
    -- record `i` exists at `j` (lengths agree) and is converged there, hence frozen up to `j + d`
    have hlen : i < (runN Kn (fun x => |x|) eps k0 j (initState Kn g ss)).mols.length := by
      have h1 := (List.getElem?_eq_some_iff.mp hi).1
      have hl : ∀ n, (runN Kn (fun x => |x|) eps k0 n (initState Kn g ss)).mols.length =
          (initState Kn g ss).mols.length := by
        intro n; induction n with
        | zero => rfl
        | succ n ih => show (body _ _ _ _ _).mols.length = _; rw [body_length, ih]
      rw [hl] at h1 ⊢; exact h1
    have hj' : (runN Kn (fun x => |x|) eps k0 j (initState Kn g ss)).mols[i]? =
        some ((runN Kn (fun x => |x|) eps k0 j (initState Kn g ss)).mols[i]) :=
      List.getElem?_eq_getElem hlen
    have hact : ((runN Kn (fun x => |x|) eps k0 j (initState Kn g ss)).mols[i]).active = false := by
      have := List.all_eq_true.mp hall _ (List.getElem_mem hlen)
      simpa using this
    have := flag_sticky Kn eps g ss k0 j d i _ hj' hact
    rw [hi] at this
    rw [hj']; exact this.symm

/-- **Failure is flagged.**  After at least one body, for every molecule the returned flag is
    `True` exactly when one of the *stored* errors exceeds its threshold; the stored `err` is that
    of the last body in which the molecule was active.  So a molecule whose last evaluated errors
    exceed a threshold is returned as not converged — in a linear order, see
    `unordered_errors_reported_converged` for NaN. -/
theorem not_converged_reported (Kn : Kernels γ σ K) (eps : K) (fuel k0 : Nat)
    (st : State γ σ K) (m : Mol σ K) (hm : m ∈ (loop Kn (fun x => |x|) eps (fuel+1) k0 st).mols) :
    m.active = true ↔
      (eps < |m.err| ∨ 2 * eps < m.dm ∨ 15 * eps < m.elem ∨
        ∃ d, Kn.diisErr m.s = some d ∧ 50 * eps < d) := by
  have h : Reported Kn eps m :=
    loop_after_body Kn (fun x => |x|) eps (Reported Kn eps)
      (fun k cand m => updMol_reported Kn eps k cand m) fuel k0 st m hm
  unfold Reported Passed at h
  constructor
  · intro ha
    by_contra hne
    simp only [not_or, not_lt, not_exists, not_and] at hne
    have := h.2 ⟨hne.1, hne.2.1, hne.2.2.1, hne.2.2.2⟩
    rw [ha] at this; cases this
  · intro hbad
    by_contra hna
    have hna' : m.active = false := by simpa using hna
    obtain ⟨h1, h2, h3, h4⟩ := h.1 hna'
    rcases hbad with hb | hb | hb | ⟨d, hd, hb⟩
    · exact absurd h1 (not_le.mpr hb)
    · exact absurd h2 (not_le.mpr hb)
    · exact absurd h3 (not_le.mpr hb)
    · exact absurd (h4 d hd) (not_le.mpr hb)

/-- the cap is only reached with somebody unconverged, and then `scf_loop` warns -/
theorem cap_or_all_converged (Kn : Kernels γ σ K) (eps : K) (fuel k0 : Nat) (st : State γ σ K) :
    warns (loop Kn (fun x => |x|) eps (fuel+1) k0 st) = false ∨
    (loop Kn (fun x => |x|) eps (fuel+1) k0 st).iters = st.iters + (fuel+1) := by
  rcases loop_exit Kn (fun x => |x|) eps fuel k0 st with h | h
  · left
    unfold warns finalFlags
    rw [Bool.eq_false_iff]
    intro hw
    rw [List.any_eq_true] at hw
    obtain ⟨b, hb, hb'⟩ := hw
    obtain ⟨m, hm, rfl⟩ := List.mem_map.mp hb
    have := List.all_eq_true.mp h m hm
    simp only [id] at hb'
    simp [hb'] at this
  · right; exact h

/-- **Bounded.**  `scf_forward0` (and the Pulay loop) execute at most `MAX_ITER + 1` bodies — the
    Python is `range(MAX_ITER + 1)`, one more than the warning text "after MAX_ITER iterations"
    says — i.e. at most 1001 calls of each kernel, and the last write to any molecule happens in a
    body with index `≤ MAX_ITER`. -/
theorem loop_bounded (Kn : Kernels γ σ K) (eps : K) (g : γ) (ss : List σ) :
    (scfForward0 Kn (fun x => |x|) eps g ss).iters ≤ Generated.Constants.MAX_ITER + 1 ∧
    ∀ m ∈ (scfForward0 Kn (fun x => |x|) eps g ss).mols, m.lastIt ≤ Generated.Constants.MAX_ITER := by
  rw [← max_iter_tied]
  constructor
  · have := loop_iters_le Kn (fun x => |x|) eps (ScfControl.MAX_ITER + 1) 0 (initState Kn g ss)
    simpa [scfForward0, initState] using this
  · intro m hm
    have := loop_lastIt Kn (fun x => |x|) eps ScfControl.MAX_ITER 0 (initState Kn g ss)
      (initState_lastIt Kn g ss) m hm
    simpa using this

/-- `scf_forward1` is `range(1, MAX_ITER + 1)`: at most `MAX_ITER` bodies. -/
theorem loop_bounded_forward1 (Kn : Kernels γ σ K) (eps : K) (g : γ) (ss : List σ) :
    (scfForward1 Kn (fun x => |x|) eps g ss).iters ≤ Generated.Constants.MAX_ITER := by
  rw [← max_iter_tied]
  have := loop_iters_le Kn (fun x => |x|) eps ScfControl.MAX_ITER 1 (initState Kn g ss)
  simpa [scfForward1, initState] using this

end Bookkeeping

/-! ## 2. the stale `dm_err` of `get_error` -/

/-- the witness: active, `Eelec_new − Eelec = 1`, stored `dm_err = 1`, fresh `‖P−Pold‖ = 0` -/
def staleMol : MolIn ℚ :=
  { active := true, eNew := 1, eOld := 0, errStored := 1, dmFresh := 0,
    elemFresh := 0, dmStored := 1, elemStored := 1, diis := none }

/-- **Witness.**  An active molecule whose energy test fails: `get_error` does not recompute its
    density errors and compares the stored ones (`dm = 1` from an earlier call although the fresh
    value would be `0`). -/
theorem stale_dm_error_witness :
    staleMol.active = true ∧
      (getErrorMol (fun x => |x|) (1/1000) staleMol).fresh = false ∧
      (getErrorMol (fun x => |x|) (1/1000) staleMol).dm = staleMol.dmStored ∧
      staleMol.dmStored ≠ staleMol.dmFresh ∧
      (getErrorMol (fun x => |x|) (1/1000) staleMol).notconv = true := by
  have hbad : (1/1000 : ℚ) <
      |if staleMol.active then staleMol.eNew - staleMol.eOld else staleMol.errStored| := by
    norm_num [staleMol]
  have h := getErrorMol_stale (fun x : ℚ => |x|) (1/1000) staleMol hbad
  exact ⟨rfl, h.1, h.2.1, by norm_num [staleMol], h.2.2.2⟩

/-- **Harmless.**  Whenever the energy (or DIIS) test fails, the stale comparison cannot matter:
    the molecule is returned not-converged regardless (any scalar type). -/
theorem stale_only_when_not_converged {α : Type} [Sub α] [Mul α] [OfScientific α] [LT α]
    [DecidableLT α] (abs : α → α) (eps : α) (m : MolIn α) (hact : m.active = true)
    (hstale : (getErrorMol abs eps m).fresh = false) :
    (getErrorMol abs eps m).notconv = true := by
  by_contra h
  have h' : (getErrorMol abs eps m).notconv = false := by simpa using h
  have := (getErrorMol_fresh abs eps m hact h').1
  rw [hstale] at this; cases this

/-- **A molecule is only marked converged in a call in which its density errors were freshly
    computed** (any scalar type, NaN included): then the stored errors are exactly the fresh
    ones and the stored energy error is `Eelec_new − Eelec` of this call. -/
theorem converged_implies_fresh {α : Type} [Sub α] [Mul α] [OfScientific α] [LT α]
    [DecidableLT α] (abs : α → α) (eps : α) (m : MolIn α) (hact : m.active = true)
    (hconv : (getErrorMol abs eps m).notconv = false) :
    (getErrorMol abs eps m).fresh = true ∧ (getErrorMol abs eps m).dm = m.dmFresh ∧
    (getErrorMol abs eps m).elem = m.elemFresh ∧ (getErrorMol abs eps m).err = m.eNew - m.eOld :=
  getErrorMol_fresh abs eps m hact hconv

/-- **Finding (NaN).**  The test of `get_error` is written with `>`; it reports *converged*
    whenever no comparison is `True`.  For a scalar type with unordered elements (IEEE NaN:
    every `<` is false) this means: energy NaN ⇒ `bad = False`, density errors NaN ⇒ not bad ⇒
    the molecule is returned **converged**.  Stated for any scalar type; the hypotheses are what
    NaN satisfies (and what, in a linear order, would mean `≤`).  Reproduced on the real
    `get_error` (driver op `get_error`, `Eelec_new = nan`). -/
theorem unordered_errors_reported_converged {α : Type} [Sub α] [Mul α] [OfScientific α] [LT α]
    [DecidableLT α] (abs : α → α) (eps : α) (m : MolIn α) (hact : m.active = true)
    (hdiis : m.diis = none)
    (hE : ¬ eps < abs (m.eNew - m.eOld)) (hdm : ¬ eps * 2.0 < m.dmFresh)
    (hel : ¬ eps * 15.0 < m.elemFresh) :
    (getErrorMol abs eps m).notconv = false := by
  rcases m with ⟨act, eN, eO, eS, dF, elF, dS, elS, diis⟩
  simp only at hact hdiis hE hdm hel
  subst hact hdiis
  simp [getErrorMol, hE, hdm, hel]

/-! ## 3. aufbau density -/
section Aufbau
open Matrix
variable {n : Type*} [Fintype n] [DecidableEq n]

/-- occupation numbers `1/0` in the MO basis -/
def occDiag (occ : Finset n) : Matrix n n ℝ := diagonal (fun i => if i ∈ occ then 1 else 0)

/-- `P = 2 C_occ C_occᵀ` (`sym_eig_trunc`: `2.0 * matmul(v[:, :nocc], v[:, :nocc].T)`) -/
def aufbauP (C : Matrix n n ℝ) (occ : Finset n) : Matrix n n ℝ := (2:ℝ) • (C * occDiag occ * Cᵀ)

theorem aufbauP_apply (C : Matrix n n ℝ) (occ : Finset n) (i j : n) :
    aufbauP C occ i j = 2 * ∑ k ∈ occ, C i k * C j k := by
  unfold aufbauP occDiag
  rw [Matrix.smul_apply, smul_eq_mul, Matrix.mul_apply]
  congr 1
  simp only [Matrix.mul_diagonal, Matrix.transpose_apply, mul_ite, ite_mul, mul_one, mul_zero,
    zero_mul]
  rw [Finset.sum_ite_mem, Finset.univ_inter]

theorem occDiag_mul_self (occ : Finset n) : occDiag occ * occDiag occ = occDiag occ := by
  unfold occDiag
  rw [diagonal_mul_diagonal]
  congr 1
  funext i
  by_cases h : i ∈ occ <;> simp [h]

theorem occDiag_trace (occ : Finset n) : trace (occDiag occ) = occ.card := by
  unfold occDiag
  rw [trace_diagonal]
  simp

/-- **Aufbau density.**  For orthonormal eigenvectors `CᵀC = 1`, `F C = C diag(e)`, and any set
    `occ` of occupied orbitals, `P = 2 C_occ C_occᵀ` is symmetric, `tr P = 2 n_occ`,
    `(P/2)² = P/2`, and `F P = P F`. -/
theorem aufbau_density (C F : Matrix n n ℝ) (e : n → ℝ) (occ : Finset n)
    (hC : Cᵀ * C = 1) (hF : F * C = C * diagonal e) :
    (aufbauP C occ)ᵀ = aufbauP C occ ∧
    trace (aufbauP C occ) = 2 * occ.card ∧
    ((1/2 : ℝ) • aufbauP C occ) * ((1/2 : ℝ) • aufbauP C occ) = (1/2 : ℝ) • aufbauP C occ ∧
    F * aufbauP C occ = aufbauP C occ * F := by
  have hC' : C * Cᵀ = 1 := mul_eq_one_comm.mp hC
  have hD : (occDiag occ)ᵀ = occDiag occ := by unfold occDiag; exact diagonal_transpose _
  have hhalf : (1/2 : ℝ) • aufbauP C occ = C * occDiag occ * Cᵀ := by
    unfold aufbauP; rw [smul_smul]; norm_num
  have hFe : F = C * diagonal e * Cᵀ := by
    calc F = F * (C * Cᵀ) := by rw [hC', Matrix.mul_one]
      _ = C * diagonal e * Cᵀ := by rw [← Matrix.mul_assoc, hF]
  have hED : diagonal e * occDiag occ = occDiag occ * diagonal e := by
    unfold occDiag
    rw [diagonal_mul_diagonal, diagonal_mul_diagonal]
    congr 1; funext i; exact mul_comm _ _
  refine ⟨?_, ?_, ?_, ?_⟩
  · unfold aufbauP
    rw [transpose_smul, transpose_mul, transpose_mul, transpose_transpose, hD, Matrix.mul_assoc]
  · unfold aufbauP
    rw [trace_smul, trace_mul_comm, ← Matrix.mul_assoc, hC, Matrix.one_mul, occDiag_trace,
      smul_eq_mul]
  · rw [hhalf]
    calc C * occDiag occ * Cᵀ * (C * occDiag occ * Cᵀ)
        = C * occDiag occ * (Cᵀ * C) * occDiag occ * Cᵀ := by simp only [Matrix.mul_assoc]
      _ = C * (occDiag occ * occDiag occ) * Cᵀ := by rw [hC, Matrix.mul_one]; simp only [Matrix.mul_assoc]
      _ = C * occDiag occ * Cᵀ := by rw [occDiag_mul_self]
  · unfold aufbauP
    rw [Matrix.mul_smul, Matrix.smul_mul]
    congr 1
    rw [hFe]
    calc C * diagonal e * Cᵀ * (C * occDiag occ * Cᵀ)
        = C * diagonal e * (Cᵀ * C) * occDiag occ * Cᵀ := by simp only [Matrix.mul_assoc]
      _ = C * (diagonal e * occDiag occ) * Cᵀ := by rw [hC, Matrix.mul_one]; simp only [Matrix.mul_assoc]
      _ = C * (occDiag occ * diagonal e) * Cᵀ := by rw [hED]
      _ = C * occDiag occ * (Cᵀ * C) * diagonal e * Cᵀ := by rw [hC, Matrix.mul_one]; simp only [Matrix.mul_assoc]
      _ = C * occDiag occ * Cᵀ * (C * diagonal e * Cᵀ) := by simp only [Matrix.mul_assoc]

/-- atomic charges `q_A = Z_A − Σ_{μ∈A} P_μμ` sum to `Σ Z − tr P` -/
theorem charges_sum {A : Type*} [Fintype A] [DecidableEq A] (atom : n → A) (Z : A → ℝ)
    (P : Matrix n n ℝ) :
    ∑ a, (Z a - ∑ μ ∈ Finset.univ.filter (fun μ => atom μ = a), P μ μ) = (∑ a, Z a) - trace P := by
  rw [Finset.sum_sub_distrib]
  congr 1
  unfold trace
  simp only [diag_apply]
  exact Finset.sum_fiberwise Finset.univ atom (fun μ => P μ μ)

/-- with `tr P = 2 n_occ = Σ Z − charge` the charges sum to the requested molecular charge -/
theorem charges_sum_aufbau {A : Type*} [Fintype A] [DecidableEq A] (atom : n → A) (Z : A → ℝ)
    (C F : Matrix n n ℝ) (e : n → ℝ) (occ : Finset n) (charge : ℝ)
    (hC : Cᵀ * C = 1) (hF : F * C = C * diagonal e)
    (hocc : 2 * (occ.card : ℝ) = (∑ a, Z a) - charge) :
    ∑ a, (Z a - ∑ μ ∈ Finset.univ.filter (fun μ => atom μ = a), aufbauP C occ μ μ) = charge := by
  rw [charges_sum, (aufbau_density C F e occ hC hF).2.1, hocc]; ring

end Aufbau

/-! ## 4. mixing -/
section Mixing
open Matrix
variable {n : Type*} [Fintype n] [DecidableEq n]

/-- **Affine mixing** `α P_old + (1−α) P_new` (`scf_forward0`, and the `cFock < 2` steps of the
    Pulay loop) preserves symmetry and trace exactly. -/
theorem mixing_preserves_symmetry_trace (α N : ℝ) (Pold Pnew : Matrix n n ℝ)
    (hso : Poldᵀ = Pold) (hsn : Pnewᵀ = Pnew) (hto : trace Pold = N) (htn : trace Pnew = N) :
    (α • Pold + (1 - α) • Pnew)ᵀ = α • Pold + (1 - α) • Pnew ∧
    trace (α • Pold + (1 - α) • Pnew) = N := by
  constructor
  · rw [transpose_add, transpose_smul, transpose_smul, hso, hsn]
  · rw [trace_add, trace_smul, trace_smul, hto, htn, smul_eq_mul, smul_eq_mul]; ring

/-- **Idempotency defect of the mixed density, exact.**  In any real algebra (`Q = P/2`,
    `Δ = Q_new − Q_old`, `Q_mix = α Q_old + (1−α) Q_new = Q_new − α Δ`):
    `Q_mix² − Q_mix = (Q_new² − Q_new) + α (Δ − Q_new Δ − Δ Q_new) + α² Δ²`. -/
theorem mixing_idempotency_defect {A : Type*} [Ring A] [Algebra ℝ A] (α : ℝ) (Qold Qnew : A) :
    (α • Qold + (1 - α) • Qnew) * (α • Qold + (1 - α) • Qnew) - (α • Qold + (1 - α) • Qnew) =
      (Qnew * Qnew - Qnew) +
      α • ((Qnew - Qold) - Qnew * (Qnew - Qold) - (Qnew - Qold) * Qnew) +
      (α * α) • ((Qnew - Qold) * (Qnew - Qold)) := by
  simp only [add_mul, mul_add, sub_mul, mul_sub, smul_mul_assoc, mul_smul_comm, smul_sub, smul_add,
    sub_smul, one_smul, smul_smul]
  module

/-- the symmetric form: convex combination of the two defects minus `α(1−α) Δ²` -/
theorem mixing_idempotency_defect_convex {A : Type*} [Ring A] [Algebra ℝ A] (α : ℝ) (Qold Qnew : A) :
    (α • Qold + (1 - α) • Qnew) * (α • Qold + (1 - α) • Qnew) - (α • Qold + (1 - α) • Qnew) =
      α • (Qold * Qold - Qold) + (1 - α) • (Qnew * Qnew - Qnew) -
      (α * (1 - α)) • ((Qnew - Qold) * (Qnew - Qold)) := by
  simp only [add_mul, mul_add, sub_mul, mul_sub, smul_mul_assoc, mul_smul_comm, smul_sub, smul_add,
    sub_smul, one_smul, smul_smul]
  module

/-- with `Q_new` idempotent (it comes out of a diagonalisation, `aufbau_density`) the defect of
    the returned mixed density is bounded by explicit multiples of `‖Δ‖`, in any submultiplicative
    norm: `‖Q_mix² − Q_mix‖ ≤ |α| (1 + 2‖Q_new‖) ‖Δ‖ + α² ‖Δ‖²`. -/
theorem mixing_idempotency_defect_bound {A : Type*} [NormedRing A] [NormedAlgebra ℝ A] (α : ℝ)
    (Qold Qnew : A) (hid : Qnew * Qnew = Qnew) :
    ‖(α • Qold + (1 - α) • Qnew) * (α • Qold + (1 - α) • Qnew) - (α • Qold + (1 - α) • Qnew)‖ ≤
      |α| * (1 + 2 * ‖Qnew‖) * ‖Qnew - Qold‖ + α * α * (‖Qnew - Qold‖ * ‖Qnew - Qold‖) := by
  rw [mixing_idempotency_defect, hid, sub_self, zero_add]
  set Δ := Qnew - Qold
  have h1 : ‖α • (Δ - Qnew * Δ - Δ * Qnew)‖ ≤ |α| * (1 + 2 * ‖Qnew‖) * ‖Δ‖ := by
    rw [norm_smul, Real.norm_eq_abs, mul_assoc]
    apply mul_le_mul_of_nonneg_left _ (abs_nonneg α)
    calc ‖Δ - Qnew * Δ - Δ * Qnew‖ ≤ ‖Δ - Qnew * Δ‖ + ‖Δ * Qnew‖ := norm_sub_le _ _
      _ ≤ (‖Δ‖ + ‖Qnew * Δ‖) + ‖Δ * Qnew‖ := by gcongr; exact norm_sub_le _ _
      _ ≤ (‖Δ‖ + ‖Qnew‖ * ‖Δ‖) + ‖Δ‖ * ‖Qnew‖ := by gcongr <;> exact norm_mul_le _ _
      _ = (1 + 2 * ‖Qnew‖) * ‖Δ‖ := by ring
  have h2 : ‖(α * α) • (Δ * Δ)‖ ≤ α * α * (‖Δ‖ * ‖Δ‖) := by
    rw [norm_smul, Real.norm_eq_abs, abs_mul_self]
    exact mul_le_mul_of_nonneg_left (norm_mul_le _ _) (mul_self_nonneg α)
  exact (norm_add_le _ _).trans (add_le_add h1 h2)

/-- **Commutator defect, exact.**  `P_new` commutes with the Fock matrix `F_old = h + G(P_old)` it
    was built from; for linear `G` the commutator of the returned mixed density with *its own* Fock
    matrix is linear in `Δ = P_new − P_old`:
    `[F(P_mix), P_mix] = −α [F_old, Δ] + (1−α) [G Δ, P_mix]`. -/
theorem mixing_commutator_defect (G : Matrix n n ℝ →ₗ[ℝ] Matrix n n ℝ) (h : Matrix n n ℝ) (α : ℝ)
    (Pold Pnew : Matrix n n ℝ) (hcomm : (h + G Pold) * Pnew = Pnew * (h + G Pold)) :
    let Pmix := α • Pold + (1 - α) • Pnew
    let Δ := Pnew - Pold
    (h + G Pmix) * Pmix - Pmix * (h + G Pmix) =
      -(α • ((h + G Pold) * Δ - Δ * (h + G Pold))) + (1 - α) • (G Δ * Pmix - Pmix * G Δ) := by
  intro Pmix Δ
  have hmix : Pmix = Pnew - α • Δ := by
    simp only [Pmix, Δ, smul_sub, sub_smul, one_smul]; abel
  have hG : G Pmix = G Pold + (1 - α) • G Δ := by
    have : Pmix = Pold + (1 - α) • Δ := by
      simp only [Pmix, Δ, smul_sub, sub_smul, one_smul]; abel
    rw [this, map_add, map_smul]
  have e1 : (h + G Pmix) * Pmix - Pmix * (h + G Pmix) =
      ((h + G Pold) * Pmix - Pmix * (h + G Pold)) + (1 - α) • (G Δ * Pmix - Pmix * G Δ) := by
    rw [hG]
    simp only [add_mul, mul_add, smul_mul_assoc, mul_smul_comm, smul_sub]
    abel
  have e2 : (h + G Pold) * Pmix - Pmix * (h + G Pold) =
      -(α • ((h + G Pold) * Δ - Δ * (h + G Pold))) := by
    rw [hmix]
    simp only [mul_sub, sub_mul, smul_mul_assoc, mul_smul_comm, smul_sub]
    rw [hcomm]
    abel
  rw [e1, e2]

end Mixing

/-! ## 5. SP2 -/
section SP2
open SP2Spec

/-- both SP2 branch maps send `[0,1]` into itself -/
theorem sp2_range (x : ℝ) (h0 : 0 ≤ x) (h1 : x ≤ 1) :
    (0 ≤ SP2Spec.sq x ∧ SP2Spec.sq x ≤ 1) ∧ (0 ≤ ex x ∧ ex x ≤ 1) := ⟨SP2Spec.sq_mem h0 h1, ex_mem h0 h1⟩

/-- both are monotone on `[0,1]` -/
theorem sp2_monotone (x y : ℝ) (h0 : 0 ≤ x) (hxy : x ≤ y) (h1 : y ≤ 1) :
    SP2Spec.sq x ≤ SP2Spec.sq y ∧ ex x ≤ ex y := ⟨SP2Spec.sq_mono h0 hxy, ex_mono h1 hxy⟩

/-- their fixed points are exactly `0` and `1` -/
theorem sp2_fixed_points (x : ℝ) : (SP2Spec.sq x = x ↔ x = 0 ∨ x = 1) ∧ (ex x = x ↔ x = 0 ∨ x = 1) :=
  ⟨SP2Spec.sq_fixed x, ex_fixed x⟩

/-- **Order preservation.**  After any number of loop bodies (whatever branches the trace
    criterion selects) the occupations are still in `[0,1]` and the order of any two of them is the
    order they had at the start. -/
theorem sp2_order_preserved (nocc : ℝ) (xs : List ℝ) (hx : ∀ x ∈ xs, 0 ≤ x ∧ x ≤ 1) (k : Nat) :
    let s := (iter rabs nocc)^[k] (init rabs nocc xs)
    s.x.length = xs.length ∧ (∀ x ∈ s.x, 0 ≤ x ∧ x ≤ 1) ∧
    ∀ i j, xs.getD i 0 ≤ xs.getD j 0 → s.x.getD i 0 ≤ s.x.getD j 0 := by
  have h : Reach nocc xs ((iter rabs nocc)^[k] (init rabs nocc xs)) := by
    induction k with
    | zero => exact reach_init nocc xs hx
    | succ k ih => rw [Function.iterate_succ_apply']; exact reach_iter ih
  exact ⟨h.len, h.unit, h.order⟩

/-- **SP2 = aufbau.**  If `SP2` (float64 rule, any user `eps` — it is clamped to `≤ 1e-3`) leaves
    its loop, then for the returned occupations `z` (diagonal of `a0` in the eigenbasis of `F`):
    they are in `[0,1]`; their idempotency defect `Σ z(1−z)` is `< 4 eps`; **exactly `nocc` of them
    exceed ½**; and that occupied set is closed upwards in the initial order
    (`x_i ≤ x_j`, `i` occupied ⇒ `j` occupied).  Since `x = (hN − λ)/(hN − h1)` decreases with the
    Fock eigenvalue `λ`, the occupied set consists of `nocc` lowest levels. -/
theorem sp2_is_aufbau (xs : List ℝ) (hx : ∀ x ∈ xs, 0 ≤ x ∧ x ≤ 1) (nocc : ℕ) (eps : ℝ)
    (fuel : ℕ) (s : St ℝ) (h : sp2Spectrum rabs eps (nocc : ℝ) fuel xs = (s, true)) :
    s.x.length = xs.length ∧ (∀ z ∈ s.x, 0 ≤ z ∧ z ≤ 1) ∧
    defect s.x < 4 * clampEps eps ∧
    nOccupied s.x = nocc ∧
    (∀ i j, xs.getD i 0 ≤ xs.getD j 0 → 1/2 < s.x.getD i 0 → 1/2 < s.x.getD j 0) := by
  unfold sp2Spectrum at h
  obtain ⟨s', hs', rfl, hstop⟩ := loop_true fuel _ s (reach_init (nocc:ℝ) xs hx) h
  have hr := reach_iter hs'
  have heps : clampEps eps ≤ 1/9 := le_trans (clampEps_le eps) (by norm_num)
  obtain ⟨hd, hc⟩ := stop_count hs' heps hstop
  exact ⟨hr.len, hr.unit, hd, hc, fun i j hij hi => lt_of_lt_of_le hi (hr.order i j hij)⟩

/-- **The stopping rule is never met** on: `a` filled levels, two *equal* occupations `h`
    straddling the Fermi level (`nocc = a + 1`), `b` empty levels — a degenerate HOMO/LUMO pair, or
    (before the padding shift of the F4 fix) the zero rows of a zero-padded batch.  For every
    threshold `eps ≤ 0.1`, every amount of fuel and any `h` (even outside `[0,1]`).  This is the
    witness of the former non-termination of the uncapped `while`. -/
theorem sp2_degenerate_never_stops (a b : ℕ) (h eps : ℝ) (heps : eps ≤ 0.1) (fuel : ℕ) :
    (loop rabs eps ((a + 1 : ℕ) : ℝ) fuel (init rabs ((a + 1 : ℕ) : ℝ) (deg a b h))).2 = false := by
  apply deg_never_stops a b eps heps fuel _ h rfl
  show |tr (deg a b h) - ((a + 1 : ℕ) : ℝ)| = _
  rw [tr_deg]; push_cast; congr 1; ring

/-- the same for the user-facing entry point: the clamp forces `eps ≤ 1e-3`, so *no* user
    threshold makes the rule fire on such a spectrum -/
theorem sp2_degenerate_never_stops_any_eps (a b : ℕ) (h eps : ℝ) (fuel : ℕ) :
    (sp2Spectrum rabs eps ((a + 1 : ℕ) : ℝ) fuel (deg a b h)).2 = false :=
  sp2_degenerate_never_stops a b h (clampEps eps)
    (le_trans (clampEps_le eps) (by norm_num)) fuel

/-- in the live (capped) `SP2`: on such a spectrum the loop is left through the cap after exactly
    `SP2_MAX_ITER` bodies, for every user threshold -/
theorem sp2_degenerate_hits_cap (a b : ℕ) (h eps : ℝ) :
    (sp2 rabs eps ((a + 1 : ℕ) : ℝ) (deg a b h)).2 = false ∧
    (sp2 rabs eps ((a + 1 : ℕ) : ℝ) (deg a b h)).1.k = Generated.Constants.SP2_MAX_ITER := by
  have h1 := sp2_degenerate_never_stops_any_eps a b h eps SP2_MAX_ITER
  refine ⟨h1, ?_⟩
  have := loop_false_k rabs (clampEps eps) ((a + 1 : ℕ) : ℝ) SP2_MAX_ITER _ h1
  rw [← sp2_max_iter_tied]
  simpa [sp2, sp2Spectrum, init] using this

/-- padding orbitals after the `hN` shift of `make_Pnew_factory` have scaled occupation exactly
    `0`; they stay at exactly `0` in every iteration (and are therefore never among the occupied) -/
theorem sp2_padding_stays_empty (nocc : ℝ) (xs : List ℝ) (i k : ℕ) (h : xs.getD i 0 = 0) :
    ((iter rabs nocc)^[k] (init rabs nocc xs)).x.getD i 0 = 0 := by
  induction k with
  | zero => exact h
  | succ k ih => rw [Function.iterate_succ_apply']; exact step_zero nocc _ i ih

/-- with an iteration cap the model returns within `fuel` bodies (any scalar type) -/
theorem sp2_capped_terminates {α : Type} [Add α] [Sub α] [Mul α] [Div α] [OfScientific α]
    [OfNat α 0] [LT α] [DecidableLT α] (abs : α → α) (eps nocc : α) (fuel : ℕ) (xs : List α) :
    (sp2Spectrum abs eps nocc fuel xs).1.k ≤ fuel := by
  have := loop_k_le abs (clampEps eps) nocc fuel (init abs nocc xs)
  simpa [sp2Spectrum, init] using this

/-- the live `SP2` executes at most `SP2_MAX_ITER` bodies -/
theorem sp2_live_bounded {α : Type} [Add α] [Sub α] [Mul α] [Div α] [OfScientific α]
    [OfNat α 0] [LT α] [DecidableLT α] (abs : α → α) (eps nocc : α) (xs : List α) :
    (sp2 abs eps nocc xs).1.k ≤ Generated.Constants.SP2_MAX_ITER := by
  rw [← sp2_max_iter_tied]; exact sp2_capped_terminates abs eps nocc SP2_MAX_ITER xs

end SP2

/-! ## 6. padding shift -/
section Padding
open Finset
variable {n : Type*} [Fintype n] [DecidableEq n]

/-- any upper bound `hN` of the Gershgorin discs bounds every eigenvalue (B_22) -/
theorem eigenvalue_le_gershgorin (A : Matrix n n ℝ) (hN : ℝ)
    (hbound : ∀ k, A k k + ∑ j ∈ univ.erase k, |A k j| ≤ hN)
    {μ : ℝ} (hμ : Module.End.HasEigenvalue (Matrix.toLin' A) μ) : μ ≤ hN := by
  obtain ⟨k, hk⟩ := eigenvalue_mem_ball hμ
  rw [Metric.mem_closedBall, Real.dist_eq] at hk
  have h1 : μ - A k k ≤ ∑ j ∈ univ.erase k, ‖A k j‖ := (le_abs_self _).trans hk
  have h2 : ∑ j ∈ univ.erase k, ‖A k j‖ = ∑ j ∈ univ.erase k, |A k j| := by
    apply sum_congr rfl; intro j _; exact Real.norm_eq_abs _
  linarith [hbound k]

/-- **Padding shift.**  `sym_eig_trunc` puts `mult_j * dE + hN` on the `j`-th padding diagonal
    entry, `mult_j = START + (j+1)·dx ≥ 1`, `dE = hN − h1`.  If `hN` bounds the Gershgorin discs of
    the physical block and `dE > 0`, every physical eigenvalue is *strictly* below every padding
    entry, so (the padded matrix being block diagonal and `eigh` sorting ascending) padding
    orbitals come last and are never occupied.  `dE = 0` is the forced exception: then the padding
    entry equals `hN`, which may tie with a physical eigenvalue. -/
theorem padding_shift_gershgorin (A : Matrix n n ℝ) (hN dE mult : ℝ)
    (hbound : ∀ k, A k k + ∑ j ∈ univ.erase k, |A k j| ≤ hN) (hdE : 0 < dE) (hmult : 0 < mult)
    {μ : ℝ} (hμ : Module.End.HasEigenvalue (Matrix.toLin' A) μ) : μ < mult * dE + hN := by
  have := eigenvalue_le_gershgorin A hN hbound hμ
  have : 0 < mult * dE := mul_pos hmult hdE
  linarith

/-- the multipliers of the code are `≥ 1 > 0` and strictly increasing, so with `dE > 0` the
    padding entries are pairwise distinct as well -/
theorem padding_multiplier_pos (j : ℕ) :
    (0:ℚ) < Generated.Constants.PADDING_EIGENSHIFT_START_FACTOR +
      ((j:ℚ) + 1) * Generated.Constants.PADDING_EIGENSHIFT_INCREMENT := by
  have h := padding_shift_constants
  have : (0:ℚ) ≤ ((j:ℚ) + 1) * Generated.Constants.PADDING_EIGENSHIFT_INCREMENT :=
    mul_nonneg (by positivity) (le_of_lt h.2)
  rw [h.1]; linarith

end Padding

/-! ## non-vacuity -/
section Examples
open SP2Spec

/-- a two-molecule batch with a toy kernel: `s` is `(P, Pold)` as two rationals, the kernel
    halves `P` (fixed point `0`).  Molecule 0 starts at the fixed point and is converged after
    the first body, molecule 1 needs more bodies; both flags end `False` and the hypotheses of
    `flag_truthful` are met non-trivially. -/
def toyK : Kernels Unit (ℚ × ℚ) ℚ where
  step := fun _ g ms => (g, fun i => match ms[i]? with
    | some m => (m.s.1 / 2, m.s.1)
    | none => (0, 0))
  energy := fun s => s.1
  dmErr := fun s => |s.1 - s.2|
  elemErr := fun s => |s.1 - s.2|
  diisErr := fun _ => none

example : finalFlags (loop toyK (fun x => |x|) (1/100) 20 0 (initState toyK () [(0, 0), (1, 1)]))
    = [false, false] := by decide +kernel
example : (loop toyK (fun x => |x|) (1/100) 20 0 (initState toyK () [(0, 0), (1, 1)])).iters = 7 := by
  decide +kernel
/-- with a cap of 3 bodies molecule 1 is reported not converged and `scf_loop` warns -/
example : finalFlags (loop toyK (fun x => |x|) (1/100) 3 0 (initState toyK () [(0, 0), (1, 1)]))
    = [false, true] ∧
    warns (loop toyK (fun x => |x|) (1/100) 3 0 (initState toyK () [(0, 0), (1, 1)])) = true := by
  decide +kernel

/-- `sp2_is_aufbau` is not vacuous: a non-degenerate 3-level spectrum, one occupied level -/
example : (sp2Spectrum (fun x : ℚ => |x|) (1/1000) 1 50 [1, 7/10, 0]).2 = true := by
  decide +kernel
/-- the degenerate pair at `ℚ`, evaluated: 12 bodies, stopping rule never met -/
example : (sp2Spectrum (fun x : ℚ => |x|) (1/1000) 1 12 [1/2, 1/2]).2 = false := by decide +kernel

/-- `aufbau_density` hypotheses are satisfiable: `C` a rotation, `F = C diag(e) Cᵀ` -/
example : ∃ (C F : Matrix (Fin 2) (Fin 2) ℝ) (e : Fin 2 → ℝ),
    Matrix.transpose C * C = 1 ∧ F * C = C * Matrix.diagonal e ∧ C ≠ 1 := by
  refine ⟨!![0, 1; 1, 0], !![2, 0; 0, 1], ![1, 2], ?_, ?_, ?_⟩
  · ext i j; fin_cases i <;> fin_cases j <;> simp [Matrix.mul_apply, Fin.sum_univ_two]
  · ext i j; fin_cases i <;> fin_cases j <;> simp [Matrix.mul_apply, Fin.sum_univ_two, Matrix.diagonal]
  · intro h
    have := congrFun (congrFun h 0) 0
    simp at this

/-- `padding_shift_gershgorin`: a 1×1 physical block `[-3]` has the eigenvalue `-3` -/
example : ∃ (A : Matrix (Fin 1) (Fin 1) ℝ) (μ : ℝ),
    Module.End.HasEigenvalue (Matrix.toLin' A) μ ∧ ∀ k, A k k + ∑ j ∈ Finset.univ.erase k, |A k j| ≤ 0 := by
  refine ⟨!![-3], -3, ?_, ?_⟩
  · apply Module.End.hasEigenvalue_of_hasEigenvector (x := ![1])
    refine ⟨?_, ?_⟩
    · rw [Module.End.mem_eigenspace_iff]
      ext i; fin_cases i; simp [Matrix.toLin'_apply, Matrix.mulVec, dotProduct]
    · intro h
      have := congrFun h 0
      simp at this
  · intro k; fin_cases k; simp

end Examples

end C03
