import PyseqmVerif.Generated.Constants
import Mathlib.Tactic.NormNum
/-!
# Constants tie (C06, C19): the overlap cut-off lies beyond the distance range of the properties

`hcore.py` drops the two-centre resonance (overlap) terms of a pair with `rij > overlap_cutoff`, `rij` in bohr.  C06 quantifies over distances up to
15 Å and C19's additivity envelope is probed up to 30 Å; the theorem says the cut-off as it stands in the source (regenerated every run, exact value of
the float) is at least 15 Å / a0 and at most 25 Å / a0: no term is dropped inside C06's range, and the place where the (exponentially small) overlap
terms are cut is inside the range the C19 probes cross.  A unit slip (the value written in Ångström, seeded C06_E) fails here.
-/
namespace ConstTie
open Generated.Constants

theorem overlap_cutoff_beyond_c06_range : (15 : ℚ) / a0 ≤ overlap_cutoff := by
  unfold a0 overlap_cutoff
  norm_num

theorem overlap_cutoff_inside_c19_probe_range : overlap_cutoff ≤ (25 : ℚ) / a0 := by
  unfold a0 overlap_cutoff
  norm_num

end ConstTie
