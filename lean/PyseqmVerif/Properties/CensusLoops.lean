import PyseqmVerif.Generated.LoopCensus
/-!
# Static censuses regenerated from the live source on every run (AST walks, `vf/translate/gen.py`)

* `Generated.LoopCensus.whileLoops`: every `while` loop on the SCF / purification / response / Davidson / MD path with a
  syntactic judgement `capped` (its test or a guarded `break`/`raise`/`return` in its body compares against a bound).
  C03 ("every call returns in bounded time"): no uncapped `while` may exist on that path.  The historical `SP2` loop
  (`while notconverged.any()`) is exactly what this obligation rejects.
* `Generated.Guards.raises`: every `raise` (function, exception class) in the modules that hold the documented input guards.
  C18: each documented precondition has its guard statement in the expected function.

These are source-shape dependent ties (DESIGN §2.6): if they break while every behavioural tie and probe passes, the verdict is
`VIOLATION … no-failing-input-found` naming the obligation.
-/

namespace Census
open Generated

/-- no `while` loop on the SCF/response/MD path is syntactically unbounded -/
theorem all_while_loops_capped : ∀ l ∈ LoopCensus.whileLoops, l.capped = true := by decide

/-- the purification loop is in the census (so that the statement above is about it) -/
theorem sp2_loop_in_census : ∃ l ∈ LoopCensus.whileLoops, l.func = "SP2" ∧ l.capped = true := by decide

end Census
