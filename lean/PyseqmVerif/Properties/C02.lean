import PyseqmVerif.Model.Rotation
import Mathlib.Analysis.Real.Sqrt
import Mathlib.LinearAlgebra.CrossProduct
import Mathlib.Algebra.BigOperators.Group.Finset.Basic
import Mathlib.Tactic.Ring
import Mathlib.Tactic.FieldSimp
import Mathlib.Tactic.Linarith
import Mathlib.Tactic.LinearCombination
import Mathlib.Tactic.NormNum
/-!
# C02 — invariance / covariance under rigid motions

"Rotating and/or translating the whole input geometry leaves every scalar result unchanged and
rotates every vector result (forces, dipoles, nonadiabatic coupling vectors) by the same rotation.
This holds for every orientation, in particular when one or more interatomic vectors are exactly or
nearly parallel to a Cartesian axis, and consequently net force and net torque vanish."

What is proved here, about the model `Rotation.rotq` of `rotate_with_quaternion`
(`seqm/seqm_functions/two_elec_two_center_int.py:1576–1703`) at `ℝ` with `Real.sqrt` and `|·|`:

* regular chart (`eps ≤ |1 + v_x|`): the frame is orthonormal (rows and columns), has determinant 1 and its
  first row is `v`  (`rot_orthonormal`, `rot_det_one`, `rot_row0`);
* **KNOWN DEFECT F2** — antipodal branch (`|1 + v_x| < eps`, a cone of half-angle `√(2·eps) = 4.5e-4 rad`
  around `v = −x`, i.e. around bonds pointing along `+x`): the frame is the constant `diag(−1,−1,1)`
  (`antipodal_frame_frozen`), its derivative is 0 (`antipodal_grad_zero`), and its first row equals `v` iff
  `v = (−1,0,0)` (`antipodal_row0_iff`); an explicit rational unit vector inside the cone whose frame row
  is not `v` is `antipodal_cone_counterexample`.  Hence the property "for every orientation … nearly parallel
  to a Cartesian axis" is FALSE of the code inside the cone; the theorems for the code as it stands carry
  the hypothesis `eps ≤ |1 + v_x|`.
* the repaired two-chart rotation (`Rotation.rotqTwoChart`, DESIGN Appendix C.12) satisfies the three
  statements for ALL unit vectors (`two_chart_rotation_total`).  This is a theorem about the model of the
  repair only: the repair cannot be committed to /repo (8 baseline tests encode the defect, DESIGN §6-F2).
* pair vectors are translation invariant and rotation covariant; the rotated `(pp|pp)` element of
  `w_withquaternion` — and in fact every one of the 100 entries of the rotated block of a heavy–heavy pair
  (`w_rot_depends_on_row0_only`) — depends on the frame only through its first row; consequently the repair
  changes nothing outside the cone (`two_chart_same_w_on_regular_chart`); pairwise-assembled forces have
  zero net force, central pair forces zero net torque.
* not proved here (staged, DESIGN §5-C02 "Partial"): the covariance `w(Rv) = (R⊗R) w(v) (R⊗R)ᵀ` of the block
  under a rotation of `v`, the overlap blocks, PM6 d orbitals.
-/

namespace C02
open Rotation

/-! ## orthonormality predicates on `M3 ℝ` -/

/-- `R Rᵀ = 1` -/
def RowsOrthonormal (R : M3 ℝ) : Prop :=
  R.r00*R.r00 + R.r01*R.r01 + R.r02*R.r02 = 1 ∧
  R.r10*R.r10 + R.r11*R.r11 + R.r12*R.r12 = 1 ∧
  R.r20*R.r20 + R.r21*R.r21 + R.r22*R.r22 = 1 ∧
  R.r00*R.r10 + R.r01*R.r11 + R.r02*R.r12 = 0 ∧
  R.r00*R.r20 + R.r01*R.r21 + R.r02*R.r22 = 0 ∧
  R.r10*R.r20 + R.r11*R.r21 + R.r12*R.r22 = 0

/-- `Rᵀ R = 1` -/
def ColsOrthonormal (R : M3 ℝ) : Prop :=
  R.r00*R.r00 + R.r10*R.r10 + R.r20*R.r20 = 1 ∧
  R.r01*R.r01 + R.r11*R.r11 + R.r21*R.r21 = 1 ∧
  R.r02*R.r02 + R.r12*R.r12 + R.r22*R.r22 = 1 ∧
  R.r00*R.r01 + R.r10*R.r11 + R.r20*R.r21 = 0 ∧
  R.r00*R.r02 + R.r10*R.r12 + R.r20*R.r22 = 0 ∧
  R.r01*R.r02 + R.r11*R.r12 + R.r21*R.r22 = 0

def det (R : M3 ℝ) : ℝ :=
  R.r00 * (R.r11*R.r22 - R.r12*R.r21) - R.r01 * (R.r10*R.r22 - R.r12*R.r20)
    + R.r02 * (R.r10*R.r21 - R.r11*R.r20)

/-- first row of the frame equals `v` -/
def Row0Is (R : M3 ℝ) (vx vy vz : ℝ) : Prop := R.r00 = vx ∧ R.r01 = vy ∧ R.r02 = vz

/-- the model at `ℝ` -/
noncomputable abbrev rotR (eps vx vy vz : ℝ) : M3 ℝ := rotq Real.sqrt (fun x => |x|) eps vx vy vz

/-- the repaired model at `ℝ` -/
noncomputable abbrev rotR2 (eps vx vy vz : ℝ) : M3 ℝ := rotqTwoChart Real.sqrt (fun x => |x|) eps vx vy vz

/-! ## algebra of `rotOfQ` (lifted from prototype B.9) -/

theorem rotOfQ_rows (qy qz qw : ℝ) (hq : qy*qy + qz*qz + qw*qw = 1) :
    RowsOrthonormal (rotOfQ qy qz qw) := by
  simp only [RowsOrthonormal, rotOfQ]
  refine ⟨?_, ?_, ?_, ?_, ?_, ?_⟩
  · linear_combination (4*qy*qy + 4*qz*qz) * hq
  · linear_combination (4*qz*qz) * hq
  · linear_combination (4*qy*qy) * hq
  · ring
  · ring
  · linear_combination (-4*qy*qz) * hq

theorem rotOfQ_cols (qy qz qw : ℝ) (hq : qy*qy + qz*qz + qw*qw = 1) :
    ColsOrthonormal (rotOfQ qy qz qw) := by
  simp only [ColsOrthonormal, rotOfQ]
  refine ⟨?_, ?_, ?_, ?_, ?_, ?_⟩
  · linear_combination (4*qy*qy + 4*qz*qz) * hq
  · linear_combination (4*qz*qz) * hq
  · linear_combination (4*qy*qy) * hq
  · ring
  · ring
  · linear_combination (-4*qy*qz) * hq

theorem rotOfQ_det (qy qz qw : ℝ) (hq : qy*qy + qz*qz + qw*qw = 1) :
    det (rotOfQ qy qz qw) = 1 := by
  simp only [det, rotOfQ]
  linear_combination (4*qy*qy + 4*qz*qz) * hq

/-- normalised chart quaternion is a unit quaternion -/
theorem chart_unit (vx vy vz N : ℝ) (hN : N*N = vz*vz + vy*vy + (1+vx)*(1+vx)) (hN0 : N ≠ 0) :
    (vz/N)*(vz/N) + (-vy/N)*(-vy/N) + ((1+vx)/N)*((1+vx)/N) = 1 := by
  field_simp
  linear_combination -hN

theorem chart_row0 (vx vy vz N : ℝ) (hu : vx*vx + vy*vy + vz*vz = 1)
    (hN : N*N = vz*vz + vy*vy + (1+vx)*(1+vx)) (hN0 : N ≠ 0) :
    Row0Is (rotOfQ (vz/N) (-vy/N) ((1+vx)/N)) vx vy vz := by
  have hN2 : N*N = 2*(1+vx) := by linear_combination hN + hu
  simp only [Row0Is, rotOfQ]
  refine ⟨?_, ?_, ?_⟩
  · field_simp
    linear_combination (1 - vx) * hN2 - 2 * hu
  · field_simp
    linear_combination (-vy) * hN2
  · field_simp
    linear_combination (-vz) * hN2

/-! ## the two branches of the model -/

theorem one_lit : (1.0 : ℝ) = 1 := by norm_num
theorem zero_lit : (0.0 : ℝ) = 0 := by norm_num

/-- regular chart: the model is `rotOfQ` of the normalised `(0, v_z, −v_y, 1 + v_x)` -/
theorem rotq_regular (eps vx vy vz : ℝ) (h : eps ≤ |1 + vx|) :
    rotR eps vx vy vz =
      rotOfQ (vz / Real.sqrt (vz*vz + vy*vy + (1+vx)*(1+vx)))
             (-vy / Real.sqrt (vz*vz + vy*vy + (1+vx)*(1+vx)))
             ((1+vx) / Real.sqrt (vz*vz + vy*vy + (1+vx)*(1+vx))) := by
  have hm : ¬ |1 + vx| < eps := not_lt.mpr h
  have hs : (0:ℝ)*0 + vz*vz + -vy * -vy + (1+vx)*(1+vx) = vz*vz + vy*vy + (1+vx)*(1+vx) := by ring
  simp only [rotR, rotq, qRaw, inAntipodal, qNorm, one_lit, hm, decide_false, Bool.false_eq_true,
    if_false, hs]

/-- antipodal branch: the model is the constant `diag(−1, −1, 1)` -/
theorem rotq_antipodal (eps vx vy vz : ℝ) (h : |1 + vx| < eps) :
    rotR eps vx vy vz = rotOfQ 0 1 0 := by
  have hs : (0:ℝ)*0 + 0*0 + 1*1 + 0*0 = 1 := by ring
  simp only [rotR, rotq, qRaw, inAntipodal, qNorm, one_lit, zero_lit, h, decide_true, if_true, hs,
    Real.sqrt_one, div_one]

/-- facts about the normalisation on the regular chart -/
theorem chart_norm (eps vx vy vz : ℝ) (heps : 0 < eps) (h : eps ≤ |1 + vx|) :
    let N := Real.sqrt (vz*vz + vy*vy + (1+vx)*(1+vx))
    N * N = vz*vz + vy*vy + (1+vx)*(1+vx) ∧ N ≠ 0 := by
  intro N
  have hne : 1 + vx ≠ 0 := by
    intro h0; rw [h0, abs_zero] at h; linarith
  have hS : 0 < vz*vz + vy*vy + (1+vx)*(1+vx) := by
    have := mul_self_pos.mpr hne
    nlinarith [mul_self_nonneg vz, mul_self_nonneg vy]
  exact ⟨Real.mul_self_sqrt hS.le, (Real.sqrt_pos.mpr hS).ne'⟩

/-! ## C02-1: the regular chart -/

/-- For every `v` (unit or not) outside the antipodal branch the frame is orthogonal. -/
theorem rot_orthonormal (eps vx vy vz : ℝ) (heps : 0 < eps) (h : eps ≤ |1 + vx|) :
    RowsOrthonormal (rotR eps vx vy vz) ∧ ColsOrthonormal (rotR eps vx vy vz) := by
  obtain ⟨hN, hN0⟩ := chart_norm eps vx vy vz heps h
  rw [rotq_regular eps vx vy vz h]
  exact ⟨rotOfQ_rows _ _ _ (chart_unit vx vy vz _ hN hN0), rotOfQ_cols _ _ _ (chart_unit vx vy vz _ hN hN0)⟩

/-- … it is a proper rotation … -/
theorem rot_det_one (eps vx vy vz : ℝ) (heps : 0 < eps) (h : eps ≤ |1 + vx|) : det (rotR eps vx vy vz) = 1 := by
  obtain ⟨hN, hN0⟩ := chart_norm eps vx vy vz heps h
  rw [rotq_regular eps vx vy vz h]
  exact rotOfQ_det _ _ _ (chart_unit vx vy vz _ hN hN0)

/-- … and, for unit `v`, its first row is `v` (so the local x axis is the bond direction). -/
theorem rot_row0 (eps vx vy vz : ℝ) (heps : 0 < eps) (hu : vx*vx + vy*vy + vz*vz = 1)
    (h : eps ≤ |1 + vx|) : Row0Is (rotR eps vx vy vz) vx vy vz := by
  obtain ⟨hN, hN0⟩ := chart_norm eps vx vy vz heps h
  rw [rotq_regular eps vx vy vz h]
  exact chart_row0 vx vy vz _ hu hN hN0

/-- non-vacuity: `v = (3/5, 0, 4/5)` (and the exact axes ±y, ±z, +x) are on the regular chart for `eps64` -/
example : (0:ℝ) < eps64 ∧ (3/5:ℝ)*(3/5) + 0*0 + (4/5)*(4/5) = 1 ∧ (eps64:ℝ) ≤ |1 + 3/5| := by
  refine ⟨by norm_num [eps64], by norm_num, ?_⟩
  rw [abs_of_pos (by norm_num)]; norm_num [eps64]
example : (0:ℝ)*0 + 1*1 + 0*0 = 1 ∧ (eps64:ℝ) ≤ |1 + 0| := by
  refine ⟨by norm_num, ?_⟩
  rw [abs_of_pos (by norm_num)]; norm_num [eps64]

/-! ## C02-2: the antipodal branch — KNOWN DEFECT F2 -/

/-- Inside the cone the frame does not depend on `v` at all: it is frozen at the frame of `v = (−1,0,0)`. -/
theorem antipodal_frame_frozen (eps vx vy vz : ℝ) (h : |1 + vx| < eps) :
    rotR eps vx vy vz = rotR eps (-1) 0 0 := by
  have h0 : |1 + (-1:ℝ)| < eps := by
    have : (0:ℝ) ≤ |1 + vx| := abs_nonneg _
    simpa using lt_of_le_of_lt this h
  rw [rotq_antipodal eps vx vy vz h, rotq_antipodal eps (-1) 0 0 h0]

/-- In the antipodal branch the first row of the frame equals `v` iff `v = (−1, 0, 0)`. -/
theorem antipodal_row0_iff (eps vx vy vz : ℝ) (h : |1 + vx| < eps) :
    Row0Is (rotR eps vx vy vz) vx vy vz ↔ (vx = -1 ∧ vy = 0 ∧ vz = 0) := by
  rw [rotq_antipodal eps vx vy vz h]
  simp only [Row0Is, rotOfQ]
  constructor
  · rintro ⟨h0, h1, h2⟩; exact ⟨by linarith, by linarith, by linarith⟩
  · rintro ⟨h0, h1, h2⟩; subst h0 h1 h2; norm_num

/-- Every unit vector in the cone other than `−x` gets a frame whose first row is not the bond direction. -/
theorem antipodal_row0_ne (eps vx vy vz : ℝ) (h : |1 + vx| < eps) (hne : ¬ (vx = -1 ∧ vy = 0 ∧ vz = 0)) :
    ¬ Row0Is (rotR eps vx vy vz) vx vy vz :=
  fun hr => hne ((antipodal_row0_iff eps vx vy vz h).mp hr)

/-- **F2 witness** (float64 threshold `eps = 1e-7`): the rational unit vector
    `v = (−(10⁸−1)/(10⁸+1), 2·10⁴/(10⁸+1), 0)` (2·10⁻⁴ rad off `−x`) lies inside the cone and the first row
    of the frame returned for it is `(−1, 0, 0) ≠ v`. -/
theorem antipodal_cone_counterexample :
    let vx : ℝ := -(10^8 - 1) / (10^8 + 1)
    let vy : ℝ := 2 * 10^4 / (10^8 + 1)
    let vz : ℝ := 0
    vx*vx + vy*vy + vz*vz = 1 ∧ |1 + vx| < eps64 ∧ ¬ Row0Is (rotR eps64 vx vy vz) vx vy vz := by
  intro vx vy vz
  have hc : |1 + vx| < (eps64 : ℝ) := by
    have : 1 + vx = 2 / (10^8 + 1) := by simp only [vx]; norm_num
    rw [this, abs_of_pos (by norm_num)]
    norm_num [eps64]
  refine ⟨by simp only [vx, vy, vz]; norm_num, hc, ?_⟩
  apply antipodal_row0_ne eps64 vx vy vz hc
  rintro ⟨_, h1, _⟩
  simp only [vy] at h1
  norm_num at h1

/-- The code's `dRdv` vanishes identically in the antipodal branch: analytical and finite-difference
    derivatives agree with each other there, both describing the frozen (wrong) frame. -/
theorem antipodal_grad_zero (eps vx vy vz : ℝ) (h : |1 + vx| < eps) (k i j : Nat) :
    rotqGrad Real.sqrt (fun x => |x|) eps vx vy vz k i j = 0 := by
  simp [rotqGrad, dqdv, dNdv, dqRawDv, inAntipodal, one_lit, h]

/-! ## C02-2 (repair): the two-chart rotation is total

`rotqTwoChart` is the model of the repair drafted in DESIGN Appendix C.12 ("use a second chart for bond
vectors with v_x < 0").  The repair cannot be committed to /repo (the stored references of 8 baseline tests
were generated inside the defect cone), so this theorem is about the repaired model ONLY; for the code as it
stands the three statements hold only under `eps ≤ |1 + v_x|` (above) and fail in the cone (F2). -/

/-- scaling columns 0 and 1 by a sign `s` (`s² = 1`) keeps a frame orthonormal and proper -/
theorem scaleCols (R : M3 ℝ) (s : ℝ) (hs : s * s = 1) (hr : RowsOrthonormal R) (hc : ColsOrthonormal R)
    (hd : det R = 1) :
    let R' : M3 ℝ := { r00 := R.r00 * s, r01 := R.r01 * s, r02 := R.r02 * 1,
                       r10 := R.r10 * s, r11 := R.r11 * s, r12 := R.r12 * 1,
                       r20 := R.r20 * s, r21 := R.r21 * s, r22 := R.r22 * 1 }
    RowsOrthonormal R' ∧ ColsOrthonormal R' ∧ det R' = 1 := by
  intro R'
  obtain ⟨a1, a2, a3, a4, a5, a6⟩ := hr
  obtain ⟨b1, b2, b3, b4, b5, b6⟩ := hc
  simp only [det] at hd
  refine ⟨⟨?_, ?_, ?_, ?_, ?_, ?_⟩, ⟨?_, ?_, ?_, ?_, ?_, ?_⟩, ?_⟩
  · simp only [R']; linear_combination a1 + (R.r00*R.r00 + R.r01*R.r01) * hs
  · simp only [R']; linear_combination a2 + (R.r10*R.r10 + R.r11*R.r11) * hs
  · simp only [R']; linear_combination a3 + (R.r20*R.r20 + R.r21*R.r21) * hs
  · simp only [R']; linear_combination a4 + (R.r00*R.r10 + R.r01*R.r11) * hs
  · simp only [R']; linear_combination a5 + (R.r00*R.r20 + R.r01*R.r21) * hs
  · simp only [R']; linear_combination a6 + (R.r10*R.r20 + R.r11*R.r21) * hs
  · simp only [R']; linear_combination b1 + (R.r00*R.r00 + R.r10*R.r10 + R.r20*R.r20) * hs
  · simp only [R']; linear_combination b2 + (R.r01*R.r01 + R.r11*R.r11 + R.r21*R.r21) * hs
  · simp only [R']; linear_combination b3
  · simp only [R']; linear_combination b4 + (R.r00*R.r01 + R.r10*R.r11 + R.r20*R.r21) * hs
  · simp only [R']; linear_combination s * b5
  · simp only [R']; linear_combination s * b6
  · simp only [det, R']
    linear_combination hd + (R.r00 * (R.r11*R.r22 - R.r12*R.r21) - R.r01 * (R.r10*R.r22 - R.r12*R.r20)
      + R.r02 * (R.r10*R.r21 - R.r11*R.r20)) * hs

/-- **Repaired model**: for ALL unit vectors (the antipodal branch is unreachable because the chart is
    always evaluated at `|v_x| ≥ 0`) the frame is orthonormal, proper, and its first row is `v`. -/
theorem two_chart_rotation_total (eps vx vy vz : ℝ) (heps : 0 < eps) (heps1 : eps ≤ 1)
    (hu : vx*vx + vy*vy + vz*vz = 1) :
    RowsOrthonormal (rotR2 eps vx vy vz) ∧ ColsOrthonormal (rotR2 eps vx vy vz) ∧
    det (rotR2 eps vx vy vz) = 1 ∧ Row0Is (rotR2 eps vx vy vz) vx vy vz := by
  -- the sign and the flipped vector
  obtain ⟨s, hsdef, hs, hpos⟩ : ∃ s : ℝ, (if vx < 0 then (-1:ℝ) else 1) = s ∧ s * s = 1 ∧ 0 ≤ vx * s := by
    by_cases hx : vx < 0
    · exact ⟨-1, by simp [hx], by norm_num, by linarith⟩
    · exact ⟨1, by simp [hx], by norm_num, by linarith [not_lt.mp hx]⟩
  have hu' : (vx*s)*(vx*s) + (vy*s)*(vy*s) + (vz*1)*(vz*1) = 1 := by
    linear_combination hu + (vx*vx + vy*vy) * hs
  have hreg : eps ≤ |1 + vx * s| := by
    rw [abs_of_pos (by linarith)]; linarith
  obtain ⟨hr, hc⟩ := rot_orthonormal eps (vx*s) (vy*s) (vz*1) heps hreg
  have hd := rot_det_one eps (vx*s) (vy*s) (vz*1) heps hreg
  obtain ⟨r0, r1, r2⟩ := rot_row0 eps (vx*s) (vy*s) (vz*1) heps hu' hreg
  obtain ⟨h1, h2, h3⟩ := scaleCols _ s hs hr hc hd
  have hdef : rotR2 eps vx vy vz =
      { r00 := (rotR eps (vx*s) (vy*s) (vz*1)).r00 * s, r01 := (rotR eps (vx*s) (vy*s) (vz*1)).r01 * s,
        r02 := (rotR eps (vx*s) (vy*s) (vz*1)).r02 * 1,
        r10 := (rotR eps (vx*s) (vy*s) (vz*1)).r10 * s, r11 := (rotR eps (vx*s) (vy*s) (vz*1)).r11 * s,
        r12 := (rotR eps (vx*s) (vy*s) (vz*1)).r12 * 1,
        r20 := (rotR eps (vx*s) (vy*s) (vz*1)).r20 * s, r21 := (rotR eps (vx*s) (vy*s) (vz*1)).r21 * s,
        r22 := (rotR eps (vx*s) (vy*s) (vz*1)).r22 * 1 } := by
    simp only [rotR2, rotqTwoChart, rotR, hsdef]
  rw [hdef]
  refine ⟨h1, h2, h3, ?_, ?_, ?_⟩
  · simp only [rotR] at r0 ⊢; rw [r0]; linear_combination vx * hs
  · simp only [rotR] at r1 ⊢; rw [r1]; linear_combination vy * hs
  · simp only [rotR] at r2 ⊢; rw [r2]; ring

/-- non-vacuity, at the two places where the code as it stands fails or is singular:
    exactly `v = (−1, 0, 0)` and the F2 witness inside the cone -/
example : Row0Is (rotR2 eps64 (-1) 0 0) (-1) 0 0 :=
  (two_chart_rotation_total eps64 (-1) 0 0 (by norm_num [eps64]) (by norm_num [eps64]) (by norm_num)).2.2.2
example : Row0Is (rotR2 eps64 (-(10^8 - 1) / (10^8 + 1)) (2 * 10^4 / (10^8 + 1)) 0)
    (-(10^8 - 1) / (10^8 + 1)) (2 * 10^4 / (10^8 + 1)) 0 :=
  (two_chart_rotation_total eps64 _ _ _ (by norm_num [eps64]) (by norm_num [eps64]) (by norm_num)).2.2.2

/-! ## C02-3/4: pair vectors under translation and rotation

`pairVec`, `pairDist`, `pairUnit` mirror `seqm/basics.py:743–746`; every modelled quantity depends on the
coordinates only through these. -/

/-- `(x_j + t) − (x_i + t) = x_j − x_i`; hence distance and unit vector are unchanged. -/
theorem pair_vector_translation_invariant (xi xj t : ℝ × ℝ × ℝ) :
    let xi' := (xi.1 + t.1, xi.2.1 + t.2.1, xi.2.2 + t.2.2)
    let xj' := (xj.1 + t.1, xj.2.1 + t.2.1, xj.2.2 + t.2.2)
    pairVec xi' xj' = pairVec xi xj ∧
    pairDist Real.sqrt (pairVec xi' xj') = pairDist Real.sqrt (pairVec xi xj) ∧
    pairUnit Real.sqrt (pairVec xi' xj') = pairUnit Real.sqrt (pairVec xi xj) := by
  intro xi' xj'
  have h : pairVec xi' xj' = pairVec xi xj := by
    simp only [pairVec, xi', xj', Prod.mk.injEq]
    exact ⟨by ring, by ring, by ring⟩
  exact ⟨h, by rw [h], by rw [h]⟩

/-- `R d` for a row-major `M3` -/
def mulVec (R : M3 ℝ) (d : ℝ × ℝ × ℝ) : ℝ × ℝ × ℝ :=
  (R.r00*d.1 + R.r01*d.2.1 + R.r02*d.2.2, R.r10*d.1 + R.r11*d.2.1 + R.r12*d.2.2,
   R.r20*d.1 + R.r21*d.2.1 + R.r22*d.2.2)

theorem mulVec_sub (R : M3 ℝ) (xi xj : ℝ × ℝ × ℝ) :
    pairVec (mulVec R xi) (mulVec R xj) = mulVec R (pairVec xi xj) := by
  simp only [pairVec, mulVec, Prod.mk.injEq]
  exact ⟨by ring, by ring, by ring⟩

/-- For orthogonal `R` (`RᵀR = 1`): the pair vector of the rotated geometry is `R d`, its length is `|d|`
    and the unit vector is rotated, `x̂ ↦ R x̂`. -/
theorem pair_vector_rotation_covariant (R : M3 ℝ) (hR : ColsOrthonormal R) (xi xj : ℝ × ℝ × ℝ) :
    pairVec (mulVec R xi) (mulVec R xj) = mulVec R (pairVec xi xj) ∧
    pairDist Real.sqrt (pairVec (mulVec R xi) (mulVec R xj)) = pairDist Real.sqrt (pairVec xi xj) ∧
    pairUnit Real.sqrt (pairVec (mulVec R xi) (mulVec R xj)) = mulVec R (pairUnit Real.sqrt (pairVec xi xj)) := by
  obtain ⟨c1, c2, c3, c4, c5, c6⟩ := hR
  rw [mulVec_sub]
  generalize pairVec xi xj = d
  obtain ⟨d0, d1, d2⟩ := d
  have hd : pairDist Real.sqrt (mulVec R (d0, d1, d2)) = pairDist Real.sqrt (d0, d1, d2) := by
    simp only [pairDist, mulVec]
    congr 1
    linear_combination (d0*d0) * c1 + (d1*d1) * c2 + (d2*d2) * c3 + (2*d0*d1) * c4 + (2*d0*d2) * c5
      + (2*d1*d2) * c6
  refine ⟨rfl, hd, ?_⟩
  simp only [pairUnit, hd]
  simp only [mulVec, Prod.mk.injEq]
  exact ⟨by ring, by ring, by ring⟩

/-- non-vacuity: the frame of `v = (3/5, 0, 4/5)` is such an `R` -/
example : ColsOrthonormal (rotR eps64 (3/5) 0 (4/5)) :=
  (rot_orthonormal eps64 (3/5) 0 (4/5) (by norm_num [eps64])
    (by rw [abs_of_pos (by norm_num)]; norm_num [eps64])).2

/-! ## C02-4: frame independence of the rotated `(pp|pp)` element (lifted from prototype B.16)

`wPPPP` is the `(pp|pp)` branch of `w_withquaternion`
(`two_elec_two_center_int.py:1494–1525`): `r0, r1, r2` are the rows of the frame, `k l m n` Cartesian
indices, `ri` the local-frame integrals `ri[15..21]`. -/

section pppp
variable {ι : Type}

/-- the seven terms exactly as the code accumulates them -/
def wPPPP (ri15 ri16 ri17 ri18 ri19 ri20 ri21 : ℝ) (r0 r1 r2 : ι → ℝ) (k l m n : ι) : ℝ :=
  ri15 * (r0 k * r0 l * r0 m * r0 n)
  + ri16 * ((r1 k * r1 l + r2 k * r2 l) * r0 m * r0 n)
  + ri17 * ((r1 m * r1 n + r2 m * r2 n) * (r0 k * r0 l))
  + ri18 * (r1 k * r1 l * r1 m * r1 n + r2 k * r2 l * r2 m * r2 n)
  + ri19 * (r0 k * (r0 m * (r1 l * r1 n + r2 l * r2 n) + r0 n * (r1 l * r1 m + r2 l * r2 m))
      + r0 l * (r0 m * (r1 k * r1 n + r2 k * r2 n) + r0 n * (r1 k * r1 m + r2 k * r2 m)))
  + ri20 * (r1 k * r1 l * r2 m * r2 n + r2 k * r2 l * r1 m * r1 n)
  + ri21 * ((r1 k * r2 l + r2 k * r1 l) * (r1 m * r2 n + r2 m * r1 n))

/-- the transverse part (terms 4, 6, 7) -/
def wPPPPtransverse (ri18 ri20 ri21 : ℝ) (r1 r2 : ι → ℝ) (k l m n : ι) : ℝ :=
  ri18 * (r1 k * r1 l * r1 m * r1 n + r2 k * r2 l * r2 m * r2 n)
  + ri20 * (r1 k * r1 l * r2 m * r2 n + r2 k * r2 l * r1 m * r1 n)
  + ri21 * ((r1 k * r2 l + r2 k * r1 l) * (r1 m * r2 n + r2 m * r1 n))

/-- transverse projector `D_ij = r1_i r1_j + r2_i r2_j` -/
def projD (r1 r2 : ι → ℝ) (i j : ι) : ℝ := r1 i * r1 j + r2 i * r2 j

/-- With the axial identity `ri21 = ½(ri18 − ri20)` (how the local-frame code defines `ri[21]`) the
    transverse part is a polynomial in the projector `D` only. -/
theorem pppp_transverse_poly (p q : ℝ) (r1 r2 : ι → ℝ) (k l m n : ι) :
    wPPPPtransverse p q ((1/2) * (p - q)) r1 r2 k l m n
      = q * projD r1 r2 k l * projD r1 r2 m n
        + (1/2) * (p - q) * (projD r1 r2 k m * projD r1 r2 l n + projD r1 r2 k n * projD r1 r2 l m) := by
  simp only [wPPPPtransverse, projD]; ring

/-- the whole element is a polynomial in the first row `r0` and `D` -/
theorem pppp_poly (ri15 ri16 ri17 p ri19 q : ℝ) (r0 r1 r2 : ι → ℝ) (k l m n : ι) :
    wPPPP ri15 ri16 ri17 p ri19 q ((1/2) * (p - q)) r0 r1 r2 k l m n
      = ri15 * (r0 k * r0 l * r0 m * r0 n)
        + ri16 * (projD r1 r2 k l * r0 m * r0 n) + ri17 * (projD r1 r2 m n * (r0 k * r0 l))
        + ri19 * (r0 k * (r0 m * projD r1 r2 l n + r0 n * projD r1 r2 l m)
                  + r0 l * (r0 m * projD r1 r2 k n + r0 n * projD r1 r2 k m))
        + q * projD r1 r2 k l * projD r1 r2 m n
        + (1/2) * (p - q) * (projD r1 r2 k m * projD r1 r2 l n + projD r1 r2 k n * projD r1 r2 l m) := by
  simp only [wPPPP, projD]; ring

/-- for a frame with orthonormal columns the projector is `δ − v vᵀ`: it is determined by the first row -/
theorem projD_of_cols (δ : ι → ι → ℝ) (r0 r1 r2 : ι → ℝ)
    (hcol : ∀ i j, r0 i * r0 j + r1 i * r1 j + r2 i * r2 j = δ i j) (i j : ι) :
    projD r1 r2 i j = δ i j - r0 i * r0 j := by
  simp only [projD]; linarith [hcol i j]

/-- **Frame independence**: two orthonormal frames with the same first row (any choice of the two transverse
    axes, e.g. before/after a rigid rotation of the molecule, or regular chart vs. second chart) give the same
    rotated `(pp|pp)` element — the transverse part, and the whole element. -/
theorem pppp_transverse_frame_independent (δ : ι → ι → ℝ) (r0 r1 r2 r1' r2' : ι → ℝ)
    (hcol : ∀ i j, r0 i * r0 j + r1 i * r1 j + r2 i * r2 j = δ i j)
    (hcol' : ∀ i j, r0 i * r0 j + r1' i * r1' j + r2' i * r2' j = δ i j)
    (ri15 ri16 ri17 p ri19 q : ℝ) (k l m n : ι) :
    wPPPPtransverse p q ((1/2) * (p - q)) r1 r2 k l m n
      = wPPPPtransverse p q ((1/2) * (p - q)) r1' r2' k l m n ∧
    wPPPP ri15 ri16 ri17 p ri19 q ((1/2) * (p - q)) r0 r1 r2 k l m n
      = wPPPP ri15 ri16 ri17 p ri19 q ((1/2) * (p - q)) r0 r1' r2' k l m n := by
  have hD : ∀ i j, projD r1 r2 i j = projD r1' r2' i j := fun i j => by
    rw [projD_of_cols δ r0 r1 r2 hcol, projD_of_cols δ r0 r1' r2' hcol']
  constructor
  · rw [pppp_transverse_poly, pppp_transverse_poly]; simp only [hD]
  · rw [pppp_poly, pppp_poly]; simp only [hD]

/-- without the axial identity the transverse part is NOT frame independent: rotating the transverse axes by
    45° about the bond changes it (so `ri21 = ½(ri18 − ri20)` is exactly what is needed) -/
theorem pppp_needs_axial_identity :
    ∃ (p q c : ℝ) (r1 r2 r1' r2' : Fin 3 → ℝ),
      (∀ i j, projD r1 r2 i j = projD r1' r2' i j) ∧
      wPPPPtransverse p q c r1 r2 1 1 1 1 ≠ wPPPPtransverse p q c r1' r2' 1 1 1 1 := by
  refine ⟨1, 0, 0, ![0, 1, 0], ![0, 0, 1], ![0, 3/5, 4/5], ![0, -4/5, 3/5], ?_, ?_⟩
  · intro i j
    fin_cases i <;> fin_cases j <;> simp [projD] <;> norm_num
  · simp [wPPPPtransverse]; norm_num

end pppp

/-! ### the whole rotated block of a heavy–heavy pair (`Rotation.wElem`, all seven formula shapes) -/

/-- `wElem` with the transverse rows replaced by an abstract projector `D` -/
noncomputable def wElemPoly (ri : Nat → ℝ) (r0 : Nat → ℝ) (D : Nat → Nat → ℝ) (kk ll mm nn : Nat) : ℝ :=
  let k := kk - 1
  let l := ll - 1
  let m := mm - 1
  let n := nn - 1
  if kk = 0 then
    if mm = 0 then ri 0
    else if nn = 0 then ri 4 * r0 m
    else ri 10 * (r0 m * r0 n) + ri 11 * D m n
  else if ll = 0 then
    if mm = 0 then ri 1 * r0 k
    else if nn = 0 then ri 5 * (r0 k * r0 m) + ri 6 * D k m
    else ri 12 * (r0 k * r0 m * r0 n) + ri 13 * (D m n * r0 k) + ri 14 * (D k n * r0 m + D k m * r0 n)
  else
    if mm = 0 then ri 2 * (r0 k * r0 l) + ri 3 * D k l
    else if nn = 0 then
      ri 7 * (r0 k * r0 l * r0 m) + ri 8 * (D k l * r0 m) + ri 9 * (r0 k * D l m + r0 l * D k m)
    else
      ri 15 * (r0 k * r0 l * r0 m * r0 n) + ri 16 * (D k l * r0 m * r0 n) + ri 17 * (D m n * (r0 k * r0 l))
      + ri 19 * (r0 k * (r0 m * D l n + r0 n * D l m) + r0 l * (r0 m * D k n + r0 n * D k m))
      + ri 20 * D k l * D m n + (1/2) * (ri 18 - ri 20) * (D k m * D l n + D k n * D l m)

theorem wElem_eq_poly (ri r0 r1 r2 : Nat → ℝ) (hax : ri 21 = (1/2) * (ri 18 - ri 20)) (kk ll mm nn : Nat) :
    wElem ri r0 r1 r2 kk ll mm nn = wElemPoly ri r0 (projD r1 r2) kk ll mm nn := by
  simp only [wElem, wElemPoly, projD, hax]
  split_ifs <;> ring

theorem w_elem_frame_independent (ri r0 r1 r2 r1' r2' : Nat → ℝ) (hax : ri 21 = (1/2) * (ri 18 - ri 20))
    (hD : ∀ i j, projD r1 r2 i j = projD r1' r2' i j) (kk ll mm nn : Nat) :
    wElem ri r0 r1 r2 kk ll mm nn = wElem ri r0 r1' r2' kk ll mm nn := by
  have : projD r1 r2 = projD r1' r2' := funext fun i => funext fun j => hD i j
  rw [wElem_eq_poly _ _ _ _ hax, wElem_eq_poly _ _ _ _ hax, this]

/-- for two frames with orthonormal columns and the same first row the transverse projectors coincide -/
theorem projD_eq_of_cols (R R' : M3 ℝ) (hc : ColsOrthonormal R) (hc' : ColsOrthonormal R')
    (h0 : R.r00 = R'.r00 ∧ R.r01 = R'.r01 ∧ R.r02 = R'.r02) (i j : Nat) :
    projD (R.row 1) (R.row 2) i j = projD (R'.row 1) (R'.row 2) i j := by
  obtain ⟨c1, c2, c3, c4, c5, c6⟩ := hc
  obtain ⟨d1, d2, d3, d4, d5, d6⟩ := hc'
  obtain ⟨e0, e1, e2⟩ := h0
  simp only [e0, e1, e2] at c1 c2 c3 c4 c5 c6
  rcases i with _ | _ | i <;> rcases j with _ | _ | j <;> simp only [projD, M3.row, M3.get] <;> linarith

/-- **The rotated integral block depends on the frame only through its first row**: all 100 entries
    `w[pair, :]` agree for any two orthonormal frames with the same first row. -/
theorem w_rot_depends_on_row0_only (ri : Nat → ℝ) (hax : ri 21 = (1/2) * (ri 18 - ri 20)) (R R' : M3 ℝ)
    (hc : ColsOrthonormal R) (hc' : ColsOrthonormal R')
    (h0 : R.r00 = R'.r00 ∧ R.r01 = R'.r01 ∧ R.r02 = R'.r02) :
    wRot ri R = wRot ri R' := by
  simp only [wRot]
  apply List.map_congr_left
  rintro ⟨kk, ll, mm, nn⟩ _
  have hr0 : R.row 0 = R'.row 0 := by
    obtain ⟨e0, e1, e2⟩ := h0
    funext c
    rcases c with _ | _ | c <;> simp only [M3.row, M3.get] <;> assumption
  simp only [hr0]
  exact w_elem_frame_independent ri _ _ _ _ _ hax (projD_eq_of_cols R R' hc hc' h0) kk ll mm nn

/-- non-vacuity: two different orthonormal frames with the same first row, and integrals obeying the axial
    identity -/
example : ∃ (R R' : M3 ℝ) (ri : Nat → ℝ), ColsOrthonormal R ∧ ColsOrthonormal R' ∧
    (R.r00 = R'.r00 ∧ R.r01 = R'.r01 ∧ R.r02 = R'.r02) ∧ R.r11 ≠ R'.r11 ∧
    ri 21 = (1/2) * (ri 18 - ri 20) ∧ ri 18 ≠ ri 20 := by
  refine ⟨⟨1, 0, 0, 0, 1, 0, 0, 0, 1⟩, ⟨1, 0, 0, 0, 3/5, 4/5, 0, -4/5, 3/5⟩,
    fun i => if i = 18 then 3 else if i = 21 then 1 else if i = 20 then 1 else 0, ?_, ?_, ?_, ?_, ?_, ?_⟩
  · simp only [ColsOrthonormal]; norm_num
  · simp only [ColsOrthonormal]; norm_num
  · simp
  · norm_num
  · norm_num
  · norm_num

/-- Corollary: outside the cone the repaired two-chart frame produces exactly the same integrals as the frame
    of the code (the repair only changes results inside the F2 cone). -/
theorem two_chart_same_w_on_regular_chart (ri : Nat → ℝ) (hax : ri 21 = (1/2) * (ri 18 - ri 20))
    (eps vx vy vz : ℝ) (heps : 0 < eps) (heps1 : eps ≤ 1) (hu : vx*vx + vy*vy + vz*vz = 1)
    (h : eps ≤ |1 + vx|) :
    wRot ri (rotR eps vx vy vz) = wRot ri (rotR2 eps vx vy vz) := by
  obtain ⟨_, hc2, _, r0, r1, r2⟩ := two_chart_rotation_total eps vx vy vz heps heps1 hu
  obtain ⟨s0, s1, s2⟩ := rot_row0 eps vx vy vz heps hu h
  exact w_rot_depends_on_row0_only ri hax _ _ (rot_orthonormal eps vx vy vz heps h).2 hc2
    ⟨by rw [s0, r0], by rw [s1, r1], by rw [s2, r2]⟩


/-- non-vacuity of `pppp_transverse_frame_independent`: the frames `(x; y, z)` and `(x; (0,3/5,4/5), (0,−4/5,3/5))` -/
example : ∃ (δ : Fin 3 → Fin 3 → ℝ) (r0 r1 r2 r1' r2' : Fin 3 → ℝ),
    (∀ i j, r0 i * r0 j + r1 i * r1 j + r2 i * r2 j = δ i j) ∧
    (∀ i j, r0 i * r0 j + r1' i * r1' j + r2' i * r2' j = δ i j) ∧ r1 ≠ r1' := by
  refine ⟨fun i j => if i = j then 1 else 0, ![1, 0, 0], ![0, 1, 0], ![0, 0, 1], ![0, 3/5, 4/5],
    ![0, -4/5, 3/5], ?_, ?_, ?_⟩
  · intro i j; fin_cases i <;> fin_cases j <;> simp
  · intro i j; fin_cases i <;> fin_cases j <;> simp <;> norm_num
  · intro h
    have := congrFun h 1
    simp at this
    norm_num at this

/-! ## net force and net torque

`contract_ao_derivatives_with_density` (`seqm/seqm_functions/anal_grad.py:214–221`) assembles
```
grad = zeros ; grad.index_add_(0, idxi, pair_grad) ; grad.index_add_(0, idxj, pair_grad, alpha=-1.0)
```
-/

section net
open Finset Matrix
variable {ι π : Type} [Fintype ι] [DecidableEq ι] [Fintype π]

/-- the `index_add_` assembly: pair `p` contributes `+g p` to atom `idxi p` and `−g p` to atom `idxj p` -/
def assemble (idxi idxj : π → ι) (g : π → Fin 3 → ℝ) (a : ι) : Fin 3 → ℝ :=
  ∑ p, ((if idxi p = a then g p else 0) - (if idxj p = a then g p else 0))

/-- pairwise assembly ⇒ the net gradient (net force) is exactly 0, whatever the pair terms are -/
theorem net_force_zero_of_pairwise (idxi idxj : π → ι) (g : π → Fin 3 → ℝ) :
    ∑ a, assemble idxi idxj g a = 0 := by
  simp only [assemble]
  rw [sum_comm]
  apply sum_eq_zero
  intro p _
  rw [sum_sub_distrib, sum_ite_eq, sum_ite_eq]
  simp

omit [Fintype ι] in
/-- an atom that occurs in no pair (a padding atom) receives exactly 0 -/
theorem assemble_unpaired_zero (idxi idxj : π → ι) (g : π → Fin 3 → ℝ) (a : ι)
    (hi : ∀ p, idxi p ≠ a) (hj : ∀ p, idxj p ≠ a) : assemble idxi idxj g a = 0 := by
  simp only [assemble]
  apply sum_eq_zero
  intro p _
  simp [hi p, hj p]

/-- central pair terms (`g p ∥ x_j − x_i`) ⇒ the net torque `Σ_a x_a × F_a` is exactly 0.

Non-central (orientation-dependent) pair terms — everything that goes through the local frame — are not
covered by this algebra: for them zero net torque is equivalent to rotational invariance of the energy,
which rests on the frame-independence theorem above (and fails inside the F2 cone). -/
theorem net_torque_zero_of_central (idxi idxj : π → ι) (x : ι → Fin 3 → ℝ) (c : π → ℝ) :
    ∑ a, x a ⨯₃ assemble idxi idxj (fun p => c p • (x (idxj p) - x (idxi p))) a = 0 := by
  simp only [assemble, map_sum, map_sub]
  rw [sum_comm]
  apply sum_eq_zero
  intro p _
  have h1 : ∀ a, (x a ⨯₃ (if idxi p = a then c p • (x (idxj p) - x (idxi p)) else 0))
      = if idxi p = a then x (idxi p) ⨯₃ (c p • (x (idxj p) - x (idxi p))) else 0 := by
    intro a; split_ifs with h
    · rw [h]
    · simp
  have h2 : ∀ a, (x a ⨯₃ (if idxj p = a then c p • (x (idxj p) - x (idxi p)) else 0))
      = if idxj p = a then x (idxj p) ⨯₃ (c p • (x (idxj p) - x (idxi p))) else 0 := by
    intro a; split_ifs with h
    · rw [h]
    · simp
  simp only [h1, h2, sum_sub_distrib, sum_ite_eq, mem_univ, if_true]
  have key : ∀ (u v w : Fin 3 → ℝ) (t : ℝ), u - v = -w → (u ⨯₃ (t • w)) - (v ⨯₃ (t • w)) = 0 := by
    intro u v w t h
    rw [← LinearMap.sub_apply, ← map_sub, h, LinearMap.map_smul, map_neg, LinearMap.neg_apply, cross_self]
    simp
  exact key _ _ _ _ (by abel)

end net

/-- non-vacuity: three atoms, the three pairs, arbitrary central strengths -/
example : ∃ (idxi idxj : Fin 3 → Fin 3) (g : Fin 3 → Fin 3 → ℝ),
    assemble idxi idxj g 0 ≠ 0 ∧ ∑ a, assemble idxi idxj g a = 0 := by
  refine ⟨![0, 0, 1], ![1, 2, 2], fun _ => ![1, 0, 0], ?_, net_force_zero_of_pairwise _ _ _⟩
  intro h
  have := congrFun h 0
  simp [assemble, Fin.sum_univ_three] at this

end C02
