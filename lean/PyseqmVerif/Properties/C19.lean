import PyseqmVerif.Proofs.ParserLemmas
import Mathlib.Analysis.Real.Sqrt
import Mathlib.Tactic.Linarith
import Mathlib.Tactic.NormNum
import Mathlib.Tactic.Positivity
import Mathlib.Tactic.FieldSimp
import Mathlib.Tactic.LinearCombination
import Mathlib.Tactic.FinCases
import Mathlib.Data.Fin.VecNotation
/-!
# C19 — fragment additivity and the pair cutoff

"The energy of a system made of closed-shell neutral fragments separated by a large distance tends
to the sum of the fragment energies, with the deviation falling off at least as fast as the leading
multipole interaction, and each fragment's forces, charges and orbital energies tend to their
isolated values.  With the default (infinite) pair cutoff no interaction is dropped at any
distance; with a finite cutoff exactly the pairs beyond it are ignored."

Proved here: the cutoff part for the pair list of `Parser.forward` (exact), and the two algebraic
facts behind the asymptotic part for the frozen-density interaction: monopole cancellation and the
`O(ρ²/R³)` deviation of the Klopman–Ohno kernel from `1/R`.  The decay *rate* of the SCF-relaxed
energy is validated numerically (DESIGN, C19 "Partial").
-/
namespace C19
open Parser

/-! ## the cutoff -/

section cutoff
variable {K : Type} [Field K] [LinearOrder K] [IsStrictOrderedRing K]

/-- `close_pairs = pairdist_sq < self.outercutoff**2`, addressed by flat atom indices.
    (`d2 i j` is the value of `pairdist_sq` the code computed, `c` the cutoff; comparisons of
    floating point numbers are exact, so only the two numbers matter.) -/
def closeOf (d2 : Nat → Nat → K) (c : K) : Nat → Nat → Bool := fun i j => decide (d2 i j < c * c)

omit [IsStrictOrderedRing K] in
/-- finite cutoff: a pair is in the list iff it is an ordered pair of real atoms of one molecule
    with `d² < c²` — strictly; nothing else is dropped and nothing else is kept -/
theorem finite_cutoff_exact (nmol ms : Nat) (sp : Nat → Nat) (d2 : Nat → Nat → K) (c : K) (p : Nat × Nat) :
    p ∈ pairList nmol ms sp (closeOf d2 c) ↔
      p.1 < p.2 ∧ p.2 < nmol * ms ∧ p.1 / ms = p.2 / ms ∧ 0 < sp p.1 ∧ 0 < sp p.2 ∧
        d2 p.1 p.2 < c * c := by
  rw [mem_pairList']
  simp [closeOf]

/-- in terms of distances: for `d, c ≥ 0`, `d² < c² ⇔ d < c`; a pair at exactly the cutoff is dropped -/
theorem cutoff_in_distance {d c : K} (hd : 0 ≤ d) (hc : 0 ≤ c) : d * d < c * c ↔ d < c :=
  (mul_self_lt_mul_self_iff hd hc).symm

omit [IsStrictOrderedRing K] in
theorem cutoff_strict (nmol ms : Nat) (sp : Nat → Nat) (d2 : Nat → Nat → K) (c : K) (p : Nat × Nat)
    (h : c * c ≤ d2 p.1 p.2) : p ∉ pairList nmol ms sp (closeOf d2 c) := by
  intro hp
  have := ((finite_cutoff_exact nmol ms sp d2 c p).mp hp).2.2.2.2.2
  exact absurd this (not_lt.mpr h)

omit [IsStrictOrderedRing K] in
/-- default cutoff `pair_outer_cutoff = 1e10` (`cutoff² = 1e20`): whenever all squared distances
    between real atoms of one molecule are below `1e20`, every output of the parser equals the one
    obtained with no distance test at all — no pair is dropped -/
theorem default_cutoff_drops_nothing (nmol ms : Nat) (sp : Nat → Nat) (d2 : Nat → Nat → K)
    (h : ∀ i j, i < j → j < nmol * ms → i / ms = j / ms → 0 < sp i → 0 < sp j → d2 i j < 1e20) :
    run nmol ms sp (closeOf d2 1e10) = run nmol ms sp (fun _ _ => true) ∧
    ∀ p, p ∈ pairList nmol ms sp (closeOf d2 1e10) ↔
      p.1 < p.2 ∧ p.2 < nmol * ms ∧ p.1 / ms = p.2 / ms ∧ 0 < sp p.1 ∧ 0 < sp p.2 := by
  have hc : (1e10 : K) * 1e10 = 1e20 := by norm_num
  have hpl : pairList nmol ms sp (closeOf d2 1e10) = pairList nmol ms sp (fun _ _ => true) := by
    apply pairList_congr_close
    intro i j h1 h2 h3 h4 h5
    simp only [closeOf, hc, decide_eq_true_eq]
    exact h i j h1 h2 h3 h4 h5
  refine ⟨run_congr_close hpl, fun p => ?_⟩
  rw [hpl, mem_pairList']
  simp

/-- coordinates bounded by `1e9` (Å) in absolute value give squared distances below `1e20` -/
theorem bounded_coordinates_are_close (x y : Fin 3 → K) (hx : ∀ k, |x k| ≤ 1e9) (hy : ∀ k, |y k| ≤ 1e9) :
    (x 0 - y 0) * (x 0 - y 0) + (x 1 - y 1) * (x 1 - y 1) + (x 2 - y 2) * (x 2 - y 2) < 1e20 := by
  have comp : ∀ k, (x k - y k) * (x k - y k) ≤ 4e18 := by
    intro k
    have h1 := abs_le.mp (hx k)
    have h2 := abs_le.mp (hy k)
    have h3 : |x k - y k| ≤ 2e9 := by
      rw [abs_le]; constructor <;> norm_num at h1 h2 ⊢ <;> linarith [h1.1, h1.2, h2.1, h2.2]
    have h4 : (x k - y k) * (x k - y k) = |x k - y k| * |x k - y k| := (abs_mul_abs_self _).symm
    rw [h4]
    have h5 : |x k - y k| * |x k - y k| ≤ 2e9 * 2e9 :=
      mul_le_mul h3 h3 (abs_nonneg _) (by norm_num)
    have h6 : (2e9 : K) * 2e9 = 4e18 := by norm_num
    rw [h6] at h5; exact h5
  have a := comp 0; have b := comp 1; have c := comp 2
  have : (4e18 : K) + 4e18 + 4e18 < 1e20 := by norm_num
  linarith

end cutoff

/-! ## monopole cancellation -/

/-- core–core, core–electron (twice) and electron–electron monopole terms between atoms `A` and `B`
    combine to the interaction of the net charges `q = Z − P` -/
theorem monopole_cancellation {K : Type} [CommRing K] (ZA ZB PA PB γ : K) :
    ZA * ZB * γ - ZA * PB * γ - ZB * PA * γ + PA * PB * γ = (ZA - PA) * (ZB - PB) * γ := by
  ring

/-- hence, to leading order (one common `γ` for all atom pairs of two distant fragments), the
    inter-fragment monopole energy is `Q₁ Q₂ γ` and vanishes when a fragment is neutral -/
theorem monopole_sum_neutral {ι : Type} (F1 F2 : List ι) (q : ι → ℝ) (γ : ℝ) :
    (F1.map fun a => (F2.map fun b => q a * q b * γ).sum).sum =
      (F1.map q).sum * (F2.map q).sum * γ ∧
    ((F1.map q).sum = 0 ∨ (F2.map q).sum = 0 →
      (F1.map fun a => (F2.map fun b => q a * q b * γ).sum).sum = 0) := by
  have inner : ∀ a, (F2.map fun b => q a * q b * γ).sum = q a * (F2.map q).sum * γ := by
    intro a
    induction F2 with
    | nil => simp
    | cons b l ih => simp only [List.map_cons, List.sum_cons, ih]; ring
  have outer : (F1.map fun a => (F2.map fun b => q a * q b * γ).sum).sum =
      (F1.map q).sum * (F2.map q).sum * γ := by
    simp only [inner]
    induction F1 with
    | nil => simp
    | cons a l ih => simp only [List.map_cons, List.sum_cons, ih]; ring
  refine ⟨outer, fun h => ?_⟩
  rw [outer]
  rcases h with h | h <;> rw [h] <;> ring

/-! ## Klopman–Ohno kernel -/

/-- `0 ≤ 1/R − 1/√(R²+ρ²) ≤ ρ²/(2R³)` for `R > 0` -/
theorem klopman_ohno_bounds (R ρ : ℝ) (hR : 0 < R) :
    0 ≤ 1 / R - 1 / Real.sqrt (R ^ 2 + ρ ^ 2) ∧
    1 / R - 1 / Real.sqrt (R ^ 2 + ρ ^ 2) ≤ ρ ^ 2 / (2 * R ^ 3) := by
  set s := Real.sqrt (R ^ 2 + ρ ^ 2) with hs_def
  have hs2 : s ^ 2 = R ^ 2 + ρ ^ 2 := Real.sq_sqrt (by positivity)
  have hs0 : 0 ≤ s := Real.sqrt_nonneg _
  have hsR : R ≤ s := by
    by_contra h
    rw [not_le] at h
    nlinarith [sq_nonneg ρ]
  have hs : 0 < s := lt_of_lt_of_le hR hsR
  have key : 1 / R - 1 / s = ρ ^ 2 / (R * s * (s + R)) := by
    rw [div_sub_div _ _ hR.ne' hs.ne', div_eq_div_iff (by positivity) (by positivity)]
    linear_combination (R * s) * hs2
  constructor
  · rw [key]; positivity
  · rw [key]
    apply div_le_div_of_nonneg_left (by positivity) (by positivity)
    have h1 : R * R ≤ R * s := mul_le_mul_of_nonneg_left hsR hR.le
    have h2 : 2 * R ≤ s + R := by linarith
    have h3 : R * R * (2 * R) ≤ R * s * (s + R) := mul_le_mul h1 h2 (by positivity) (by positivity)
    calc 2 * R ^ 3 = R * R * (2 * R) := by ring
      _ ≤ R * s * (s + R) := h3

/-- `|1/√(R²+ρ²) − 1/R| ≤ ρ²/(2R³)`: the two-centre Coulomb kernel `e²/√(R²+ρ²)` differs from the
    point-charge `e²/R` by a term decaying like `1/R³` — so after monopole cancellation between
    neutral fragments what is left decays at least like a dipole–dipole interaction -/
theorem klopman_ohno_asymptotic (R ρ : ℝ) (hR : 0 < R) (_hρ : 0 ≤ ρ) :
    |1 / Real.sqrt (R ^ 2 + ρ ^ 2) - 1 / R| ≤ ρ ^ 2 / (2 * R ^ 3) := by
  obtain ⟨h1, h2⟩ := klopman_ohno_bounds R ρ hR
  rw [abs_le]
  constructor <;> linarith

/-! ## non-vacuity -/

/-- two padded molecules `[[8,1,1,0],[6,1,1,1]]`; all distances² are 1 except atoms 4–7 at 9 -/
def exSp : Nat → Nat := spOf [[8, 1, 1, 0], [6, 1, 1, 1]]
def exD2 : Nat → Nat → ℚ := fun i j => if (i = 4 ∧ j = 7) ∨ (i = 7 ∧ j = 4) then 9 else 1

/-- cutoff 2 (`c² = 4`) drops exactly the pair (4,7); cutoff 3 still drops it (`9 < 9` is false);
    the default cutoff keeps it -/
example : (4, 7) ∉ pairList 2 4 exSp (closeOf exD2 2) ∧ (4, 5) ∈ pairList 2 4 exSp (closeOf exD2 2) ∧
    (4, 7) ∉ pairList 2 4 exSp (closeOf exD2 3) ∧ (4, 7) ∈ pairList 2 4 exSp (closeOf exD2 1e10) := by
  refine ⟨?_, ?_, ?_, ?_⟩
  · rw [finite_cutoff_exact]; simp [exD2]; norm_num
  · rw [finite_cutoff_exact]; simp [exD2, exSp, spOf]; norm_num
  · rw [finite_cutoff_exact]; simp [exD2]; norm_num
  · rw [finite_cutoff_exact]; simp [exD2, exSp, spOf]; norm_num

example : ∀ i j, i < j → j < 2 * 4 → i / 4 = j / 4 → 0 < exSp i → 0 < exSp j → exD2 i j < 1e20 := by
  intro i j _ _ _ _ _
  unfold exD2; split <;> norm_num

example : ((0 : ℚ) - 1e9) * (0 - 1e9) + (1e9 - -1e9) * (1e9 - -1e9) + (0 - 0) * (0 - 0) < 1e20 :=
  bounded_coordinates_are_close ![0, 1e9, 0] ![1e9, -1e9, 0]
    (by intro k; fin_cases k <;> simp <;> norm_num) (by intro k; fin_cases k <;> simp <;> norm_num)

/-- a neutral fragment `(+1, −1)` next to a charged one -/
example : (([1, -1] : List ℝ).map fun a => (([2] : List ℝ).map fun b => a * b * 3).sum).sum = 0 :=
  (monopole_sum_neutral [1, -1] [2] id 3).2 (Or.inl (by norm_num))

example : |1 / Real.sqrt ((10 : ℝ) ^ 2 + 1 ^ 2) - 1 / 10| ≤ 1 ^ 2 / (2 * 10 ^ 3) :=
  klopman_ohno_asymptotic 10 1 (by norm_num) (by norm_num)

end C19
